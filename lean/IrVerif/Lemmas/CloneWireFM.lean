/-
Wiring image and value-map bijection for `Function.clone` and `Model.clone` (round 4), lifted from
the graph-level development (Lemmas/CloneWire.lean, Lemmas/CloneTotal.lean):

* `funcCloneCore` is the body `Function.clone` runs under its own cloner; `funcClone` is
  `withFreshMap funcCloneCore` by definition, so the cloner's FINAL value map of a function clone is
  the `vm` component of the state `funcCloneCore` ends in;
* `FuncWire w vm f f'`: the clone `f'` is the image of `f` under `vm` (same identifier, body
  `GraphWire`-related, every attribute declaration shared or re-made around graphs that are images);
* `ModelWire n0 w m m'`: header fields and device configurations equal, `metadata_props` equal, `meta`
  empty, the main graph is the image under ITS cloner's map, the functions correspond position by
  position (same keys, same order) and each is the image under ITS OWN cloner's map; every one of
  these maps has pairwise different keys, is injective and sends equally observed values to value
  objects created after the `n0` pre-existing ones (`VmOk`).
-/
import IrVerif.Lemmas.CloneWire
import IrVerif.Lemmas.CloneModelTotal
namespace IrVerif.Clone

theorem funcClone_core (fuel f : Nat) : funcClone fuel f = withFreshMap (funcCloneCore fuel f) := rfl

/-- the clone `f'` of function `f` is its image under the value map `vm` -/
def FuncWire (w : World) (vm : List (Nat × Nat)) (f f' : Nat) : Prop :=
  ∃ fs fs' newAttrs, cFunc w f = some fs ∧ cFunc w f' = some fs' ∧ fs'.domain = fs.domain ∧
    fs'.name = fs.name ∧ fs'.overload = fs.overload ∧ GraphWire false w vm fs.graph fs'.graph ∧
    All2 (fun (ka : String × Nat) r => ∃ as, cAttr w ka.2 = some as ∧ AttrWire false w vm (as.name, ka.2) r)
      fs.attrs newAttrs ∧
    fs'.attrs = dictOf newAttrs

theorem FuncWire.mono {w1 w2 : World} (hle : CoreLe w1 w2) {vm : List (Nat × Nat)} {f f' : Nat}
    (h : FuncWire w1 vm f f') : FuncWire w2 vm f f' := by
  obtain ⟨fs, fs', na, a, b, c, d, e, g, hat, hd⟩ := h
  exact ⟨fs, fs', na, cFunc_mono hle a, cFunc_mono hle b, c, d, e, g.mono hle,
    All2.mono (fun _ _ ⟨as, x, y⟩ => ⟨as, cAttr_mono hle x, y.mono hle⟩) hat, hd⟩

theorem FuncWire.toSim {w : World} {vm : List (Nat × Nat)} (hK : ∀ p ∈ vm, ValSim w p.1 p.2) {f f' : Nat}
    (h : FuncWire w vm f f') : FuncSim w f f' := by
  obtain ⟨fs, fs', na, a, b, c, d, e, g, hat, hd⟩ := h
  exact ⟨fs, fs', na, a, b, c, d, e, g.toSim hK,
    All2.mono (fun _ _ ⟨as, x, y⟩ => ⟨as, x, y.toSim hK⟩) hat, hd⟩

/-- a cloner's final value map: pairwise different keys, injective, every pair relates equally
    observed values and its target is an object created after the first `n0` -/
def VmOk (n0 : Nat) (w : World) (vm : List (Nat × Nat)) : Prop :=
  (vm.map (·.1)).Nodup ∧ (∀ p ∈ vm, ∀ q ∈ vm, p.2 = q.2 → p = q) ∧
    ∀ p ∈ vm, n0 ≤ p.2 ∧ ValSim w p.1 p.2

theorem VmOk.mono {n0 n1 : Nat} {w1 w2 : World} {vm : List (Nat × Nat)} (h : VmOk n1 w1 vm) (hn : n0 ≤ n1)
    (hle : CoreLe w1 w2) : VmOk n0 w2 vm :=
  ⟨h.1, h.2.1, fun p hp => ⟨Nat.le_trans hn (h.2.2 p hp).1, (h.2.2 p hp).2.mono hle⟩⟩

theorem VmOk.sim {n0 : Nat} {w : World} {vm : List (Nat × Nat)} (h : VmOk n0 w vm) :
    ∀ p ∈ vm, ValSim w p.1 p.2 := fun p hp => (h.2.2 p hp).2

/-- `Model.clone`: the clone `m'` is the image of `m` (see the file comment) -/
def ModelWire (n0 : Nat) (w : World) (m m' : Nat) : Prop :=
  ∃ ms ms', cModel w m = some ms ∧ cModel w m' = some ms' ∧ ms'.header = ms.header ∧ ms'.dev = ms.dev ∧
    (∃ vm, GraphWire false w vm ms.graph ms'.graph ∧ VmOk n0 w vm) ∧
    All2 (fun f f' => ∃ vm, FuncWire w vm f f' ∧ VmOk n0 w vm) ms.funcs ms'.funcs ∧
    PropsSim w ms.props ms'.props ∧ cDict w ms'.mstore = some {}

theorem ModelWire.toSim {n0 : Nat} {w : World} {m m' : Nat} (h : ModelWire n0 w m m') : ModelSim w m m' := by
  obtain ⟨ms, ms', a, b, c, d, ⟨vm, hg, hv⟩, hf, hp, _⟩ := h
  exact ⟨ms, ms', a, b, c, d, hg.toSim hv.sim, All2.mono (fun _ _ ⟨_, x, y⟩ => x.toSim y.sim) hf, hp⟩

/-- the identifier under which `Model.functions` files a function -/
def funcKey (w : World) (f : Nat) : Option (String × String × String) :=
  (cFunc w f).map fun fs => (fs.domain, fs.name, fs.overload)

theorem FuncWire.key {w : World} {vm : List (Nat × Nat)} {f f' : Nat} (h : FuncWire w vm f f') :
    funcKey w f' = funcKey w f ∧ (funcKey w f).isSome := by
  obtain ⟨fs, fs', _, a, b, c, d, e, _⟩ := h
  simp [funcKey, a, b, c, d, e]

theorem ModelWire.keys {n0 : Nat} {w : World} {m m' : Nat} (h : ModelWire n0 w m m') :
    ∃ ms ms', cModel w m = some ms ∧ cModel w m' = some ms' ∧
      ms'.funcs.map (funcKey w) = ms.funcs.map (funcKey w) := by
  obtain ⟨ms, ms', a, b, _, _, _, hf, _⟩ := h
  refine ⟨ms, ms', a, b, ?_⟩
  generalize ms.funcs = l at hf
  generalize ms'.funcs = l' at hf
  induction hf with
  | nil => rfl
  | cons h1 _ ih =>
    obtain ⟨_, hw, _⟩ := h1
    simp only [List.map_cons, hw.key.1, ih]

namespace Total

/-- `Function.clone`, with the walker's invariant at the end (the value map is a bijection) -/
theorem funcCloneCore_verdict (fuel : Nat) (w : World) (f : Nat) {A : Sc} (h : funcVerdict fuel w f = .ok A) :
    ∃ f' s', funcCloneCore fuel f { w := w } = (.ok f', s') ∧ TInv w s' A := by
  have hrec : ∀ g s A, TInv w s A → Sim (cloneGraph false fuel g) s (wGraph w false fuel g A)
      (fun _ s' A' => Step w s s' A') := fun g s A hT => sim_cloneGraph false fuel g s A hT
  have hbody : Sim (funcCloneCore fuel f) { w := w } (funcVerdict fuel w f) (fun _ s' A' => TInv w s' A') := by
    unfold funcCloneCore funcVerdict
    wbind (sim_readFunc (TInv.init w) f) with fs s1 fs0 hq
    obtain ⟨rfl, rfl⟩ := hq
    wbind (hrec fs.graph _ _ (TInv.init w)) with g' s2 A1 hq2
    refine Sim.bindLast (sim_mapM' (P := fun _ _ _ => True) (fun _ => True) (fun _ _ _ _ => trivial)
      (fun _ _ _ _ _ _ _ _ => trivial)
      (fun (ka : String × Nat) s A hT _ => by
        wbind (sim_readAttr hT ka.2) with as s3 as0 hq3
        obtain ⟨rfl, rfl, _, _⟩ := hq3
        exact (sim_cloneAttr hrec hT as.name ka.2).mono (fun _ _ _ h => ⟨h, trivial⟩))
      fs.attrs s2 A1 hq2.1 trivial) ?_
    intro attrs s3 A3 hq3
    exact ⟨_, _, rfl, hq3.1.1.allocOther (by intro v hv; cases hv)⟩
  rw [h] at hbody
  obtain ⟨f', s', h1, hT⟩ := hbody
  exact ⟨f', s', h1, hT⟩

end Total

namespace Wire

theorem VmMono.funcAttr (fuel : Nat) (ka : String × Nat) : VmMono (do
    let as ← Clone.readAttr ka.2
    Clone.cloneAttr (Clone.cloneGraph false fuel) as.name ka.2) :=
  VmMono.bind (VmMono.readAttr _) fun as => VmMono.cloneAttr (VmMono.cloneGraph false fuel) as.name ka.2

theorem funcCloneCore_wire (fuel f : Nat) {s : St} (hK : K s) :
    Post (funcCloneCore fuel f) s (fun f' s1 => K s1 ∧ CoreLe s.w s1.w ∧
      ∀ vmF, Fut s1.vm vmF → FuncWire s1.w vmF f f') := by
  have hrec : ∀ g s, K s → Post (cloneGraph false fuel g) s (fun g' s1 => K s1 ∧ CoreLe s.w s1.w ∧ GW false g g' s1) :=
    fun g s hK => cloneGraph_wire false fuel g s hK
  unfold funcCloneCore
  refine Post.bind (Post.ofSim (SGoodAt.readFunc hK)) ?_
  rintro fs s1 ⟨hK1, hl1, rfl, hfs⟩
  refine Post.bind (hrec fs.graph s1 hK1) ?_
  rintro g' s2 ⟨hK2, hl2, hg'⟩
  refine Post.bind ((mapM'_post
    (R := fun (ka : String × Nat) r s => ∃ as, cAttr s.w ka.2 = some as ∧
      ∀ vmF, Fut s.vm vmF → AttrWire false s.w vmF (as.name, ka.2) r)
    (VmMono.funcAttr fuel)
    (fun _ _ _ _ ⟨as, x, y⟩ hl hs => ⟨as, cAttr_mono hl x, fun vmF hF => (y vmF (hF.mono hs)).mono hl⟩)
    fs.attrs s2 hK2
    (fun ka _ s3 hK3 => by
      refine Post.bind (Post.ofSim (SGoodAt.readAttr hK3)) ?_
      rintro as s4 ⟨hK4, hl4, rfl, has⟩
      refine (cloneAttr_wire (VmMono.cloneGraph false fuel) hrec as.name ka.2 hK4).mono ?_
      rintro r s5 ⟨hK5, hl5, hr⟩
      exact ⟨hK5, hl5, as, cAttr_mono hl5 (cAttr_of has), hr⟩)).and
    ((VmMono.mapM' (VmMono.funcAttr fuel) fs.attrs).post s2)) ?_
  rintro attrs s3 ⟨⟨hK3, hl3, hattrs⟩, hs3⟩
  refine (Post.simV (SGoodAt.alloc _ hK3) (VmMono.alloc _)).mono ?_
  rintro f' s4 ⟨hK4, hl4, hs4, hf'⟩
  refine ⟨hK4, hl2.trans (hl3.trans hl4), fun vmF hF => ?_⟩
  refine ⟨fs, _, attrs, cFunc_mono (hl2.trans (hl3.trans hl4)) (cFunc_of hfs), cFunc_ofCore hf'.2.1,
    rfl, rfl, rfl, ?_, ?_, rfl⟩
  · exact (hg' vmF (hF.mono (hs3.trans hs4))).mono (hl3.trans hl4)
  · exact All2.mono (fun _ _ ⟨as, x, y⟩ => ⟨as, cAttr_mono hl4 x, (y vmF (hF.mono hs4)).mono hl4⟩) hattrs

end Wire

/-- when the walker accepts the function, `Function.clone` returns the image of the function under
    its cloner's final value map, which is a bijection (`TInv`) -/
theorem funcClone_wiring {w : World} {fuel f : Nat} {A : Sc} (h : funcVerdict fuel w f = .ok A) :
    ∃ f' s', funcCloneCore fuel f { w := w } = (.ok f', s') ∧
      run (funcClone fuel f) w = (.ok f', s'.w) ∧ FuncWire s'.w s'.vm f f' ∧
      (∀ p ∈ s'.vm, ValSim s'.w p.1 p.2) ∧ CoreLe w s'.w ∧ Total.TInv w s' A := by
  obtain ⟨f', s', h1, hT⟩ := Total.funcCloneCore_verdict fuel w f h
  have hK0 : K { w := w } := by intro p hp; cases hp
  obtain ⟨hK, hle, hW⟩ := Wire.funcCloneCore_wire fuel f hK0 f' s' h1
  have e0 : ({ w := w, vm := [], pend := [], created := [] } : St) = { w := w } := rfl
  refine ⟨f', s', h1, ?_, hW s'.vm ⟨Wire.Sfx.refl _, ?_⟩, hK, hle, hT⟩
  · rw [funcClone_core]
    simp only [run, withFreshMap, e0, h1]
  · rw [hT.keys]
    exact hT.nodup

/-- `graphClone_wiring` together with the walker's invariant -/
theorem graphClone_wiring_inv {w : World} {fuel : Nat} {allow : Bool} {g : Nat} {A : Sc}
    (h : cloneVerdict fuel allow w g = .ok A) :
    ∃ g' s', cloneGraph allow fuel g { w := w } = (.ok g', s') ∧
      run (graphClone fuel allow g) w = (.ok g', s'.w) ∧ GraphWire allow s'.w s'.vm g g' ∧
      (∀ p ∈ s'.vm, ValSim s'.w p.1 p.2) ∧ CoreLe w s'.w ∧ Total.TInv w s' A := by
  have := Total.graphClone_verdict fuel allow w g
  rw [h] at this
  obtain ⟨g', s', h1, h2, hT⟩ := this
  have hK0 : K { w := w } := by intro p hp; cases hp
  obtain ⟨hK, hle, hW⟩ := Wire.cloneGraph_wire allow fuel g { w := w } hK0 g' s' h1
  refine ⟨g', s', h1, h2, hW s'.vm ⟨Wire.Sfx.refl _, ?_⟩, hK, hle, hT⟩
  rw [hT.keys]
  exact hT.nodup

theorem vmOk_of_tinv {w : World} {s' : St} {A : Sc} (hT : Total.TInv w s' A)
    (hK : ∀ p ∈ s'.vm, ValSim s'.w p.1 p.2) : VmOk w.length s'.w s'.vm :=
  ⟨by rw [hT.keys]; exact hT.nodup, hT.inj, fun p hp => ⟨(hT.vals p hp).1, hK p hp⟩⟩

/-! ### `Model.clone`: every step runs on an extension of the source heap -/

theorem CoreLe.appendList (w : World) : ∀ ext : World, CoreLe w (w ++ ext)
  | [] => by rw [List.append_nil]; exact CoreLe.refl _
  | c :: ext => by
    have h1 := CoreLe.append w c
    have h2 := CoreLe.appendList (w ++ [c]) ext
    rw [List.append_assoc] at h2
    exact h1.trans h2

open Total Local in
/-- an entry point with a fresh cloner, run in any state whose heap extends the source heap -/
theorem fresh_at {w : World} {m : M Nat} {γ : Type} {v : World → WRes γ} {P : Nat → Nat → World → Prop}
    (hm : ∀ w1 s, Inv w1 false s → GoodAt w1 false (withFreshMap m) s (NewId w1))
    (hverdict : ∀ w1 c, v w1 = .ok c → ∃ a w', run (withFreshMap m) w1 = (.ok a, w') ∧ P w1.length a w')
    (hloc : ∀ ext, LocP (v w) (v (w ++ ext)) (fun _ => True))
    {c : γ} (hv : v w = .ok c) {s : St} {ext : World} (hs : s.w = w ++ ext) :
    ∃ a s', withFreshMap m s = (.ok a, s') ∧ (∃ ext', s'.w = s.w ++ ext') ∧ s'.vm = s.vm ∧
      P s.w.length a s'.w := by
  have hl := hloc ext
  rw [hv] at hl
  have hv1 : v s.w = .ok c := by rw [hs]; exact hl.ok_eq
  obtain ⟨a, w', hr, hP⟩ := hverdict s.w c hv1
  obtain ⟨ext2, he2⟩ := run_prefix (hm s.w) hr
  exact ⟨a, { s with w := w' }, by rw [withFreshMap_run, hr], ⟨ext2, he2⟩, rfl, hP⟩

open Total Local in
theorem graphClone_at {w : World} {fuel g : Nat} {A : Sc} (hv : cloneVerdict fuel false w g = .ok A)
    {s : St} {ext : World} (hs : s.w = w ++ ext) :
    ∃ g' s', graphClone fuel false g s = (.ok g', s') ∧ (∃ ext', s'.w = s.w ++ ext') ∧ s'.vm = s.vm ∧
      ∃ vm, GraphWire false s'.w vm g g' ∧ VmOk s.w.length s'.w vm := by
  refine fresh_at (m := cloneGraph false fuel g) (v := fun w1 => cloneVerdict fuel false w1 g)
    (P := fun n0 g' w' => ∃ vm, GraphWire false w' vm g g' ∧ VmOk n0 w' vm)
    (fun w1 s hI => graphClone_good fuel g hI) (fun w1 c hc => ?_) (fun ext => cloneVerdict_loc ext fuel false g) hv hs
  obtain ⟨g', s', _, h2, hW, hK, _, hT⟩ := graphClone_wiring_inv hc
  exact ⟨g', s'.w, h2, s'.vm, hW, vmOk_of_tinv hT hK⟩

open Total Local in
theorem funcClone_at {w : World} {fuel f : Nat} {A : Sc} (hv : funcVerdict fuel w f = .ok A)
    {s : St} {ext : World} (hs : s.w = w ++ ext) :
    ∃ f' s', funcClone fuel f s = (.ok f', s') ∧ (∃ ext', s'.w = s.w ++ ext') ∧ s'.vm = s.vm ∧
      ∃ vm, FuncWire s'.w vm f f' ∧ VmOk s.w.length s'.w vm := by
  rw [funcClone_core]
  refine fresh_at (m := funcCloneCore fuel f) (v := fun w1 => funcVerdict fuel w1 f)
    (P := fun n0 f' w' => ∃ vm, FuncWire w' vm f f' ∧ VmOk n0 w' vm)
    (fun w1 s hI => by rw [← funcClone_core]; exact funcClone_good fuel f hI) (fun w1 c hc => ?_)
    (fun ext => funcVerdict_loc ext fuel f) hv hs
  obtain ⟨f', s', _, h2, hW, hK, _, hT⟩ := funcClone_wiring hc
  rw [← funcClone_core]
  exact ⟨f', s'.w, h2, s'.vm, hW, vmOk_of_tinv hT hK⟩

theorem mapM'_cons_ok {α β : Type} {f : α → M β} {a : α} {as : List α} {s s1 s2 : St} {b : β} {bs : List β}
    (h1 : f a s = (.ok b, s1)) (h2 : mapM' f as s1 = (.ok bs, s2)) :
    mapM' f (a :: as) s = (.ok (b :: bs), s2) := by
  show M.bind (f a) (fun b => M.bind (mapM' f as) (fun bs => M.pure (b :: bs))) s = _
  simp only [M.bind, h1, h2, M.pure]

theorem funcs_at {w : World} {fuel : Nat} : ∀ (fs : List Nat) (s : St) (ext : World), s.w = w ++ ext →
    (∀ f ∈ fs, ∃ A, funcVerdict fuel w f = .ok A) →
    ∃ fs' s', mapM' (funcClone fuel) fs s = (.ok fs', s') ∧ (∃ ext', s'.w = s.w ++ ext') ∧ s'.vm = s.vm ∧
      All2 (fun f f' => ∃ vm, FuncWire s'.w vm f f' ∧ VmOk s.w.length s'.w vm) fs fs'
  | [], s, _, _, _ => ⟨[], s, rfl, ⟨[], by simp⟩, rfl, .nil⟩
  | f :: fs, s, ext, hs, hv => by
    obtain ⟨A, hA⟩ := hv f List.mem_cons_self
    obtain ⟨f', s1, h1, ⟨e1, he1⟩, hvm1, vm, hW, hO⟩ := funcClone_at hA hs
    have hs1 : s1.w = w ++ (ext ++ e1) := by rw [he1, hs, List.append_assoc]
    obtain ⟨fs', s2, h2, ⟨e2, he2⟩, hvm2, hall⟩ :=
      funcs_at fs s1 (ext ++ e1) hs1 (fun g hg => hv g (List.mem_cons_of_mem _ hg))
    have hle : CoreLe s1.w s2.w := by rw [he2]; exact CoreLe.appendList _ _
    have hlen : s.w.length ≤ s1.w.length := by rw [he1]; simp
    refine ⟨f' :: fs', s2, mapM'_cons_ok h1 h2, ⟨e1 ++ e2, by rw [he2, he1, List.append_assoc]⟩,
      hvm2.trans hvm1, .cons ⟨vm, hW.mono hle, hO.mono (Nat.le_refl _) hle⟩ ?_⟩
    exact All2.mono (fun _ _ ⟨vm', a, b⟩ => ⟨vm', a, b.mono hlen (CoreLe.refl _)⟩) hall

theorem wres_bind_ok {α β : Type} {x : WRes α} {f : α → WRes β} {b : β} (h : x.bind f = .ok b) :
    ∃ a, x = .ok a ∧ f a = .ok b := by
  cases x with
  | ok a => exact ⟨a, rfl, h⟩
  | err e => cases h
  | irregular why => cases h

theorem wModelCell_ok {w : World} {m : Nat} {ms : ModelS} (h : wModelCell w m = .ok ms) :
    w[m]? = some (.model ms) := by
  unfold wModelCell wCell at h
  cases hc : w[m]? with
  | none => rw [hc] at h; cases h
  | some c =>
    rw [hc] at h
    cases c <;> simp [WRes.bind] at h
    subst h
    rfl

theorem wDict_ok {w : World} {d : Nat} (h : wDict w d = .ok ()) : ∃ x, w[d]? = some (.dict x) := by
  unfold wDict wCell at h
  cases hc : w[d]? with
  | none => rw [hc] at h; cases h
  | some c =>
    rw [hc] at h
    cases c <;> simp [WRes.bind] at h
    exact ⟨_, rfl⟩

/-- when the walker accepts the model, `Model.clone` returns the image of the model -/
theorem modelClone_wiring {w : World} {fuel m : Nat} (h : modelVerdict fuel w m = .ok ()) :
    ∃ m' w', run (modelClone fuel m) w = (.ok m', w') ∧ ModelWire w.length w' m m' ∧ CoreLe w w' := by
  unfold modelVerdict at h
  obtain ⟨ms, hms, h⟩ := wres_bind_ok h
  obtain ⟨A0, hg, h⟩ := wres_bind_ok h
  obtain ⟨_, hfs, hd⟩ := wres_bind_ok h
  have hmc := wModelCell_ok hms
  obtain ⟨dx, hdx⟩ := wDict_ok hd
  have hfv : ∀ f ∈ ms.funcs, ∃ A, funcVerdict fuel w f = .ok A := by
    intro f hf
    have := Total.wAll_ok hfs f hf
    obtain ⟨A, hA, _⟩ := wres_bind_ok this
    exact ⟨A, hA⟩
  have hs0 : ({ w := w } : St).w = w ++ [] := by simp
  obtain ⟨g', s1, h1, ⟨e1, he1⟩, _, vmG, hWG, hOG⟩ := graphClone_at hg hs0
  have hs1 : s1.w = w ++ e1 := he1
  obtain ⟨fs', s2, h2, ⟨e2, he2⟩, _, hall⟩ := funcs_at ms.funcs s1 e1 hs1 hfv
  -- the remaining steps allocate three cells
  have hd2 : s2.w[ms.props]? = some (.dict dx) := by
    rw [he2, hs1, List.append_assoc]; exact Local.get_ext _ hdx
  let c1 : Cell := .dict { data := dx.data, invalid := [] }
  let c2 : Cell := .dict {}
  let c3 : Cell := .model { graph := g', funcs := fs', header := ms.header, dev := ms.dev,
                            props := s2.w.length, mstore := s2.w.length + 1 }
  have hrun : modelClone fuel m { w := w } = (.ok (s2.w.length + 2), { s2 with w := s2.w ++ [c1] ++ [c2] ++ [c3] }) := by
    unfold modelClone
    show M.bind (readModel m) _ _ = _
    simp only [M.bind, readModel, hmc, h1, h2, copyProps, readDict, hd2, alloc, bind, List.length_append,
      List.length_cons, List.length_nil, c1, c2, c3]
  have hfin : s2.w ++ [c1] ++ [c2] ++ [c3] = w ++ (e1 ++ e2 ++ [c1, c2, c3]) := by
    rw [he2, hs1]; simp
  have hle1 : CoreLe s1.w (s2.w ++ [c1] ++ [c2] ++ [c3]) := by
    rw [he2]; simp only [List.append_assoc]; exact CoreLe.appendList _ _
  have hle2 : CoreLe s2.w (s2.w ++ [c1] ++ [c2] ++ [c3]) := by
    simp only [List.append_assoc]; exact CoreLe.appendList _ _
  have hlen1 : w.length ≤ s1.w.length := by rw [hs1]; simp
  refine ⟨s2.w.length + 2, s2.w ++ [c1] ++ [c2] ++ [c3], by simp only [run, hrun], ?_, by rw [hfin]; exact CoreLe.appendList _ _⟩
  refine ⟨ms, { graph := g', funcs := fs', header := ms.header, dev := ms.dev,
                props := s2.w.length, mstore := s2.w.length + 1 }, ?_, ?_, rfl, rfl,
    ⟨vmG, hWG.mono hle1, hOG.mono (Nat.le_refl _) hle1⟩, ?_, ?_, ?_⟩
  · rw [hfin]; exact cModel_of (Local.get_ext _ hmc)
  · apply cModel_of
    simp [c3]
  · exact All2.mono (fun _ _ ⟨vm', a, b⟩ => ⟨vm', a.mono hle2, b.mono hlen1 hle2⟩) hall
  · refine ⟨dx, { data := dx.data, invalid := [] }, cDict_mono hle2 (cDict_of hd2), ?_, rfl⟩
    apply cDict_of
    simp [c1]
  · apply cDict_of
    simp [c2]

end IrVerif.Clone

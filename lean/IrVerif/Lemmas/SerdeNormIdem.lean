import IrVerif.Lemmas.SerdeModel
/-! C02: `norm` is idempotent on well-formed protos (so `norm (serialize (deserialize p)) = norm p`
follows from `serialize (deserialize p) = norm p`). -/
namespace IrVerif.Serde
open IrVerif.Proto

/-! ### leaves -/

theorem normValueInfo_idem (vi : ValueInfoP) : normValueInfo (normValueInfo vi) = normValueInfo vi := by
  simp [normValueInfo, normEntries_idem]

theorem normExternal_idem (es : List Entry) : normExternal (normExternal es) = normExternal es := by
  unfold normExternal
  cases h1 : es.find? (fun e => e.key = "location") <;>
  cases h2 : es.find? (fun e => e.key = "offset") <;>
  cases h3 : es.find? (fun e => e.key = "length") <;>
  cases h4 : es.find? (fun e => e.key = "checksum") <;>
  simp only [List.filterMap_cons, List.filterMap_nil, h1, h2, h3, h4] <;>
  (try have k1 := List.find?_some h1) <;> (try have k2 := List.find?_some h2) <;>
  (try have k3 := List.find?_some h3) <;> (try have k4 := List.find?_some h4) <;>
  simp_all [List.find?_cons]

theorem normTensor_idem (t : TensorP) : normTensor (normTensor t) = normTensor t := by
  simp only [normTensor, normEntries_idem]
  split <;> simp [normExternal_idem]

theorem normTensor_name (t : TensorP) : (normTensor t).name = t.name := rfl
theorem normTensor_dims (t : TensorP) : (normTensor t).dims = t.dims := rfl
theorem normTensor_dataType (t : TensorP) : (normTensor t).dataType = t.dataType := rfl

theorem normDomain_idem (d : String) : normDomain (normDomain d) = normDomain d := by
  unfold normDomain; split <;> simp

theorem normEntries_eq_nil {es : List Entry} : normEntries es = [] ↔ es = [] := by
  constructor
  · intro h
    have : (dictOfEntries es).isEmpty = true := by
      unfold normEntries at h
      cases hd : dictOfEntries es with
      | nil => rfl
      | cons x xs =>
        rw [hd] at h
        obtain ⟨k, v⟩ := x
        simp only [sortEntries] at h
        have := (mem_insertEntry (e := ⟨k, v⟩) (y := ⟨k, v⟩) (l := sortEntries xs)).2 (Or.inl rfl)
        rw [h] at this; cases this
    exact sortEntries_dictOfEntries_isEmpty es this
  · intro h; subst h; rfl

/-! ### lists keyed by a name -/

theorem findLast?_append {α : Type} (p : α → Bool) (a b : List α) :
    findLast? p (a ++ b) = match findLast? p b with
      | some y => some y
      | none => findLast? p a := by
  induction a with
  | nil => simp only [List.nil_append, findLast?]; cases findLast? p b <;> rfl
  | cons x xs ih =>
    simp only [List.cons_append, findLast?, ih]
    cases findLast? p b <;> rfl

/-- a list built from distinct keys `K`, at most one element per key: looking a key up gives back
what was put there -/
theorem findLast?_filterMap_key {β : Type} (key : β → String) (F : String → Option β)
    (hF : ∀ n b, F n = some b → key b = n) :
    ∀ K : List String, K.Nodup → ∀ n,
      findLast? (fun b => key b = n) (K.filterMap F) = if n ∈ K then F n else none
  | [], _, n => by simp [findLast?]
  | k :: ks, hnd, n => by
    rw [List.nodup_cons] at hnd
    have ih := findLast?_filterMap_key key F hF ks hnd.2 n
    have hsplit : (k :: ks).filterMap F = (F k).toList ++ ks.filterMap F := by
      simp only [List.filterMap_cons]; cases F k <;> rfl
    rw [hsplit, findLast?_append, ih]
    by_cases hn : n ∈ ks
    · have hnk : n ≠ k := fun e => hnd.1 (e ▸ hn)
      simp only [hn, if_true, List.mem_cons, hnk, false_or]
      cases hFn : F n with
      | some b => rfl
      | none =>
        simp only
        cases hFk : F k with
        | none => rfl
        | some b =>
          have : key b ≠ n := by rw [hF k b hFk]; exact fun e => hnk e.symm
          simp [findLast?, this]
    · simp only [hn, if_false, List.mem_cons, or_false]
      by_cases hnk : n = k
      · subst hnk
        simp only [if_true]
        cases hFk : F n with
        | none => rfl
        | some b => simp [findLast?, hF n b hFk]
      · simp only [hnk, if_false]
        cases hFk : F k with
        | none => rfl
        | some b =>
          have : key b ≠ n := by rw [hF k b hFk]; exact fun e => hnk e.symm
          simp [findLast?, this]

/-! ### the canonical value_info / annotation lists as keyed lists -/

/-- the canonical entry of a non-input initializer -/
def initEntry (vis : List ValueInfoP) (t : TensorP) : ValueInfoP :=
  match findVI vis t.name with
  | some vi => normValueInfo (fillFromTensor vi t)
  | none => defaultVI t

/-- the canonical entry of a node output that is not a graph output, if any -/
def nodeEntry (vis : List ValueInfoP) (n : String) : Option ValueInfoP :=
  match findVI vis n with
  | some vi => if viHasInfo vi then some (normValueInfo vi) else none
  | none => none

def annotEntry (q : List AnnotP) (n : String) : Option AnnotP :=
  match findAnnot q n with
  | some a => if a.params.isEmpty then none else some (normAnnot a)
  | none => none

/-- the canonical entry of a non-input initializer, also when it is a graph output -/
def initEntryO (vis outputs : List ValueInfoP) (t : TensorP) : Option ValueInfoP :=
  match findVI outputs t.name with
  | some vo => if viHasInfo vo then some (normValueInfo vo) else none
  | none => some (initEntry vis t)

theorem normInitVIs_eq (vis outputs : List ValueInfoP) (inN : List String) (ts : List TensorP) :
    normInitVIs vis outputs inN ts
      = (ts.filter (fun t => !inN.contains t.name)).filterMap (initEntryO vis outputs) := by
  induction ts with
  | nil => rfl
  | cons t ts ih =>
    simp only [normInitVIs, ih, List.filter_cons]
    by_cases h : inN.contains t.name = true
    · simp only [h, if_true, Bool.not_true, Bool.false_eq_true, if_false, List.nil_append]
    · have h' : inN.contains t.name = false := by simpa using h
      simp only [h', Bool.false_eq_true, if_false, Bool.not_false, if_true, List.filterMap_cons,
        initEntryO, initEntry]
      cases findVI outputs t.name with
      | some vo => by_cases hi : viHasInfo vo = true <;> simp [hi]
      | none => cases findVI vis t.name <;> rfl

theorem normNodeVIs_eq (vis : List ValueInfoP) (outN : List String) (ks : List String) :
    normNodeVIs vis outN ks = (ks.filter (fun n => !outN.contains n)).filterMap (nodeEntry vis) := by
  induction ks with
  | nil => rfl
  | cons n ks ih =>
    simp only [normNodeVIs, ih, List.filter_cons]
    by_cases h : outN.contains n = true
    · simp only [h, if_true, Bool.not_true, Bool.false_eq_true, if_false, List.nil_append]
    · have h' : outN.contains n = false := by simpa using h
      simp only [h', Bool.false_eq_true, if_false, Bool.not_false, if_true, List.filterMap_cons,
        nodeEntry]
      cases findVI vis n with
      | none => rfl
      | some vi => by_cases hi : viHasInfo vi = true <;> simp [hi]

theorem normQuantFor_eq (q : List AnnotP) (ks : List String) :
    normQuantFor q ks = ks.filterMap (annotEntry q) := by
  induction ks with
  | nil => rfl
  | cons n ks ih =>
    simp only [normQuantFor, ih, List.filterMap_cons, annotEntry]
    cases findAnnot q n with
    | none => rfl
    | some a => by_cases hi : a.params.isEmpty = true <;> simp [hi]

theorem nodeEntry_name {vis : List ValueInfoP} {n : String} {b : ValueInfoP}
    (h : nodeEntry vis n = some b) : b.name = n := by
  unfold nodeEntry at h
  cases hf : findVI vis n with
  | none => rw [hf] at h; cases h
  | some vi =>
    rw [hf] at h
    simp only at h
    split at h
    · cases h; exact (findVI_mem hf).2
    · cases h

theorem annotEntry_name {q : List AnnotP} {n : String} {b : AnnotP}
    (h : annotEntry q n = some b) : b.tensorName = n := by
  unfold annotEntry at h
  cases hf : findAnnot q n with
  | none => rw [hf] at h; cases h
  | some a =>
    rw [hf] at h
    simp only at h
    split at h
    · cases h
    · cases h; exact (findAnnot_name hf).2

theorem initEntry_name (vis : List ValueInfoP) (t : TensorP) : (initEntry vis t).name = t.name := by
  unfold initEntry
  cases hf : findVI vis t.name with
  | none => rfl
  | some vi => simp [normValueInfo, fillFromTensor, (findVI_mem hf).2]

theorem initEntryO_name {vis outputs : List ValueInfoP} {t : TensorP} {b : ValueInfoP}
    (h : initEntryO vis outputs t = some b) : b.name = t.name := by
  unfold initEntryO at h
  cases hf : findVI outputs t.name with
  | some vo =>
    rw [hf] at h
    simp only at h
    split at h
    · cases h; simp [normValueInfo, (findVI_mem hf).2]
    · cases h
  | none =>
    rw [hf] at h
    cases h
    exact initEntry_name vis t

theorem findLast?_filterMap_tensors (G : TensorP → Option ValueInfoP)
    (hG : ∀ t b, G t = some b → b.name = t.name) :
    ∀ Tn : List TensorP, (Tn.map (·.name)).Nodup → ∀ t ∈ Tn,
      findLast? (fun v => v.name = t.name) (Tn.filterMap G) = G t
  | [], _, t, ht => by cases ht
  | x :: xs, hnd, t, ht => by
    simp only [List.map_cons, List.nodup_cons] at hnd
    have hsplit : (x :: xs).filterMap G = (G x).toList ++ xs.filterMap G := by
      simp only [List.filterMap_cons]; cases G x <;> rfl
    rw [hsplit, findLast?_append]
    rcases List.mem_cons.1 ht with rfl | ht
    · have : findLast? (fun v => v.name = t.name) (xs.filterMap G) = none := by
        apply findLast?_none_of_forall
        intro v hv
        obtain ⟨u, hu, huv⟩ := List.mem_filterMap.1 hv
        simp only [decide_eq_false_iff_not]
        rw [hG u v huv]
        intro e
        exact hnd.1 (by rw [← e]; exact List.mem_map_of_mem hu)
      rw [this]
      cases hgt : G t with
      | none => rfl
      | some b => simp [findLast?, hG t b hgt]
    · rw [findLast?_filterMap_tensors G hG xs hnd.2 t ht]
      cases hgt : G t with
      | some b => rfl
      | none =>
        simp only
        cases hgx : G x with
        | none => rfl
        | some b =>
          have : ¬ b.name = t.name := by
            rw [hG x b hgx]
            intro e
            exact hnd.1 (by rw [e]; exact List.mem_map_of_mem ht)
          simp [findLast?, this]

/-- entries are fixed points of the normalisations that produced them -/
theorem fillLeafShape_idem (D : ShapeP) (t : TypeP) :
    fillLeafShape D (fillLeafShape D t) = fillLeafShape D t := by
  induction t with
  | tensor e sh den => cases sh <;> rfl
  | sparse e sh den => cases sh <;> rfl
  | sequence e den ih => simp [fillLeafShape, ih]
  | optional e den ih => simp [fillLeafShape, ih]
  | unset den => rfl
  | map den => rfl

theorem fillLeafShape_not_unset (D : ShapeP) (t : TypeP) (h : viIsUnset t = false) :
    viIsUnset (fillLeafShape D t) = false := by
  cases t with
  | unset den => simp [viIsUnset] at h
  | tensor e sh den => cases sh <;> rfl
  | sparse e sh den => cases sh <;> rfl
  | sequence e den => rfl
  | optional e den => rfl
  | map den => rfl

theorem initEntry_fixed (vis : List ValueInfoP) (t : TensorP) :
    normValueInfo (fillFromTensor (initEntry vis t) (normTensor t)) = initEntry vis t := by
  unfold initEntry
  cases hf : findVI vis t.name with
  | none =>
    simp [fillFromTensor, defaultVI, fillLeafShape, normValueInfo, normTensor, normEntries,
      dictOfEntries, dictUpdate, sortEntries]
  | some vi =>
    simp only [normValueInfo, fillFromTensor, normEntries_idem, normTensor_dims, defaultVI,
      normTensor_dataType, normTensor_name]
    congr 1
    cases hvt : vi.type with
    | unset den => simp [fillLeafShape]
    | tensor e sh den => cases sh <;> simp [fillLeafShape]
    | sparse e sh den => cases sh <;> simp [fillLeafShape]
    | sequence e den => simp [fillLeafShape, fillLeafShape_idem]
    | optional e den => simp [fillLeafShape, fillLeafShape_idem]
    | map den => simp [fillLeafShape]

theorem viHasInfo_norm (vi : ValueInfoP) : viHasInfo (normValueInfo vi) = viHasInfo vi := by
  simp only [viHasInfo, normValueInfo]
  have : (normEntries vi.metadata).isEmpty = vi.metadata.isEmpty := by
    rw [Bool.eq_iff_iff]
    simp [List.isEmpty_iff, normEntries_eq_nil]
  rw [this]

/-! ### value_info and annotations of a normalised graph -/

section
variable {inits : List TensorP} {inputs outputs vis : List ValueInfoP} {quant : List AnnotP}
  {outs : List String}

theorem find?_map_name (ts : List TensorP) (f : TensorP → ValueInfoP) (hf : ∀ t, (f t).name = t.name)
    (n : String) :
    (ts.map f).find? (fun v => v.name = n) = (ts.find? (fun t => t.name = n)).map f := by
  induction ts with
  | nil => rfl
  | cons t ts ih =>
    simp only [List.map_cons, List.find?_cons, hf]
    by_cases h : t.name = n <;> simp [h, ih]

/-- looking an initializer up in the canonical value_info list -/
theorem findVI_canon_init (hw : GraphWF inits inputs outputs vis quant outs) {t : TensorP}
    (ht : t ∈ inits) (hni : t.name ∉ inputs.map (·.name)) :
    findVI (normInitVIs vis outputs (inputs.map (·.name)) inits
        ++ normNodeVIs vis (outputs.map (·.name)) outs) t.name = initEntryO vis outputs t := by
  obtain ⟨_, houts, hdis⟩ := nodupNames_parts hw
  rw [normInitVIs_eq, normNodeVIs_eq]
  unfold findVI
  rw [findLast?_append]
  have hB := findLast?_filterMap_key (·.name) (nodeEntry vis) (fun n b h => nodeEntry_name h)
    (outs.filter (fun n => !(outputs.map (·.name)).contains n))
    (List.Nodup.sublist List.filter_sublist houts) t.name
  have hnotin : t.name ∉ outs.filter (fun n => !(outputs.map (·.name)).contains n) := by
    intro hm
    exact (hdis _ (List.mem_filter.1 hm).1).2 (List.mem_map_of_mem ht)
  simp only [hnotin, if_false] at hB
  rw [hB]
  simp only
  have hmem : t ∈ inits.filter (fun t => !(inputs.map (·.name)).contains t.name) :=
    List.mem_filter.2 ⟨ht, by simpa using hni⟩
  exact findLast?_filterMap_tensors (initEntryO vis outputs) (fun t b h => initEntryO_name h) _
    (List.Nodup.sublist (List.Sublist.map _ List.filter_sublist) hw.nodupInit) t hmem

/-- looking a node output (not a graph output) up in the canonical value_info list -/
theorem findVI_canon_node (hw : GraphWF inits inputs outputs vis quant outs) {n : String}
    (hn : n ∈ outs) (hno : n ∉ outputs.map (·.name)) :
    findVI (normInitVIs vis outputs (inputs.map (·.name)) inits
        ++ normNodeVIs vis (outputs.map (·.name)) outs) n = nodeEntry vis n := by
  obtain ⟨_, houts, hdis⟩ := nodupNames_parts hw
  rw [normInitVIs_eq, normNodeVIs_eq]
  unfold findVI
  rw [findLast?_append]
  have hB := findLast?_filterMap_key (·.name) (nodeEntry vis) (fun n b h => nodeEntry_name h)
    (outs.filter (fun n => !(outputs.map (·.name)).contains n))
    (List.Nodup.sublist List.filter_sublist houts) n
  have hin : n ∈ outs.filter (fun n => !(outputs.map (·.name)).contains n) :=
    List.mem_filter.2 ⟨hn, by simpa using hno⟩
  simp only [hin, if_true] at hB
  rw [hB]
  cases hne : nodeEntry vis n with
  | some e => rfl
  | none =>
    simp only
    apply findLast?_none_of_forall
    intro v hv
    obtain ⟨t, ht, htv⟩ := List.mem_filterMap.1 hv
    simp only [decide_eq_false_iff_not]
    rw [initEntryO_name htv]
    intro e
    exact (hdis n hn).2 (by rw [← e]; exact List.mem_map_of_mem (List.mem_filter.1 ht).1)

theorem nodeEntry_fixed {vis : List ValueInfoP} {n : String} {e : ValueInfoP}
    (h : nodeEntry vis n = some e) : viHasInfo e = true ∧ normValueInfo e = e := by
  unfold nodeEntry at h
  cases hf : findVI vis n with
  | none => rw [hf] at h; cases h
  | some vi =>
    rw [hf] at h
    simp only at h
    split at h
    · rename_i hi
      cases h
      exact ⟨by rw [viHasInfo_norm]; exact hi, normValueInfo_idem vi⟩
    · cases h

theorem findVI_map_norm (l : List ValueInfoP) (n : String) :
    findVI (l.map normValueInfo) n = (findVI l n).map normValueInfo := by
  induction l with
  | nil => rfl
  | cons x xs ih =>
    simp only [findVI] at ih
    simp only [findVI, List.map_cons, findLast?, ih]
    cases findLast? (fun v => v.name = n) xs with
    | some y => rfl
    | none =>
      have : (normValueInfo x).name = x.name := rfl
      simp only [Option.map_none, this]
      by_cases h : x.name = n <;> simp [h]

theorem initVIs_of_lookup (vis outputs O' L : List ValueInfoP) (inN : List String) (inits : List TensorP)
    (hO : ∀ t ∈ inits, t.name ∉ inN → findVI O' t.name = (findVI outputs t.name).map normValueInfo)
    (h : ∀ t ∈ inits, t.name ∉ inN → t.name ∉ outputs.map (·.name) →
      findVI L t.name = some (initEntry vis t)) :
    normInitVIs L O' inN (inits.map normTensor)
      = normInitVIs vis outputs inN inits := by
  rw [normInitVIs_eq, normInitVIs_eq]
  have hf : (inits.map normTensor).filter (fun t => !inN.contains t.name)
      = (inits.filter (fun t => !inN.contains t.name)).map normTensor := by
    rw [← filter_map_comm normTensor (fun t => !inN.contains t.name) inits]
    rfl
  rw [hf, List.filterMap_map]
  apply filterMap_congr'
  intro t ht
  have htm := (List.mem_filter.1 ht).1
  have hni : t.name ∉ inN := by simpa using (List.mem_filter.1 ht).2
  simp only [Function.comp, initEntryO, normTensor_name, hO t htm hni]
  cases hfo : findVI outputs t.name with
  | some vo =>
    simp only [Option.map_some, viHasInfo_norm, normValueInfo_idem]
  | none =>
    simp only [Option.map_none]
    have hl := h t htm hni (findVI_none_iff.1 hfo)
    have : initEntry L (normTensor t) = normValueInfo (fillFromTensor (initEntry vis t) (normTensor t)) := by
      simp only [initEntry, normTensor_name, hl]
    rw [this, initEntry_fixed vis t]

theorem nodeVIs_of_lookup (vis L : List ValueInfoP) (outN outs : List String)
    (h : ∀ n ∈ outs, n ∉ outN → findVI L n = nodeEntry vis n) :
    normNodeVIs L outN outs = normNodeVIs vis outN outs := by
  rw [normNodeVIs_eq, normNodeVIs_eq]
  apply filterMap_congr'
  intro n hn
  have hno : n ∉ outN := by simpa using (List.mem_filter.1 hn).2
  have hlk := h n (List.mem_filter.1 hn).1 hno
  have : nodeEntry L n = match nodeEntry vis n with
      | some vi => if viHasInfo vi then some (normValueInfo vi) else none
      | none => none := by
    simp only [nodeEntry, hlk]
  rw [this]
  cases hne : nodeEntry vis n with
  | none => rfl
  | some e =>
    obtain ⟨h1, h2⟩ := nodeEntry_fixed hne
    simp [h1, h2]

theorem findVI_append_of_not_mem (C X : List ValueInfoP) (n : String) (h : n ∉ X.map (·.name)) :
    findVI (C ++ X) n = findVI C n := by
  unfold findVI
  rw [findLast?_append]
  have := findVI_none_iff.2 h
  unfold findVI at this
  rw [this]

/-! ### the merged entries of pass-through values are fixed points -/

theorem findVI_map_of_name (f : ValueInfoP → ValueInfoP) (hf : ∀ v, (f v).name = v.name)
    (l : List ValueInfoP) (n : String) : findVI (l.map f) n = (findVI l n).map f := by
  induction l with
  | nil => rfl
  | cons x xs ih =>
    simp only [findVI] at ih
    simp only [findVI, List.map_cons, findLast?, ih]
    cases findLast? (fun v => v.name = n) xs with
    | some y => rfl
    | none =>
      simp only [Option.map_none, hf]
      by_cases h : x.name = n <;> simp [h]

theorem normInputVI_name (outputs : List ValueInfoP) (vi : ValueInfoP) :
    (normInputVI outputs vi).name = vi.name := by
  unfold normInputVI
  cases h : findVI outputs vi.name with
  | none => rfl
  | some vo => exact (findVI_mem h).2

theorem normOutputVI_name (inputs : List ValueInfoP) (vo : ValueInfoP) :
    (normOutputVI inputs vo).name = vo.name := by
  unfold normOutputVI
  cases h : findVI inputs vo.name <;> rfl

theorem normInputVI_some {O : List ValueInfoP} {v vo : ValueInfoP} (h : findVI O v.name = some vo) :
    normInputVI O v = mergeVI v vo := by simp only [normInputVI, h]

theorem normInputVI_none {O : List ValueInfoP} {v : ValueInfoP} (h : findVI O v.name = none) :
    normInputVI O v = normValueInfo v := by simp only [normInputVI, h]

theorem normOutputVI_some {I : List ValueInfoP} {v vi : ValueInfoP} (h : findVI I v.name = some vi) :
    normOutputVI I v = mergeVI vi v := by simp only [normOutputVI, h]

theorem normOutputVI_none {I : List ValueInfoP} {v : ValueInfoP} (h : findVI I v.name = none) :
    normOutputVI I v = normValueInfo v := by simp only [normOutputVI, h]

theorem mergeVI_self (M : ValueInfoP) (h : SortedE M.metadata) : mergeVI M M = M := by
  have h1 : dictUpdate (dictOfEntries M.metadata) (dictOfEntries M.metadata) = dictOfEntries M.metadata :=
    dictUpdate_of_subset (nodup_dkeys_dictOfEntries _) _ (fun _ h => h)
  have h2 : sortEntries (dictOfEntries M.metadata) = M.metadata := normEntries_of_sorted h
  unfold mergeVI
  rw [h1, h2]

theorem mergeVI_self_merge (vi vo : ValueInfoP) :
    mergeVI (mergeVI vi vo) (mergeVI vi vo) = mergeVI vi vo :=
  mergeVI_self _ (sorted_sortEntries (nodup_dkeys_dictUpdate (nodup_dkeys_dictOfEntries _) _))

theorem passthrough_idem (hin : (inputs.map (·.name)).Nodup) (hout : ConsOut outputs) :
    (inputs.map (normInputVI outputs)).map (normInputVI (outputs.map (normOutputVI inputs)))
        = inputs.map (normInputVI outputs) ∧
    (outputs.map (normOutputVI inputs)).map (normOutputVI (inputs.map (normInputVI outputs)))
        = outputs.map (normOutputVI inputs) := by
  constructor
  · rw [List.map_map]
    apply List.map_congr_left
    intro vi hvi
    simp only [Function.comp]
    have hl : findVI (outputs.map (normOutputVI inputs)) (normInputVI outputs vi).name
        = (findVI outputs vi.name).map (normOutputVI inputs) := by
      rw [normInputVI_name, findVI_map_of_name _ (normOutputVI_name inputs)]
    cases hf : findVI outputs vi.name with
    | none =>
      rw [hf] at hl
      rw [normInputVI_none hl, normInputVI_none hf, normValueInfo_idem]
    | some vo =>
      rw [hf] at hl
      have hn := (findVI_mem hf).2
      have h2 : findVI inputs vo.name = some vi := by rw [hn]; exact findVI_of_mem hin hvi
      rw [normInputVI_some hl, normInputVI_some hf, normOutputVI_some h2]
      exact mergeVI_self_merge vi vo
  · rw [List.map_map]
    apply List.map_congr_left
    intro vo hvo
    simp only [Function.comp]
    have hl : findVI (inputs.map (normInputVI outputs)) (normOutputVI inputs vo).name
        = (findVI inputs vo.name).map (normInputVI outputs) := by
      rw [normOutputVI_name, findVI_map_of_name _ (normInputVI_name outputs)]
    cases hf : findVI inputs vo.name with
    | none =>
      rw [hf] at hl
      rw [normOutputVI_none hl, normOutputVI_none hf, normValueInfo_idem]
    | some vi =>
      rw [hf] at hl
      have hn := (findVI_mem hf).2
      have h2 : findVI outputs vi.name = some vo := by rw [hn]; exact findVI_of_mem_cons hout hvo
      rw [normOutputVI_some hl, normOutputVI_some hf, normInputVI_some h2]
      exact mergeVI_self_merge vi vo

theorem canon_vis_idem (hw : GraphWF inits inputs outputs vis quant outs) (X : List ValueInfoP)
    (hX : ∀ e ∈ X, e.name ∉ scopeNames (inputs.map (·.name)) (inits.map (·.name)) outs) :
    normInitVIs (normInitVIs vis outputs (inputs.map (·.name)) inits
          ++ normNodeVIs vis (outputs.map (·.name)) outs ++ X) (outputs.map (normOutputVI inputs))
          (inputs.map (·.name)) (inits.map normTensor)
      ++ normNodeVIs (normInitVIs vis outputs (inputs.map (·.name)) inits
          ++ normNodeVIs vis (outputs.map (·.name)) outs ++ X) (outputs.map (·.name)) outs
    = normInitVIs vis outputs (inputs.map (·.name)) inits
        ++ normNodeVIs vis (outputs.map (·.name)) outs := by
  have hnot : ∀ n ∈ scopeNames (inputs.map (·.name)) (inits.map (·.name)) outs, n ∉ X.map (·.name) := by
    intro n hn hm
    obtain ⟨e, he, rfl⟩ := List.mem_map.1 hm
    exact hX e he hn
  rw [initVIs_of_lookup vis outputs _ _ _ inits (fun t ht hni => by
        rw [findVI_map_of_name _ (normOutputVI_name inputs)]
        cases hf : findVI outputs t.name with
        | none => rfl
        | some vo =>
          have hn := (findVI_mem hf).2
          simp only [Option.map_some, normOutputVI, findVI_none_iff.2 (hn ▸ hni)])
      (fun t ht hni hno => by
        rw [findVI_append_of_not_mem _ X _ (hnot _ (mem_scopeNames.2 (Or.inr (Or.inl
          ⟨List.mem_map_of_mem ht, hni⟩)))), findVI_canon_init hw ht hni]
        simp [initEntryO, findVI_none_iff.2 hno]),
    nodeVIs_of_lookup vis _ _ outs (fun n hn hno => by
        rw [findVI_append_of_not_mem _ X _ (hnot _ (mem_scopeNames.2 (Or.inr (Or.inr hn)))),
          findVI_canon_node hw hn hno])]

theorem canon_quant_idem (q : List AnnotP) (K : List String) (hK : K.Nodup)
    (hq : ∀ a ∈ q, a.params ≠ []) :
    normQuantFor (normQuantFor q K) K = normQuantFor q K := by
  rw [normQuantFor_eq q K, normQuantFor_eq]
  apply filterMap_congr'
  intro n hn
  have hlk := findLast?_filterMap_key (·.tensorName) (annotEntry q) (fun n b h => annotEntry_name h) K hK n
  simp only [hn, if_true] at hlk
  have hL : annotEntry (K.filterMap (annotEntry q)) n = match annotEntry q n with
      | some a => if a.params.isEmpty then none else some (normAnnot a)
      | none => none := by
    simp only [annotEntry, findAnnot] at hlk ⊢
    rw [hlk]
  rw [hL]
  cases hne : annotEntry q n with
  | none => rfl
  | some e =>
    unfold annotEntry at hne
    cases hf : findAnnot q n with
    | none => rw [hf] at hne; cases hne
    | some a =>
      rw [hf] at hne
      simp only at hne
      split at hne
      · cases hne
      · cases hne
        have hne' : a.params ≠ [] := hq a (findAnnot_name hf).1
        have : (normAnnot a).params.isEmpty = false := by
          simp only [normAnnot, List.isEmpty_eq_false_iff]
          intro h; exact hne' (normEntries_eq_nil.1 h)
        have h2 : ¬ normEntries a.params = [] := fun h => hne' (normEntries_eq_nil.1 h)
        simp [normAnnot, normEntries_idem, h2]

end

/-! ### graphs, nodes, attributes -/

theorem trim_filter (l : List String) :
    (trimTrailingEmpty l).filter (· ≠ "") = l.filter (· ≠ "") := by
  induction l with
  | nil => rfl
  | cons x xs ih =>
    simp only [trimTrailingEmpty]
    cases hr : trimTrailingEmpty xs with
    | nil =>
      rw [hr] at ih
      simp only [List.filter_nil] at ih
      by_cases hx : x = ""
      · simp only [hx, if_true, List.filter_nil, List.filter_cons, ne_eq, not_true_eq_false,
          decide_false, Bool.false_eq_true, if_false]
        exact ih
      · simp only [hx, if_false, List.filter_cons, ne_eq, not_false_eq_true, decide_true, if_true,
          List.filter_nil, ← ih]
    | cons y ys =>
      rw [hr] at ih
      simp only [List.filter_cons, ← ih]

theorem normNode_outputs (n : NodeP) : (normNode n).outputs = trimTrailingEmpty n.outputs := by
  cases n; rfl

theorem nodeOutNames_normNodes (nodes : List NodeP) :
    nodeOutNames (normNodes nodes) = nodeOutNames nodes := by
  induction nodes with
  | nil => rfl
  | cons n ns ih =>
    simp only [normNodes, nodeOutNames_cons, ih, normNode_outputs, trim_filter]

theorem mem_dedupStr {l : List String} {a : String} : a ∈ dedupStr l ↔ a ∈ l := by
  induction l with
  | nil => simp [dedupStr]
  | cons x xs ih =>
    simp only [dedupStr, List.mem_cons, List.mem_filter, ih]
    by_cases h : a = x <;> simp [h]

theorem nodup_dedupStr : ∀ l : List String, (dedupStr l).Nodup
  | [] => List.nodup_nil
  | x :: xs => by
    simp only [dedupStr, List.nodup_cons]
    exact ⟨fun h => by simpa using (List.mem_filter.1 h).2,
      List.Nodup.sublist List.filter_sublist (nodup_dedupStr xs)⟩

theorem quantKeys_nodup {inits : List TensorP} {inputs outputs vis : List ValueInfoP}
    {quant : List AnnotP} {outs : List String} (hw : GraphWF inits inputs outputs vis quant outs) :
    ((inputs.map (·.name)).filter (fun n => !(inits.map (·.name)).contains n) ++ inits.map (·.name)
      ++ outs.filter (fun n => !(outputs.map (·.name)).contains n)
      ++ (dedupStr (outputs.map (·.name))).filter
          (fun n => !(inputs.map (·.name)).contains n && !(inits.map (·.name)).contains n)).Nodup := by
  obtain ⟨hin, houts, hdis⟩ := nodupNames_parts hw
  rw [List.nodup_append]
  refine ⟨?_, List.Nodup.sublist List.filter_sublist (nodup_dedupStr _), ?_⟩
  · rw [List.nodup_append]
    refine ⟨?_, List.Nodup.sublist List.filter_sublist houts, ?_⟩
    · rw [List.nodup_append]
      refine ⟨List.Nodup.sublist List.filter_sublist hin, hw.nodupInit, ?_⟩
      intro a ha b hb e
      subst e
      simp only [List.mem_filter, Bool.not_eq_true', List.contains_eq_mem, decide_eq_false_iff_not] at ha
      exact ha.2 hb
    · intro a ha b hb e
      subst e
      have hb' := hdis a (List.mem_filter.1 hb).1
      rcases List.mem_append.1 ha with ha | ha
      · exact hb'.1 (List.mem_filter.1 ha).1
      · exact hb'.2 ha
  · intro a ha b hb e
    subst e
    simp only [List.mem_filter, Bool.and_eq_true, Bool.not_eq_true', List.contains_eq_mem,
      decide_eq_false_iff_not, mem_dedupStr] at hb
    rcases List.mem_append.1 ha with ha | ha
    · rcases List.mem_append.1 ha with ha | ha
      · exact hb.2.1 (List.mem_filter.1 ha).1
      · exact hb.2.2 ha
    · simp only [List.mem_filter, Bool.not_eq_true', List.contains_eq_mem,
        decide_eq_false_iff_not] at ha
      exact ha.2 hb.1

/-- normalising a normalised graph, even with extra value_info entries `X` whose names are not
values of the graph appended (the experimental function entries of IR < 10), gives it back -/
theorem normGraph_idem_ext (outer : Scopes) (name doc : String) (nodes : List NodeP)
    (inits : List TensorP) (inputs outputs vis : List ValueInfoP) (quant : List AnnotP)
    (metadata : List Entry)
    (hwf : wfGraph outer (.mk name doc nodes inits inputs outputs vis quant metadata) = true)
    (hnodes : normNodes (normNodes nodes) = normNodes nodes) (X : List ValueInfoP)
    (hX : ∀ e ∈ X, e.name ∉ scopeNames (inputs.map (·.name)) (inits.map (·.name)) (nodeOutNames nodes)) :
    normGraph (GraphP.addValueInfo
        (normGraph (.mk name doc nodes inits inputs outputs vis quant metadata)) X)
      = normGraph (.mk name doc nodes inits inputs outputs vis quant metadata) := by
  obtain ⟨hw, _⟩ := graphWF_of_wf outer name doc nodes inits inputs outputs vis quant metadata hwf
  have e1 : (inputs.map (normInputVI outputs)).map (·.name) = inputs.map (·.name) := by
    simp [List.map_map, Function.comp_def, normInputVI_name]
  have e2 : (outputs.map (normOutputVI inputs)).map (·.name) = outputs.map (·.name) := by
    simp [List.map_map, Function.comp_def, normOutputVI_name]
  have e3 : (inits.map normTensor).map (·.name) = inits.map (·.name) := by
    simp [List.map_map, Function.comp_def, normTensor]
  have e4 : (inits.map normTensor).map normTensor = inits.map normTensor := by
    simp [List.map_map, Function.comp_def, normTensor_idem]
  obtain ⟨e5, e6⟩ := passthrough_idem (inputs := inputs) (outputs := outputs) hw.nodupIn hw.consOut
  simp only [normGraph, GraphP.addValueInfo, e1, e2, e3, e4, e5, e6, hnodes, nodeOutNames_normNodes,
    normEntries_idem, canon_vis_idem hw X hX,
    canon_quant_idem quant _ (quantKeys_nodup hw) (fun a ha => (hw.quantOK a ha).2.1)]

theorem normGraph_idem_core (outer : Scopes) (name doc : String) (nodes : List NodeP)
    (inits : List TensorP) (inputs outputs vis : List ValueInfoP) (quant : List AnnotP)
    (metadata : List Entry)
    (hwf : wfGraph outer (.mk name doc nodes inits inputs outputs vis quant metadata) = true)
    (hnodes : normNodes (normNodes nodes) = normNodes nodes) :
    normGraph (normGraph (.mk name doc nodes inits inputs outputs vis quant metadata))
      = normGraph (.mk name doc nodes inits inputs outputs vis quant metadata) := by
  have := normGraph_idem_ext outer name doc nodes inits inputs outputs vis quant metadata hwf hnodes []
    (by intro e he; cases he)
  rwa [addValueInfo_nil] at this

mutual
theorem normAttr_idem (scopes : Scopes) : ∀ a : AttrP, wfAttr scopes a = true →
    normAttr (normAttr a) = normAttr a
  | .tensor n d t, _ => by simp [normAttr, normTensor_idem]
  | .tensors n d ts, _ => by simp [normAttr, List.map_map, Function.comp_def, normTensor_idem]
  | .graph n d g, h => by
    simp only [wfAttr] at h
    simp [normAttr, normGraph_idem scopes g h]
  | .graphs n d gs, h => by
    simp only [wfAttr] at h
    simp [normAttr, normGraphs_idem scopes gs h]
  | .ref .., _ | .int .., _ | .float .., _ | .string .., _ | .ints .., _ | .floats .., _
  | .strings .., _ | .typeProto .., _ | .typeProtos .., _ | .undefined .., _ | .sparse .., _
  | .unknown .., _ => rfl

theorem normGraphs_idem (scopes : Scopes) : ∀ gs : List GraphP, wfGraphs scopes gs = true →
    normGraphs (normGraphs gs) = normGraphs gs
  | [], _ => rfl
  | g :: gs, h => by
    simp only [wfGraphs, Bool.and_eq_true] at h
    simp [normGraphs, normGraph_idem scopes g h.1, normGraphs_idem scopes gs h.2]

theorem normAttrs_idem (scopes : Scopes) : ∀ as : List AttrP, wfAttrs scopes as = true →
    normAttrs (normAttrs as) = normAttrs as
  | [], _ => rfl
  | a :: as, h => by
    simp only [wfAttrs, Bool.and_eq_true] at h
    simp [normAttrs, normAttr_idem scopes a h.1, normAttrs_idem scopes as h.2]

theorem normNode_idem (scopes : Scopes) : ∀ n : NodeP, wfNode scopes n = true →
    normNode (normNode n) = normNode n
  | .mk inputs outputs name opType domain overload doc attrs metadata devcfgs, h => by
    simp only [wfNode, Bool.and_eq_true] at h
    simp [normNode, trimTrailingEmpty_idem, normDomain_idem, normEntries_idem,
      normAttrs_idem scopes attrs h.1.1.2]

theorem normNodes_idem (scopes : Scopes) : ∀ ns : List NodeP, wfNodes scopes ns = true →
    normNodes (normNodes ns) = normNodes ns
  | [], _ => rfl
  | n :: ns, h => by
    simp only [wfNodes, Bool.and_eq_true] at h
    simp [normNodes, normNode_idem scopes n h.1, normNodes_idem scopes ns h.2]

theorem normGraph_idem (outer : Scopes) : ∀ g : GraphP, wfGraph outer g = true →
    normGraph (normGraph g) = normGraph g
  | .mk name doc nodes inits inputs outputs vis quant metadata, h => by
    apply normGraph_idem_core outer name doc nodes inits inputs outputs vis quant metadata h
    obtain ⟨_, hwn⟩ := graphWF_of_wf outer name doc nodes inits inputs outputs vis quant metadata h
    exact normNodes_idem _ nodes hwn
end

/-! ### functions and models -/

theorem normFnVIs_filterMap (vis : List ValueInfoP) (K : List String) :
    normFnVIs vis K = K.filterMap (nodeEntry vis) := by
  induction K with
  | nil => rfl
  | cons n ks ih =>
    simp only [normFnVIs, ih, List.filterMap_cons, nodeEntry]
    cases findVI vis n with
    | none => rfl
    | some vi => by_cases hi : viHasInfo vi = true <;> simp [hi]

theorem normFnVIs_idem (vis : List ValueInfoP) (K : List String) (hK : K.Nodup) :
    normFnVIs (normFnVIs vis K) K = normFnVIs vis K := by
  rw [normFnVIs_filterMap vis K, normFnVIs_filterMap]
  apply filterMap_congr'
  intro n hn
  have hlk := findLast?_filterMap_key (fun v : ValueInfoP => v.name) (nodeEntry vis)
    (fun n b h => nodeEntry_name h) K hK n
  simp only [hn, if_true] at hlk
  have : nodeEntry (K.filterMap (nodeEntry vis)) n = match nodeEntry vis n with
      | some vi => if viHasInfo vi then some (normValueInfo vi) else none
      | none => none := by
    simp only [nodeEntry, findVI] at hlk ⊢
    rw [hlk]
  rw [this]
  cases hne : nodeEntry vis n with
  | none => rfl
  | some e =>
    obtain ⟨h1, h2⟩ := nodeEntry_fixed hne
    simp [h1, h2]

theorem normFunction_idem (ver : Int) (f : FunctionP) (h : wfFunction ver f = true) (c : Bool) :
    normFunction c (normFunction c f) = normFunction c f := by
  simp only [wfFunction, Bool.and_eq_true] at h
  obtain ⟨⟨⟨⟨⟨⟨⟨⟨⟨⟨⟨⟨h1, _h2⟩, _h3⟩, _h4⟩, h5⟩, _h6⟩, _h7⟩, _h8⟩, _h9⟩, _h10⟩, _h11⟩, h12⟩, _h13⟩ := h
  simp only [normFunction, normEntries_idem, normNodes_idem _ f.nodes h12, normAttrs_idem [] f.attrProtos h5,
    nodeOutNames_normNodes]
  cases c with
  | false => rfl
  | true => simp [normFnVIs_idem f.valueInfo _ (nodupStr_iff.1 h1)]

/-! ### the experimental entries of a normalised IR < 10 model -/

abbrev FKey := String × String × String

/-- keyed lists again, for keys extracted from the elements (`key b = some k`) -/
theorem findLast?_filterMap_okey {β κ : Type} [DecidableEq κ] (key : β → Option κ) (F : κ → Option β)
    (hF : ∀ k b, F k = some b → key b = some k) :
    ∀ K : List κ, K.Nodup → ∀ k,
      findLast? (fun b => key b = some k) (K.filterMap F) = if k ∈ K then F k else none
  | [], _, k => by simp [findLast?]
  | x :: xs, hnd, k => by
    rw [List.nodup_cons] at hnd
    have ih := findLast?_filterMap_okey key F hF xs hnd.2 k
    have hsplit : (x :: xs).filterMap F = (F x).toList ++ xs.filterMap F := by
      simp only [List.filterMap_cons]; cases F x <;> rfl
    rw [hsplit, findLast?_append, ih]
    by_cases hn : k ∈ xs
    · have hnk : k ≠ x := fun e => hnd.1 (e ▸ hn)
      simp only [hn, if_true, List.mem_cons, hnk, false_or]
      cases hFn : F k with
      | some b => rfl
      | none =>
        simp only
        cases hFk : F x with
        | none => rfl
        | some b =>
          have : ¬ key b = some k := by
            rw [hF x b hFk]; intro e; exact hnk (Option.some.inj e).symm
          simp [findLast?, this]
    · simp only [hn, if_false, List.mem_cons, or_false]
      by_cases hnk : k = x
      · subst hnk
        simp only [if_true]
        cases hFk : F k with
        | none => rfl
        | some b => simp [findLast?, hF k b hFk]
      · simp only [hnk, if_false]
        cases hFk : F x with
        | none => rfl
        | some b =>
          have : ¬ key b = some k := by
            rw [hF x b hFk]; intro e; exact hnk (Option.some.inj e).symm
          simp [findLast?, this]

/-- the keys `(domain, name, value)` of the values of a function the encoding can address -/
def fnKeys (f : FunctionP) : List FKey :=
  if !f.overload.isEmpty then [] else
  (f.inputs ++ nodeOutNames f.nodes).map fun vn => (f.domain, f.name, vn)

/-- `expEntry`, by key -/
def expEntryK (L : List ValueInfoP) (k : FKey) : Option ValueInfoP :=
  match findLast? (fun e => parseExperimentalName e.name = some k) L with
  | some e => if viHasInfo e then some (normValueInfo e) else none
  | none => none

theorem experimentalVIs_eq (L : List ValueInfoP) (f : FunctionP) :
    experimentalVIs L f = (fnKeys f).filterMap (expEntryK L) := by
  unfold experimentalVIs fnKeys
  split
  · rfl
  · rw [List.filterMap_map]; rfl

theorem flatMap_experimentalVIs_eq (L : List ValueInfoP) (fs : List FunctionP) :
    fs.flatMap (experimentalVIs L) = (fs.flatMap fnKeys).filterMap (expEntryK L) := by
  induction fs with
  | nil => rfl
  | cons f fs ih => simp only [List.flatMap_cons, List.filterMap_append, ih, experimentalVIs_eq]

theorem fnKeys_normFunction (c : Bool) (f : FunctionP) : fnKeys (normFunction c f) = fnKeys f := by
  simp [fnKeys, normFunction, nodeOutNames_normNodes]

theorem expEntryK_key {L : List ValueInfoP} {k : FKey} {b : ValueInfoP} (h : expEntryK L k = some b) :
    parseExperimentalName b.name = some k ∧ viHasInfo b = true ∧ normValueInfo b = b := by
  unfold expEntryK at h
  cases hf : findLast? (fun e => parseExperimentalName e.name = some k) L with
  | none => rw [hf] at h; cases h
  | some e =>
    rw [hf] at h
    simp only at h
    split at h
    · rename_i hi
      cases h
      have := (findLast?_mem hf).2
      exact ⟨by simpa [normValueInfo] using this, by rw [viHasInfo_norm]; exact hi, normValueInfo_idem e⟩
    · cases h

theorem nodup_map_inj {α β : Type} {f : α → β} (hf : ∀ a b, f a = f b → a = b) :
    ∀ {l : List α}, l.Nodup → (l.map f).Nodup
  | [], _ => by simp
  | x :: xs, h => by
    rw [List.nodup_cons] at h
    simp only [List.map_cons, List.nodup_cons]
    refine ⟨?_, nodup_map_inj hf h.2⟩
    intro hm
    obtain ⟨y, hy, hxy⟩ := List.mem_map.1 hm
    exact h.1 (hf _ _ hxy ▸ hy)

theorem expEntryK_append (A B : List ValueInfoP) (k : FKey) :
    expEntryK (A ++ B) k = match findLast? (fun e => parseExperimentalName e.name = some k) B with
      | some e => if viHasInfo e then some (normValueInfo e) else none
      | none => expEntryK A k := by
  simp only [expEntryK, findLast?_append]
  cases findLast? (fun e => parseExperimentalName e.name = some k) B <;> rfl

theorem fnKeys_nodup (ver : Int) : ∀ fs : List FunctionP, fs.all (wfFunction ver) = true →
    (fs.map fun f => (f.domain, f.name, f.overload)).Nodup → (fs.flatMap fnKeys).Nodup
  | [], _, _ => by simp
  | f :: fs, hwf, hk => by
    simp only [List.all_cons, Bool.and_eq_true] at hwf
    simp only [List.map_cons, List.nodup_cons] at hk
    rw [List.flatMap_cons, List.nodup_append]
    refine ⟨?_, fnKeys_nodup ver fs hwf.2 hk.2, ?_⟩
    · unfold fnKeys
      split
      · simp
      · have h1 : (f.inputs ++ nodeOutNames f.nodes).Nodup := by
          have := hwf.1
          simp only [wfFunction, Bool.and_eq_true] at this
          exact nodupStr_iff.1 this.1.1.1.1.1.1.1.1.1.1.1.1
        exact nodup_map_inj (fun a b e => by simpa using e) h1
    · intro a ha b hb e
      subst e
      unfold fnKeys at ha
      split at ha
      · cases ha
      · rename_i hov
        obtain ⟨vn, _, rfl⟩ := List.mem_map.1 ha
        obtain ⟨g, hg, hgk⟩ := List.mem_flatMap.1 hb
        unfold fnKeys at hgk
        split at hgk
        · cases hgk
        · rename_i hov'
          obtain ⟨vn', _, hk'⟩ := List.mem_map.1 hgk
          simp only [Prod.mk.injEq] at hk'
          have ho1 : f.overload = "" := by simpa [String.isEmpty_iff] using hov
          have ho2 : g.overload = "" := by simpa [String.isEmpty_iff] using hov'
          exact hk.1 (List.mem_map.2 ⟨g, hg, by simp [hk'.1, hk'.2.1, ho1, ho2]⟩)

theorem mem_canonVI_name {inits : List TensorP} {inputs outputs vis : List ValueInfoP} {outs : List String}
    {e : ValueInfoP}
    (he : e ∈ normInitVIs vis outputs (inputs.map (·.name)) inits
      ++ normNodeVIs vis (outputs.map (·.name)) outs) :
    e.name ∈ scopeNames (inputs.map (·.name)) (inits.map (·.name)) outs := by
  rw [normInitVIs_eq, normNodeVIs_eq] at he
  rcases List.mem_append.1 he with he | he
  · obtain ⟨t, ht, hte⟩ := List.mem_filterMap.1 he
    rw [initEntryO_name hte]
    have := List.mem_filter.1 ht
    exact mem_scopeNames.2 (Or.inr (Or.inl ⟨List.mem_map_of_mem this.1, by simpa using this.2⟩))
  · obtain ⟨n, hn, hne⟩ := List.mem_filterMap.1 he
    rw [nodeEntry_name hne]
    exact mem_scopeNames.2 (Or.inr (Or.inr (List.mem_filter.1 hn).1))

theorem normModel_idem (m : ModelP) (h : wfModel m = true) : normModel (normModel m) = normModel m := by
  simp only [wfModel, Bool.and_eq_true] at h
  obtain ⟨⟨⟨⟨⟨⟨hg, hf⟩, _hmeta⟩, _hops⟩, hkeys⟩, _hdev⟩, hexp⟩ := h
  have hfun : (m.functions.map (normFunction (decide (m.irVersion ≥ 10)))).map
      (normFunction (decide (m.irVersion ≥ 10)))
      = m.functions.map (normFunction (decide (m.irVersion ≥ 10))) := by
    rw [List.map_map]
    apply List.map_congr_left
    intro f hfm
    exact normFunction_idem m.irVersion f (List.all_eq_true.1 hf f hfm) _
  by_cases hc : m.irVersion ≥ 10
  · simp only [hc] at hfun
    simp only [normModel, hc, if_true, normEntries_idem, normGraph_idem [] m.graph hg, hfun]
  · have hnp : ∀ n ∈ scopeNames (m.graph.inputs.map (·.name)) (m.graph.initializers.map (·.name))
        (nodeOutNames m.graph.nodes), parseExperimentalName n = none := by
      intro n hn
      rcases Bool.or_eq_true_iff.1 hexp with h1 | h1
      · simp at h1; exact absurd h1 hc
      · have := List.all_eq_true.1 h1 n hn
        simpa using this
    cases hmg : m.graph with
    | mk name doc nodes inits inputs outputs vis quant md =>
      rw [hmg] at hg hnp
      simp only [GraphP.inputs, GraphP.initializers, GraphP.nodes] at hnp
      obtain ⟨_, hwn⟩ := graphWF_of_wf [] name doc nodes inits inputs outputs vis quant md hg
      have hnodes := normNodes_idem _ nodes hwn
      -- the experimental entries, as a list keyed by (domain, name, value)
      have hK := fnKeys_nodup m.irVersion m.functions hf (nodupKeys_iff.1 hkeys)
      have hXname : ∀ e ∈ (m.functions.flatMap fnKeys).filterMap (expEntryK vis),
          e.name ∉ scopeNames (inputs.map (·.name)) (inits.map (·.name)) (nodeOutNames nodes) := by
        intro e he hn
        obtain ⟨k, _, hk⟩ := List.mem_filterMap.1 he
        have := (expEntryK_key hk).1
        rw [hnp _ hn] at this
        cases this
      have hgraph := normGraph_idem_ext [] name doc nodes inits inputs outputs vis quant md hg hnodes
        ((m.functions.flatMap fnKeys).filterMap (expEntryK vis)) hXname
      -- looking a key up in the value_info of the normalised model
      have hlook : ∀ k ∈ m.functions.flatMap fnKeys,
          expEntryK ((normInitVIs vis outputs (inputs.map (·.name)) inits
              ++ normNodeVIs vis (outputs.map (·.name)) (nodeOutNames nodes))
            ++ (m.functions.flatMap fnKeys).filterMap (expEntryK vis)) k = expEntryK vis k := by
        intro k hk
        have h1 := findLast?_filterMap_okey (fun b : ValueInfoP => parseExperimentalName b.name)
          (expEntryK vis) (fun k b hb => (expEntryK_key hb).1) _ hK k
        simp only [hk, if_true] at h1
        have h2 : expEntryK (normInitVIs vis outputs (inputs.map (·.name)) inits
              ++ normNodeVIs vis (outputs.map (·.name)) (nodeOutNames nodes)) k = none := by
          have : findLast? (fun e => parseExperimentalName e.name = some k)
              (normInitVIs vis outputs (inputs.map (·.name)) inits
                ++ normNodeVIs vis (outputs.map (·.name)) (nodeOutNames nodes)) = none := by
            apply findLast?_none_of_forall
            intro e he
            simp [hnp _ (mem_canonVI_name he)]
          simp only [expEntryK, this]
        rw [expEntryK_append, h1, h2]
        cases hE : expEntryK vis k with
        | none => rfl
        | some e =>
          obtain ⟨_, h4, h5⟩ := expEntryK_key hE
          simp [h4, h5]
      have hX2 : (m.functions.flatMap fnKeys).filterMap (expEntryK
            ((normInitVIs vis outputs (inputs.map (·.name)) inits
              ++ normNodeVIs vis (outputs.map (·.name)) (nodeOutNames nodes))
            ++ (m.functions.flatMap fnKeys).filterMap (expEntryK vis)))
          = (m.functions.flatMap fnKeys).filterMap (expEntryK vis) :=
        filterMap_congr' hlook
      have hd : decide (m.irVersion ≥ 10) = false := by simpa using hc
      rw [hd] at hfun
      have hfk : (m.functions.map (normFunction false)).flatMap fnKeys = m.functions.flatMap fnKeys := by
        rw [List.flatMap_map]
        apply flatMap_congr'
        intro f _
        exact fnKeys_normFunction _ f
      have hN1 : normModel m = { m with
          metadata := normEntries m.metadata,
          graph := GraphP.addValueInfo (normGraph (.mk name doc nodes inits inputs outputs vis quant md))
            ((m.functions.flatMap fnKeys).filterMap (expEntryK vis)),
          functions := m.functions.map (normFunction false) } := by
        simp only [normModel, hc, if_false, decide_false, hmg, flatMap_experimentalVIs_eq, GraphP.valueInfo]
      have hvi : (GraphP.addValueInfo (normGraph (.mk name doc nodes inits inputs outputs vis quant md))
            ((m.functions.flatMap fnKeys).filterMap (expEntryK vis))).valueInfo
          = (normInitVIs vis outputs (inputs.map (·.name)) inits
              ++ normNodeVIs vis (outputs.map (·.name)) (nodeOutNames nodes))
            ++ (m.functions.flatMap fnKeys).filterMap (expEntryK vis) := by
        simp [normGraph, GraphP.addValueInfo, GraphP.valueInfo]
      rw [hN1]
      simp only [normModel, hc, if_false, decide_false, flatMap_experimentalVIs_eq, hvi, hX2, hgraph, hfun,
        hfk, normEntries_idem]

end IrVerif.Serde

import IrVerif.Lemmas.SerdeModel
/-! C02: `norm` is idempotent on well-formed protos (so `norm (serialize (deserialize p)) = norm p`
follows from `serialize (deserialize p) = norm p`). -/
namespace IrVerif.Serde
open IrVerif.Proto

/-! ### leaves -/

theorem normValueInfo_idem (vi : ValueInfoP) : normValueInfo (normValueInfo vi) = normValueInfo vi := by
  simp [normValueInfo, normEntries_idem]

theorem normExternal_idem (es : List Entry) : normExternal (normExternal es) = normExternal es := by
  unfold normExternal
  cases h1 : es.find? (fun e => e.key = "location") <;>
  cases h2 : es.find? (fun e => e.key = "offset") <;>
  cases h3 : es.find? (fun e => e.key = "length") <;>
  cases h4 : es.find? (fun e => e.key = "checksum") <;>
  simp only [List.filterMap_cons, List.filterMap_nil, h1, h2, h3, h4] <;>
  (try have k1 := List.find?_some h1) <;> (try have k2 := List.find?_some h2) <;>
  (try have k3 := List.find?_some h3) <;> (try have k4 := List.find?_some h4) <;>
  simp_all [List.find?_cons]

theorem normTensor_idem (t : TensorP) : normTensor (normTensor t) = normTensor t := by
  simp only [normTensor, normEntries_idem]
  split <;> simp [normExternal_idem]

theorem normTensor_name (t : TensorP) : (normTensor t).name = t.name := rfl
theorem normTensor_dims (t : TensorP) : (normTensor t).dims = t.dims := rfl
theorem normTensor_dataType (t : TensorP) : (normTensor t).dataType = t.dataType := rfl

theorem normDomain_idem (d : String) : normDomain (normDomain d) = normDomain d := by
  unfold normDomain; split <;> simp

theorem normEntries_eq_nil {es : List Entry} : normEntries es = [] ↔ es = [] := by
  constructor
  · intro h
    have : (dictOfEntries es).isEmpty = true := by
      unfold normEntries at h
      cases hd : dictOfEntries es with
      | nil => rfl
      | cons x xs =>
        rw [hd] at h
        obtain ⟨k, v⟩ := x
        simp only [sortEntries] at h
        have := (mem_insertEntry (e := ⟨k, v⟩) (y := ⟨k, v⟩) (l := sortEntries xs)).2 (Or.inl rfl)
        rw [h] at this; cases this
    exact sortEntries_dictOfEntries_isEmpty es this
  · intro h; subst h; rfl

/-! ### lists keyed by a name -/

theorem findLast?_append {α : Type} (p : α → Bool) (a b : List α) :
    findLast? p (a ++ b) = match findLast? p b with
      | some y => some y
      | none => findLast? p a := by
  induction a with
  | nil => simp only [List.nil_append, findLast?]; cases findLast? p b <;> rfl
  | cons x xs ih =>
    simp only [List.cons_append, findLast?, ih]
    cases findLast? p b <;> rfl

theorem findLast?_none_of_forall {α : Type} {p : α → Bool} {l : List α} (h : ∀ a ∈ l, p a = false) :
    findLast? p l = none := by
  induction l with
  | nil => rfl
  | cons x xs ih =>
    simp only [findLast?, ih (fun a ha => h a (List.mem_cons_of_mem _ ha)), h x (by simp)]
    rfl

/-- a list built from distinct keys `K`, at most one element per key: looking a key up gives back
what was put there -/
theorem findLast?_filterMap_key {β : Type} (key : β → String) (F : String → Option β)
    (hF : ∀ n b, F n = some b → key b = n) :
    ∀ K : List String, K.Nodup → ∀ n,
      findLast? (fun b => key b = n) (K.filterMap F) = if n ∈ K then F n else none
  | [], _, n => by simp [findLast?]
  | k :: ks, hnd, n => by
    rw [List.nodup_cons] at hnd
    have ih := findLast?_filterMap_key key F hF ks hnd.2 n
    have hsplit : (k :: ks).filterMap F = (F k).toList ++ ks.filterMap F := by
      simp only [List.filterMap_cons]; cases F k <;> rfl
    rw [hsplit, findLast?_append, ih]
    by_cases hn : n ∈ ks
    · have hnk : n ≠ k := fun e => hnd.1 (e ▸ hn)
      simp only [hn, if_true, List.mem_cons, hnk, false_or]
      cases hFn : F n with
      | some b => rfl
      | none =>
        simp only
        cases hFk : F k with
        | none => rfl
        | some b =>
          have : key b ≠ n := by rw [hF k b hFk]; exact fun e => hnk e.symm
          simp [findLast?, this]
    · simp only [hn, if_false, List.mem_cons, or_false]
      by_cases hnk : n = k
      · subst hnk
        simp only [if_true]
        cases hFk : F n with
        | none => rfl
        | some b => simp [findLast?, hF n b hFk]
      · simp only [hnk, if_false]
        cases hFk : F k with
        | none => rfl
        | some b =>
          have : key b ≠ n := by rw [hF k b hFk]; exact fun e => hnk e.symm
          simp [findLast?, this]

/-! ### the canonical value_info / annotation lists as keyed lists -/

/-- the canonical entry of a non-input initializer -/
def initEntry (vis : List ValueInfoP) (t : TensorP) : ValueInfoP :=
  match findVI vis t.name with
  | some vi => normValueInfo (fillFromTensor vi t)
  | none => defaultVI t

/-- the canonical entry of a node output that is not a graph output, if any -/
def nodeEntry (vis : List ValueInfoP) (n : String) : Option ValueInfoP :=
  match findVI vis n with
  | some vi => if viHasInfo vi then some (normValueInfo vi) else none
  | none => none

def annotEntry (q : List AnnotP) (n : String) : Option AnnotP :=
  match findAnnot q n with
  | some a => if a.params.isEmpty then none else some (normAnnot a)
  | none => none

theorem normInitVIs_eq (vis : List ValueInfoP) (inN : List String) (ts : List TensorP) :
    normInitVIs vis inN ts = (ts.filter (fun t => !inN.contains t.name)).map (initEntry vis) := by
  induction ts with
  | nil => rfl
  | cons t ts ih =>
    simp only [normInitVIs, ih, List.filter_cons]
    by_cases h : inN.contains t.name = true
    · simp only [h, if_true, Bool.not_true, Bool.false_eq_true, if_false, List.nil_append]
    · have h' : inN.contains t.name = false := by simpa using h
      simp only [h', Bool.false_eq_true, if_false, Bool.not_false, if_true, List.map_cons, initEntry]
      cases findVI vis t.name <;> rfl

theorem normNodeVIs_eq (vis : List ValueInfoP) (outN : List String) (ks : List String) :
    normNodeVIs vis outN ks = (ks.filter (fun n => !outN.contains n)).filterMap (nodeEntry vis) := by
  induction ks with
  | nil => rfl
  | cons n ks ih =>
    simp only [normNodeVIs, ih, List.filter_cons]
    by_cases h : outN.contains n = true
    · simp only [h, if_true, Bool.not_true, Bool.false_eq_true, if_false, List.nil_append]
    · have h' : outN.contains n = false := by simpa using h
      simp only [h', Bool.false_eq_true, if_false, Bool.not_false, if_true, List.filterMap_cons,
        nodeEntry]
      cases findVI vis n with
      | none => rfl
      | some vi => by_cases hi : viHasInfo vi = true <;> simp [hi]

theorem normQuantFor_eq (q : List AnnotP) (ks : List String) :
    normQuantFor q ks = ks.filterMap (annotEntry q) := by
  induction ks with
  | nil => rfl
  | cons n ks ih =>
    simp only [normQuantFor, ih, List.filterMap_cons, annotEntry]
    cases findAnnot q n with
    | none => rfl
    | some a => by_cases hi : a.params.isEmpty = true <;> simp [hi]

theorem nodeEntry_name {vis : List ValueInfoP} {n : String} {b : ValueInfoP}
    (h : nodeEntry vis n = some b) : b.name = n := by
  unfold nodeEntry at h
  cases hf : findVI vis n with
  | none => rw [hf] at h; cases h
  | some vi =>
    rw [hf] at h
    simp only at h
    split at h
    · cases h; exact (findVI_mem hf).2
    · cases h

theorem annotEntry_name {q : List AnnotP} {n : String} {b : AnnotP}
    (h : annotEntry q n = some b) : b.tensorName = n := by
  unfold annotEntry at h
  cases hf : findAnnot q n with
  | none => rw [hf] at h; cases h
  | some a =>
    rw [hf] at h
    simp only at h
    split at h
    · cases h
    · cases h; exact (findAnnot_name hf).2

theorem initEntry_name (vis : List ValueInfoP) (t : TensorP) : (initEntry vis t).name = t.name := by
  unfold initEntry
  cases hf : findVI vis t.name with
  | none => rfl
  | some vi => simp [normValueInfo, fillFromTensor, (findVI_mem hf).2]

/-- entries are fixed points of the normalisations that produced them -/
theorem fillLeafShape_idem (D : ShapeP) (t : TypeP) :
    fillLeafShape D (fillLeafShape D t) = fillLeafShape D t := by
  induction t with
  | tensor e sh den => cases sh <;> rfl
  | sparse e sh den => cases sh <;> rfl
  | sequence e den ih => simp [fillLeafShape, ih]
  | optional e den ih => simp [fillLeafShape, ih]
  | unset den => rfl
  | map den => rfl

theorem fillLeafShape_not_unset (D : ShapeP) (t : TypeP) (h : viIsUnset t = false) :
    viIsUnset (fillLeafShape D t) = false := by
  cases t with
  | unset den => simp [viIsUnset] at h
  | tensor e sh den => cases sh <;> rfl
  | sparse e sh den => cases sh <;> rfl
  | sequence e den => rfl
  | optional e den => rfl
  | map den => rfl

theorem initEntry_fixed (vis : List ValueInfoP) (t : TensorP) :
    normValueInfo (fillFromTensor (initEntry vis t) (normTensor t)) = initEntry vis t := by
  unfold initEntry
  cases hf : findVI vis t.name with
  | none =>
    simp [fillFromTensor, defaultVI, fillLeafShape, normValueInfo, normTensor, normEntries,
      dictOfEntries, dictUpdate, sortEntries]
  | some vi =>
    simp only [normValueInfo, fillFromTensor, normEntries_idem, normTensor_dims, defaultVI,
      normTensor_dataType, normTensor_name]
    congr 1
    cases hvt : vi.type with
    | unset den => simp [fillLeafShape]
    | tensor e sh den => cases sh <;> simp [fillLeafShape]
    | sparse e sh den => cases sh <;> simp [fillLeafShape]
    | sequence e den => simp [fillLeafShape, fillLeafShape_idem]
    | optional e den => simp [fillLeafShape, fillLeafShape_idem]
    | map den => simp [fillLeafShape]

theorem viHasInfo_norm (vi : ValueInfoP) : viHasInfo (normValueInfo vi) = viHasInfo vi := by
  simp only [viHasInfo, normValueInfo]
  have : (normEntries vi.metadata).isEmpty = vi.metadata.isEmpty := by
    rw [Bool.eq_iff_iff]
    simp [List.isEmpty_iff, normEntries_eq_nil]
  rw [this]

/-! ### value_info and annotations of a normalised graph -/

section
variable {inits : List TensorP} {inputs outputs vis : List ValueInfoP} {quant : List AnnotP}
  {outs : List String}

theorem find?_map_name (ts : List TensorP) (f : TensorP → ValueInfoP) (hf : ∀ t, (f t).name = t.name)
    (n : String) :
    (ts.map f).find? (fun v => v.name = n) = (ts.find? (fun t => t.name = n)).map f := by
  induction ts with
  | nil => rfl
  | cons t ts ih =>
    simp only [List.map_cons, List.find?_cons, hf]
    by_cases h : t.name = n <;> simp [h, ih]

theorem nodupNames_parts (hw : GraphWF inits inputs outputs vis quant outs) :
    (inputs.map (·.name)).Nodup ∧ outs.Nodup ∧
    (∀ n ∈ outs, n ∉ inputs.map (·.name) ∧ n ∉ inits.map (·.name)) := by
  have hnd := hw.nodupNames
  simp only [scopeNames] at hnd
  rw [List.nodup_append] at hnd
  obtain ⟨hAB, hC, hdisC⟩ := hnd
  rw [List.nodup_append] at hAB
  refine ⟨hAB.1, hC, ?_⟩
  intro n hn
  refine ⟨fun h => hdisC n (List.mem_append_left _ h) n hn rfl, fun h => ?_⟩
  by_cases hin : n ∈ inputs.map (·.name)
  · exact hdisC n (List.mem_append_left _ hin) n hn rfl
  · exact hdisC n (List.mem_append_right _ (List.mem_filter.2 ⟨h, by simpa using hin⟩)) n hn rfl

/-- looking an initializer up in the canonical value_info list -/
theorem findVI_canon_init (hw : GraphWF inits inputs outputs vis quant outs) {t : TensorP}
    (ht : t ∈ inits) (hni : t.name ∉ inputs.map (·.name)) :
    findVI (normInitVIs vis (inputs.map (·.name)) inits
        ++ normNodeVIs vis (outputs.map (·.name)) outs) t.name = some (initEntry vis t) := by
  obtain ⟨_, houts, hdis⟩ := nodupNames_parts hw
  rw [normInitVIs_eq, normNodeVIs_eq]
  unfold findVI
  rw [findLast?_append]
  have hB := findLast?_filterMap_key (·.name) (nodeEntry vis) (fun n b h => nodeEntry_name h)
    (outs.filter (fun n => !(outputs.map (·.name)).contains n))
    (List.Nodup.sublist List.filter_sublist houts) t.name
  have hnotin : t.name ∉ outs.filter (fun n => !(outputs.map (·.name)).contains n) := by
    intro hm
    exact (hdis _ (List.mem_filter.1 hm).1).2 (List.mem_map_of_mem ht)
  simp only [hnotin, if_false] at hB
  rw [hB]
  simp only
  have hndA : (((inits.filter (fun t => !(inputs.map (·.name)).contains t.name)).map (initEntry vis)).map
      (·.name)).Nodup := by
    simp only [List.map_map]
    have : ((fun x : ValueInfoP => x.name) ∘ initEntry vis) = (fun t : TensorP => t.name) := by
      funext t; simp [initEntry_name]
    rw [this]
    exact List.Nodup.sublist (List.Sublist.map _ List.filter_sublist) hw.nodupInit
  rw [findLast?_eq_find? (fun v : ValueInfoP => v.name) t.name _ hndA,
    find?_map_name _ _ (initEntry_name vis)]
  have hmem : t ∈ inits.filter (fun t => !(inputs.map (·.name)).contains t.name) :=
    List.mem_filter.2 ⟨ht, by simpa using hni⟩
  have := find?_of_nodup (fun t : TensorP => t.name)
    (List.Nodup.sublist (List.Sublist.map _ List.filter_sublist) hw.nodupInit) hmem
  rw [this]
  rfl

/-- looking a node output (not a graph output) up in the canonical value_info list -/
theorem findVI_canon_node (hw : GraphWF inits inputs outputs vis quant outs) {n : String}
    (hn : n ∈ outs) (hno : n ∉ outputs.map (·.name)) :
    findVI (normInitVIs vis (inputs.map (·.name)) inits
        ++ normNodeVIs vis (outputs.map (·.name)) outs) n = nodeEntry vis n := by
  obtain ⟨_, houts, hdis⟩ := nodupNames_parts hw
  rw [normInitVIs_eq, normNodeVIs_eq]
  unfold findVI
  rw [findLast?_append]
  have hB := findLast?_filterMap_key (·.name) (nodeEntry vis) (fun n b h => nodeEntry_name h)
    (outs.filter (fun n => !(outputs.map (·.name)).contains n))
    (List.Nodup.sublist List.filter_sublist houts) n
  have hin : n ∈ outs.filter (fun n => !(outputs.map (·.name)).contains n) :=
    List.mem_filter.2 ⟨hn, by simpa using hno⟩
  simp only [hin, if_true] at hB
  rw [hB]
  cases hne : nodeEntry vis n with
  | some e => rfl
  | none =>
    simp only
    apply findLast?_none_of_forall
    intro v hv
    obtain ⟨t, ht, rfl⟩ := List.mem_map.1 hv
    simp only [initEntry_name, decide_eq_false_iff_not]
    intro e
    exact (hdis n hn).2 (by rw [← e]; exact List.mem_map_of_mem (List.mem_filter.1 ht).1)

theorem nodeEntry_fixed {vis : List ValueInfoP} {n : String} {e : ValueInfoP}
    (h : nodeEntry vis n = some e) : viHasInfo e = true ∧ normValueInfo e = e := by
  unfold nodeEntry at h
  cases hf : findVI vis n with
  | none => rw [hf] at h; cases h
  | some vi =>
    rw [hf] at h
    simp only at h
    split at h
    · rename_i hi
      cases h
      exact ⟨by rw [viHasInfo_norm]; exact hi, normValueInfo_idem vi⟩
    · cases h

theorem initVIs_of_lookup (vis L : List ValueInfoP) (inN : List String) (inits : List TensorP)
    (h : ∀ t ∈ inits, t.name ∉ inN → findVI L t.name = some (initEntry vis t)) :
    normInitVIs L inN (inits.map normTensor) = normInitVIs vis inN inits := by
  rw [normInitVIs_eq, normInitVIs_eq]
  have hf : (inits.map normTensor).filter (fun t => !inN.contains t.name)
      = (inits.filter (fun t => !inN.contains t.name)).map normTensor := by
    rw [← filter_map_comm normTensor (fun t => !inN.contains t.name) inits]
    rfl
  rw [hf, List.map_map]
  apply List.map_congr_left
  intro t ht
  have htm := (List.mem_filter.1 ht).1
  have hni : t.name ∉ inN := by simpa using (List.mem_filter.1 ht).2
  simp only [Function.comp]
  have hl := h t htm hni
  have : initEntry L (normTensor t) = normValueInfo (fillFromTensor (initEntry vis t) (normTensor t)) := by
    simp only [initEntry, normTensor_name, hl]
  rw [this]
  exact initEntry_fixed vis t

theorem nodeVIs_of_lookup (vis L : List ValueInfoP) (outN outs : List String)
    (h : ∀ n ∈ outs, n ∉ outN → findVI L n = nodeEntry vis n) :
    normNodeVIs L outN outs = normNodeVIs vis outN outs := by
  rw [normNodeVIs_eq, normNodeVIs_eq]
  apply filterMap_congr'
  intro n hn
  have hno : n ∉ outN := by simpa using (List.mem_filter.1 hn).2
  have hlk := h n (List.mem_filter.1 hn).1 hno
  have : nodeEntry L n = match nodeEntry vis n with
      | some vi => if viHasInfo vi then some (normValueInfo vi) else none
      | none => none := by
    simp only [nodeEntry, hlk]
  rw [this]
  cases hne : nodeEntry vis n with
  | none => rfl
  | some e =>
    obtain ⟨h1, h2⟩ := nodeEntry_fixed hne
    simp [h1, h2]

theorem canon_vis_idem (hw : GraphWF inits inputs outputs vis quant outs) :
    normInitVIs (normInitVIs vis (inputs.map (·.name)) inits
          ++ normNodeVIs vis (outputs.map (·.name)) outs) (inputs.map (·.name)) (inits.map normTensor)
      ++ normNodeVIs (normInitVIs vis (inputs.map (·.name)) inits
          ++ normNodeVIs vis (outputs.map (·.name)) outs) (outputs.map (·.name)) outs
    = normInitVIs vis (inputs.map (·.name)) inits ++ normNodeVIs vis (outputs.map (·.name)) outs := by
  rw [initVIs_of_lookup vis _ _ inits (fun t ht hni => findVI_canon_init hw ht hni),
    nodeVIs_of_lookup vis _ _ outs (fun n hn hno => findVI_canon_node hw hn hno)]

theorem canon_quant_idem (q : List AnnotP) (K : List String) (hK : K.Nodup)
    (hq : ∀ a ∈ q, a.params ≠ []) :
    normQuantFor (normQuantFor q K) K = normQuantFor q K := by
  rw [normQuantFor_eq q K, normQuantFor_eq]
  apply filterMap_congr'
  intro n hn
  have hlk := findLast?_filterMap_key (·.tensorName) (annotEntry q) (fun n b h => annotEntry_name h) K hK n
  simp only [hn, if_true] at hlk
  have hL : annotEntry (K.filterMap (annotEntry q)) n = match annotEntry q n with
      | some a => if a.params.isEmpty then none else some (normAnnot a)
      | none => none := by
    simp only [annotEntry, findAnnot] at hlk ⊢
    rw [hlk]
  rw [hL]
  cases hne : annotEntry q n with
  | none => rfl
  | some e =>
    unfold annotEntry at hne
    cases hf : findAnnot q n with
    | none => rw [hf] at hne; cases hne
    | some a =>
      rw [hf] at hne
      simp only at hne
      split at hne
      · cases hne
      · cases hne
        have hne' : a.params ≠ [] := hq a (findAnnot_name hf).1
        have : (normAnnot a).params.isEmpty = false := by
          simp only [normAnnot, List.isEmpty_eq_false_iff]
          intro h; exact hne' (normEntries_eq_nil.1 h)
        have h2 : ¬ normEntries a.params = [] := fun h => hne' (normEntries_eq_nil.1 h)
        simp [normAnnot, normEntries_idem, h2]

end

/-! ### graphs, nodes, attributes -/

theorem trim_filter (l : List String) :
    (trimTrailingEmpty l).filter (· ≠ "") = l.filter (· ≠ "") := by
  induction l with
  | nil => rfl
  | cons x xs ih =>
    simp only [trimTrailingEmpty]
    cases hr : trimTrailingEmpty xs with
    | nil =>
      rw [hr] at ih
      simp only [List.filter_nil] at ih
      by_cases hx : x = ""
      · simp only [hx, if_true, List.filter_nil, List.filter_cons, ne_eq, not_true_eq_false,
          decide_false, Bool.false_eq_true, if_false]
        exact ih
      · simp only [hx, if_false, List.filter_cons, ne_eq, not_false_eq_true, decide_true, if_true,
          List.filter_nil, ← ih]
    | cons y ys =>
      rw [hr] at ih
      simp only [List.filter_cons, ← ih]

theorem normNode_outputs (n : NodeP) : (normNode n).outputs = trimTrailingEmpty n.outputs := by
  cases n; rfl

theorem nodeOutNames_normNodes (nodes : List NodeP) :
    nodeOutNames (normNodes nodes) = nodeOutNames nodes := by
  induction nodes with
  | nil => rfl
  | cons n ns ih =>
    simp only [normNodes, nodeOutNames_cons, ih, normNode_outputs, trim_filter]

theorem quantKeys_nodup {inits : List TensorP} {inputs outputs vis : List ValueInfoP}
    {quant : List AnnotP} {outs : List String} (hw : GraphWF inits inputs outputs vis quant outs) :
    ((inputs.map (·.name)).filter (fun n => !(inits.map (·.name)).contains n) ++ inits.map (·.name)
      ++ outs.filter (fun n => !(outputs.map (·.name)).contains n)
      ++ (outputs.map (·.name)).filter
          (fun n => !(inputs.map (·.name)).contains n && !(inits.map (·.name)).contains n)).Nodup := by
  obtain ⟨hin, houts, hdis⟩ := nodupNames_parts hw
  rw [List.nodup_append]
  refine ⟨?_, List.Nodup.sublist List.filter_sublist hw.nodupOut, ?_⟩
  · rw [List.nodup_append]
    refine ⟨?_, List.Nodup.sublist List.filter_sublist houts, ?_⟩
    · rw [List.nodup_append]
      refine ⟨List.Nodup.sublist List.filter_sublist hin, hw.nodupInit, ?_⟩
      intro a ha b hb e
      subst e
      simp only [List.mem_filter, Bool.not_eq_true', List.contains_eq_mem, decide_eq_false_iff_not] at ha
      exact ha.2 hb
    · intro a ha b hb e
      subst e
      have hb' := hdis a (List.mem_filter.1 hb).1
      rcases List.mem_append.1 ha with ha | ha
      · exact hb'.1 (List.mem_filter.1 ha).1
      · exact hb'.2 ha
  · intro a ha b hb e
    subst e
    simp only [List.mem_filter, Bool.and_eq_true, Bool.not_eq_true', List.contains_eq_mem,
      decide_eq_false_iff_not] at hb
    rcases List.mem_append.1 ha with ha | ha
    · rcases List.mem_append.1 ha with ha | ha
      · exact hb.2.1 (List.mem_filter.1 ha).1
      · exact hb.2.2 ha
    · simp only [List.mem_filter, Bool.not_eq_true', List.contains_eq_mem,
        decide_eq_false_iff_not] at ha
      exact ha.2 hb.1

theorem normGraph_idem_core (outer : Scopes) (name doc : String) (nodes : List NodeP)
    (inits : List TensorP) (inputs outputs vis : List ValueInfoP) (quant : List AnnotP)
    (metadata : List Entry)
    (hwf : wfGraph outer (.mk name doc nodes inits inputs outputs vis quant metadata) = true)
    (hnodes : normNodes (normNodes nodes) = normNodes nodes) :
    normGraph (normGraph (.mk name doc nodes inits inputs outputs vis quant metadata))
      = normGraph (.mk name doc nodes inits inputs outputs vis quant metadata) := by
  obtain ⟨hw, _⟩ := graphWF_of_wf outer name doc nodes inits inputs outputs vis quant metadata hwf
  have e1 : (inputs.map normValueInfo).map (·.name) = inputs.map (·.name) := by
    simp [List.map_map, Function.comp_def, normValueInfo]
  have e2 : (outputs.map normValueInfo).map (·.name) = outputs.map (·.name) := by
    simp [List.map_map, Function.comp_def, normValueInfo]
  have e3 : (inits.map normTensor).map (·.name) = inits.map (·.name) := by
    simp [List.map_map, Function.comp_def, normTensor]
  have e4 : (inits.map normTensor).map normTensor = inits.map normTensor := by
    simp [List.map_map, Function.comp_def, normTensor_idem]
  have e5 : (inputs.map normValueInfo).map normValueInfo = inputs.map normValueInfo := by
    simp [List.map_map, Function.comp_def, normValueInfo_idem]
  have e6 : (outputs.map normValueInfo).map normValueInfo = outputs.map normValueInfo := by
    simp [List.map_map, Function.comp_def, normValueInfo_idem]
  simp only [normGraph, e1, e2, e3, e4, e5, e6, hnodes, nodeOutNames_normNodes, normEntries_idem,
    canon_vis_idem hw,
    canon_quant_idem quant _ (quantKeys_nodup hw) (fun a ha => (hw.quantOK a ha).2.1)]

mutual
theorem normAttr_idem (scopes : Scopes) : ∀ a : AttrP, wfAttr scopes a = true →
    normAttr (normAttr a) = normAttr a
  | .tensor n d t, _ => by simp [normAttr, normTensor_idem]
  | .tensors n d ts, _ => by simp [normAttr, List.map_map, Function.comp_def, normTensor_idem]
  | .graph n d g, h => by
    simp only [wfAttr] at h
    simp [normAttr, normGraph_idem scopes g h]
  | .graphs n d gs, h => by
    simp only [wfAttr] at h
    simp [normAttr, normGraphs_idem scopes gs h]
  | .ref .., _ | .int .., _ | .float .., _ | .string .., _ | .ints .., _ | .floats .., _
  | .strings .., _ | .typeProto .., _ | .typeProtos .., _ | .undefined .., _ | .sparse .., _
  | .unknown .., _ => rfl

theorem normGraphs_idem (scopes : Scopes) : ∀ gs : List GraphP, wfGraphs scopes gs = true →
    normGraphs (normGraphs gs) = normGraphs gs
  | [], _ => rfl
  | g :: gs, h => by
    simp only [wfGraphs, Bool.and_eq_true] at h
    simp [normGraphs, normGraph_idem scopes g h.1, normGraphs_idem scopes gs h.2]

theorem normAttrs_idem (scopes : Scopes) : ∀ as : List AttrP, wfAttrs scopes as = true →
    normAttrs (normAttrs as) = normAttrs as
  | [], _ => rfl
  | a :: as, h => by
    simp only [wfAttrs, Bool.and_eq_true] at h
    simp [normAttrs, normAttr_idem scopes a h.1, normAttrs_idem scopes as h.2]

theorem normNode_idem (scopes : Scopes) : ∀ n : NodeP, wfNode scopes n = true →
    normNode (normNode n) = normNode n
  | .mk inputs outputs name opType domain overload doc attrs metadata devcfgs, h => by
    simp only [wfNode, Bool.and_eq_true] at h
    simp [normNode, trimTrailingEmpty_idem, normDomain_idem, normEntries_idem,
      normAttrs_idem scopes attrs h.1.1.2]

theorem normNodes_idem (scopes : Scopes) : ∀ ns : List NodeP, wfNodes scopes ns = true →
    normNodes (normNodes ns) = normNodes ns
  | [], _ => rfl
  | n :: ns, h => by
    simp only [wfNodes, Bool.and_eq_true] at h
    simp [normNodes, normNode_idem scopes n h.1, normNodes_idem scopes ns h.2]

theorem normGraph_idem (outer : Scopes) : ∀ g : GraphP, wfGraph outer g = true →
    normGraph (normGraph g) = normGraph g
  | .mk name doc nodes inits inputs outputs vis quant metadata, h => by
    apply normGraph_idem_core outer name doc nodes inits inputs outputs vis quant metadata h
    obtain ⟨_, hwn⟩ := graphWF_of_wf outer name doc nodes inits inputs outputs vis quant metadata h
    exact normNodes_idem _ nodes hwn
end

/-! ### functions and models -/

theorem normFnVIs_filterMap (vis : List ValueInfoP) (K : List String) :
    normFnVIs vis K = K.filterMap (nodeEntry vis) := by
  induction K with
  | nil => rfl
  | cons n ks ih =>
    simp only [normFnVIs, ih, List.filterMap_cons, nodeEntry]
    cases findVI vis n with
    | none => rfl
    | some vi => by_cases hi : viHasInfo vi = true <;> simp [hi]

theorem normFnVIs_idem (vis : List ValueInfoP) (K : List String) (hK : K.Nodup) :
    normFnVIs (normFnVIs vis K) K = normFnVIs vis K := by
  rw [normFnVIs_filterMap vis K, normFnVIs_filterMap]
  apply filterMap_congr'
  intro n hn
  have hlk := findLast?_filterMap_key (fun v : ValueInfoP => v.name) (nodeEntry vis)
    (fun n b h => nodeEntry_name h) K hK n
  simp only [hn, if_true] at hlk
  have : nodeEntry (K.filterMap (nodeEntry vis)) n = match nodeEntry vis n with
      | some vi => if viHasInfo vi then some (normValueInfo vi) else none
      | none => none := by
    simp only [nodeEntry, findVI] at hlk ⊢
    rw [hlk]
  rw [this]
  cases hne : nodeEntry vis n with
  | none => rfl
  | some e =>
    obtain ⟨h1, h2⟩ := nodeEntry_fixed hne
    simp [h1, h2]

theorem normFunction_idem (ver : Int) (f : FunctionP) (h : wfFunction ver f = true) (c : Bool) :
    normFunction c (normFunction c f) = normFunction c f := by
  simp only [wfFunction, Bool.and_eq_true] at h
  obtain ⟨⟨⟨⟨⟨⟨⟨⟨⟨⟨⟨⟨h1, _h2⟩, _h3⟩, _h4⟩, h5⟩, _h6⟩, _h7⟩, _h8⟩, _h9⟩, _h10⟩, _h11⟩, h12⟩, _h13⟩ := h
  simp only [normFunction, normEntries_idem, normNodes_idem _ f.nodes h12, normAttrs_idem [] f.attrProtos h5,
    nodeOutNames_normNodes]
  cases c with
  | false => rfl
  | true => simp [normFnVIs_idem f.valueInfo _ (nodupStr_iff.1 h1)]

theorem normModel_idem (m : ModelP) (h : wfModel m = true) : normModel (normModel m) = normModel m := by
  have h0 := h
  simp only [wfModel, Bool.and_eq_true] at h
  obtain ⟨⟨⟨⟨⟨⟨hg, hf⟩, _hmeta⟩, _hops⟩, _hkeys⟩, _hdev⟩, _hexp⟩ := h
  have hexpN : m.irVersion < 10 → m.functions.flatMap experimentalVIs = [] := by
    intro hlt
    rw [List.flatMap_eq_nil_iff]
    intro f hfm
    apply experimentalVIs_nil
    have := List.all_eq_true.1 hf f hfm
    simp only [wfFunction, Bool.and_eq_true, Bool.or_eq_true, decide_eq_true_eq,
      List.isEmpty_iff] at this
    rcases this.2 with h10 | h10
    · omega
    · exact h10
  have hfun : (m.functions.map (normFunction (decide (m.irVersion ≥ 10)))).map
      (normFunction (decide (m.irVersion ≥ 10)))
      = m.functions.map (normFunction (decide (m.irVersion ≥ 10))) := by
    rw [List.map_map]
    apply List.map_congr_left
    intro f hfm
    exact normFunction_idem m.irVersion f (List.all_eq_true.1 hf f hfm) _
  by_cases hc : m.irVersion ≥ 10
  · simp only [hc] at hfun
    simp only [normModel, hc, if_true, normEntries_idem, normGraph_idem [] m.graph hg, hfun]
  · have hlt : m.irVersion < 10 := by omega
    have hexpN' : (m.functions.map (normFunction (decide (m.irVersion ≥ 10)))).flatMap experimentalVIs = [] := by
      rw [List.flatMap_eq_nil_iff]
      intro f' hf'
      obtain ⟨f, _, rfl⟩ := List.mem_map.1 hf'
      apply experimentalVIs_nil
      simp [normFunction, hc]
    simp only [hc] at hfun hexpN'
    simp only [normModel, hc, if_false, hexpN hlt, addValueInfo_nil, normEntries_idem,
      normGraph_idem [] m.graph hg, hfun, hexpN']

end IrVerif.Serde

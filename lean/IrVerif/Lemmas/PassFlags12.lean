/-
C14 (second deepening): CSE - a stalled rewrite is an elimination, so the weighted node count never grows.
-/
import IrVerif.Lemmas.PassFlags9
namespace IrVerif.PassFlags
open IrVerif.Sem IrVerif.Passes

theorem cseStall_le_cnt (limit : Nat) (gins : List VId) : ∀ (ns tbl : List Node) (σ : Subst) (outs : List VId),
    cseStall limit gins tbl σ outs ns ≤ cseCnt limit gins tbl σ outs ns
  | [], _, _, _ => Nat.le_refl _
  | .mk op attrs ins nouts bodies :: ns, tbl, σ, outs => by
    by_cases hs : cseSkip limit op attrs bodies = true
    · have ih := cseStall_le_cnt limit gins ns tbl σ outs
      simp only [cseCnt, cseStall, hs, if_true]
      exact ih
    · cases hf : tbl.find? (fun n1 => cseKeyMatch n1 (.mk op attrs (substIns σ ins) nouts (substBodies σ bodies))) with
      | none =>
        have ih := cseStall_le_cnt limit gins ns
          (tbl ++ [.mk op attrs (substIns σ ins) nouts (substBodies σ bodies)]) σ outs
        simp only [cseCnt, cseStall, hs, Bool.false_eq_true, if_false, hf]
        exact ih
      | some n1 =>
        have ih := cseStall_le_cnt limit gins ns tbl (nouts.zip n1.outs ++ σ)
          (cseFixOuts gins (nouts.zip n1.outs) [] [] outs).1
        simp only [cseCnt, cseStall, hs, Bool.false_eq_true, if_false, hf]
        split <;> omega

end IrVerif.PassFlags

/-
C10 helper lemmas for the prefix walk of check 3 (D454, `noLinkPrefix` / `noLinkOn`): on an absolute,
normalised string `"/" * k ++ "c1/c2/.../cn"` the walk visits exactly the prefixes `c1..cj`; when it
succeeds with an `os.lstat` that is a restriction of the kernel's (it may fail where the kernel would
not: ENAMETOOLONG, EACCES), no prefix is a symbolic link, every proper prefix is a real directory and
the kernel resolves the string to the location it spells.  Conversely the walk succeeds on the
rendering of a chain of real directories (used by the non-vacuity examples).
-/
import IrVerif.Lemmas.PathReal
namespace IrVerif.Path

/-- `k` separators followed by the names joined with the separator: what `normpath` returns for an
absolute path (k = 1 or 2) -/
def absStr (k : Nat) (l : Loc) : Str := List.replicate k '/' ++ joinSep l

theorem absStr_one (l : Loc) : absStr 1 l = render l := by simp [absStr, render]

theorem splitSep_sep_cons (cs : Str) : splitSep ('/' :: cs) = [] :: splitSep cs := by
  rw [splitSep]
  cases h : splitSep cs with
  | nil => exact absurd h (splitSep_ne_nil cs)
  | cons a t => simp

theorem splitSep_replicate (k : Nat) (t : Str) :
    splitSep (List.replicate k '/' ++ t) = List.replicate k [] ++ splitSep t := by
  induction k with
  | zero => simp
  | succ k ih => rw [List.replicate_succ, List.cons_append, splitSep_sep_cons, ih]; simp [List.replicate_succ]

theorem walk_skips (fs : FS) (f : Nat) (k : Nat) (rest : List Str) (fl : Bool) :
    walk fs f [] (List.replicate k [] ++ rest) fl = walk fs f [] rest fl := by
  induction k with
  | zero => simp
  | succ k ih =>
    rw [List.replicate_succ, List.cons_append, walk_step_skip fs f [] [] _ fl fs.get_root (Or.inl rfl), ih]

/-- the kernel does not care how many separators an absolute path starts with -/
theorem kresolve_absStr (fs : FS) (f : Nat) (cwd : Loc) (k : Nat) (hk : 1 ≤ k) (l : Loc) (fl : Bool) :
    kresolve fs f cwd (absStr k l) fl = kresolve fs f cwd (render l) fl := by
  have key : ∀ j, 1 ≤ j → kresolve fs f cwd (absStr j l) fl = walk fs f [] (splitSep (joinSep l)) fl := by
    intro j hj
    obtain ⟨j', rfl⟩ : ∃ j', j = j' + 1 := ⟨j - 1, by omega⟩
    unfold kresolve absStr
    have hne : List.replicate (j' + 1) '/' ++ joinSep l ≠ [] := by simp [List.replicate_succ]
    have hab : isabs (List.replicate (j' + 1) '/' ++ joinSep l) = true := by simp [List.replicate_succ, isabs]
    simp only [hne, if_false, startLoc, hab, if_true]
    rw [splitSep_replicate, walk_skips]
  rw [key k hk, ← absStr_one, key 1 (Nat.le_refl 1)]

theorem lstat_absStr (fs : FS) (f : Nat) (cwd : Loc) (k : Nat) (hk : 1 ≤ k) (l : Loc) :
    lstat fs f cwd (absStr k l) = lstat fs f cwd (render l) := by
  unfold lstat; rw [kresolve_absStr fs f cwd k hk l false]

/-- `os.lstat` of the rendering of `l ++ [x]` below a real directory `l` is the entry itself -/
theorem lstat_render_snoc (fs : FS) (f : Nat) (cwd : Loc) (l : Loc) (x : Str) (hl : RealDir fs l) (hx : Clean x) :
    lstat fs f cwd (render (l ++ [x])) = fs.get (l ++ [x]) := by
  have hcl : ∀ c ∈ l ++ [x], Clean c := by
    intro c hc
    rcases List.mem_append.mp hc with h | h
    · exact hl.1.1 c h
    · simp at h; subst h; exact hx
  have hw : kresolve fs f cwd (render (l ++ [x])) false =
      (match fs.get (l ++ [x]) with
       | none => none
       | some _ => some (l ++ [x])) := by
    unfold kresolve
    simp only [render_ne_nil, if_false, startLoc, isabs_render, if_true]
    rw [splitSep_render _ hcl (by simp), walk_step_skip fs f [] [] _ false fs.get_root (Or.inl rfl)]
    have := walk_real_prefix fs f l [] [x] false (by simpa using hl)
    simp only [List.nil_append] at this
    rw [this, walk_last_nofollow fs f l x hl.2 hx]
    cases fs.get (l ++ [x]) <;> rfl
  unfold lstat
  rw [hw]
  cases h : fs.get (l ++ [x]) <;> simp [h]

/-- below something that is not a directory `os.lstat` finds nothing (ENOTDIR) -/
theorem lstat_render_snoc_notdir (fs : FS) (f : Nat) (cwd : Loc) (l : Loc) (x : Str) (hl : Chain fs l)
    (hx : Clean x) (nd : Node) (hg : fs.get l = some nd) (hnl : ∀ t, nd ≠ Node.link t) (hnd : nd ≠ Node.dir) :
    lstat fs f cwd (render (l ++ [x])) = none := by
  have hcl : ∀ c ∈ l ++ [x], Clean c := by
    intro c hc
    rcases List.mem_append.mp hc with h | h
    · exact hl.1 c h
    · simp at h; subst h; exact hx
  have hgd : fs.get l ≠ some Node.dir := by
    rw [hg]; intro e; exact hnd (Option.some.inj e)
  have hw : kresolve fs f cwd (render (l ++ [x])) false = none := by
    unfold kresolve
    simp only [render_ne_nil, if_false, startLoc, isabs_render, if_true]
    rw [splitSep_render _ hcl (by simp), walk_step_skip fs f [] [] _ false fs.get_root (Or.inl rfl)]
    have hrd : RealDir fs l.dropLast := hl.realDir_dropLast
    rcases eq_nil_or_snoc l with rfl | ⟨l', y, rfl⟩
    · exact absurd fs.get_root hgd
    · simp only [List.dropLast_concat] at hrd
      have := walk_real_prefix fs f l' [] [y, x] false (by simpa using hrd)
      simp only [List.nil_append] at this
      have e : l' ++ [y] ++ [x] = l' ++ [y, x] := by simp
      rw [e, this]
      have hy : Clean y := hl.1 y (by simp)
      rw [walk_step_plain fs f l' y [x] false hrd.2 (not_special_of_clean hy).1 (not_special_of_clean hy).2
        nd hg hnl]
      exact walk_not_dir fs f (l' ++ [y]) x [] false hgd
  unfold lstat
  rw [hw]

/-! ### `dirname` on absolute normal forms -/

theorem replicate_sep_all (k : Nat) : (List.replicate k '/').all (· = '/') = true := by
  simp

theorem headPart_replicate (k : Nat) : headPart (List.replicate k '/') = List.replicate k '/' := by
  unfold headPart
  have : (List.replicate k '/').reverse = List.replicate k '/' := by simp
  rw [this]
  have h2 : (List.replicate k '/').dropWhile (· ≠ '/') = List.replicate k '/' := by
    cases k with
    | zero => simp
    | succ k => simp [List.replicate_succ, List.dropWhile]
  rw [h2, this]

theorem dirname_replicate (k : Nat) : dirname (List.replicate k '/') = List.replicate k '/' := by
  unfold dirname
  rw [headPart_replicate]
  simp

theorem dirname_absStr_nil (k : Nat) : dirname (absStr k []) = absStr k [] := by
  simp [absStr, joinSep, dirname_replicate]

theorem dirname_absStr_snoc (k : Nat) (hk : 1 ≤ k) (l : Loc) (x : Str) (hl : ∀ c ∈ l, Clean c) (hx : Clean x) :
    dirname (absStr k (l ++ [x])) = absStr k l := by
  obtain ⟨j, rfl⟩ : ∃ j, k = j + 1 := ⟨k - 1, by omega⟩
  by_cases hne : l = []
  · subst hne
    have e : absStr (j + 1) ([] ++ [x]) = List.replicate j '/' ++ '/' :: x := by
      simp [absStr, joinSep, List.replicate_succ']
    rw [e]
    unfold dirname
    rw [headPart_append _ x hx.2.2.2]
    have e2 : List.replicate j '/' ++ ['/'] = List.replicate (j + 1) '/' := by simp [List.replicate_succ']
    rw [e2]
    simp [absStr, joinSep]
  · have e : absStr (j + 1) (l ++ [x]) = (List.replicate (j + 1) '/' ++ joinSep l) ++ '/' :: x := by
      unfold absStr
      rw [joinSep_append_singleton l x hne]
      simp
    rw [e, dirname_append _ x hx.2.2.2 (by simp [List.replicate_succ])]
    · rfl
    · obtain ⟨l', y, rfl⟩ : ∃ l' y, l = l' ++ [y] := by
        rcases eq_nil_or_snoc l with h | h
        · exact absurd h hne
        · exact h
      have hy : Clean y := hl y (by simp)
      by_cases hl' : l' = []
      · subst hl'
        simp only [List.nil_append, joinSep]
        exact endsWithSep_append_piece _ y hy.piece
      · rw [joinSep_append_singleton l' y hl']
        have : List.replicate (j + 1) '/' ++ (joinSep l' ++ '/' :: y) =
            (List.replicate (j + 1) '/' ++ joinSep l' ++ ['/']) ++ y := by simp
        rw [this]
        exact endsWithSep_append_piece _ y hy.piece

theorem absStr_snoc_ne (k : Nat) (l : Loc) (x : Str) (hx : Clean x) (hl : ∀ c ∈ l, Clean c) :
    absStr k l ≠ absStr k (l ++ [x]) := by
  intro e
  have h := congrArg comps e
  unfold absStr at h
  rw [comps_replicate_sep, comps_replicate_sep, comps_joinSep l hl, comps_joinSep (l ++ [x]) (by
    intro c hc
    rcases List.mem_append.mp hc with h | h
    · exact hl c h
    · simp at h; subst h; exact hx)] at h
  have := congrArg List.length h
  simp at this

/-! ### the prefix walk -/

/-- a restriction of the kernel's `os.lstat`: it may fail where the kernel would not (ENAMETOOLONG,
EACCES), but what it returns is what the kernel returns -/
def LstatRestr (fs : FS) (f : Nat) (cwd : Loc) (lst : Str → Option Node) : Prop :=
  ∀ p nd, lst p = some nd → lstat fs f cwd p = some nd

theorem lstatRestr_self (fs : FS) (f : Nat) (cwd : Loc) : LstatRestr fs f cwd (lstat fs f cwd) :=
  fun _ _ h => h

theorem lstatRestr_P (fs : FS) (f : Nat) (cwd : Loc) : LstatRestr fs f cwd (lstatP fs f cwd) := by
  intro p nd h
  unfold lstatP at h
  split at h
  · exact absurd h (by simp)
  · exact h

/-- what a successful prefix walk shows about the location an absolute normal form spells -/
def RealLoc (fs : FS) (l : Loc) : Prop :=
  Chain fs l ∧ ∃ nd, fs.get l = some nd ∧ ∀ t, nd ≠ Node.link t

/-- **soundness of the prefix walk**: with any restriction of the kernel's `os.lstat`, a successful
walk over `"/" * k ++ "c1/.../cn"` shows that c1, c1/c2, ... are real directories and c1/.../cn is not a
symbolic link -/
theorem noLinkPrefix_sound (fs : FS) (f : Nat) (cwd : Loc) (lst : Str → Option Node)
    (hr : LstatRestr fs f cwd lst) (k : Nat) (hk : 1 ≤ k) :
    ∀ (m : Nat) (l : Loc), l.length = m → (∀ c ∈ l, Clean c) → ∀ n,
      noLinkPrefix lst n (absStr k l) = true → RealLoc fs l := by
  intro m
  induction m with
  | zero =>
    intro l hlen _ n _
    have : l = [] := List.length_eq_zero_iff.mp hlen
    subst this
    exact ⟨(RealDir.root fs).1, Node.dir, fs.get_root, by intro t; simp⟩
  | succ m ih =>
    intro l hlen hcl n h
    obtain ⟨l', x, rfl⟩ : ∃ l' x, l = l' ++ [x] := by
      rcases eq_nil_or_snoc l with e | e
      · subst e; simp at hlen
      · exact e
    have hl' : ∀ c ∈ l', Clean c := fun c hc => hcl c (by simp [hc])
    have hx : Clean x := hcl x (by simp)
    have hlen' : l'.length = m := by simp at hlen; omega
    cases n with
    | zero => simp [noLinkPrefix] at h
    | succ n =>
      rw [noLinkPrefix] at h
      cases hls : lst (absStr k (l' ++ [x])) with
      | none => simp [hls] at h
      | some nd =>
        have hnl : ∀ t, nd ≠ Node.link t := by
          intro t e; subst e; simp [hls] at h
        have hrest : noLinkPrefix lst n (absStr k l') = true := by
          have hd := dirname_absStr_snoc k hk l' x hl' hx
          have hne : dirname (absStr k (l' ++ [x])) ≠ absStr k (l' ++ [x]) := by
            rw [hd]; exact absStr_snoc_ne k l' x hx hl'
          cases nd with
          | link t => exact absurd rfl (hnl t)
          | dir => simp only [hls, hne, if_false] at h; rw [hd] at h; exact h
          | file i => simp only [hls, hne, if_false] at h; rw [hd] at h; exact h
          | other i => simp only [hls, hne, if_false] at h; rw [hd] at h; exact h
        obtain ⟨hchain, nd', hg', hnl'⟩ := ih l' hlen' hl' n hrest
        have hk1 := hr _ _ hls
        rw [lstat_absStr fs f cwd k hk] at hk1
        have hdir : nd' = Node.dir := by
          apply Classical.byContradiction
          intro hnd
          rw [lstat_render_snoc_notdir fs f cwd l' x hchain hx nd' hg' hnl' hnd] at hk1
          exact absurd hk1 (by simp)
        subst hdir
        have hrd : RealDir fs l' := ⟨hchain, hg'⟩
        rw [lstat_render_snoc fs f cwd l' x hrd hx] at hk1
        exact ⟨Chain.snoc hrd hx, nd, hk1, hnl⟩

/-- the kernel resolves an absolute normal form whose prefix walk succeeded to the location it spells -/
theorem kresolve_of_realLoc (fs : FS) (f : Nat) (cwd : Loc) (k : Nat) (hk : 1 ≤ k) (l : Loc)
    (h : RealLoc fs l) : kresolve fs f cwd (absStr k l) true = some l := by
  obtain ⟨hc, nd, hg, hnl⟩ := h
  rw [kresolve_absStr fs f cwd k hk]
  exact kresolve_render fs f cwd l hc nd hg hnl

/-- **completeness of the prefix walk**: with an `os.lstat` that agrees with the kernel's on the prefixes
of the rendering of a location reached through real directories that is not a symbolic link, the walk
passes -/
theorem noLinkPrefix_complete' (fs : FS) (f : Nat) (cwd : Loc) (lst : Str → Option Node) :
    ∀ (m : Nat) (l : Loc), l.length = m → RealLoc fs l →
      (∀ j, j ≤ l.length → lst (render (l.take j)) = lstat fs f cwd (render (l.take j))) → ∀ n, m < n →
      noLinkPrefix lst n (render l) = true := by
  intro m
  induction m with
  | zero =>
    intro l hlen _ hag n hn
    have : l = [] := List.length_eq_zero_iff.mp hlen
    subst this
    obtain ⟨n', rfl⟩ : ∃ n', n = n' + 1 := ⟨n - 1, by omega⟩
    rw [noLinkPrefix]
    have hl : lstat fs f cwd (render []) = some Node.dir := by
      have e : render [] = ['/'] := by simp [render, joinSep]
      have e2 : splitSep ['/'] = [[], []] := by decide
      have e3 : startLoc cwd ['/'] = [] := by simp [startLoc, isabs]
      unfold lstat kresolve
      rw [e, if_neg (by simp), e3, e2, walk_step_skip fs f [] [] _ false fs.get_root (Or.inl rfl),
        walk_step_skip fs f [] [] _ false fs.get_root (Or.inl rfl), walk_nil]
      simp [fs.get_root]
    have hd : dirname (render []) = render [] := by
      have := dirname_absStr_nil 1
      rwa [absStr_one] at this
    have h0 := hag 0 (by simp)
    simp only [List.take_zero] at h0
    simp [h0, hl, hd]
  | succ m ih =>
    intro l hlen h hag n hn
    obtain ⟨l', x, rfl⟩ : ∃ l' x, l = l' ++ [x] := by
      rcases eq_nil_or_snoc l with e | e
      · subst e; simp at hlen
      · exact e
    obtain ⟨hc, nd, hg, hnl⟩ := h
    have hrd : RealDir fs l' := by simpa using hc.realDir_dropLast
    have hx : Clean x := hc.1 x (by simp)
    have hlen' : l'.length = m := by simp at hlen; omega
    obtain ⟨n', rfl⟩ : ∃ n', n = n' + 1 := ⟨n - 1, by omega⟩
    have hfull := hag (l' ++ [x]).length (Nat.le_refl _)
    rw [List.take_length] at hfull
    rw [noLinkPrefix, hfull, lstat_render_snoc fs f cwd l' x hrd hx, hg]
    have hd : dirname (render (l' ++ [x])) = render l' := by
      have := dirname_absStr_snoc 1 (Nat.le_refl 1) l' x hrd.1.1 hx
      rwa [absStr_one, absStr_one] at this
    have hne : render l' ≠ render (l' ++ [x]) := by
      have := absStr_snoc_ne 1 l' x hx hrd.1.1
      rwa [absStr_one, absStr_one] at this
    have hrec := ih l' hlen' ⟨hrd.1, Node.dir, hrd.2, by intro t; simp⟩
      (by
        intro j hj
        have := hag j (by simp; omega)
        rwa [List.take_append_of_le_length hj] at this) n' (by omega)
    cases nd with
    | link t => exact absurd rfl (hnl t)
    | dir => simp only [hd, hne, if_false]; exact hrec
    | file i => simp only [hd, hne, if_false]; exact hrec
    | other i => simp only [hd, hne, if_false]; exact hrec

theorem noLinkPrefix_complete (fs : FS) (f : Nat) (cwd : Loc) :
    ∀ (m : Nat) (l : Loc), l.length = m → RealLoc fs l → ∀ n, m < n →
      noLinkPrefix (lstat fs f cwd) n (render l) = true :=
  fun m l hlen h n hn => noLinkPrefix_complete' fs f cwd _ m l hlen h (fun _ _ => rfl) n hn

theorem length_le_joinSep (l : Loc) (hcl : ∀ c ∈ l, Clean c) : l.length ≤ (joinSep l).length := by
  induction l with
  | nil => simp
  | cons a t ih =>
    have ha : a ≠ [] := (hcl a (by simp)).1
    have hpos : 1 ≤ a.length := by
      cases a with
      | nil => exact absurd rfl ha
      | cons _ _ => simp
    cases t with
    | nil => simp [joinSep]; omega
    | cons b t' =>
      have := ih (fun c hc => hcl c (by simp [hc]))
      simp only [joinSep, List.length_append, List.length_cons] at this ⊢
      omega

theorem noLinkOn_complete' (fs : FS) (f : Nat) (cwd : Loc) (lst : Str → Option Node) (l : Loc) (h : RealLoc fs l)
    (hag : ∀ j, j ≤ l.length → lst (render (l.take j)) = lstat fs f cwd (render (l.take j))) :
    noLinkOn lst (render l) = true := by
  unfold noLinkOn
  refine noLinkPrefix_complete' fs f cwd lst l.length l rfl h hag _ ?_
  have := length_le_joinSep l h.1.1
  simp [render]; omega

theorem noLinkOn_complete (fs : FS) (f : Nat) (cwd : Loc) (l : Loc) (h : RealLoc fs l) :
    noLinkOn (lstat fs f cwd) (render l) = true :=
  noLinkOn_complete' fs f cwd _ l h (fun _ _ => rfl)

/-- the answers of `os.path.realpath` are absolute normal forms (given an absolute `os.getcwd()`) -/
theorem abspath_absStr (cwdS p : Str) (hcwd : isabs cwdS = true) :
    ∃ k, 1 ≤ k ∧ abspath cwdS p = absStr k (comps (abspath cwdS p)) ∧
      ∀ c ∈ comps (abspath cwdS p), Clean c := by
  have ha := isabs_abspath_arg cwdS p hcwd
  refine ⟨(splitroot (if isabs p then p else pjoin cwdS p)).1, ?_, ?_, ?_⟩
  · have := splitroot_abs _ ha; omega
  · unfold abspath
    rw [comps_normpath_abs _ ha]
    exact normpath_abs _ ha
  · unfold abspath
    rw [comps_normpath_abs _ ha]
    exact normStack_clean _

end IrVerif.Path

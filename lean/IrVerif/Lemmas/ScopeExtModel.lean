/-
Extended model, MODELS WITH FUNCTIONS: the round trip of the functions (`rtE_funcs`, over `rtE_func`), the round trip
and the fix-point of a `ReloadableME` model (`reloadableME_roundtrip`, `reloadableME_fixpoint`), in the shape of
`Lemmas/ScopeModel.lean` (core) and `Lemmas/ScopeExtTop.lean` (extended, graphs).
-/
import IrVerif.Lemmas.ScopeExtFunc
import IrVerif.Lemmas.ScopeExtFuncIdem
namespace IrVerif.Scope

/-- the round trip of the functions of an extended model -/
theorem rtE_funcs (V : Nat → ValueS) (x : Ext) (td : TData) (ver : Option Int) (hwf : ExtWF x) :
    ∀ (fs : List (FId × GraphT)) (s : Store) (xs : Ext) (A : Assoc) (d0 : List (FId × GraphT)) (fps : List FuncE)
      (ws : Writes),
      serFuncsE V x td ver fs = .ok (fps, ws) → (∀ f ∈ fs, (replF V f.2).ok) → (∀ f ∈ fs, extF V x f.2) →
      (fs.flatMap fun f => (replF V f.2).new).Nodup →
      (∀ v ∈ fs.flatMap (fun f => (replF V f.2).new), v ∉ A.map (·.1)) →
      (fs.map (·.1)).Nodup → (∀ f ∈ fs, f.1 ∉ d0.map (·.1)) → RS V s A → Fresh s → ExtFresh s xs →
      ∃ (s' : Store) (x' : Ext) (gs : List (FId × GraphT)) (B : Assoc),
        deserFuncsE s xs d0 fps = .ok (s', x', d0 ++ gs) ∧ RS V s' (A ++ B) ∧ s.nv ≤ s'.nv ∧
        B.map (·.1) = (fs.flatMap fun f => (replF V f.2).new) ∧ TreeRelFs V (A ++ B) fs gs ∧
        Fresh s' ∧ Prim s.nv s s' ∧ InfoOK2 V s' (A ++ B) (fs.flatMap fun f => emitF V f.2) ∧
        ConstOK2 V td s' (A ++ B) (fs.flatMap fun f => allInitsG f.2) ∧
        ExtFresh s' x' ∧ XKeep s.nv xs x' ∧
        MetaOKk x x' (A ++ B) (fs.flatMap fun f => emitF V f.2) ∧
        QuantOKk x x' (A ++ B) (fs.flatMap fun f => emitQF V f.2) ∧
        s.nn ≤ s'.nn ∧ (∀ k, k < s.nn → x'.devs k = xs.devs k) ∧ DevTrFs V x' s'.nn (A ++ B) fs fps gs
  | [], s, xs, A, d0, fps, ws, hser, _, _, _, _, _, _, hrs, hfr, hxf => by
    simp only [serFuncsE, Except.ok.injEq, Prod.mk.injEq] at hser
    obtain ⟨rfl, _⟩ := hser
    exact ⟨s, xs, [], [], by simp [deserFuncsE], by simpa using hrs, Nat.le_refl _, by simp, by simp [TreeRelFs], hfr,
      Prim.refl _ _, by simp [InfoOK2], by simp [ConstOK2], hxf, XKeep.refl _ _, by simp [MetaOKk], by simp [QuantOKk],
      Nat.le_refl _, fun _ _ => rfl, by simp only [DevTrFs]⟩
  | f :: fs, s, xs, A, d0, fps, ws, hser, hok, hxok, hnd, hnew, hids, hd0, hrs, hfr, hxf => by
    obtain ⟨fp, ws1, fps', ws2, h1, h2, rfl, rfl⟩ := serFuncsE_inv hser
    obtain ⟨id, g⟩ := f
    simp only [List.flatMap_cons] at hnd hnew ⊢
    rw [List.nodup_append] at hnd
    simp only [List.map_cons, List.nodup_cons] at hids
    obtain ⟨s1, x1, g', B1, e1, eid, r1, l1, k1, t1, f1, p1, io1, co1, xf1, xk1, _, mo1, qo1, nn1, fr1, dt1⟩ :=
      rtE_func V x td ver hwf id g s xs A fp ws1 h1 (hok (id, g) (by simp)) hnd.1 (hxok (id, g) (by simp))
        (fun v hv => hnew v (by simp [hv])) hrs hfr hxf
    have hidd : id ∉ d0.map (·.1) := hd0 (id, g) (by simp)
    obtain ⟨s2, x2, gs, B2, e2, r2, l2, k2, t2, f2, p2, io2, co2, xf2, xk2, mo2, qo2, nn2, fr2, dt2⟩ :=
      rtE_funcs V x td ver hwf fs s1 x1 (A ++ B1) (d0 ++ [(id, g')]) fps' ws2 h2
        (fun f hf => hok f (by simp [hf])) (fun f hf => hxok f (by simp [hf])) hnd.2.1
        (fun v hv hm => by
          rw [List.map_append, List.mem_append, k1] at hm
          rcases hm with hm | hm
          · exact hnew v (by simp [hv]) hm
          · exact hnd.2.2 v hm v hv rfl)
        hids.2
        (fun f hf hm => by
          simp only [List.map_append, List.map_cons, List.map_nil, List.mem_append, List.mem_singleton] at hm
          rcases hm with hm | hm
          · exact hd0 f (by simp [hf]) hm
          · exact hids.1 (hm ▸ List.mem_map_of_mem hf))
        r1 f1 xf1
    refine ⟨s2, x2, (id, g') :: gs, B1 ++ B2, ?_, by simpa [List.append_assoc] using r2, Nat.le_trans l1 l2, ?_, ?_, f2,
      p1.trans (p2.weaken l1), ?_, ?_, xf2, xk1.trans (xk2.weaken l1), ?_, ?_, Nat.le_trans nn1 nn2,
      fun k hk => by rw [fr2 k (Nat.lt_of_lt_of_le hk nn1), fr1 k hk], ?_⟩
    · simp only [deserFuncsE, e1, eid]
      rw [fdictInsert_fresh d0 id g' hidd, e2]
      simp [List.append_assoc]
    · simp [k1, k2]
    · simp only [TreeRelFs]
      rw [← List.append_assoc]
      exact ⟨trivial, TreeRelG.mono V (A ++ B1) B2 g g' t1, t2⟩
    · rw [← List.append_assoc]
      have io1' := io1.step (B := B2) r1 p2
      intro v hv
      simp only [List.mem_append] at hv
      rcases hv with hv | hv
      · exact io1' v hv
      · exact io2 v hv
    · rw [← List.append_assoc]
      have co1' := co1.step (B := B2) r1 p2
      intro kv hkv
      simp only [List.mem_append] at hkv
      rcases hkv with hkv | hkv
      · exact co1' kv hkv
      · exact co2 kv hkv
    · rw [← List.append_assoc]
      have mo1' := mo1.step (B := B2) r1 xk2
      intro v hv
      simp only [List.mem_append] at hv
      rcases hv with hv | hv
      · exact mo1' v hv
      · exact mo2 v hv
    · rw [← List.append_assoc]
      have qo1' := qo1.step (B := B2) r1 xk2
      intro v hv
      simp only [List.mem_append] at hv
      rcases hv with hv | hv
      · exact qo1' v hv
      · exact qo2 v hv
    · simp only [DevTrFs]
      rw [← List.append_assoc]
      exact ⟨DevTrF.mono B2 nn2 fr2 g fp g' dt1, dt2⟩

theorem serializeME_inv {ver : Option Int} {w w1 : MWorldE} {Q : ModelE} (h : serializeME ver w = .ok (w1, Q)) :
    ∃ p ws1 fps ws2, serGraphE w.st.vals w.ext w.st.tdata ver w.root = .ok (p, ws1) ∧
      serFuncsE w.st.vals w.ext w.st.tdata ver w.funcs = .ok (fps, ws2) ∧ Q = ⟨p, fps⟩ ∧
      w1 = ⟨w.st.writes (ws1 ++ ws2), w.ext, w.root, w.funcs⟩ := by
  simp only [serializeME] at h
  split at h
  · simp at h
  · rename_i p ws1 hp
    split at h
    · simp at h
    · rename_i fps ws2 hf
      simp only [Except.ok.injEq, Prod.mk.injEq] at h
      obtain ⟨rfl, rfl⟩ := h
      exact ⟨p, ws1, fps, ws2, hp, hf, rfl, rfl⟩

/-- **the round trip of a reloadable extended model with functions** whose serialization does not raise: the
    reloaded model is the source renamed by `sig B` (main graph and functions, same identifiers, same order), keeps
    names, emitted information and initializer payloads (the data of `IsoM`), and carries, on the images of the
    emitted values (`emitM`: main graph `emitG`, functions `emitF`), the source metadata written and read once
    (`normM`) and, on the values whose annotation the serializer looks at (`emitQM`), the source annotation written
    and read once (`normQ`). -/
theorem reloadableME_roundtrip (ver : Option Int) (w : MWorldE) (h : ReloadableME w) (w1 : MWorldE) (Q : ModelE)
    (hser : serializeME ver w = .ok (w1, Q)) :
    ∃ (D : MWorldE) (B : Assoc),
      deserializeME Q = .ok D ∧ RS w.st.vals D.st B ∧ B.map (·.1) = domM w.core ∧
      TreeRelG w.st.vals B w.root D.root ∧ TreeRelFs w.st.vals B w.funcs D.funcs ∧
      InfoOK2 w.st.vals D.st B (emitM w.core) ∧ ConstOK2 w.st.vals w.st.tdata D.st B (allInitsM w.core) ∧
      MetaOKk w.ext D.ext B (emitM w.core) ∧ QuantOKk w.ext D.ext B (emitQM w) := by
  obtain ⟨p, ws1, fps, ws2, hp, hf, rfl, _⟩ := serializeME_inv hser
  simp only [ReloadableME, ReloadableM, MWorldE.core] at h
  obtain ⟨⟨hok, hfok, hnd, hids⟩, hext, hextF, hwf⟩ := h
  rw [List.nodup_append] at hnd
  obtain ⟨s1, x1, g', B1, hd, hrs, _, hk, ht, f1, p1, hio, hco, xf1, xk1, _, hm, htail⟩ :=
    rtE_graph w.st.vals w.ext w.st.tdata ver hwf w.root {} {} [] [] p ws1 hp hok hnd.1 hext
      (fun _ _ => by simp) (fun _ hT => by simp at hT)
      ⟨by simp, fun _ he => by simp at he, by simp, fun _ he => by simp at he⟩ (fun _ _ => rfl) extFresh_empty
  have hq : QuantOKk w.ext x1 ([] ++ B1) (emitQG w.st.vals w.root) := by
    first
      | exact htail
      | exact htail.1
  simp only [List.map_nil, List.nil_append] at hd hrs ht hio hco hm hq
  obtain ⟨s2, x2, gs, B2, e2, r2, _, k2, t2, f2, p2, io2, co2, xf2, xk2, mo2, qo2, _⟩ :=
    rtE_funcs w.st.vals w.ext w.st.tdata ver hwf w.funcs s1 x1 B1 [] fps ws2 hf hfok hextF hnd.2.1
      (fun v hv hm => by rw [hk] at hm; exact hnd.2.2 v hm v hv rfl)
      hids (fun _ _ hm => by simp at hm) hrs f1 xf1
  simp only [List.nil_append] at e2
  refine ⟨⟨s2, x2, g', gs⟩, B1 ++ B2, by simp only [deserializeME, hd, e2], r2,
    by simp [domM, MWorldE.core, hk, k2], TreeRelG.mono _ B1 B2 _ _ ht, t2, ?_, ?_, ?_, ?_⟩
  · have hio' := hio.step (B := B2) hrs p2
    intro v hv
    simp only [emitM, MWorldE.core, List.mem_append] at hv
    rcases hv with hv | hv
    · exact hio' v hv
    · exact io2 v hv
  · have hco' := hco.step (B := B2) hrs p2
    intro kv hkv
    simp only [allInitsM, MWorldE.core, List.mem_append] at hkv
    rcases hkv with hkv | hkv
    · exact hco' kv hkv
    · exact co2 kv hkv
  · have hm' := hm.step (B := B2) hrs xk2
    intro v hv
    simp only [emitM, MWorldE.core, List.mem_append] at hv
    rcases hv with hv | hv
    · exact hm' v hv
    · exact mo2 v hv
  · have hq' := hq.step (B := B2) hrs xk2
    intro v hv
    simp only [emitQM, List.mem_append] at hv
    rcases hv with hv | hv
    · exact hq' v hv
    · exact qo2 v hv

/-- the round trip in the form of `IsoM` (`Props/C03.lean`) plus the extension facts: `σ` renames the source into the
    reloaded model -/
theorem reloadableME_roundtrip_iso (ver : Option Int) (w : MWorldE) (h : ReloadableME w) (w1 : MWorldE) (Q : ModelE)
    (hser : serializeME ver w = .ok (w1, Q)) :
    ∃ (D : MWorldE) (σ : Nat → Nat),
      deserializeME Q = .ok D ∧
      TreeIsoG w.st.vals σ w.root D.root ∧ TreeIsoFs w.st.vals σ w.funcs D.funcs ∧
      (∀ a ∈ domM w.core, ∀ b ∈ domM w.core, σ a = σ b → a = b) ∧
      (∀ v ∈ domM w.core, (D.st.vals (σ v)).name = (w.st.vals v).name) ∧
      (∀ v ∈ emitM w.core, (D.st.vals (σ v)).info = (w.st.vals v).info.emit) ∧
      (∀ kv ∈ allInitsM w.core, ∀ t, (w.st.vals kv.2).const = some t →
        ∃ t', (D.st.vals (σ kv.2)).const = some t' ∧ (D.st.tens t').name = some kv.1 ∧
          D.st.tdata t' = w.st.tdata t) ∧
      (∀ v ∈ emitM w.core, D.ext.vmeta (σ v) = normM (w.ext.vmeta v)) ∧
      (∀ v ∈ emitQM w, D.ext.quant (σ v) = normQ (w.ext.quant v)) := by
  obtain ⟨D, B, hD, hrs, hk, ht, htf, hio, hco, hm, hq⟩ := reloadableME_roundtrip ver w h w1 Q hser
  have hkeys : ∀ v ∈ domM w.core, v ∈ B.map (·.1) := fun v hv => hk ▸ hv
  exact ⟨D, sig B, hD, TreeRelG.iso _ B _ _ ht, TreeRelFs.iso _ B _ _ htf,
    fun a ha b hb he => hrs.sig_inj (hkeys a ha) (hkeys b hb) he,
    fun v hv => hrs.sig_name (hkeys v hv),
    fun v hv => (hio v hv).2,
    fun kv hkv t htc => by
      obtain ⟨_, _, hc⟩ := hco kv hkv
      obtain ⟨t', h1, _, h3, h4⟩ := hc t htc
      exact ⟨t', h1, h3, h4⟩,
    fun v hv => (hm v hv).2, fun v hv => (hq v hv).2⟩

theorem extF_quiet (V : Nat → ValueS) (x : Ext) : ∀ (g : GraphT), extF V x g → QuietOutsNs V x g.nodes
  | .mk _ ins _ nodes _, h => by
    simp only [extF] at h
    exact extNs_quiet' V x nodes [] _ h.2

/-- **serializing the reloaded extended model with functions gives the proto it was read from** -/
theorem reloadableME_fixpoint (ver : Option Int) (w : MWorldE) (h : ReloadableME w) (w1 : MWorldE) (Q : ModelE)
    (hser : serializeME ver w = .ok (w1, Q)) :
    ∃ (D w2 : MWorldE), deserializeME Q = .ok D ∧ serializeME ver D = .ok (w2, Q) := by
  obtain ⟨D, B, hD, hrs, _, ht, htf, hio, hco, hm, hq⟩ := reloadableME_roundtrip ver w h w1 Q hser
  obtain ⟨p, ws1, fps, ws2, hp, hf, rfl, _⟩ := serializeME_inv hser
  obtain ⟨hM, hext, hextF, hwf⟩ := h
  have hids : (w.funcs.map (·.1)).Nodup := hM.2.2.2
  have hn : ∀ v ∈ B.map (·.1), (D.st.vals (sig B v)).name = (w.st.vals v).name := fun v hv => hrs.sig_name hv
  have hinj : ∀ a ∈ B.map (·.1), ∀ b ∈ B.map (·.1), sig B a = sig B b → a = b := fun a ha b hb he => hrs.sig_inj ha hb he
  have himg : Img w.st.vals D.st.vals (sig B) (emitM w.core) :=
    ⟨fun v hv => hn v (hio v hv).1, fun v hv => (hio v hv).2, fun a ha b hb he => hinj a (hio a ha).1 b (hio b hb).1 he⟩
  have hci : ConstImg w.st.vals D.st.vals w.st.tdata D.st.tdata (sig B) (allInitsM w.core) := fun kv hkv => by
    obtain ⟨_, hne, hc⟩ := hco kv hkv
    refine ⟨hne, fun t ht => ?_⟩
    obtain ⟨t', h1, _, _, h4⟩ := hc t ht
    exact ⟨t', h1, h4⟩
  obtain ⟨hdev1, hdev2⟩ := deserializeME_devSpec ⟨p, fps⟩ D hD
  have hkeysD : D.funcs.map (·.1) = w.funcs.map (·.1) := TreeRelFs.keys _ _ _ _ htf
  have hdevF : DevSpecFs D.st D.ext fps D.funcs :=
    devSpecFs_of_mem D.st D.ext fps D.funcs (by rw [serFuncsE_ids hf, hkeysD]) (by rw [hkeysD]; exact hids) hdev2
  obtain ⟨ws1', e1⟩ := img2E_serGraph (td := w.st.tdata) (td' := D.st.tdata) D.st ver rfl himg hn hinj
    (fun v hv => (hm v hv).2) (fun v hv => (hq v hv).2) hwf
    w.root D.root p ws1 ht (fun v hv => by simp [emitM, MWorldE.core, hv]) (fun v hv => by simp [emitQM, hv])
    (extG_quiet _ _ _ _ hext) (fun kv hkv => hci kv (by simp [allInitsM, MWorldE.core, hkv])) hdev1 hp
  obtain ⟨ws2', e2⟩ := img2E_serFuncs (td := w.st.tdata) (td' := D.st.tdata) D.st ver rfl himg hn hinj
    (fun v hv => (hm v hv).2) (fun v hv => (hq v hv).2) hwf
    w.funcs D.funcs fps ws2 htf
    (fun v hv => by simp only [emitM, MWorldE.core, List.mem_append]; exact .inr hv)
    (fun v hv => by simp only [emitQM, List.mem_append]; exact .inr hv)
    hextF
    (fun kv hkv => hci kv (by simp only [allInitsM, MWorldE.core, List.mem_append]; exact .inr hkv)) hdevF hf
  exact ⟨D, ⟨D.st.writes (ws1' ++ ws2'), D.ext, D.root, D.funcs⟩, hD, by simp only [serializeME, e1, e2]⟩

end IrVerif.Scope

/-
The recursive iterator (`recStep` / `recNext` / `recDrain`): stack invariants, the fuel-free
step relation `Steps`, and the frame-completion lemma from which termination and the pre-order
theorem follow.
-/
import IrVerif.Lemmas.LinkedSetWF
namespace IrVerif.LinkedSet

/-! ### worlds and stacks -/

/-- every node container of the world satisfies the representation invariant -/
def WorldWF (w : RWorld) : Prop := ∀ s ∈ w.sets, WF s

theorem wf_empty : WF empty := ⟨[], inv_empty⟩

theorem WorldWF.setOf {w : RWorld} (h : WorldWF w) (g : Nat) : WF (w.setOf g) := by
  unfold RWorld.setOf
  by_cases hg : g < w.sets.length
  · have : w.sets.getD g empty = w.sets[g] := by simp [List.getD, List.getElem?_eq_getElem hg]
    rw [this]; exact h _ (List.getElem_mem hg)
  · have : w.sets.getD g empty = empty := by
      simp [List.getD, List.getElem?_eq_none (Nat.le_of_not_lt hg)]
    rw [this]; exact wf_empty

/-- well-founded nesting: the subgraphs entered from a node of graph `g` have smaller rank -/
def Ranked (w : RWorld) (d : Dir) (rk : Nat → Nat) : Prop :=
  ∀ g v, v ∈ toList (w.setOf g) → w.recurse v = true → ∀ h ∈ w.visit d v, rk h < rk g

/-- a frame is consistent: its cursor refers to a box of its graph's container, subgraphs waiting
    to be entered have smaller rank, and `last` is only set while nothing is pending -/
structure FrameOK (w : RWorld) (d : Dir) (rk : Nat → Nat) (fr : RFrame) : Prop where
  valid : fr.c.Valid (w.setOf fr.g)
  pend : ∀ h ∈ fr.pending, rk h < rk fr.g
  last : ∀ v, fr.last = some v → fr.pending = [] ∧ fr.c ≠ .notStarted ∧
    (w.recurse v = true → ∀ h ∈ w.visit d v, rk h < rk fr.g)

def StackOK (w : RWorld) (d : Dir) (rk : Nat → Nat) (st : List RFrame) : Prop :=
  ∀ fr ∈ st, FrameOK w d rk fr

theorem frameOK_fresh (w : RWorld) (d : Dir) (rk : Nat → Nat) (g : Nat) (h : WorldWF w) :
    FrameOK w d rk (RFrame.fresh g) := by
  obtain ⟨bs, hi⟩ := h.setOf g
  exact ⟨by simpa [RFrame.fresh, Cursor.Valid, Cursor.pos] using hi.size_pos,
    by simp [RFrame.fresh], by simp [RFrame.fresh]⟩

/-! ### the three kinds of step -/

theorem recStep_last (w : RWorld) (d : Dir) (fr : RFrame) (rest : List RFrame) (v : Nat)
    (h : fr.last = some v) :
    recStep w d (fr :: rest) =
      ({ fr with last := none, pending := if w.recurse v then w.visit d v else [] } :: rest,
       (if w.recf.isSome then [Out.pred v] else []), none) := by
  simp [recStep, h]

theorem recStep_pending (w : RWorld) (d : Dir) (fr : RFrame) (rest : List RFrame) (h : Nat)
    (ps : List Nat) (h1 : fr.last = none) (h2 : fr.pending = h :: ps) :
    recStep w d (fr :: rest) =
      (RFrame.fresh h :: { fr with pending := ps } :: rest, [Out.enter h], none) := by
  simp [recStep, h1, h2]

theorem recStep_yield (w : RWorld) (d : Dir) (fr : RFrame) (rest : List RFrame) (c' : Cursor) (v : Nat)
    (h1 : fr.last = none) (h2 : fr.pending = [])
    (h3 : iterNext (w.setOf fr.g) d fr.c = (c', .yield v)) :
    recStep w d (fr :: rest) =
      ({ fr with c := c', last := some v } :: rest,
       (if fr.c = .notStarted then [Out.enter fr.g] else []) ++ [Out.yield fr.g v], some (.yield v)) := by
  simp [recStep, h1, h2, h3]

theorem recStep_stop (w : RWorld) (d : Dir) (fr : RFrame) (rest : List RFrame) (c' : Cursor)
    (h1 : fr.last = none) (h2 : fr.pending = [])
    (h3 : iterNext (w.setOf fr.g) d fr.c = (c', .stop)) :
    recStep w d (fr :: rest) =
      (rest, (if fr.c = .notStarted then [Out.enter fr.g] else []) ++ [Out.exit fr.g] ++
        (if rest.isEmpty then [] else [Out.exit fr.g]), none) := by
  simp [recStep, h1, h2, h3]

/-! ### fuel-free runs -/

/-- `Steps w d st outs st'`: from `st` the generator stack runs (through any number of yields) to
    `st'`, producing `outs`, without finishing -/
inductive Steps (w : RWorld) (d : Dir) : List RFrame → List Out → List RFrame → Prop
  | refl (st : List RFrame) : Steps w d st [] st
  | step {st st1 st' : List RFrame} {o outs : List Out} {r : Option Res} :
      recStep w d st = (st1, o, r) → (r = none ∨ ∃ v, r = some (.yield v)) →
      Steps w d st1 outs st' → Steps w d st (o ++ outs) st'

theorem Steps.trans {w : RWorld} {d : Dir} {a b c : List RFrame} {o1 o2 : List Out}
    (h1 : Steps w d a o1 b) (h2 : Steps w d b o2 c) : Steps w d a (o1 ++ o2) c := by
  induction h1 with
  | refl => simpa using h2
  | step e hr _ ih => rw [List.append_assoc]; exact .step e hr (ih h2)

theorem Steps.one {w : RWorld} {d : Dir} {st st1 : List RFrame} {o : List Out} {r : Option Res}
    (e : recStep w d st = (st1, o, r)) (hr : r = none ∨ ∃ v, r = some (.yield v)) :
    Steps w d st o st1 := by
  have := Steps.step e hr (Steps.refl st1)
  simpa using this

/-- a run costs a fixed amount of fuel, after which the drain continues from where it ended -/
theorem Steps.drain {w : RWorld} {d : Dir} {st st' : List RFrame} {outs : List Out}
    (h : Steps w d st outs st') :
    ∃ n, ∀ f, recDrain w d (n + f) st = (outs ++ (recDrain w d f st').1, (recDrain w d f st').2) := by
  induction h with
  | refl st => exact ⟨0, fun f => by simp⟩
  | @step st st1 st' o outs r e hr _ ih =>
    obtain ⟨n, hn⟩ := ih
    refine ⟨n + 1, fun f => ?_⟩
    have e1 : n + 1 + f = (n + f) + 1 := by omega
    rw [e1]
    rcases hr with rfl | ⟨v, rfl⟩
    · simp only [recDrain, e, hn f, List.append_assoc]
    · simp only [recDrain, e, hn f, List.append_assoc]

theorem recDrain_nil (w : RWorld) (d : Dir) (f : Nat) : recDrain w d (f + 1) [] = ([], .stop) := by
  simp [recDrain, recStep]

/-- a run that empties the stack: the iterator is exhausted, for every sufficiently large fuel -/
theorem Steps.drain_all {w : RWorld} {d : Dir} {st : List RFrame} {outs : List Out}
    (h : Steps w d st outs []) : ∃ n, ∀ f, n ≤ f → recDrain w d f st = (outs, .stop) := by
  obtain ⟨n, hn⟩ := h.drain
  refine ⟨n + 1, fun f hf => ?_⟩
  obtain ⟨k, rfl⟩ : ∃ k, f = n + (k + 1) := ⟨f - n - 1, by omega⟩
  rw [hn (k + 1), recDrain_nil]; simp

/-! ### frame completion -/

/-- what a frame still produces until its generator finishes (its own `exit_graph` included) -/
def frameSpec (V : Nat → List Out) (w : RWorld) (d : Dir) (fr : RFrame) : List Out :=
  (match fr.last with
   | some v => specAfter V w d v
   | none => []) ++
  fr.pending.flatMap V ++
  (if fr.c = .notStarted then [Out.enter fr.g] else []) ++
  specLoop V w d fr.g (rest (w.setOf fr.g) d fr.c)

/-- the caller's `exit_graph` after a subgraph's iterator is exhausted -/
def popTail (rest : List RFrame) (g : Nat) : List Out := if rest.isEmpty then [] else [Out.exit g]

theorem specLoop_nil (V : Nat → List Out) (w : RWorld) (d : Dir) (g : Nat) :
    specLoop V w d g [] = [Out.exit g] := by simp [specLoop]

theorem specLoop_cons (V : Nat → List Out) (w : RWorld) (d : Dir) (g v : Nat) (l : List Nat) :
    specLoop V w d g (v :: l) = Out.yield g v :: (specAfter V w d v ++ specLoop V w d g l) := by
  simp [specLoop]

/-- the subgraphs waiting in `pending` are visited one after the other -/
theorem steps_pending {w : RWorld} {d : Dir} {rk : Nat → Nat} {V : Nat → List Out} {body : Nat → List Out}
    (K : Nat) (hV : ∀ h, rk h < K → V h = Out.enter h :: body h)
    (hC : ∀ h fr' rest, rk h < K → Steps w d (RFrame.fresh h :: fr' :: rest) (body h) (fr' :: rest)) :
    ∀ (ps : List Nat) (fr : RFrame) (rest : List RFrame), fr.last = none → fr.pending = ps →
      (∀ h ∈ ps, rk h < K) →
      Steps w d (fr :: rest) (ps.flatMap V) ({ fr with pending := [] } :: rest)
  | [], fr, rest, _, h2, _ => by
      have : ({ fr with pending := [] } : RFrame) = fr := by cases fr; simp_all
      rw [this]; exact .refl _
  | h :: ps, fr, rest, h1, h2, hk => by
      have e := recStep_pending w d fr rest h ps h1 h2
      have s1 := Steps.one e (Or.inl rfl)
      have s2 := hC h { fr with pending := ps } rest (hk h (by simp))
      have s3 := steps_pending K hV hC ps { fr with pending := ps } rest h1 rfl
        (fun x hx => hk x (by simp [hx]))
      have := (s1.trans s2).trans s3
      simpa [List.flatMap_cons, hV h (hk h (by simp))] using this

/-- **frame completion**: given that every subgraph of rank `< K` completes with output `V`, a
    consistent frame of a graph of rank `≤ K` runs to the end of its generator, producing exactly
    `frameSpec`, and control returns to the frames below it. -/
theorem steps_frame {w : RWorld} {d : Dir} {rk : Nat → Nat} {V : Nat → List Out} {body : Nat → List Out}
    (hw : WorldWF w) (hr : Ranked w d rk)
    (K : Nat) (hV : ∀ h, rk h < K → V h = Out.enter h :: body h)
    (hC : ∀ h fr' rest, rk h < K → Steps w d (RFrame.fresh h :: fr' :: rest) (body h) (fr' :: rest)) :
    ∀ (n : Nat) (fr : RFrame) (rest : List RFrame),
      (IrVerif.LinkedSet.rest (w.setOf fr.g) d fr.c).length < n →
      FrameOK w d rk fr → rk fr.g ≤ K →
      Steps w d (fr :: rest) (frameSpec V w d fr ++ popTail rest fr.g) rest := by
  intro n
  induction n with
  | zero => intro fr rest hn; omega
  | succ n ih =>
    intro fr rest hn ok hk
    obtain ⟨bs, hi⟩ := hw.setOf fr.g
    -- phase 3: the container generator is resumed (nothing pending)
    have phase3 : ∀ fr2 : RFrame, fr2.g = fr.g → fr2.c = fr.c → fr2.last = none → fr2.pending = [] →
        Steps w d (fr2 :: rest)
          ((if fr.c = .notStarted then [Out.enter fr.g] else []) ++
            specLoop V w d fr.g (IrVerif.LinkedSet.rest (w.setOf fr.g) d fr.c) ++ popTail rest fr.g) rest := by
      intro fr2 eg ec h1 h2
      have hok := hi.iterNext_ok d fr.c ok.valid
      have hnr := hi.next_rest d fr.c ok.valid
      cases hres : iterNext (w.setOf fr.g) d fr.c with
      | mk c' res =>
        rw [hres] at hok hnr
        simp only at hok hnr
        cases res with
        | stop =>
          simp only at hnr
          have e := recStep_stop w d fr2 rest c' h1 h2 (by rw [eg, ec]; exact hres)
          have s1 := Steps.one e (Or.inl rfl)
          rw [hnr, specLoop_nil]
          simpa [eg, ec, popTail] using s1
        | yield v =>
          simp only at hnr
          have e := recStep_yield w d fr2 rest c' v h1 h2 (by rw [eg, ec]; exact hres)
          have s1 := Steps.one e (Or.inr ⟨v, rfl⟩)
          obtain ⟨t, ht, hc', hvt⟩ := hi.iterNext_yield d ok.valid hres
          have hmem : v ∈ toList (w.setOf fr.g) := (hi.mem_toList v).2 ⟨t, ht, hvt⟩
          have ok3 : FrameOK w d rk { fr2 with c := c', last := some v } := by
            refine ⟨?_, ?_, ?_⟩
            · show c'.Valid (w.setOf fr2.g)
              rw [eg, hc']; exact (hi.live t ht).2.1
            · intro h hh; simp [h2] at hh
            · intro v' hv'
              simp only [Option.some.injEq] at hv'
              subst hv'
              refine ⟨h2, by rw [hc']; simp, ?_⟩
              intro hrec h hh
              show rk h < rk fr2.g
              rw [eg]; exact hr fr.g v hmem hrec h hh
          have hlen : (IrVerif.LinkedSet.rest (w.setOf fr.g) d c').length < n := by
            rw [hnr] at hn; simp at hn; omega
          have s2 := ih { fr2 with c := c', last := some v } rest (by simpa [eg] using hlen) ok3
            (by show rk fr2.g ≤ K; rw [eg]; exact hk)
          have := s1.trans s2
          rw [hnr, specLoop_cons]
          have hns : c' ≠ .notStarted := by rw [hc']; simp
          simpa [frameSpec, h2, eg, ec, hns, List.append_assoc] using this
        | raised => rcases hok with h | ⟨_, h⟩ <;> cases h
        | fuel => rcases hok with h | ⟨_, h⟩ <;> cases h
    -- phase 2: pending subgraphs, then phase 3
    have phase2 : ∀ fr1 : RFrame, fr1.g = fr.g → fr1.c = fr.c → fr1.last = none →
        (∀ h ∈ fr1.pending, rk h < K) →
        Steps w d (fr1 :: rest)
          (fr1.pending.flatMap V ++ ((if fr.c = .notStarted then [Out.enter fr.g] else []) ++
            specLoop V w d fr.g (IrVerif.LinkedSet.rest (w.setOf fr.g) d fr.c) ++ popTail rest fr.g)) rest := by
      intro fr1 eg ec h1 hp
      have s1 := steps_pending K hV hC fr1.pending fr1 rest h1 rfl hp
      have s2 := phase3 { fr1 with pending := [] } eg ec h1 rfl
      exact s1.trans s2
    -- phase 1: the attributes of the node yielded last are read
    cases hl : fr.last with
    | none =>
      have := phase2 fr rfl rfl hl (fun h hh => Nat.lt_of_lt_of_le (ok.pend h hh) hk)
      simpa [frameSpec, hl, List.append_assoc] using this
    | some v =>
      obtain ⟨hp0, hns, hrk⟩ := ok.last v hl
      have e := recStep_last w d fr rest v hl
      have s1 := Steps.one e (Or.inl rfl)
      have s2 := phase2 { fr with last := none, pending := if w.recurse v then w.visit d v else [] }
        rfl rfl rfl (by
          intro h hh
          by_cases hrec : w.recurse v = true
          · simp only [hrec, if_true] at hh
            exact Nat.lt_of_lt_of_le (hrk hrec h hh) hk
          · simp [hrec] at hh)
      have := s1.trans s2
      by_cases hrec : w.recurse v = true
      · simpa [frameSpec, hl, hp0, hns, specAfter, hrec, List.append_assoc] using this
      · simpa [frameSpec, hl, hp0, hns, specAfter, hrec, List.append_assoc] using this

/-! ### subgraph visits, whole runs -/

/-- a visit of subgraph `h` without the caller's first `enter_graph(h)` -/
def visitBody (w : RWorld) (d : Dir) : Nat → Nat → List Out
  | 0, _ => []
  | k + 1, h => [Out.enter h] ++ specLoop (specVisit w d k) w d h (w.nodesOf d h) ++ [Out.exit h]

theorem specVisit_eq (w : RWorld) (d : Dir) (k h : Nat) (hk : 0 < k) :
    specVisit w d k h = Out.enter h :: visitBody w d k h := by
  obtain ⟨k, rfl⟩ : ∃ j, k = j + 1 := ⟨k - 1, by omega⟩
  simp [specVisit, visitBody]

/-- a subgraph of rank `< k` is visited completely and control returns to the caller -/
theorem steps_visit {w : RWorld} {d : Dir} {rk : Nat → Nat} (hw : WorldWF w) (hr : Ranked w d rk) :
    ∀ (k h : Nat) (fr' : RFrame) (rest : List RFrame), rk h < k →
      Steps w d (RFrame.fresh h :: fr' :: rest) (visitBody w d k h) (fr' :: rest)
  | 0, _, _, _, hk => by omega
  | k + 1, h, fr', rest, hk => by
      have ih := steps_visit hw hr k
      have hV : ∀ h', rk h' < k → specVisit w d k h' = Out.enter h' :: visitBody w d k h' :=
        fun h' hh => specVisit_eq w d k h' (by omega)
      have := steps_frame hw hr k hV ih _ (RFrame.fresh h) (fr' :: rest) (Nat.lt_succ_self _)
        (frameOK_fresh w d rk h hw) (by show rk h ≤ k; omega)
      simpa [frameSpec, RFrame.fresh, popTail, visitBody, RWorld.nodesOf, List.append_assoc] using this

/-- a consistent stack of frames whose graphs have rank `≤ K` runs until the iterator is exhausted -/
theorem steps_stack {w : RWorld} {d : Dir} {rk : Nat → Nat} (hw : WorldWF w) (hr : Ranked w d rk) (K : Nat) :
    ∀ (st : List RFrame), StackOK w d rk st → (∀ fr ∈ st, rk fr.g ≤ K) → ∃ outs, Steps w d st outs []
  | [], _, _ => ⟨[], .refl _⟩
  | fr :: rest, ok, hk => by
      have hV : ∀ h', rk h' < K → specVisit w d K h' = Out.enter h' :: visitBody w d K h' :=
        fun h' hh => specVisit_eq w d K h' (by omega)
      have s1 := steps_frame hw hr K hV (fun h fr' rest hh => steps_visit hw hr K h fr' rest hh) _
        fr rest (Nat.lt_succ_self _) (ok fr (by simp)) (hk fr (by simp))
      obtain ⟨outs, s2⟩ := steps_stack hw hr K rest (fun x hx => ok x (by simp [hx]))
        (fun x hx => hk x (by simp [hx]))
      exact ⟨_, s1.trans s2⟩

theorem exists_rank_bound (rk : Nat → Nat) : ∀ st : List RFrame, ∃ K, ∀ fr ∈ st, rk fr.g ≤ K
  | [] => ⟨0, by simp⟩
  | fr :: st => by
      obtain ⟨K, hK⟩ := exists_rank_bound rk st
      refine ⟨max K (rk fr.g), ?_⟩
      intro x hx
      simp only [List.mem_cons] at hx
      rcases hx with rfl | hx
      · exact Nat.le_max_right _ _
      · exact Nat.le_trans (hK x hx) (Nat.le_max_left _ _)

/-- the whole run of a fresh iterator on a graph of rank `≤ k` is the pre-order stream -/
theorem steps_top {w : RWorld} {d : Dir} {rk : Nat → Nat} (hw : WorldWF w) (hr : Ranked w d rk)
    (k g : Nat) (hk : rk g ≤ k) : Steps w d (recStart g) (specTop w d k g) [] := by
  have hV : ∀ h', rk h' < k → specVisit w d k h' = Out.enter h' :: visitBody w d k h' :=
    fun h' hh => specVisit_eq w d k h' (by omega)
  have := steps_frame hw hr k hV (fun h fr' rest hh => steps_visit hw hr k h fr' rest hh) _
    (RFrame.fresh g) [] (Nat.lt_succ_self _) (frameOK_fresh w d rk g hw) hk
  simpa [frameSpec, RFrame.fresh, popTail, specTop, RWorld.nodesOf, recStart] using this

/-- if the drain ends with StopIteration, so does / yields the first `next()` with the same fuel -/
theorem recNext_of_drain (w : RWorld) (d : Dir) : ∀ (f : Nat) (st : List RFrame) (outs : List Out),
    recDrain w d f st = (outs, .stop) →
    (recNext w d f st).2.2 = .stop ∨ ∃ v, (recNext w d f st).2.2 = .yield v
  | 0, _, _, h => by simp [recDrain] at h
  | f + 1, st, outs, h => by
      cases hs : recStep w d st with
      | mk st' p =>
        obtain ⟨o, r⟩ := p
        cases r with
        | none =>
          simp only [recDrain, hs] at h
          have := recNext_of_drain w d f st' (recDrain w d f st').1 (by
            have := congrArg Prod.snd h; simp only at this
            exact Prod.ext rfl this)
          simpa [recNext, hs] using this
        | some r =>
          cases r with
          | yield v => right; exact ⟨v, by simp [recNext, hs]⟩
          | stop => left; simp [recNext, hs]
          | raised => simp [recDrain, hs] at h
          | fuel => simp [recDrain, hs] at h

/-! ### stack consistency is preserved; yields are members -/

theorem recStep_ok {w : RWorld} {d : Dir} {rk : Nat → Nat} (hw : WorldWF w) (hr : Ranked w d rk)
    {st st' : List RFrame} {o : List Out} {r : Option Res} (ok : StackOK w d rk st)
    (e : recStep w d st = (st', o, r)) :
    StackOK w d rk st' ∧ (∀ g v, Out.yield g v ∈ o → v ∈ toList (w.setOf g)) ∧
    (r = none ∨ r = some .stop ∨ ∃ v, r = some (.yield v)) := by
  cases st with
  | nil =>
    simp only [recStep, Prod.mk.injEq] at e
    obtain ⟨rfl, rfl, rfl⟩ := e
    exact ⟨ok, by simp, Or.inr (Or.inl rfl)⟩
  | cons fr rest =>
    have okf := ok fr (by simp)
    have okr : StackOK w d rk rest := fun x hx => ok x (by simp [hx])
    cases hl : fr.last with
    | some v =>
      rw [recStep_last w d fr rest v hl] at e
      simp only [Prod.mk.injEq] at e
      obtain ⟨rfl, rfl, rfl⟩ := e
      obtain ⟨_, _, hrk⟩ := okf.last v hl
      refine ⟨?_, ?_, Or.inl rfl⟩
      · intro x hx
        simp only [List.mem_cons] at hx
        rcases hx with rfl | hx
        · refine ⟨okf.valid, ?_, by simp⟩
          intro h hh
          by_cases hrec : w.recurse v = true
          · simp only [hrec, if_true] at hh; exact hrk hrec h hh
          · simp [hrec] at hh
        · exact okr x hx
      · intro g v' hm; split at hm <;> simp at hm
    | none =>
      cases hp : fr.pending with
      | cons h ps =>
        rw [recStep_pending w d fr rest h ps hl hp] at e
        simp only [Prod.mk.injEq] at e
        obtain ⟨rfl, rfl, rfl⟩ := e
        refine ⟨?_, by simp, Or.inl rfl⟩
        intro x hx
        simp only [List.mem_cons] at hx
        rcases hx with rfl | rfl | hx
        · exact frameOK_fresh w d rk h hw
        · refine ⟨okf.valid, fun h' hh => okf.pend h' (by rw [hp]; simp [hh]), ?_⟩
          intro v hv; simp [hl] at hv
        · exact okr x hx
      | nil =>
        obtain ⟨bs, hi⟩ := hw.setOf fr.g
        have hok := hi.iterNext_ok d fr.c okf.valid
        cases hres : iterNext (w.setOf fr.g) d fr.c with
        | mk c' res =>
          rw [hres] at hok
          simp only at hok
          cases res with
          | stop =>
            rw [recStep_stop w d fr rest c' hl hp hres] at e
            simp only [Prod.mk.injEq] at e
            obtain ⟨rfl, rfl, rfl⟩ := e
            refine ⟨okr, ?_, Or.inl rfl⟩
            intro g v hm
            simp only [List.mem_append] at hm
            rcases hm with (hm | hm) | hm
            · split at hm <;> simp at hm
            · simp at hm
            · split at hm <;> simp at hm
          | yield v =>
            rw [recStep_yield w d fr rest c' v hl hp hres] at e
            simp only [Prod.mk.injEq] at e
            obtain ⟨rfl, rfl, rfl⟩ := e
            obtain ⟨t, ht, hc', hvt⟩ := hi.iterNext_yield d okf.valid hres
            have hmem : v ∈ toList (w.setOf fr.g) := (hi.mem_toList v).2 ⟨t, ht, hvt⟩
            refine ⟨?_, ?_, Or.inr (Or.inr ⟨v, rfl⟩)⟩
            · intro x hx
              simp only [List.mem_cons] at hx
              rcases hx with rfl | hx
              · refine ⟨by show c'.Valid (w.setOf fr.g); rw [hc']; exact (hi.live t ht).2.1,
                  by intro h hh; simp [hp] at hh, ?_⟩
                intro v' hv'
                simp only [Option.some.injEq] at hv'
                subst hv'
                exact ⟨hp, by rw [hc']; simp, fun hrec h hh => hr fr.g v hmem hrec h hh⟩
              · exact okr x hx
            · intro g v' hm
              simp only [List.mem_append, List.mem_singleton, Out.yield.injEq] at hm
              rcases hm with hm | ⟨rfl, rfl⟩
              · split at hm <;> simp at hm
              · exact hmem
          | raised => rcases hok with h | ⟨_, h⟩ <;> cases h
          | fuel => rcases hok with h | ⟨_, h⟩ <;> cases h

theorem recNext_ok {w : RWorld} {d : Dir} {rk : Nat → Nat} (hw : WorldWF w) (hr : Ranked w d rk) :
    ∀ (f : Nat) (st : List RFrame), StackOK w d rk st →
      StackOK w d rk (recNext w d f st).1 ∧
      (∀ g v, Out.yield g v ∈ (recNext w d f st).2.1 → v ∈ toList (w.setOf g))
  | 0, st, ok => ⟨ok, by simp [recNext]⟩
  | f + 1, st, ok => by
      cases hs : recStep w d st with
      | mk st' p =>
        obtain ⟨o, r⟩ := p
        obtain ⟨ok', hm, _⟩ := recStep_ok hw hr ok hs
        cases r with
        | some r => simpa [recNext, hs] using ⟨ok', hm⟩
        | none =>
          obtain ⟨ok2, hm2⟩ := recNext_ok hw hr f st' ok'
          simp only [recNext, hs]
          refine ⟨ok2, ?_⟩
          intro g v hv
          simp only [List.mem_append] at hv
          rcases hv with hv | hv
          · exact hm g v hv
          · exact hm2 g v hv

/-! ### edits of one graph's node sequence -/

theorem setOf_applyAt_same (w : RWorld) (g : Nat) (op : Op) (hg : g < w.sets.length) :
    (w.applyAt g op).1.setOf g = (apply (w.setOf g) op).1 := by
  simp [RWorld.applyAt, RWorld.setOf, List.getD, hg]

theorem setOf_applyAt_other (w : RWorld) (g g' : Nat) (op : Op) (hne : g' ≠ g) :
    (w.applyAt g op).1.setOf g' = w.setOf g' := by
  simp [RWorld.applyAt, RWorld.setOf, List.getD, Ne.symm hne]

/-! ### a concrete step bound -/

/-- frames that still have to read the attributes of the node they yielded last -/
def lastCount (st : List RFrame) : Nat := (st.filter (fun fr => fr.last.isSome)).length

theorem lastCount_le (st : List RFrame) : lastCount st ≤ st.length := List.length_filter_le _ _

/-- every step that does not end the run pays for itself: it emits output, or it consumes a
    pending attribute read -/
theorem recStep_potential (w : RWorld) (d : Dir) {st st' : List RFrame} {o : List Out} {r : Option Res}
    (e : recStep w d st = (st', o, r)) (hr : r = none ∨ ∃ v, r = some (.yield v)) :
    lastCount st' + 1 ≤ 2 * o.length + lastCount st := by
  cases st with
  | nil =>
    simp only [recStep, Prod.mk.injEq] at e
    obtain ⟨_, _, rfl⟩ := e
    rcases hr with h | ⟨_, h⟩ <;> cases h
  | cons fr rest =>
    cases hl : fr.last with
    | some v =>
      rw [recStep_last w d fr rest v hl] at e
      simp only [Prod.mk.injEq] at e
      obtain ⟨rfl, rfl, rfl⟩ := e
      simp [lastCount, List.filter_cons, hl]
    | none =>
      cases hp : fr.pending with
      | cons h ps =>
        rw [recStep_pending w d fr rest h ps hl hp] at e
        simp only [Prod.mk.injEq] at e
        obtain ⟨rfl, rfl, rfl⟩ := e
        simp [lastCount, List.filter_cons, hl, RFrame.fresh]
        omega
      | nil =>
        cases hres : iterNext (w.setOf fr.g) d fr.c with
        | mk c' res =>
          cases res with
          | yield v =>
            rw [recStep_yield w d fr rest c' v hl hp hres] at e
            simp only [Prod.mk.injEq] at e
            obtain ⟨rfl, rfl, rfl⟩ := e
            simp [lastCount, List.filter_cons, hl]
            omega
          | stop =>
            rw [recStep_stop w d fr rest c' hl hp hres] at e
            simp only [Prod.mk.injEq] at e
            obtain ⟨rfl, rfl, rfl⟩ := e
            simp [lastCount, List.filter_cons, hl]
            omega
          | raised =>
            simp only [recStep, hl, hp, hres, Prod.mk.injEq] at e
            obtain ⟨_, _, rfl⟩ := e
            rcases hr with h | ⟨_, h⟩ <;> cases h
          | fuel =>
            simp only [recStep, hl, hp, hres, Prod.mk.injEq] at e
            obtain ⟨_, _, rfl⟩ := e
            rcases hr with h | ⟨_, h⟩ <;> cases h

theorem recDrain_cont (w : RWorld) (d : Dir) (f : Nat) {st st' : List RFrame} {o : List Out} {r : Option Res}
    (hs : recStep w d st = (st', o, r)) (hr : r = none ∨ ∃ v, r = some (.yield v)) :
    recDrain w d (f + 1) st = (o ++ (recDrain w d f st').1, (recDrain w d f st').2) := by
  rcases hr with rfl | ⟨v, rfl⟩ <;> simp only [recDrain, hs]

theorem recDrain_end (w : RWorld) (d : Dir) (f : Nat) {st st' : List RFrame} {o : List Out} {r : Res}
    (hs : recStep w d st = (st', o, some r)) (hr : ∀ v, r ≠ .yield v) :
    recDrain w d (f + 1) st = (o, r) := by
  cases r with
  | yield v => exact absurd rfl (hr v)
  | stop => simp only [recDrain, hs]
  | raised => simp only [recDrain, hs]
  | fuel => simp only [recDrain, hs]

theorem step_cases (r : Option Res) :
    (r = none ∨ ∃ v, r = some (.yield v)) ∨ (∃ r', r = some r' ∧ ∀ v, r' ≠ .yield v) := by
  cases r with
  | none => exact Or.inl (Or.inl rfl)
  | some r =>
    cases r with
    | yield v => exact Or.inl (Or.inr ⟨v, rfl⟩)
    | stop => exact Or.inr ⟨_, rfl, by intro v h; cases h⟩
    | raised => exact Or.inr ⟨_, rfl, by intro v h; cases h⟩
    | fuel => exact Or.inr ⟨_, rfl, by intro v h; cases h⟩

theorem recDrain_succ (w : RWorld) (d : Dir) : ∀ (f : Nat) (st : List RFrame) (outs : List Out),
    recDrain w d f st = (outs, .stop) → recDrain w d (f + 1) st = (outs, .stop)
  | 0, _, _, h => by simp [recDrain] at h
  | f + 1, st, outs, h => by
      cases hs : recStep w d st with
      | mk st' p =>
        obtain ⟨o, r⟩ := p
        rcases step_cases r with hr | ⟨r', rfl, hr⟩
        · rw [recDrain_cont w d f hs hr] at h
          rw [recDrain_cont w d (f + 1) hs hr]
          have h2 : (recDrain w d f st').2 = .stop := by simpa using congrArg Prod.snd h
          have ih := recDrain_succ w d f st' (recDrain w d f st').1 (Prod.ext rfl h2)
          rw [ih]
          have h1 : o ++ (recDrain w d f st').1 = outs := by simpa using congrArg Prod.fst h
          simp [h1]
        · rw [recDrain_end w d f hs hr] at h
          rw [recDrain_end w d (f + 1) hs hr]; exact h

theorem recDrain_mono (w : RWorld) (d : Dir) {f f' : Nat} {st : List RFrame} {outs : List Out}
    (h : recDrain w d f st = (outs, .stop)) (hf : f ≤ f') : recDrain w d f' st = (outs, .stop) := by
  induction hf with
  | refl => exact h
  | step _ ih => exact recDrain_succ w d _ st outs ih

/-- if the drain ends at all, it ends within `2 * (length of its output) + lastCount + 1` steps -/
theorem recDrain_bound (w : RWorld) (d : Dir) : ∀ (f : Nat) (st : List RFrame) (outs : List Out),
    recDrain w d f st = (outs, .stop) →
    recDrain w d (2 * outs.length + lastCount st + 1) st = (outs, .stop)
  | 0, _, _, h => by simp [recDrain] at h
  | f + 1, st, outs, h => by
      cases hs : recStep w d st with
      | mk st' p =>
        obtain ⟨o, r⟩ := p
        rcases step_cases r with hr | ⟨r', rfl, hr⟩
        · rw [recDrain_cont w d f hs hr] at h
          have h2 : (recDrain w d f st').2 = .stop := by simpa using congrArg Prod.snd h
          have h1 : o ++ (recDrain w d f st').1 = outs := by simpa using congrArg Prod.fst h
          have ih := recDrain_bound w d f st' _ (Prod.ext rfl h2)
          have pot := recStep_potential w d hs hr
          have hle : 2 * (recDrain w d f st').1.length + lastCount st' + 1 ≤ 2 * outs.length + lastCount st := by
            rw [← h1, List.length_append]; omega
          have m := recDrain_mono w d ih hle
          rw [recDrain_cont w d _ hs hr, m, h1]
        · rw [recDrain_end w d f hs hr] at h
          rw [recDrain_end w d _ hs hr]; exact h

/-! ### histories of edits and `next()` calls -/

/-- an event of a history seen by one recursive iterator -/
inductive REv
  | edit (g : Nat) (op : Op)
  | next
deriving Repr

/-- every node has a home graph and is only ever a member of that graph's sequence -/
def Homed (w : RWorld) (home : Nat → Nat) : Prop := ∀ g v, v ∈ toList (w.setOf g) → home v = g

/-- the nesting (which does not depend on the node sequences) is well founded -/
def StaticRanked (w : RWorld) (d : Dir) (rk : Nat → Nat) (home : Nat → Nat) : Prop :=
  ∀ v, w.recurse v = true → ∀ h ∈ w.visit d v, rk h < rk (home v)

theorem ranked_of_static {w : RWorld} {d : Dir} {rk home : Nat → Nat} (hh : Homed w home)
    (hs : StaticRanked w d rk home) : Ranked w d rk := by
  intro g v hv hrec h hvis
  have := hs v hrec h hvis
  rwa [hh g v hv] at this

/-- the edits of a history address existing graphs and only insert nodes whose home is that graph -/
def Admissible (n : Nat) (home : Nat → Nat) : List REv → Prop
  | [] => True
  | .edit g op :: es => g < n ∧ (∀ v ∈ touched op, home v = g) ∧ Admissible n home es
  | .next :: es => Admissible n home es

/-- what holds along a history: every `next()` yields members only, and at the end the world and
    the stack are consistent and the nesting is still well founded -/
def RecHistInv (d : Dir) (fuel : Nat) (rk home : Nat → Nat) : RWorld → List RFrame → List REv → Prop
  | w, st, [] => WorldWF w ∧ StackOK w d rk st ∧ Homed w home ∧ Ranked w d rk
  | w, st, .edit g op :: es => RecHistInv d fuel rk home (w.applyAt g op).1 st es
  | w, st, .next :: es =>
      (∀ g v, Out.yield g v ∈ (recNext w d fuel st).2.1 → v ∈ toList (w.setOf g)) ∧
      RecHistInv d fuel rk home w (recNext w d fuel st).1 es

theorem homed_applyAt {w : RWorld} {home : Nat → Nat} (hw : WorldWF w) (hh : Homed w home) (g : Nat) (op : Op)
    (hg : g < w.sets.length) (ht : ∀ v ∈ touched op, home v = g) : Homed (w.applyAt g op).1 home := by
  intro g' v hv
  by_cases hgg : g' = g
  · subst hgg
    rw [setOf_applyAt_same w g' op hg] at hv
    rcases mem_toList_apply (hw.setOf g') op hv with h | h
    · exact ht v h
    · exact hh g' v h
  · rw [setOf_applyAt_other w g g' op hgg] at hv
    exact hh g' v hv

theorem applyAt_ok {w : RWorld} {d : Dir} {rk : Nat → Nat} (hw : WorldWF w) {st : List RFrame}
    (ok : StackOK w d rk st) (g : Nat) (op : Op) (hg : g < w.sets.length) :
    WorldWF (w.applyAt g op).1 ∧ StackOK (w.applyAt g op).1 d rk st := by
  have hsame := setOf_applyAt_same w g op hg
  obtain ⟨bs, hi⟩ := hw.setOf g
  refine ⟨?_, ?_⟩
  · intro s hs
    simp only [RWorld.applyAt] at hs
    rcases List.mem_or_eq_of_mem_set hs with h | h
    · exact hw s h
    · rw [h]
      obtain ⟨bs', hi', _⟩ := sim_apply hi op .fwd .notStarted (by simpa [Cursor.pos] using hi.size_pos)
      exact ⟨bs', hi'⟩
  · intro fr hfr
    have okf := ok fr hfr
    refine ⟨?_, okf.pend, okf.last⟩
    by_cases hfg : fr.g = g
    · rw [hfg, hsame]
      have hv : fr.c.pos < size (w.setOf g) := by rw [← hfg]; exact okf.valid
      obtain ⟨_, _, _, _, hsz⟩ := sim_apply hi op d fr.c hv
      exact Nat.lt_of_lt_of_le hv hsz
    · rw [setOf_applyAt_other w g fr.g op hfg]; exact okf.valid

theorem length_applyAt (w : RWorld) (g : Nat) (op : Op) : (w.applyAt g op).1.sets.length = w.sets.length := by
  simp [RWorld.applyAt]

/-- along every admissible history the invariants hold and only members are yielded -/
theorem rec_history (d : Dir) (fuel : Nat) (rk home : Nat → Nat) :
    ∀ (es : List REv) (w : RWorld) (st : List RFrame), WorldWF w → Homed w home →
      StaticRanked w d rk home → StackOK w d rk st → Admissible w.sets.length home es →
      RecHistInv d fuel rk home w st es
  | [], w, st, hw, hh, hs, ok, _ => ⟨hw, ok, hh, ranked_of_static hh hs⟩
  | .edit g op :: es, w, st, hw, hh, hs, ok, adm => by
      obtain ⟨hg, ht, adm'⟩ := adm
      obtain ⟨hw', ok'⟩ := applyAt_ok hw ok g op hg
      have hh' := homed_applyAt hw hh g op hg ht
      have hs' : StaticRanked (w.applyAt g op).1 d rk home := hs
      show RecHistInv d fuel rk home (w.applyAt g op).1 st es
      exact rec_history d fuel rk home es _ st hw' hh' hs' ok' (by rw [length_applyAt]; exact adm')
  | .next :: es, w, st, hw, hh, hs, ok, adm => by
      obtain ⟨ok', hm⟩ := recNext_ok hw (ranked_of_static hh hs) fuel st ok
      exact ⟨hm, rec_history d fuel rk home es w _ hw hh hs ok' adm⟩

end IrVerif.LinkedSet

import IrVerif.Lemmas.ScopeSerdeBridgeModel2
/-!
The C02 bridge for models with functions (IR version >= 10), part 3: every model C02 deserializes from the fragment
`sharedSM` satisfies `GOKM` (`C03_bridge_gok_model`); the two models are one serde on the fragment
(`C03_bridge_serde_model`).
-/
namespace IrVerif.Bridge
open IrVerif.Proto IrVerif.Serde

theorem function_gok (ver : Int) (f : FunctionP) (h : wfFunction ver f = true) (hs : sideF f = true) :
    ∃ x, desFunction f = .ok x ∧ okF x = true ∧ fnKey x = (f.domain, f.name, f.overload) := by
  simp only [wfFunction, Bool.and_eq_true] at h
  obtain ⟨⟨⟨⟨⟨⟨⟨⟨⟨⟨⟨⟨h1, _h2⟩, h3⟩, _h4⟩, h5⟩, _h6⟩, h7⟩, _h8⟩, _h9⟩, _h10⟩, _h11⟩, h12⟩, _h13⟩ := h
  simp only [sideF, Bool.and_eq_true] at hs
  obtain ⟨⟨hs1, hs2⟩, hs3⟩ := hs
  have hnd := nodupStr_iff.1 h1
  rw [List.nodup_append] at hnd
  obtain ⟨_hndI, hndO, hdis⟩ := hnd
  have hI := functionInputs_eq f.valueInfo h7 f.inputs
  have hNI : tableNames (f.inputs.map (newValueT f.valueInfo [])) = f.inputs := by
    simp [tableNames, List.map_map, Function.comp_def]
  have hC := declareAll_spec f.valueInfo [] h7 f.nodes (f.inputs.map (newValueT f.valueInfo []))
    (by intro n hn hm; rw [hNI] at hm; exact hdis n hm n hn rfl) hndO
  have hN : tableNames (f.inputs.map (newValueT f.valueInfo [])
      ++ (nodeOutNames f.nodes).map (newValueT f.valueInfo [])) = f.inputs ++ nodeOutNames f.nodes := by
    simp [tableNames, List.map_map, Function.comp_def]
  have hVis : ∀ vi ∈ f.valueInfo, wfType vi.type = true ∧ vi.metadata = [] := by
    intro vi hvi
    have a := List.all_eq_true.1 h7 vi hvi
    have b := List.all_eq_true.1 hs1 vi hvi
    simp only [wfVI, Bool.and_eq_true] at a
    exact ⟨a.1, by simpa using b⟩
  have hTPok : ∀ v ∈ f.inputs.map (newValueT f.valueInfo [])
      ++ (nodeOutNames f.nodes).map (newValueT f.valueInfo []), (valOK v && tensOK v) = true := by
    intro v hv
    simp only [List.mem_append, List.mem_map] at hv
    rcases hv with ⟨n, _, rfl⟩ | ⟨n, _, rfl⟩
    · exact (OKv_newValueT n hVis).val
    · exact (OKv_newValueT n hVis).val
  have hlenI : f.inputs.length ≤ (f.inputs.map (newValueT f.valueInfo [])
      ++ (nodeOutNames f.nodes).map (newValueT f.valueInfo [])).length := by simp
  obtain ⟨TP, hTP⟩ : ∃ TP, TP = f.inputs.map (newValueT f.valueInfo [])
      ++ (nodeOutNames f.nodes).map (newValueT f.valueInfo []) := ⟨_, rfl⟩
  rw [← hTP] at hC hN hTPok hlenI
  obtain ⟨as, a1, _, _⟩ := attrs_rt [] none f.attrProtos h5 (Or.inl rfl)
  obtain ⟨xs, n1, hokN⟩ := nodes_gok [] [] rfl f.valueInfo [] f.nodes TP (by rw [hN]; exact h12) hs2 hs3
  obtain ⟨gouts, o1, _, _, o4, o5⟩ := phF_outputs
    (((tableNames TP).zip (List.range' 0 (tableNames TP).length)).reverse) (tableNames TP) 0 rfl f.outputs
    (by intro n hn; rw [hN]; have := List.all_eq_true.1 h3 n hn; simpa using this)
  have o5' : gouts.all (goutOK TP.length) = true := by simpa [tableNames] using o5
  refine ⟨⟨f.domain, f.name, f.overload,
      .mk TP (List.range f.inputs.length) [] xs gouts
        (if f.overload.isEmpty then "" else f.name ++ "_" ++ f.domain ++ "__" ++ f.overload) f.doc
        (opsetDict f.opsetImport) (dictOfEntries f.metadata),
      attrDict (as ++ f.attrNames.map fun n => IRAttr.undefined n "")⟩, ?_, ?_, rfl⟩
  · simp only [desFunction, hI, hC, n1, o1, a1, bind, Except.bind]
  · simp only [okF, okG, IRGraph.outputs, Bool.and_eq_true]
    refine ⟨⟨⟨⟨⟨List.all_eq_true.2 hTPok, ?_⟩, by simp⟩, hokN⟩, o5'⟩, o4⟩
    rw [List.all_eq_true]
    intro i hi
    have : i < f.inputs.length := List.mem_range.1 hi
    exact decide_eq_true (by omega)

theorem funcs_gok (ver : Int) : ∀ fs : List FunctionP, fs.all (wfFunction ver) = true → fs.all sideF = true →
    ∃ xs, desFunctions fs = .ok xs ∧ xs.all okF = true ∧
      xs.map fnKey = fs.map (fun f => (f.domain, f.name, f.overload))
  | [], _, _ => ⟨[], rfl, rfl, rfl⟩
  | f :: fs, h, hs => by
    simp only [List.all_cons, Bool.and_eq_true] at h hs
    obtain ⟨x, g1, g2, g3⟩ := function_gok ver f h.1 hs.1
    obtain ⟨xs, r1, r2, r3⟩ := funcs_gok ver fs h.2 hs.2
    exact ⟨x :: xs, by simp [desFunctions, g1, r1, bind, Except.bind], by simp [g2, r2], by simp [g3, r3]⟩

/-- a model of the fragment: the main graph with a nested graph of `ScopeSerdeBridgeSub7`, one function with an
    anonymous second node output and a value_info entry -/
def exampleModel : ModelP :=
  { irVersion := 10, producerName := "p", producerVersion := "", domain := "", modelVersion := 0, doc := "",
    opsetImport := [], metadata := [], graph := exampleNested,
    functions := [{ name := "f", domain := "d", overload := "", doc := "", inputs := ["a"], outputs := ["b"],
                    attrNames := [], attrProtos := [],
                    nodes := [.mk ["a"] ["b", ""] "n" "Relu" "" "" "" [] [] []], opsetImport := [],
                    valueInfo := [⟨"b", .tensor (some 1) none "", "", []⟩], metadata := [] }],
    configuration := [] }

example : sharedSM exampleModel = true := by decide

end IrVerif.Bridge

namespace IrVerif.Scope
open IrVerif.Proto

/-- on the fragment `sharedSM` every model C02 deserializes satisfies the hypothesis `GOKM` of
    `C03_bridge_serialize_model` -/
theorem C03_bridge_gok_model (m : Proto.ModelP) (h : Bridge.sharedSM m = true) (x : Serde.IRModel)
    (hx : Serde.desModel m = .ok x) : Bridge.GOKM x = true := by
  simp only [Bridge.sharedSM, Bridge.sharedM, Bridge.noValueMetaFull, Bridge.canonTensorsFull, Bool.and_eq_true,
    decide_eq_true_eq] at h
  obtain ⟨⟨⟨⟨hwf, hver⟩, hnm⟩, hct⟩, hside⟩ := h
  simp only [Serde.wfModel, Bool.and_eq_true] at hwf
  obtain ⟨⟨⟨⟨⟨⟨hg, hf⟩, _⟩, _⟩, hkeys⟩, _⟩, _⟩ := hwf
  obtain ⟨g, g1, okg⟩ := Bridge.graph_gok [] [] rfl m.graph hg hnm hct
  obtain ⟨fs, f1, okfs, f4⟩ := Bridge.funcs_gok m.irVersion m.functions hf hside
  have hknd := Serde.nodupKeys_iff.1 hkeys
  have hdict : Serde.functionDict [] fs = fs := by
    rw [Serde.functionDict_append fs [] (by simpa [f4] using hknd)]; simp
  have hlt : ¬ m.irVersion < 10 := by omega
  simp only [Serde.desModel, g1, f1, hdict, hlt, if_false, bind, Except.bind, Except.ok.injEq] at hx
  subst hx
  simp only [Bridge.GOKM, Bridge.GOKFull, (Bridge.setOpsets_inv g _).2.2.2.2, okg, okfs, Bool.and_self,
    Bool.true_and, decide_eq_true_eq]
  exact hver

/-- **C02 bridge for models with functions, both directions** (IR version >= 10): for every model `m` of the
    decidable fragment `sharedSM` the Scope model deserializes `absM m` to the abstraction of C02's IR model and
    serializes it to `absM` of C02's documented normal form `normModel m` (`C02_model`). -/
theorem C03_bridge_serde_model (m : Proto.ModelP) (h : Bridge.sharedSM m = true) :
    ∃ x w w', Serde.desModel m = .ok x ∧ Serde.serModel x = .ok (Serde.normModel m) ∧
      deserializeM (Bridge.absM m) = .ok w ∧ Bridge.coreOfM w = Bridge.absIRM x ∧
      serializeM w = .ok (w', Bridge.absM (Serde.normModel m)) := by
  have hM : Bridge.sharedM m = true := by
    simp only [Bridge.sharedSM, Bool.and_eq_true] at h; exact h.1.1.1
  have hwf : Serde.wfModel m = true := by
    simp only [Bridge.sharedM, Bool.and_eq_true] at hM; exact hM.1
  obtain ⟨x, w, h1, h2, h3⟩ := C03_bridge_deserialize_model m hM
  obtain ⟨x', r1, r2⟩ := Serde.model_rt m hwf
  rw [h1] at r1
  cases r1
  obtain ⟨w', h4⟩ := C03_bridge_serialize_model x _ w (C03_bridge_gok_model m h x h1) r2 h3
  exact ⟨x, w, w', h1, r2, h2, h3, h4⟩

end IrVerif.Scope

import IrVerif.Lemmas.Journal
/-!
Helper development for C20 round 4: flat enter / exit / operation words (`runFlat`) and captured
callables (`callCaptured`).  Core Lean only.
-/
namespace IrVerif.Journal

variable {σ : Type}

/-! ### flat words -/

/-- what the journals on the stack `st` (innermost first) will restore, one after the other: the
    innermost journal puts back its captured table and previous journal, whatever is installed now;
    below it the same for the next one; at the bottom the table and current journal must be `T`, `C` -/
def Stk (js : Nat → JState) : List Nat → Table → Option Nat → Table → Option Nat → Prop
  | [], tb, cur, T, C => tb = T ∧ cur = C
  | j :: st, _, _, T, C =>
      ∃ t, (js j).captured = some t ∧ (js j).active = true ∧ Stk js st t (js j).previous T C

theorem Stk_congr (js js' : Nat → JState) : ∀ (st : List Nat) (tb : Table) (cur : Option Nat) (T : Table)
    (C : Option Nat),
    (∀ i ∈ st, (js' i).captured = (js i).captured ∧ (js' i).previous = (js i).previous ∧
      (js' i).active = (js i).active) →
    Stk js st tb cur T C → Stk js' st tb cur T C := by
  intro st
  induction st with
  | nil => intro tb cur T C _ h; exact h
  | cons j st ih =>
    intro tb cur T C hc h
    obtain ⟨t, h1, h2, h3⟩ := h
    have hj := hc j (List.mem_cons_self ..)
    refine ⟨t, by rw [hj.1]; exact h1, by rw [hj.2.2]; exact h2, ?_⟩
    rw [hj.2.1]
    exact ih t _ T C (fun i hi => hc i (List.mem_cons_of_mem _ hi)) h3

theorem runFlat_append (cfg : Cfg σ) (fuel : Nat) : ∀ (u v : List (FEv σ)) (w : World σ),
    runFlat cfg fuel (u ++ v) w = runFlat cfg fuel v (runFlat cfg fuel u w) := by
  intro u
  induction u with
  | nil => intro v w; rfl
  | cons e r ih =>
    intro v w
    cases e with
    | enter j => simp only [List.cons_append, runFlat]; exact ih v _
    | exit j x => simp only [List.cons_append, runFlat]; exact ih v _
    | op p => simp only [List.cons_append, runFlat]; exact ih v _

/-- the world after one piece of user code: control state as before -/
theorem op_frame (cfg : Cfg σ) (fuel : Nat) (p : Prog σ) (w : World σ) :
    let x := runProg (dispatch cfg fuel) p w
    let w' : World σ := { x.1 with log := x.1.log ++ [x.2] }
    w'.table = w.table ∧ w'.current = w.current ∧
      (∀ i, (w'.journals i).captured = (w.journals i).captured ∧
        (w'.journals i).previous = (w.journals i).previous ∧ (w'.journals i).active = (w.journals i).active) := by
  have h := runProg_frame cfg fuel p w
  exact ⟨h.table, h.current, fun i => ⟨h.captured i, h.previous i, h.active i⟩⟩

theorem flat_inv (cfg : Cfg σ) (fuel : Nat) : ∀ (u : List (FEv σ)) (st : List Nat) (w : World σ) (T : Table)
    (C : Option Nat) (A : Nat → Bool),
    wbAux st u = true → st.Nodup → Stk w.journals st w.table w.current T C →
    (∀ i, i ∉ st → (w.journals i).active = A i) → (∀ i ∈ st, A i = false) →
    (∀ j ∈ flatEnters u, A j = false) →
    (runFlat cfg fuel u w).table = T ∧ (runFlat cfg fuel u w).current = C ∧
      ∀ i, ((runFlat cfg fuel u w).journals i).active = A i := by
  intro u
  induction u with
  | nil =>
    intro st w T C A hwb _ hs hact _ _
    cases st with
    | nil => exact ⟨hs.1, hs.2, fun i => hact i (by simp)⟩
    | cons a l => simp [wbAux] at hwb
  | cons e r ih =>
    intro st w T C A hwb hnd hs hact hstA hent
    cases e with
    | enter j =>
      simp only [wbAux, Bool.and_eq_true, Bool.not_eq_true', List.contains_eq_mem, decide_eq_false_iff_not] at hwb
      obtain ⟨hjst, hwb'⟩ := hwb
      have hAj : A j = false := hent j (by simp [flatEnters])
      have hjact : (w.journals j).active = false := by rw [hact j hjst]; exact hAj
      have hen : enter j w = some (enterRaw j w) := by simp [enter, hjact]
      simp only [runFlat, hen, Option.getD_some]
      refine ih (j :: st) (enterRaw j w) T C A hwb' (List.nodup_cons.mpr ⟨hjst, hnd⟩) ?_ ?_ ?_ ?_
      · refine ⟨w.table, by simp [enterRaw, upd], by simp [enterRaw, upd], ?_⟩
        have hp : ((enterRaw j w).journals j).previous = w.current := by simp [enterRaw, upd]
        rw [hp]
        refine Stk_congr w.journals _ st _ _ T C ?_ hs
        intro i hi
        have hij : i ≠ j := fun e => hjst (e ▸ hi)
        rw [enterRaw_other j i w hij]
        exact ⟨rfl, rfl, rfl⟩
      · intro i hi
        have hij : i ≠ j := fun e => hi (e ▸ List.mem_cons_self ..)
        rw [enterRaw_other j i w hij]
        exact hact i (fun h => hi (List.mem_cons_of_mem _ h))
      · intro i hi
        rcases List.mem_cons.mp hi with h | h
        · subst h; exact hAj
        · exact hstA i h
      · intro i hi
        exact hent i (by simp [flatEnters, hi])
    | exit j x =>
      cases st with
      | nil => simp [wbAux] at hwb
      | cons t st' =>
        simp only [wbAux, Bool.and_eq_true, beq_iff_eq] at hwb
        obtain ⟨htj, hwb'⟩ := hwb
        subst htj
        obtain ⟨tb, hcap, hactive, hs'⟩ := hs
        obtain ⟨htst, hnd'⟩ := List.nodup_cons.mp hnd
        simp only [runFlat]
        refine ih st' (exit t w) T C A hwb' hnd' ?_ ?_ ?_ ?_
        · have ht : (exit t w).table = tb := by simp [exit, hcap]
          have hc : (exit t w).current = (w.journals t).previous := by simp [exit, hcap]
          rw [ht, hc]
          refine Stk_congr w.journals _ st' _ _ T C ?_ hs'
          intro i hi
          have hij : i ≠ t := fun e => htst (e ▸ hi)
          rw [exit_other t i w hij]
          exact ⟨rfl, rfl, rfl⟩
        · intro i hi
          by_cases hij : i = t
          · subst hij
            have : ((exit i w).journals i).active = false := by simp [exit, hcap, upd]
            rw [this]
            exact (hstA i (List.mem_cons_self ..)).symm
          · rw [exit_other t i w hij]
            exact hact i (fun h => by
              rcases List.mem_cons.mp h with h | h
              · exact hij h
              · exact hi h)
        · intro i hi
          exact hstA i (List.mem_cons_of_mem _ hi)
        · intro i hi
          exact hent i (by simp [flatEnters, hi])
    | op p =>
      simp only [wbAux] at hwb
      simp only [runFlat]
      obtain ⟨ht, hc, hj⟩ := op_frame cfg fuel p w
      refine ih st _ T C A hwb hnd ?_ ?_ hstA ?_
      · rw [ht, hc]
        exact Stk_congr w.journals _ st _ _ T C (fun i _ => hj i) hs
      · intro i hi
        rw [(hj i).2.2]
        exact hact i hi
      · intro i hi
        exact hent i (by simp [flatEnters, hi])

/-- a journal that is active keeps its captured table, previous link and active flag through any
    flat word that does not exit it: its own `__enter__` is refused, nothing else writes them -/
theorem flat_frame_active (cfg : Cfg σ) (fuel : Nat) (j : Nat) : ∀ (u : List (FEv σ)) (w : World σ),
    (w.journals j).active = true → j ∉ flatExits u →
    ((runFlat cfg fuel u w).journals j).captured = (w.journals j).captured ∧
    ((runFlat cfg fuel u w).journals j).previous = (w.journals j).previous ∧
    ((runFlat cfg fuel u w).journals j).active = true := by
  intro u
  induction u with
  | nil => intro w h _; exact ⟨rfl, rfl, h⟩
  | cons e r ih =>
    intro w h hx
    cases e with
    | enter i =>
      have hx' : j ∉ flatExits r := by simpa [flatExits] using hx
      simp only [runFlat]
      cases hi : (w.journals i).active with
      | true =>
        have : enter i w = none := by simp [enter, hi]
        simp only [this, Option.getD_none]
        exact ih w h hx'
      | false =>
        have hen : enter i w = some (enterRaw i w) := by simp [enter, hi]
        have hij : j ≠ i := by intro e; subst e; rw [h] at hi; cases hi
        simp only [hen, Option.getD_some]
        have h1 := ih (enterRaw i w) (by rw [enterRaw_other i j w hij]; exact h) hx'
        rw [enterRaw_other i j w hij] at h1
        exact h1
    | exit i x =>
      have hij : j ≠ i := by intro e; apply hx; simp [flatExits, e]
      have hx' : j ∉ flatExits r := by
        intro hm; apply hx; simp [flatExits, hm]
      simp only [runFlat]
      have h1 := ih (exit i w) (by rw [exit_other i j w hij]; exact h) hx'
      rw [exit_other i j w hij] at h1
      exact h1
    | op p =>
      have hx' : j ∉ flatExits r := by simpa [flatExits] using hx
      simp only [runFlat]
      obtain ⟨_, _, hj⟩ := op_frame cfg fuel p w
      have h1 := ih _ (by rw [(hj j).2.2]; exact h) hx'
      rw [(hj j).1, (hj j).2.1] at h1
      exact h1

/-! ### captured callables -/

theorem expectedFor_inactive_calls (owner : Obj → Obj) (j : Nat) : ∀ (evs : List Ev),
    (∀ e ∈ evs, isCall e = true) → expectedFor owner j false evs = [] := by
  intro evs
  induction evs with
  | nil => intro _; rfl
  | cons e t ih =>
    intro h
    have ht := ih (fun x hx => h x (List.mem_cons_of_mem _ hx))
    have he := h e (List.mem_cons_self ..)
    cases e with
    | start k s => simpa [expectedFor] using ht
    | finish k s o => cases o <;> simpa [expectedFor] using ht
    | enter i => simp [isCall] at he
    | exit i => simp [isCall] at he

/-- a captured callable called in a world whose table is a chain table seen by journal `j` with
    `b2n act` layers: nested calls are accounted by the table that is current now, the call itself by
    the layers the captured implementation carries -/
theorem callCaptured_spec (cfg : Cfg σ) (hdet : DetailsOk cfg) (j : Nat) (act : Bool) (f k : Nat)
    (c : Captured) (hc : ChainFor k c.impl) (arg : Val) (w : World σ) (hch : Chain w.table)
    (hcnt : ∀ k, (w.table k).cnt j = b2n act) :
    (callCaptured cfg (f + 1) c arg w).1.table = w.table ∧
    ∃ evs o, (callCaptured cfg (f + 1) c arg w).1.trace =
        w.trace ++ [.start k c.self] ++ evs ++ [.finish k c.self o] ∧
      (∀ e ∈ evs, isCall e = true) ∧
      isRet (callCaptured cfg (f + 1) c arg w).2 = isRet o ∧
      ent j (callCaptured cfg (f + 1) c arg w).1 =
        ent j w ++ expectedFor cfg.owner j act evs ++ post cfg.owner k c.self (c.impl.cnt j) o := by
  have hb := runOrig_bodySpec cfg j act w.table (dispatch_callSpec cfg hdet j act w.table hch hcnt f)
  exact runImpl_spec cfg hdet j act w.table hb k c.impl hc c.self arg w rfl

/-! ### the guarded wrappers (repo commit 1a1144b, finding D471) -/

/-- a guarded wrapper whose journal is ACTIVE behaves exactly like the unguarded one: in a world where every layer
    of the chain belongs to an active journal (that is the case for everything reachable through the class table of
    a properly nested history), `runImplGuarded = runImpl` -/
theorem runImplGuarded_eq_of_active (cfg : Cfg σ)
    {body : Nat → Obj → Val → World σ → World σ × Outcome}
    (hb : ∀ k s a w, SameCtl w (body k s a w).1) :
    ∀ (impl : Impl) (s : Obj) (a : Val) (w : World σ), (∀ j ∈ impl.layers, (w.journals j).active = true) →
      runImplGuarded cfg body impl s a w = runImpl cfg body impl s a w := by
  intro impl
  induction impl with
  | orig k => intro s a w _; rfl
  | wrap j k inner ih =>
    intro s a w hact
    have hj : (w.journals j).active = true := hact j (by simp [Impl.layers])
    have hin : ∀ i ∈ inner.layers, (w.journals i).active = true :=
      fun i hi => hact i (by simp [Impl.layers, hi])
    cases hk : kindOf k
    · -- init: the flag is read after the original returned; no instrumented call changes it
      simp only [runImplGuarded, runImpl, hk]
      rw [ih s a w hin]
      have hfr : SameCtl w (runImpl cfg body inner s a w).1 :=
        runImpl_stable (sameCtl_stable w) cfg (fun k s a w' h => by
          have h2 := hb k s a w'
          exact ⟨h2.table.trans h.table, h2.current.trans h.current, fun i => (h2.captured i).trans (h.captured i),
            fun i => (h2.previous i).trans (h.previous i), fun i => (h2.active i).trans (h.active i),
            h2.log.trans h.log⟩) inner s a w (SameCtl.refl w)
      have : ((runImpl cfg body inner s a w).1.journals j).active = true := by rw [hfr.active j]; exact hj
      simp [this]
    all_goals
      simp only [runImplGuarded, runImpl, hk, hj]
      simp only [Bool.not_true, Bool.false_eq_true, if_false]
      split
      · rfl
      · next s' _ => rw [ih s a { w with ir := s' } hin]

/-- a guarded wrapper chain all of whose journals are INACTIVE is a pass-through: the original runs on the same
    world (no `details` evaluation, no entry), and constructors / setters still return None -/
theorem runImplGuarded_inactive (cfg : Cfg σ)
    {body : Nat → Obj → Val → World σ → World σ × Outcome}
    (hb : ∀ k s a w, SameCtl w (body k s a w).1) :
    ∀ (impl : Impl) (s : Obj) (a : Val) (w : World σ), (∀ j ∈ impl.layers, (w.journals j).active = false) →
      (runImplGuarded cfg body impl s a w).1 = (body impl.base s a w).1 ∧
      isRet (runImplGuarded cfg body impl s a w).2 = isRet (body impl.base s a w).2 := by
  intro impl
  induction impl with
  | orig k => intro s a w _; exact ⟨rfl, rfl⟩
  | wrap j k inner ih =>
    intro s a w hact
    have hj : (w.journals j).active = false := hact j (by simp [Impl.layers])
    have hin : ∀ i ∈ inner.layers, (w.journals i).active = false :=
      fun i hi => hact i (by simp [Impl.layers, hi])
    obtain ⟨h1, h2⟩ := ih s a w hin
    cases hk : kindOf k
    · simp only [runImplGuarded, hk, Impl.base]
      have hfr : SameCtl w (body inner.base s a w).1 := hb _ s a w
      have hact' : ((runImplGuarded cfg body inner s a w).1.journals j).active = false := by
        rw [h1, hfr.active j]; exact hj
      split
      · next v hv =>
        simp only [hact', Bool.not_false, if_true]
        exact ⟨h1, by rw [← h2, hv]; rfl⟩
      · next e he => exact ⟨h1, by rw [← h2, he]⟩
    all_goals
      simp only [runImplGuarded, hk, hj, Bool.not_false, if_true, Impl.base]
      refine ⟨h1, ?_⟩
      rw [← h2]
      cases (runImplGuarded cfg body inner s a w).2 <;> rfl

end IrVerif.Journal

/-
C14 (wave 5): CSE / LiftConstants / LiftSubgraphInitializers / Deduplicate as kernel programs keep C01's invariant
and are the replay of the calls they issued.
-/
import IrVerif.Model.PassKernel2
import IrVerif.Lemmas.PassKernel
namespace IrVerif.PassKernel
open IrVerif.Kernel

/-- folds whose state carries more than the pass state -/
theorem foldl_kinvP {σ β : Type} (w0 : World) (pr : σ → KSt) (f : σ → β → σ)
    (hf : ∀ s b, KInv w0 (pr s) → KInv w0 (pr (f s b))) :
    ∀ (l : List β) (s : σ), KInv w0 (pr s) → KInv w0 (pr (l.foldl f s))
  | [], _, h => h
  | b :: l, s, h => foldl_kinvP w0 pr f hf l (f s b) (hf s b h)

/-! ## CSE -/

theorem cseOutputsK_inv (w0 : World) (s : KSt) (g n : Nat) (rvs nvs : List Nat) (h : KInv w0 s) :
    KInv w0 (cseOutputsK s g n rvs nvs) := by
  unfold cseOutputsK
  refine foldl_kinvP w0 (fun p : KSt × List (Nat × Nat) => p.1) _ (fun p io hp => ?_) _ _ h
  dsimp only at hp ⊢
  split
  · exact hp
  · split
    · exact hp.call _
    · split
      · exact hp
      · split
        · exact (((hp.call _).call _).call _).call _
        · exact (hp.call _).call _

theorem cseReplaceK_inv (w0 : World) (exact : Bool) (s : KSt) (g n : Nat) (rvs nvs : List Nat) (h : KInv w0 s) :
    KInv w0 (cseReplaceK exact s g n rvs nvs) := by
  unfold cseReplaceK
  refine KInv.call (KInv.call ?_ _) _
  split
  · exact cseOutputsK_inv w0 s g n rvs nvs h
  · exact h

theorem cseStepK_inv (w0 : World) (exact : Bool) (akey : Nat → Option Nat) (g : Nat) (p : KSt × CseDict × Bool) (n : Nat)
    (h : KInv w0 p.1) : KInv w0 (cseStepK exact akey g p n).1 := by
  unfold cseStepK
  split
  · exact h
  · split
    · exact h
    · split
      · exact h
      · dsimp only
        split
        · exact cseReplaceK_inv w0 exact p.1 g n _ _ h
        · exact h

theorem cseModelK_inv (exact : Bool) (akey : Nat → Option Nat) (w : World) (g : Nat) (h : WF w) :
    KInv w (cseModelK exact akey w g).1 := by
  have h0 : KInv w ⟨w, false, []⟩ := ⟨h, rfl⟩
  simp only [cseModelK]
  exact foldl_kinvP w (fun p : KSt × CseDict × Bool => p.1) _ (fun p n hp => cseStepK_inv w exact akey g p n hp) _ _ h0

/-! ## LiftConstants -/

theorem lcNodeK_inv (w0 : World) (liftAll : Bool) (big tnamed : Nat → Bool) (p : KSt × Nat) (n : Nat)
    (h : KInv w0 p.1) : KInv w0 (lcNodeK liftAll big tnamed p n).1 := by
  unfold lcNodeK
  split
  · exact h
  · split
    · exact h.fail
    · split
      · exact h
      · split
        · exact h.fail
        · split
          · exact h
          · split
            · split
              · exact h.fail
              · split
                · exact h.fail
                · exact h
                · split
                  · exact h
                  · dsimp only
                    refine KInv.call (KInv.call (KInv.call ?_ _) _) _
                    split
                    · exact ((h.call _).call _).call _
                    · exact (h.call _).call _
            · exact h

theorem lcGraphK_inv (w0 : World) (liftAll : Bool) (big tnamed : Nat → Bool) :
    ∀ (fuel : Nat) (p : KSt × Nat) (g : Nat), KInv w0 p.1 → KInv w0 (lcGraphK liftAll big tnamed fuel p g).1
  | 0, _, _, h => h
  | fuel + 1, p, g, h => by
    simp only [lcGraphK]
    refine foldl_kinvP w0 (fun p : KSt × Nat => p.1) _ (fun p n hp => ?_) _ p h
    refine foldl_kinvP w0 (fun p : KSt × Nat => p.1) _ (fun p a hp => ?_) _ _ (lcNodeK_inv w0 liftAll big tnamed p n hp)
    exact foldl_kinvP w0 (fun p : KSt × Nat => p.1) _
      (fun p sub hp => lcGraphK_inv w0 liftAll big tnamed fuel p sub hp) _ p hp

theorem lcModelK_inv (liftAll : Bool) (big tnamed : Nat → Bool) (fuel : Nat) (w : World) (g : Nat) (h : WF w) :
    KInv w (lcModelK liftAll big tnamed fuel w g).1 :=
  lcGraphK_inv w liftAll big tnamed fuel _ g ⟨h, rfl⟩

/-! ## LiftSubgraphInitializers -/

theorem lsiInitK_inv (w0 : World) (main g : Nat) (outN inN : List String) (p : KSt × List (String × Nat) × Nat)
    (key : String) (h : KInv w0 p.1) : KInv w0 (lsiInitK main g outN inN p key).1 := by
  unfold lsiInitK
  split
  · exact h
  · split
    · exact h.fail
    · split
      · exact h
      · split
        · exact h
        · dsimp only
          split
          · exact (h.call _).fail
          · exact ((h.call _).call _).call _

theorem lsiModelK_inv (fuel : Nat) (w : World) (g : Nat) (h : WF w) : KInv w (lsiModelK fuel w g).1 := by
  have h0 : KInv w ⟨w, false, []⟩ := ⟨h, rfl⟩
  simp only [lsiModelK]
  refine foldl_kinvP w (fun p : KSt × List (String × Nat) × Nat => p.1) _ (fun p sub hp => ?_) _ _ h0
  exact foldl_kinvP w (fun p : KSt × List (String × Nat) × Nat => p.1) _
    (fun p key hp => lsiInitK_inv w g sub _ _ p key hp) _ p hp

/-! ## Deduplicate -/

theorem ddInitK_inv (w0 : World) (hkey tkey : Nat → Option Nat) (g : Nat) (p : KSt × List (Nat × Nat) × Bool) (v : Nat)
    (h : KInv w0 p.1) : KInv w0 (ddInitK hkey tkey g p v).1 := by
  unfold ddInitK
  split
  · exact h
  · split
    · exact h
    · split
      · exact h
      · split
        · exact h
        · split
          · exact h
          · split
            · exact h
            · dsimp only
              split
              · exact (h.call _).fail
              · exact (h.call _).call _

theorem ddGraphK_inv (w0 : World) (hkey tkey : Nat → Option Nat) (p : KSt × Bool) (g : Nat) (h : KInv w0 p.1) :
    KInv w0 (ddGraphK hkey tkey p g).1 := by
  simp only [ddGraphK]
  exact foldl_kinvP w0 (fun p : KSt × List (Nat × Nat) × Bool => p.1) _
    (fun p v hp => ddInitK_inv w0 hkey tkey g p v hp) _ _ h

theorem ddModelK_inv (hkey tkey : Nat → Option Nat) (fuel : Nat) (w : World) (g : Nat) (h : WF w) :
    KInv w (ddModelK hkey tkey fuel w g).1 := by
  have h0 : KInv w ⟨w, false, []⟩ := ⟨h, rfl⟩
  simp only [ddModelK]
  exact foldl_kinvP w (fun p : KSt × Bool => p.1) _ (fun p sub hp => ddGraphK_inv w hkey tkey p sub hp) _ _
    (ddGraphK_inv w hkey tkey _ g h0)

end IrVerif.PassKernel

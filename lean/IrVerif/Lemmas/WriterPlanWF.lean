/-
C09: the configuration `planSingle` (single-file parallel writer) built from the arguments of a save is
well formed (`WF`), so that the C09 theorems apply to it with no hypothesis about the configuration.
-/
import IrVerif.Lemmas.WriterLayout
namespace IrVerif.WriterN
open IrVerif.Layout (Info computeInfos computeInfosFrom)

theorem placeZip_length (file : Nat) (jobOf : Nat → Nat) : ∀ (infs : List Info) (sh : List TSpec) (k : Nat),
    infs.length = sh.length → (placeZip file jobOf k infs sh).length = sh.length
  | [], [], _, _ => rfl
  | [], _ :: _, _, h => by simp at h
  | _ :: _, [], _, h => by simp at h
  | _ :: infs, _ :: sh, k, h => by
      simp only [placeZip, List.length_cons]
      rw [placeZip_length file jobOf infs sh (k + 1) (by simpa using h)]

theorem placeFile_length (al : Option Nat) (athr : Nat) (file : Nat) (jobOf : Nat → Nat) (sh : List TSpec) :
    (placeFile al athr file jobOf sh).length = sh.length := by
  apply placeZip_length
  simp [fileInfos, computeInfos, Layout.computeInfosFrom_length]

theorem placeZip_get (file : Nat) (jobOf : Nat → Nat) :
    ∀ (infs : List Info) (sh : List TSpec) (k i : Nat) (t : Tensor),
      (placeZip file jobOf k infs sh)[i]? = some t →
        t.job = jobOf (k + i) ∧ ∃ x, sh[i]? = some x ∧ t.obj = x.obj
  | [], _, _, _, _, h => by simp [placeZip] at h
  | _ :: _, [], _, _, _, h => by simp [placeZip] at h
  | inf :: infs, x :: sh, k, 0, t, h => by
      simp only [placeZip, List.getElem?_cons_zero, Option.some.injEq] at h
      subst h; exact ⟨rfl, x, rfl, rfl⟩
  | inf :: infs, x :: sh, k, i + 1, t, h => by
      simp only [placeZip, List.getElem?_cons_succ] at h
      obtain ⟨h1, y, h2, h3⟩ := placeZip_get file jobOf infs sh (k + 1) i t h
      refine ⟨by rw [h1]; congr 1; omega, y, by simpa using h2, h3⟩

theorem obj_lt_nObjsOf : ∀ (ts : List TSpec) (x : TSpec), x ∈ ts → x.obj < nObjsOf ts
  | [], _, h => by simp at h
  | t :: ts, x, h => by
      simp only [nObjsOf, List.foldr_cons]
      rcases List.mem_cons.1 h with rfl | h
      · omega
      · have := obj_lt_nObjsOf ts x h
        simp only [nObjsOf] at this; omega

section single
variable (ts : List TSpec) (al : Option Nat) (athr workers capacity : Nat)

theorem single_n : (planSingle ts al athr workers capacity).n = ts.length := by
  simp [Cfg.n, planSingle, placeFile_length]

theorem single_nJobs : (planSingle ts al athr workers capacity).nJobs = ts.length := by
  simp [Cfg.nJobs, planSingle]

theorem single_pool0 : (planSingle ts al athr workers capacity).pool 0 =
    ⟨workers, true, List.range ts.length, false, none⟩ := by
  simp [Cfg.pool, planSingle]

theorem single_pool_succ (q : Nat) : (planSingle ts al athr workers capacity).pool (q + 1) = default := by
  simp [Cfg.pool, planSingle]

theorem single_jobc {j : Nat} (hj : j < ts.length) :
    (planSingle ts al athr workers capacity).jobc j = ⟨0, j, none⟩ := by
  simp [Cfg.jobc, planSingle, List.getD_eq_getElem?_getD, List.getElem?_map, List.getElem?_range hj]

theorem single_tensor {i : Nat} (hi : i < ts.length) :
    (planSingle ts al athr workers capacity).job i = i ∧
    (planSingle ts al athr workers capacity).obj i < nObjsOf ts := by
  have hlen : i < (placeFile al athr 0 (fun k => k) ts).length := by rw [placeFile_length]; exact hi
  have hget : (placeFile al athr 0 (fun k => k) ts)[i]? = some (placeFile al athr 0 (fun k => k) ts)[i] :=
    List.getElem?_eq_getElem hlen
  obtain ⟨h1, x, h2, h3⟩ := placeZip_get 0 (fun k => k) _ ts 0 i _ hget
  have hd : (planSingle ts al athr workers capacity).tensors.getD i default =
      (placeFile al athr 0 (fun k => k) ts)[i] := by
    simp [planSingle, List.getD_eq_getElem?_getD, hget]
  refine ⟨?_, ?_⟩
  · simp only [Cfg.job, hd, h1]; omega
  · show ((planSingle ts al athr workers capacity).tensors.getD i default).obj < nObjsOf ts
    rw [hd, h3]
    exact obj_lt_nObjsOf ts x (List.mem_of_getElem? h2)

/-- the single-file parallel writer's configuration is well formed whenever the writer is used
    (`max_workers > 1 and len(tensors) > 1`; only positivity is needed) -/
theorem planSingle_wf (hw : 0 < workers) (hn : 0 < ts.length) :
    WF (planSingle ts al athr workers capacity) := by
  have hP : (planSingle ts al athr workers capacity).nPools = 1 := by simp [Cfg.nPools, planSingle]
  have hN := single_n ts al athr workers capacity
  have hJ := single_nJobs ts al athr workers capacity
  have h0 := single_pool0 ts al athr workers capacity
  refine ⟨by omega, by rw [h0], ?_, ?_, ?_, ?_, ?_, ?_, ?_, ?_, ?_, ?_, ?_, ?_, ?_, ?_, ?_⟩
  · intro q hq hne; omega
  · intro q hq
    have : q = 0 := by omega
    subst this; rw [h0]; exact hw
  · intro q hq
    have : q = 0 := by omega
    subst this; rw [h0]; simpa using hn
  · intro q
    cases q with
    | zero => rw [h0]; exact List.nodup_range
    | succ q => rw [single_pool_succ]; exact List.nodup_nil
  · intro q j hj
    cases q with
    | zero =>
        rw [h0] at hj
        have hjl : j < ts.length := by simpa using hj
        rw [single_jobc ts al athr workers capacity hjl]
        exact ⟨by omega, rfl, by omega⟩
    | succ q => rw [single_pool_succ] at hj; simp [show (default : PoolCfg).jobs = [] from rfl] at hj
  · intro j hj
    have hjl : j < ts.length := by omega
    rw [single_jobc ts al athr workers capacity hjl, h0]
    simpa using hjl
  · intro j hj _
    have hjl : j < ts.length := by omega
    rw [single_jobc ts al athr workers capacity hjl]; show j < _; omega
  · intro j hj _
    have hjl : j < ts.length := by omega
    rw [single_jobc ts al athr workers capacity hjl]
    exact (single_tensor ts al athr workers capacity hjl).1
  · intro j i hj _ hi
    have hjl : j < ts.length := by omega
    rw [single_jobc ts al athr workers capacity hjl] at hi
    have hil : i < ts.length := by simp only at hi; omega
    rw [(single_tensor ts al athr workers capacity hil).1]
    simp only at hi; omega
  · intro i hi
    have hil : i < ts.length := by omega
    rw [(single_tensor ts al athr workers capacity hil).1]; omega
  · intro i hi
    have hil : i < ts.length := by omega
    rw [(single_tensor ts al athr workers capacity hil).1, single_jobc ts al athr workers capacity hil]
  · intro i hi
    have hil : i < ts.length := by omega
    simp only [planSingle] at *
    exact (single_tensor ts al athr workers capacity hil).2
  · intro i k hik hk e
    have hkl : k < ts.length := by omega
    have hil : i < ts.length := by omega
    rw [(single_tensor ts al athr workers capacity hkl).1,
      (single_tensor ts al athr workers capacity hil).1] at e
    omega
  · intro j q' hj hs
    have hjl : j < ts.length := by omega
    rw [single_jobc ts al athr workers capacity hjl] at hs; simp at hs
  · intro q jp hq hp
    have : q = 0 := by omega
    subst this; rw [h0] at hp; simp at hp

end single

end IrVerif.WriterN

/-
C09 helper development (general model): budget / callback locks / tensor locks invariant `LInv`.
-/
import IrVerif.Lemmas.WriterNInv
namespace IrVerif.WriterN

def holds : Pc → Bool
  | .write | .bRel _ => true
  | _ => false

/-- inside `with tensor lock` — the callback (and its locks) included -/
def inT : Pc → Bool
  | .cbAcqIn | .cbAcq | .cbBody | .bAcq | .waiting | .woken | .write | .bRel _ => true
  | _ => false

/-- holding the inner writer's callback lock -/
def inIn : Pc → Bool
  | .cbAcq | .cbBody => true
  | _ => false

def fReg (cfg : Cfg) (i : Nat) (p : Pc) : Nat :=
  if holds p = true ∧ cfg.size i ≤ cfg.capacity then cfg.size i else 0
def fOver (cfg : Cfg) (i : Nat) (p : Pc) : Nat :=
  if holds p = true ∧ cfg.size i > cfg.capacity then 1 else 0
def fCb (_ : Nat) (p : Pc) : Nat := if p = .cbBody then 1 else 0
def fT (cfg : Cfg) (o : Nat) (i : Nat) (p : Pc) : Nat :=
  if inT p = true ∧ cfg.obj i = o then 1 else 0
def fIn (cfg : Cfg) (q : Nat) (i : Nat) (p : Pc) : Nat :=
  if inIn p = true ∧ (cfg.pool (cfg.poolOf i)).innerCb = true ∧ cfg.poolOf i = q then 1 else 0

structure Quiet (cfg : Cfg) (f : Nat → Pc → Nat) : Prop where
  ns : ∀ i, f i .notStarted = 0
  fp : ∀ i, f i (firstPc cfg (cfg.poolOf i)) = 0
  dn : ∀ i b, f i (.done b) = 0
  wk : ∀ i p, f i (wake p) = f i p

theorem quiet_fReg (cfg : Cfg) : Quiet cfg (fReg cfg) :=
  ⟨by simp [fReg, holds], by intro i; simp [firstPc, fReg, holds], by simp [fReg, holds],
   by intro i p; cases p <;> simp [fReg, holds, wake]⟩
theorem quiet_fOver (cfg : Cfg) : Quiet cfg (fOver cfg) :=
  ⟨by simp [fOver, holds], by intro i; simp [firstPc, fOver, holds], by simp [fOver, holds],
   by intro i p; cases p <;> simp [fOver, holds, wake]⟩
theorem quiet_fCb (cfg : Cfg) : Quiet cfg fCb :=
  ⟨by simp [fCb], by intro i; simp [firstPc, fCb], by simp [fCb],
   by intro i p; cases p <;> simp [fCb, wake]⟩
theorem quiet_fT (cfg : Cfg) (o : Nat) : Quiet cfg (fT cfg o) :=
  ⟨by simp [fT, inT], by intro i; simp [firstPc, fT, inT], by simp [fT, inT],
   by intro i p; cases p <;> simp [fT, inT, wake]⟩
theorem quiet_fIn (cfg : Cfg) (q : Nat) : Quiet cfg (fIn cfg q) :=
  ⟨by simp [fIn, inIn], by intro i; simp [firstPc, fIn, inIn],
   by simp [fIn, inIn], by intro i p; cases p <;> simp [fIn, inIn, wake]⟩

theorem poolOf_next {cfg : Cfg} {i : Nat} (hn : cfg.hasNext i = true) :
    cfg.poolOf (i + 1) = cfg.poolOf i := by
  unfold Cfg.poolOf; rw [(hasNext_iff.1 hn).2]

theorem wsum_finish {cfg : Cfg} {f : Nat → Pc → Nat} (qf : Quiet cfg f) {s : State} (h : SInv cfg s)
    {i : Nat} {p : Pc} (ok : Bool) (hi : s.tasks[i]? = some p) (hpd : p ≠ .done true) :
    wsum f 0 (finishTask cfg s i ok).tasks + f i p = wsum f 0 s.tasks := by
  have hlt := getElem?_lt hi
  rcases finishTask_cases cfg s i ok with ⟨rfl, hn, e⟩ | ⟨_, e⟩
  · rw [e]
    have hnext := h.next_notStarted hi hpd hn
    have h1 := wsum_set0 f s.tasks i p (.done true) hi
    have h2 := wsum_set0 f (s.tasks.set i (.done true)) (i + 1) .notStarted
      (firstPc cfg (cfg.poolOf i)) (by simp only [List.getElem?_set]; simp; exact hnext)
    have h3 := qf.fp (i + 1)
    rw [poolOf_next hn] at h3
    simp only [qf.ns, qf.dn, h3] at h1 h2 ⊢
    omega
  · rw [e]
    have h1 := wsum_set0 f s.tasks i p (.done ok) hi
    simp only [qf.dn] at h1 ⊢
    omega

theorem wsum_take {cfg : Cfg} {f : Nat → Pc → Nat} (qf : Quiet cfg f) (wf : WF cfg) {s : State}
    (h : SInv cfg s) {q j : Nat} (hj : j ∈ (s.pl q).queue) (hsub : (cfg.jobc j).sub = none) :
    wsum f 0 (s.tasks.set (cfg.jobc j).start (firstPc cfg q)) = wsum f 0 s.tasks := by
  have hst := h.start_notStarted wf hj hsub
  have hpj := h.q_pending q j hj
  have hjl : j < cfg.nJobs := by rw [← h.futs_len]; exact getElem?_lt hpj.1
  have hpo : cfg.poolOf (cfg.jobc j).start = q := by
    unfold Cfg.poolOf; rw [wf.start_job j hjl hsub]; exact hpj.2
  have := wsum_set0 f s.tasks _ .notStarted (firstPc cfg q) hst
  have h3 := qf.fp (cfg.jobc j).start
  rw [hpo] at h3
  simp only [qf.ns, h3] at this
  omega

theorem wsum_wake {cfg : Cfg} {f : Nat → Pc → Nat} (qf : Quiet cfg f) (l : List Pc) :
    wsum f 0 (l.map wake) = wsum f 0 l := wsum_map f wake qf.wk l 0

structure LInv (cfg : Cfg) (s : State) : Prop where
  reg : s.inFlight = wsum (fReg cfg) 0 s.tasks
  over : (if s.oversized then 1 else 0) = wsum (fOver cfg) 0 s.tasks
  le : s.inFlight ≤ cfg.capacity
  cb : (if s.cbLock then 1 else 0) = wsum fCb 0 s.tasks
  tl : ∀ o, o < cfg.nObjs → (if s.tLocks.getD o false then 1 else 0) = wsum (fT cfg o) 0 s.tasks
  cin : ∀ q, q < cfg.nPools → (if s.cbIn.getD q false then 1 else 0) = wsum (fIn cfg q) 0 s.tasks
  inner : ∀ i : Nat, s.tasks[i]? = some .cbAcqIn → (cfg.pool (cfg.poolOf i)).innerCb = true

theorem LInv_init (cfg : Cfg) : LInv cfg (init cfg) := by
  refine ⟨?_, ?_, by simp [init], ?_, ?_, ?_, ?_⟩
  · simp [init]; rw [wsum_replicate]; exact (quiet_fReg cfg).ns
  · simp [init]; rw [wsum_replicate]; exact (quiet_fOver cfg).ns
  · simp [init]; rw [wsum_replicate]; exact (quiet_fCb cfg).ns
  · intro o ho
    simp [init, ho]; rw [wsum_replicate]; exact (quiet_fT cfg o).ns
  · intro q hq
    simp [init, hq]; rw [wsum_replicate]; exact (quiet_fIn cfg q).ns
  · intro i hi; simp [init, List.getElem?_replicate] at hi


@[simp] theorem finishTask_inFlight (cfg : Cfg) (s : State) (i : Nat) (ok : Bool) :
    (finishTask cfg s i ok).inFlight = s.inFlight := by unfold finishTask; split <;> rfl
@[simp] theorem finishTask_oversized (cfg : Cfg) (s : State) (i : Nat) (ok : Bool) :
    (finishTask cfg s i ok).oversized = s.oversized := by unfold finishTask; split <;> rfl
@[simp] theorem finishTask_cbLock (cfg : Cfg) (s : State) (i : Nat) (ok : Bool) :
    (finishTask cfg s i ok).cbLock = s.cbLock := by unfold finishTask; split <;> rfl
@[simp] theorem finishTask_cbIn (cfg : Cfg) (s : State) (i : Nat) (ok : Bool) :
    (finishTask cfg s i ok).cbIn = s.cbIn := by unfold finishTask; split <;> rfl
@[simp] theorem finishTask_tLocks (cfg : Cfg) (s : State) (i : Nat) (ok : Bool) :
    (finishTask cfg s i ok).tLocks = s.tLocks := by unfold finishTask; split <;> rfl
@[simp] theorem finishTask_log (cfg : Cfg) (s : State) (i : Nat) (ok : Bool) :
    (finishTask cfg s i ok).log = s.log := by unfold finishTask; split <;> rfl
@[simp] theorem finishTask_files (cfg : Cfg) (s : State) (i : Nat) (ok : Bool) :
    (finishTask cfg s i ok).files = s.files := by unfold finishTask; split <;> rfl

theorem afterT_inner {cfg : Cfg} {q : Nat} (h : afterT cfg q = .cbAcqIn) :
    (cfg.pool q).innerCb = true := by
  unfold afterT at h; split at h
  · assumption
  · simp at h

theorem firstPc_ne_cbAcqIn (cfg : Cfg) (q : Nat) : firstPc cfg q ≠ .cbAcqIn := by simp [firstPc]

theorem getD_set_bool (l : List Bool) (i o : Nat) (b : Bool) (hi : i < l.length) :
    (l.set i b).getD o false = if o = i then b else l.getD o false := by
  simp only [List.getD_eq_getElem?_getD, List.getElem?_set]
  by_cases h : i = o
  · subst h; simp [hi]
  · have : ¬ o = i := fun e => h e.symm
    simp [h, this]

/-- generic step: for every quiet weight the sum changes as if task `i` went from `p` to `x` -/
theorem LInv_gen {cfg : Cfg} {s s' : State} (hl : LInv cfg s) {i : Nat} {p x : Pc}
    (hw : ∀ f, Quiet cfg f → wsum f 0 s'.tasks + f i p = wsum f 0 s.tasks + f i x)
    (hreg : s'.inFlight + fReg cfg i p = s.inFlight + fReg cfg i x)
    (hle : s'.inFlight ≤ cfg.capacity)
    (hover : (if s'.oversized then 1 else 0) + fOver cfg i p = (if s.oversized then 1 else 0) + fOver cfg i x)
    (hcb : (if s'.cbLock then 1 else 0) + fCb i p = (if s.cbLock then 1 else 0) + fCb i x)
    (htl : ∀ o, o < cfg.nObjs → (if s'.tLocks.getD o false then 1 else 0) + fT cfg o i p
        = (if s.tLocks.getD o false then 1 else 0) + fT cfg o i x)
    (hcin : ∀ q, q < cfg.nPools → (if s'.cbIn.getD q false then 1 else 0) + fIn cfg q i p
        = (if s.cbIn.getD q false then 1 else 0) + fIn cfg q i x)
    (hin : ∀ k : Nat, s'.tasks[k]? = some .cbAcqIn → (cfg.pool (cfg.poolOf k)).innerCb = true) :
    LInv cfg s' := by
  refine ⟨?_, ?_, hle, ?_, ?_, ?_, hin⟩
  · have := hw (fReg cfg) (quiet_fReg cfg); have := hl.reg; omega
  · have := hw (fOver cfg) (quiet_fOver cfg); have := hl.over; omega
  · have := hw fCb (quiet_fCb cfg); have := hl.cb; omega
  · intro o ho
    have := hw (fT cfg o) (quiet_fT cfg o); have := hl.tl o ho; have := htl o ho; omega
  · intro q hq
    have := hw (fIn cfg q) (quiet_fIn cfg q); have := hl.cin q hq; have := hcin q hq; omega

theorem set_cbAcqIn {l : List Pc} {i k : Nat} {x : Pc} (hx : x ≠ .cbAcqIn)
    (h : (l.set i x)[k]? = some .cbAcqIn) : l[k]? = some .cbAcqIn := by
  simp only [List.getElem?_set] at h
  (repeat' split at h) <;> simp_all

theorem finishTask_cbAcqIn {cfg : Cfg} {s : State} {i k : Nat} {ok : Bool}
    (h : (finishTask cfg s i ok).tasks[k]? = some .cbAcqIn) : s.tasks[k]? = some .cbAcqIn := by
  rcases finishTask_cases cfg s i ok with ⟨_, hn, e⟩ | ⟨_, e⟩ <;> rw [e] at h
  · exact set_cbAcqIn (by simp) (set_cbAcqIn (firstPc_ne_cbAcqIn _ _) h)
  · exact set_cbAcqIn (by simp) h

theorem LInv.inner_finish {cfg : Cfg} {s s0 : State} (hl : LInv cfg s)
    (h0 : ∀ k : Nat, s0.tasks[k]? = some .cbAcqIn → s.tasks[k]? = some .cbAcqIn) (i : Nat) (ok : Bool) :
    ∀ k : Nat, (finishTask cfg s0 i ok).tasks[k]? = some .cbAcqIn →
      (cfg.pool (cfg.poolOf k)).innerCb = true :=
  fun k hk => hl.inner k (h0 k (finishTask_cbAcqIn hk))

theorem WF.poolOf_lt {cfg : Cfg} (wf : WF cfg) {i : Nat} (hi : i < cfg.n) : cfg.poolOf i < cfg.nPools := by
  have hj := wf.job_lt i hi
  exact (wf.job_pool _ _ (wf.pool_job _ hj)).2.2

theorem LInv_step {cfg : Cfg} (wf : WF cfg) {s s' : State} {l : Label} (hs : SInv cfg s)
    (hl : LInv cfg s) (h : StepRel cfg s l s') : LInv cfg s' := by
  have keepIn : ∀ {i : Nat} {x : Pc}, x ≠ .cbAcqIn → ∀ k : Nat, (s.tasks.set i x)[k]? = some .cbAcqIn →
      (cfg.pool (cfg.poolOf k)).innerCb = true :=
    fun hx k hk => hl.inner k (set_cbAcqIn hx hk)
  cases h with
  | submit q c k j P hP hk hj => exact ⟨hl.reg, hl.over, hl.le, hl.cb, hl.tl, hl.cin, hl.inner⟩
  | collect q c j ok P hP hm hj hf =>
      unfold collectOne
      cases ok
      · simp only [Bool.false_eq_true, if_false]
        split <;> exact ⟨hl.reg, hl.over, hl.le, hl.cb, hl.tl, hl.cin, hl.inner⟩
      · simp only [if_true]; split <;> exact ⟨hl.reg, hl.over, hl.le, hl.cb, hl.tl, hl.cin, hl.inner⟩
  | joinRoot q c e P hP hm hex hpar => exact ⟨hl.reg, hl.over, hl.le, hl.cb, hl.tl, hl.cin, hl.inner⟩
  | joinSub q c e P jp hP hm hex hpar => exact ⟨hl.reg, hl.over, hl.le, hl.cb, hl.tl, hl.cin, hl.inner⟩
  | takeSerial q j rest P hP hq hidle hsub =>
      have hj : j ∈ (s.pl q).queue := by rw [pl_of_get hP, hq]; simp
      have hpj := hs.q_pending q j hj
      have hjl : j < cfg.nJobs := by rw [← hs.futs_len]; exact getElem?_lt hpj.1
      have hpo : cfg.poolOf (cfg.jobc j).start = q := by
        unfold Cfg.poolOf; rw [wf.start_job j hjl hsub]; exact hpj.2
      refine LInv_gen (i := 0) (p := .notStarted) (x := .notStarted) hl
        (fun f qf => by
          have := wsum_take qf wf hs hj hsub
          show wsum f 0 (s.tasks.set _ _) + _ = _
          omega) rfl hl.le rfl rfl (fun _ _ => rfl) (fun _ _ => rfl) ?_
      intro k hk
      exact hl.inner k (set_cbAcqIn (firstPc_ne_cbAcqIn _ _) hk)
  | takeSub q j rest P q' hP hq hidle hsub =>
      exact ⟨hl.reg, hl.over, hl.le, hl.cb, hl.tl, hl.cin, hl.inner⟩
  | exit q P hP hq hsd hidle => exact ⟨hl.reg, hl.over, hl.le, hl.cb, hl.tl, hl.cin, hl.inner⟩
  | cbAcqIn i hi hlk =>
      have hil : i < cfg.n := by rw [← hs.tasks_len]; exact getElem?_lt hi
      have hpl : cfg.poolOf i < s.cbIn.length := by rw [hs.cbin_len]; exact wf.poolOf_lt hil
      have hinn := hl.inner i hi
      refine LInv_gen (i := i) (p := .cbAcqIn) (x := .cbAcq) hl
        (fun f _ => wsum_set0 f s.tasks i _ _ hi) (by simp [fReg, holds]) hl.le
        (by simp [fOver, holds]) (by simp [fCb]) (fun o _ => by simp [fT, inT]) (fun q _ => ?_)
        (keepIn (by simp))
      simp only [getD_set_bool _ _ _ _ hpl, fIn, inIn, hinn]
      by_cases hq : q = cfg.poolOf i
      · subst hq; simp only [List.getD_eq_getElem?_getD] at hlk; simp [hlk]
      · have : ¬ cfg.poolOf i = q := fun e => hq e.symm
        simp [hq, this]
  | cbAcq i hi hlk =>
      refine LInv_gen (i := i) (p := .cbAcq) (x := .cbBody) hl
        (fun f _ => wsum_set0 f s.tasks i _ _ hi) (by simp [fReg, holds]) hl.le
        (by simp [fOver, holds]) (by simp [fCb, hlk]) (fun o _ => by simp [fT, inT])
        (fun q _ => by simp [fIn, inIn]) (keepIn (by simp))
  | cbFail i hi hf =>
      have hcb := hl.cb
      have hge := wsum_ge0 fCb s.tasks i _ hi
      have hil : i < cfg.n := by rw [← hs.tasks_len]; exact getElem?_lt hi
      have hpl : cfg.poolOf i < s.cbIn.length := by rw [hs.cbin_len]; exact wf.poolOf_lt hil
      have hol : cfg.obj i < s.tLocks.length := by rw [hs.locks_len]; exact wf.obj_lt i hil
      have hgeI := wsum_ge0 (fIn cfg (cfg.poolOf i)) s.tasks i _ hi
      have hcinI := hl.cin (cfg.poolOf i) (wf.poolOf_lt hil)
      have hgeT := wsum_ge0 (fT cfg (cfg.obj i)) s.tasks i _ hi
      have htl := hl.tl (cfg.obj i) (wf.obj_lt i hil)
      refine LInv_gen (i := i) (p := .cbBody) (x := .done false) hl
        (fun f qf => by
          have := wsum_finish qf (s := { s with log := s.log ++ [i], cbLock := false
                                                cbIn := if (cfg.pool (cfg.poolOf i)).innerCb
                                                  then s.cbIn.set (cfg.poolOf i) false else s.cbIn
                                                tLocks := s.tLocks.set (cfg.obj i) false })
            (SInv_congr hs rfl rfl (by simp) rfl (by simp only; split <;> simp) (fun _ => rfl) (fun _ => rfl))
            false hi (by simp)
          simp only [qf.dn]; exact this)
        (by simp [fReg, holds]) (by simpa using hl.le) (by simp [fOver, holds]) ?_
        (fun o _ => ?_) (fun q _ => ?_)
        (hl.inner_finish (fun k hk => hk) i false)
      · cases hc : s.cbLock <;> simp [fCb, hc] at hcb hge ⊢
        omega
      · simp only [finishTask_tLocks, getD_set_bool _ _ _ _ hol, fT, inT]
        by_cases ho : o = cfg.obj i
        · subst ho
          simp [fT, inT] at hgeT
          simp only [List.getD_eq_getElem?_getD] at htl
          cases hlk : s.tLocks[cfg.obj i]?.getD false <;> simp [hlk] at htl ⊢ <;> omega
        · have : ¬ cfg.obj i = o := fun e => ho e.symm
          simp [ho, this]
      · simp only [finishTask_cbIn]
        cases hinn : (cfg.pool (cfg.poolOf i)).innerCb
        · simp [fIn, inIn, hinn]
        · simp only [if_true, getD_set_bool _ _ _ _ hpl, fIn, inIn, hinn]
          by_cases hq : q = cfg.poolOf i
          · subst hq
            simp only [fIn, inIn, hinn] at hgeI
            simp only [List.getD_eq_getElem?_getD] at hcinI ⊢
            cases hc : s.cbIn[cfg.poolOf i]?.getD false <;> simp [hc] at hcinI hgeI ⊢
            omega
          · have : ¬ cfg.poolOf i = q := fun e => hq e.symm
            simp [hq, this]
  | cbOk i hi hf =>
      have hcb := hl.cb
      have hge := wsum_ge0 fCb s.tasks i _ hi
      have hil : i < cfg.n := by rw [← hs.tasks_len]; exact getElem?_lt hi
      have hpl : cfg.poolOf i < s.cbIn.length := by rw [hs.cbin_len]; exact wf.poolOf_lt hil
      have hgeI := wsum_ge0 (fIn cfg (cfg.poolOf i)) s.tasks i _ hi
      have hcinI := hl.cin (cfg.poolOf i) (wf.poolOf_lt hil)
      refine LInv_gen (i := i) (p := .cbBody) (x := .bAcq) hl
        (fun f _ => wsum_set0 f s.tasks i _ _ hi) (by simp [fReg, holds]) hl.le
        (by simp [fOver, holds]) ?_ (fun o _ => by simp [fT, inT]) (fun q _ => ?_) (keepIn (by simp))
      · cases hc : s.cbLock <;> simp [fCb, hc] at hcb hge ⊢
        omega
      · cases hinn : (cfg.pool (cfg.poolOf i)).innerCb
        · simp [fIn, inIn, hinn]
        · simp only [if_true, getD_set_bool _ _ _ _ hpl, fIn, inIn, hinn]
          by_cases hq : q = cfg.poolOf i
          · subst hq
            simp only [fIn, inIn, hinn] at hgeI
            simp only [List.getD_eq_getElem?_getD] at hcinI ⊢
            cases hc : s.cbIn[cfg.poolOf i]?.getD false <;> simp [hc] at hcinI hgeI ⊢
            omega
          · have : ¬ cfg.poolOf i = q := fun e => hq e.symm
            simp [hq, this]
  | tAcq i hi hlk =>
      have hil : i < cfg.n := by rw [← hs.tasks_len]; exact getElem?_lt hi
      have hol : cfg.obj i < s.tLocks.length := by rw [hs.locks_len]; exact wf.obj_lt i hil
      have hx : afterT cfg (cfg.poolOf i) = .cbAcqIn ∨ afterT cfg (cfg.poolOf i) = .cbAcq := by
        unfold afterT; split <;> simp
      refine LInv_gen (i := i) (p := .tAcq) (x := afterT cfg (cfg.poolOf i)) hl
        (fun f _ => wsum_set0 f s.tasks i _ _ hi)
        (by rcases hx with e | e <;> simp [e, fReg, holds]) hl.le
        (by rcases hx with e | e <;> simp [e, fOver, holds])
        (by rcases hx with e | e <;> simp [e, fCb]) (fun o _ => ?_)
        (fun q _ => by
          unfold afterT
          cases hinn : (cfg.pool (cfg.poolOf i)).innerCb <;> simp [fIn, inIn, hinn]) ?_
      · have hT : fT cfg o i (afterT cfg (cfg.poolOf i)) = fT cfg o i .bAcq := by
          rcases hx with e | e <;> simp [e, fT, inT]
        rw [hT]
        simp only [getD_set_bool _ _ _ _ hol, fT, inT]
        by_cases ho : o = cfg.obj i
        · subst ho; simp only [List.getD_eq_getElem?_getD] at hlk; simp [hlk]
        · have : ¬ cfg.obj i = o := fun e => ho e.symm
          simp [ho, this]
      · intro k hk
        by_cases e : i = k
        · subst e
          have hlt := getElem?_lt hi
          simp only [List.getElem?_set, if_true] at hk
          apply afterT_inner
          simpa [hlt] using hk
        · simp only [List.getElem?_set, e, if_false] at hk; exact hl.inner k hk
  | bTry i p hi hp =>
      rcases budgetTry_cases cfg s i with ⟨h1, h2, e⟩ | ⟨h1, h2, e⟩ | ⟨h1, h2, e⟩ | ⟨h1, h2, e⟩ <;> rw [e]
      · rcases hp with rfl | rfl <;>
        exact LInv_gen (i := i) (x := .waiting) hl
          (fun f _ => wsum_set0 f s.tasks i _ _ hi) (by simp [fReg, holds]) hl.le
          (by simp [fOver, holds]) (by simp [fCb]) (fun o _ => by simp [fT, inT])
          (fun q _ => by simp [fIn, inIn]) (keepIn (by simp))
      · have h3 : ¬ cfg.size i ≤ cfg.capacity := by omega
        rcases hp with rfl | rfl <;>
        exact LInv_gen (i := i) (x := .write) hl
          (fun f _ => wsum_set0 f s.tasks i _ _ hi) (by simp [fReg, holds, h3]) hl.le
          (by simp [fOver, holds, h1, h2]) (by simp [fCb]) (fun o _ => by simp [fT, inT])
          (fun q _ => by simp [fIn, inIn]) (keepIn (by simp))
      · have h3 : ¬ cfg.size i > cfg.capacity := by omega
        rcases hp with rfl | rfl <;>
        exact LInv_gen (i := i) (x := .write) hl
          (fun f _ => wsum_set0 f s.tasks i _ _ hi) (by simp [fReg, holds, h1]) (by simpa using h2)
          (by simp [fOver, holds, h3]) (by simp [fCb]) (fun o _ => by simp [fT, inT])
          (fun q _ => by simp [fIn, inIn]) (keepIn (by simp))
      · rcases hp with rfl | rfl <;>
        exact LInv_gen (i := i) (x := .waiting) hl
          (fun f _ => wsum_set0 f s.tasks i _ _ hi) (by simp [fReg, holds]) hl.le
          (by simp [fOver, holds]) (by simp [fCb]) (fun o _ => by simp [fT, inT])
          (fun q _ => by simp [fIn, inIn]) (keepIn (by simp))
  | writeFail i hi hf =>
      refine LInv_gen (i := i) (p := .write) (x := .bRel false) hl
        (fun f _ => wsum_set0 f s.tasks i _ _ hi) (by simp [fReg, holds]) hl.le
        (by simp [fOver, holds]) (by simp [fCb]) (fun o _ => by simp [fT, inT])
        (fun q _ => by simp [fIn, inIn]) (keepIn (by simp))
  | writeOk i hi hf =>
      refine LInv_gen (i := i) (p := .write) (x := .bRel true) hl
        (fun f _ => wsum_set0 f s.tasks i _ _ hi) (by simp [fReg, holds]) hl.le
        (by simp [fOver, holds]) (by simp [fCb]) (fun o _ => by simp [fT, inT])
        (fun q _ => by simp [fIn, inIn]) (keepIn (by simp))
  | bRel i ok hi =>
      have hil : i < cfg.n := by rw [← hs.tasks_len]; exact getElem?_lt hi
      have hol : cfg.obj i < s.tLocks.length := by rw [hs.locks_len]; exact wf.obj_lt i hil
      have hgeR := wsum_ge0 (fReg cfg) s.tasks i _ hi
      have hgeO := wsum_ge0 (fOver cfg) s.tasks i _ hi
      have hgeT := wsum_ge0 (fT cfg (cfg.obj i)) s.tasks i _ hi
      have hreg := hl.reg
      have hover := hl.over
      have htl := hl.tl (cfg.obj i) (wf.obj_lt i hil)
      have hle := hl.le
      unfold budgetRelease
      refine LInv_gen (i := i) (p := .bRel ok) (x := .done ok) hl
        (fun f qf => ?_) ?_ ?_ ?_ ?_ (fun o _ => ?_) (fun q _ => by simp [fIn, inIn]) ?_
      · simp only [qf.dn, Nat.add_zero]
        rw [wsum_finish qf (p := .bRel ok) _ ok _ (by simp)]
        · simp [wsum_wake qf]
        · exact SInv_congr (s := { s with tasks := s.tasks.map wake }) (SInv_wake hs) rfl rfl
            (by simp) rfl rfl (fun _ => rfl) (fun _ => rfl)
        · simp [hi, wake]
      · simp only [finishTask_inFlight]
        split
        · rename_i hgt
          have : ¬ cfg.size i ≤ cfg.capacity := by omega
          simp [fReg, holds, this]
        · rename_i hgt
          have : cfg.size i ≤ cfg.capacity := by omega
          simp [fReg, holds, this] at hgeR ⊢
          omega
      · simp only [finishTask_inFlight]
        split <;> omega
      · simp only [finishTask_oversized]
        split
        · rename_i hgt
          simp [fOver, holds, hgt] at hgeO ⊢
          cases hov : s.oversized <;> simp [hov] at hover ⊢
          omega
        · rename_i hgt
          simp [fOver, holds, hgt]
      · simp only [finishTask_cbLock]
        simp [fCb]
      · simp only [finishTask_tLocks, getD_set_bool _ _ _ _ hol, fT, inT]
        by_cases ho : o = cfg.obj i
        · subst ho
          simp [fT, inT] at hgeT
          simp only [List.getD_eq_getElem?_getD] at htl
          cases hlk : s.tLocks[cfg.obj i]?.getD false <;> simp [hlk] at htl ⊢ <;> omega
        · have : ¬ cfg.obj i = o := fun e => ho e.symm
          simp [ho, this]
      · refine hl.inner_finish (fun k hk => ?_) i ok
        simp only [List.getElem?_map, Option.map_eq_some_iff] at hk
        obtain ⟨q0, hq0, hw⟩ := hk
        cases q0 <;> simp [wake] at hw
        exact hq0

end IrVerif.WriterN

/-
Payload-level idempotence of the three extensions of `Model/ScopeExt.lean`, and the representation invariant of
the extension state that it needs.

The serialize-deserialize fix-point of the extended model has two halves: (a) the FLOW — which entry of the
re-serialized proto reaches which value of the reloaded model — and (b) the PAYLOAD — what an entry that was
written by the serializer becomes when it is read (merged / annotated / resolved) and written again.  This file
proves (b) for every model the extended deserializer returns: merged metadata has distinct keys, so what is
written sorted is read back as written and merging it again (graph-output entries over a creation entry)
changes nothing; a quantization annotation is a non-empty dict with distinct keys, so it is written and read
back unchanged; a device configuration that the serializer wrote is read back — in ANY scope stack whose tables
bind names to values carrying them — as a configuration that serializes to the same proto.
Half (a) for the extension state is not proved here (for the store it is `C17_idempotent` through the erasure).
-/
import IrVerif.Lemmas.ScopeExtInv
import IrVerif.Lemmas.ScopeMeta
namespace IrVerif.Scope

/-! ### string-string dicts -/

theorem ssUpdate_nil (es : SS) : ssUpdate [] es = ssOfEntries es := rfl

theorem ssSet_ne_nil (d : SS) (k v : String) : ssSet d k v ≠ [] := by
  cases d with
  | nil => simp [ssSet]
  | cons e r =>
    obtain ⟨k', v'⟩ := e
    simp only [ssSet]
    split <;> simp

theorem ssFold_ne_nil : ∀ (l d : SS), d ≠ [] → l.foldl (fun d e => ssSet d e.1 e.2) d ≠ []
  | [], _, h => h
  | e :: l, d, _ => ssFold_ne_nil l _ (ssSet_ne_nil d e.1 e.2)

theorem ssOfEntries_ne_nil (es : SS) (h : es ≠ []) : ssOfEntries es ≠ [] := by
  cases es with
  | nil => exact absurd rfl h
  | cons e l => exact ssFold_ne_nil l _ (ssSet_ne_nil [] e.1 e.2)

/-- `d[k] = d[k]` changes nothing -/
theorem ssSet_self : ∀ (d : SS) (k v : String), (k, v) ∈ d → (d.map (·.1)).Nodup → ssSet d k v = d
  | [], _, _, hm, _ => by simp at hm
  | (k', v') :: r, k, v, hm, hn => by
    simp only [List.map_cons, List.nodup_cons] at hn
    simp only [ssSet]
    by_cases hk : k' = k
    · subst hk
      simp only [if_true]
      simp only [List.mem_cons, Prod.mk.injEq] at hm
      rcases hm with ⟨_, rfl⟩ | hm
      · rfl
      · exact absurd (List.mem_map.mpr ⟨(k', v), hm, rfl⟩) hn.1
    · simp only [hk, if_false]
      simp only [List.mem_cons, Prod.mk.injEq] at hm
      rcases hm with ⟨rfl, _⟩ | hm
      · exact absurd rfl hk
      · rw [ssSet_self r k v hm hn.2]

/-- `d.update(e)` for entries `e` that `d` already has changes nothing -/
theorem ssUpdate_sub (d : SS) (hn : (d.map (·.1)).Nodup) : ∀ (l : SS), (∀ e ∈ l, e ∈ d) → ssUpdate d l = d
  | [], _ => rfl
  | e :: l, h => by
    have he : ssSet d e.1 e.2 = d := ssSet_self d e.1 e.2 (h e (by simp)) hn
    show l.foldl (fun d e => ssSet d e.1 e.2) (ssSet d e.1 e.2) = d
    rw [he]
    exact ssUpdate_sub d hn l (fun x hx => h x (by simp [hx]))

theorem ssUpdate_self (d : SS) (hn : (d.map (·.1)).Nodup) : ssUpdate d d = d :=
  ssUpdate_sub d hn d (fun _ h => h)

theorem ssUpdate_nodup (d es : SS) (hn : (d.map (·.1)).Nodup) : ((ssUpdate d es).map (·.1)).Nodup :=
  ssFold_keys_nodup es d hn

theorem ssSorted_ne_nil (d : SS) (h : d ≠ []) : ssSorted d ≠ [] := by
  intro he
  have := (ssSorted_perm d).length_eq
  rw [he] at this
  cases d with
  | nil => exact h rfl
  | cons _ _ => simp at this

/-- metadata: what `serialize_value_into` writes for a value (sorted by key) is read back, by the creation
    entry of the reloaded value, as it was written; a graph-output entry carrying the same metadata merged over it
    changes nothing; and the reloaded metadata is written again as it was -/
theorem meta_payload_fix (m : SS) (hn : (m.map (·.1)).Nodup) :
    ssUpdate [] (ssSorted m) = ssSorted m ∧
    ssUpdate (ssUpdate [] (ssSorted m)) (ssSorted m) = ssUpdate [] (ssSorted m) ∧
    ssSorted (ssUpdate [] (ssSorted m)) = ssSorted m := by
  have h1 : ssUpdate [] (ssSorted m) = ssSorted m := by rw [ssUpdate_nil]; exact ss_rt m hn
  refine ⟨h1, ?_, ?_⟩
  · rw [h1]; exact ssUpdate_self _ (ssSorted_nodup m hn)
  · rw [h1]; exact ssSorted_idem m

/-- quantization annotation: a non-empty dict with distinct keys is written (sorted), read back by
    `_deserialize_quantization_annotation` as a non-empty dict, and written again as it was -/
theorem quant_payload_fix (ps : SS) (hn : (ps.map (·.1)).Nodup) (hne : ps ≠ []) :
    (ssSorted ps).isEmpty = false ∧ ssOfEntries (ssSorted ps) ≠ [] ∧
    ssSorted (ssOfEntries (ssSorted ps)) = ssSorted ps := by
  have h0 := ssSorted_ne_nil ps hne
  refine ⟨?_, ?_, ss_fix ps hn⟩
  · cases h : ssSorted ps with
    | nil => exact absurd h h0
    | cons _ _ => rfl
  · rw [ss_rt ps hn]; exact h0

/-! ### device configurations -/

theorem serSpecs_names : ∀ (sp : List (Option String × String)) (ps : List (String × String)),
    serSpecs sp = .ok ps → ∀ s ∈ ps, s.1 ≠ ""
  | [], ps, h => by
    simp only [serSpecs, Except.ok.injEq] at h
    subst h
    simp
  | (none, _) :: _, _, h => by simp [serSpecs] at h
  | (some n, t) :: r, ps, h => by
    simp only [serSpecs] at h
    split at h
    · simp at h
    · rename_i hn
      split at h
      · simp at h
      · rename_i r' hr
        simp only [Except.ok.injEq] at h
        subst h
        intro s hs
        simp only [List.mem_cons] at hs
        rcases hs with rfl | hs
        · exact hn
        · exact serSpecs_names r r' hr s hs

theorem serDev_names (d : DevS) (p : DevP) (h : serDev d = .ok p) : p.cfg ≠ "" ∧ ∀ s ∈ p.specs, s.1 ≠ "" := by
  simp only [serDev] at h
  split at h
  · simp at h
  · rename_i c _
    split at h
    · simp at h
    · rename_i hc
      split at h
      · simp at h
      · rename_i sp hs
        simp only [Except.ok.injEq] at h
        subst h
        exact ⟨hc, serSpecs_names _ _ hs⟩

theorem serSpecs_of_names (f : String → Option String) : ∀ (ps : List (String × String)),
    (∀ s ∈ ps, s.1 ≠ "" ∧ f s.1 = some s.1) → serSpecs (ps.map fun s => (f s.1, s.2)) = .ok ps
  | [], _ => rfl
  | (n, t) :: r, h => by
    obtain ⟨hn, hf⟩ := h (n, t) (by simp)
    simp only [List.map_cons, hf, serSpecs]
    simp only at hn
    rw [if_neg hn, serSpecs_of_names f r (fun s hs => h s (by simp [hs]))]

/-- the name a resolved sharding value is written under, in scopes whose tables bind names to values that carry
    them: the name it was resolved from -/
theorem specName_resolveShard (vals : Nat → ValueS) (scopes : List Table)
    (hs : ∀ t ∈ scopes, ∀ e ∈ t, (vals e.2).name = some e.1) (n : Name) (hn : n ≠ "") :
    specName vals (resolveShard scopes n) = some n := by
  simp only [resolveShard, hn, if_false]
  cases hr : resolve n scopes with
  | none => rfl
  | some v =>
    obtain ⟨t, ht, hm⟩ := resolve_mem n scopes v hr
    exact hs t ht _ hm

/-- device configuration: what `serialize_node_device_configuration` wrote is read back — the sharding values
    resolved in ANY scope stack whose tables bind names to values carrying them — as a configuration that is
    written again as it was -/
theorem dev_payload_fix (vals : Nat → ValueS) (d : DevR) (p : DevP) (h : serDevR vals d = .ok p)
    (vals' : Nat → ValueS) (scopes : List Table) (hs : ∀ t ∈ scopes, ∀ e ∈ t, (vals' e.2).name = some e.1) :
    serDevR vals' (deserDevR scopes p) = .ok p := by
  obtain ⟨hc, hsp⟩ := serDev_names _ _ h
  simp only [serDevR, deserDevR, List.map_map]
  simp only [serDev, nonEmpty, hc, if_false]
  have := serSpecs_of_names (fun n => specName vals' (resolveShard scopes n)) p.specs
    (fun s hs' => ⟨hsp s hs', specName_resolveShard vals' scopes hs s.1 (hsp s hs')⟩)
  simp only [Function.comp_def]
  rw [this]

theorem devs_payload_fix (vals : Nat → ValueS) (vals' : Nat → ValueS) (scopes : List Table)
    (hs : ∀ t ∈ scopes, ∀ e ∈ t, (vals' e.2).name = some e.1) :
    ∀ (ds : List DevR) (ps : List DevP), serDevRs vals ds = .ok ps →
      serDevRs vals' (ps.map (deserDevR scopes)) = .ok ps
  | [], ps, h => by
    simp only [serDevRs, Except.ok.injEq] at h
    subst h
    rfl
  | d :: r, ps, h => by
    simp only [serDevRs] at h
    split at h
    · simp at h
    · rename_i p hp
      split at h
      · simp at h
      · rename_i ps' hr
        simp only [Except.ok.injEq] at h
        subst h
        simp only [List.map_cons, serDevRs, dev_payload_fix vals d p hp vals' scopes hs,
          devs_payload_fix vals vals' scopes hs r ps' hr]

/-! ### the representation invariant of the extension state -/

/-- merged metadata and quantization annotations are dicts: distinct keys; an annotation is never empty -/
def ExtWF (x : Ext) : Prop :=
  ∀ v, ((x.vmeta v).map (·.1)).Nodup ∧ ∀ ps, x.quant v = some ps → (ps.map (·.1)).Nodup ∧ ps ≠ []

theorem ExtWF.empty : ExtWF {} := fun _ => ⟨by simp, fun _ h => by simp at h⟩

theorem ExtWF.merge {x : Ext} (h : ExtWF x) (v : Nat) (es : SS) : ExtWF (x.merge v es) := by
  unfold Ext.merge
  split
  · exact h
  · intro u
    simp only [Ext.setMeta]
    refine ⟨?_, (h u).2⟩
    split
    · exact ssUpdate_nodup _ _ (h v).1
    · exact (h u).1

theorem ExtWF.annotate {x : Ext} (h : ExtWF x) (qt : List (Name × SS)) (v : Nat) (n : Name) :
    ExtWF (x.annotate qt v n) := by
  unfold Ext.annotate
  split
  · exact h
  · rename_i ps _
    intro u
    simp only [Ext.setQuant]
    refine ⟨(h u).1, fun qs hq => ?_⟩
    split at hq
    · split at hq
      · simp at hq
      · rename_i hne
        simp only [Option.some.injEq] at hq
        subst hq
        refine ⟨ssOfEntries_nodup ps, ssOfEntries_ne_nil ps ?_⟩
        intro he
        subst he
        simp at hne
    · exact (h u).2 qs hq

theorem ExtWF.newNamed {x : Ext} (h : ExtWF x) (vt : List (Name × Info × SS)) (qt : List (Name × SS)) (v : Nat)
    (n : Name) : ExtWF (x.newNamed vt qt v n) := by
  unfold Ext.newNamed
  split
  · exact (h.merge _ _).annotate _ _ _
  · exact h.annotate _ _ _

theorem ExtWF.setDevs {x : Ext} (h : ExtWF x) (n : Nat) (d : List DevR) : ExtWF (x.setDevs n d) := h

theorem deserInputsE_wf (qt : List (Name × SS)) : ∀ (is : List VInfoE) (st : Store) (x : Ext),
    ExtWF x → ExtWF (deserInputsE st x qt is).2.1
  | [], _, _, h => h
  | i :: is, st, x, h => by
    simp only [deserInputsE]
    exact deserInputsE_wf qt is _ _ ((h.merge _ _).annotate _ _ _)

theorem deserInitsE_wf (vt : List (Name × Info × SS)) (qt : List (Name × SS)) :
    ∀ (ts : List TensorP) (st : Store) (x : Ext) (tbl : Table), ExtWF x → ExtWF (deserInitsE st x tbl vt qt ts).2.1
  | [], _, _, _, h => h
  | t :: ts, st, x, tbl, h => by
    simp only [deserInitsE]
    by_cases hn : t.name = ""
    · simp only [hn, if_true]
      exact deserInitsE_wf vt qt ts st x tbl h
    · simp only [hn, if_false]
      cases hl : tbl.lookup t.name with
      | some v =>
        simp only
        exact deserInitsE_wf vt qt ts _ x tbl h
      | none =>
        simp only
        exact deserInitsE_wf vt qt ts _ _ _ (h.newNamed _ _ _ _)

theorem declareOutputsE_wf (vt : List (Name × Info × SS)) (qt : List (Name × SS)) :
    ∀ (ns : List Name) (st : Store) (x : Ext) (tbl : Table) (st' : Store) (x' : Ext) (tbl' : Table),
      ExtWF x → declareOutputsE st x tbl vt qt ns = .ok (st', x', tbl') → ExtWF x'
  | [], st, x, tbl, st', x', tbl', hw, h => by
    simp only [declareOutputsE, Except.ok.injEq, Prod.mk.injEq] at h
    rw [← h.2.1]; exact hw
  | n :: ns, st, x, tbl, st', x', tbl', hw, h => by
    simp only [declareOutputsE] at h
    by_cases hn : n = ""
    · simp only [hn, if_true] at h
      exact declareOutputsE_wf vt qt ns st x tbl st' x' tbl' hw h
    · simp only [hn, if_false] at h
      cases hl : tbl.lookup n with
      | some v => simp [hl] at h
      | none =>
        simp only [hl] at h
        exact declareOutputsE_wf vt qt ns _ _ _ st' x' tbl' (hw.newNamed _ _ _ _) h

theorem declareNodesE_wf (vt : List (Name × Info × SS)) (qt : List (Name × SS)) :
    ∀ (ns : List NodeE) (st : Store) (x : Ext) (tbl : Table) (st' : Store) (x' : Ext) (tbl' : Table),
      ExtWF x → declareNodesE st x tbl vt qt ns = .ok (st', x', tbl') → ExtWF x'
  | [], st, x, tbl, st', x', tbl', hw, h => by
    simp only [declareNodesE, Except.ok.injEq, Prod.mk.injEq] at h
    rw [← h.2.1]; exact hw
  | n :: ns, st, x, tbl, st', x', tbl', hw, h => by
    simp only [declareNodesE] at h
    split at h
    · simp at h
    · rename_i st1 x1 tbl1 h1
      exact declareNodesE_wf vt qt ns st1 x1 tbl1 st' x' tbl' (declareOutputsE_wf vt qt _ _ _ _ _ _ _ hw h1) h

theorem resolveInputsE_wf (outer : List Table) (vt : List (Name × Info × SS)) (qt : List (Name × SS)) :
    ∀ (ns : List Name) (st : Store) (x : Ext) (top : Table), ExtWF x →
      ExtWF (resolveInputsE st x top outer vt qt ns).2.1
  | [], _, _, _, h => h
  | n :: ns, st, x, top, h => by
    simp only [resolveInputsE]
    by_cases hn : n = ""
    · simp only [hn, if_true]
      exact resolveInputsE_wf outer vt qt ns st x top h
    · simp only [hn, if_false]
      cases hl : resolve n (top :: outer) with
      | some v =>
        simp only
        exact resolveInputsE_wf outer vt qt ns st x top h
      | none =>
        simp only
        exact resolveInputsE_wf outer vt qt ns _ _ _ (h.newNamed _ _ _ _)

theorem deserOutputsE_wf (tbl : Table) : ∀ (os : List VInfoE) (st : Store) (x : Ext), ExtWF x →
    ExtWF (deserOutputsE st x tbl os).2.1
  | [], _, _, h => h
  | o :: os, st, x, h => by
    simp only [deserOutputsE]
    cases hl : tbl.lookup o.name with
    | some v =>
      simp only
      exact deserOutputsE_wf tbl os _ _ (h.merge _ _)
    | none =>
      simp only
      exact deserOutputsE_wf tbl os _ _ (h.merge _ _)

mutual
theorem deserGraphE_wf :
    ∀ (p : GraphE) (st : Store) (x : Ext) (outer : List Table) (st' : Store) (x' : Ext) (g : GraphT),
      ExtWF x → deserGraphE st x outer p = .ok (st', x', g) → ExtWF x'
  | .mk inputs inits vinfo nodes outputs quant, st, x, outer, st', x', g, hw, h => by
    simp only [deserGraphE] at h
    have w1 := deserInputsE_wf (quantTable quant) inputs st x hw
    generalize deserInputsE st x (quantTable quant) inputs = rI at h w1
    obtain ⟨st1, x1, ins⟩ := rI
    simp only at h w1
    have w2 := deserInitsE_wf (vinfoTableE vinfo) (quantTable quant) inits st1 x1
      (inputTable (inputs.map VInfoE.erase) ins) w1
    generalize deserInitsE st1 x1 (inputTable (inputs.map VInfoE.erase) ins) (vinfoTableE vinfo) (quantTable quant)
      inits = rA at h w2
    obtain ⟨st2, x2, tbl2, initVals⟩ := rA
    simp only at h w2
    split at h
    · simp at h
    · rename_i st3 x3 tbl3 h3
      have w3 := declareNodesE_wf _ _ _ _ _ _ _ _ _ w2 h3
      split at h
      · simp at h
      · rename_i st4 x4 tbl4 ns h4
        have w4 := deserNodesE_wf nodes st3 x3 tbl3 outer _ _ st4 x4 tbl4 ns w3 h4
        have w5 := deserOutputsE_wf tbl4 outputs st4 x4 w4
        generalize deserOutputsE st4 x4 tbl4 outputs = rO at h w5
        obtain ⟨st5, x5, outs⟩ := rO
        simp only [Except.ok.injEq, Prod.mk.injEq] at h w5
        obtain ⟨_, rfl, _⟩ := h
        exact w5
theorem deserNodesE_wf :
    ∀ (ns : List NodeE) (st : Store) (x : Ext) (top : Table) (outer : List Table) (vt : List (Name × Info × SS))
      (qt : List (Name × SS)) (st' : Store) (x' : Ext) (top' : Table) (nts : List NodeT),
      ExtWF x → deserNodesE st x top outer vt qt ns = .ok (st', x', top', nts) → ExtWF x'
  | [], st, x, top, outer, vt, qt, st', x', top', nts, hw, h => by
    simp only [deserNodesE, Except.ok.injEq, Prod.mk.injEq] at h
    obtain ⟨_, rfl, _⟩ := h
    exact hw
  | n :: ns, st, x, top, outer, vt, qt, st', x', top', nts, hw, h => by
    simp only [deserNodesE] at h
    split at h
    · simp at h
    · rename_i st1 x1 top1 nt h1
      split at h
      · simp at h
      · rename_i st2 x2 top2 nts' h2
        simp only [Except.ok.injEq, Prod.mk.injEq] at h
        obtain ⟨_, rfl, _⟩ := h
        exact deserNodesE_wf ns st1 x1 top1 outer vt qt st2 x2 top2 nts'
          (deserNodeE_wf n st x top outer vt qt st1 x1 top1 nt hw h1) h2
theorem deserNodeE_wf :
    ∀ (n : NodeE) (st : Store) (x : Ext) (top : Table) (outer : List Table) (vt : List (Name × Info × SS))
      (qt : List (Name × SS)) (st' : Store) (x' : Ext) (top' : Table) (nt : NodeT),
      ExtWF x → deserNodeE st x top outer vt qt n = .ok (st', x', top', nt) → ExtWF x'
  | .mk inputs outputs devs subs, st, x, top, outer, vt, qt, st', x', top', nt, hw, h => by
    simp only [deserNodeE] at h
    have w1 := resolveInputsE_wf outer vt qt inputs st x top hw
    generalize resolveInputsE st x top outer vt qt inputs = rR at h w1
    obtain ⟨st1, x1, top1, ins⟩ := rR
    simp only at h w1
    split at h
    · simp at h
    · rename_i st2 outs h2
      split at h
      · simp at h
      · rename_i st3 x3 gs h3
        simp only [Except.ok.injEq, Prod.mk.injEq] at h
        obtain ⟨_, rfl, _⟩ := h
        exact (deserSubsE_wf subs st2 x1 (top1 :: outer) st3 x3 gs w1 h3).setDevs _ _
theorem deserSubsE_wf :
    ∀ (gs : List GraphE) (st : Store) (x : Ext) (scopes : List Table) (st' : Store) (x' : Ext) (gts : List GraphT),
      ExtWF x → deserSubsE st x scopes gs = .ok (st', x', gts) → ExtWF x'
  | [], st, x, scopes, st', x', gts, hw, h => by
    simp only [deserSubsE, Except.ok.injEq, Prod.mk.injEq] at h
    obtain ⟨_, rfl, _⟩ := h
    exact hw
  | g :: gs, st, x, scopes, st', x', gts, hw, h => by
    simp only [deserSubsE] at h
    split at h
    · simp at h
    · rename_i st1 x1 gt h1
      split at h
      · simp at h
      · rename_i st2 x2 gts' h2
        simp only [Except.ok.injEq, Prod.mk.injEq] at h
        obtain ⟨_, rfl, _⟩ := h
        exact deserSubsE_wf gs st1 x1 scopes st2 x2 gts' (deserGraphE_wf g st x scopes st1 x1 gt hw h1) h2
end

theorem deserializeE_wf (p : GraphE) (w : WorldE) (h : deserializeE p = .ok w) : ExtWF w.ext := by
  simp only [deserializeE] at h
  split at h
  · simp at h
  · rename_i st x g hg
    simp only [Except.ok.injEq] at h
    subst h
    exact deserGraphE_wf p {} {} [] st x g ExtWF.empty hg

end IrVerif.Scope

/-
Helper lemmas for the concurrent shard drivers of C08 (`Model/AtomicSaveConc.lean`): invariants of the
interleaved run `crun`.  Core Lean only.
-/
import IrVerif.Lemmas.AtomicSave
import IrVerif.Model.AtomicSaveConc
namespace IrVerif.AtomicSave

theorem emptySt_wf : WF emptySt :=
  ⟨fun p i h => by simp [emptySt, emptyFS] at h, rfl, rfl, fun _ => rfl⟩

/-- No tensor is "overwritten" when the destination does not exist (461-466: `samefile` needs both). -/
theorem overwrittenFrom_absent (fs : FS) (d : String) (hd : fs.file (.user d) = none) :
    ∀ (ts : List Tensor) (i : Nat), overwrittenFrom fs d i ts = []
  | [], _ => rfl
  | t :: ts, i => by
    simp only [overwrittenFrom, overwrittenFrom_absent fs d hd ts (i + 1), List.append_nil]
    cases t.ext with
    | none => rfl
    | some e =>
      have : sameFile fs (.user e.path) (.user d) = false := by
        simp only [sameFile, hd]
        cases fs.file (.user e.path) <;> rfl
      simp [this]

/-- The `try` body of the sequential model on a directory in which the destination does not exist is
the serial writer alone: no release loop, no `copymode`. -/
theorem tryBody_fresh (cfg : Cfg) (s0 : St) (hd : s0.fs.file (.user cfg.env.dest) = none) :
    tryBody cfg s0 = serialBody cfg.cb cfg.tensors := by
  simp [tryBody, serialBody, overwritten, overwrittenFrom_absent s0.fs cfg.env.dest hd, hd]

theorem serialBody_isWriter (cb : Bool) (ts : List Tensor) : ∀ e ∈ serialBody cb ts, e.isWriter = true := by
  have hw : ∀ (ts : List Tensor) (i : Nat), ∀ e ∈ writeEffs cb i ts, e.isWriter = true := by
    intro ts
    induction ts with
    | nil => intro i e he; simp [writeEffs] at he
    | cons x ts ih =>
      intro i e he
      simp only [writeEffs, tensorEffs, List.mem_append, List.mem_map] at he
      rcases he with ((he | he) | ⟨c, _, rfl⟩) | he
      · split at he <;> simp at he; subst he; rfl
      · simp at he; subst he; rfl
      · rfl
      · exact ih (i + 1) e he
  intro e he
  simp only [serialBody, List.mem_append, List.mem_singleton] at he
  rcases he with (rfl | he) | rfl
  · rfl
  · exact hw ts 0 e he
  · rfl

/-- "The complete new bytes" of a serially written shard are its tensors' image. -/
theorem newBytes_serial (newMode : Nat) (cb : Bool) (d : String) (ts : List Tensor) :
    newBytes newMode (serialJob cb (d, ts)) = some (image ts) := by
  have h := tryBody_end ⟨⟨d, newMode⟩, ts, cb⟩ emptySt emptySt_wf
  rw [tryBody_fresh ⟨⟨d, newMode⟩, ts, cb⟩ emptySt rfl] at h
  simp only [newBytes, bodyEnd, serialJob]
  simp only [applyAll] at h
  rw [h.1]
  simp only [Option.map_some]
  rw [h.2.1]

/-! ### Per-driver invariants -/

def noTmp (s : St) : Prop := s.fs.isDir .tmpDir = false ∧ s.fs.file .tmpFile = none

/-- The private world of a driver is determined by how far it got: before `mkdtemp` it is empty; in
the `try` block it is what the executed prefix of its body made of it. -/
def PInv (nm : Nat) (p : Proc) : Prop :=
  match p.pc with
  | .init => p.loc = emptySt
  | .body rest =>
    ∃ dn, dn ++ rest = p.job.body ∧
      p.loc = applyAll ⟨p.job.dest, nm⟩ dn (apply ⟨p.job.dest, nm⟩ emptySt .mkdtemp)
  | _ => True

/-- Temporary paths by program counter, as long as no clean-up effect failed. -/
def Clean (p : Proc) : Prop :=
  match p.pc with
  | .init => noTmp p.loc
  | .fin2 _ => p.loc.fs.file .tmpFile = none
  | .done _ => noTmp p.loc
  | _ => True

/-- An exception is in flight in (or has left) the driver. -/
def Exc : PC → Prop
  | .fin1 b => b = true
  | .fin2 b => b = true
  | .done b => b = true
  | _ => False

theorem stepProc_job (nm : Nat) (sh : St) (p : Proc) (o : Option Nat) : (stepProc nm sh p o).2.job = p.job := by
  unfold stepProc
  split <;> rfl

/-- Only a successful `os.replace` touches the shared world. -/
theorem stepProc_sh (nm : Nat) (sh : St) (p : Proc) (o : Option Nat) :
    (stepProc nm sh p o).1 = sh ∨
    (p.pc = .body [] ∧ o = none ∧ (stepProc nm sh p o).1 = (publish p.job.dest sh p.loc).1 ∧
      (stepProc nm sh p o).2.loc = (publish p.job.dest sh p.loc).2) := by
  unfold stepProc
  split <;> first | exact Or.inl rfl | (rename_i h1; exact Or.inr ⟨h1, rfl, rfl, rfl⟩)

theorem pinv_step (nm : Nat) (sh : St) (p : Proc) (o : Option Nat) (h : PInv nm p) :
    PInv nm (stepProc nm sh p o).2 := by
  unfold stepProc
  split
  · rename_i hpc
    simp only [PInv, hpc] at h
    simp only [PInv]
    exact ⟨[], rfl, by rw [h]; rfl⟩
  · simp [PInv]
  · simp [PInv]
  · simp [PInv]
  · rename_i e r hpc
    simp only [PInv, hpc] at h
    rcases h with ⟨dn, hdn, hl⟩
    simp only [PInv]
    refine ⟨dn ++ [e], by simp [← hdn], ?_⟩
    rw [hl, applyAll_append]
    rfl
  · simp [PInv]
  · simp [PInv]
  · simp [PInv]
  · simp [PInv]
  · simp [PInv]
  · exact h

theorem noTmp_empty : noTmp emptySt := ⟨rfl, rfl⟩

/-- A step that is not a failing clean-up effect keeps `Clean`. -/
theorem clean_step (nm : Nat) (sh : St) (p : Proc) (o : Option Nat) (h : Clean p)
    (hok : o.isSome = true → nextEff p.pc ≠ some .removeTmp ∧ nextEff p.pc ≠ some .rmdirTmp) :
    Clean (stepProc nm sh p o).2 := by
  unfold stepProc
  split
  · simp [Clean]
  · rename_i hpc
    simp only [Clean, hpc] at h
    simpa [Clean] using h
  · simp [Clean]
  · simp [Clean]
  · simp [Clean]
  · simp [Clean]
  · simp [Clean, apply, upd]
  · rename_i hpc
    have := (hok rfl).1
    simp [hpc, nextEff] at this
  · rename_i b hpc
    simp only [Clean, hpc] at h
    simp only [Clean, noTmp, apply, h, Option.isSome_none, Bool.false_eq_true, if_false]
    simp [upd]
  · rename_i hpc
    have := (hok rfl).2
    simp [hpc, nextEff] at this
  · exact h

theorem exc_step_fault (nm : Nat) (sh : St) (p : Proc) (q : Nat) (e : Eff) (he : nextEff p.pc = some e) :
    Exc (stepProc nm sh p (some q)).2.pc := by
  rcases hpc : p.pc with _ | (_ | ⟨e', r⟩) | b | b | b <;> simp_all [stepProc, Exc, nextEff]

theorem exc_step_keep (nm : Nat) (sh : St) (p : Proc) (o : Option Nat) (h : Exc p.pc) :
    Exc (stepProc nm sh p o).2.pc := by
  rcases hpc : p.pc with _ | (_ | ⟨e', r⟩) | b | b | b <;> cases o <;> simp_all [stepProc, Exc]

theorem nexc_step_ok (nm : Nat) (sh : St) (p : Proc) (h : ¬ Exc p.pc) :
    ¬ Exc (stepProc nm sh p none).2.pc := by
  rcases hpc : p.pc with _ | (_ | ⟨e', r⟩) | b | b | b <;> simp_all [stepProc, Exc]

/-! ### The invariant of the interleaved run -/

structure CInv (nm : Nat) (jobs : List Job) (s0 : St) (c : CSt) : Prop where
  jobOf : ∀ k, (c.procs k).job = (initProcs jobs k).job
  out : ∀ k, jobs.length ≤ k → (c.procs k).pc = .done false
  pinv : ∀ k, PInv nm (c.procs k)
  data : ∀ i, i < s0.fs.next → c.sh.fs.data i = s0.fs.data i
  mode : ∀ i, i < s0.fs.next → c.sh.fs.mode i = s0.fs.mode i
  next : s0.fs.next ≤ c.sh.fs.next
  named : ∀ p i, c.sh.fs.file p = some i → i < c.sh.fs.next
  each : ∀ n, c.sh.fs.file (.user n) = s0.fs.file (.user n) ∨
    ∃ j ∈ jobs, j.dest = n ∧ ∃ i, c.sh.fs.file (.user n) = some i ∧ s0.fs.next ≤ i ∧
      some (c.sh.fs.data i) = newBytes nm j
  isDir : c.sh.fs.isDir = s0.fs.isDir
  tmp : c.sh.fs.file .tmpFile = s0.fs.file .tmpFile
  valid : c.sh.valid = s0.valid
  mapped : c.sh.mapped = s0.mapped

theorem initProcs_job_mem (jobs : List Job) (k : Nat) (hk : k < jobs.length) :
    (initProcs jobs k).job ∈ jobs := by
  simp only [initProcs]
  rw [List.getElem?_eq_getElem hk]
  exact List.getElem_mem hk

theorem cinv_init (nm : Nat) (jobs : List Job) (s0 : St) (h0 : WF s0) : CInv nm jobs s0 ⟨s0, initProcs jobs⟩ where
  jobOf := fun _ => rfl
  out := fun k hk => by
    simp only [initProcs]
    rw [List.getElem?_eq_none hk]
  pinv := fun k => by
    simp only [initProcs]
    cases jobs[k]? <;> simp [PInv]
  data := fun _ _ => rfl
  mode := fun _ _ => rfl
  next := Nat.le_refl _
  named := h0.named
  each := fun _ => Or.inl rfl
  isDir := rfl
  tmp := rfl
  valid := rfl
  mapped := rfl

theorem cinv_step (nm : Nat) (jobs : List Job) (s0 : St) (c : CSt) (k : Nat) (o : Option Nat) (e : Eff)
    (h : CInv nm jobs s0 c) (he : nextEff (c.procs k).pc = some e) :
    CInv nm jobs s0 ⟨(stepProc nm c.sh (c.procs k) o).1, upd c.procs k (stepProc nm c.sh (c.procs k) o).2⟩ := by
  have hk : k < jobs.length := by
    apply Nat.lt_of_not_le
    intro hle
    rw [h.out k hle] at he
    simp [nextEff] at he
  have hjob : ∀ k', ((upd c.procs k (stepProc nm c.sh (c.procs k) o).2) k').job = (initProcs jobs k').job := by
    intro k'
    by_cases hkk : k' = k
    · subst hkk; rw [upd_same, stepProc_job]; exact h.jobOf k'
    · rw [upd_ne _ _ hkk]; exact h.jobOf k'
  have hout : ∀ k', jobs.length ≤ k' → ((upd c.procs k (stepProc nm c.sh (c.procs k) o).2) k').pc = .done false := by
    intro k' hk'
    have : k' ≠ k := by omega
    rw [upd_ne _ _ this]; exact h.out k' hk'
  have hpinv : ∀ k', PInv nm ((upd c.procs k (stepProc nm c.sh (c.procs k) o).2) k') := by
    intro k'
    by_cases hkk : k' = k
    · subst hkk; rw [upd_same]; exact pinv_step nm c.sh _ o (h.pinv k')
    · rw [upd_ne _ _ hkk]; exact h.pinv k'
  rcases stepProc_sh nm c.sh (c.procs k) o with hs | ⟨hpc, _, hs, _⟩
  · rw [hs]
    exact ⟨hjob, hout, hpinv, h.data, h.mode, h.next, h.named, h.each, h.isDir, h.tmp, h.valid, h.mapped⟩
  · rw [hs]
    have hp := h.pinv k
    simp only [PInv, hpc, List.append_nil] at hp
    rcases hp with ⟨dn, hdn, hl⟩
    subst hdn
    unfold publish
    cases ht : (c.procs k).loc.fs.file .tmpFile with
    | none =>
      exact ⟨hjob, hout, hpinv, h.data, h.mode, h.next, h.named, h.each, h.isDir, h.tmp, h.valid, h.mapped⟩
    | some t =>
      have hnb : some ((c.procs k).loc.fs.data t) = newBytes nm (c.procs k).job := by
        simp only [newBytes, bodyEnd]
        rw [hl] at ht ⊢
        simp only [applyAll] at ht ⊢
        rw [ht]
        rfl
      have hmem : (c.procs k).job ∈ jobs := by rw [h.jobOf k]; exact initProcs_job_mem jobs k hk
      refine ⟨hjob, hout, hpinv, ?_, ?_, ?_, ?_, ?_, h.isDir, ?_, h.valid, h.mapped⟩
      · intro i hi
        have := h.next
        have : i ≠ c.sh.fs.next := by omega
        simp [upd, this, h.data i hi]
      · intro i hi
        have := h.next
        have : i ≠ c.sh.fs.next := by omega
        simp [upd, this, h.mode i hi]
      · have := h.next
        show s0.fs.next ≤ c.sh.fs.next + 1
        omega
      · intro p i hp
        show i < c.sh.fs.next + 1
        simp only [upd] at hp
        split at hp
        · simp at hp; omega
        · have := h.named p i hp; omega
      · intro n
        by_cases hn : n = (c.procs k).job.dest
        · right
          refine ⟨(c.procs k).job, hmem, hn.symm, c.sh.fs.next, ?_, h.next, ?_⟩
          · simp [upd, hn]
          · simpa [upd] using hnb
        · rcases h.each n with ho | ⟨j, hj, hjd, i, hi, hlo, hb⟩
          · left
            simpa [upd, hn] using ho
          · right
            refine ⟨j, hj, hjd, i, by simpa [upd, hn] using hi, hlo, ?_⟩
            have := h.named _ i hi
            have hne : i ≠ c.sh.fs.next := by omega
            simpa [upd, hne] using hb
      · simpa [upd] using h.tmp

/-- Generic invariant rule for a schedule: `P` is kept by every step that satisfies `ok`. -/
theorem crun_inv (nm : Nat) {P : CSt → Prop} (ok : Eff → Bool → Bool)
    (hstep : ∀ c k o e, P c → nextEff (c.procs k).pc = some e → ok e o.isSome = true →
      P ⟨(stepProc nm c.sh (c.procs k) o).1, upd c.procs k (stepProc nm c.sh (c.procs k) o).2⟩) :
    ∀ (sched : List Pick) (c : CSt), P c →
      (∀ st ∈ (crun nm sched c).1, ok st.eff st.failed = true) →
      P (crun nm sched c).2 ∧ ∀ st ∈ (crun nm sched c).1, P st.st
  | [], c, hc, _ => by simp [crun, hc]
  | pk :: r, c, hc, hok => by
    simp only [crun] at hok ⊢
    split
    · rename_i hn
      simp only [hn] at hok
      exact crun_inv nm ok hstep r c hc hok
    · rename_i e hn
      simp only [hn] at hok
      have h1 := hstep c pk.k pk.fault e hc hn (hok ⟨pk.k, e, pk.fault.isSome, _⟩ (List.mem_cons_self ..))
      have ih := crun_inv nm ok hstep r _ h1 (fun st hst => hok st (List.mem_cons_of_mem _ hst))
      refine ⟨ih.1, ?_⟩
      intro st hst
      simp only [List.mem_cons] at hst
      rcases hst with rfl | hst
      · exact h1
      · exact ih.2 st hst

end IrVerif.AtomicSave

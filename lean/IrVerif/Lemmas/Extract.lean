/-
Helper development for property C18: declarative specification of "used inside a nested graph",
"needed values/nodes of a region" and the invariant of the backward walk.
-/
import IrVerif.Model.Extract
namespace IrVerif.Extract

/-! ## values used inside nested graphs, declaratively -/

mutual
  /-- `v` is an input of some node of `g` or of a graph nested in `g` at any depth -/
  inductive UsedInG : GraphT → VId → Prop
    | node {g : GraphT} {n : NodeT} {v : VId} : n ∈ g.nodes → UsedInN n v → UsedInG g v
  inductive UsedInN : NodeT → VId → Prop
    | direct {n : NodeT} {v : VId} : some v ∈ n.inputs → UsedInN n v
    | nested {n : NodeT} {b : GraphT} {v : VId} : b ∈ n.bodies → UsedInG b v → UsedInN n v
end

theorem mem_ins {n : NodeT} {v : VId} : v ∈ n.ins ↔ some v ∈ n.inputs := by
  unfold NodeT.ins
  simp [List.mem_filterMap]

mutual
  theorem mem_usedG : ∀ (g : GraphT) (v : VId), v ∈ usedG g ↔ UsedInG g v
    | .mk gid i w o ns, v => by
      rw [usedG]
      constructor
      · intro h
        obtain ⟨n, hn, hu⟩ := (mem_usedNs ns v).mp h
        exact UsedInG.node (g := .mk gid i w o ns) hn hu
      · intro h
        cases h with
        | node hn hu => exact (mem_usedNs ns v).mpr ⟨_, hn, hu⟩
  theorem mem_usedNs : ∀ (ns : List NodeT) (v : VId), v ∈ usedNs ns ↔ ∃ n, n ∈ ns ∧ UsedInN n v
    | [], v => by simp [usedNs]
    | n :: ns, v => by
      rw [usedNs, List.mem_append, mem_usedN n v, mem_usedNs ns v]
      simp
  theorem mem_usedN : ∀ (n : NodeT) (v : VId), v ∈ usedN n ↔ UsedInN n v
    | .mk ins outs bs, v => by
      rw [usedN, List.mem_append]
      constructor
      · intro h
        rcases h with h | h
        · exact UsedInN.direct (n := .mk ins outs bs) (by simpa [List.mem_filterMap] using h)
        · obtain ⟨b, hb, hu⟩ := (mem_usedGs bs v).mp h
          exact UsedInN.nested (n := .mk ins outs bs) hb hu
      · intro h
        cases h with
        | direct hd => left; simpa [List.mem_filterMap] using hd
        | nested hb hu => right; exact (mem_usedGs bs v).mpr ⟨_, hb, hu⟩
  theorem mem_usedGs : ∀ (gs : List GraphT) (v : VId), v ∈ usedGs gs ↔ ∃ g, g ∈ gs ∧ UsedInG g v
    | [], v => by simp [usedGs]
    | g :: gs, v => by
      rw [usedGs, List.mem_append, mem_usedG g v, mem_usedGs gs v]
      simp
end

mutual
  /-- `v` is defined in `g` or in a graph nested in `g`: graph input, initializer or node output -/
  inductive DefInG : GraphT → VId → Prop
    | input {g : GraphT} {v : VId} : v ∈ g.inputs → DefInG g v
    | init {g : GraphT} {v : VId} : v ∈ g.inits → DefInG g v
    | node {g : GraphT} {n : NodeT} {v : VId} : n ∈ g.nodes → DefInN n v → DefInG g v
  inductive DefInN : NodeT → VId → Prop
    | out {n : NodeT} {v : VId} : v ∈ n.outputs → DefInN n v
    | nested {n : NodeT} {b : GraphT} {v : VId} : b ∈ n.bodies → DefInG b v → DefInN n v
end

/-- `k` is the id of `b` or of a graph nested in `b` at any depth -/
inductive NestedIn : GraphT → GId → Prop
  | self {b : GraphT} : NestedIn b b.gid
  | deeper {b c : GraphT} {n : NodeT} {k : GId} : n ∈ b.nodes → c ∈ n.bodies → NestedIn c k → NestedIn b k

mutual
  theorem mem_gidsG : ∀ (g : GraphT) (k : GId), k ∈ gidsG g ↔ NestedIn g k
    | .mk gid i w o ns, k => by
      rw [gidsG, List.mem_cons, mem_gidsNs ns k]
      constructor
      · rintro (rfl | ⟨n, hn, c, hc, h⟩)
        · exact NestedIn.self (b := .mk k i w o ns)
        · exact NestedIn.deeper (b := .mk gid i w o ns) hn hc h
      · intro h
        cases h with
        | self => exact Or.inl rfl
        | deeper hn hc h => exact Or.inr ⟨_, hn, _, hc, h⟩
  theorem mem_gidsNs : ∀ (ns : List NodeT) (k : GId),
      k ∈ gidsNs ns ↔ ∃ n, n ∈ ns ∧ ∃ c, c ∈ n.bodies ∧ NestedIn c k
    | [], k => by simp [gidsNs]
    | n :: ns, k => by
      rw [gidsNs, List.mem_append, mem_gidsN n k, mem_gidsNs ns k]
      simp
  theorem mem_gidsN : ∀ (n : NodeT) (k : GId), k ∈ gidsN n ↔ ∃ c, c ∈ n.bodies ∧ NestedIn c k
    | .mk ins outs bs, k => by
      rw [gidsN, mem_gidsGs bs k]
      simp
  theorem mem_gidsGs : ∀ (gs : List GraphT) (k : GId), k ∈ gidsGs gs ↔ ∃ c, c ∈ gs ∧ NestedIn c k
    | [], k => by simp [gidsGs]
    | g :: gs, k => by
      rw [gidsGs, List.mem_append, mem_gidsG g k, mem_gidsGs gs k]
      simp
end

/-- `v` is not owned by `b` nor by a graph nested in `b`, or it is owned by `p`: what a nested graph `b` of a
    region of graph `p` captures from outside -/
def Outside (W : World) (p : GId) (b : GraphT) (v : VId) : Prop :=
  W.graphOf v = some p ∨ ∀ k, NestedIn b k → W.graphOf v ≠ some k

theorem mem_externalValues {W : World} {p : GId} {g : GraphT} {v : VId} :
    v ∈ externalValues W p g ↔ UsedInG g v ∧ Outside W p g v := by
  unfold externalValues Outside
  rw [List.mem_filter, mem_usedG]
  simp only [Bool.or_eq_true, beq_iff_eq, Bool.not_eq_eq_eq_not, Bool.not_true,
    List.contains_eq_mem, decide_eq_false_iff_not, List.mem_map, not_exists, not_and]
  constructor
  · rintro ⟨h1, h2 | h2⟩
    · exact ⟨h1, Or.inl h2⟩
    · exact ⟨h1, Or.inr (fun k hk e => h2 k ((mem_gidsG g k).mpr hk) e.symm)⟩
  · rintro ⟨h1, h2 | h2⟩
    · exact ⟨h1, Or.inl h2⟩
    · exact ⟨h1, Or.inr (fun k hk e => h2 k ((mem_gidsG g k).mp hk) e.symm)⟩

theorem mem_captured {W : World} {p : GId} {n : NodeT} {v : VId} :
    v ∈ captured W p n ↔ ∃ b, b ∈ n.bodies ∧ UsedInG b v ∧ Outside W p b v := by
  unfold captured
  rw [List.mem_flatMap]
  constructor
  · rintro ⟨b, hb, h⟩; exact ⟨b, hb, mem_externalValues.mp h⟩
  · rintro ⟨b, hb, h⟩; exact ⟨b, hb, mem_externalValues.mpr h⟩

/-! ## the region, declaratively -/

/-- `u` is needed to run node `n` of the table when extracting from graph `p`: it is an input of `n`, or it
    is used at any depth inside a graph held by an attribute of `n` and comes from outside that graph -/
def Needs (W : World) (p : GId) (n : NId) (u : VId) : Prop :=
  some u ∈ (W.nodeD n).inputs ∨
  ∃ b, b ∈ (W.nodeD n).bodies ∧ UsedInG b u ∧ Outside W p b u

/-- the required values: least set containing the outputs not cut by the boundary inputs `I` and closed
    under "needed by the producer of a required value, unless cut by `I`" -/
inductive Reach (W : World) (p : GId) (I O : List VId) : VId → Prop
  | out {v : VId} : v ∈ O → ¬ v ∈ I → Reach W p I O v
  | step {v u : VId} {n : NId} : Reach W p I O v → W.prod v = some n → Needs W p n u → ¬ u ∈ I →
      Reach W p I O u

/-- the required nodes: producers of required values -/
def NeedN (W : World) (p : GId) (I O : List VId) (n : NId) : Prop :=
  ∃ v, Reach W p I O v ∧ W.prod v = some n

theorem Reach.not_mem {W : World} {p : GId} {I O : List VId} {v : VId} (h : Reach W p I O v) : ¬ v ∈ I := by
  cases h <;> assumption

theorem needs_iff {W : World} {p : GId} {n : NId} {u : VId} :
    Needs W p n u ↔ u ∈ (W.nodeD n).ins ∨ u ∈ captured W p (W.nodeD n) := by
  unfold Needs
  rw [mem_ins, mem_captured]

theorem mem_pushes {W : World} {p : GId} {vis : List VId} {n : NId} {u : VId} :
    u ∈ pushes W p vis (W.nodeD n) ↔ Needs W p n u ∧ ¬ u ∈ vis := by
  unfold pushes
  rw [needs_iff, List.mem_append, List.mem_filter, List.mem_filter]
  simp only [List.contains_eq_mem, Bool.not_eq_eq_eq_not, Bool.not_true, decide_eq_false_iff_not]
  constructor
  · rintro (⟨h1, h2⟩ | ⟨h1, h2⟩)
    · exact ⟨Or.inl h1, h2⟩
    · exact ⟨Or.inr h1, h2⟩
  · rintro ⟨h1 | h1, h2⟩
    · exact Or.inl ⟨h1, h2⟩
    · exact Or.inr ⟨h1, h2⟩

/-! ## invariant of the walk -/

/-- soundness (everything touched is required) and closure (everything required by what was touched is
    touched or still on the stack) of the loop state -/
structure Inv (W : World) (p : GId) (fn : Bool) (I O : List VId) (s : WS) : Prop where
  sStack : ∀ v, v ∈ s.stack → v ∈ I ∨ Reach W p I O v
  sVals : ∀ v, v ∈ s.valsV → v ∈ I ∨ Reach W p I O v
  sNodes : ∀ n, n ∈ s.nodesV → NeedN W p I O n
  sInited : ∀ v, v ∈ s.inited → W.isInit v = true ∧ ((v ∈ I ∧ fn = false) ∨ Reach W p I O v)
  cIns : ∀ v, v ∈ I → v ∈ s.valsV
  cOuts : ∀ v, v ∈ O → v ∈ s.valsV ∨ v ∈ s.stack
  cVals : ∀ v, v ∈ s.valsV → ¬ v ∈ I →
    (W.isInit v = true → v ∈ s.inited) ∧ (∀ n, W.prod v = some n → n ∈ s.nodesV)
  cNodes : ∀ n, n ∈ s.nodesV → ∀ u, Needs W p n u → u ∈ s.valsV ∨ u ∈ s.stack
  cInsInit : fn = false → ∀ v, v ∈ I → W.isInit v = true → v ∈ s.inited

theorem walkInit_inv (W : World) (p : GId) (fn : Bool) (I O : List VId) :
    Inv W p fn I O (walkInit W fn I O) := by
  refine ⟨?_, ?_, ?_, ?_, ?_, ?_, ?_, ?_, ?_⟩
  · intro v hv
    simp only [walkInit, List.mem_reverse] at hv
    by_cases h : v ∈ I
    · exact Or.inl h
    · exact Or.inr (Reach.out hv h)
  · intro v hv; exact Or.inl hv
  · intro n hn; simp [walkInit] at hn
  · intro v hv
    simp only [walkInit] at hv
    cases fn with
    | true => simp at hv
    | false =>
      simp only [Bool.false_eq_true, if_false, List.mem_filter] at hv
      exact ⟨hv.2, Or.inl ⟨hv.1, rfl⟩⟩
  · intro v hv; exact hv
  · intro v hv; right; simp [walkInit, hv]
  · intro v hv hn; exact absurd hv hn
  · intro n hn; simp [walkInit] at hn
  · intro hfn v hv hi
    subst hfn
    simp [walkInit, hv, hi]

def initedStep (W : World) (s : WS) (v : VId) : List VId :=
  if W.isInit v then s.inited ++ [v] else s.inited

theorem mem_initedStep {W : World} {s : WS} {v u : VId} :
    u ∈ initedStep W s v ↔ u ∈ s.inited ∨ (u = v ∧ W.isInit v = true) := by
  unfold initedStep
  by_cases h : W.isInit v = true
  · simp [h]
  · simp [h]

/-- popping a new value whose producer (if any) is already visited -/
theorem inv_pop_old {W : World} {p : GId} {fn : Bool} {I O : List VId} {s : WS} {v : VId}
    {rest : List VId} (hs : s.stack = v :: rest) (h : Inv W p fn I O s) (hc : ¬ v ∈ s.valsV)
    (hp : ∀ n, W.prod v = some n → n ∈ s.nodesV) :
    Inv W p fn I O { stack := rest, nodesV := s.nodesV, valsV := s.valsV ++ [v],
                     inited := initedStep W s v } := by
  have hvI : ¬ v ∈ I := fun hv => hc (h.cIns v hv)
  have hRv : Reach W p I O v := by
    rcases h.sStack v (by rw [hs]; exact List.mem_cons_self) with hv | hv
    · exact absurd hv hvI
    · exact hv
  refine ⟨?_, ?_, ?_, ?_, ?_, ?_, ?_, ?_, ?_⟩
  · intro u hu; exact h.sStack u (by rw [hs]; exact List.mem_cons_of_mem _ hu)
  · intro u hu
    rcases List.mem_append.mp hu with hu | hu
    · exact h.sVals u hu
    · simp at hu; subst hu; exact Or.inr hRv
  · exact h.sNodes
  · intro u hu
    rcases mem_initedStep.mp hu with hu | ⟨rfl, hi⟩
    · exact h.sInited u hu
    · exact ⟨hi, Or.inr hRv⟩
  · intro u hu; exact List.mem_append_left _ (h.cIns u hu)
  · intro u hu
    rcases h.cOuts u hu with hu | hu
    · exact Or.inl (List.mem_append_left _ hu)
    · rw [hs] at hu
      rcases List.mem_cons.mp hu with rfl | hu
      · exact Or.inl (by simp)
      · exact Or.inr hu
  · intro u hu hnI
    rcases List.mem_append.mp hu with hu | hu
    · have := h.cVals u hu hnI
      exact ⟨fun hi => mem_initedStep.mpr (Or.inl (this.1 hi)), this.2⟩
    · simp at hu; subst hu
      exact ⟨fun hi => mem_initedStep.mpr (Or.inr ⟨rfl, hi⟩), hp⟩
  · intro n hn u hu
    rcases h.cNodes n hn u hu with hu | hu
    · exact Or.inl (List.mem_append_left _ hu)
    · rw [hs] at hu
      rcases List.mem_cons.mp hu with rfl | hu
      · exact Or.inl (by simp)
      · exact Or.inr hu
  · intro hfn u hu hi
    exact mem_initedStep.mpr (Or.inl (h.cInsInit hfn u hu hi))

/-- popping a new value whose producer `n` is visited for the first time -/
theorem inv_pop_new {W : World} {p : GId} {fn : Bool} {I O : List VId} {s : WS} {v : VId}
    {rest : List VId} {n : NId} (hs : s.stack = v :: rest) (h : Inv W p fn I O s)
    (hc : ¬ v ∈ s.valsV) (hp : W.prod v = some n) :
    Inv W p fn I O { stack := (pushes W p (s.valsV ++ [v]) (W.nodeD n)).reverse ++ rest,
                     nodesV := s.nodesV ++ [n], valsV := s.valsV ++ [v],
                     inited := initedStep W s v } := by
  have hvI : ¬ v ∈ I := fun hv => hc (h.cIns v hv)
  have hRv : Reach W p I O v := by
    rcases h.sStack v (by rw [hs]; exact List.mem_cons_self) with hv | hv
    · exact absurd hv hvI
    · exact hv
  refine ⟨?_, ?_, ?_, ?_, ?_, ?_, ?_, ?_, ?_⟩
  · intro u hu
    rcases List.mem_append.mp hu with hu | hu
    · rw [List.mem_reverse, mem_pushes] at hu
      have huI : ¬ u ∈ I := fun hi => hu.2 (List.mem_append_left _ (h.cIns u hi))
      exact Or.inr (Reach.step hRv hp hu.1 huI)
    · exact h.sStack u (by rw [hs]; exact List.mem_cons_of_mem _ hu)
  · intro u hu
    rcases List.mem_append.mp hu with hu | hu
    · exact h.sVals u hu
    · simp at hu; subst hu; exact Or.inr hRv
  · intro m hm
    rcases List.mem_append.mp hm with hm | hm
    · exact h.sNodes m hm
    · simp at hm; subst hm; exact ⟨v, hRv, hp⟩
  · intro u hu
    rcases mem_initedStep.mp hu with hu | ⟨rfl, hi⟩
    · exact h.sInited u hu
    · exact ⟨hi, Or.inr hRv⟩
  · intro u hu; exact List.mem_append_left _ (h.cIns u hu)
  · intro u hu
    rcases h.cOuts u hu with hu | hu
    · exact Or.inl (List.mem_append_left _ hu)
    · rw [hs] at hu
      rcases List.mem_cons.mp hu with rfl | hu
      · exact Or.inl (by simp)
      · exact Or.inr (List.mem_append_right _ hu)
  · intro u hu hnI
    rcases List.mem_append.mp hu with hu | hu
    · have := h.cVals u hu hnI
      exact ⟨fun hi => mem_initedStep.mpr (Or.inl (this.1 hi)),
             fun m hm => List.mem_append_left _ (this.2 m hm)⟩
    · simp at hu; subst hu
      refine ⟨fun hi => mem_initedStep.mpr (Or.inr ⟨rfl, hi⟩), ?_⟩
      intro m hm
      rw [hp] at hm
      cases hm
      simp
  · intro m hm u hu
    rcases List.mem_append.mp hm with hm | hm
    · rcases h.cNodes m hm u hu with hu | hu
      · exact Or.inl (List.mem_append_left _ hu)
      · rw [hs] at hu
        rcases List.mem_cons.mp hu with rfl | hu
        · exact Or.inl (by simp)
        · exact Or.inr (List.mem_append_right _ hu)
    · simp at hm; subst hm
      by_cases hvis : u ∈ s.valsV ++ [v]
      · exact Or.inl hvis
      · right
        apply List.mem_append_left
        rw [List.mem_reverse, mem_pushes]
        exact ⟨hu, hvis⟩
  · intro hfn u hu hi
    exact mem_initedStep.mpr (Or.inl (h.cInsInit hfn u hu hi))

theorem walkStep_inv {W : World} {p : GId} {fn : Bool} {I O : List VId} {s : WS} {v : VId}
    {rest : List VId} (hs : s.stack = v :: rest) (h : Inv W p fn I O s) :
    Inv W p fn I O (walkStep W p s v rest) := by
  unfold walkStep
  by_cases hc : v ∈ s.valsV
  · rw [if_pos hc]
    refine ⟨?_, h.sVals, h.sNodes, h.sInited, h.cIns, ?_, h.cVals, ?_, h.cInsInit⟩
    · intro u hu; exact h.sStack u (by rw [hs]; exact List.mem_cons_of_mem _ hu)
    · intro u hu
      rcases h.cOuts u hu with hu | hu
      · exact Or.inl hu
      · rw [hs] at hu
        rcases List.mem_cons.mp hu with rfl | hu
        · exact Or.inl hc
        · exact Or.inr hu
    · intro n hn u hu
      rcases h.cNodes n hn u hu with hu | hu
      · exact Or.inl hu
      · rw [hs] at hu
        rcases List.mem_cons.mp hu with rfl | hu
        · exact Or.inl hc
        · exact Or.inr hu
  · rw [if_neg hc]
    cases hp : W.prod v with
    | none =>
      exact inv_pop_old hs h hc (by intro n hn; rw [hp] at hn; cases hn)
    | some n =>
      by_cases hn : n ∈ s.nodesV
      · simp only [if_pos hn]
        exact inv_pop_old hs h hc (by intro m hm; rw [hp] at hm; cases hm; exact hn)
      · simp only [if_neg hn]
        exact inv_pop_new hs h hc hp

theorem walk_inv {W : World} {p : GId} {fn : Bool} {I O : List VId} (s : WS)
    (h : Inv W p fn I O s) : Inv W p fn I O (walk W p s) := by
  fun_induction walk W p s with
  | case1 s hs => exact h
  | case2 s v rest hs ih => exact ih (walkStep_inv hs h)

theorem walk_stack (W : World) (p : GId) (s : WS) : (walk W p s).stack = [] := by
  fun_induction walk W p s with
  | case1 s hs => exact hs
  | case2 s v rest hs ih => exact ih

theorem walkStep_nodup {W : World} {p : GId} {s : WS} {v : VId} {rest : List VId}
    (h : s.nodesV.Nodup) : (walkStep W p s v rest).nodesV.Nodup := by
  unfold walkStep
  by_cases hc : v ∈ s.valsV
  · rw [if_pos hc]; exact h
  · rw [if_neg hc]
    cases hp : W.prod v with
    | none => exact h
    | some n =>
      by_cases hn : n ∈ s.nodesV
      · simp only [if_pos hn]; exact h
      · simp only [if_neg hn]
        rw [List.nodup_append]
        refine ⟨h, by simp, ?_⟩
        intro a ha b hb
        simp at hb
        subst hb
        intro hab
        subst hab
        exact hn ha

theorem walk_nodup {W : World} {p : GId} (s : WS) (h : s.nodesV.Nodup) :
    (walk W p s).nodesV.Nodup := by
  fun_induction walk W p s with
  | case1 s hs => exact h
  | case2 s v rest hs ih => exact ih (walkStep_nodup h)

/-- at the end of the walk every required value has been visited -/
theorem reach_visited {W : World} {p : GId} {fn : Bool} {I O : List VId} {s : WS}
    (h : Inv W p fn I O s) (hst : s.stack = []) {v : VId} (hr : Reach W p I O v) : v ∈ s.valsV := by
  induction hr with
  | out ho _ =>
    rcases h.cOuts _ ho with h1 | h1
    · exact h1
    · rw [hst] at h1; cases h1
  | step hr hp hn hnI ih =>
    have := (h.cVals _ ih hr.not_mem).2 _ hp
    rcases h.cNodes _ this _ hn with h1 | h1
    · exact h1
    · rw [hst] at h1; cases h1

/-! ## sorting by original index -/

theorem mem_insertByKey {key : Nat → Nat} {x y : Nat} {l : List Nat} :
    y ∈ insertByKey key x l ↔ y = x ∨ y ∈ l := by
  induction l with
  | nil => simp [insertByKey]
  | cons a t ih =>
    unfold insertByKey
    by_cases h : key x < key a
    · simp [h]
    · simp only [h, if_false, List.mem_cons, ih]
      constructor
      · rintro (h | h | h)
        · exact Or.inr (Or.inl h)
        · exact Or.inl h
        · exact Or.inr (Or.inr h)
      · rintro (h | h | h)
        · exact Or.inr (Or.inl h)
        · exact Or.inl h
        · exact Or.inr (Or.inr h)

theorem mem_sortByKey {key : Nat → Nat} {y : Nat} {l : List Nat} :
    y ∈ sortByKey key l ↔ y ∈ l := by
  unfold sortByKey
  induction l with
  | nil => simp
  | cons a t ih => simp only [List.foldr_cons, mem_insertByKey, ih, List.mem_cons]

theorem insertByKey_sorted {key : Nat → Nat} {x : Nat} {l : List Nat}
    (h : l.Pairwise (fun a b => key a ≤ key b)) :
    (insertByKey key x l).Pairwise (fun a b => key a ≤ key b) := by
  induction l with
  | nil => simp [insertByKey]
  | cons a t ih =>
    unfold insertByKey
    rw [List.pairwise_cons] at h
    by_cases hx : key x < key a
    · simp only [hx, if_true]
      rw [List.pairwise_cons]
      refine ⟨?_, List.pairwise_cons.mpr h⟩
      intro b hb
      rcases List.mem_cons.mp hb with rfl | hb
      · omega
      · have := h.1 b hb; omega
    · simp only [hx, if_false]
      rw [List.pairwise_cons]
      refine ⟨?_, ih h.2⟩
      intro b hb
      rcases mem_insertByKey.mp hb with rfl | hb
      · omega
      · exact h.1 b hb

theorem sortByKey_sorted (key : Nat → Nat) (l : List Nat) :
    (sortByKey key l).Pairwise (fun a b => key a ≤ key b) := by
  unfold sortByKey
  induction l with
  | nil => simp
  | cons a t ih => simp only [List.foldr_cons]; exact insertByKey_sorted ih

theorem insertByKey_nodup {key : Nat → Nat} {x : Nat} {l : List Nat} (h : l.Nodup) (hx : ¬ x ∈ l) :
    (insertByKey key x l).Nodup := by
  induction l with
  | nil => simp [insertByKey]
  | cons a t ih =>
    unfold insertByKey
    by_cases hk : key x < key a
    · simp only [hk, if_true]
      exact List.nodup_cons.mpr ⟨hx, h⟩
    · simp only [hk, if_false]
      rw [List.nodup_cons] at h ⊢
      refine ⟨?_, ih h.2 (fun hm => hx (List.mem_cons_of_mem _ hm))⟩
      intro hm
      rcases mem_insertByKey.mp hm with rfl | hm
      · exact hx List.mem_cons_self
      · exact h.1 hm

theorem sortByKey_nodup {key : Nat → Nat} {l : List Nat} (h : l.Nodup) : (sortByKey key l).Nodup := by
  unfold sortByKey
  induction l with
  | nil => simp
  | cons a t ih =>
    rw [List.nodup_cons] at h
    simp only [List.foldr_cons]
    exact insertByKey_nodup (ih h.2) (fun hm => h.1 (mem_sortByKey.mp hm))

/-- two strictly key-increasing lists with the same elements are equal -/
theorem strict_sorted_ext {key : Nat → Nat} : ∀ {l1 l2 : List Nat},
    l1.Pairwise (fun a b => key a < key b) → l2.Pairwise (fun a b => key a < key b) →
    (∀ x, x ∈ l1 ↔ x ∈ l2) → l1 = l2
  | [], [], _, _, _ => rfl
  | [], b :: t2, _, _, hm => by have := (hm b).mpr List.mem_cons_self; cases this
  | a :: t, [], _, _, hm => by have := (hm a).mp List.mem_cons_self; cases this
  | a :: t, b :: t2, h1, h2, hm => by
    rw [List.pairwise_cons] at h1 h2
    have hab : a = b := by
      rcases List.mem_cons.mp ((hm a).mp List.mem_cons_self) with h | h
      · exact h
      · rcases List.mem_cons.mp ((hm b).mpr List.mem_cons_self) with h' | h'
        · exact h'.symm
        · have := h1.1 b h'; have := h2.1 a h; omega
    subst hab
    congr 1
    apply strict_sorted_ext h1.2 h2.2
    intro x
    constructor
    · intro hx
      rcases List.mem_cons.mp ((hm x).mp (List.mem_cons_of_mem _ hx)) with rfl | h
      · have := h1.1 x hx; omega
      · exact h
    · intro hx
      rcases List.mem_cons.mp ((hm x).mpr (List.mem_cons_of_mem _ hx)) with rfl | h
      · have := h2.1 x hx; omega
      · exact h

theorem idxOf_pairwise : ∀ {l : List Nat}, l.Nodup → l.Pairwise (fun a b => l.idxOf a < l.idxOf b)
  | [], _ => List.Pairwise.nil
  | a :: t, h => by
    rw [List.nodup_cons] at h
    rw [List.pairwise_cons]
    constructor
    · intro b hb
      have hne : (a == b) = false := by
        simp only [beq_eq_false_iff_ne, ne_eq]; exact fun e => h.1 (e ▸ hb)
      simp [List.idxOf_cons, hne]
    · refine (idxOf_pairwise h.2).imp_of_mem ?_
      intro x y hx hy hxy
      have hx' : (a == x) = false := by
        simp only [beq_eq_false_iff_ne, ne_eq]; exact fun e => h.1 (e ▸ hx)
      have hy' : (a == y) = false := by
        simp only [beq_eq_false_iff_ne, ne_eq]; exact fun e => h.1 (e ▸ hy)
      simp only [List.idxOf_cons, hx', hy', cond_false]
      omega

theorem idxOf_inj {l : List Nat} {a b : Nat} (ha : a ∈ l) (h : l.idxOf a = l.idxOf b) : a = b := by
  have h1 := List.idxOf_lt_length_of_mem ha
  have hb : l.idxOf b < l.length := by omega
  have e1 := List.getElem_idxOf h1
  have e2 := List.getElem_idxOf hb
  simp only [h] at e1
  rw [← e1, e2]

/-- sorting a duplicate-free subset of `g` by position in `g` gives `g` filtered by that subset -/
theorem sortByKey_idxOf_eq_filter {g l : List Nat} (hg : g.Nodup) (hl : l.Nodup)
    (hsub : ∀ x, x ∈ l → x ∈ g) :
    sortByKey (fun n => g.idxOf n) l = g.filter (fun n => decide (n ∈ l)) := by
  apply strict_sorted_ext (key := fun n => g.idxOf n)
  · have hs := sortByKey_sorted (fun n => g.idxOf n) l
    have hn := sortByKey_nodup (key := fun n => g.idxOf n) hl
    have hboth := hs.and (List.nodup_iff_pairwise_ne.mp hn |> fun h => h)
    refine hboth.imp_of_mem ?_
    intro a b ha hb hab
    have hne : a ≠ b := hab.2
    have hle := hab.1
    have : g.idxOf a ≠ g.idxOf b := fun e => hne (idxOf_inj (hsub a (mem_sortByKey.mp ha)) e)
    omega
  · exact (idxOf_pairwise hg).filter _
  · intro x
    rw [mem_sortByKey, List.mem_filter]
    simp only [decide_eq_true_eq]
    exact ⟨fun h => ⟨hsub x h, h⟩, fun h => h.2⟩

end IrVerif.Extract

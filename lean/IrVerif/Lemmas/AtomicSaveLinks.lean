/-
Helper lemmas for the link-level part of C08 (`Model/AtomicSaveLinks.lean`). Core Lean only.
-/
import IrVerif.Lemmas.AtomicSave
import IrVerif.Model.AtomicSaveLinks
namespace IrVerif.AtomicSave

/-! ### Path resolution -/

def Proper (c : String) : Prop := c ≠ "" ∧ c ≠ "." ∧ c ≠ ".."

theorem proper_of_properName {c : String} (h : properName c = true) : Proper c := by
  simp only [properName, Bool.and_eq_true, bne_iff_ne, ne_eq] at h
  exact ⟨h.1.1, h.1.2, h.2⟩

/-- A real path: no non-empty prefix of it is the location of a link, all components are proper names. -/
structure Real (L : Links) (p : Comps) : Prop where
  pref : ∀ q, q <+: p → q ≠ [] → L.lookup q = none
  proper : ∀ c ∈ p, Proper c

theorem Real.nil (L : Links) : Real L [] :=
  ⟨fun q hq hne => by simp at hq; exact absurd hq hne, fun c hc => by simp at hc⟩

theorem Real.dropLast {L : Links} {p : Comps} (h : Real L p) : Real L p.dropLast :=
  ⟨fun q hq hne => h.pref q (List.IsPrefix.trans hq (List.dropLast_prefix p)) hne,
   fun c hc => h.proper c (List.dropLast_subset p hc)⟩

theorem Real.concat {L : Links} {p : Comps} {c : String} (h : Real L p) (hc : Proper c)
    (hl : L.lookup (p ++ [c]) = none) : Real L (p ++ [c]) := by
  refine ⟨fun q hq hne => ?_, fun x hx => ?_⟩
  · rcases List.prefix_concat_iff.mp hq with rfl | hq'
    · exact hl
    · exact h.pref q hq' hne
  · simp only [List.mem_append, List.mem_singleton] at hx
    rcases hx with hx | rfl
    · exact h.proper x hx
    · exact hc

theorem Real.prefix {L : Links} {p q : Comps} (h : Real L p) (hq : q <+: p) : Real L q :=
  ⟨fun r hr hne => h.pref r (List.IsPrefix.trans hr hq) hne, fun c hc => h.proper c (hq.subset hc)⟩

theorem walk_nil (L : Links) (g : Nat) (done : Comps) : walk L g done [] = some (g, done) := by
  cases g <;> simp [walk]

/-- The result of a successful resolution is a real path, not longer than the gas spent allows. -/
theorem walk_real (L : Links) : ∀ (g : Nat) (done rest : Comps) (g' : Nat) (r : Comps), Real L done →
    walk L g done rest = some (g', r) → Real L r ∧ r.length + g' ≤ done.length + g
  | g, done, [], g', r, hd, h => by
    rw [walk_nil] at h
    simp only [Option.some.injEq, Prod.mk.injEq] at h
    rcases h with ⟨rfl, rfl⟩
    exact ⟨hd, Nat.le_refl _⟩
  | 0, done, c :: rest, g', r, hd, h => by simp [walk] at h
  | g + 1, done, c :: rest, g', r, hd, h => by
    simp only [walk] at h
    split at h
    · have := walk_real L g done rest g' r hd h
      exact ⟨this.1, by omega⟩
    · rename_i hc1
      split at h
      · have := walk_real L g done.dropLast rest g' r hd.dropLast h
        have hl : done.dropLast.length ≤ done.length := by simp
        exact ⟨this.1, by omega⟩
      · rename_i hc2
        split at h
        · rename_i l hl
          by_cases ha : l.abs = true
          · simp only [ha, if_true] at h
            have := walk_real L g [] (l.target ++ rest) g' r (Real.nil L) h
            exact ⟨this.1, by simp at this; omega⟩
          · simp only [ha] at h
            have := walk_real L g done (l.target ++ rest) g' r hd (by simpa using h)
            exact ⟨this.1, by omega⟩
        · rename_i hl
          have hp : Proper c := by
            simp only [not_or] at hc1
            exact ⟨hc1.1, hc1.2, hc2⟩
          have := walk_real L g (done ++ [c]) rest g' r (hd.concat hp hl) h
          exact ⟨this.1, by simp at this; omega⟩

/-- Resolving a real path spends one unit of gas per component and returns the path itself. -/
theorem walk_of_real (L : Links) : ∀ (rest : Comps) (g : Nat) (done : Comps), Real L (done ++ rest) →
    rest.length ≤ g → walk L g done rest = some (g - rest.length, done ++ rest)
  | [], g, done, _, _ => by simp [walk_nil]
  | c :: rest, 0, done, _, hg => by simp at hg
  | c :: rest, g + 1, done, hr, hg => by
    have hp : Proper c := hr.proper c (by simp)
    have hl : L.lookup (done ++ [c]) = none :=
      hr.pref (done ++ [c]) (by simp [List.prefix_append_right_inj]) (by simp)
    have hr' : Real L ((done ++ [c]) ++ rest) := by simpa using hr
    have ih := walk_of_real L rest g (done ++ [c]) hr' (by simp at hg; omega)
    simp only [walk, hp.1, hp.2.1, hp.2.2, or_self, if_false, hl]
    rw [ih]
    simp only [List.length_cons, List.append_assoc, List.singleton_append, Option.some.injEq, Prod.mk.injEq,
      and_true]
    omega

theorem walk_append (L : Links) : ∀ (g : Nat) (done xs ys : Comps),
    walk L g done (xs ++ ys) = (walk L g done xs).bind fun q => walk L q.1 q.2 ys
  | g, done, [], ys => by simp [walk_nil]
  | 0, done, c :: xs, ys => by simp [walk]
  | g + 1, done, c :: xs, ys => by
    simp only [List.cons_append, walk]
    split
    · exact walk_append L g done xs ys
    · split
      · exact walk_append L g done.dropLast xs ys
      · split
        · rename_i l _
          rw [← List.append_assoc]
          exact walk_append L g _ (l.target ++ xs) ys
        · exact walk_append L g (done ++ [c]) xs ys

theorem eraseKey_of_lookup_none (k : Comps) : ∀ (L : Links), L.lookup k = none → eraseKey k L = L
  | [], _ => rfl
  | (a, l) :: r, h => by
    simp only [List.lookup] at h
    split at h
    · simp at h
    · rename_i hne
      have hak : ¬ a = k := by
        intro hh; subst hh; simp at hne
      simp only [eraseKey, hak, if_false]
      rw [eraseKey_of_lookup_none k r h]

theorem getLast?_dropLast_concat {α : Type} : ∀ (p : List α) (b : α), p.getLast? = some b → p = p.dropLast ++ [b] := by
  intro p b h
  have hne : p ≠ [] := by intro hh; subst hh; simp at h
  have := List.dropLast_concat_getLast hne
  rw [List.getLast?_eq_some_getLast hne] at h
  simp only [Option.some.injEq] at h
  rw [h] at this
  exact this.symm

/-- What the code computes (453-456) and the kernel then resolves: the entry `os.replace` overwrites
is not a symbolic link; it is what the requested path reaches when every link is followed (unless the
kernel itself runs out of gas on the request: then nothing is reachable through it, before or
after); and the temporary directory is created in the entry's own directory. -/
theorem destEntry_spec (L : Links) (gas : Nat) (requested entry : Comps)
    (hb : properBase requested = true) (h : destEntryL L gas requested = some entry) :
    L.lookup entry = none ∧
    (realpathL L gas requested = none ∨ realpathL L gas requested = some entry) ∧
    ∃ d, destinationPathL L gas requested = some d ∧ tmpParentL L gas d = some entry.dropLast := by
  unfold destEntryL at h
  cases hd : destinationPathL L gas requested with
  | none => simp [hd] at h
  | some d =>
    simp only [hd, Option.bind_some] at h
    unfold destinationPathL at hd
    cases hlast : requested.getLast? with
    | none => simp [properBase, hlast] at hb
    | some b =>
      have hpb : Proper b := by
        simp only [properBase, hlast] at hb
        exact proper_of_properName hb
      split at hd
      · -- the request is a link: `realpath`
        rename_i hlink
        have hw : ∃ g', walk L gas [] requested = some (g', d) := by
          simp only [realpathL, Option.map_eq_some_iff] at hd
          rcases hd with ⟨⟨g', r⟩, h1, h2⟩
          exact ⟨g', by simpa [← h2] using h1⟩
        rcases hw with ⟨g', hw⟩
        have hreal := walk_real L gas [] requested g' d (Real.nil L) hw
        -- entryOf of a real path is the path itself
        unfold entryOf at h
        cases hdl : d.getLast? with
        | none => simp [hdl] at h
        | some b' =>
          simp only [hdl] at h
          have hsplit := getLast?_dropLast_concat d b' hdl
          have hrd : Real L d.dropLast := hreal.1.dropLast
          have hlen : d.dropLast.length ≤ gas := by
            have := hreal.2
            simp at this ⊢
            omega
          have hwd := walk_of_real L d.dropLast gas [] (by simpa using hrd) hlen
          have hrp : realpathL L gas d.dropLast = some d.dropLast := by simp [realpathL, hwd]
          rw [hrp] at h
          simp only [Option.map_some, Option.some.injEq] at h
          have hed : entry = d := by rw [← h, ← hsplit]
          subst hed
          have hne : entry ≠ [] := by intro hh; rw [hh] at hdl; simp at hdl
          refine ⟨hreal.1.pref entry (List.prefix_refl _) hne, Or.inr hd, entry, rfl, ?_⟩
          simp [tmpParentL, hrp]
      · -- the request is not a link: used as it is
        rename_i hnl
        simp only [Option.some.injEq] at hd
        subst hd
        have hent := h
        unfold entryOf at h
        simp only [hlast] at h
        cases hrp : realpathL L gas requested.dropLast with
        | none => simp [hrp] at h
        | some ri =>
          simp only [hrp, Option.map_some, Option.some.injEq] at h
          have hlk : L.lookup entry = none := by
            simp only [isLinkL, hent] at hnl
            cases hl : L.lookup entry with
            | none => rfl
            | some l => simp [hl] at hnl
          refine ⟨hlk, ?_, requested, rfl, ?_⟩
          · -- following the request: parents, then the last component, which is no link
            have hsplit := getLast?_dropLast_concat requested b hlast
            simp only [realpathL, Option.map_eq_some_iff] at hrp
            rcases hrp with ⟨⟨g', r⟩, h1, h2⟩
            simp only at h2
            subst h2
            have : walk L gas [] requested = walk L g' r [b] := by
              conv => lhs; rw [hsplit]
              rw [walk_append, h1]
              rfl
            cases g' with
            | zero => left; simp [realpathL, this, walk]
            | succ g'' =>
              right
              have hl' : L.lookup (r ++ [b]) = none := by rw [h]; exact hlk
              rw [← h]
              simp [realpathL, this, walk, hpb.1, hpb.2.1, hpb.2.2, hl', walk_nil]
          · simp [tmpParentL, hrp, ← h]

/-! ### The link-level run simulates the link-free run and never changes the link table -/

theorem applyL_st (env : Env) (entry : Comps) (s : LSt) (e : Eff) :
    (applyL env entry s e).st = apply env s.st e := by
  cases e <;> rfl

theorem applyL_links (env : Env) (entry : Comps) (s : LSt) (e : Eff)
    (hk : eraseKey entry s.links = s.links) : (applyL env entry s e).links = s.links := by
  cases e <;> first | rfl | (simp only [applyL, hk, ite_self])

/-- Projection of a link-level step. -/
def LStep.toStep (x : LStep) : Step := ⟨x.eff, x.failed, x.st.st⟩

theorem runListL_spec (env : Env) (entry : Comps) (f : Nat → Option Nat) (L : Links)
    (hk : eraseKey entry L = L) : ∀ (es : List Eff) (n : Nat) (s : LSt), s.links = L →
      (runListL env entry f es n s).steps.map LStep.toStep = (runList env f es n s.st).steps ∧
      (runListL env entry f es n s).final.st = (runList env f es n s.st).final ∧
      (runListL env entry f es n s).faulted = (runList env f es n s.st).faulted ∧
      (runListL env entry f es n s).final.links = L ∧
      ∀ x ∈ (runListL env entry f es n s).steps, x.st.links = L
  | [], _, s, hs => by simp [runListL, runList, hs]
  | e :: es, n, s, hs => by
    simp only [runListL, runList]
    cases hf : f n with
    | some p => simp [LStep.toStep, applyPartialL, hs]
    | none =>
      have h1 : (applyL env entry s e).links = L := by
        rw [applyL_links env entry s e (by rw [hs]; exact hk), hs]
      have ih := runListL_spec env entry f L hk es (n + 1) (applyL env entry s e) h1
      rw [applyL_st] at ih
      simp only [List.map_cons, LStep.toStep, applyL_st, ih.1, ih.2.1, ih.2.2.1, ih.2.2.2.1, true_and,
        List.mem_cons, forall_eq_or_imp, h1]
      exact ih.2.2.2.2

theorem length_of_map_eq {α β : Type} {f : α → β} {l : List α} {m : List β} (h : l.map f = m) :
    l.length = m.length := by rw [← h]; simp

/-- `saveWithL` projects onto `saveWith`, and the link table is the initial one in every visited
state and at the end, provided the entry `os.replace` overwrites is not the location of a link. -/
theorem saveWithL_spec (env : Env) (entry : Comps) (body post : List Eff) (f : Nat → Option Nat)
    (n0 : Nat) (s0 : St) (L : Links) (hk : eraseKey entry L = L) :
    (saveWithL env entry body post f n0 ⟨s0, L⟩).steps.map LStep.toStep = (saveWith env body post f n0 s0).steps ∧
    (saveWithL env entry body post f n0 ⟨s0, L⟩).final.st = (saveWith env body post f n0 s0).final ∧
    (saveWithL env entry body post f n0 ⟨s0, L⟩).faulted = (saveWith env body post f n0 s0).faulted ∧
    (saveWithL env entry body post f n0 ⟨s0, L⟩).final.links = L ∧
    ∀ x ∈ (saveWithL env entry body post f n0 ⟨s0, L⟩).steps, x.st.links = L := by
  have ha := runListL_spec env entry f L hk [.mkdtemp] n0 ⟨s0, L⟩ rfl
  simp only [] at ha
  unfold saveWithL saveWith
  simp only []
  rw [ha.2.2.1]
  split
  · exact ha
  · have hb := runListL_spec env entry f L hk (body ++ [.replace]) (n0 + 1)
      (runListL env entry f [.mkdtemp] n0 ⟨s0, L⟩).final ha.2.2.2.1
    rw [ha.2.1] at hb
    have hbl := length_of_map_eq hb.1
    have hc := runListL_spec env entry f L hk [.removeTmp, .rmdirTmp]
      (n0 + 1 + (runListL env entry f (body ++ [.replace]) (n0 + 1)
        (runListL env entry f [.mkdtemp] n0 ⟨s0, L⟩).final).steps.length)
      (runListL env entry f (body ++ [.replace]) (n0 + 1)
        (runListL env entry f [.mkdtemp] n0 ⟨s0, L⟩).final).final hb.2.2.2.1
    rw [hb.2.1, hbl] at hc
    have hcl := length_of_map_eq hc.1
    rw [hbl, hb.2.2.1, hc.2.2.1, hcl]
    split
    · refine ⟨?_, hc.2.1, rfl, hc.2.2.2.1, ?_⟩
      · simp only [List.map_append, ha.1, hb.1, hc.1]
      · intro x hx
        simp only [List.mem_append] at hx
        rcases hx with (hx | hx) | hx
        · exact ha.2.2.2.2 x hx
        · exact hb.2.2.2.2 x hx
        · exact hc.2.2.2.2 x hx
    · have hd := runListL_spec env entry f L hk post
        (n0 + 1 + (runList env f (body ++ [.replace]) (n0 + 1) (runList env f [.mkdtemp] n0 s0).final).steps.length +
          (runListL env entry f [.removeTmp, .rmdirTmp]
            (n0 + 1 + (runList env f (body ++ [.replace]) (n0 + 1) (runList env f [.mkdtemp] n0 s0).final).steps.length)
            (runListL env entry f (body ++ [.replace]) (n0 + 1)
              (runListL env entry f [.mkdtemp] n0 ⟨s0, L⟩).final).final).steps.length)
        _ hc.2.2.2.1
      rw [hc.2.1, hcl] at hd
      refine ⟨?_, hd.2.1, hd.2.2.1, hd.2.2.2.1, ?_⟩
      · simp only [List.map_append, ha.1, hb.1, hc.1, hd.1]
      · intro x hx
        simp only [List.mem_append] at hx
        rcases hx with ((hx | hx) | hx) | hx
        · exact ha.2.2.2.2 x hx
        · exact hb.2.2.2.2 x hx
        · exact hc.2.2.2.2 x hx
        · exact hd.2.2.2.2 x hx

/-- Membership in the projected step list. -/
theorem mem_steps_of_map {l : List LStep} {m : List Step} (h : l.map LStep.toStep = m) {x : LStep}
    (hx : x ∈ l) : x.toStep ∈ m := by
  rw [← h]; exact List.mem_map_of_mem hx

/-! ### Marked replay -/

theorem runMarked_inv (env : Env) {P : St → Prop} : ∀ (m : List Marked) (s : St), P s →
    (∀ x ∈ m, ∀ s, P s → P (apply env s x.1)) →
    (∀ x ∈ m, ∀ s p, P s → P (applyPartial env s x.1 p)) →
    P (runMarked env m s).2 ∧ ∀ st ∈ (runMarked env m s).1, P st.st
  | [], s, hs, _, _ => by simp [runMarked, hs]
  | (e, none) :: r, s, hs, ha, hp => by
    have h1 := ha (e, none) (by simp) s hs
    have ih := runMarked_inv env r (apply env s e) h1 (fun x hx => ha x (by simp [hx]))
      (fun x hx => hp x (by simp [hx]))
    simp only [runMarked, List.mem_cons, forall_eq_or_imp]
    exact ⟨ih.1, h1, ih.2⟩
  | (e, some p) :: r, s, hs, ha, hp => by
    have h1 := hp (e, some p) (by simp) s p hs
    have ih := runMarked_inv env r (applyPartial env s e p) h1 (fun x hx => ha x (by simp [hx]))
      (fun x hx => hp x (by simp [hx]))
    simp only [runMarked, List.mem_cons, forall_eq_or_imp]
    exact ⟨ih.1, h1, ih.2⟩

theorem runMarked_old (env : Env) {s0 : St} (m : List Marked) (hm : ∀ x ∈ m, x.1.tmpOnly = true) (s : St)
    (h : Old s0 s) : Old s0 (runMarked env m s).2 ∧ ∀ st ∈ (runMarked env m s).1, Old s0 st.st :=
  runMarked_inv env m s h (fun x hx _ hs => old_apply env x.1 (hm x hx) hs)
    (fun x _ _ p hs => old_partial env x.1 p hs)

/-! ### Content through `KeptBut` -/

theorem keptBut_content {d : String} {s st : St} (hs : Named s) (h : KeptBut d s st) (n : String)
    (hn : n ≠ d) : content st (.user n) = content s (.user n) := by
  simp only [content, h.file n hn]
  cases hf : s.fs.file (.user n) with
  | none => rfl
  | some i => simp [h.data i (hs _ _ hf)]

end IrVerif.AtomicSave

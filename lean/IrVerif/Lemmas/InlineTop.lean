/-
Lemmas/InlineTop.lean — the pieces of `inlineModel` around `_inline_calls_in`: cloning keeps the operators,
processing a node list without calls changes nothing, deleting functions that no remaining node calls.
-/
import IrVerif.Lemmas.InlineSound
import IrVerif.Lemmas.SemOutputFix
namespace IrVerif.Inline
open IrVerif.Sem IrVerif.Passes
variable {Val : Type}

/-! ## cloning keeps the operators -/
mutual
theorem cloneG_ops (p : OpId → Bool) (am : List (String × FAttr)) : ∀ (b : FGraph) (vm : VMap) (next : Nat),
    opsAllG p (cloneG am vm next b).1 = opsAllG p b
  | .mk inputs outputs inits nodes, vm, next => by
    simp only [cloneG, opsAllG]
    exact cloneNodes_ops p am nodes _ _
theorem cloneNodes_ops (p : OpId → Bool) (am : List (String × FAttr)) : ∀ (ns : List FNode) (vm : VMap) (next : Nat),
    opsAllNodes p (cloneNodes am vm next ns).1 = opsAllNodes p ns
  | [], _, _ => by simp [cloneNodes, opsAllNodes]
  | n :: ns, vm, next => by
    simp only [cloneNodes, opsAllNodes]
    rw [cloneN_ops p am n vm next, cloneNodes_ops p am ns _ _]
theorem cloneN_ops (p : OpId → Bool) (am : List (String × FAttr)) : ∀ (n : FNode) (vm : VMap) (next : Nat),
    opsAllN p (cloneN am vm next n).1 = opsAllN p n
  | .mk op attrs ins outs bodies, vm, next => by
    simp only [cloneN, opsAllN]
    rw [cloneBodies_ops p am bodies vm next]
theorem cloneBodies_ops (p : OpId → Bool) (am : List (String × FAttr)) : ∀ (bs : List FGraph) (vm : VMap) (next : Nat),
    opsAllBodies p (cloneBodies am vm next bs).1 = opsAllBodies p bs
  | [], _, _ => by simp [cloneBodies, opsAllBodies]
  | b :: bs, vm, next => by
    simp only [cloneBodies, opsAllBodies]
    rw [cloneG_ops p am b vm next, cloneBodies_ops p am bs vm _]
end

mutual
theorem opsAllG_true : ∀ g : FGraph, opsAllG (fun _ => true) g = true
  | .mk _ _ _ nodes => by simp only [opsAllG]; exact opsAllNodes_true nodes
theorem opsAllNodes_true : ∀ ns : List FNode, opsAllNodes (fun _ => true) ns = true
  | [] => by simp [opsAllNodes]
  | n :: ns => by simp only [opsAllNodes, Bool.and_eq_true]; exact ⟨opsAllN_true n, opsAllNodes_true ns⟩
theorem opsAllN_true : ∀ n : FNode, opsAllN (fun _ => true) n = true
  | .mk _ _ _ _ bodies => by simp only [opsAllN, Bool.true_and]; exact opsAllBodies_true bodies
theorem opsAllBodies_true : ∀ bs : List FGraph, opsAllBodies (fun _ => true) bs = true
  | [] => by simp [opsAllBodies]
  | b :: bs => by simp only [opsAllBodies, Bool.and_eq_true]; exact ⟨opsAllG_true b, opsAllBodies_true bs⟩
end

/-! ## a node list without calls is left as it is -/

theorem substIns_nil (ins : List (Option VId)) : substIns [] ins = ins := by
  unfold substIns
  conv => rhs; rw [← List.map_id ins]
  apply List.map_congr_left
  intro o _
  cases o with
  | none => rfl
  | some v => simp [Subst.app_nil]

mutual
theorem inlG_nocalls (tbl : List Func) (crit : OpId → Bool) (deeper : Deeper) : ∀ (g : FGraph) (st : ISt),
    opsAllG (fun op => (findFunc tbl op).isNone) g = true → inlG tbl crit deeper st [] g = (st, g)
  | .mk inputs outputs inits nodes, st, h => by
    simp only [opsAllG] at h
    simp only [inlG, inlNodes_nocalls tbl crit deeper nodes st outputs h]
theorem inlNodes_nocalls (tbl : List Func) (crit : OpId → Bool) (deeper : Deeper) :
    ∀ (ns : List FNode) (st : ISt) (outs : List VId),
    opsAllNodes (fun op => (findFunc tbl op).isNone) ns = true →
    inlNodes tbl crit deeper st [] outs ns = ⟨st, ns, outs, []⟩
  | [], _, _, _ => by simp [inlNodes]
  | .mk op attrs ins nouts bodies :: ns, st, outs, h => by
    simp only [opsAllNodes, opsAllN, Bool.and_eq_true, Option.isNone_iff_eq_none] at h
    simp only [inlNodes, h.1.1, ite_self, inlBodies_nocalls tbl crit deeper bodies st h.1.2,
      inlNodes_nocalls tbl crit deeper ns st outs h.2, substIns_nil]
theorem inlBodies_nocalls (tbl : List Func) (crit : OpId → Bool) (deeper : Deeper) : ∀ (bs : List FGraph) (st : ISt),
    opsAllBodies (fun op => (findFunc tbl op).isNone) bs = true → inlBodies tbl crit deeper st [] bs = (st, bs)
  | [], _, _ => by simp [inlBodies]
  | b :: bs, st, h => by
    simp only [opsAllBodies, Bool.and_eq_true] at h
    simp only [inlBodies, inlG_nocalls tbl crit deeper b st h.1, inlBodies_nocalls tbl crit deeper bs st h.2]
end

/-- every function body is free of calls to functions of the table -/
def FlatTbl (tbl : List Func) : Prop := ∀ f ∈ tbl, opsAllNodes (fun op => (findFunc tbl op).isNone) f.nodes = true

/-- the processing of inserted nodes with any unrolling budget simulates them (nested calls): by induction
    over the budget, each level by `inlNodes_sound` -/
theorem deepOK_inlAt (I : Interp Val) (Φ : FEnv Val) (α : List (String × AttrData)) (tbl : List Func)
    (crit : OpId → Bool) (ht : TblOK I Φ tbl) : ∀ k, DeepOK I Φ α tbl (inlAt tbl crit k)
  | 0 => by
    intro Q lo ns st ρ hwf
    simp only [inlAt]
    exact ⟨fun v _ => by rw [Subst.app_nil], Nat.le_refl _, fun p hp => by simp at hp, hwf.closed,
      fun v hv => by rw [Subst.app_nil]; exact hv⟩
  | k + 1 => by
    intro Q lo ns st ρ hwf
    obtain ⟨k1, _, k3, k4, k5, k6, k7, _⟩ := inlNodes_sound I Φ α tbl crit (inlAt tbl crit k) st.next ht
      (deepOK_inlAt I Φ α tbl crit ht k) ns [] [] st ρ ρ (fun v _ => by rw [Subst.app_nil])
      (fun p hp => by simp at hp) hwf.ssa hwf.closed hwf.nofwd (fun v hv => (hwf.refs v hv).1)
      (fun v hv => (hwf.defs v hv).2) (Nat.le_refl _) (fun p hp => by simp at hp) hwf.calls
    simp only [inlAt]
    refine ⟨k1, k3, fun p hp => ?_, k6, k7⟩
    rcases k5 p hp with h | ⟨h1, h2⟩
    · simp at h
    · obtain ⟨a, b⟩ := hwf.defs p.1 h1
      refine ⟨a, b, k4 p hp, ?_⟩
      rcases h2 with h2 | ⟨v, hv, h2⟩
      · exact Or.inr (Nat.le_trans a (Nat.le_trans (Nat.le_of_lt b) h2))
      · rw [Subst.app_nil] at h2
        rw [h2]; exact (hwf.refs v hv).2

/-! ## the loop over the functions that are left -/

theorem eq_of_nodup_ids : ∀ {tbl : List Func}, (tbl.map (·.id)).Nodup → ∀ {g f : Func}, g ∈ tbl → f ∈ tbl →
    g.id = f.id → g = f
  | [], _, _, _, hg, _, _ => by simp at hg
  | c :: l, hnd, g, f, hg, hf, h => by
    simp only [List.map_cons, List.nodup_cons, List.mem_map, not_exists, not_and] at hnd
    rcases List.mem_cons.1 hg with hg' | hg' <;> rcases List.mem_cons.1 hf with hf' | hf'
    · rw [hg', hf']
    · rw [hg'] at h; exact absurd h.symm (hnd.1 f hf')
    · rw [hf'] at h; exact absurd h (hnd.1 g hg')
    · exact eq_of_nodup_ids hnd.2 hg' hf' h

theorem replaceFunc_self (tbl : List Func) (hnd : (tbl.map (·.id)).Nodup) {f : Func} (hf : f ∈ tbl) :
    replaceFunc tbl f = tbl := by
  unfold replaceFunc
  conv => rhs; rw [← List.map_id tbl]
  apply List.map_congr_left
  intro g hg
  by_cases h : g.id = f.id
  · have : g = f := eq_of_nodup_ids hnd hg hf h
    simp [this]
  · have : (g.id == f.id) = false := by simpa using h
    simp [this]

theorem inlFuncs_flat (crit : OpId → Bool) (budget : Nat) (tbl : List Func) (hnd : (tbl.map (·.id)).Nodup)
    (hflat : FlatTbl tbl) : ∀ (ids : List OpId) (st : ISt), inlFuncs crit budget st tbl ids = (st, tbl)
  | [], st => by simp [inlFuncs]
  | id :: rest, st => by
    rw [inlFuncs]
    split
    · exact inlFuncs_flat crit budget tbl hnd hflat rest st
    · split
      · exact inlFuncs_flat crit budget tbl hnd hflat rest st
      · rename_i f hf
        have hmem := (findFunc_some hf).1
        simp only [inlNodes_nocalls tbl crit _ f.nodes st f.outputs (hflat f hmem)]
        have : ({ f with nodes := f.nodes, outputs := f.outputs } : Func) = f := by cases f; rfl
        rw [this, replaceFunc_self tbl hnd hmem]
        exact inlFuncs_flat crit budget tbl hnd hflat rest st

theorem replaceFunc_ids (tbl : List Func) (f' : Func) : (replaceFunc tbl f').map (·.id) = tbl.map (·.id) := by
  unfold replaceFunc
  rw [List.map_map]
  apply List.map_congr_left
  intro f _
  simp only [Function.comp]
  by_cases h : f.id = f'.id
  · simp [h]
  · have : (f.id == f'.id) = false := by simpa using h
    simp [this]

/-- the loop over the functions keeps the function identifiers -/
theorem inlFuncs_ids (crit : OpId → Bool) (budget : Nat) : ∀ (ids : List OpId) (st : ISt) (tbl : List Func),
    (inlFuncs crit budget st tbl ids).2.map (·.id) = tbl.map (·.id)
  | [], _, _ => by simp [inlFuncs]
  | id :: rest, st, tbl => by
    rw [inlFuncs]
    split
    · exact inlFuncs_ids crit budget rest st tbl
    · split
      · exact inlFuncs_ids crit budget rest st tbl
      · rw [inlFuncs_ids crit budget rest _ _, replaceFunc_ids]

theorem findFunc_none_of_ids {fs gs : List Func} (h : gs.map (·.id) = fs.map (·.id)) {op : OpId}
    (hf : findFunc fs op = none) : findFunc gs op = none := by
  unfold findFunc at hf ⊢
  rw [List.find?_eq_none] at hf ⊢
  intro g hg
  have : g.id ∈ fs.map (·.id) := h ▸ List.mem_map.2 ⟨g, hg, rfl⟩
  obtain ⟨f, hfm, hfid⟩ := List.mem_map.1 this
  have := hf f hfm
  rw [← hfid]; exact this

theorem findFunc_filter_none (fs : List Func) (keep : Func → Bool) {op : OpId} (hf : findFunc fs op = none) :
    findFunc (fs.filter keep) op = none := by
  unfold findFunc at hf ⊢
  rw [List.find?_eq_none] at hf ⊢
  intro g hg
  exact hf g (List.mem_filter.1 hg).1

/-! ## deleting functions that are not called -/

theorem findFunc_filter (fs : List Func) (keep : OpId → Bool) (op : OpId)
    (h : keep op = true ∨ findFunc fs op = none) :
    findFunc (fs.filter (fun f => keep f.id)) op = findFunc fs op := by
  induction fs with
  | nil => rfl
  | cons f fs ih =>
    by_cases hid : f.id = op
    · have hk : keep f.id = true := by
        rcases h with h | h
        · rw [hid]; exact h
        · simp [findFunc, hid] at h
      have hk' : keep op = true := hid ▸ hk
      simp [findFunc, List.filter_cons, hk', hid]
    · have hne : (f.id == op) = false := by simpa using hid
      have ih' := ih (by
        rcases h with h | h
        · exact Or.inl h
        · right; simpa [findFunc, List.find?_cons, hne] using h)
      simp only [findFunc] at ih' ⊢
      by_cases hk : keep f.id = true
      · simp only [List.filter_cons, hk, if_true, List.find?_cons, hne]; exact ih'
      · simp only [List.filter_cons, hk, List.find?_cons, hne]; exact ih'

/-- with call-free function bodies, deleting functions does not change the function environment at the
    operators that are kept or are not functions at all -/
theorem fenv_filter (I : Interp Val) (fs : List Func) (hflat : FlatTbl fs) (keep : OpId → Bool) (d : Nat) (op : OpId)
    (h : keep op = true ∨ findFunc fs op = none) :
    fenv I (fs.filter (fun f => keep f.id)) d op = fenv I fs d op := by
  cases d with
  | zero => rfl
  | succ d =>
    simp only [fenv, findFunc_filter fs keep op h]
    cases hf : findFunc fs op with
    | none => rfl
    | some f =>
      simp only [Option.map_some, Option.some.injEq]
      refine funcDen_congrΦ I _ _ (fun op => (findFunc fs op).isNone) (fun op' hop' => ?_) f (hflat f (findFunc_some hf).1)
      have hn : findFunc fs op' = none := by simpa using hop'
      rw [fenv_none I fs d hn, fenv_none I _ d (by rw [findFunc_filter fs keep op' (Or.inr hn)]; exact hn)]


/-! ## RemoveUnusedFunctionsPass / RemoveUnusedOpsetsPass -/

mutual
theorem opsAllG_iff (p : OpId → Bool) : ∀ g : FGraph, opsAllG p g = true ↔ ∀ op ∈ opsG g, p op = true
  | .mk _ _ _ nodes => by simp only [opsAllG, opsG]; exact opsAllNodes_iff p nodes
theorem opsAllNodes_iff (p : OpId → Bool) : ∀ ns : List FNode, opsAllNodes p ns = true ↔ ∀ op ∈ opsNodes ns, p op = true
  | [] => by simp [opsAllNodes, opsNodes]
  | n :: ns => by
    simp only [opsAllNodes, opsNodes, Bool.and_eq_true, List.mem_append, opsAllN_iff p n, opsAllNodes_iff p ns]
    constructor
    · rintro ⟨h1, h2⟩ op (h | h)
      · exact h1 op h
      · exact h2 op h
    · intro h; exact ⟨fun op ho => h op (Or.inl ho), fun op ho => h op (Or.inr ho)⟩
theorem opsAllN_iff (p : OpId → Bool) : ∀ n : FNode, opsAllN p n = true ↔ ∀ op ∈ opsN n, p op = true
  | .mk op _ _ _ bodies => by
    simp only [opsAllN, opsN, Bool.and_eq_true, List.mem_cons, opsAllBodies_iff p bodies]
    constructor
    · rintro ⟨h1, h2⟩ o (h | h)
      · rw [h]; exact h1
      · exact h2 o h
    · intro h; exact ⟨h op (Or.inl rfl), fun o ho => h o (Or.inr ho)⟩
theorem opsAllBodies_iff (p : OpId → Bool) : ∀ bs : List FGraph, opsAllBodies p bs = true ↔ ∀ op ∈ opsBodies bs, p op = true
  | [] => by simp [opsAllBodies, opsBodies]
  | b :: bs => by
    simp only [opsAllBodies, opsBodies, Bool.and_eq_true, List.mem_append, opsAllG_iff p b, opsAllBodies_iff p bs]
    constructor
    · rintro ⟨h1, h2⟩ op (h | h)
      · exact h1 op h
      · exact h2 op h
    · intro h; exact ⟨fun op ho => h op (Or.inl ho), fun op ho => h op (Or.inr ho)⟩
end

/-- deleting functions: the function environment is unchanged at the operators that are kept or are not
    functions, provided the kept functions call only kept functions -/
theorem fenv_filter_closed (I : Interp Val) (fs : List Func) (keep : OpId → Bool)
    (hcl : ∀ op f, findFunc fs op = some f → keep op = true →
      opsAllNodes (fun o => keep o || (findFunc fs o).isNone) f.nodes = true) :
    ∀ (d : Nat) (op : OpId), (keep op = true ∨ findFunc fs op = none) →
      fenv I (fs.filter (fun f => keep f.id)) d op = fenv I fs d op
  | 0, _, _ => rfl
  | d + 1, op, h => by
    simp only [fenv, findFunc_filter fs keep op h]
    cases hf : findFunc fs op with
    | none => rfl
    | some f =>
      simp only [Option.map_some, Option.some.injEq]
      have hk : keep op = true := by
        rcases h with h | h
        · exact h
        · rw [hf] at h; cases h
      refine funcDen_congrΦ I _ _ _ (fun o ho => ?_) f (hcl op f hf hk)
      refine fenv_filter_closed I fs keep hcl d o ?_
      simp only [Bool.or_eq_true, Option.isNone_iff_eq_none] at ho
      exact ho

theorem reachIter_subset (tbl : List Func) : ∀ (k : Nat) (used : List OpId) (op : OpId), op ∈ used →
    op ∈ reachIter tbl k used
  | 0, _, _, h => h
  | k + 1, used, op, h => reachIter_subset tbl k _ op (by simp [reachStep, h])

theorem findFunc_map_domains (fs : List Func) (g : Func → List String) (op : OpId) :
    findFunc (fs.map (fun f => { f with domains := g f })) op =
      (findFunc fs op).map (fun f => { f with domains := g f }) := by
  induction fs with
  | nil => rfl
  | cons f fs ih =>
    simp only [findFunc] at ih ⊢
    simp only [List.map_cons, List.find?_cons]
    cases h : (f.id == op) with
    | true => simp
    | false => simp only [ih]

theorem fenv_map_domains (I : Interp Val) (fs : List Func) (g : Func → List String) :
    ∀ d, fenv I (fs.map (fun f => { f with domains := g f })) d = fenv I fs d
  | 0 => rfl
  | d + 1 => by
    funext op
    simp only [fenv, findFunc_map_domains, fenv_map_domains I fs g d]
    cases findFunc fs op with
    | none => rfl
    | some f => rfl

end IrVerif.Inline

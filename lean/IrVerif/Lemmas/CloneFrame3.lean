/-
Frame lemma for the third editing alphabet `IrVerif.Clone.Edit3` (Model/Clone2.lean): `Graph.sort` on
graphs with subgraphs, slice assignment on `graph.inputs` / `graph.outputs`, `initializers.pop /
clear / update`, `Graph.extend`, `Graph.remove(safe=True)`, `convenience.replace_all_uses_with`
with several pairs, `convenience.rename_values`.  With the extended separation (`CellOutX true`),
a call whose receivers and arguments are outside the protected region `B` leaves every cell of `B`
as it was and re-establishes the separation.  (`sortDeep` names the graphs of the nest among its
arguments: they are the cells it writes.)
-/
import IrVerif.Model.Clone2
import IrVerif.Lemmas.CloneFrame2
namespace IrVerif.Clone

section
variable {strict : Bool} {B : Nat → Prop} {wB : World}

def ArgsOut3 (B : Nat → Prop) (e : Edit3) : Prop := ∀ a ∈ e.args, ¬ B a

/-! ### computations that only read -/

/-- `m` never changes the state -/
def Quiet {α : Type} (m : M α) : Prop := ∀ s, (m s).2 = s

theorem Quiet.good {α : Type} {m : M α} (h : Quiet m) {s : St} (hI : FInv true strict B wB s) :
    FGoodAt true strict B wB m s (fun _ s1 => s1 = s) := by
  unfold FGoodAt
  rw [h s]
  exact ⟨hI, Nat.le_refl _, fun _ _ => rfl⟩

theorem Quiet.bind {α β : Type} {m : M α} {f : α → M β} (hm : Quiet m) (hf : ∀ a, Quiet (f a)) :
    Quiet (m >>= f) := by
  intro s
  show (M.bind m f s).2 = s
  unfold M.bind
  have h1 := hm s
  rcases hms : m s with ⟨r, s1⟩
  rw [hms] at h1
  simp only at h1
  subst h1
  cases r with
  | error e => rfl
  | ok a => exact hf a s1

theorem Quiet.pure {α : Type} (a : α) : Quiet (Pure.pure a : M α) := fun _ => rfl
theorem Quiet.fail {α : Type} (e : Err) : Quiet (Clone.fail e : M α) := fun _ => rfl
theorem Quiet.raise {α : Type} (why : String) : Quiet (Clone.raise why : M α) := fun _ => rfl
theorem Quiet.unsupported {α : Type} (why : String) : Quiet (Clone.unsupported why : M α) := fun _ => rfl
theorem Quiet.readVal (i : Nat) : Quiet (readVal i) := fun s => by unfold Clone.readVal; split <;> rfl
theorem Quiet.readNode (i : Nat) : Quiet (readNode i) := fun s => by unfold Clone.readNode; split <;> rfl
theorem Quiet.readGraph (i : Nat) : Quiet (readGraph i) := fun s => by unfold Clone.readGraph; split <;> rfl
theorem Quiet.getWorld : Quiet getWorld := fun _ => rfl
theorem Quiet.liftE {α : Type} (x : Except Err α) : Quiet (liftE x) := by
  cases x <;> intro s <;> rfl

theorem Quiet.forM' {α : Type} {f : α → M Unit} (hf : ∀ a, Quiet (f a)) : ∀ l : List α, Quiet (forM' f l)
  | [] => Quiet.pure _
  | a :: as => by
    unfold Clone.forM'
    exact Quiet.bind (hf a) fun _ => Quiet.forM' hf as

syntax "quiet" : tactic
macro_rules
  | `(tactic| quiet) => `(tactic| first
    | assumption
    | exact Quiet.pure _
    | exact Quiet.fail _
    | exact Quiet.raise _
    | exact Quiet.unsupported _
    | exact Quiet.readVal _
    | exact Quiet.readNode _
    | exact Quiet.readGraph _
    | exact Quiet.getWorld
    | exact Quiet.liftE _
    | (refine Quiet.bind ?_ (fun _ => ?_) <;> quiet)
    | (split <;> quiet))

theorem Quiet.checkInput (g v : Nat) : Quiet (checkInput g v) := by unfold Clone.checkInput; quiet
theorem Quiet.checkOwned (g v : Nat) : Quiet (checkOwned g v) := by unfold Clone.checkOwned; quiet
theorem Quiet.checkItem (g : Nat) (key : String) (v : Nat) (p : Option String) : Quiet (checkItem g key v p) := by
  unfold Clone.checkItem
  refine Quiet.bind (Quiet.readVal v) fun vs => ?_
  split
  · exact Quiet.raise _
  · split
    · exact Quiet.raise _
    · split
      · exact Quiet.raise _
      · split
        · exact Quiet.raise _
        · exact Quiet.pure _

theorem Quiet.updChecks (g : Nat) : ∀ (items : List (String × Nat)) (pend : List (Nat × String)),
    Quiet (updChecks g pend items)
  | [], _ => Quiet.pure _
  | kv :: rest, pend => by
    unfold Clone.updChecks
    exact Quiet.bind (Quiet.checkItem _ _ _ _) fun _ => Quiet.bind (Quiet.readVal _) fun _ =>
      Quiet.updChecks g rest _

theorem Quiet.checkRemovable (g : Nat) (toRemove outputs : List Nat) (n : Nat) :
    Quiet (checkRemovable g toRemove outputs n) := by
  unfold Clone.checkRemovable
  refine Quiet.bind (Quiet.readNode n) fun x => ?_
  split
  · exact Quiet.raise _
  · refine Quiet.forM' (fun o => ?_) _
    quiet

theorem Quiet.ownershipOf (sim : List (Nat × (Bool × Option Nat))) (v : Nat) : Quiet (ownershipOf sim v) := by
  unfold Clone.ownershipOf; quiet

theorem Quiet.rauwChecks (outs : Bool) : ∀ (pairs : List (Nat × Nat)) (sim : List (Nat × (Bool × Option Nat))),
    Quiet (rauwChecks outs sim pairs)
  | [], _ => Quiet.pure _
  | p :: rest, sim => by
    unfold Clone.rauwChecks
    refine Quiet.bind (Quiet.ownershipOf _ _) fun o => ?_
    split
    · exact Quiet.rauwChecks outs rest _
    · split
      · exact Quiet.raise _
      · refine Quiet.bind (Quiet.ownershipOf _ _) fun r => ?_
        split
        · exact Quiet.raise _
        · split
          · exact Quiet.bind (Quiet.readVal _) fun _ => Quiet.rauwChecks outs rest _
          · exact Quiet.rauwChecks outs rest _

theorem Quiet.renameGroupChecks (g : Nat) (group : List (Nat × String)) :
    ∀ (l : List (Nat × String)) (seen : List (String × Nat)), Quiet (renameGroupChecks g group seen l)
  | [], _ => Quiet.pure _
  | p :: rest, seen => by
    unfold Clone.renameGroupChecks
    split
    · exact Quiet.raise _
    · split
      · exact Quiet.raise _
      · refine Quiet.bind (Quiet.readGraph _) fun gs => ?_
        split
        · split
          · exact Quiet.raise _
          · exact Quiet.renameGroupChecks g group rest _
        · exact Quiet.renameGroupChecks g group rest _

/-! ### the writing pieces -/

theorem fsetValueOwner_good {s : St} (g : Nat) (f : ValueS → ValueS) (v : Nat)
    (hI : FInv true strict B wB s) (hg : ¬ B g) (hv : ¬ B v)
    (hf : ∀ x, CellOutX true strict B (.val x) → CellOutX true strict B (.val (f x))) :
    FGoodAt true strict B wB (setValueOwner g f v) s (fun _ _ => True) := by
  unfold setValueOwner
  fbind (FGoodAt.readVal hI) with vs s1 hI1 hl1 hq1
  obtain ⟨rfl, h⟩ := hq1
  obtain ⟨a1, a2, a3, a4, _, a6, a7⟩ := hI1.sep v (.val vs) hv h
  exact FGoodAt.set hI1 hv (hf _ (show CellOutX true strict B (.val { vs with graph := some g }) from
    ⟨a1, a2, a3, a4, hg, a6, a7⟩))

theorem funsetSeq_good (g : Nat) (clear : ValueS → ValueS)
    (hclear : ∀ x, CellOutX true strict B (.val x) → CellOutX true strict B (.val (clear x))) :
    ∀ (olds data : List Nat) (s : St), FInv true strict B wB s → (∀ v ∈ olds, ¬ B v) →
      FGoodAt true strict B wB (unsetSeq g clear data olds) s (fun _ _ => True)
  | [], _, s, hI, _ => FGoodAt.pure hI trivial
  | v :: rest, data, s, hI, hv => by
    unfold unsetSeq
    have hvB := hv v List.mem_cons_self
    have hstep : FGoodAt true strict B wB
        (if (data.erase v).contains v then assertOwner g v else unsetOwner g clear v) s (fun _ _ => True) := by
      split
      · exact fassertOwner_good g v hI
      · exact funsetOwner_good g clear v hI hvB hclear
    fbind hstep with u s1 hI1 hl1 hq1
    exact funsetSeq_good g clear hclear rest _ s1 hI1 (fun x hx => hv x (List.mem_cons_of_mem _ hx))

theorem fsetNodeOrder_good {s : St} (p : Nat × List Nat) (hI : FInv true strict B wB s) (hg : ¬ B p.1) :
    FGoodAt true strict B wB (setNodeOrder p) s (fun _ _ => True) := by
  unfold setNodeOrder
  fbind (FGoodAt.readGraph hI) with gs s1 hI1 hl1 hq1
  obtain ⟨rfl, hgs⟩ := hq1
  exact FGoodAt.set hI1 hg (show CellOutX true strict B (.graph { gs with nodes := p.2 }) from
    hI1.sep p.1 (.graph gs) hg hgs)

theorem fsetSliceG_good {s : St} {check : Nat → M Unit} {clear mark : ValueS → ValueS} {get : GraphS → List Nat}
    {put : GraphS → List Nat → GraphS} (g a b : Nat) (vs : List Nat)
    (hcheck : ∀ v, Quiet (check v))
    (hclear : ∀ x, CellOutX true strict B (.val x) → CellOutX true strict B (.val (clear x)))
    (hmark : ∀ x, CellOutX true strict B (.val x) → CellOutX true strict B (.val (mark x)))
    (hget : ∀ gs, CellOutX true strict B (.graph gs) → ∀ v ∈ get gs, ¬ B v)
    (hput : ∀ gs l, CellOutX true strict B (.graph gs) → (∀ v ∈ l, ¬ B v) → CellOutX true strict B (.graph (put gs l)))
    (hI : FInv true strict B wB s) (hg : ¬ B g) (hvs : ∀ v ∈ vs, ¬ B v) :
    FGoodAt true strict B wB (setSliceG check clear mark get put g a b vs) s (fun _ _ => True) := by
  unfold setSliceG
  fbind (FGoodAt.readGraph hI) with gs s1 hI1 hl1 hq1
  obtain ⟨rfl, hgs⟩ := hq1
  have hdata := hget gs (hI1.sep g (.graph gs) hg hgs)
  split
  · exact FGoodAt.unsupported hI1
  · split
    · exact FGoodAt.unsupported hI1
    · fbind (fforM'_good (f := check) _ _ hI1
        (fun v _ s3 hI3 => ((hcheck v).good hI3).mono fun _ _ _ _ _ => trivial)) with u0 s2 hI2 hl2 hq2
      fbind (funsetSeq_good g clear hclear _ _ s2 hI2
        (fun v hv => hdata v (List.mem_of_mem_drop (List.mem_of_mem_take hv)))) with u1 s3 hI3 hl3 hq3
      have hset : FGoodAt true strict B wB (forM' (fun v => do
            check v
            setValueOwner g mark v) vs) s3 (fun _ _ => True) := by
        refine fforM'_good _ _ hI3 (fun v hv s4 hI4 => ?_)
        fbind ((hcheck v).good hI4) with u s5 hI5 hl5 hq5
        exact fsetValueOwner_good g mark v hI5 hg (hvs v hv) hmark
      fbind hset with u2 s4 hI4 hl4 hq4
      fbind (FGoodAt.readGraph hI4) with gs2 s5 hI5 hl5 hq5
      obtain ⟨rfl, hgs2⟩ := hq5
      refine FGoodAt.set hI5 hg (hput gs2 _ (hI5.sep g (.graph gs2) hg hgs2) ?_)
      intro v hv
      rcases List.mem_append.mp hv with h1 | h1
      · rcases List.mem_append.mp h1 with h2 | h2
        · exact hdata v (List.mem_of_mem_take h2)
        · exact hvs v h2
      · exact hdata v (List.mem_of_mem_drop h1)

theorem fclearInitsLoop_good (g : Nat) (hg : ¬ B g) : ∀ (f : Nat) (s : St), FInv true strict B wB s →
    FGoodAt true strict B wB (clearInitsLoop g f) s (fun _ _ => True)
  | 0, s, hI => FGoodAt.pure hI trivial
  | f + 1, s, hI => by
    unfold clearInitsLoop
    fbind (FGoodAt.readGraph hI) with gs s1 hI1 hl1 hq1
    split
    · exact FGoodAt.pure hI1 trivial
    · next e _ _ =>
      fbind (applyEdit2_frame (.delInit g e.1) hI1 (by
        intro a ha; simp [Edit2.args] at ha; subst ha; exact hg)) with u s2 hI2 hl2 hq2
      exact fclearInitsLoop_good g hg f s2 hI2

theorem fremoveOneSafe_good {s : St} (g n : Nat) (hI : FInv true strict B wB s) (hg : ¬ B g) (hn : ¬ B n) :
    FGoodAt true strict B wB (removeOneSafe g n) s (fun _ _ => True) := by
  unfold removeOneSafe
  fbind (FGoodAt.readNode hI) with x s1 hI1 hl1 hq1
  have hloop : FGoodAt true strict B wB
      (forM' (fun i => applyEdit0 (.replaceInput n i none)) (List.range x.inputs.length)) s1 (fun _ _ => True) := by
    refine fforM'_good _ _ hI1 ?_
    intro i _ s3 hI3
    refine applyEdit0_frame (.replaceInput n i none) hI3 ?_
    intro a haa
    simp [Edit.args] at haa
    subst haa
    exact hn
  fbind hloop with u0 s2 hI2 hl2 hq2
  fbind (FGoodAt.readNode hI2) with x2 s3 hI3 hl3 hq3
  obtain ⟨rfl, hx2⟩ := hq3
  fbind (FGoodAt.set hI3 hn (show CellOutX true strict B (.node { x2 with graph := none }) from
    hI3.sep n (.node x2) hn hx2)) with u1 s4 hI4 hl4 hq4
  fbind (FGoodAt.readGraph hI4) with gs s5 hI5 hl5 hq5
  obtain ⟨rfl, hgs⟩ := hq5
  exact FGoodAt.set hI5 hg (show CellOutX true strict B (.graph { gs with nodes := _ }) from
    hI5.sep g (.graph gs) hg hgs)

theorem fremoveSafeM_good {s : St} (g : Nat) (ns : List Nat) (hI : FInv true strict B wB s) (hg : ¬ B g)
    (hns : ∀ n ∈ ns, ¬ B n) : FGoodAt true strict B wB (removeSafeM g ns) s (fun _ _ => True) := by
  unfold removeSafeM
  fbind (FGoodAt.readGraph hI) with gs s1 hI1 hl1 hq1
  split
  · exact FGoodAt.unsupported hI1
  · fbind (fforM'_good (f := checkRemovable g ns.eraseDups gs.outputs) _ _ hI1
      (fun n _ s3 hI3 => ((Quiet.checkRemovable _ _ _ n).good hI3).mono fun _ _ _ _ _ => trivial))
      with u s2 hI2 hl2 hq2
    exact fforM'_good _ _ hI2 (fun n hn s3 hI3 =>
      fremoveOneSafe_good g n hI3 hg (hns n (List.mem_eraseDups.mp hn)))

theorem fcopyInfo_good {s : St} (p : Nat × Nat) (hI : FInv true strict B wB s) (ho : ¬ B p.1) (hn : ¬ B p.2) :
    FGoodAt true strict B wB (copyInfo p) s (fun _ _ => True) := by
  unfold copyInfo
  fbind (FGoodAt.readVal hI) with ov s1 hI1 hl1 hq1
  obtain ⟨rfl, hov⟩ := hq1
  fbind (FGoodAt.readVal hI1) with nv s2 hI2 hl2 hq2
  obtain ⟨rfl, hnv⟩ := hq2
  obtain ⟨o1, o2, _, _, _, o6, _⟩ := hI2.sep p.1 (.val ov) ho hov
  obtain ⟨a1, a2, a3, a4, a5, a6, a7⟩ := hI2.sep p.2 (.val nv) hn hnv
  have hc : CellOutX true strict B (.val { nv with
      type := if ov.type.isSome then ov.type else nv.type,
      shape := if ov.shape.isSome then ov.shape else nv.shape,
      const := if ov.const.isSome then ov.const else nv.const }) := by
    refine ⟨?_, ?_, a3, a4, a5, ?_, a7⟩
    · show OptOut B (if ov.type.isSome then ov.type else nv.type)
      split
      · exact o1
      · exact a1
    · show OptOut B (if ov.shape.isSome then ov.shape else nv.shape)
      split
      · exact o2
      · exact a2
    · show OptOut B (if ov.const.isSome then ov.const else nv.const)
      split
      · exact o6
      · exact a6
  fbind (FGoodAt.set hI2 hn hc) with u s3 hI3 hl3 hq3
  exact applyEdit0_frame (.setName p.2 _) hI3 (by
    intro a haa; simp [Edit.args] at haa; subst haa; exact hn)

theorem mem_zip_left {α β : Type} {l : List α} {l' : List β} {p : α × β} (h : p ∈ l.zip l') : p.1 ∈ l ∧ p.2 ∈ l' :=
  List.of_mem_zip h

theorem freplaceWith_good {s : St} (g n n' : Nat) (olds news : List Nat) (hI : FInv true strict B wB s)
    (hg : ¬ B g) (hn : ¬ B n) (hn' : ¬ B n') (holds : ∀ o ∈ olds, ¬ B o) (hnews : ∀ o ∈ news, ¬ B o) :
    FGoodAt true strict B wB (replaceWith g n n' olds news) s (fun _ _ => True) := by
  unfold replaceWith
  fbind (fforM'_good (f := copyInfo) _ _ hI (fun p hp s2 hI2 =>
    fcopyInfo_good p hI2 (holds _ (List.of_mem_zip hp).1) (hnews _ (List.of_mem_zip hp).2))) with u s1 hI1 hl1 hq1
  split
  · exact FGoodAt.raise hI1
  · fbind ((Quiet.rauwChecks true (olds.zip news) []).good hI1) with u1 s2 hI2 hl2 hq2
    fbind (fforM'_good (f := fun (p : Nat × Nat) => applyEdit2 (.replaceAllUses p.1 p.2 true)) _ _ hI2
      (fun p hp s3 hI3 => applyEdit2_frame (.replaceAllUses p.1 p.2 true) hI3 (by
        intro a haa
        simp [Edit2.args] at haa
        rcases haa with rfl | rfl
        · exact holds _ (List.of_mem_zip hp).1
        · exact hnews _ (List.of_mem_zip hp).2))) with u2 s3 hI3 hl3 hq3
    fbind (finsertNode_good true g n n' hI3 hg hn') with u3 s4 hI4 hl4 hq4
    exact fremoveSafeM_good g [n] hI4 hg (fun x hx => by simp at hx; subst hx; exact hn)

/-! ### `rename_values` -/

theorem renameDedup_sub : ∀ (l acc : List (Nat × String)) (r : List (Nat × String)),
    renameDedup acc l = .ok r → ∀ p ∈ r, p ∈ acc ∨ p ∈ l
  | [], acc, r, h, p, hp => by
    simp [renameDedup] at h
    subst h
    exact .inl (by simpa using hp)
  | q :: rest, acc, r, h, p, hp => by
    unfold renameDedup at h
    split at h
    · split at h
      · cases h
      · rcases renameDedup_sub rest acc r h p hp with h1 | h1
        · exact .inl h1
        · exact .inr (List.mem_cons_of_mem _ h1)
    · rcases renameDedup_sub rest (q :: acc) r h p hp with h1 | h1
      · rcases List.mem_cons.mp h1 with h2 | h2
        · exact .inr (h2 ▸ List.mem_cons_self)
        · exact .inl h2
      · exact .inr (List.mem_cons_of_mem _ h1)

/-- the groups name graphs outside `B` and pairs of the list -/
def GroupsOut (B : Nat → Prop) (l : List (Nat × String)) (groups : List (Nat × List (Nat × String))) : Prop :=
  ∀ e ∈ groups, ¬ B e.1 ∧ ∀ p ∈ e.2, p ∈ l

theorem fgroupInits_good (l0 : List (Nat × String)) (hl0 : ∀ p ∈ l0, ¬ B p.1) :
    ∀ (l : List (Nat × String)) (acc : List (Nat × List (Nat × String))) (s : St), FInv true strict B wB s →
      (∀ p ∈ l, p ∈ l0) → GroupsOut B l0 acc →
      FGoodAt true strict B wB (groupInits acc l) s (fun r s1 => s1 = s ∧ GroupsOut B l0 r)
  | [], acc, s, hI, _, hacc => FGoodAt.pure hI ⟨rfl, hacc⟩
  | p :: rest, acc, s, hI, hl, hacc => by
    unfold groupInits
    fbind (FGoodAt.readVal hI) with vs s1 hI1 hl1 hq1
    obtain ⟨rfl, hvs⟩ := hq1
    have hp0 := hl p List.mem_cons_self
    have hrest : ∀ q ∈ rest, q ∈ l0 := fun q hq => hl q (List.mem_cons_of_mem _ hq)
    split
    · exact fgroupInits_good l0 hl0 rest acc s1 hI1 hrest hacc
    · split
      · exact FGoodAt.unsupported hI1
      · next g hg =>
        have hgB : ¬ B g := by
          obtain ⟨_, _, _, _, e, _⟩ := hI1.sep p.1 (.val vs) (hl0 p hp0) hvs
          rw [hg] at e; exact e
        split
        · refine fgroupInits_good l0 hl0 rest _ s1 hI1 hrest ?_
          intro e he
          obtain ⟨e0, he0, rfl⟩ := List.mem_map.mp he
          split
          · next heq =>
            refine ⟨hgB, fun q hq => ?_⟩
            rcases List.mem_append.mp hq with h1 | h1
            · exact (hacc e0 he0).2 q h1
            · simp at h1; subst h1; exact hp0
          · exact hacc e0 he0
        · refine fgroupInits_good l0 hl0 rest _ s1 hI1 hrest ?_
          intro e he
          rcases List.mem_append.mp he with h1 | h1
          · exact hacc e h1
          · simp at h1
            subst h1
            exact ⟨hgB, fun q hq => by simp at hq; subst hq; exact hp0⟩

theorem frenameBacking_good {s : St} (p : Nat × String) (hI : FInv true strict B wB s) (hv : ¬ B p.1) :
    FGoodAt true strict B wB (renameBacking p) s (fun _ _ => True) := by
  unfold renameBacking
  fbind (FGoodAt.readVal hI) with vs s1 hI1 hl1 hq1
  obtain ⟨rfl, hvs⟩ := hq1
  split
  · unfold renameTensor
    split
    · exact FGoodAt.pure hI1 trivial
    · next t ht =>
      have htB : ¬ B t := by
        obtain ⟨_, _, _, _, _, k, _⟩ := hI1.sep p.1 (.val vs) hv hvs
        rw [ht] at k; exact k
      fbind (FGoodAt.readTensor hI1) with nm0 s3 hI3 hl3 hq3
      exact FGoodAt.set hI3 htB (c := .tensor (some p.2)) trivial
  · exact FGoodAt.pure hI1 trivial

theorem fpopByName_good {s : St} (g v : Nat) (hI : FInv true strict B wB s) (hg : ¬ B g) :
    FGoodAt true strict B wB (popByName g v) s (fun _ _ => True) := by
  unfold popByName
  fbind (FGoodAt.readVal hI) with vs s1 hI1 hl1 hq1
  split
  · exact FGoodAt.unsupported hI1
  · exact applyEdit2_frame (.delInit g _) hI1 (by
      intro a ha; simp [Edit2.args] at ha; subst ha; exact hg)

theorem faddByName_good {s : St} (g v : Nat) (hI : FInv true strict B wB s) (hg : ¬ B g) (hv : ¬ B v) :
    FGoodAt true strict B wB (addByName g v) s (fun _ _ => True) := by
  unfold addByName
  fbind (FGoodAt.readVal hI) with vs s1 hI1 hl1 hq1
  split
  · exact FGoodAt.raise hI1
  · exact fsetInitCore_good g _ v hI1 hg hv

/-! ### the frame lemma -/

theorem applyEdit3_frame (e : Edit3) {s : St} (hI : FInv true strict B wB s) (ha : ArgsOut3 B e) :
    FGoodAt true strict B wB (applyEdit3 e) s (fun _ _ => True) := by
  cases e with
  | base2 e => exact applyEdit2_frame e hI ha
  | sortDeep g nest =>
    unfold applyEdit3
    fbind (fgetWorld_good hI) with w s1 hI1 hl1 hq1
    subst hq1
    split
    · exact FGoodAt.unsupported hI1
    · next t ht =>
      unfold sortDeepWith
      split
      · exact FGoodAt.unsupported hI1
      · next hnest =>
        split
        · exact FGoodAt.raise hI1
        · next orders ho =>
          fbind (fforM'_good (f := fun gi => liftE (sortGraphOk w gi)) _ _ hI1
            (fun gi _ s3 hI3 => ((Quiet.liftE _).good hI3).mono fun _ _ _ _ _ => trivial)) with u s2 hI2 hl2 hq2
          refine fforM'_good _ _ hI2 (fun p hp s3 hI3 => fsetNodeOrder_good p hI3 ?_)
          -- the graphs written are the graphs of the tree, which are the arguments
          have hmem : p.1 ∈ (Sort.graphsOf t).map (·.1) := by
            unfold Sort.sortModel at ho
            simp only at ho
            split at ho
            · cases ho
            · split at ho
              · cases ho
              · simp only [Option.some.injEq] at ho
                subst ho
                obtain ⟨gc, hgc, rfl⟩ := List.mem_map.mp hp
                exact List.mem_map.mpr ⟨gc, hgc, rfl⟩
          have hargs : p.1 ∈ g :: nest := by
            have h2 : (Sort.allGraphs t).map (·.1) = g :: nest := by simpa using hnest
            rw [← h2]
            unfold Sort.graphsOf at hmem
            simpa [Sort.orderOf] using hmem
          exact ha p.1 hargs
  | setInputsSlice g a b vs =>
    unfold applyEdit3
    refine fsetSliceG_good g a b vs (Quiet.checkInput g) ?_ ?_ ?_ ?_ hI (ha g (by simp [Edit3.args]))
      (fun v hv => ha v (by simp [Edit3.args, hv]))
    · rintro x ⟨a1, a2, a3, a4, a5, a6, a7⟩; exact ⟨a1, a2, a3, a4, a5, a6, a7⟩
    · rintro x ⟨a1, a2, a3, a4, a5, a6, a7⟩; exact ⟨a1, a2, a3, a4, a5, a6, a7⟩
    · rintro gs ⟨_, _, _, gx⟩; exact (gx rfl).1
    · rintro gs l ⟨go, gp, gm, gx⟩ hl; exact ⟨go, gp, gm, fun hu => ⟨hl, (gx hu).2⟩⟩
  | setOutputsSlice g a b vs =>
    unfold applyEdit3
    refine fsetSliceG_good g a b vs (Quiet.checkOwned g) ?_ ?_ ?_ ?_ hI (ha g (by simp [Edit3.args]))
      (fun v hv => ha v (by simp [Edit3.args, hv]))
    · rintro x ⟨a1, a2, a3, a4, a5, a6, a7⟩; exact ⟨a1, a2, a3, a4, a5, a6, a7⟩
    · rintro x ⟨a1, a2, a3, a4, a5, a6, a7⟩; exact ⟨a1, a2, a3, a4, a5, a6, a7⟩
    · rintro gs ⟨go, _, _, _⟩; exact go
    · rintro gs l ⟨go, gp, gm, gx⟩ hl; exact ⟨hl, gp, gm, gx⟩
  | popInit g key =>
    have hg : ¬ B g := ha g (by simp [Edit3.args])
    exact applyEdit2_frame (.delInit g key) hI (by
      intro a haa; simp [Edit2.args] at haa; subst haa; exact hg)
  | clearInits g =>
    have hg : ¬ B g := ha g (by simp [Edit3.args])
    unfold applyEdit3
    fbind (FGoodAt.readGraph hI) with gs s1 hI1 hl1 hq1
    split
    · exact FGoodAt.unsupported hI1
    · exact fclearInitsLoop_good g hg _ s1 hI1
  | updateInits g items =>
    have hg : ¬ B g := ha g (by simp [Edit3.args])
    unfold applyEdit3
    fbind (FGoodAt.readGraph hI) with gs s1 hI1 hl1 hq1
    split
    · exact FGoodAt.unsupported hI1
    · fbind ((Quiet.updChecks g items []).good hI1) with u s2 hI2 hl2 hq2
      refine fforM'_good _ _ hI2 (fun kv hkv s3 hI3 => fsetInitCore_good g kv.1 kv.2 hI3 hg ?_)
      exact ha kv.2 (by simp only [Edit3.args, List.mem_cons, List.mem_map]; exact .inr ⟨kv, hkv, rfl⟩)
  | extendNodes g ns =>
    have hg : ¬ B g := ha g (by simp [Edit3.args])
    unfold applyEdit3
    fbind (FGoodAt.readGraph hI) with gs s1 hI1 hl1 hq1
    split
    · exact FGoodAt.unsupported hI1
    · fbind (fgetWorld_good hI1) with w s2 hI2 hl2 hq2
      subst hq2
      fbind (fforM'_good (f := fun n => liftE (nodeAddable w g n)) _ _ hI2
        (fun n _ s3 hI3 => ((Quiet.liftE _).good hI3).mono fun _ _ _ _ _ => trivial)) with u s3 hI3 hl3 hq3
      have hset : FGoodAt true strict B wB (forM' (fun n => do
            let x ← readNode n
            setCell n (.node { x with graph := some g })) ns) s3 (fun _ _ => True) := by
        refine fforM'_good _ _ hI3 (fun n hn s4 hI4 => ?_)
        have hnB : ¬ B n := ha n (by simp [Edit3.args, hn])
        fbind (FGoodAt.readNode hI4) with x s5 hI5 hl5 hq5
        obtain ⟨rfl, hx⟩ := hq5
        exact FGoodAt.set hI5 hnB (show CellOutX true strict B (.node { x with graph := some g }) from
          hI5.sep n (.node x) hnB hx)
      fbind hset with u2 s4 hI4 hl4 hq4
      fbind (FGoodAt.readGraph hI4) with gs2 s5 hI5 hl5 hq5
      obtain ⟨rfl, hgs2⟩ := hq5
      exact FGoodAt.set hI5 hg (show CellOutX true strict B (.graph { gs2 with nodes := _ }) from
        hI5.sep g (.graph gs2) hg hgs2)
  | removeSafe g ns =>
    unfold applyEdit3
    exact fremoveSafeM_good g ns hI (ha g (by simp [Edit3.args])) (fun n hn => ha n (by simp [Edit3.args, hn]))
  | replaceNode g n name op inputs outNames =>
    have hg : ¬ B g := ha g (by simp [Edit3.args])
    have hnB : ¬ B n := ha n (by simp [Edit3.args])
    have hins : ∀ v, some v ∈ inputs → ¬ B v := by
      intro v hv
      apply ha v
      simp only [Edit3.args, List.mem_cons, List.mem_filterMap, id]
      exact .inr (.inr ⟨some v, hv, rfl⟩)
    unfold applyEdit3
    fbind (FGoodAt.readGraph hI) with gs s1 hI1 hl1 hq1
    split
    · exact FGoodAt.unsupported hI1
    · fbind (FGoodAt.readNode hI1) with x s1' hI1' hl1' hq1'
      obtain ⟨rfl, hx⟩ := hq1'
      have hxo : ∀ o ∈ x.outputs, ¬ B o := by
        obtain ⟨_, _, _, a4⟩ := hI1'.sep n (.node x) hnB hx
        exact a4 rfl
      fbind (FGoodAt.alloc hI1' (c := .dict {}) trivial) with pr s2 hI2 hl2 hpr
      fbind (FGoodAt.alloc hI2 (c := .dict {}) trivial) with me s3 hI3 hl3 hme
      have hc : CellOutX true strict B
          (.node { name := some name, opType := op, inputs := inputs, props := pr, mstore := me }) :=
        ⟨fun _ => hins, hpr.1, hme.1, fun _ o ho => by cases ho⟩
      fbind (FGoodAt.alloc hI3 hc) with n' s4 hI4 hl4 hn'
      fbind (fmkOutputs_good n' outNames.length 0 s4 hI4) with outs s5 hI5 hl5 houts
      fbind (FGoodAt.readNode hI5) with nn s6 hI6 hl6 hq6
      obtain ⟨rfl, hnn⟩ := hq6
      obtain ⟨b1, b2, b3, _⟩ := hI6.sep n' (.node nn) hn'.1 hnn
      fbind (FGoodAt.set hI6 hn'.1 (show CellOutX true strict B (.node { nn with outputs := outs }) from
        ⟨b1, b2, b3, fun _ => houts⟩)) with u s7 hI7 hl7 hq7
      fbind (faddUses_good n' hn'.1 inputs 0 s7 hI7 hins) with u2 s8 hI8 hl8 hq8
      fbind (fsetOutputNames_good outs outNames s8 hI8 houts) with u3 s9 hI9 hl9 hq9
      exact freplaceWith_good g n n' x.outputs outs hI9 hg hnB hn'.1 hxo houts
  | rauwMulti pairs outs =>
    unfold applyEdit3
    fbind ((Quiet.rauwChecks outs pairs []).good hI) with u s1 hI1 hl1 hq1
    refine fforM'_good _ _ hI1 (fun p hp s2 hI2 => applyEdit2_frame (.replaceAllUses p.1 p.2 outs) hI2 ?_)
    intro a haa
    simp [Edit2.args] at haa
    apply ha a
    simp only [Edit3.args, List.mem_flatMap]
    exact ⟨p, hp, by rcases haa with rfl | rfl <;> simp⟩
  | renameValues pairs =>
    simp only [applyEdit3]
    cases hd : renameDedup [] pairs with
    | error e =>
      have hf : FGoodAt true strict B wB (liftE (Except.error e : Except Err (List (Nat × String)))) s
          (fun _ _ => False) := FGoodAt.fail hI
      exact FGoodAt.bind hf (fun _ _ _ _ h => h.elim)
    | ok ordered =>
      have hord : ∀ p ∈ ordered, ¬ B p.1 := by
        intro p hp
        rcases renameDedup_sub pairs [] ordered hd p hp with h | h
        · cases h
        · exact ha p.1 (by simp only [Edit3.args, List.mem_map]; exact ⟨p, h, rfl⟩)
      have hp : FGoodAt true strict B wB (liftE (Except.ok ordered : Except Err (List (Nat × String)))) s
          (fun r s1 => r = ordered ∧ s1 = s) := FGoodAt.pure hI ⟨rfl, rfl⟩
      fbind hp with o s1 hI1 hl1 hq1
      obtain ⟨rfl, rfl⟩ := hq1
      fbind (fgroupInits_good o hord o [] s1 hI1 (fun _ h => h) (fun e he => by cases he)) with groups s2 hI2 hl2 hq2
      obtain ⟨rfl, hgr⟩ := hq2
      fbind (fforM'_good (f := fun (e : Nat × List (Nat × String)) => renameGroupChecks e.1 e.2 [] e.2) _ _ hI2
        (fun e _ s3 hI3 => ((Quiet.renameGroupChecks e.1 e.2 e.2 []).good hI3).mono fun _ _ _ _ _ => trivial))
        with u1 s3 hI3 hl3 hq3
      fbind (fforM'_good (f := renameBacking) _ _ hI3 (fun p hp s4 hI4 => frenameBacking_good p hI4 (hord p hp)))
        with u2 s4 hI4 hl4 hq4
      fbind (fforM'_good (f := fun (e : Nat × List (Nat × String)) => forM' (fun p => popByName e.1 p.1) e.2) _ _ hI4
        (fun e he s5 hI5 => fforM'_good _ _ hI5 (fun p _ s6 hI6 => fpopByName_good e.1 p.1 hI6 (hgr e he).1)))
        with u3 s5 hI5 hl5 hq5
      fbind (fforM'_good (f := fun (p : Nat × String) => applyEdit0 (.setName p.1 (some p.2))) _ _ hI5
        (fun p hp s6 hI6 => applyEdit0_frame (.setName p.1 (some p.2)) hI6 (by
          intro a haa; simp [Edit.args] at haa; subst haa; exact hord p hp))) with u4 s6 hI6 hl6 hq6
      exact fforM'_good (f := fun (e : Nat × List (Nat × String)) => forM' (fun p => addByName e.1 p.1) e.2) _ _ hI6
        (fun e he s7 hI7 => fforM'_good _ _ hI7 (fun p hp s8 hI8 =>
          faddByName_good e.1 p.1 hI8 (hgr e he).1 (hord p ((hgr e he).2 p hp))))

end
end IrVerif.Clone

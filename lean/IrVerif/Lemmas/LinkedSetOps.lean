/-
Composite operations (`insertOneAfter`, `insertManyAfter`, `append`, `extend`, `insertAfter`,
`insertBefore`) preserve `Inv`; the resulting box list is given explicitly.
-/
import IrVerif.Lemmas.LinkedSetInv
namespace IrVerif.LinkedSet

/-- `b` is the root or a live box -/
def IsNode (bs : List Nat) (b : Nat) : Prop := b = 0 ∨ b ∈ bs

theorem split_at_node {bs : List Nat} {b : Nat} (hb : IsNode bs b) (h0 : 0 ∉ bs) :
    ∃ l1 l2, bs = l1 ++ l2 ∧ lastOr 0 l1 = b ∧ (b = 0 → l1 = []) := by
  rcases hb with rfl | hb
  · exact ⟨[], bs, rfl, rfl, fun _ => rfl⟩
  · obtain ⟨A, B, rfl⟩ := List.append_of_mem hb
    refine ⟨A ++ [b], B, by simp, lastOr_append_singleton A 0 b, ?_⟩
    rintro rfl
    exact absurd hb h0

theorem inv_empty : Inv empty [] := by
  have hb : ∀ b, box empty b = Box.dflt := by
    intro b
    rcases b with _ | b
    · rfl
    · exact box_oob _ _ (by simp [size, empty])
  have hnx : ∀ b, nx empty b = 0 := fun b => by simp [nx, hb, Box.dflt]
  have hpv : ∀ b, pv empty b = 0 := fun b => by simp [pv, hb, Box.dflt]
  have hval : ∀ b, val empty b = none := fun b => by simp [val, hb, Box.dflt]
  have hstp : ∀ b, stp empty b = 0 := fun b => by simp [stp, hb, Box.dflt]
  have hown : ∀ b, own empty b = true := fun b => by simp [own, hb, Box.dflt]
  have hsize : size empty = 1 := rfl
  have hidx : empty.index = [] := rfl
  have hlen : empty.length = 0 := rfl
  have hclk : empty.clock = 1 := rfl
  constructor <;> simp [hnx, hpv, hval, hstp, hown, hsize, Links_cons2, hidx, hlen, hclk]

/-- `insertOneAfter` at a node: what it returns and the new box list -/
theorem inv_insertOneAfter {s : LSet} {bs : List Nat} (h : Inv s bs) {b : Nat} (hb : IsNode bs b)
    (v : Nat) :
    ∃ bs' b', insertOneAfter s b v = ((insertOneAfter s b v).1, some b') ∧
      Inv (insertOneAfter s b v).1 bs' ∧ b' ∈ bs' ∧ val (insertOneAfter s b v).1 b' = some v ∧
      size s ≤ size (insertOneAfter s b v).1 := by
  unfold insertOneAfter
  by_cases h1 : val s b = some v
  · simp only [h1, if_true]
    have hbm : b ∈ bs := by
      rcases hb with rfl | hb
      · have := h.dead 0 h.zero_notin; rw [this] at h1; cases h1
      · exact hb
    exact ⟨bs, b, rfl, h, hbm, h1, Nat.le_refl _⟩
  · simp only [h1, if_false, h.owned b, Bool.not_true, Bool.false_eq_true]
    by_cases hp : ∃ n ∈ bs, val s n = some v
    · obtain ⟨n, hn, hvn⟩ := hp
      have hl : (lookup s v).isSome = true := by rw [h.lookup_some hn hvn]; rfl
      simp only [hl, if_true, h.remove_eq hn hvn, Bool.not_true, Bool.false_eq_true, if_false]
      obtain ⟨l1, l2, rfl⟩ := List.append_of_mem hn
      have h' := inv_rmv h hvn
      have hbn : b ≠ n := by rintro rfl; exact h1 hvn
      have hb' : IsNode (l1 ++ l2) b := by
        rcases hb with hb | hb
        · exact Or.inl hb
        · right; grind
      obtain ⟨k1, k2, hk, hlast, _⟩ := split_at_node hb' h'.zero_notin
      rw [hk] at h'
      have hfresh : ∀ c ∈ k1 ++ k2, val (rmv s n v) c ≠ some v := by
        intro c hc hcv
        rw [← hk] at hc
        have hcn : c ≠ n := by have := h.nodup; grind
        have e : val (rmv s n v) c = val s c := by
          show val (er s n) c = _
          rw [val_er]; simp [hcn]
        rw [e] at hcv
        exact hcn (h.val_inj (by grind) (by simp) hcv hvn)
      have h'' := inv_lnk h' hfresh
      rw [hlast] at h''
      refine ⟨_, size (rmv s n v), ?_, h'', by simp, ?_, ?_⟩
      · rw [linkNew_eq]
      · rw [linkNew_eq]; show val (lnkS _ _ _) _ = _
        rw [val_lnkS, val_lnk]; simp
      · rw [linkNew_eq]; show _ ≤ size (lnkS _ _ _)
        rw [size_lnkS, size_lnk]
        have : size (rmv s n v) = size s := by show size (er s n) = _; simp
        omega
    · have hfresh : ∀ c ∈ bs, val s c ≠ some v := fun c hc hcv => hp ⟨c, hc, hcv⟩
      have hl : (lookup s v).isSome = false := by rw [h.lookup_none hfresh]; rfl
      simp only [hl, Bool.false_eq_true, if_false, Bool.not_true]
      obtain ⟨k1, k2, hk, hlast, _⟩ := split_at_node hb h.zero_notin
      subst hk
      have h'' := inv_lnk h hfresh
      rw [hlast] at h''
      refine ⟨_, size s, ?_, h'', by simp, ?_, ?_⟩
      · rw [linkNew_eq]
      · rw [linkNew_eq]; show val (lnkS _ _ _) _ = _
        rw [val_lnkS, val_lnk]; simp
      · rw [linkNew_eq]; show _ ≤ size (lnkS _ _ _)
        rw [size_lnkS, size_lnk]; omega

end IrVerif.LinkedSet

/-
Effect of the two primitive transitions (`eraseBox`, `linkNew`) on every accessor.
-/
import IrVerif.Lemmas.LinkedSetBasic
namespace IrVerif.LinkedSet

/-- the state `eraseBox` returns -/
def er (s : LSet) (n : Nat) : LSet :=
  setErased (setPrev (setNext s (pv s n) (nx s n)) (nx s n) (pv s n)) n

theorem eraseBox_eq (s : LSet) (n : Nat) (h : (val s n).isSome) : eraseBox s n = some (er s n) := by
  unfold eraseBox er
  have : ¬ (val s n).isNone = true := by
    cases hv : val s n <;> simp_all
  simp [this]

theorem eraseBox_none (s : LSet) (n : Nat) (h : val s n = none) : eraseBox s n = none := by
  unfold eraseBox; simp [h]

@[simp] theorem size_er (s : LSet) (n : Nat) : size (er s n) = size s := by simp [er]
@[simp] theorem clock_er (s : LSet) (n : Nat) : (er s n).clock = s.clock + 1 := by simp [er]
@[simp] theorem index_er (s : LSet) (n : Nat) : (er s n).index = s.index := by simp [er]
@[simp] theorem length_er (s : LSet) (n : Nat) : (er s n).length = s.length := by simp [er]

theorem nx_er (s : LSet) (n x : Nat) :
    nx (er s n) x = if x = pv s n ∧ pv s n < size s then nx s n else nx s x := by
  simp only [er, nx_setErased, nx_setPrev, nx_setNext]
theorem pv_er (s : LSet) (n x : Nat) :
    pv (er s n) x = if x = nx s n ∧ nx s n < size s then pv s n else pv s x := by
  simp only [er, pv_setErased, pv_setPrev, pv_setNext, size_setNext]
theorem val_er (s : LSet) (n x : Nat) :
    val (er s n) x = if x = n ∧ n < size s then none else val s x := by
  simp only [er, val_setErased, val_setPrev, val_setNext, size_setNext, size_setPrev]
theorem stp_er (s : LSet) (n x : Nat) :
    stp (er s n) x = if x = n ∧ n < size s then s.clock else stp s x := by
  simp only [er, stp_setErased, stp_setPrev, stp_setNext, size_setNext, size_setPrev,
    clock_setNext, clock_setPrev]
theorem own_er (s : LSet) (n x : Nat) : own (er s n) x = own s x := by
  simp only [er, own_setErased, own_setPrev, own_setNext]

/-- the state `linkNew` returns, without the length / dict update -/
def lnk (s : LSet) (b v : Nat) : LSet :=
  setPrev (setNext (setPrev (setNext (pushBox s v) b (size s)) (size s) b) (size s) (nx (pushBox s v) b))
    (nx (pushBox s v) b) (size s)

/-- the state `linkNew` returns -/
def lnkS (s : LSet) (b v : Nat) : LSet :=
  { lnk s b v with length := s.length + 1, index := dictSet s.index v (size s) }

theorem nx_lnkS (s : LSet) (b v x : Nat) : nx (lnkS s b v) x = nx (lnk s b v) x := rfl
theorem pv_lnkS (s : LSet) (b v x : Nat) : pv (lnkS s b v) x = pv (lnk s b v) x := rfl
theorem val_lnkS (s : LSet) (b v x : Nat) : val (lnkS s b v) x = val (lnk s b v) x := rfl
theorem stp_lnkS (s : LSet) (b v x : Nat) : stp (lnkS s b v) x = stp (lnk s b v) x := rfl
theorem own_lnkS (s : LSet) (b v x : Nat) : own (lnkS s b v) x = own (lnk s b v) x := rfl
theorem size_lnkS (s : LSet) (b v : Nat) : size (lnkS s b v) = size (lnk s b v) := rfl
theorem clock_lnkS (s : LSet) (b v : Nat) : (lnkS s b v).clock = (lnk s b v).clock := rfl
theorem index_lnkS (s : LSet) (b v : Nat) : (lnkS s b v).index = dictSet s.index v (size s) := rfl
theorem length_lnkS (s : LSet) (b v : Nat) : (lnkS s b v).length = s.length + 1 := rfl

theorem linkNew_eq (s : LSet) (b v : Nat) : linkNew s b v = (lnkS s b v, size s) := by
  simp [linkNew, lnk, lnkS]

@[simp] theorem size_lnk (s : LSet) (b v : Nat) : size (lnk s b v) = size s + 1 := by simp [lnk]
@[simp] theorem clock_lnk (s : LSet) (b v : Nat) : (lnk s b v).clock = s.clock := by simp [lnk]

theorem nx_lnk (s : LSet) (b v x : Nat) (hb : b < size s) :
    nx (lnk s b v) x = if x = size s then nx s b else if x = b then size s else nx s x := by
  simp only [lnk, nx_setPrev, nx_setNext, nx_pushBox, size_setPrev, size_setNext, size_pushBox]
  by_cases h1 : x = size s
  · subst h1; simp; omega
  · by_cases h2 : x = b
    · subst h2; simp [h1]; omega
    · simp [h1, h2]
theorem pv_lnk (s : LSet) (b v x : Nat) (hb : b < size s) (hn : nx s b < size s) :
    pv (lnk s b v) x = if x = nx s b then size s else if x = size s then b else pv s x := by
  have hne : b ≠ size s := by omega
  simp only [lnk, pv_setPrev, pv_setNext, pv_pushBox, nx_pushBox, size_setPrev, size_setNext,
    size_pushBox, hne, if_false]
  by_cases h1 : x = nx s b
  · subst h1; simp; omega
  · by_cases h2 : x = size s
    · subst h2; simp [h1]
    · simp [h1, h2]
theorem val_lnk (s : LSet) (b v x : Nat) :
    val (lnk s b v) x = if x = size s then some v else val s x := by
  simp only [lnk, val_setPrev, val_setNext, val_pushBox]
theorem stp_lnk (s : LSet) (b v x : Nat) :
    stp (lnk s b v) x = if x = size s then 0 else stp s x := by
  simp only [lnk, stp_setPrev, stp_setNext, stp_pushBox]
theorem own_lnk (s : LSet) (b v x : Nat) :
    own (lnk s b v) x = if x = size s then true else own s x := by
  simp only [lnk, own_setPrev, own_setNext, own_pushBox]

end IrVerif.LinkedSet

import IrVerif.Lemmas.SerdeWideSub
/-! C02 deepening, E3: `deserialize (merge g) = deserialize g` for `WFproto (merge g)`.
Route: both sides have the closed form of `SerdeAssemble` (its deserialization half does not need
"no value_info names an output"); the final tables agree value by value. -/
namespace IrVerif.Serde
open IrVerif.Proto

/-! ### nodes do not look into the table's values -/

theorem desNode_indep (outer : Scopes) (vis : List ValueInfoP) (q : List AnnotP) (tbl tbl₂ : List IRValue)
    (hn : tableNames tbl₂ = tableNames tbl) : ∀ (n : NodeP) (x : IRNode),
    n.inputs.all (fun s => s.isEmpty || (resolve (tableNames tbl :: outer) s).isSome) = true →
    desNode outer vis q tbl n = .ok (x, tbl) → desNode outer vis q tbl₂ n = .ok (x, tbl₂)
  | .mk inputs outputs name opType domain overload doc attrs metadata devcfgs, x, hin, h => by
    simp only [NodeP.inputs] at hin
    have hin₂ : inputs.all (fun s => s.isEmpty || (resolve (tableNames tbl₂ :: outer) s).isSome) = true := by
      rw [hn]; exact hin
    simp only [desNode, desNodeInputs_wf outer vis q tbl inputs hin, bind, Except.bind] at h
    simp only [desNode, desNodeInputs_wf outer vis q tbl₂ inputs hin₂, bind, Except.bind, hn]
    cases ho : desNodeOutputs (tableNames tbl) outputs with
    | error e => simp [ho] at h
    | ok outs =>
      simp only [ho] at h ⊢
      cases ha : desAttrsLast (tableNames tbl :: outer) attrs with
      | error e => simp [ha] at h
      | ok as =>
        simp only [ha, Except.ok.injEq, Prod.mk.injEq, and_true] at h ⊢
        exact h

theorem desNode_ok_tbl (outer : Scopes) (vis : List ValueInfoP) (q : List AnnotP) (tbl t1 : List IRValue) :
    ∀ (n : NodeP) (x : IRNode),
    n.inputs.all (fun s => s.isEmpty || (resolve (tableNames tbl :: outer) s).isSome) = true →
    desNode outer vis q tbl n = .ok (x, t1) → t1 = tbl
  | .mk inputs outputs name opType domain overload doc attrs metadata devcfgs, x, hin, h => by
    simp only [NodeP.inputs] at hin
    simp only [desNode, desNodeInputs_wf outer vis q tbl inputs hin, bind, Except.bind] at h
    cases ho : desNodeOutputs (tableNames tbl) outputs with
    | error e => simp [ho] at h
    | ok outs =>
      simp only [ho] at h
      cases ha : desAttrsLast (tableNames tbl :: outer) attrs with
      | error e => simp [ha] at h
      | ok as =>
        simp only [ha, Except.ok.injEq, Prod.mk.injEq] at h
        exact h.2.symm

def inputsResolvable (scopes : Scopes) (nodes : List NodeP) : Prop :=
  ∀ n ∈ nodes, n.inputs.all (fun s => s.isEmpty || (resolve scopes s).isSome) = true

theorem desNodes_indep (outer : Scopes) (vis : List ValueInfoP) (q : List AnnotP) (tbl tbl₂ : List IRValue)
    (hn : tableNames tbl₂ = tableNames tbl) : ∀ (nodes : List NodeP) (xs : List IRNode),
    inputsResolvable (tableNames tbl :: outer) nodes →
    desNodes outer vis q nodes tbl = .ok (xs, tbl) → desNodes outer vis q nodes tbl₂ = .ok (xs, tbl₂)
  | [], xs, _, h => by
    simp only [desNodes, Except.ok.injEq, Prod.mk.injEq] at h ⊢
    exact ⟨h.1, trivial⟩
  | n :: ns, xs, hin, h => by
    simp only [desNodes] at h ⊢
    obtain ⟨⟨x, t1⟩, h1, h⟩ := bind_eq_ok h
    obtain ⟨⟨ys, t2⟩, h2, h⟩ := bind_eq_ok h
    simp only [Except.ok.injEq, Prod.mk.injEq] at h
    have ht1 : t1 = tbl := desNode_ok_tbl outer vis q tbl t1 n x (hin n List.mem_cons_self) h1
    rw [ht1] at h1 h2
    obtain ⟨hxs, ht2⟩ := h
    simp only [] at h2
    rw [ht2] at h2
    have e1 := desNode_indep outer vis q tbl tbl₂ hn n x (hin n List.mem_cons_self) h1
    have e2 := desNodes_indep outer vis q tbl tbl₂ hn ns ys
      (fun m hm => hin m (List.mem_cons_of_mem _ hm)) h2
    simp only [e1, e2, bind, Except.bind, hxs]

theorem inputsResolvable_of_wf {scopes : Scopes} : ∀ {nodes : List NodeP},
    wfNodes scopes nodes = true → inputsResolvable scopes nodes
  | [], _ => fun _ h => by cases h
  | n :: ns, h => by
    simp only [wfNodes, Bool.and_eq_true] at h
    intro m hm
    rcases List.mem_cons.1 hm with rfl | hm
    · cases m with
      | mk inputs outputs name opType domain overload doc attrs metadata devcfgs =>
        simp only [wfNode, Bool.and_eq_true] at h
        exact h.1.1.1.1.1.1
    · exact inputsResolvable_of_wf h.2 m hm

/-! ### merge keeps names -/

theorem mergeAttr_name (a : AttrP) : (mergeAttr a).name = a.name := by
  cases a <;> rfl

theorem mergeAttrs_names : ∀ as : List AttrP, (mergeAttrs as).map AttrP.name = as.map AttrP.name
  | [] => rfl
  | a :: as => by simp only [mergeAttrs, List.map_cons, mergeAttr_name, mergeAttrs_names as]

theorem mergeAttrs_any (n : String) : ∀ as : List AttrP,
    (mergeAttrs as).any (fun b => b.name = n) = as.any (fun b => b.name = n)
  | [] => rfl
  | a :: as => by simp only [mergeAttrs, List.any_cons, mergeAttr_name, mergeAttrs_any n as]

theorem mergeNode_outputs (n : NodeP) : (mergeNode n).outputs = n.outputs := by cases n; rfl
theorem mergeNode_inputs (n : NodeP) : (mergeNode n).inputs = n.inputs := by cases n; rfl

theorem nodeOutNames_mergeNodes : ∀ nodes : List NodeP, nodeOutNames (mergeNodes nodes) = nodeOutNames nodes
  | [] => rfl
  | n :: ns => by
    have := nodeOutNames_mergeNodes ns
    simp only [nodeOutNames, mergeNodes, List.flatMap_cons, List.filter_append, mergeNode_outputs] at this ⊢
    rw [this]

theorem inputsResolvable_merge {scopes : Scopes} : ∀ {nodes : List NodeP},
    inputsResolvable scopes (mergeNodes nodes) → inputsResolvable scopes nodes
  | [], _ => fun _ h => by cases h
  | n :: ns, h => by
    intro m hm
    rcases List.mem_cons.1 hm with rfl | hm
    · have := h (mergeNode m) (by simp [mergeNodes])
      rwa [mergeNode_inputs] at this
    · exact inputsResolvable_merge (nodes := ns)
        (fun k hk => h k (by simp only [mergeNodes]; exact List.mem_cons_of_mem _ hk)) m hm

theorem mergeOutVI_name (D I : List String) (vis : List ValueInfoP) (vo : ValueInfoP) :
    (mergeOutVI D I vis vo).name = vo.name := by
  unfold mergeOutVI
  split
  · split
    · split <;> rfl
    · rfl
  · rfl

theorem mergeOutVI_type (D I : List String) (vis : List ValueInfoP) (vo : ValueInfoP) :
    (mergeOutVI D I vis vo).type = vo.type ∧ (mergeOutVI D I vis vo).doc = vo.doc := by
  unfold mergeOutVI
  split
  · split
    · split <;> exact ⟨rfl, rfl⟩
    · exact ⟨rfl, rfl⟩
  · exact ⟨rfl, rfl⟩

theorem map_mergeOutVI_names (D I : List String) (vis outputs : List ValueInfoP) :
    (outputs.map (mergeOutVI D I vis)).map (·.name) = outputs.map (·.name) := by
  rw [List.map_map]
  apply List.map_congr_left
  intro vo _
  exact mergeOutVI_name D I vis vo

/-- a merged output entry is well formed only if the original was -/
theorem wfVI_of_merge (D I : List String) (vis : List ValueInfoP) (vo : ValueInfoP)
    (h : wfVI (mergeOutVI D I vis vo) = true) : wfVI vo = true := by
  unfold mergeOutVI at h
  split at h
  · rename_i ha
    simp only [mergeApplies, Bool.and_eq_true] at ha
    split at h
    · split at h
      · simp only [wfVI, Bool.and_eq_true] at h ⊢
        exact ⟨h.1, ha.2⟩
      · exact h
    · exact h
  · exact h

/-! ### dictionaries -/

theorem dictOfEntries_entriesOfDict (d : Dict) (h : (dkeys d).Nodup) : dictOfEntries (entriesOfDict d) = d := by
  have hk : ((entriesOfDict d).map (·.key)) = dkeys d := by
    simp [entriesOfDict, dkeys, List.map_map, Function.comp_def]
  rw [dictOfEntries_of_nodup (by rw [hk]; exact h)]
  simp [entriesOfDict, pairOf, List.map_map, Function.comp_def]

theorem applyInfoT_merge (v v' : IRValue) (vi vo : ValueInfoP)
    (hname : v'.name = v.name) (hq : v'.quant = v.quant) (hc : v'.const = v.const)
    (hm : v.mprops = dictOfEntries vi.metadata) (hm' : v'.mprops = []) :
    applyInfoT v vo = applyInfoT v'
      { vo with metadata :=
          entriesOfDict (dictUpdate (dictOfEntries vi.metadata) (dictOfEntries vo.metadata)) } := by
  have hnd : (dkeys (dictUpdate (dictOfEntries vi.metadata) (dictOfEntries vo.metadata))).Nodup :=
    nodup_dkeys_dictUpdate (nodup_dkeys_dictOfEntries _) _
  cases v; cases v'
  simp only [applyInfoT, IRValue.mk.injEq] at *
  subst hname hq hc hm hm'
  simp only [dictOfEntries_entriesOfDict _ hnd, dictUpdate_nil _ hnd, and_self]

theorem applyQuant_mprops (q : List AnnotP) (v : IRValue) : (applyQuant q v).mprops = v.mprops := by
  unfold applyQuant; split <;> rfl

theorem applyQuant_quant_congr (q : List AnnotP) (a b : IRValue) (hn : a.name = b.name)
    (hq : a.quant = b.quant) : (applyQuant q a).quant = (applyQuant q b).quant := by
  unfold applyQuant
  rw [hn]
  split <;> simp [hq]

/-! ### the final tables agree -/

theorem find?_map_vi_name (M : ValueInfoP → ValueInfoP) (hM : ∀ vo, (M vo).name = vo.name) (n : String) :
    ∀ l : List ValueInfoP, (l.map M).find? (fun vi => vi.name = n) = (l.find? (fun vi => vi.name = n)).map M
  | [] => rfl
  | v :: vs => by
    simp only [List.map_cons, List.find?_cons, hM]
    split
    · rfl
    · exact find?_map_vi_name M hM n vs

section tables
variable {inits : List TensorP} {inputs outputs vis : List ValueInfoP} {quant : List AnnotP}
  {outs : List String}

/-- abbreviations of `mergeGraph` -/
abbrev mDeclared (inits : List TensorP) (outs : List String) : List String := inits.map (·.name) ++ outs
abbrev mOutputs (inits : List TensorP) (inputs outputs vis : List ValueInfoP) (outs : List String) :=
  outputs.map (mergeOutVI (mDeclared inits outs) (inputs.map (·.name)) vis)
abbrev mVis (inits : List TensorP) (inputs outputs vis : List ValueInfoP) (outs : List String) :=
  mergeVIs (mDeclared inits outs) (inputs.map (·.name)) (outputs.map (·.name)) vis

theorem findVI_mVis_of_not_output {n : String} (hn : n ∉ outputs.map (·.name)) :
    findVI (mVis inits inputs outputs vis outs) n = findVI vis n := by
  unfold mVis mergeVIs
  apply findVI_filter
  intro v hv
  have : (outputs.map (·.name)).contains v.name = false := by
    rw [hv]; simpa using hn
  simp only [this, Bool.false_and, Bool.not_false]

/-- what `WFproto (merge g)` says about a declared, non-input name `n` that is a graph output -/
theorem merge_at_output
    (hw' : GraphWF inits inputs (mOutputs inits inputs outputs vis outs) (mVis inits inputs outputs vis outs)
      quant outs)
    {n : String} (hd : n ∈ mDeclared inits outs) (hi : n ∉ inputs.map (·.name))
    {vo : ValueInfoP} (hvom : vo ∈ outputs) (hvon : vo.name = n) :
    findVI (mVis inits inputs outputs vis outs) n = none ∧
    ((findVI vis n = none ∧ mergeOutVI (mDeclared inits outs) (inputs.map (·.name)) vis vo = vo) ∨
     (∃ vi, findVI vis n = some vi ∧ wfVI vi = true ∧
        mergeOutVI (mDeclared inits outs) (inputs.map (·.name)) vis vo =
          { vo with metadata :=
              entriesOfDict (dictUpdate (dictOfEntries vi.metadata) (dictOfEntries vo.metadata)) })) := by
  have hnout : n ∈ outputs.map (·.name) := by rw [← hvon]; exact List.mem_map_of_mem hvom
  have hnone : findVI (mVis inits inputs outputs vis outs) n = none := by
    rw [findVI_none_iff]
    intro hm
    obtain ⟨vi, hvi, hvin⟩ := List.mem_map.1 hm
    have := (hw'.visNotIO vi hvi).2
    apply this
    rw [map_mergeOutVI_names, hvin]
    exact hnout
  refine ⟨hnone, ?_⟩
  -- the merged output entry is well formed, hence the original metadata keys are distinct
  have hwfo : wfVI (mergeOutVI (mDeclared inits outs) (inputs.map (·.name)) vis vo) = true :=
    List.all_eq_true.1 hw'.wfOut _ (List.mem_map_of_mem hvom)
  have hwfvo := wfVI_of_merge _ _ _ _ hwfo
  have happ : mergeApplies (mDeclared inits outs) (inputs.map (·.name)) vo = true := by
    simp only [wfVI, Bool.and_eq_true] at hwfvo
    simp only [mergeApplies, hvon, Bool.and_eq_true, List.contains_eq_mem, decide_eq_true_eq,
      Bool.not_eq_true', decide_eq_false_iff_not]
    exact ⟨⟨hd, hi⟩, hwfvo.2⟩
  cases hf : findVI vis n with
  | none =>
    left
    refine ⟨rfl, ?_⟩
    simp only [mergeOutVI, happ, if_true, hvon, hf]
  | some vi =>
    right
    obtain ⟨hvim, hvin⟩ := findVI_mem hf
    have hwfvi : wfVI vi = true := by
      cases hc : wfVI vi with
      | true => rfl
      | false =>
        exfalso
        -- a malformed entry stays, and then names an output
        have hstay : vi ∈ mVis inits inputs outputs vis outs := by
          unfold mVis mergeVIs
          rw [List.mem_filter]
          refine ⟨hvim, ?_⟩
          simp only [hc, Bool.and_false, Bool.not_false]
        exact (hw'.visNotIO vi hstay).2 (by rw [map_mergeOutVI_names, hvin]; exact hnout)
    refine ⟨vi, rfl, hwfvi, ?_⟩
    simp only [mergeOutVI, happ, if_true, hvon, hf, hwfvi]

theorem outUpd_mOutputs (v : IRValue) :
    outUpd (mOutputs inits inputs outputs vis outs) v =
      match outputs.find? (fun vi => vi.name = v.name) with
      | some vo => applyInfoT v (mergeOutVI (mDeclared inits outs) (inputs.map (·.name)) vis vo)
      | none => v := by
  unfold outUpd mOutputs
  rw [find?_map_vi_name _ (mergeOutVI_name _ _ _) v.name outputs]
  cases outputs.find? (fun vi => vi.name = v.name) <;> rfl

theorem outUpd_eq (v : IRValue) :
    outUpd outputs v = match outputs.find? (fun vi => vi.name = v.name) with
      | some vo => applyInfoT v vo
      | none => v := rfl

/-- entries that agree in type / doc string and whose metadata leaves the same dict on top of the
value's: applying them one after the other is applying the first -/
theorem foldl_applyInfoT_same (w : IRValue) (g1 : ValueInfoP) : ∀ rest : List ValueInfoP,
    (∀ g ∈ rest, g.type = g1.type ∧ g.doc = g1.doc ∧
      dictUpdate w.mprops (dictOfEntries g.metadata) = dictUpdate w.mprops (dictOfEntries g1.metadata)) →
    rest.foldl applyInfoT (applyInfoT w g1) = applyInfoT w g1
  | [], _ => rfl
  | g :: rest, h => by
    obtain ⟨h1, h2, h3⟩ := h g (by simp)
    have hstep : applyInfoT (applyInfoT w g1) g = applyInfoT w g1 := by
      simp only [applyInfoT, h1, h2]
      rw [← h3, dictUpdate_idem _ _ (nodup_dkeys_dictOfEntries _)]
    rw [List.foldl_cons, hstep]
    exact foldl_applyInfoT_same w g1 rest (fun g' hg' => h g' (List.mem_cons_of_mem _ hg'))

theorem filter_map_names (M : ValueInfoP → ValueInfoP) (hM : ∀ vo, (M vo).name = vo.name) (n : String)
    (l : List ValueInfoP) :
    (l.map M).filter (fun vi => vi.name = n) = (l.filter (fun vi => vi.name = n)).map M := by
  induction l with
  | nil => rfl
  | cons x xs ih =>
    simp only [List.map_cons, List.filter_cons, hM]
    split <;> simp [ih]

/-- the value of a declared, non-input name after the output phase is the same in both graphs (the
entries of the unmerged graph may repeat a name, E4, as long as the merged ones are identical) -/
theorem final_value_eq
    (hw' : GraphWF inits inputs (mOutputs inits inputs outputs vis outs) (mVis inits inputs outputs vis outs)
      quant outs)
    (X : List ValueInfoP → IRValue) {n : String} (hXn : ∀ V, (X V).name = n)
    (hd : n ∈ mDeclared inits outs) (hi : n ∉ inputs.map (·.name))
    -- `X` reads `value_info` only through the entry of `n`
    (hXc : ∀ V V', findVI V n = findVI V' n → X V = X V')
    -- with an entry: name / quant / const as without, metadata of the entry
    (hXs : ∀ V V' vi, findVI V n = some vi → wfVI vi = true → findVI V' n = none →
      (X V').name = (X V).name ∧ (X V').quant = (X V).quant ∧ (X V').const = (X V).const ∧
      (X V).mprops = dictOfEntries vi.metadata ∧ (X V').mprops = []) :
    outUpdAll outputs (X vis) =
      outUpd (mOutputs inits inputs outputs vis outs) (X (mVis inits inputs outputs vis outs)) := by
  rw [outUpd_mOutputs]
  unfold outUpdAll
  rw [hXn, hXn]
  cases hf : outputs.find? (fun vi => vi.name = n) with
  | none =>
    have hnout : n ∉ outputs.map (·.name) := by
      intro hm
      obtain ⟨vo, hvo, hvon⟩ := List.mem_map.1 hm
      rw [List.find?_eq_none] at hf
      exact hf vo hvo (by simpa using hvon)
    have : outputs.filter (fun vi => vi.name = n) = [] := by
      rw [List.filter_eq_nil_iff]
      intro a ha
      exact List.find?_eq_none.1 hf a ha
    rw [this]
    exact hXc _ _ (findVI_mVis_of_not_output hnout).symm
  | some vo =>
    have hvon : vo.name = n := by simpa using List.find?_some hf
    have hvom : vo ∈ outputs := List.mem_of_find?_eq_some hf
    -- the group of entries named `n` starts with `vo`
    obtain ⟨rest, hgroup, hrest⟩ : ∃ rest, outputs.filter (fun vi => vi.name = n) = vo :: rest ∧
        ∀ g ∈ rest, g ∈ outputs ∧ g.name = n := by
      clear hw' hvom
      induction outputs with
      | nil => cases hf
      | cons x xs ih =>
        rw [List.find?_cons] at hf
        by_cases hx : x.name = n
        · simp only [hx, decide_true, Option.some.injEq] at hf
          subst hf
          refine ⟨xs.filter (fun vi => vi.name = n), by simp [List.filter_cons, hx], ?_⟩
          intro g hg
          obtain ⟨g1, g2⟩ := List.mem_filter.1 hg
          exact ⟨List.mem_cons_of_mem _ g1, by simpa using g2⟩
        · simp only [hx, decide_false] at hf
          obtain ⟨rest, h1, h2⟩ := ih hf
          refine ⟨rest, by simp [List.filter_cons, hx, h1], fun g hg => ?_⟩
          exact ⟨List.mem_cons_of_mem _ (h2 g hg).1, (h2 g hg).2⟩
    rw [hgroup, List.foldl_cons]
    -- the merged entries of one name are identical
    have hsame : ∀ g ∈ rest, mergeOutVI (mDeclared inits outs) (inputs.map (·.name)) vis g
        = mergeOutVI (mDeclared inits outs) (inputs.map (·.name)) vis vo := by
      intro g hg
      apply hw'.consOut _ (List.mem_map_of_mem (hrest g hg).1) _ (List.mem_map_of_mem hvom)
      rw [mergeOutVI_name, mergeOutVI_name, (hrest g hg).2, hvon]
    have htd : ∀ g ∈ rest, g.type = vo.type ∧ g.doc = vo.doc := by
      intro g hg
      have e := hsame g hg
      have a := mergeOutVI_type (mDeclared inits outs) (inputs.map (·.name)) vis g
      have b := mergeOutVI_type (mDeclared inits outs) (inputs.map (·.name)) vis vo
      exact ⟨by rw [← a.1, e, b.1], by rw [← a.2, e, b.2]⟩
    obtain ⟨hnone, hcase⟩ := merge_at_output hw' hd hi hvom hvon
    rcases hcase with ⟨hvn, hM⟩ | ⟨vi, hvi, hwfvi, hM⟩
    · -- no `value_info` entry: nothing is merged, the entries themselves are identical
      have hid : ∀ g ∈ rest, g = vo := by
        intro g hg
        obtain ⟨_, hcase'⟩ := merge_at_output hw' hd hi (hrest g hg).1 (hrest g hg).2
        rcases hcase' with ⟨_, hM'⟩ | ⟨vi, hvi, _, _⟩
        · rw [← hM', hsame g hg, hM]
        · rw [hvn] at hvi; cases hvi
      rw [foldl_applyInfoT_same (X vis) vo rest (fun g hg => by rw [hid g hg]; exact ⟨rfl, rfl, rfl⟩)]
      simp only [hM]
      rw [hXc vis (mVis inits inputs outputs vis outs) (by rw [hvn, hnone])]
    · obtain ⟨e1, e2, e3, e4, e5⟩ := hXs vis (mVis inits inputs outputs vis outs) vi hvi hwfvi hnone
      have hnd : ∀ g : ValueInfoP, (dkeys (dictUpdate (dictOfEntries vi.metadata) (dictOfEntries g.metadata))).Nodup :=
        fun g => nodup_dkeys_dictUpdate (nodup_dkeys_dictOfEntries _) _
      have hmd : ∀ g ∈ rest, dictUpdate (X vis).mprops (dictOfEntries g.metadata)
          = dictUpdate (X vis).mprops (dictOfEntries vo.metadata) := by
        intro g hg
        obtain ⟨_, hcase'⟩ := merge_at_output hw' hd hi (hrest g hg).1 (hrest g hg).2
        rcases hcase' with ⟨hvn', _⟩ | ⟨vi', hvi', _, hM'⟩
        · rw [hvi] at hvn'; cases hvn'
        · rw [hvi] at hvi'
          cases hvi'
          have e := hsame g hg
          rw [hM, hM'] at e
          have e' := congrArg (fun x : ValueInfoP => dictOfEntries x.metadata) e
          simp only [dictOfEntries_entriesOfDict _ (hnd _)] at e'
          rw [e4]; exact e'
      rw [foldl_applyInfoT_same (X vis) vo rest (fun g hg => ⟨(htd g hg).1, (htd g hg).2, hmd g hg⟩)]
      simp only [hM]
      exact applyInfoT_merge _ _ vi vo e1 e2 e3 e4 e5

theorem mprops_of_entry (vi : ValueInfoP) (h : wfVI vi = true) :
    dictUpdate [] (dictOfEntries vi.metadata) = dictOfEntries vi.metadata :=
  dictUpdate_nil _ (nodup_dkeys_dictOfEntries _)

theorem tblFinal_merge
    (hw' : GraphWF inits inputs (mOutputs inits inputs outputs vis outs) (mVis inits inputs outputs vis outs)
      quant outs) :
    tblFinalAll inits inputs outputs vis quant outs =
      tblFinal inits inputs (mOutputs inits inputs outputs vis outs) (mVis inits inputs outputs vis outs)
        quant outs := by
  obtain ⟨_, _, hdisC⟩ := nodupNames_parts hw'
  simp only [tblFinalAll, tblFinal, tblPre, List.map_append, List.map_map]
  congr 1
  · congr 1
    · -- inputs: their output entries (pass-through) are not merged, hence identical
      apply List.map_congr_left
      intro vi hvi
      simp only [Function.comp]
      have hM : ∀ vo ∈ outputs, vo.name = vi.name →
          mergeOutVI (mDeclared inits outs) (inputs.map (·.name)) vis vo = vo := by
        intro vo _ hvon
        have hin : (inputs.map (·.name)).contains vo.name = true := by
          rw [hvon]; simpa using List.mem_map_of_mem (f := fun v : ValueInfoP => v.name) hvi
        have hma : mergeApplies (mDeclared inits outs) (inputs.map (·.name)) vo = false := by
          simp only [mergeApplies, hin, Bool.not_true, Bool.and_false, Bool.false_and]
        simp only [mergeOutVI, hma, Bool.false_eq_true, if_false]
      rw [outUpd_mOutputs]
      unfold outUpdAll
      have hnm : (constFrom inits (inputValT quant vi)).name = vi.name := by simp
      rw [hnm]
      cases hf : outputs.find? (fun v => v.name = vi.name) with
      | none =>
        have : outputs.filter (fun v => v.name = vi.name) = [] := by
          rw [List.filter_eq_nil_iff]
          intro a ha
          exact List.find?_eq_none.1 hf a ha
        rw [this]; rfl
      | some vo =>
        have hvon : vo.name = vi.name := by simpa using List.find?_some hf
        have hvom : vo ∈ outputs := List.mem_of_find?_eq_some hf
        simp only [hM vo hvom hvon]
        have hall : ∀ x ∈ outputs.filter (fun v => v.name = vi.name), x = vo := by
          intro x hx
          obtain ⟨hx1, hx2⟩ := List.mem_filter.1 hx
          have hxn : x.name = vi.name := by simpa using hx2
          have := hw'.consOut _ (List.mem_map_of_mem hx1) _ (List.mem_map_of_mem hvom)
            (by rw [mergeOutVI_name, mergeOutVI_name, hxn, hvon])
          rwa [hM x hx1 hxn, hM vo hvom hvon] at this
        have hmem : vo ∈ outputs.filter (fun v => v.name = vi.name) :=
          List.mem_filter.2 ⟨hvom, by simpa using hvon⟩
        have hrep := List.eq_replicate_iff.2 ⟨rfl, hall⟩
        have hlen : (outputs.filter (fun v => v.name = vi.name)).length ≠ 0 := by
          intro e
          rw [List.length_eq_zero_iff] at e
          rw [e] at hmem; cases hmem
        obtain ⟨k, hk⟩ : ∃ k, (outputs.filter (fun v => v.name = vi.name)).length = k + 1 :=
          ⟨_, (Nat.succ_pred_eq_of_ne_zero hlen).symm⟩
        rw [hrep, hk, foldl_applyInfoT_replicate]
    · -- initializers that are not inputs
      apply List.map_congr_left
      intro p hp
      simp only [Function.comp]
      have hpm := List.mem_filter.1 hp
      have hi : p.name ∉ inputs.map (·.name) := by simpa using hpm.2
      have hd : p.name ∈ mDeclared inits outs :=
        List.mem_append_left _ (List.mem_map_of_mem hpm.1)
      refine final_value_eq hw' (fun V => initValT V quant p) (fun _ => rfl) hd hi ?_ ?_
      · intro V V' h; simp only [initValT, h]
      · intro V V' vi hV hwf hV'
        refine ⟨rfl, ?_, ?_, ?_, ?_⟩
        · simp only [initValT, hV, hV']
          apply applyQuant_quant_congr <;> rfl
        · simp only [initValT, hV, hV', applyQuant_const]; rfl
        · simp only [initValT, hV, applyQuant_mprops, fillFrom, applyInfoT, initV0, IRValue.blank,
            mprops_of_entry vi hwf]
        · simp only [initValT, hV', applyQuant_mprops, initV0, IRValue.blank]
  · -- node outputs
    apply List.map_congr_left
    intro n hn
    simp only [Function.comp]
    have hi : n ∉ inputs.map (·.name) := (hdisC n hn).1
    have hd : n ∈ mDeclared inits outs := List.mem_append_right _ hn
    refine final_value_eq hw' (fun V => newValueT V quant n) (fun _ => newValueT_name _ _ _) hd hi ?_ ?_
    · intro V V' h; simp only [newValueT, h]
    · intro V V' vi hV hwf hV'
      refine ⟨by simp, ?_, ?_, ?_, ?_⟩
      · simp only [newValueT, hV, hV']
        apply applyQuant_quant_congr <;> rfl
      · simp only [newValueT, hV, hV', applyQuant_const]; rfl
      · simp only [newValueT, hV, applyQuant_mprops, applyInfoT, IRValue.blank, mprops_of_entry vi hwf]
      · simp only [newValueT, hV', applyQuant_mprops, IRValue.blank]

end tables

theorem map_some_inj {α : Type} : ∀ {a b : List α}, a.map some = b.map some → a = b
  | [], [], _ => rfl
  | [], _ :: _, h => by cases h
  | _ :: _, [], h => by cases h
  | x :: xs, y :: ys, h => by
    simp only [List.map_cons, List.cons.injEq, Option.some.injEq] at h
    rw [h.1, map_some_inj h.2]

theorem gOutT_merge (names : List String) (D I : List String) (vis : List ValueInfoP) :
    ∀ outputs : List ValueInfoP,
    (∀ vo ∈ outputs, mergeOutVI D I vis vo ≠ vo → (lookupLast names vo.name).isSome) →
    (outputs.map (mergeOutVI D I vis)).map (gOutT names) = outputs.map (gOutT names)
  | [], _ => rfl
  | vo :: vos, h => by
    simp only [List.map_cons]
    rw [gOutT_merge names D I vis vos (fun v hv => h v (List.mem_cons_of_mem _ hv))]
    congr 1
    by_cases hm : mergeOutVI D I vis vo = vo
    · rw [hm]
    · have hs := h vo List.mem_cons_self hm
      simp only [gOutT, mergeOutVI_name]
      cases hl : lookupLast names vo.name with
      | none => simp [hl] at hs
      | some i => rfl

end IrVerif.Serde

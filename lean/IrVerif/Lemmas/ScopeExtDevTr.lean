/-
The TRACE of the device configurations along the round trip of the extended model (`Lemmas/ScopeExtRT.lean`):
node by node, the reloaded node carries the configurations of the proto node with their sharding names resolved
in the SOURCE-side scope tables (the tables of `replG`) renamed by the association.

* `DevTrG V x' hi A outer g p g'` (source `g`, proto `p`, reloaded `g'`), mutual over graph / node list / node /
  subgraph list along the tables of `replG`;
* monotonicity: larger node counter, extended association, `devs` kept below the counter;
* the node counter of the helper phases of the deserializer.
-/
import IrVerif.Lemmas.ScopeExtRTDefs
namespace IrVerif.Scope

mutual
/-- the device configurations of the reloaded graph: those of the proto, resolved in the renamed source tables -/
def DevTrG (V : Nat → ValueS) (x' : Ext) (hi : Nat) (A : Assoc) (outer : List Table) :
    GraphT → GraphE → GraphT → Prop
  | .mk _ ins inits nodes outs, .mk _ _ _ nps _ _, .mk _ _ _ nodes' _ =>
    DevTrNs V x' hi A outer (replDecl V (replInits V outs (tblIns V ins) inits).tbl (nodes.flatMap (liveOuts V))).tbl
      nodes nps nodes'
def DevTrNs (V : Nat → ValueS) (x' : Ext) (hi : Nat) (A : Assoc) (outer : List Table) :
    Table → List NodeT → List NodeE → List NodeT → Prop
  | _, [], [], [] => True
  | T, n :: ns, np :: nps, n' :: ns' =>
    DevTrN V x' hi A outer T n np n' ∧ DevTrNs V x' hi A outer (replN V outer T n).tbl ns nps ns'
  | _, _, _, _ => False
def DevTrN (V : Nat → ValueS) (x' : Ext) (hi : Nat) (A : Assoc) (outer : List Table) :
    Table → NodeT → NodeE → NodeT → Prop
  | T, .mk _ _ ins _ subs, .mk _ _ ds gps, .mk i' _ _ _ subs' =>
    (i' < hi ∧ TblIn A (replRes V outer T ins).tbl ∧ (∀ T' ∈ outer, TblIn A T') ∧
      x'.devs i' = ds.map (deserDevR (mapT A (replRes V outer T ins).tbl :: outer.map (mapT A)))) ∧
    DevTrGs V x' hi A ((replRes V outer T ins).tbl :: outer) subs gps subs'
def DevTrGs (V : Nat → ValueS) (x' : Ext) (hi : Nat) (A : Assoc) (scopes : List Table) :
    List GraphT → List GraphE → List GraphT → Prop
  | [], [], [] => True
  | g :: gs, p :: ps, g' :: gs' => DevTrG V x' hi A scopes g p g' ∧ DevTrGs V x' hi A scopes gs ps gs'
  | _, _, _ => False
end

/-! ### monotonicity -/

mutual
theorem DevTrG.mono {V : Nat → ValueS} {x x' : Ext} {hi hi' : Nat} {A : Assoc} (B : Assoc) (hhi : hi ≤ hi')
    (hx : ∀ k, k < hi → x'.devs k = x.devs k) :
    ∀ (outer : List Table) (g : GraphT) (p : GraphE) (g' : GraphT),
      DevTrG V x hi A outer g p g' → DevTrG V x' hi' (A ++ B) outer g p g'
  | outer, .mk _ ins inits nodes outs, .mk _ _ _ nps _ _, .mk _ _ _ nodes' _, h => by
    simp only [DevTrG] at h ⊢
    exact DevTrNs.mono B hhi hx outer _ nodes nps nodes' h
theorem DevTrNs.mono {V : Nat → ValueS} {x x' : Ext} {hi hi' : Nat} {A : Assoc} (B : Assoc) (hhi : hi ≤ hi')
    (hx : ∀ k, k < hi → x'.devs k = x.devs k) :
    ∀ (outer : List Table) (T : Table) (ns : List NodeT) (nps : List NodeE) (ns' : List NodeT),
      DevTrNs V x hi A outer T ns nps ns' → DevTrNs V x' hi' (A ++ B) outer T ns nps ns'
  | _, _, [], [], [], _ => by simp only [DevTrNs]
  | outer, T, n :: ns, np :: nps, n' :: ns', h => by
    simp only [DevTrNs] at h ⊢
    exact ⟨DevTrN.mono B hhi hx outer T n np n' h.1, DevTrNs.mono B hhi hx outer _ ns nps ns' h.2⟩
  | _, _, [], [], _ :: _, h => by simp only [DevTrNs] at h
  | _, _, [], _ :: _, _, h => by simp only [DevTrNs] at h
  | _, _, _ :: _, [], _, h => by simp only [DevTrNs] at h
  | _, _, _ :: _, _ :: _, [], h => by simp only [DevTrNs] at h
theorem DevTrN.mono {V : Nat → ValueS} {x x' : Ext} {hi hi' : Nat} {A : Assoc} (B : Assoc) (hhi : hi ≤ hi')
    (hx : ∀ k, k < hi → x'.devs k = x.devs k) :
    ∀ (outer : List Table) (T : Table) (n : NodeT) (np : NodeE) (n' : NodeT),
      DevTrN V x hi A outer T n np n' → DevTrN V x' hi' (A ++ B) outer T n np n'
  | outer, T, .mk _ _ ins _ subs, .mk _ _ ds gps, .mk i' _ _ _ subs', h => by
    simp only [DevTrN] at h ⊢
    obtain ⟨⟨h1, h2, h3, h4⟩, h5⟩ := h
    refine ⟨⟨Nat.lt_of_lt_of_le h1 hhi, h2.append B, fun T' hT' => (h3 T' hT').append B, ?_⟩,
      DevTrGs.mono B hhi hx _ subs gps subs' h5⟩
    rw [hx i' h1, h4, mapT_extend B h2, maps_extend B h3]
theorem DevTrGs.mono {V : Nat → ValueS} {x x' : Ext} {hi hi' : Nat} {A : Assoc} (B : Assoc) (hhi : hi ≤ hi')
    (hx : ∀ k, k < hi → x'.devs k = x.devs k) :
    ∀ (scopes : List Table) (gs : List GraphT) (ps : List GraphE) (gs' : List GraphT),
      DevTrGs V x hi A scopes gs ps gs' → DevTrGs V x' hi' (A ++ B) scopes gs ps gs'
  | _, [], [], [], _ => by simp only [DevTrGs]
  | scopes, g :: gs, p :: ps, g' :: gs', h => by
    simp only [DevTrGs] at h ⊢
    exact ⟨DevTrG.mono B hhi hx scopes g p g' h.1, DevTrGs.mono B hhi hx scopes gs ps gs' h.2⟩
  | _, [], [], _ :: _, h => by simp only [DevTrGs] at h
  | _, [], _ :: _, _, h => by simp only [DevTrGs] at h
  | _, _ :: _, [], _, h => by simp only [DevTrGs] at h
  | _, _ :: _, _ :: _, [], h => by simp only [DevTrGs] at h
end

/-- the same association: larger counter, `devs` kept below the counter -/
theorem DevTrGs.frame {V : Nat → ValueS} {x x' : Ext} {hi hi' : Nat} {A : Assoc} (hhi : hi ≤ hi')
    (hx : ∀ k, k < hi → x'.devs k = x.devs k) (scopes : List Table) (gs : List GraphT) (ps : List GraphE)
    (gs' : List GraphT) (h : DevTrGs V x hi A scopes gs ps gs') : DevTrGs V x' hi' A scopes gs ps gs' := by
  have := DevTrGs.mono [] hhi hx scopes gs ps gs' h
  rwa [List.append_nil] at this

/-- `mkGraph` only stamps the graph id on the nodes -/
theorem DevTrNs_setGraph (V : Nat → ValueS) (x' : Ext) (hi : Nat) (A : Assoc) (outer : List Table) (gid : Nat) :
    ∀ (T : Table) (ns : List NodeT) (nps : List NodeE) (nts : List NodeT), DevTrNs V x' hi A outer T ns nps nts →
      DevTrNs V x' hi A outer T ns nps (nts.map (NodeT.setGraph gid))
  | _, [], [], [], _ => by simp only [List.map_nil, DevTrNs]
  | T, n :: ns, np :: nps, nt :: nts, h => by
    simp only [DevTrNs, List.map_cons] at h ⊢
    refine ⟨?_, DevTrNs_setGraph V x' hi A outer gid _ ns nps nts h.2⟩
    obtain ⟨i, g, a, b, c⟩ := nt
    obtain ⟨i0, g0, a0, b0, c0⟩ := n
    obtain ⟨i', o', d', s'⟩ := np
    simp only [DevTrN, NodeT.setGraph] at h ⊢
    exact h.1
  | _, [], [], _ :: _, h => by simp only [DevTrNs] at h
  | _, [], _ :: _, _, h => by simp only [DevTrNs] at h
  | _, _ :: _, [], _, h => by simp only [DevTrNs] at h
  | _, _ :: _, _ :: _, [], h => by simp only [DevTrNs] at h

/-! ### the node counter of the helper phases -/

theorem newNamed_nn (st : Store) (vi : List (Name × Info)) (x : Name) : (newNamed st vi x).nn = st.nn :=
  (newNamed_quiet st vi x).1.nn_eq

theorem resolveInputs_nn (outer : List Table) (vi : List (Name × Info)) :
    ∀ (xs : List Name) (st : Store) (top : Table), (resolveInputs st top outer vi xs).1.nn = st.nn
  | [], _, _ => rfl
  | n :: ns, st, top => by
    simp only [resolveInputs]
    by_cases hn : n = ""
    · simp only [hn, if_true]
      exact resolveInputs_nn outer vi ns st top
    · simp only [hn, if_false]
      cases hl : resolve n (top :: outer) with
      | some v =>
        simp only
        exact resolveInputs_nn outer vi ns st top
      | none =>
        simp only
        rw [resolveInputs_nn outer vi ns, newNamed_nn]

theorem deserOutputs_nn (tbl : Table) : ∀ (os : List VInfoP) (st : Store), (deserOutputs st tbl os).1.nn = st.nn
  | [], _ => rfl
  | o :: os, st => by
    simp only [deserOutputs]
    cases hl : tbl.lookup o.name with
    | some v =>
      simp only
      rw [deserOutputs_nn tbl os]
      rfl
    | none =>
      simp only
      rw [deserOutputs_nn tbl os]
      rfl

/-! ### the helper phases leave the device configurations alone (equation form) -/

theorem devs_of_inputsE {st : Store} {x : Ext} {qt : List (Name × SS)} {is : List VInfoE} {r : Store × Ext × List Nat}
    (h : deserInputsE st x qt is = r) : r.2.1.devs = x.devs := h ▸ deserInputsE_devs qt is st x

theorem devs_of_initsE {st : Store} {x : Ext} {tbl : Table} {vt : List (Name × Info × SS)} {qt : List (Name × SS)}
    {ts : List TensorP} {r : Store × Ext × Table × List Nat}
    (h : deserInitsE st x tbl vt qt ts = r) : r.2.1.devs = x.devs := h ▸ deserInitsE_devs vt qt ts st x tbl

theorem devs_of_resolveE {st : Store} {x : Ext} {top : Table} {outer : List Table} {vt : List (Name × Info × SS)}
    {qt : List (Name × SS)} {ns : List Name} {r : Store × Ext × Table × List (Option Nat)}
    (h : resolveInputsE st x top outer vt qt ns = r) : r.2.1.devs = x.devs :=
  h ▸ resolveInputsE_devs outer vt qt ns st x top

theorem devs_of_outputsE {st : Store} {x : Ext} {tbl : Table} {os : List VInfoE} {r : Store × Ext × List Nat}
    (h : deserOutputsE st x tbl os = r) : r.2.1.devs = x.devs := h ▸ deserOutputsE_devs tbl os st x

theorem nn_of_resolve {st : Store} {top : Table} {outer : List Table} {vi : List (Name × Info)} {xs : List Name}
    {r : Store × Table × List (Option Nat)} (h : resolveInputs st top outer vi xs = r) : r.1.nn = st.nn :=
  h ▸ resolveInputs_nn outer vi xs st top

end IrVerif.Scope

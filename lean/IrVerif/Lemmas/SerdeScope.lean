import IrVerif.Lemmas.SerdeLeaf
/-! Helper lemmas for C02, stage B: name tables with distinct names, total versions of the
deserialization steps on well-formed input, node inputs / outputs. -/
namespace IrVerif.Serde
open IrVerif.Proto

/-! ### tables with distinct names -/

theorem lookupLast_of_nodup {names : List String} (h : names.Nodup) {n : String} {i : Nat}
    (hi : names[i]? = some n) : lookupLast names n = some i := by
  induction names generalizing i with
  | nil => simp at hi
  | cons x xs ih =>
    rw [List.nodup_cons] at h
    cases i with
    | zero =>
      simp only [List.getElem?_cons_zero, Option.some.injEq] at hi
      subst hi
      simp [lookupLast, lookupLast_none h.1]
    | succ j =>
      simp only [List.getElem?_cons_succ] at hi
      simp [lookupLast, ih h.2 hi]

theorem lookupLast_mem {names : List String} {n : String} {i : Nat}
    (h : lookupLast names n = some i) : n ∈ names :=
  List.mem_of_getElem? (lookupLast_getElem h)

theorem lookupLast_lt {names : List String} {n : String} {i : Nat}
    (h : lookupLast names n = some i) : i < names.length := by
  have := lookupLast_getElem h
  exact (List.getElem?_eq_some_iff.1 this).1

/-- in a table with distinct names the entry found for `n` is THE value named `n` -/
theorem getD_of_lookup {tbl : List IRValue} (hnd : (tableNames tbl).Nodup) {n : String} {i : Nat}
    (hi : lookupLast (tableNames tbl) n = some i) {v : IRValue} (hv : v ∈ tbl) (hn : v.name = n) :
    tbl.getD i (IRValue.blank "") = v := by
  obtain ⟨j, hj, hjv⟩ := List.getElem_of_mem hv
  have h1 : (tableNames tbl)[j]? = some n := by
    simp [tableNames, List.getElem?_map, List.getElem?_eq_getElem hj, hjv, hn]
  have h2 := lookupLast_of_nodup hnd h1
  rw [hi] at h2
  cases h2
  simp [List.getD, List.getElem?_eq_getElem hj, hjv]

theorem lookupLast_exists {names : List String} {n : String} (h : n ∈ names) :
    ∃ i, lookupLast names n = some i := by
  have := lookupLast_isSome h
  cases hl : lookupLast names n with
  | none => rw [hl] at this; cases this
  | some i => exact ⟨i, rfl⟩

/-- name-keyed update -/
def updName (tbl : List IRValue) (n : String) (f : IRValue → IRValue) : List IRValue :=
  tbl.map fun v => if v.name = n then f v else v

theorem listSet_eq_map {α : Type} (l : List α) (i : Nat) (a : α) :
    listSet l i a = l.set i a := by
  induction l generalizing i with
  | nil => rfl
  | cons x xs ih => cases i <;> simp [listSet, ih]

theorem listSet_eq_updName {tbl : List IRValue} (hnd : (tableNames tbl).Nodup) {n : String} {i : Nat}
    (hi : lookupLast (tableNames tbl) n = some i) (f : IRValue → IRValue) :
    listSet tbl i (f (tbl.getD i (IRValue.blank ""))) = updName tbl n f := by
  rw [listSet_eq_map]
  apply List.ext_getElem?
  intro j
  simp only [updName, List.getElem?_set, List.getElem?_map]
  have hlt : i < tbl.length := by simpa [tableNames] using lookupLast_lt hi
  have hin : (tableNames tbl)[i]? = some n := lookupLast_getElem hi
  by_cases hij : i = j
  · subst hij
    have hname : tbl[i].name = n := by
      simpa [tableNames, List.getElem?_map, List.getElem?_eq_getElem hlt] using hin
    simp [hlt, List.getD, List.getElem?_eq_getElem hlt, hname]
  · simp only [hij, if_false]
    cases hj : tbl[j]? with
    | none => rfl
    | some u =>
      simp only [Option.map_some, Option.some.injEq]
      have hjn : (tableNames tbl)[j]? = some u.name := by simp [tableNames, List.getElem?_map, hj]
      have : ¬ u.name = n := by
        intro e
        rw [e] at hjn
        have := lookupLast_of_nodup hnd hjn
        rw [hi] at this
        cases this
        exact hij rfl
      simp [this]

theorem tableNames_updName (tbl : List IRValue) (n : String) (f : IRValue → IRValue)
    (hf : ∀ v, (f v).name = v.name) : tableNames (updName tbl n f) = tableNames tbl := by
  simp only [tableNames, updName, List.map_map]
  apply List.map_congr_left
  intro v _
  simp only [Function.comp]
  split <;> simp [hf]

theorem tableNames_append (a b : List IRValue) : tableNames (a ++ b) = tableNames a ++ tableNames b := by
  simp [tableNames]

/-! ### total versions of the value constructors (they agree with the model on WF input) -/

def tyOf (t : TypeP) : Option IRType :=
  match desTypeForType t with
  | .ok x => x
  | .error _ => none

def shOf (t : TypeP) : Option IRShape :=
  match desTypeForShape t with
  | .ok x => x
  | .error _ => none

/-- `deserialize_value_info_proto` without the error paths -/
def applyInfoT (v : IRValue) (vi : ValueInfoP) : IRValue :=
  { v with shape := shOf vi.type, type := tyOf vi.type,
           mprops := dictUpdate v.mprops (dictOfEntries vi.metadata), doc := vi.doc }

theorem applyInfo_eq (v : IRValue) (vi : ValueInfoP) (h : wfType vi.type = true) :
    applyInfo v vi = .ok (applyInfoT v vi) ∧ serTypeAndShape (tyOf vi.type) (shOf vi.type) = vi.type
      ∧ (tyOf vi.type).isNone = viIsUnset vi.type := by
  obtain ⟨ty, sh, h1, h2, h3⟩ := type_roundtrip vi.type h
  obtain ⟨ty', sh', g3, g4, g5⟩ := applyInfo_ok v vi h
  have e1 : tyOf vi.type = ty := by simp [tyOf, h1]
  have e2 : shOf vi.type = sh := by simp [shOf, h2]
  refine ⟨by simp [applyInfo, applyInfoT, h1, h2, e1, e2, bind, Except.bind], by rw [e1, e2]; exact h3, ?_⟩
  have hty : ty' = ty := by
    have : applyInfo v vi = .ok (applyInfoT v vi) := by
      simp [applyInfo, applyInfoT, h1, h2, e1, e2, bind, Except.bind]
    rw [this] at g5
    have := congrArg (fun r => match r with | Except.ok x => x.type | _ => none) g5
    simp only [applyInfoT, e1] at this
    exact this.symm
  rw [e1, ← hty]; exact g4.1

@[simp] theorem applyInfoT_name (v : IRValue) (vi : ValueInfoP) : (applyInfoT v vi).name = v.name := rfl
@[simp] theorem applyInfoT_quant (v : IRValue) (vi : ValueInfoP) : (applyInfoT v vi).quant = v.quant := rfl
@[simp] theorem applyInfoT_const (v : IRValue) (vi : ValueInfoP) : (applyInfoT v vi).const = v.const := rfl
@[simp] theorem applyQuant_name (q : List AnnotP) (v : IRValue) : (applyQuant q v).name = v.name := by
  unfold applyQuant; split <;> rfl

/-- `newValue` without the error paths -/
def newValueT (vis : List ValueInfoP) (q : List AnnotP) (n : String) : IRValue :=
  applyQuant q (match findVI vis n with
    | some vi => applyInfoT (IRValue.blank n) vi
    | none => IRValue.blank n)

@[simp] theorem newValueT_name (vis : List ValueInfoP) (q : List AnnotP) (n : String) :
    (newValueT vis q n).name = n := by
  unfold newValueT
  split <;> simp [IRValue.blank]

theorem findLast?_mem {α : Type} {p : α → Bool} {l : List α} {a : α} (h : findLast? p l = some a) :
    a ∈ l ∧ p a = true := by
  induction l with
  | nil => simp [findLast?] at h
  | cons x xs ih =>
    simp only [findLast?] at h
    split at h
    · rename_i y hy
      cases h
      exact ⟨List.mem_cons_of_mem _ (ih hy).1, (ih hy).2⟩
    · split at h
      · cases h; rename_i hx; exact ⟨by simp, hx⟩
      · cases h

theorem findVI_mem {vis : List ValueInfoP} {n : String} {vi : ValueInfoP} (h : findVI vis n = some vi) :
    vi ∈ vis ∧ vi.name = n := by
  have := findLast?_mem h
  exact ⟨this.1, by simpa using this.2⟩

theorem findLast?_none_of_forall {α : Type} {p : α → Bool} {l : List α} (h : ∀ a ∈ l, p a = false) :
    findLast? p l = none := by
  induction l with
  | nil => rfl
  | cons x xs ih =>
    simp only [findLast?, ih (fun a ha => h a (List.mem_cons_of_mem _ ha)), h x (by simp)]
    rfl

theorem findVI_none_iff {l : List ValueInfoP} {n : String} : findVI l n = none ↔ n ∉ l.map (·.name) := by
  constructor
  · intro h hm
    obtain ⟨v, hv, hn⟩ := List.mem_map.1 hm
    induction l with
    | nil => cases hv
    | cons x xs ih =>
      simp only [findVI, findLast?] at h
      cases hx : findLast? (fun v => v.name = n) xs with
      | some y => rw [hx] at h; cases h
      | none =>
        rw [hx] at h
        simp only at h
        rcases List.mem_cons.1 hv with rfl | hv
        · simp [hn] at h
        · exact ih hx (by rw [← hn]; exact List.mem_map_of_mem hv) hv
  · intro h
    apply findLast?_none_of_forall
    intro v hv
    simp only [decide_eq_false_iff_not]
    intro e
    exact h (by rw [← e]; exact List.mem_map_of_mem hv)

theorem findVI_of_mem {l : List ValueInfoP} (h : (l.map (·.name)).Nodup) {v : ValueInfoP} (hv : v ∈ l) :
    findVI l v.name = some v := by
  cases hf : findVI l v.name with
  | none => exact absurd (List.mem_map_of_mem hv) (findVI_none_iff.1 hf)
  | some w =>
    obtain ⟨hw, hn⟩ := findVI_mem hf
    congr 1
    clear hf
    induction l with
    | nil => cases hv
    | cons x xs ih =>
      simp only [List.map_cons, List.nodup_cons] at h
      rcases List.mem_cons.1 hv with e1 | hv' <;> rcases List.mem_cons.1 hw with e2 | hw'
      · rw [e1, e2]
      · exact absurd (by rw [← e1, ← hn]; exact List.mem_map_of_mem hw') h.1
      · exact absurd (by rw [← e2, hn]; exact List.mem_map_of_mem hv') h.1
      · exact ih h.2 hv' hw'

theorem newValue_eq (vis : List ValueInfoP) (q : List AnnotP) (n : String)
    (h : vis.all wfVI = true) : newValue vis q n = .ok (newValueT vis q n) := by
  unfold newValue newValueT
  cases hf : findVI vis n with
  | none => simp [bind, Except.bind]
  | some vi =>
    have hw : wfType vi.type = true := by
      have := List.all_eq_true.1 h vi (findVI_mem hf).1
      simp only [wfVI, Bool.and_eq_true] at this
      exact this.1
    simp [(applyInfo_eq (IRValue.blank n) vi hw).1, bind, Except.bind]

/-! ### node inputs and outputs on a well-formed node -/

theorem desNodeInputs_wf (outer : Scopes) (vis : List ValueInfoP) (q : List AnnotP)
    (tbl : List IRValue) (ins : List String)
    (h : ins.all (fun n => n.isEmpty || (resolve (tableNames tbl :: outer) n).isSome) = true) :
    desNodeInputs outer vis q ins tbl =
      .ok (ins.map (fun n => if n = "" then none else resolve (tableNames tbl :: outer) n), tbl) := by
  induction ins with
  | nil => rfl
  | cons n ns ih =>
    simp only [List.all_cons, Bool.and_eq_true] at h
    by_cases hn : n = ""
    · simp [desNodeInputs, hn, ih h.2, bind, Except.bind]
    · have hs : (resolve (tableNames tbl :: outer) n).isSome = true := by
        rcases Bool.or_eq_true_iff.1 h.1 with h1 | h1
        · simp [String.isEmpty_iff] at h1; exact absurd h1 hn
        · exact h1
      cases hr : resolve (tableNames tbl :: outer) n with
      | none => rw [hr] at hs; cases hs
      | some r => simp [desNodeInputs, hn, hr, ih h.2, bind, Except.bind]

theorem desNodeOutputs_wf (names : List String) (outs : List String)
    (h : outs.all (fun n => n.isEmpty || names.contains n) = true) :
    desNodeOutputs names outs = .ok (outs.map (fun n => if n = "" then none else lookupLast names n)) := by
  induction outs with
  | nil => rfl
  | cons n ns ih =>
    simp only [List.all_cons, Bool.and_eq_true] at h
    by_cases hn : n = ""
    · simp [desNodeOutputs, hn, ih h.2, bind, Except.bind]
    · have hm : n ∈ names := by
        rcases Bool.or_eq_true_iff.1 h.1 with h1 | h1
        · simp [String.isEmpty_iff] at h1; exact absurd h1 hn
        · simpa using h1
      obtain ⟨i, hi⟩ := lookupLast_exists hm
      simp [desNodeOutputs, hn, hi, ih h.2, bind, Except.bind]

/-- serializing the inputs of a deserialized node gives the input names back -/
theorem serInputs_roundtrip (scopes : Scopes) (ins : List String) :
    (ins.map (fun n => if n = "" then none else resolve scopes n)).map
      (fun o : Option Ref => match o with | none => "" | some r => refName scopes r)
    = ins.map (fun n => if n = "" then "" else match resolve scopes n with | some _ => n | none => "") := by
  simp only [List.map_map]
  apply List.map_congr_left
  intro n _
  simp only [Function.comp]
  by_cases hn : n = ""
  · simp [hn]
  · simp only [hn, if_false]
    cases hr : resolve scopes n with
    | none => rfl
    | some r => simp [resolve_refName hr]

theorem trimTrailingEmpty_cons_of_ne_nil {x : String} {xs r : List String}
    (h : trimTrailingEmpty xs = r) (hr : r ≠ []) : trimTrailingEmpty (x :: xs) = x :: r := by
  cases r with
  | nil => exact absurd rfl hr
  | cons y ys => simp only [trimTrailingEmpty, h]

theorem trimTrailingEmpty_idem (l : List String) :
    trimTrailingEmpty (trimTrailingEmpty l) = trimTrailingEmpty l := by
  induction l with
  | nil => rfl
  | cons x xs ih =>
    cases hr : trimTrailingEmpty xs with
    | nil =>
      by_cases hx : x = ""
      · simp [trimTrailingEmpty, hr, hx]
      · simp [trimTrailingEmpty, hr, hx]
    | cons y ys =>
      rw [hr] at ih
      rw [trimTrailingEmpty_cons_of_ne_nil hr (by simp)]
      exact trimTrailingEmpty_cons_of_ne_nil ih (by simp)

end IrVerif.Serde

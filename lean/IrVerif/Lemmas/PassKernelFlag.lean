/-
C14 (wave 5): flag honesty of the four wave-5 kernel programs at the level of C01's world: while the flag / count is
down the program has issued no call at all (so the world - links, ownership, names, keys, node sequences - is the
start world), or it has raised.
-/
import IrVerif.Model.PassKernel2
namespace IrVerif.PassKernel
open IrVerif.Kernel

/-- nothing has happened yet, or the pass has raised -/
def Quiet (w0 : World) (s : KSt) : Prop := (s.w = w0 ∧ s.trace = []) ∨ s.raised = true

theorem foldl_quiet {σ β : Type} (w0 : World) (pr : σ → KSt) (up : σ → Bool) (f : σ → β → σ)
    (hf : ∀ s b, (up s = false → Quiet w0 (pr s)) → (up (f s b) = false → Quiet w0 (pr (f s b)))) :
    ∀ (l : List β) (s : σ), (up s = false → Quiet w0 (pr s)) → (up (l.foldl f s) = false → Quiet w0 (pr (l.foldl f s)))
  | [], _, h => h
  | b :: l, s, h => foldl_quiet w0 pr up f hf l (f s b) (hf s b h)

theorem cseStepK_quiet (w0 : World) (exact : Bool) (akey : Nat → Option Nat) (g : Nat) (p : KSt × CseDict × Bool) (n : Nat)
    (h : p.2.2 = false → Quiet w0 p.1) : (cseStepK exact akey g p n).2.2 = false → Quiet w0 (cseStepK exact akey g p n).1 := by
  unfold cseStepK
  split
  · exact h
  · split
    · exact h
    · split
      · exact h
      · dsimp only
        split
        · intro hc; simp at hc
        · exact h

theorem cseModelK_quiet (exact : Bool) (akey : Nat → Option Nat) (w : World) (g : Nat)
    (h : (cseModelK exact akey w g).2 = false) : Quiet w (cseModelK exact akey w g).1 := by
  simp only [cseModelK] at h ⊢
  exact foldl_quiet w (fun p : KSt × CseDict × Bool => p.1) (fun p => p.2.2) _
    (fun p n hp => cseStepK_quiet w exact akey g p n hp) _ _ (fun _ => Or.inl ⟨rfl, rfl⟩) h

theorem lcNodeK_quiet (w0 : World) (liftAll : Bool) (big tnamed : Nat → Bool) (p : KSt × Nat) (n : Nat)
    (h : (p.2 != 0) = false → Quiet w0 p.1) :
    ((lcNodeK liftAll big tnamed p n).2 != 0) = false → Quiet w0 (lcNodeK liftAll big tnamed p n).1 := by
  unfold lcNodeK
  split
  · exact h
  · split
    · exact fun _ => Or.inr rfl
    · split
      · exact h
      · split
        · exact fun _ => Or.inr rfl
        · split
          · exact h
          · split
            · split
              · exact fun _ => Or.inr rfl
              · split
                · exact fun _ => Or.inr rfl
                · exact h
                · split
                  · exact h
                  · intro hc; simp at hc
            · exact h

theorem lcGraphK_quiet (w0 : World) (liftAll : Bool) (big tnamed : Nat → Bool) :
    ∀ (fuel : Nat) (p : KSt × Nat) (g : Nat), ((p.2 != 0) = false → Quiet w0 p.1) →
      (((lcGraphK liftAll big tnamed fuel p g).2 != 0) = false → Quiet w0 (lcGraphK liftAll big tnamed fuel p g).1)
  | 0, _, _, h => h
  | fuel + 1, p, g, h => by
    simp only [lcGraphK]
    refine foldl_quiet w0 (fun p : KSt × Nat => p.1) (fun p => p.2 != 0) _ (fun p n hp => ?_) _ p h
    refine foldl_quiet w0 (fun p : KSt × Nat => p.1) (fun p => p.2 != 0) _ (fun p a hp => ?_) _ _
      (lcNodeK_quiet w0 liftAll big tnamed p n hp)
    exact foldl_quiet w0 (fun p : KSt × Nat => p.1) (fun p => p.2 != 0) _
      (fun p sub hp => lcGraphK_quiet w0 liftAll big tnamed fuel p sub hp) _ p hp

theorem lcModelK_quiet (liftAll : Bool) (big tnamed : Nat → Bool) (fuel : Nat) (w : World) (g : Nat)
    (h : (lcModelK liftAll big tnamed fuel w g).2 = 0) : Quiet w (lcModelK liftAll big tnamed fuel w g).1 :=
  lcGraphK_quiet w liftAll big tnamed fuel _ g (fun _ => Or.inl ⟨rfl, rfl⟩) (by simp [lcModelK] at h ⊢; exact h)

theorem lsiInitK_quiet (w0 : World) (main g : Nat) (outN inN : List String) (p : KSt × List (String × Nat) × Nat)
    (key : String) (h : (p.2.2 != 0) = false → Quiet w0 p.1) :
    ((lsiInitK main g outN inN p key).2.2 != 0) = false → Quiet w0 (lsiInitK main g outN inN p key).1 := by
  unfold lsiInitK
  split
  · exact h
  · split
    · exact fun _ => Or.inr rfl
    · split
      · exact h
      · split
        · exact h
        · dsimp only
          split
          · exact fun _ => Or.inr rfl
          · intro hc; simp at hc

theorem lsiModelK_quiet (fuel : Nat) (w : World) (g : Nat) (h : (lsiModelK fuel w g).2 = 0) :
    Quiet w (lsiModelK fuel w g).1 := by
  simp only [lsiModelK] at h ⊢
  refine foldl_quiet w (fun p : KSt × List (String × Nat) × Nat => p.1) (fun p => p.2.2 != 0) _ (fun p sub hp => ?_) _ _
    (fun _ => Or.inl ⟨rfl, rfl⟩) (by simpa using h)
  exact foldl_quiet w (fun p : KSt × List (String × Nat) × Nat => p.1) (fun p => p.2.2 != 0) _
    (fun p key hp => lsiInitK_quiet w g sub _ _ p key hp) _ p hp

theorem ddInitK_quiet (w0 : World) (hkey tkey : Nat → Option Nat) (g : Nat) (p : KSt × List (Nat × Nat) × Bool) (v : Nat)
    (h : p.2.2 = false → Quiet w0 p.1) : (ddInitK hkey tkey g p v).2.2 = false → Quiet w0 (ddInitK hkey tkey g p v).1 := by
  unfold ddInitK
  split
  · exact h
  · split
    · exact h
    · split
      · exact h
      · split
        · exact h
        · split
          · exact h
          · split
            · exact h
            · dsimp only
              split
              · intro hc; simp at hc
              · intro hc; simp at hc

theorem ddGraphK_quiet (w0 : World) (hkey tkey : Nat → Option Nat) (p : KSt × Bool) (g : Nat)
    (h : p.2 = false → Quiet w0 p.1) : (ddGraphK hkey tkey p g).2 = false → Quiet w0 (ddGraphK hkey tkey p g).1 := by
  simp only [ddGraphK]
  exact foldl_quiet w0 (fun p : KSt × List (Nat × Nat) × Bool => p.1) (fun p => p.2.2) _
    (fun p v hp => ddInitK_quiet w0 hkey tkey g p v hp) _ _ h

theorem ddModelK_quiet (hkey tkey : Nat → Option Nat) (fuel : Nat) (w : World) (g : Nat)
    (h : (ddModelK hkey tkey fuel w g).2 = false) : Quiet w (ddModelK hkey tkey fuel w g).1 := by
  simp only [ddModelK] at h ⊢
  exact foldl_quiet w (fun p : KSt × Bool => p.1) (fun p => p.2) _ (fun p sub hp => ddGraphK_quiet w hkey tkey p sub hp) _ _
    (ddGraphK_quiet w hkey tkey _ g (fun _ => Or.inl ⟨rfl, rfl⟩)) h

end IrVerif.PassKernel

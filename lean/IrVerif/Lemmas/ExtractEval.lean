/-
Helper development for C18_eval: evaluating a node list under an arbitrary interpretation of the
operators, and the agreement of the extracted list with the source list on every required value.
-/
import IrVerif.Lemmas.Extract
namespace IrVerif.Extract

/-- an environment gives every value id a value; an interpretation gives, for a node of the table and an
    environment, the value of each of its outputs.  Nodes with graph attributes are interpreted as a whole
    (whatever their bodies compute); the only constraint used is `Local`: the result may depend only on the
    node's inputs and on the values its nested graphs capture. -/
abbrev Env (α : Type) := VId → α
abbrev Interp (α : Type) := NId → Env α → VId → α

def NotProducedIn (W : World) (l : List NId) (u : VId) : Prop :=
  ∀ m, m ∈ l → ¬ u ∈ (W.nodeD m).outputs

def LocalAt {α : Type} (W : World) (p : GId) (F : Interp α) (n : NId) : Prop :=
  ∀ (e e' : Env α), (∀ u, Needs W p n u → e u = e' u) → ∀ o, o ∈ (W.nodeD n).outputs → F n e o = F n e' o

def Local {α : Type} (W : World) (p : GId) (F : Interp α) : Prop := ∀ n, LocalAt W p F n

def evalNode {α : Type} (W : World) (F : Interp α) (e : Env α) (n : NId) : Env α :=
  fun v => if v ∈ (W.nodeD n).outputs then F n e v else e v

def evalNodes {α : Type} (W : World) (F : Interp α) (ns : List NId) (e : Env α) : Env α :=
  ns.foldl (evalNode W F) e

theorem evalNodes_not_produced {α : Type} {W : World} {F : Interp α} {u : VId} :
    ∀ (l : List NId) (e : Env α), NotProducedIn W l u → evalNodes W F l e u = e u
  | [], e, _ => rfl
  | n :: l, e, h => by
    unfold evalNodes
    simp only [List.foldl_cons]
    have h1 : NotProducedIn W l u := fun m hm => h m (List.mem_cons_of_mem _ hm)
    have := evalNodes_not_produced (F := F) l (evalNode W F e n) h1
    unfold evalNodes at this
    rw [this]
    unfold evalNode
    simp [h n List.mem_cons_self]

theorem evalNodes_append {α : Type} {W : World} {F : Interp α} (l1 l2 : List NId) (e : Env α) :
    evalNodes W F (l1 ++ l2) e = evalNodes W F l2 (evalNodes W F l1 e) := by
  unfold evalNodes
  rw [List.foldl_append]

/-- one node of the extracted graph: the values in `fz` (boundary inputs whose consumers were rewired to the
    graph input, D153) are never overwritten -/
def evalNodeFz {α : Type} (W : World) (F : Interp α) (fz : List VId) (e : Env α) (n : NId) : Env α :=
  fun v => if v ∈ fz then e v else if v ∈ (W.nodeD n).outputs then F n e v else e v

def evalNodesFz {α : Type} (W : World) (F : Interp α) (fz : List VId) (ns : List NId) (e : Env α) : Env α :=
  ns.foldl (evalNodeFz W F fz) e

theorem evalNodesFz_nil {α : Type} (W : World) (F : Interp α) (ns : List NId) (e : Env α) :
    evalNodesFz W F [] ns e = evalNodes W F ns e := by
  have hf : evalNodeFz W F [] = evalNode W F := by
    funext e n v
    simp [evalNodeFz, evalNode]
  unfold evalNodesFz evalNodes
  rw [hf]

theorem evalNodesFz_not_produced {α : Type} {W : World} {F : Interp α} {fz : List VId} {u : VId} :
    ∀ (l : List NId) (e : Env α), NotProducedIn W l u → evalNodesFz W F fz l e u = e u
  | [], e, _ => rfl
  | n :: l, e, h => by
    unfold evalNodesFz
    simp only [List.foldl_cons]
    have h1 : NotProducedIn W l u := fun m hm => h m (List.mem_cons_of_mem _ hm)
    have := evalNodesFz_not_produced (F := F) (fz := fz) l (evalNodeFz W F fz e n) h1
    unfold evalNodesFz at this
    rw [this]
    unfold evalNodeFz
    simp [h n List.mem_cons_self]

theorem evalNodesFz_append {α : Type} {W : World} {F : Interp α} {fz : List VId} (l1 l2 : List NId)
    (e : Env α) :
    evalNodesFz W F fz (l1 ++ l2) e = evalNodesFz W F fz l2 (evalNodesFz W F fz l1 e) := by
  unfold evalNodesFz
  rw [List.foldl_append]

/-- single assignment + topological order of the source node list, relative to what a node needs -/
def TopoSorted (W : World) (p : GId) : List NId → Prop
  | [] => True
  | n :: rest => (∀ u, Needs W p n u → NotProducedIn W (n :: rest) u) ∧ TopoSorted W p rest

structure SourceOK (W : World) (p : GId) (g : List NId) : Prop where
  nodup : g.Nodup
  /-- `producer()` of an output of a node of the list is that node -/
  prodOut : ∀ n, n ∈ g → ∀ o, o ∈ (W.nodeD n).outputs → W.prod o = some n
  /-- a value whose `producer()` is `n` is among the outputs of `n` -/
  outProd : ∀ v n, W.prod v = some n → v ∈ (W.nodeD n).outputs
  sorted : TopoSorted W p g

theorem TopoSorted.tail {W : World} {p : GId} : ∀ {pre l : List NId}, TopoSorted W p (pre ++ l) → TopoSorted W p l
  | [], _, h => h
  | _ :: pre, _, h => TopoSorted.tail (pre := pre) h.2

section
variable {α : Type} {W : World} {p : GId} {F : Interp α} {I O : List VId} {g : List NId}
variable (keep : NId → Bool) (fz : List VId) (env0 env1 : Env α)

/-- the core induction: `pre` has been executed on both sides; the extracted side runs the kept nodes and
    never overwrites the values in `fz ⊆ I` -/
theorem eval_agree_aux (hF : ∀ n, n ∈ g → LocalAt W p F n) (hS : SourceOK W p g)
    (hkeep : ∀ n, n ∈ g → (keep n = true ↔ NeedN W p I O n))
    (hfz : ∀ u, u ∈ fz → u ∈ I)
    (hI : ∀ u, u ∈ I → env1 u = evalNodes W F g env0 u) :
    ∀ (l pre : List NId), g = pre ++ l →
      (∀ u, (u ∈ I ∨ Reach W p I O u) → NotProducedIn W l u →
        evalNodesFz W F fz (pre.filter keep) env1 u = evalNodes W F g env0 u) →
      ∀ u, (u ∈ I ∨ Reach W p I O u) →
        evalNodesFz W F fz (g.filter keep) env1 u = evalNodes W F g env0 u
  | [], pre, hg, h => by
    intro u hu
    have : g = pre := by simpa using hg
    subst this
    exact h u hu (fun m hm => by cases hm)
  | n :: rest, pre, hg, h => by
    apply eval_agree_aux hF hS hkeep hfz hI rest (pre ++ [n]) (by simp [hg])
    intro u hu hnp
    have hng : n ∈ g := by rw [hg]; simp
    have hT : evalNodes W F g env0 = evalNodes W F (n :: rest) (evalNodes W F pre env0) := by
      rw [hg, evalNodes_append]
    have hsorted : TopoSorted W p (n :: rest) := by
      have := hS.sorted; rw [hg] at this; exact this.tail
    -- a value produced by `n` is produced by no node of `pre`
    have hnpre : ∀ v, v ∈ (W.nodeD n).outputs → NotProducedIn W (pre.filter keep) v := by
      intro v hvo m hm hmo
      have hpv : W.prod v = some n := hS.prodOut n hng v hvo
      have hmpre : m ∈ pre := (List.mem_filter.mp hm).1
      have hmg : m ∈ g := by rw [hg]; exact List.mem_append_left _ hmpre
      have := hS.prodOut m hmg v hmo
      rw [hpv] at this
      cases this
      have hnd := hS.nodup
      rw [hg] at hnd
      exact (List.nodup_append.mp hnd).2.2 n hmpre n List.mem_cons_self rfl
    rw [List.filter_append]
    by_cases hk : keep n = true
    · have hN : NeedN W p I O n := (hkeep n hng).mp hk
      simp only [List.filter_cons, hk, if_true, List.filter_nil]
      rw [evalNodesFz_append]
      by_cases hufz : u ∈ fz
      · -- frozen boundary input: still the value supplied at the boundary
        have e1 : evalNodesFz W F fz [n] (evalNodesFz W F fz (pre.filter keep) env1) u
            = evalNodesFz W F fz (pre.filter keep) env1 u := by
          simp [evalNodesFz, evalNodeFz, hufz]
        rw [e1]
        by_cases huo : u ∈ (W.nodeD n).outputs
        · rw [evalNodesFz_not_produced _ _ (hnpre u huo)]
          exact hI u (hfz u hufz)
        · exact h u hu (by
            intro m hm
            rcases List.mem_cons.mp hm with rfl | hm
            · exact huo
            · exact hnp m hm)
      · by_cases huo : u ∈ (W.nodeD n).outputs
        · have hneeds : ∀ w, Needs W p n w →
              evalNodesFz W F fz (pre.filter keep) env1 w = evalNodes W F pre env0 w := by
            intro w hw
            have hgood : w ∈ I ∨ Reach W p I O w := by
              by_cases hwI : w ∈ I
              · exact Or.inl hwI
              · obtain ⟨v, hr, hp⟩ := hN
                exact Or.inr (Reach.step hr hp hw hwI)
            have hnpw : NotProducedIn W (n :: rest) w := hsorted.1 w hw
            rw [h w hgood hnpw, hT, evalNodes_not_produced _ _ hnpw]
          have e1 : evalNodesFz W F fz [n] (evalNodesFz W F fz (pre.filter keep) env1) u
              = F n (evalNodesFz W F fz (pre.filter keep) env1) u := by
            simp [evalNodesFz, evalNodeFz, huo, hufz]
          rw [e1, hF n hng _ _ hneeds u huo, hT]
          have e2 : evalNodes W F (n :: rest) (evalNodes W F pre env0)
              = evalNodes W F rest (evalNode W F (evalNodes W F pre env0) n) := by
            simp [evalNodes]
          rw [e2, evalNodes_not_produced _ _ hnp]
          simp [evalNode, huo]
        · have hnp' : NotProducedIn W (n :: rest) u := by
            intro m hm
            rcases List.mem_cons.mp hm with rfl | hm
            · exact huo
            · exact hnp m hm
          have e1 : evalNodesFz W F fz [n] (evalNodesFz W F fz (pre.filter keep) env1) u
              = evalNodesFz W F fz (pre.filter keep) env1 u := by
            simp [evalNodesFz, evalNodeFz, huo, hufz]
          rw [e1]
          exact h u hu hnp'
    · have hk' : keep n = false := by simpa using hk
      simp only [List.filter_cons, hk', Bool.false_eq_true, if_false, List.filter_nil, List.append_nil]
      by_cases huo : u ∈ (W.nodeD n).outputs
      · have hpu : W.prod u = some n := hS.prodOut n hng u huo
        have huI : u ∈ I := by
          rcases hu with hu | hu
          · exact hu
          · exact absurd ((hkeep n hng).mpr ⟨u, hu, hpu⟩) hk
        rw [evalNodesFz_not_produced _ _ (hnpre u huo)]
        exact hI u huI
      · have hnp' : NotProducedIn W (n :: rest) u := by
          intro m hm
          rcases List.mem_cons.mp hm with rfl | hm
          · exact huo
          · exact hnp m hm
        exact h u hu hnp'

end

end IrVerif.Extract

import IrVerif.Lemmas.SerdeWide
/-! C02 deepening: on the old `WFproto` the fold is the identity (so the widened theorems contain
the old ones), and the field-by-field tensor round trip. -/
namespace IrVerif.Serde
open IrVerif.Proto

/-! ### `WFproto p -> fold p = p` -/

theorem filter_id_of_all {α : Type} (f : α → Bool) {l : List α} (h : l.all f = true) : l.filter f = l := by
  rw [List.filter_eq_self]
  exact fun a ha => List.all_eq_true.1 h a ha

theorem foldExternal_of_wf {es : List Entry} (hnd : wfEntries es = true)
    (hk : es.all (fun e => ["location", "offset", "length", "checksum"].contains e.key) = true) :
    foldExternal es = es := by
  unfold foldExternal
  rw [dedupLastBy_of_nodup (fun e : Entry => e.key) (nodupStr_iff.1 hnd)]
  exact filter_id_of_all _ hk

theorem foldTensor_of_wf {t : TensorP} (h : wfTensor t = true) : foldTensor t = t := by
  unfold foldTensor
  split
  · rename_i hloc
    simp only [wfTensor, hloc, if_true, Bool.and_eq_true] at h
    obtain ⟨_, ⟨⟨⟨⟨_, hnd⟩, hk⟩, _⟩, _⟩⟩ := h
    rw [foldExternal_of_wf hnd hk]
  · rfl

theorem map_foldTensor_of_wf {ts : List TensorP} (h : ts.all wfTensor = true) : ts.map foldTensor = ts := by
  induction ts with
  | nil => rfl
  | cons t ts ih =>
    simp only [List.all_cons, Bool.and_eq_true] at h
    simp only [List.map_cons, foldTensor_of_wf h.1, ih h.2]

theorem foldVIs_of_wf {I : List String} {vis : List ValueInfoP} (hnd : nodupStr (vis.map (·.name)) = true)
    (hI : ∀ vi ∈ vis, vi.name ∉ I) : foldVIs I vis = vis := by
  unfold foldVIs dedupLastVI
  rw [dedupLastBy_of_nodup (fun v : ValueInfoP => v.name) (nodupStr_iff.1 hnd)]
  rw [List.filter_eq_self]
  intro v hv
  simpa using hI v hv

mutual
theorem foldAttr_of_wf (scopes : Scopes) : ∀ a : AttrP, wfAttr scopes a = true → foldAttr a = a
  | .ref .., _ => rfl
  | .int .., _ => rfl
  | .float .., _ => rfl
  | .string .., _ => rfl
  | .ints .., _ => rfl
  | .floats .., _ => rfl
  | .strings .., _ => rfl
  | .tensor n d t, h => by
    simp only [wfAttr] at h
    simp only [foldAttr, foldTensor_of_wf h]
  | .tensors n d ts, h => by
    simp only [wfAttr] at h
    simp only [foldAttr, map_foldTensor_of_wf h]
  | .graph n d g, h => by
    simp only [wfAttr] at h
    simp only [foldAttr, foldGraph_of_wf scopes g h]
  | .graphs n d gs, h => by
    simp only [wfAttr] at h
    simp only [foldAttr, foldGraphs_of_wf scopes gs h]
  | .typeProto .., _ => rfl
  | .typeProtos .., _ => rfl
  | .undefined .., _ => rfl
  | .sparse .., _ => rfl
  | .unknown .., _ => rfl

theorem foldGraphs_of_wf (scopes : Scopes) : ∀ gs : List GraphP, wfGraphs scopes gs = true →
    foldGraphs gs = gs
  | [], _ => rfl
  | g :: gs, h => by
    simp only [wfGraphs, Bool.and_eq_true] at h
    simp only [foldGraphs, foldGraph_of_wf scopes g h.1, foldGraphs_of_wf scopes gs h.2]

theorem foldAttrs_of_wf (scopes : Scopes) : ∀ as : List AttrP, wfAttrs scopes as = true →
    foldAttrs as = as
  | [], _ => rfl
  | a :: as, h => by
    simp only [wfAttrs, Bool.and_eq_true] at h
    simp only [foldAttrs, foldAttr_of_wf scopes a h.1, foldAttrs_of_wf scopes as h.2]

theorem foldNode_of_wf (scopes : Scopes) : ∀ n : NodeP, wfNode scopes n = true → foldNode n = n
  | .mk inputs outputs name opType domain overload doc attrs metadata devcfgs, h => by
    simp only [wfNode, Bool.and_eq_true] at h
    simp only [foldNode, foldAttrs_of_wf scopes attrs h.1.1.2]

theorem foldNodes_of_wf (scopes : Scopes) : ∀ ns : List NodeP, wfNodes scopes ns = true →
    foldNodes ns = ns
  | [], _ => rfl
  | n :: ns, h => by
    simp only [wfNodes, Bool.and_eq_true] at h
    simp only [foldNodes, foldNode_of_wf scopes n h.1, foldNodes_of_wf scopes ns h.2]

theorem foldGraph_of_wf (outer : Scopes) : ∀ g : GraphP, wfGraph outer g = true → foldGraph g = g
  | .mk name doc nodes inits inputs outputs vis quant md, h => by
    obtain ⟨hw, hwn⟩ := graphWF_of_wf outer name doc nodes inits inputs outputs vis quant md h
    have hT : inits.all wfTensor = true := by
      rw [List.all_eq_true]
      intro p hp
      have := List.all_eq_true.1 hw.wfInit p hp
      simp only [Bool.and_eq_true] at this
      exact this.1
    simp only [foldGraph, foldNodes_of_wf _ nodes hwn, map_foldTensor_of_wf hT,
      foldVIs_of_wf (nodupStr_iff.2 hw.nodupVis) (fun vi hvi => (hw.visNotIO vi hvi).1)]
end

theorem foldFunction_of_wf (ver : Int) (f : FunctionP) (h : wfFunction ver f = true) :
    foldFunction f = f := by
  simp only [wfFunction, Bool.and_eq_true] at h
  obtain ⟨⟨⟨⟨⟨⟨⟨⟨⟨⟨⟨⟨_, _⟩, _⟩, _⟩, hattrs⟩, _⟩, _⟩, hvnd⟩, _⟩, hops⟩, _⟩, hnodes⟩, _⟩ := h
  have e1 := foldNodes_of_wf _ f.nodes hnodes
  have e2 := foldAttrs_of_wf _ f.attrProtos hattrs
  have e3 : opsetDict f.opsetImport = f.opsetImport :=
    dictByKey_nodup (fun o : OpsetP => o.domain) _ (nodupStr_iff.1 hops)
  have e4 : dedupLastVI f.valueInfo = f.valueInfo :=
    dedupLastBy_of_nodup (fun v : ValueInfoP => v.name) (nodupStr_iff.1 hvnd)
  cases f
  simp only [foldFunction] at e1 e2 e3 e4 ⊢
  simp only [e1, e2, e3, e4]

theorem map_foldFunction_of_wf (ver : Int) : ∀ fs : List FunctionP, fs.all (wfFunction ver) = true →
    fs.map foldFunction = fs
  | [], _ => rfl
  | f :: fs, h => by
    simp only [List.all_cons, Bool.and_eq_true] at h
    simp only [List.map_cons, foldFunction_of_wf ver f h.1, map_foldFunction_of_wf ver fs h.2]

theorem foldModel_of_wf (m : ModelP) (h : wfModel m = true) : foldModel m = m := by
  simp only [wfModel, Bool.and_eq_true] at h
  obtain ⟨⟨⟨⟨⟨⟨hg, hf⟩, _⟩, hops⟩, _⟩, _⟩, _⟩ := h
  have e1 := foldGraph_of_wf [] m.graph hg
  have e2 := map_foldFunction_of_wf m.irVersion m.functions hf
  have e3 : opsetDict m.opsetImport = m.opsetImport :=
    dictByKey_nodup (fun o : OpsetP => o.domain) _ (nodupStr_iff.1 hops)
  cases m
  simp only [foldModel] at e1 e2 e3 ⊢
  simp only [e1, e2, e3]

/-- below IR version 10 `wfModel` says that no value of the main graph has a name of the
experimental form; in particular no graph input -/
theorem inputsPlain_of_wf (m : ModelP) (h : wfModel m = true) :
    m.irVersion ≥ 10 ∨ inputsPlain m.graph = true := by
  simp only [wfModel, Bool.and_eq_true, Bool.or_eq_true, decide_eq_true_eq] at h
  rcases h.2 with h10 | hexp
  · exact Or.inl h10
  · right
    simp only [inputsPlain, List.all_eq_true]
    intro vi hvi
    have := List.all_eq_true.1 hexp vi.name
      (mem_scopeNames.2 (Or.inl (List.mem_map_of_mem hvi)))
    simpa using this

theorem foldGraph_inputs (g : GraphP) : (foldGraph g).inputs = g.inputs := by
  cases g; rfl

/-! ### tensors, field by field -/

theorem copyFromTensorP_eq (p : TensorP) : copyFromTensorP p = p := by
  cases p
  simp only [copyFromTensorP, mergeTensorP, emptyTensorP, List.nil_append, TensorP.mk.injEq]
  and_intros <;> first | trivial | rfl | (split <;> simp_all)

/-- the field-by-field transcription agrees with `serTensor` on everything `deserialize_tensor`
produces -/
theorem serTensorF_eq (p : TensorP) (t : IRTensor) (h : desTensor p = .ok t) : serTensorF t = serTensor t := by
  unfold desTensor at h
  split at h
  · obtain ⟨off, _, h⟩ := bind_eq_ok h
    obtain ⟨len, _, h⟩ := bind_eq_ok h
    split at h
    · simp only [Except.ok.injEq] at h
      subst h
      simp [serTensorF, serTensor, emptyTensorP]
    · cases h
  · split at h
    · simp only [Except.ok.injEq] at h
      subst h
      simp [serTensorF, serTensor, emptyTensorP]
    · simp only [Except.ok.injEq] at h
      subst h
      simp only [serTensorF, serTensor, copyFromTensorP_eq]
      split
      · rename_i hm
        have : p.metadata = [] := by
          have := dictOfEntries_isEmpty p.metadata
          rw [hm] at this
          simpa using this.symm
        cases p
        simp_all [dictOfEntries, dictUpdate, sortEntries]
      · rfl

/-! ### `C02_tensor_fields` -/

theorem find?_key_eta (es : List Entry) (k : String) :
    (es.find? (fun e => e.key = k)).toList
      = optEntry k ((es.find? (fun e => e.key = k)).map (·.value)) := by
  cases hf : es.find? (fun e => e.key = k) with
  | none => rfl
  | some e =>
    have hek : e.key = k := by simpa using List.find?_some hf
    simp only [Option.map_some, optEntry, Option.toList]
    rw [entry_eta hek]

theorem normExternal_eq (es : List Entry) (hnd : (es.map (·.key)).Nodup) :
    normExternal es = optEntry "location" (extGet es "location") ++ optEntry "offset" (extGet es "offset")
      ++ optEntry "length" (extGet es "length") ++ optEntry "checksum" (extGet es "checksum") := by
  simp only [extGet_eq hnd, ← find?_key_eta]
  unfold normExternal
  simp only [List.filterMap_cons, List.filterMap_nil]
  cases es.find? (fun e => e.key = "location") <;> cases es.find? (fun e => e.key = "offset") <;>
    cases es.find? (fun e => e.key = "length") <;> cases es.find? (fun e => e.key = "checksum") <;> rfl

theorem normExternal_props (es : List Entry) (hnd : (es.map (·.key)).Nodup) :
    (extKeys.all (fun k => extGet (normExternal es) k == extGet es k)
      && (normExternal es).all (fun e => extKeys.contains e.key)
      && nodupStr ((normExternal es).map (·.key))) = true := by
  rw [normExternal_eq es hnd]
  simp only [extKeys, List.all_cons, List.all_nil]
  generalize extGet es "location" = a
  generalize extGet es "offset" = b
  generalize extGet es "length" = c
  generalize extGet es "checksum" = d
  cases a <;> cases b <;> cases c <;> cases d <;> simp [optEntry, extGet, findLast?, nodupStr]

theorem dedupLastBy_subset {α : Type} (key : α → String) {a : α} :
    ∀ {l : List α}, a ∈ dedupLastBy key l → a ∈ l
  | [], h => by cases h
  | v :: vs, h => by
    simp only [dedupLastBy] at h
    split at h
    · exact List.mem_cons_of_mem _ (dedupLastBy_subset key h)
    · rcases List.mem_cons.1 h with rfl | h
      · exact List.mem_cons_self
      · exact List.mem_cons_of_mem _ (dedupLastBy_subset key h)

theorem dedupLastBy_nodup {α : Type} (key : α → String) :
    ∀ l : List α, ((dedupLastBy key l).map key).Nodup
  | [] => List.nodup_nil
  | v :: vs => by
    simp only [dedupLastBy]
    split
    · exact dedupLastBy_nodup key vs
    · rename_i hany
      rw [List.map_cons, List.nodup_cons]
      refine ⟨?_, dedupLastBy_nodup key vs⟩
      intro hm
      obtain ⟨w, hw, hwk⟩ := List.mem_map.1 hm
      apply hany
      exact List.any_eq_true.2 ⟨w, dedupLastBy_subset key hw, by simp [hwk]⟩

theorem foldExternal_nodup (es : List Entry) : ((foldExternal es).map (·.key)).Nodup := by
  unfold foldExternal
  exact ((List.filter_sublist).map _).nodup (dedupLastBy_nodup (fun e : Entry => e.key) es)

theorem tensor_fields (p : TensorP) (h : wfTensorW p = true) :
    ∃ t, desTensor p = .ok t ∧ tensorFieldsKept (serTensorF t) p = true := by
  obtain ⟨t, h1, h2, _⟩ := tensor_roundtrip (foldTensor p) h
  rw [desTensor_foldTensor] at h1
  refine ⟨t, h1, ?_⟩
  rw [serTensorF_eq p t h1, h2]
  unfold foldTensor
  split
  · rename_i hloc
    have hp := normExternal_props (foldExternal p.externalData) (foldExternal_nodup _)
    simp only [Bool.and_eq_true] at hp
    have hk : extKeys.all (fun k => extGet (normExternal (foldExternal p.externalData)) k
        == extGet p.externalData k) = true := by
      rw [List.all_eq_true]
      intro k hk
      have := List.all_eq_true.1 hp.1.1 k hk
      rw [extGet_foldExternal p.externalData hk] at this
      exact this
    have h2' : ∀ x ∈ normExternal (foldExternal p.externalData), x.key ∈ extKeys := by
      intro x hx
      simpa using List.all_eq_true.1 hp.1.2 x hx
    simp [tensorFieldsKept, normTensor, hloc, hk, hp.2]
    exact h2'
  · rename_i hloc
    simp [tensorFieldsKept, normTensor, hloc]

end IrVerif.Serde

import IrVerif.Lemmas.ScopeSerdeBridgeModel9d
/-!
The C02 bridge for models in the IR version < 10 format, part 5: the experimental entries of one function, the
reserved names, `C03_bridge_serialize_model9`.
-/
namespace IrVerif.Bridge
open IrVerif.Proto IrVerif.Serde

/-! ## the experimental entries of the functions -/

theorem func_exp (st : Scope.Store) (R : List Scope.Name) (f : IRFunction) (k nn ng : Nat)
    (hok : okF f = true) (hsh : ShowsAt st k (cellsG f.graph)) :
    Scope.expOfFunc st.vals R (fidOf f, treeG [] k nn ng f.graph) = (serExperimentalR R f).map absVI := by
  obtain ⟨domain, name, overload, graph, attrs⟩ := f
  cases graph with
  | mk tbl inputs inits nodes outputs gname doc opsets mprops =>
  simp only [okF, okG, Bool.and_eq_true, IRGraph.outputs] at hok
  obtain ⟨⟨⟨⟨⟨hv, hin⟩, _⟩, hnodesOK⟩, _⟩, _⟩ := hok
  have hv' : ∀ v ∈ tbl, (valOK v && tensOK v) = true := List.all_eq_true.1 hv
  have hin' : ∀ i ∈ inputs, i < tbl.length := fun i hi => of_decide_eq_true (List.all_eq_true.1 hin i hi)
  simp only [cellsG] at hsh
  have hsT := showsAt_left (showsAt_left hsh)
  have hsN := showsAt_right (showsAt_left hsh)
  simp only [List.length_map] at hsN
  have hs : ∀ i, i < tbl.length → cellAt st (k + i) = absCell (tbl.getD i (IRValue.blank "")) := by
    intro i hi
    rw [hsT i (by simpa using hi)]
    exact getD_map_absCell tbl i hi
  by_cases hov : overload = ""
  · subst hov
    have e1 := expV_tbl st tbl k R ⟨domain, name, ""⟩ hs hv' inputs hin'
    have e2 := expV_nodes st tbl k R ⟨domain, name, ""⟩ [] hs hv' nodes (k + tbl.length) nn ng hnodesOK hsN
    simp only [Scope.expOfFunc, fidOf, treeG, serExperimentalR, IRGraph.table, IRGraph.inputs, IRGraph.nodes,
      outputs_setGraph, e1, e2]
    have h1 : (("" : String) != "") = false := by decide
    have h2 : (!("" : String).isEmpty) = false := by decide
    simp only [h1, h2, Bool.false_eq_true, if_false, List.map_append]
  · have h1 : (overload != "") = true := by simpa using hov
    have h2 : (!overload.isEmpty) = true := by simp [isEmpty_decide, hov]
    simp only [Scope.expOfFunc, fidOf, serExperimentalR, h1, h2, if_true, List.map_nil]

theorem funcs_exp (st : Scope.Store) (R : List Scope.Name) : ∀ (fs : List IRFunction) (k nn ng : Nat),
    fs.all okF = true → ShowsAt st k (cellsFs fs) →
    (treeFs k nn ng fs).flatMap (Scope.expOfFunc st.vals R) = (fs.flatMap (serExperimentalR R)).map absVI
  | [], _, _, _, _, _ => rfl
  | f :: fs, k, nn, ng, hok, hsh => by
    simp only [List.all_cons, Bool.and_eq_true] at hok
    simp only [cellsFs] at hsh
    simp only [treeFs, List.flatMap_cons, List.map_append, func_exp st R f k nn ng hok.1 (showsAt_left hsh),
      funcs_exp st R fs _ _ _ hok.2 (showsAt_right hsh)]

/-! ## functions written without value_info -/

theorem serFunction_false (ver : Option Int) (f : IRFunction) (q : FunctionP)
    (h : Serde.serFunction ver false f = .ok q) :
    ∃ q1, Serde.serFunction ver true f = .ok q1 ∧ ({ absF q1 with vinfo := [] } : Scope.FuncP) = absF q := by
  simp only [Serde.serFunction, bind, Except.bind] at h ⊢
  split at h
  · cases h
  · rename_i aps ha
    split at h
    · cases h
    · rename_i ns hn
      cases h
      exact ⟨_, rfl, by simp [absF, fidP, valuesVI_false]⟩

theorem funcs_ser9 (st : Scope.Store) (ver : Int) (hver : ver < 10) : ∀ (fs : List IRFunction) (k nn ng : Nat)
      (qs : List FunctionP),
    fs.all okF = true → ShowsAt st k (cellsFs fs) → Serde.serFunctions ver fs = .ok qs →
    ∃ qs1 ws, Scope.serFuncs st.vals st.tdata (treeFs k nn ng fs) = .ok (qs1, ws) ∧
      qs1.map (fun f => ({ f with vinfo := [] } : Scope.FuncP)) = qs.map absF
  | [], k, nn, ng, qs, _, _, hq => by
    simp only [Serde.serFunctions] at hq
    cases hq
    exact ⟨[], [], by simp [treeFs, Scope.serFuncs], rfl⟩
  | f :: fs, k, nn, ng, qs, hok, hsh, hq => by
    simp only [List.all_cons, Bool.and_eq_true] at hok
    simp only [cellsFs] at hsh
    have hd : decide (ver ≥ 10) = false := by simp; omega
    simp only [Serde.serFunctions, hd, bind, Except.bind] at hq
    split at hq
    · cases hq
    · rename_i q hq1
      split at hq
      · cases hq
      · rename_i qs' hq2
        cases hq
        obtain ⟨q1, e1, e2⟩ := serFunction_false (some ver) f q hq1
        obtain ⟨ws1, h1⟩ := func_ser st (some ver) f k nn ng q1 hok.1 (showsAt_left hsh) e1
        obtain ⟨qs1, ws2, h2, h3⟩ := funcs_ser9 st ver hver fs (k + (cellsG f.graph).length) (nn + nnG f.graph)
          (ng + ngG f.graph) qs' hok.2 (showsAt_right hsh) hq2
        exact ⟨absF q1 :: qs1, ws1 ++ ws2, by simp only [treeFs, Scope.serFuncs, h1, h2],
          by simp only [List.map_cons, e2, h3]⟩

/-! ## the reserved names -/

def resName (vals : Nat → Scope.ValueS) (v : Nat) : Option Scope.Name :=
  match (vals v).name with
  | some n => if n = "" then none else some n
  | none => none

theorem reservedNames_unfold (vals : Nat → Scope.ValueS) (a : Nat) (b : List Nat) (inits : List (Scope.Name × Nat))
    (nodes : List Scope.NodeT) (e : List Nat) :
    Scope.reservedNames vals (.mk a b inits nodes e)
      = ((nodes.flatMap fun n => n.inputs.filterMap id ++ n.outputs).filterMap (resName vals))
        ++ (inits.map (·.1)).filter (· != "") := rfl

theorem res_blank (st : Scope.Store) (w : Nat) (h : cellAt st w = blankCell) : resName st.vals w = none := by
  have hn : (st.vals w).name = some "" := by simpa [cellAt, blankCell] using congrArg Cell.name h
  simp [resName, hn]

theorem res_name (st : Scope.Store) (w : Nat) (n : String) (h : (st.vals w).name = some n) :
    resName st.vals w = if n = "" then none else some n := by
  simp [resName, h]

theorem fm_cons_none {α β : Type} {f : α → Option β} {a : α} {l : List α} (h : f a = none) :
    List.filterMap f (a :: l) = List.filterMap f l := by simp [h]

theorem fm_cons_some {α β : Type} {f : α → Option β} {a : α} {b : β} {l : List α} (h : f a = some b) :
    List.filterMap f (a :: l) = b :: List.filterMap f l := by simp [h]

theorem filt_cons_ne (s : String) (l : List String) (h : s ≠ "") :
    (s :: l).filter (· ≠ "") = s :: l.filter (· ≠ "") := by simp [h]

theorem filt_cons_empty (l : List String) : ("" :: l).filter (· ≠ "") = l.filter (· ≠ "") := by simp

theorem res_ins (st : Scope.Store) (scN : Scopes) (lens bases : List Nat) (hl : lens = scN.map List.length)
    (hs : SeesOuter st scN bases) : ∀ ins : List (Option Ref), ins.all (refOKF lens) = true →
    ((absInsB bases ins).filterMap id).filterMap (resName st.vals)
      = (ins.filterMap fun r => r.map (refName scN)).filter (· ≠ "")
  | [], _ => rfl
  | none :: ins, h => by
    simp only [List.all_cons, Bool.and_eq_true] at h
    have ih := res_ins st scN lens bases hl hs ins h.2
    have e0 : (absInsB bases (none :: ins)).filterMap id = (absInsB bases ins).filterMap id := rfl
    have e1 : ((none :: ins).filterMap fun r => r.map (refName scN))
        = (ins.filterMap fun r => r.map (refName scN)) := rfl
    rw [e0, e1]
    exact ih
  | some r :: ins, h => by
    simp only [List.all_cons, Bool.and_eq_true, refOKF, decide_eq_true_eq] at h
    have ih := res_ins st scN lens bases hl hs ins h.2
    have hr : r.idx < (scN.getD r.up []).length := by
      have := h.1
      rw [hl, getD_map_length] at this
      exact this
    have f1 := res_name st _ _ (hs r hr)
    have e0 : (absInsB bases (some r :: ins)).filterMap id = refId bases r :: (absInsB bases ins).filterMap id := rfl
    have e1 : ((some r :: ins).filterMap fun r => r.map (refName scN))
        = refName scN r :: (ins.filterMap fun r => r.map (refName scN)) := rfl
    rw [e0, e1]
    by_cases he : refName scN r = ""
    · rw [fm_cons_none (by rw [f1, if_pos he]), he, filt_cons_empty]
      exact ih
    · rw [fm_cons_some (by rw [f1, if_neg he]), filt_cons_ne _ _ he, ih]

theorem res_outs (st : Scope.Store) (tbl : List IRValue) (outer : Scopes) (b : Nat)
    (hs : ∀ i, i < tbl.length → cellAt st (b + i) = absCell (tbl.getD i (IRValue.blank ""))) :
    ∀ (outs : List (Option Nat)) (K : Nat), outs.all (outOK tbl.length) = true →
    (∀ j, K ≤ j → j < K + numNone outs → cellAt st j = blankCell) →
    (absOutsB b K outs).filterMap (resName st.vals)
      = (outs.filterMap fun j => j.map fun i => refName (tableNames tbl :: outer) ⟨0, i⟩).filter (· ≠ "")
  | [], _, _, _ => rfl
  | none :: outs, K, h, hb => by
    simp only [List.all_cons, Bool.and_eq_true] at h
    have ih := res_outs st tbl outer b hs outs (K + 1) h.2
      (fun j h1 h2 => hb j (by omega) (by simp only [numNone]; omega))
    have e0 : absOutsB b K (none :: outs) = K :: absOutsB b (K + 1) outs := rfl
    have e1 : ((none :: outs).filterMap fun j => j.map fun i => refName (tableNames tbl :: outer) ⟨0, i⟩)
        = (outs.filterMap fun j => j.map fun i => refName (tableNames tbl :: outer) ⟨0, i⟩) := rfl
    rw [e0, e1, fm_cons_none (res_blank st K (hb K (Nat.le_refl _) (by simp [numNone])))]
    exact ih
  | some i :: outs, K, h, hb => by
    simp only [List.all_cons, Bool.and_eq_true, outOK, decide_eq_true_eq] at h
    have ih := res_outs st tbl outer b hs outs K h.2 (fun j h1 h2 => hb j h1 (by simpa [numNone] using h2))
    have f1 := res_name st _ _ (cell_fields (hs i h.1)).1
    have e0 : absOutsB b K (some i :: outs) = (b + i) :: absOutsB b K outs := rfl
    have e1 : ((some i :: outs).filterMap fun j => j.map fun i => refName (tableNames tbl :: outer) ⟨0, i⟩)
        = refName (tableNames tbl :: outer) ⟨0, i⟩
          :: (outs.filterMap fun j => j.map fun i => refName (tableNames tbl :: outer) ⟨0, i⟩) := rfl
    rw [e0, e1, refName_tblF]
    by_cases he : (tbl.getD i (IRValue.blank "")).name = ""
    · rw [fm_cons_none (by rw [f1, if_pos he]), he, filt_cons_empty]
      exact ih
    · rw [fm_cons_some (by rw [f1, if_neg he]), filt_cons_ne _ _ he, ih]

theorem res_nodes (st : Scope.Store) (tbl : List IRValue) (outer : Scopes) (lens bases : List Nat) (b : Nat)
    (hl : lens = outer.map List.length) (hsees : SeesOuter st (tableNames tbl :: outer) (b :: bases))
    (hs : ∀ i, i < tbl.length → cellAt st (b + i) = absCell (tbl.getD i (IRValue.blank ""))) :
    ∀ (xs : List IRNode) (K nn ng : Nat), okNodes (tbl.length :: lens) xs = true → ShowsAt st K (cellsNodes xs) →
    ((treeNodes (b :: bases) K nn ng xs).flatMap fun n => n.inputs.filterMap id ++ n.outputs).filterMap
        (resName st.vals)
      = (xs.flatMap fun n =>
          (n.inputs.filterMap fun r => r.map (refName (tableNames tbl :: outer))) ++
          (n.outputs.filterMap fun j => j.map fun i => refName (tableNames tbl :: outer) ⟨0, i⟩)).filter (· ≠ "")
  | [], _, _, _, _, _ => rfl
  | x :: xs, K, nn, ng, hokN, hsh => by
    cases x with
    | mk domain opType overload name doc ins outs attrs mprops devcfgs =>
    simp only [okNodes, okNode, Bool.and_eq_true, List.headD_cons] at hokN
    simp only [cellsNodes] at hsh
    have hr := showsAt_right hsh
    have hb0 := showsAt_left hsh
    simp only [cellsNode] at hb0
    have hb := showsAt_left hb0
    have hb' : ∀ j, K ≤ j → j < K + numNone outs → cellAt st j = blankCell := by
      intro j h1 h2
      have := hb (j - K) (by simp; omega)
      have e : K + (j - K) = j := by omega
      rw [e] at this
      rw [this]
      have hlt : j - K < numNone outs := by omega
      simp [List.getD, hlt]
    have ih := res_nodes st tbl outer lens bases b hl hsees hs xs _
      (nn + nnNode (.mk domain opType overload name doc ins outs attrs mprops devcfgs))
      (ng + ngNode (.mk domain opType overload name doc ins outs attrs mprops devcfgs)) hokN.2 hr
    have e1 := res_ins st (tableNames tbl :: outer) (tbl.length :: lens) (b :: bases)
      (by simp [hl, tableNames]) hsees ins hokN.1.1.1
    have e2 := res_outs st tbl outer b hs outs K hokN.1.1.2 hb'
    have eL : ((treeNodes (b :: bases) K nn ng
          (.mk domain opType overload name doc ins outs attrs mprops devcfgs :: xs)).flatMap
          fun n => n.inputs.filterMap id ++ n.outputs)
        = ((absInsB (b :: bases) ins).filterMap id ++ absOutsB b K outs) ++
          ((treeNodes (b :: bases)
            (K + (cellsNode (.mk domain opType overload name doc ins outs attrs mprops devcfgs)).length)
            (nn + nnNode (.mk domain opType overload name doc ins outs attrs mprops devcfgs))
            (ng + ngNode (.mk domain opType overload name doc ins outs attrs mprops devcfgs)) xs).flatMap
            fun n => n.inputs.filterMap id ++ n.outputs) := by
      simp only [treeNodes, List.flatMap_cons, treeNode, List.headD_cons]
      rfl
    have eR : ((IRNode.mk domain opType overload name doc ins outs attrs mprops devcfgs :: xs).flatMap fun n =>
          (n.inputs.filterMap fun r => r.map (refName (tableNames tbl :: outer))) ++
          (n.outputs.filterMap fun j => j.map fun i => refName (tableNames tbl :: outer) ⟨0, i⟩))
        = ((ins.filterMap fun r => r.map (refName (tableNames tbl :: outer))) ++
            (outs.filterMap fun j => j.map fun i => refName (tableNames tbl :: outer) ⟨0, i⟩)) ++
          (xs.flatMap fun n =>
            (n.inputs.filterMap fun r => r.map (refName (tableNames tbl :: outer))) ++
            (n.outputs.filterMap fun j => j.map fun i => refName (tableNames tbl :: outer) ⟨0, i⟩)) := by
      simp only [List.flatMap_cons]
      rfl
    rw [eL, eR, List.filterMap_append, List.filterMap_append, List.filter_append, List.filter_append, e1, e2, ih]

theorem io_setGraph (g : Nat) (ns : List Scope.NodeT) :
    ((ns.map (Scope.NodeT.setGraph g)).flatMap fun n => n.inputs.filterMap id ++ n.outputs)
      = ns.flatMap fun n => n.inputs.filterMap id ++ n.outputs := by
  induction ns with
  | nil => rfl
  | cons n ns ih =>
    cases n
    rw [List.map_cons, List.flatMap_cons, List.flatMap_cons, ih]
    rfl

theorem filter_bne_eq (l : List String) : l.filter (· != "") = l.filter (· ≠ "") := by
  apply List.filter_congr
  intro x _
  by_cases h : x = "" <;> simp [h]

/-- the reserved names (D320) of the two models -/
theorem reserved_eq (st : Scope.Store) (g : IRGraph) (hok : okG [] g = true) (hsh : ShowsAt st 0 (cellsG g)) :
    Scope.reservedNames st.vals (treeG [] 0 0 0 g) = Serde.reservedNames g := by
  cases g with
  | mk tbl inputs inits nodes outputs name doc opsets mprops =>
  simp only [okG, Bool.and_eq_true] at hok
  obtain ⟨⟨⟨⟨_, _⟩, _⟩, hnodesOK⟩, _⟩ := hok
  simp only [cellsG] at hsh
  have hsT := showsAt_left (showsAt_left hsh)
  have hsN := showsAt_right (showsAt_left hsh)
  simp only [List.length_map] at hsN
  have hs : ∀ i, i < tbl.length → cellAt st (0 + i) = absCell (tbl.getD i (IRValue.blank "")) := by
    intro i hi
    rw [hsT i (by simpa using hi)]
    exact getD_map_absCell tbl i hi
  have hsees := seesOuter_cons (seesOuter_nil st) tbl 0 hs
  have e := res_nodes st tbl [] [] [] 0 rfl hsees hs nodes (0 + tbl.length) 0 0 hnodesOK hsN
  simp only [treeG, reservedNames_unfold, io_setGraph, e, Serde.reservedNames, filter_bne_eq]
  congr 2
  rw [List.map_map]
  rfl

end IrVerif.Bridge

namespace IrVerif.Scope
open IrVerif.Proto

theorem absGFull_addValueInfo (g : Proto.GraphP) (extra : List Proto.ValueInfoP) :
    Bridge.absGFull (Serde.GraphP.addValueInfo g extra) = addVInfo (extra.map Bridge.absVI) (Bridge.absGFull g) := by
  cases g
  simp [Serde.GraphP.addValueInfo, Bridge.absGFull, addVInfo]

/-- **C02 bridge, serialization of models in the IR version < 10 format** (the code as it is, D320 repaired) -/
theorem C03_bridge_serialize_model9 (x : Serde.IRModel) (q : Proto.ModelP) (w : MWorld)
    (hok : Bridge.GOKM9 x = true) (hq : Serde.serModel x = .ok q) (hw : Bridge.coreOfM w = Bridge.absIRM x) :
    ∃ w', serializeM9 true w = .ok (w', Bridge.absM q) := by
  simp only [Bridge.GOKM9, Bool.and_eq_true, decide_eq_true_eq] at hok
  obtain ⟨⟨hokg, hokf⟩, hver⟩ := hok
  have hroot : w.root = Bridge.treeG [] 0 0 0 x.graph := congrArg Bridge.CoreM.root hw
  have hfuncs : w.funcs = Bridge.treeFs (Bridge.cellsG x.graph).length (Bridge.nnG x.graph) (Bridge.ngG x.graph)
      x.functions := congrArg Bridge.CoreM.funcs hw
  have hsh : Bridge.ShowsAt w.st 0 (Bridge.cellsG x.graph ++ Bridge.cellsFs x.functions) :=
    Bridge.showsAt_of_cells (congrArg Bridge.CoreM.cells hw)
  have hge : ¬ x.irVersion ≥ 10 := by omega
  simp only [Serde.serModel, bind, Except.bind, hge, if_false] at hq
  split at hq
  · cases hq
  · rename_i g hg
    split at hq
    · cases hq
    · rename_i fs hfs
      cases hq
      obtain ⟨ws1, h1⟩ := Bridge.ser_graph_br w.st (some x.irVersion) x.graph [] [] [] 0 0 0 g hokg rfl
        (Bridge.seesOuter_nil _) (Bridge.showsAt_left hsh) hg
      have hshF := Bridge.showsAt_right hsh
      rw [Nat.zero_add] at hshF
      obtain ⟨qs1, ws2, h2, h3⟩ := Bridge.funcs_ser9 w.st x.irVersion hver x.functions _ (Bridge.nnG x.graph)
        (Bridge.ngG x.graph) fs hokf hshF hfs
      have hres := Bridge.reserved_eq w.st x.graph hokg (Bridge.showsAt_left hsh)
      have hexp := Bridge.funcs_exp w.st (Serde.reservedNames x.graph) x.functions (Bridge.cellsG x.graph).length
        (Bridge.nnG x.graph) (Bridge.ngG x.graph) hokf hshF
      refine ⟨⟨w.st.writes (ws1 ++ ws2), w.root, w.funcs⟩, ?_⟩
      simp only [serializeM9, serializeM, hroot, hfuncs, h1, h2, if_true, hres, hexp, Bridge.absM,
        absGFull_addValueInfo, h3]

end IrVerif.Scope

/-
Round trip `deserialize (serialize w)` for serializable IR models: definitions (what a graph defines,
serializability, isomorphism) and the relation between the scope tables of the deserializer and the
scope chain of the source model.
-/
import IrVerif.Model.ScopeSer
import IrVerif.Lemmas.ScopeSer
import IrVerif.Lemmas.ScopeWF
namespace IrVerif.Scope

/-- names needed for references are non-empty and unique in the scope chain `vis` -/
def NamesUnique (V : Nat → ValueS) (vis : List Nat) : Prop :=
  ∀ a ∈ vis, ∀ b ∈ vis, nameTruthy (V a).name = true → (V a).name = (V b).name → a = b

mutual
/-- `SerG V od g`: graph `g`, nested in graphs that define the values `od`, can be written and read
    back without loss. -/
def SerG (V : Nat → ValueS) (od : List Nat) : GraphT → Prop
  | .mk i ins inits nodes outs =>
    let D := defsOf V (.mk i ins inits nodes outs)
    (∀ v ∈ D, v ∉ od) ∧ NamesUnique V (D ++ od) ∧
    (∀ v ∈ ins, nameTruthy (V v).name = true) ∧
    (∀ kv ∈ inits, (V kv.2).name = some kv.1 ∧ kv.1 ≠ "" ∧ (V kv.2).const ≠ none) ∧
    (inits.map (·.1)).Nodup ∧ (inits.map (·.2)).Nodup ∧
    (∀ v ∈ outs, v ∈ D ∧ nameTruthy (V v).name = true) ∧
    SerNs V (D ++ od) outs nodes
/-- the nodes of a graph with outputs `gouts`, `vis` = values visible to them -/
def SerNs (V : Nat → ValueS) (vis : List Nat) (gouts : List Nat) : List NodeT → Prop
  | [] => True
  | n :: ns => SerN V vis gouts n ∧ SerNs V vis gouts ns
def SerN (V : Nat → ValueS) (vis : List Nat) (gouts : List Nat) : NodeT → Prop
  | .mk _ _ ins outs subs =>
    (∀ v, some v ∈ ins → v ∈ vis ∧ nameTruthy (V v).name = true) ∧
    (∀ v ∈ outs, (V v).name ≠ none) ∧
    SerGs V vis subs
def SerGs (V : Nat → ValueS) (vis : List Nat) : List GraphT → Prop
  | [] => True
  | g :: gs => SerG V vis g ∧ SerGs V vis gs
end

mutual
/-- the information conditions of the round trip: a non-input initializer that is not a graph output
    has a type and a shape (else it receives them from its tensor); an empty-named output carries no
    type and no documentation -/
def InfoG (V : Nat → ValueS) : GraphT → Prop
  | .mk _ ins inits nodes outs =>
    (∀ kv ∈ inits, kv.2 ∉ ins → kv.2 ∉ outs → (V kv.2).info.ty ≠ none ∧ (V kv.2).info.sh ≠ none) ∧
    InfoNs V nodes
def InfoNs (V : Nat → ValueS) : List NodeT → Prop
  | [] => True
  | n :: ns => InfoN V n ∧ InfoNs V ns
def InfoN (V : Nat → ValueS) : NodeT → Prop
  | .mk _ _ _ outs subs =>
    (∀ v ∈ stripTrailing V outs, ¬ nameTruthy (V v).name = true → (V v).info.ty = none ∧ (V v).info.doc = none) ∧
    InfoGs V subs
def InfoGs (V : Nat → ValueS) : List GraphT → Prop
  | [] => True
  | g :: gs => InfoG V g ∧ InfoGs V gs
end

/-- **Serializable**: every value is defined once; names needed for references are non-empty and
    unique per scope chain; every referenced value is defined in an enclosing scope; graph outputs are
    defined in their graph; initializers are keyed by name and carry a tensor; an initializer that is
    neither a graph input nor a graph output has a type and a shape; empty-named outputs carry no
    type or documentation. -/
def Serializable (w : World) : Prop :=
  (allDefsG w.st.vals w.root).Nodup ∧ SerG w.st.vals [] w.root ∧ InfoG w.st.vals w.root

/-! ### isomorphism -/

mutual
/-- the tree `g'` is the tree `g` with every value renamed by `σ` (creation indices of nodes and
    graphs and `node.graph` are not compared; trailing empty-named outputs are dropped) -/
def TreeIsoG (V : Nat → ValueS) (σ : Nat → Nat) : GraphT → GraphT → Prop
  | .mk _ ins inits nodes outs, .mk _ ins' inits' nodes' outs' =>
    ins' = ins.map σ ∧ inits' = inits.map (fun kv => (kv.1, σ kv.2)) ∧ TreeIsoNs V σ nodes nodes' ∧
    outs' = outs.map σ
def TreeIsoNs (V : Nat → ValueS) (σ : Nat → Nat) : List NodeT → List NodeT → Prop
  | [], [] => True
  | n :: ns, n' :: ns' => TreeIsoN V σ n n' ∧ TreeIsoNs V σ ns ns'
  | _, _ => False
def TreeIsoN (V : Nat → ValueS) (σ : Nat → Nat) : NodeT → NodeT → Prop
  | .mk _ _ ins outs subs, .mk _ _ ins' outs' subs' =>
    ins' = ins.map (Option.map σ) ∧ outs' = (stripTrailing V outs).map σ ∧ TreeIsoGs V σ subs subs'
def TreeIsoGs (V : Nat → ValueS) (σ : Nat → Nat) : List GraphT → List GraphT → Prop
  | [], [] => True
  | g :: gs, g' :: gs' => TreeIsoG V σ g g' ∧ TreeIsoGs V σ gs gs'
  | _, _ => False
end

/-- **Iso**: `D` is `w` up to the renaming `σ` of value ids: same tree (node order, connectivity,
    optional inputs, initializer keys, graph inputs and outputs), `σ` injective on the defined values
    (a value shared between scopes or captured from an outer scope stays ONE value, distinct values
    stay distinct), every value keeps its name, its serializable type / shape / documentation, and
    every initializer its tensor payload. -/
structure Iso (w D : World) (σ : Nat → Nat) : Prop where
  tree : TreeIsoG w.st.vals σ w.root D.root
  inj : ∀ a ∈ allDefsG w.st.vals w.root, ∀ b ∈ allDefsG w.st.vals w.root, σ a = σ b → a = b
  names : ∀ v ∈ allDefsG w.st.vals w.root, (D.st.vals (σ v)).name = (w.st.vals v).name
  /-- type, shape and documentation: what `serialize_value_into` can write of them (`Info.emit`) -/
  infos : ∀ v ∈ allDefsG w.st.vals w.root, (D.st.vals (σ v)).info = (w.st.vals v).info.emit
  /-- every initializer has a tensor named after it with the payload of the source tensor -/
  consts : ∀ kv ∈ allInitsG w.root, ∀ t, (w.st.vals kv.2).const = some t →
    ∃ t', (D.st.vals (σ kv.2)).const = some t' ∧ (D.st.tens t').name = some kv.1 ∧ D.st.tdata t' = w.st.tdata t

/-! ### the executable predicate is sound -/

theorem nodupB_iff (l : List Nat) : nodupB l = true ↔ l.Nodup := by
  induction l with
  | nil => simp [nodupB]
  | cons a r ih => simp [nodupB, ih]

theorem nodupNamesB_iff (l : List Name) : nodupNamesB l = true ↔ l.Nodup := by
  induction l with
  | nil => simp [nodupNamesB]
  | cons a r ih => simp [nodupNamesB, ih]

theorem namesUniqueB_sound (V : Nat → ValueS) (vis : List Nat) (h : namesUniqueB V vis = true) :
    NamesUnique V vis := by
  intro a ha b hb ht he
  simp only [namesUniqueB, List.all_eq_true] at h
  have := h a ha b hb
  simp only [ht, Bool.not_true, Bool.false_or, Bool.or_eq_true, Bool.not_eq_true', beq_eq_false_iff_ne,
    beq_iff_eq] at this
  rcases this with h1 | h1
  · exact absurd he h1
  · exact h1

mutual
theorem serGB_sound (V : Nat → ValueS) :
    ∀ (g : GraphT) (od : List Nat), serGB V od g = true → SerG V od g
  | .mk i ins inits nodes outs, od, h => by
    simp only [serGB, Bool.and_eq_true, List.all_eq_true, Bool.not_eq_true', decide_eq_true_eq] at h
    obtain ⟨⟨⟨⟨⟨⟨⟨h1, h2⟩, h3⟩, h4⟩, h5⟩, h6⟩, h7⟩, h8⟩ := h
    simp only [SerG]
    refine ⟨fun v hv hm => ?_, namesUniqueB_sound V _ h2, h3, fun kv hkv => ?_, (nodupNamesB_iff _).mp h5,
      (nodupB_iff _).mp h6, fun v hv => ?_, serNsB_sound V nodes _ outs h8⟩
    · have := h1 v hv
      simp only [List.contains_eq_mem, decide_eq_false_iff_not] at this
      exact this hm
    · have := h4 kv hkv
      simp only [Bool.and_eq_true, beq_iff_eq, bne_iff_ne, ne_eq, Option.isSome_iff_ne_none] at this
      exact ⟨this.1.1, this.1.2, this.2⟩
    · have := h7 v hv
      simp only [Bool.and_eq_true, List.contains_eq_mem, decide_eq_true_eq] at this
      exact this
theorem serNsB_sound (V : Nat → ValueS) :
    ∀ (ns : List NodeT) (vis gouts : List Nat), serNsB V vis ns = true → SerNs V vis gouts ns
  | [], _, _, _ => by simp [SerNs]
  | n :: ns, vis, gouts, h => by
    simp only [serNsB, Bool.and_eq_true] at h
    simp only [SerNs]
    exact ⟨serNB_sound V n vis gouts h.1, serNsB_sound V ns vis gouts h.2⟩
theorem serNB_sound (V : Nat → ValueS) :
    ∀ (n : NodeT) (vis gouts : List Nat), serNB V vis n = true → SerN V vis gouts n
  | .mk _ _ ins outs subs, vis, gouts, h => by
    simp only [serNB, Bool.and_eq_true, List.all_eq_true] at h
    simp only [SerN]
    refine ⟨fun v hv => ?_, fun v hv => ?_, serGsB_sound V subs vis h.2⟩
    · have := h.1.1 (some v) hv
      simp only [Bool.and_eq_true, List.contains_eq_mem, decide_eq_true_eq] at this
      exact this
    · have := h.1.2 v hv
      simpa [Option.isSome_iff_ne_none] using this
theorem serGsB_sound (V : Nat → ValueS) :
    ∀ (gs : List GraphT) (vis : List Nat), serGsB V vis gs = true → SerGs V vis gs
  | [], _, _ => by simp [SerGs]
  | g :: gs, vis, h => by
    simp only [serGsB, Bool.and_eq_true] at h
    simp only [SerGs]
    exact ⟨serGB_sound V g vis h.1, serGsB_sound V gs vis h.2⟩
end

mutual
theorem infoGB_sound (V : Nat → ValueS) : ∀ (g : GraphT), infoGB V g = true → InfoG V g
  | .mk _ ins inits nodes outs, h => by
    simp only [infoGB, Bool.and_eq_true, List.all_eq_true] at h
    simp only [InfoG]
    refine ⟨fun kv hkv hni hno => ?_, infoNsB_sound V nodes h.2⟩
    have := h.1 kv hkv
    simp only [Bool.or_eq_true, Bool.and_eq_true, List.contains_eq_mem, decide_eq_true_eq,
      Option.isSome_iff_ne_none] at this
    rcases this with (h1 | h1) | h1
    · exact absurd h1 hni
    · exact absurd h1 hno
    · exact h1
theorem infoNsB_sound (V : Nat → ValueS) : ∀ (ns : List NodeT), infoNsB V ns = true → InfoNs V ns
  | [], _ => by simp [InfoNs]
  | n :: ns, h => by
    simp only [infoNsB, Bool.and_eq_true] at h
    simp only [InfoNs]
    exact ⟨infoNB_sound V n h.1, infoNsB_sound V ns h.2⟩
theorem infoNB_sound (V : Nat → ValueS) : ∀ (n : NodeT), infoNB V n = true → InfoN V n
  | .mk _ _ _ outs subs, h => by
    simp only [infoNB, Bool.and_eq_true, List.all_eq_true] at h
    simp only [InfoN]
    refine ⟨fun v hv hf => ?_, infoGsB_sound V subs h.2⟩
    have := h.1 v hv
    simp only [Bool.or_eq_true, Bool.and_eq_true, Option.isNone_iff_eq_none] at this
    rcases this with h1 | h1
    · exact absurd h1 hf
    · exact h1
theorem infoGsB_sound (V : Nat → ValueS) : ∀ (gs : List GraphT), infoGsB V gs = true → InfoGs V gs
  | [], _ => by simp [InfoGs]
  | g :: gs, h => by
    simp only [infoGsB, Bool.and_eq_true] at h
    simp only [InfoGs]
    exact ⟨infoGB_sound V g h.1, infoGsB_sound V gs h.2⟩
end

/-- what the driver evaluates implies the hypothesis of `C03_roundtrip` -/
theorem serializableB_sound (w : World) (h : serializableB w = true) : Serializable w := by
  simp only [serializableB, Bool.and_eq_true] at h
  exact ⟨(nodupB_iff _).mp h.1.1, serGB_sound _ _ _ h.1.2, infoGB_sound _ _ h.2⟩

end IrVerif.Scope

/-
C16 (deepening): the Unicode-parametric tokenizer instantiated with the ASCII classification is
the ASCII tokenizer.
-/
import IrVerif.Model.SymLexU
import IrVerif.Lemmas.SymExprToken
namespace IrVerif.SymExpr

theorem alpha_identStart {c : Char} (h : isAlpha c = true) : identStart c = true := by
  simp [identStart, h]

theorem asciiClass_isSpace (c : Char) : (asciiClass c).isSpace = isSpace c := by
  unfold asciiClass
  by_cases hs : isSpace c = true
  · simp [hs, CClass.isSpace]
  · by_cases hd : isDigit c = true
    · simp [hs, hd, CClass.isSpace]
    · by_cases ha : isAlpha c = true <;> simp [hs, hd, ha, CClass.isSpace]

theorem asciiClass_isDigit (c : Char) : (asciiClass c).isDigit = isDigit c := by
  unfold asciiClass
  by_cases hd : isDigit c = true
  · have hs := digit_notSpace hd
    simp [hs, hd, CClass.isDigit]
  · by_cases hs : isSpace c = true
    · simp [hs, hd, CClass.isDigit]
    · by_cases ha : isAlpha c = true <;> simp [hs, hd, ha, CClass.isDigit]

theorem asciiClass_isAlpha (c : Char) : (asciiClass c).isAlpha = isAlpha c := by
  unfold asciiClass
  by_cases ha : isAlpha c = true
  · have hs := identStart_notSpace (alpha_identStart ha)
    have hd := identStart_notDigit (alpha_identStart ha)
    simp [hs, hd, ha, CClass.isAlpha]
  · by_cases hs : isSpace c = true
    · simp [hs, ha, CClass.isAlpha]
    · by_cases hd : isDigit c = true <;> simp [hs, hd, ha, CClass.isAlpha]

theorem asciiClass_isAlnum (c : Char) : (asciiClass c).isAlnum = isAlnum c := by
  unfold asciiClass isAlnum
  by_cases ha : isAlpha c = true
  · have hs := identStart_notSpace (alpha_identStart ha)
    have hd := identStart_notDigit (alpha_identStart ha)
    simp [hs, hd, ha, CClass.isAlnum]
  · by_cases hd : isDigit c = true
    · have hs := digit_notSpace hd
      simp [hs, hd, ha, CClass.isAlnum]
    · by_cases hs : isSpace c = true <;> simp [hs, hd, ha, CClass.isAlnum]

theorem asciiClass_digit {c : Char} (h : isDigit c = true) : asciiClass c = .digit (some (digitVal c)) := by
  unfold asciiClass
  simp [digit_notSpace h, h]

theorem asciiClass_notDigit {c : Char} (h : isDigit c = false) : ∀ v, asciiClass c ≠ .digit v := by
  intro v hv
  have := asciiClass_isDigit c
  rw [hv, h] at this
  simp [CClass.isDigit] at this

theorem takeDigitsK_ascii : ∀ (cs : List Char) (acc : Nat),
    takeDigitsK asciiClass (some acc) cs = ((some (takeDigits acc cs).1), (takeDigits acc cs).2)
  | [], acc => rfl
  | c :: cs, acc => by
    by_cases hd : isDigit c = true
    · simp only [takeDigitsK, asciiClass_digit hd, takeDigits, hd, if_true]
      exact takeDigitsK_ascii cs _
    · have hd' : isDigit c = false := by simpa using hd
      simp only [takeDigits, hd', Bool.false_eq_true, if_false]
      unfold takeDigitsK
      split
      · next v hv => exact absurd hv (asciiClass_notDigit hd' v)
      · rfl

theorem takeIdentK_ascii : ∀ (cs acc : List Char), takeIdentK asciiClass acc cs = takeIdent acc cs
  | [], acc => rfl
  | c :: cs, acc => by
    simp only [takeIdentK, takeIdent, identCont, asciiClass_isAlnum]
    by_cases h : (isAlnum c || c == '_' || c == '.') = true
    · simp only [h, if_true]; exact takeIdentK_ascii cs _
    · simp only [h, if_false]; rfl

theorem tokenizeAuxK_ascii : ∀ (f : Nat) (cs : List Char), tokenizeAuxK asciiClass f cs = tokenizeAux f cs
  | 0, _ => rfl
  | _ + 1, [] => rfl
  | f + 1, c :: cs => by
    simp only [tokenizeAuxK, tokenizeAux, asciiClass_isSpace, asciiClass_isDigit, asciiClass_isAlpha,
      identStart]
    by_cases hs : isSpace c = true
    · simp only [hs, if_true]; exact tokenizeAuxK_ascii f cs
    · simp only [hs, Bool.false_eq_true, if_false]
      by_cases hd : isDigit c = true
      · simp only [hd, if_true, takeDigitsK_ascii (c :: cs) 0]
        rw [tokenizeAuxK_ascii f]
      · simp only [hd, Bool.false_eq_true, if_false]
        by_cases hi : (isAlpha c || c == '_') = true
        · simp only [hi, if_true, takeIdentK_ascii]
          rw [tokenizeAuxK_ascii f]
        · simp only [hi, Bool.false_eq_true, if_false]
          split <;> simp only [tokenizeAuxK_ascii f]

theorem tokenizeK_ascii (cs : List Char) : tokenizeK asciiClass cs = tokenize cs :=
  tokenizeAuxK_ascii _ cs

end IrVerif.SymExpr

import IrVerif.Lemmas.SerdeScope
/-! C02 (E4, several graph output entries with one name): the ordered-dict facts behind "applying the
entries of one name one after the other = applying their union once": `dict.update` is idempotent and
associative (CPython dicts: assignment keeps the position of a key, new keys are appended). -/
namespace IrVerif.Serde
open IrVerif.Proto

theorem dictGet_cons (x : String × String) (d : Dict) (k : String) :
    dictGet (x :: d) k = if x.1 = k then some x.2 else dictGet d k := by
  simp only [dictGet, List.find?_cons]
  by_cases h : x.1 = k <;> simp [h]

theorem dictGet_dictSet_self (d : Dict) (k v : String) : dictGet (dictSet d k v) k = some v := by
  induction d with
  | nil => simp [dictSet, dictGet_cons]
  | cons x xs ih =>
    obtain ⟨k', v'⟩ := x
    by_cases h : k' = k
    · simp [dictSet, h, dictGet_cons]
    · simp [dictSet, h, dictGet_cons, ih]

theorem dictGet_dictSet_ne (d : Dict) {k k' : String} (v : String) (h : k' ≠ k) :
    dictGet (dictSet d k v) k' = dictGet d k' := by
  induction d with
  | nil =>
    have : ¬ k = k' := fun e => h e.symm
    simp [dictSet, dictGet_cons, this, dictGet]
  | cons x xs ih =>
    obtain ⟨a, b⟩ := x
    by_cases ha : a = k
    · subst ha
      have : ¬ a = k' := fun e => h e.symm
      simp [dictSet, dictGet_cons, this]
    · simp only [dictSet, ha, if_false, dictGet_cons, ih]

theorem dictSet_of_get {d : Dict} {k v : String} (h : dictGet d k = some v) : dictSet d k v = d := by
  induction d with
  | nil => simp [dictGet] at h
  | cons x xs ih =>
    obtain ⟨a, b⟩ := x
    rw [dictGet_cons] at h
    by_cases ha : a = k
    · simp only [ha, if_true, Option.some.injEq] at h
      simp [dictSet, ha, h]
    · simp only [ha, if_false] at h
      simp [dictSet, ha, ih h]

theorem dictUpdate_of_get : ∀ (u d : Dict), (∀ x ∈ u, dictGet d x.1 = some x.2) → dictUpdate d u = d
  | [], _, _ => rfl
  | (k, v) :: u, d, h => by
    simp only [dictUpdate]
    rw [dictSet_of_get (h (k, v) (by simp))]
    exact dictUpdate_of_get u d (fun x hx => h x (List.mem_cons_of_mem _ hx))

theorem dictGet_dictUpdate_not_mem : ∀ (u d : Dict) (k : String), k ∉ dkeys u →
    dictGet (dictUpdate d u) k = dictGet d k
  | [], _, _, _ => rfl
  | (k1, v1) :: u, d, k, h => by
    simp only [dkeys, List.map_cons, List.mem_cons, not_or] at h
    simp only [dictUpdate]
    rw [dictGet_dictUpdate_not_mem u _ k (by simpa [dkeys] using h.2), dictGet_dictSet_ne _ _ h.1]

theorem dictGet_dictUpdate_of_mem : ∀ (u d : Dict), (dkeys u).Nodup → ∀ x ∈ u,
    dictGet (dictUpdate d u) x.1 = some x.2
  | [], _, _, _, hx => by cases hx
  | (k, v) :: u, d, hnd, x, hx => by
    simp only [dkeys, List.map_cons, List.nodup_cons] at hnd
    simp only [dictUpdate]
    rcases List.mem_cons.1 hx with rfl | hx
    · rw [dictGet_dictUpdate_not_mem u _ k (by simpa [dkeys] using hnd.1), dictGet_dictSet_self]
    · exact dictGet_dictUpdate_of_mem u _ (by simpa [dkeys] using hnd.2) x hx

/-- `d.update(u); d.update(u)` = `d.update(u)` -/
theorem dictUpdate_idem (d u : Dict) (h : (dkeys u).Nodup) :
    dictUpdate (dictUpdate d u) u = dictUpdate d u :=
  dictUpdate_of_get u _ (dictGet_dictUpdate_of_mem u d h)

theorem dictSet_dictSet_same (d : Dict) (k v v' : String) :
    dictSet (dictSet d k v') k v = dictSet d k v := by
  induction d with
  | nil => simp [dictSet]
  | cons x xs ih =>
    obtain ⟨a, b⟩ := x
    by_cases ha : a = k
    · simp [dictSet, ha]
    · simp [dictSet, ha, ih]

theorem mem_dkeys_dictSet {d : Dict} {k k1 v1 : String} (h : k ∈ dkeys d) : k ∈ dkeys (dictSet d k1 v1) := by
  rw [dkeys_dictSet]
  split
  · exact h
  · exact List.mem_append_left _ h

/-- assignments to different keys commute when the second key is already present -/
theorem dictSet_comm {d : Dict} {k k1 : String} (v v1 : String) (hne : k ≠ k1) (hk : k ∈ dkeys d) :
    dictSet (dictSet d k1 v1) k v = dictSet (dictSet d k v) k1 v1 := by
  induction d with
  | nil => simp [dkeys] at hk
  | cons x xs ih =>
    obtain ⟨a, b⟩ := x
    by_cases ha : a = k
    · subst ha
      have h1 : ¬ a = k1 := hne
      simp [dictSet, h1]
    · have hk' : k ∈ dkeys xs := by
        simp only [dkeys, List.map_cons, List.mem_cons] at hk
        rcases hk with e | hk
        · exact absurd e.symm ha
        · exact hk
      by_cases ha1 : a = k1
      · subst ha1
        simp [dictSet, ha]
      · simp [dictSet, ha, ha1, ih hk']

theorem dictSet_dictUpdate_comm : ∀ (u e : Dict) (k v : String), k ∉ dkeys u → k ∈ dkeys e →
    dictSet (dictUpdate e u) k v = dictUpdate (dictSet e k v) u
  | [], _, _, _, _, _ => rfl
  | (k1, v1) :: u, e, k, v, hk, hke => by
    simp only [dkeys, List.map_cons, List.mem_cons, not_or] at hk
    simp only [dictUpdate]
    rw [dictSet_dictUpdate_comm u _ k v (by simpa [dkeys] using hk.2) (mem_dkeys_dictSet hke),
      dictSet_comm v v1 hk.1 hke]

theorem dictUpdate_dictSet : ∀ (A d : Dict) (k v : String), (dkeys A).Nodup →
    dictUpdate d (dictSet A k v) = dictSet (dictUpdate d A) k v
  | [], _, _, _, _ => rfl
  | (k', v') :: A, d, k, v, hnd => by
    simp only [dkeys, List.map_cons, List.nodup_cons] at hnd
    by_cases hk : k' = k
    · subst hk
      simp only [dictSet, if_true, dictUpdate]
      rw [dictSet_dictUpdate_comm A _ k' v (by simpa [dkeys] using hnd.1)
        (by rw [dkeys_dictSet]; split <;> simp_all), dictSet_dictSet_same]
    · simp only [dictSet, hk, if_false, dictUpdate]
      exact dictUpdate_dictSet A _ k v (by simpa [dkeys] using hnd.2)

/-- `d.update(A); d.update(B)` = `A.update(B); d.update(A)` -/
theorem dictUpdate_assoc : ∀ (B A d : Dict), (dkeys A).Nodup →
    dictUpdate (dictUpdate d A) B = dictUpdate d (dictUpdate A B)
  | [], _, _, _ => rfl
  | (k, v) :: B, A, d, hnd => by
    simp only [dictUpdate]
    rw [← dictUpdate_dictSet A d k v hnd]
    exact dictUpdate_assoc B _ d (nodup_dkeys_dictSet hnd k v)

/-! ### `deserialize_value_info_proto` applied repeatedly -/

theorem applyInfoT_idem (v : IRValue) (vi : ValueInfoP) :
    applyInfoT (applyInfoT v vi) vi = applyInfoT v vi := by
  simp only [applyInfoT, dictUpdate_idem _ _ (nodup_dkeys_dictOfEntries _)]

theorem foldl_applyInfoT_name (l : List ValueInfoP) (v : IRValue) :
    (l.foldl applyInfoT v).name = v.name := by
  induction l generalizing v with
  | nil => rfl
  | cons x xs ih => simp only [List.foldl_cons, ih, applyInfoT_name]

theorem foldl_applyInfoT_replicate (vi : ValueInfoP) : ∀ (k : Nat) (v : IRValue),
    (List.replicate (k + 1) vi).foldl applyInfoT v = applyInfoT v vi
  | 0, _ => rfl
  | k + 1, v => by
    rw [List.replicate_succ, List.foldl_cons, foldl_applyInfoT_replicate vi k, applyInfoT_idem]

end IrVerif.Serde

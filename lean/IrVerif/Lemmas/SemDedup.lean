/-
Lemmas/SemDedup.lean — DeduplicateInitializersPass model (`dedupG`) preserves the denotation (the
deduplication key is the tensor).
-/
import IrVerif.Lemmas.SemIdentity
namespace IrVerif.Passes
open IrVerif.Sem
variable {Val : Type}

theorem dedupInits_spec (limit : Nat) (io : List VId) :
    ∀ (inits : List (VId × Tensor)) (seen : List (DedupKey × VId)) (E : List (VId × Tensor)),
    (∀ key k, seen.lookup key = some k → ∃ tk, (k, tk) ∈ E ∧ dedupKey tk = key) →
    List.Sublist (dedupInits limit io seen inits).1 inits ∧
    (∀ v k, (dedupInits limit io seen inits).2.lookup v = some k →
      v ∉ io ∧ ∃ t tk, (v, t) ∈ inits ∧ (k, tk) ∈ E ++ (dedupInits limit io seen inits).1 ∧
        dedupKey t = dedupKey tk) ∧
    (∀ v t, (v, t) ∈ inits → (dedupInits limit io seen inits).2.lookup v = none →
      (v, t) ∈ (dedupInits limit io seen inits).1)
  | [], _, _, _ => by simp [dedupInits]
  | (v0, t0) :: rest, seen, E, hseen => by
    simp only [dedupInits]
    split
    · -- skipped
      obtain ⟨h1, h2, h3⟩ := dedupInits_spec limit io rest seen E hseen
      refine ⟨List.Sublist.cons_cons _ h1, ?_, ?_⟩
      · intro v k h
        obtain ⟨hio, t, tk, ha, hb, hc⟩ := h2 v k h
        refine ⟨hio, t, tk, List.mem_cons_of_mem _ ha, ?_, hc⟩
        rcases List.mem_append.1 hb with hb | hb
        · exact List.mem_append_left _ hb
        · exact List.mem_append_right _ (List.mem_cons_of_mem _ hb)
      · intro v t hm hl
        rcases List.mem_cons.1 hm with hm | hm
        · rw [hm]; exact List.mem_cons_self
        · exact List.mem_cons_of_mem _ (h3 v t hm hl)
    · rename_i hskip
      split
      · -- duplicate of `k`
        rename_i k hk
        obtain ⟨h1, h2, h3⟩ := dedupInits_spec limit io rest seen E hseen
        refine ⟨List.Sublist.cons _ h1, ?_, ?_⟩
        · intro v k' h
          by_cases hv : v = v0
          · subst hv
            simp only [List.lookup_cons, beq_self_eq_true, Option.some.injEq] at h
            subst h
            obtain ⟨tk, hE, hkey⟩ := hseen _ k hk
            simp only [Bool.or_eq_true, List.contains_iff_mem, decide_eq_true_eq, not_or] at hskip
            exact ⟨hskip.1, t0, tk, List.mem_cons_self, List.mem_append_left _ hE, hkey.symm⟩
          · rw [lookup_cons_ne' hv] at h
            obtain ⟨hio, t, tk, ha, hb, hc⟩ := h2 v k' h
            exact ⟨hio, t, tk, List.mem_cons_of_mem _ ha, hb, hc⟩
        · intro v t hm hl
          by_cases hv : v = v0
          · subst hv; simp [List.lookup_cons] at hl
          · rw [lookup_cons_ne' hv] at hl
            rcases List.mem_cons.1 hm with hm | hm
            · exact absurd (by rw [Prod.mk.injEq] at hm; exact hm.1) hv
            · exact h3 v t hm hl
      · -- first tensor with this key
        rename_i hk
        have hseen' : ∀ key k, List.lookup key ((dedupKey t0, v0) :: seen) = some k →
            ∃ tk, (k, tk) ∈ E ++ [(v0, t0)] ∧ dedupKey tk = key := by
          intro key k h
          by_cases hkey : key = dedupKey t0
          · subst hkey
            simp only [List.lookup_cons, beq_self_eq_true, Option.some.injEq] at h
            subst h
            exact ⟨t0, by simp, rfl⟩
          · have : (key == dedupKey t0) = false := by simpa using hkey
            simp only [List.lookup_cons, this] at h
            obtain ⟨tk, hE, hkk⟩ := hseen key k h
            exact ⟨tk, List.mem_append_left _ hE, hkk⟩
        obtain ⟨h1, h2, h3⟩ := dedupInits_spec limit io rest ((dedupKey t0, v0) :: seen) (E ++ [(v0, t0)]) hseen'
        refine ⟨List.Sublist.cons_cons _ h1, ?_, ?_⟩
        · intro v k h
          obtain ⟨hio, t, tk, ha, hb, hc⟩ := h2 v k h
          exact ⟨hio, t, tk, List.mem_cons_of_mem _ ha, by simpa [List.append_assoc] using hb, hc⟩
        · intro v t hm hl
          rcases List.mem_cons.1 hm with hm | hm
          · rw [hm]; exact List.mem_cons_self
          · exact List.mem_cons_of_mem _ (h3 v t hm hl)

theorem dedupInits_mem (limit : Nat) (io : List VId) :
    ∀ (inits : List (VId × Tensor)) (seen : List (DedupKey × VId)) (S : List VId),
    (∀ key k, seen.lookup key = some k → k ∈ S) →
    ∀ p ∈ (dedupInits limit io seen inits).2,
      p.1 ∈ inits.map Prod.fst ∧ (p.2 ∈ S ∨ p.2 ∈ inits.map Prod.fst)
  | [], _, _, _, p, hp => by simp [dedupInits] at hp
  | (v0, t0) :: rest, seen, S, hseen, p, hp => by
    simp only [dedupInits] at hp
    simp only [List.map_cons, List.mem_cons]
    split at hp
    · obtain ⟨h1, h2⟩ := dedupInits_mem limit io rest seen S hseen p hp
      exact ⟨Or.inr h1, h2.imp id Or.inr⟩
    · split at hp
      · rename_i k hk
        rcases List.mem_cons.1 hp with hp | hp
        · subst hp
          exact ⟨Or.inl rfl, Or.inl (hseen _ k hk)⟩
        · obtain ⟨h1, h2⟩ := dedupInits_mem limit io rest seen S hseen p hp
          exact ⟨Or.inr h1, h2.imp id Or.inr⟩
      · have hseen' : ∀ key k, List.lookup key ((dedupKey t0, v0) :: seen) = some k → k ∈ v0 :: S := by
          intro key k h
          by_cases hkey : key = dedupKey t0
          · subst hkey
            simp only [List.lookup_cons, beq_self_eq_true, Option.some.injEq] at h
            subst h; simp
          · have : (key == dedupKey t0) = false := by simpa using hkey
            simp only [List.lookup_cons, this] at h
            exact List.mem_cons_of_mem _ (hseen key k h)
        obtain ⟨h1, h2⟩ := dedupInits_mem limit io rest ((dedupKey t0, v0) :: seen) (v0 :: S) hseen' p hp
        refine ⟨Or.inr h1, ?_⟩
        rcases h2 with h2 | h2
        · rcases List.mem_cons.1 h2 with h2 | h2
          · exact Or.inr (Or.inl h2)
          · exact Or.inl h2
        · exact Or.inr (Or.inr h2)

theorem eq_of_nodup_map_fst : ∀ {l : List (VId × Tensor)}, (l.map Prod.fst).Nodup →
    ∀ {a b : VId × Tensor}, a ∈ l → b ∈ l → a.1 = b.1 → a = b
  | [], _, _, _, ha, _, _ => by simp at ha
  | c :: l, hnd, a, b, ha, hb, h => by
    simp only [List.map_cons, List.nodup_cons, List.mem_map, not_exists, not_and] at hnd
    rcases List.mem_cons.1 ha with ha' | ha' <;> rcases List.mem_cons.1 hb with hb' | hb'
    · rw [ha', hb']
    · rw [ha'] at h; exact absurd h.symm (hnd.1 b hb')
    · rw [hb'] at h; exact absurd h (hnd.1 a ha')
    · exact eq_of_nodup_map_fst hnd.2 ha' hb' h

theorem dedup_rel_inits (I : Interp Val) (limit : Nat) (io : List VId) (inits : List (VId × Tensor))
    (σ : Subst) (ρ ρ' : Env Val) (hrel : Rel σ ρ ρ') (hok : SubstOK σ (inits.map Prod.fst))
    (hnd : (inits.map Prod.fst).Nodup)
    (hfaith : ∀ p ∈ inits, ∀ q ∈ inits, dedupKey p.2 = dedupKey q.2 → p.2 = q.2) :
    Rel ((dedupInits limit io [] inits).2 ++ σ) (bindInits I ρ inits)
      (bindInits I ρ' (dedupInits limit io [] inits).1) := by
  obtain ⟨hsub, hb, hc⟩ := dedupInits_spec limit io inits [] [] (fun key k h => by simp at h)
  have hnd1 : ((dedupInits limit io [] inits).1.map Prod.fst).Nodup := (hsub.map Prod.fst).nodup hnd
  have hmem1 : ∀ p ∈ (dedupInits limit io [] inits).1, p ∈ inits := fun p hp => hsub.subset hp
  intro v
  rw [Subst.app_append']
  simp only [bindInits]
  by_cases hv : v ∈ inits.map Prod.fst
  · obtain ⟨p, hp, rfl⟩ := List.mem_map.1 hv
    rw [Env.bind_map_of_mem ρ Prod.fst (fun p => some (I.tv p.2)) _ p hnd hp]
    cases hl : (dedupInits limit io [] inits).2.lookup p.1 with
    | some k =>
      simp only
      obtain ⟨_, t, tk, ha, hbm, hkey⟩ := hb p.1 k hl
      simp only [List.nil_append] at hbm
      have ht : t = p.2 := by
        have := eq_of_nodup_map_fst hnd ha hp rfl
        rw [← this]
      subst ht
      have := hfaith p hp (k, tk) (hmem1 _ hbm) hkey
      rw [Env.bind_map_of_mem ρ' Prod.fst (fun p => some (I.tv p.2)) _ (k, tk) hnd1 hbm]
      simp only at this ⊢
      rw [this]
    | none =>
      simp only
      have hin := hc p.1 p.2 hp hl
      rw [hok.app_of_mem hv]
      exact (Env.bind_map_of_mem ρ' Prod.fst (fun p => some (I.tv p.2)) _ p hnd1 hin).symm
  · rw [Env.bind_of_not_mem _ _ hv]
    have hl : (dedupInits limit io [] inits).2.lookup v = none := by
      cases hl : (dedupInits limit io [] inits).2.lookup v with
      | none => rfl
      | some k =>
        obtain ⟨_, t, tk, ha, _, _⟩ := hb v k hl
        exact absurd (List.mem_map.2 ⟨(v, t), ha, rfl⟩) hv
    rw [hl]
    simp only
    have : σ.app v ∉ (dedupInits limit io [] inits).1.map Prod.fst := fun h =>
      hok.app_not_mem hv ((hsub.map Prod.fst).subset h)
    rw [Env.bind_of_not_mem _ _ this]
    exact hrel v

mutual
theorem dedupG_sound (I : Interp Val) (limit : Nat) : ∀ (g : Graph) (σ : Subst) (ρ ρ' : Env Val),
    Rel σ ρ ρ' → SubstOK σ (defsG g) → ssaG g = true → closedG g = true →
    evalG I g ρ = evalG I (dedupG limit σ g) ρ'
  | .mk inputs outputs inits nodes, σ, ρ, ρ', hrel, hok, hs, hc => by
    funext xs
    simp only [ssaG, Bool.and_eq_true, nodupB_iff, disj_iff] at hs
    simp only [closedG, Bool.and_eq_true, List.all_eq_true] at hc
    obtain ⟨⟨⟨_, hndt⟩, hdisj⟩, hsn⟩ := hs
    obtain ⟨hsub, hb, hcc⟩ := dedupInits_spec limit (inputs ++ outputs) inits [] []
      (fun key k h => by simp at h)
    have hidsub : ∀ v ∈ (dedupInits limit (inputs ++ outputs) [] inits).1.map Prod.fst,
        v ∈ inits.map Prod.fst := fun v hv => (hsub.map Prod.fst).subset hv
    have hokI : SubstOK σ (inits.map Prod.fst) :=
      hok.mono (fun v hv => by simp only [defsG, List.mem_append]; exact Or.inl (Or.inr hv))
    have hfaith : ∀ p ∈ inits, ∀ q ∈ inits, dedupKey p.2 = dedupKey q.2 → p.2 = q.2 := by
      intro p _ q _ hk
      obtain ⟨_, t1⟩ := p
      obtain ⟨_, t2⟩ := q
      cases t1; cases t2
      simp only [dedupKey, Prod.mk.injEq] at hk
      simp only [Tensor.mk.injEq]
      exact ⟨hk.1, hk.2.1, hk.2.2.1, hk.2.2.2⟩
    have hrel0 := dedup_rel_inits I limit (inputs ++ outputs) inits σ ρ ρ' hrel hokI hndt hfaith
    -- domain and range of the new replacements are initializer ids
    have hpairs : ∀ p ∈ (dedupInits limit (inputs ++ outputs) [] inits).2,
        p.1 ∈ inits.map Prod.fst ∧ p.2 ∈ inits.map Prod.fst := by
      intro p hp
      obtain ⟨h1, h2⟩ := dedupInits_mem limit (inputs ++ outputs) inits [] [] (fun key k h => by simp at h) p hp
      exact ⟨h1, h2.elim (fun h => by simp at h) id⟩
    have hlookup_io : ∀ v, v ∈ inputs ++ outputs →
        (dedupInits limit (inputs ++ outputs) [] inits).2.lookup v = none := by
      intro v hv
      cases hl : (dedupInits limit (inputs ++ outputs) [] inits).2.lookup v with
      | none => rfl
      | some k => exact absurd hv (hb v k hl).1
    simp only [dedupG, evalG]
    have hfree : inputs.filter (fun v => !((dedupInits limit (inputs ++ outputs) [] inits).1.map Prod.fst).contains v)
        = inputs.filter (fun v => !(inits.map Prod.fst).contains v) := by
      apply List.filter_congr
      intro v hv
      congr 1
      rw [Bool.eq_iff_iff]
      simp only [List.contains_iff_mem]
      constructor
      · exact hidsub v
      · intro h
        obtain ⟨q, hq, rfl⟩ := List.mem_map.1 h
        exact List.mem_map.2 ⟨q, hcc q.1 q.2 hq (hlookup_io _ (List.mem_append_left _ hv)), rfl⟩
    rw [hfree]
    have hok' : ∀ D : List VId, (∀ v ∈ D, v ∉ inits.map Prod.fst) → SubstOK σ D →
        SubstOK ((dedupInits limit (inputs ++ outputs) [] inits).2 ++ σ) D := by
      intro D hD hσ p hp
      rcases List.mem_append.1 hp with hp | hp
      · exact ⟨fun h => hD _ h (hpairs p hp).1, fun h => hD _ h (hpairs p hp).2⟩
      · exact hσ p hp
    have hrel1 := Rel.bind hrel0 (hok' (inputs.filter (fun v => !(inits.map Prod.fst).contains v))
      (fun v hv => by simpa using (List.mem_filter.1 hv).2)
      (hok.mono (fun v hv => by
        simp only [defsG, List.mem_append]; exact Or.inl (Or.inl (List.mem_filter.1 hv).1)))) (xs.map some)
    have key := dedupNodes_sound I limit nodes _ _ _ hrel1
      (hok' (defsNodes nodes) (fun v hv h => hdisj v (by simp [h]) hv)
        (hok.mono (fun v hv => by simp only [defsG, List.mem_append]; exact Or.inr hv)))
      hsn hc.2
    apply List.map_congr_left
    intro o ho
    have ho' : Subst.app ((dedupInits limit (inputs ++ outputs) [] inits).2 ++ σ) o = o := by
      rw [Subst.app_append', hlookup_io o (List.mem_append_right _ ho)]
      refine hok.app_of_mem ?_
      have := hc.1 o ho
      exact mem_topDefs_defsG (.mk inputs outputs inits nodes)
        (by simpa [topDefs, Graph.inputs, Graph.inits, Graph.nodes] using this)
    have := key o
    rw [ho'] at this
    exact this
theorem dedupNodes_sound (I : Interp Val) (limit : Nat) : ∀ (ns : List Node) (σ : Subst) (ρ ρ' : Env Val),
    Rel σ ρ ρ' → SubstOK σ (defsNodes ns) → ssaNodes ns = true → closedNodes ns = true →
    Rel σ (evalNodes I ns ρ) (evalNodes I (dedupNodes limit σ ns) ρ')
  | [], _, _, _, hrel, _, _, _ => by simpa [dedupNodes, evalNodes] using hrel
  | .mk op attrs ins outs bodies :: ns, σ, ρ, ρ', hrel, hok, hs, hc => by
    simp only [ssaNodes, ssaN, Bool.and_eq_true] at hs
    simp only [closedNodes, closedN, Bool.and_eq_true] at hc
    simp only [dedupNodes, evalNodes]
    refine dedupNodes_sound I limit ns σ _ _ ?_
      (hok.mono (fun v hv => by simp only [defsNodes, List.mem_append]; exact Or.inr hv)) hs.2 hc.2
    simp only [evalN]
    rw [hrel.args ins, dedupBodies_sound I limit bodies σ ρ ρ' hrel
      (hok.mono (fun v hv => by simp only [defsNodes, defsN, List.mem_append]; exact Or.inl (Or.inr hv)))
      hs.1.1.2 hc.1]
    exact Rel.bind hrel (hok.mono (fun v hv => mem_defsNodes_of_mem_outs hv)) _
theorem dedupBodies_sound (I : Interp Val) (limit : Nat) : ∀ (bs : List Graph) (σ : Subst) (ρ ρ' : Env Val),
    Rel σ ρ ρ' → SubstOK σ (defsBodies bs) → ssaBodies bs = true → closedBodies bs = true →
    evalBodies I bs ρ = evalBodies I (dedupBodies limit σ bs) ρ'
  | [], _, _, _, _, _, _, _ => by simp [dedupBodies, evalBodies]
  | b :: bs, σ, ρ, ρ', hrel, hok, hs, hc => by
    simp only [ssaBodies, Bool.and_eq_true] at hs
    simp only [closedBodies, Bool.and_eq_true] at hc
    simp only [dedupBodies, evalBodies]
    rw [dedupG_sound I limit b σ ρ ρ' hrel
          (hok.mono (fun v hv => by simp only [defsBodies, List.mem_append]; exact Or.inl hv))
          hs.1.1 hc.1,
        dedupBodies_sound I limit bs σ ρ ρ' hrel
          (hok.mono (fun v hv => by simp only [defsBodies, List.mem_append]; exact Or.inr hv))
          hs.2 hc.2]
end

end IrVerif.Passes

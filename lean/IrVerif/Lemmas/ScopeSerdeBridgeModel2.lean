import IrVerif.Lemmas.ScopeSerdeBridgeModel
/-!
The C02 bridge for models with functions (IR version >= 10), part 2: serialization
(`C03_bridge_serialize_model`).
-/
namespace IrVerif.Bridge
open IrVerif.Proto IrVerif.Serde

theorem showsAt_of_cells {st : Scope.Store} {cs : List Cell}
    (h : (List.range st.nv).map (cellAt st) = cs) : ShowsAt st 0 cs := by
  intro j hj
  subst h
  simp only [List.length_map, List.length_range] at hj
  simp [List.getD, hj]

theorem nodeOutVIs_nil (tbl : List IRValue) : ∀ os : List (Option Nat),
    nodeOutVIs tbl [] os = valuesVI tbl true (optNats os)
  | [] => rfl
  | none :: os => by simp [nodeOutVIs, optNats, nodeOutVIs_nil tbl os]
  | some j :: os => by simp [nodeOutVIs, optNats, valuesVI, nodeOutVIs_nil tbl os]

/-- `serialize_function_into`: inputs -/
theorem serFInputs_sees (st : Scope.Store) (tbl : List IRValue) (k : Nat)
    (hs : ∀ i, i < tbl.length → cellAt st (k + i) = absCell (tbl.getD i (IRValue.blank "")))
    (hok : ∀ v ∈ tbl, (valOK v && tensOK v) = true) :
    ∀ is : List Nat, (∀ i ∈ is, i < tbl.length) →
    Scope.serFInputs st.vals (is.map (k + ·))
      = .ok (is.map (fun i => refName [tableNames tbl] ⟨0, i⟩), (valuesVI tbl true is).map absVI)
  | [], _ => rfl
  | i :: is, h => by
    have ih := serFInputs_sees st tbl k hs hok is (fun j hj => h j (List.mem_cons_of_mem _ hj))
    have hi := h i (by simp)
    have hmem : tbl.getD i (IRValue.blank "") ∈ tbl := by
      simp [List.getD, List.getElem?_eq_getElem hi]
    have hvo := hok _ hmem
    have hcell := hs i hi
    simp only [List.map_cons, Scope.serFInputs, ih, valuesVI, refName_tbl]
    generalize tbl.getD i (IRValue.blank "") = v at hvo hcell ⊢
    simp only [Bool.and_eq_true] at hvo
    obtain ⟨f1, f2, _⟩ := cell_fields hcell
    rw [shouldCreate_of_valOK hvo.1 (st.vals (k + i)) f1 f2]
    simp only [f1, f2]
    by_cases hsv : shouldCreateVI v = true
    · simp [hsv, absVI_serValue hvo.1, absSV]
    · simp [hsv]

/-- `serialize_function_into`: outputs -/
theorem fouts_names (st : Scope.Store) (tbl : List IRValue) (k : Nat)
    (hs : ∀ i, i < tbl.length → cellAt st (k + i) = absCell (tbl.getD i (IRValue.blank ""))) :
    ∀ (os : List IRGOut) (K : Nat), os.all isTbl = true → os.all (goutOK tbl.length) = true →
    (absGOutsB k K os).map (fun v => (st.vals v).name)
      = ((outIdxs os).map (fun i => refName [tableNames tbl] ⟨0, i⟩)).map some
  | [], _, _, _ => rfl
  | .tbl i :: os, K, h1, h2 => by
    simp only [List.all_cons, Bool.and_eq_true, goutOK, decide_eq_true_eq] at h1 h2
    obtain ⟨f1, _, _⟩ := cell_fields (hs i h2.1)
    simp [absGOutsB, outIdxs, fouts_names st tbl k hs os K h1.2 h2.2, f1, refName_tbl]
  | .dangling _ :: os, _, h1, _ => by simp [isTbl] at h1

/-- one function serialized from a store that shows its cells from `k` on -/
theorem func_ser (st : Scope.Store) (ver : Option Int) (f : IRFunction) (k nn ng : Nat) (q : FunctionP)
    (hok : okF f = true) (hsh : ShowsAt st k (cellsG f.graph))
    (hq : Serde.serFunction ver true f = .ok q) :
    ∃ ws, Scope.serFunction st.vals st.tdata (fidOf f, treeG [] k nn ng f.graph) = .ok (absF q, ws) := by
  obtain ⟨domain, name, overload, graph, attrs⟩ := f
  cases graph with
  | mk tbl inputs inits nodes outputs gname doc opsets mprops =>
  simp only [okF, okG, Bool.and_eq_true, IRGraph.outputs] at hok
  obtain ⟨⟨⟨⟨⟨hv, hin⟩, _⟩, hnodesOK⟩, hout⟩, htbl⟩ := hok
  have hv' : ∀ v ∈ tbl, (valOK v && tensOK v) = true := List.all_eq_true.1 hv
  have hin' : ∀ i ∈ inputs, i < tbl.length := fun i hi => of_decide_eq_true (List.all_eq_true.1 hin i hi)
  simp only [cellsG] at hsh
  have hsT := showsAt_left (showsAt_left hsh)
  have hsN := showsAt_right (showsAt_left hsh)
  simp only [List.length_map] at hsN
  have hs : ∀ i, i < tbl.length → cellAt st (k + i) = absCell (tbl.getD i (IRValue.blank "")) := by
    intro i hi
    rw [hsT i (by simpa using hi)]
    exact getD_map_absCell tbl i hi
  simp only [Serde.serFunction, bind, Except.bind, IRGraph.table, IRGraph.nodes, IRGraph.inputs,
    IRGraph.outputs] at hq
  split at hq
  · cases hq
  · rename_i aps _
    split at hq
    · cases hq
    · rename_i ns hns
      cases hq
      have ctx : GCtx st tbl [] [] [] k [] [] :=
        ⟨rfl, seesOuter_cons (seesOuter_nil st) tbl k hs, hs, hv', fun _ _ => rfl⟩
      obtain ⟨ws, hn⟩ := ser_nodes_br st ver nodes tbl [] [] [] k [] [] ctx hnodesOK tbl.length nn ng ns hsN hns
      simp only [List.map_nil] at hn
      have e1 := serFInputs_sees st tbl k hs hv' inputs hin'
      have e2 := serOutNames_of_names st.vals _ _
        (fouts_names st tbl k hs outputs (k + tbl.length + (cellsNodes nodes).length) htbl hout)
      refine ⟨ws, ?_⟩
      simp only [treeG, Scope.serFunction, e1, e2, serNodes_setGraph, hn, absF, fidOf, fidP, nodeOutVIs_nil,
        List.map_append]

/-- the function list -/
theorem funcs_ser (st : Scope.Store) (ver : Int) (hver : ver ≥ 10) : ∀ (fs : List IRFunction) (k nn ng : Nat)
      (qs : List FunctionP),
    fs.all okF = true → ShowsAt st k (cellsFs fs) → Serde.serFunctions ver fs = .ok qs →
    ∃ ws, Scope.serFuncs st.vals st.tdata (treeFs k nn ng fs) = .ok (qs.map absF, ws)
  | [], k, nn, ng, qs, _, _, hq => by
    simp only [Serde.serFunctions] at hq
    cases hq
    exact ⟨[], by simp [treeFs, Scope.serFuncs]⟩
  | f :: fs, k, nn, ng, qs, hok, hsh, hq => by
    simp only [List.all_cons, Bool.and_eq_true] at hok
    simp only [cellsFs] at hsh
    have hd : decide (ver ≥ 10) = true := by simpa using hver
    simp only [Serde.serFunctions, hd, bind, Except.bind] at hq
    split at hq
    · cases hq
    · rename_i q hq1
      split at hq
      · cases hq
      · rename_i qs' hq2
        cases hq
        obtain ⟨ws1, h1⟩ := func_ser st (some ver) f k nn ng q hok.1 (showsAt_left hsh) hq1
        obtain ⟨ws2, h2⟩ := funcs_ser st ver hver fs (k + (cellsG f.graph).length) (nn + nnG f.graph)
          (ng + ngG f.graph) qs' hok.2 (showsAt_right hsh) hq2
        exact ⟨ws1 ++ ws2, by simp only [treeFs, Scope.serFuncs, h1, h2, List.map_cons]⟩

end IrVerif.Bridge

namespace IrVerif.Scope
open IrVerif.Proto

/-- **C02 bridge, serialization of models with functions** (IR version >= 10): for every C02 IR model satisfying
    the decidable `GOKM` and every Scope model world whose core is its abstraction, whenever C02's
    `serModel` returns `q` the Scope `serializeM` returns `absM q`. -/
theorem C03_bridge_serialize_model (x : Serde.IRModel) (q : Proto.ModelP) (w : MWorld)
    (hok : Bridge.GOKM x = true) (hq : Serde.serModel x = .ok q) (hw : Bridge.coreOfM w = Bridge.absIRM x) :
    ∃ w', serializeM w = .ok (w', Bridge.absM q) := by
  simp only [Bridge.GOKM, Bool.and_eq_true, decide_eq_true_eq] at hok
  obtain ⟨⟨hokg, hokf⟩, hver⟩ := hok
  have hroot : w.root = Bridge.treeG [] 0 0 0 x.graph := congrArg Bridge.CoreM.root hw
  have hfuncs : w.funcs = Bridge.treeFs (Bridge.cellsG x.graph).length (Bridge.nnG x.graph) (Bridge.ngG x.graph)
      x.functions := congrArg Bridge.CoreM.funcs hw
  have hsh : Bridge.ShowsAt w.st 0 (Bridge.cellsG x.graph ++ Bridge.cellsFs x.functions) :=
    Bridge.showsAt_of_cells (congrArg Bridge.CoreM.cells hw)
  simp only [Serde.serModel, bind, Except.bind] at hq
  split at hq
  · cases hq
  · rename_i g hg
    split at hq
    · cases hq
    · rename_i fs hfs
      cases hq
      obtain ⟨ws1, h1⟩ := Bridge.ser_graph_br w.st (some x.irVersion) x.graph [] [] [] 0 0 0 g hokg rfl
        (Bridge.seesOuter_nil _) (Bridge.showsAt_left hsh) hg
      obtain ⟨ws2, h2⟩ := Bridge.funcs_ser w.st x.irVersion hver x.functions _ (Bridge.nnG x.graph)
        (Bridge.ngG x.graph) fs hokf (Bridge.showsAt_right hsh) hfs
      rw [Nat.zero_add] at h2
      exact ⟨⟨w.st.writes (ws1 ++ ws2), w.root, w.funcs⟩, by
        simp [serializeM, hroot, hfuncs, h1, h2, Bridge.absM, hver]⟩

end IrVerif.Scope

import IrVerif.Lemmas.ScopeSerdeBridgeSub3
import IrVerif.Lemmas.ScopeSerdeBridgeSub4
/-!
The C02 bridge WITH nested graphs, part 5: the mutual induction for serialization, `C03_bridge_serialize` and
`C03_bridge_roundtrip`.
-/
namespace IrVerif.Bridge
open IrVerif.Proto IrVerif.Serde

theorem ser_attr_leaf (scN : Scopes) (ver : Option Int) (x : IRAttr) (hl : irHasGraph x = false) (a : AttrP)
    (hq : serAttr scN ver x = .ok a) :
    subsAttr a = [] ∧ ∀ B k nn ng, treeAttr B k nn ng x = [] := by
  cases x
  case graph => simp [irHasGraph] at hl
  case graphs => simp [irHasGraph] at hl
  all_goals
    simp only [serAttr] at hq <;> (try cases hq) <;> simp [subsAttr, treeAttr]

theorem ser_attr_br_leaf (st : Scope.Store) (ver : Option Int) (x : IRAttr) (hl : irHasGraph x = false)
    (scN : Scopes) (bases : List Nat) (k nn ng : Nat) (a : AttrP) (hq : serAttr scN ver x = .ok a) :
    ∃ ws, Scope.serSubs st.vals st.tdata (treeAttr bases k nn ng x) = .ok (subsAttr a, ws) := by
  obtain ⟨e1, e2⟩ := ser_attr_leaf scN ver x hl a hq
  exact ⟨[], by rw [e1, e2]; simp [Scope.serSubs]⟩

mutual
theorem ser_attr_br (st : Scope.Store) (ver : Option Int) :
    ∀ (x : IRAttr) (scN : Scopes) (lens bases : List Nat) (k nn ng : Nat) (a : AttrP),
    okAttr lens x = true → lens = scN.map List.length → SeesOuter st scN bases → ShowsAt st k (cellsAttr x) →
    serAttr scN ver x = .ok a →
    ∃ ws, Scope.serSubs st.vals st.tdata (treeAttr bases k nn ng x) = .ok (subsAttr a, ws)
  | .ref n d r t, scN, _, bases, k, nn, ng, a, _, _, _, _, hq => ser_attr_br_leaf st ver _ rfl scN bases k nn ng a hq
  | .int n d i, scN, _, bases, k, nn, ng, a, _, _, _, _, hq => ser_attr_br_leaf st ver _ rfl scN bases k nn ng a hq
  | .float n d f, scN, _, bases, k, nn, ng, a, _, _, _, _, hq => ser_attr_br_leaf st ver _ rfl scN bases k nn ng a hq
  | .string n d s, scN, _, bases, k, nn, ng, a, _, _, _, _, hq => ser_attr_br_leaf st ver _ rfl scN bases k nn ng a hq
  | .ints n d xs, scN, _, bases, k, nn, ng, a, _, _, _, _, hq => ser_attr_br_leaf st ver _ rfl scN bases k nn ng a hq
  | .floats n d xs, scN, _, bases, k, nn, ng, a, _, _, _, _, hq => ser_attr_br_leaf st ver _ rfl scN bases k nn ng a hq
  | .strings n d xs, scN, _, bases, k, nn, ng, a, _, _, _, _, hq =>
    ser_attr_br_leaf st ver _ rfl scN bases k nn ng a hq
  | .tensor n d t, scN, _, bases, k, nn, ng, a, _, _, _, _, hq => ser_attr_br_leaf st ver _ rfl scN bases k nn ng a hq
  | .tensors n d ts, scN, _, bases, k, nn, ng, a, _, _, _, _, hq =>
    ser_attr_br_leaf st ver _ rfl scN bases k nn ng a hq
  | .typeProto n d ty sh, scN, _, bases, k, nn, ng, a, _, _, _, _, hq =>
    ser_attr_br_leaf st ver _ rfl scN bases k nn ng a hq
  | .typeProtos n d tps, scN, _, bases, k, nn, ng, a, _, _, _, _, hq =>
    ser_attr_br_leaf st ver _ rfl scN bases k nn ng a hq
  | .undefined n d, scN, _, bases, k, nn, ng, a, _, _, _, _, hq =>
    ser_attr_br_leaf st ver _ rfl scN bases k nn ng a hq
  | .graph n d g, scN, lens, bases, k, nn, ng, a, hok, hl, hs, hsh, hq => by
    simp only [okAttr] at hok
    simp only [cellsAttr] at hsh
    simp only [serAttr, bind, Except.bind] at hq
    split at hq
    · cases hq
    · rename_i q hq1
      cases hq
      obtain ⟨ws, h⟩ := ser_graph_br st ver g scN lens bases k nn ng q hok hl hs hsh hq1
      exact ⟨ws ++ [], by simp only [treeAttr, subsAttr, Scope.serSubs, h]⟩
  | .graphs n d gs, scN, lens, bases, k, nn, ng, a, hok, hl, hs, hsh, hq => by
    simp only [okAttr] at hok
    simp only [cellsAttr] at hsh
    simp only [serAttr, bind, Except.bind] at hq
    split at hq
    · cases hq
    · rename_i qs hq1
      cases hq
      obtain ⟨ws, h⟩ := ser_graphs_br st ver gs scN lens bases k nn ng qs hok hl hs hsh hq1
      exact ⟨ws, by simp only [treeAttr, subsAttr, h]⟩

theorem ser_graphs_br (st : Scope.Store) (ver : Option Int) :
    ∀ (gs : List IRGraph) (scN : Scopes) (lens bases : List Nat) (k nn ng : Nat) (qs : List GraphP),
    okGs lens gs = true → lens = scN.map List.length → SeesOuter st scN bases → ShowsAt st k (cellsGs gs) →
    serGraphs scN ver gs = .ok qs →
    ∃ ws, Scope.serSubs st.vals st.tdata (treeGs bases k nn ng gs) = .ok (absGsFull qs, ws)
  | [], scN, lens, bases, k, nn, ng, qs, _, _, _, _, hq => by
    simp only [serGraphs] at hq
    cases hq
    exact ⟨[], by simp [treeGs, absGsFull, Scope.serSubs]⟩
  | g :: gs, scN, lens, bases, k, nn, ng, qs, hok, hl, hs, hsh, hq => by
    simp only [okGs, Bool.and_eq_true] at hok
    simp only [cellsGs] at hsh
    simp only [serGraphs, bind, Except.bind] at hq
    split at hq
    · cases hq
    · rename_i q hq1
      split at hq
      · cases hq
      · rename_i qs' hq2
        cases hq
        obtain ⟨ws1, h1⟩ := ser_graph_br st ver g scN lens bases k nn ng q hok.1 hl hs (showsAt_left hsh) hq1
        obtain ⟨ws2, h2⟩ := ser_graphs_br st ver gs scN lens bases (k + (cellsG g).length) (nn + nnG g)
          (ng + ngG g) qs' hok.2 hl hs (showsAt_right hsh) hq2
        exact ⟨ws1 ++ ws2, by simp only [treeGs, absGsFull, Scope.serSubs, h1, h2]⟩

theorem ser_attrs_br (st : Scope.Store) (ver : Option Int) :
    ∀ (xs : List IRAttr) (scN : Scopes) (lens bases : List Nat),
    okAttrs lens xs = true → lens = scN.map List.length → SeesOuter st scN bases →
    ∀ (k nn ng : Nat) (as : List AttrP), ShowsAt st k (cellsAttrs xs) → serAttrs scN ver xs = .ok as →
    ∃ ws, Scope.serSubs st.vals st.tdata (treeAttrs bases k nn ng xs) = .ok (subsAttrs as, ws)
  | [], scN, lens, bases, _, _, _, k, nn, ng, as, _, hq => by
    simp only [serAttrs] at hq
    cases hq
    exact ⟨[], by simp [treeAttrs, subsAttrs, Scope.serSubs]⟩
  | x :: xs, scN, lens, bases, hok, hl, hs, k, nn, ng, as, hsh, hq => by
    simp only [okAttrs, Bool.and_eq_true] at hok
    simp only [cellsAttrs] at hsh
    simp only [serAttrs, bind, Except.bind] at hq
    split at hq
    · cases hq
    · rename_i a hq1
      split at hq
      · cases hq
      · rename_i as' hq2
        cases hq
        obtain ⟨ws1, h1⟩ := ser_attr_br st ver x scN lens bases k nn ng a hok.1 hl hs (showsAt_left hsh) hq1
        obtain ⟨ws2, h2⟩ := ser_attrs_br st ver xs scN lens bases hok.2 hl hs (k + (cellsAttr x).length)
          (nn + nnAttr x) (ng + ngAttr x) as' (showsAt_right hsh) hq2
        refine ⟨ws1 ++ ws2, ?_⟩
        simp only [treeAttrs, subsAttrs]
        exact serSubs_append _ _ _ _ _ _ _ _ h1 h2

theorem ser_node_br (st : Scope.Store) (ver : Option Int) :
    ∀ (x : IRNode) (tbl : List IRValue) (outerN : Scopes) (lens bases : List Nat) (b : Nat) (G outIs : List Nat),
    GCtx st tbl outerN lens bases b G outIs → okNode (tbl.length :: lens) x = true →
    ∀ (k' nn ng : Nat) (np : NodeP), ShowsAt st (b + k') (cellsNode x) →
    Serde.serNode (tableNames tbl :: outerN) ver x = .ok np →
    ∃ ws, Scope.serNode st.vals st.tdata (G.map (b + ·)) (treeNode (b :: bases) (b + k') nn ng x)
      = .ok (absNFull np, (nodeOutVIs tbl outIs x.outputs).map absVI, ws)
  | .mk domain opType overload name doc ins outs attrs mprops devcfgs, tbl, outerN, lens, bases, b, G, outIs, ctx,
      hok, k', nn, ng, np, hsh, hq => by
    simp only [okNode, Bool.and_eq_true, List.headD_cons] at hok
    exact node_ser_core st ver tbl outerN lens bases b G outIs ctx domain opType overload name doc ins outs attrs
      mprops devcfgs k' nn ng np (by simp [hok.1.1, hok.1.2])
      (ser_attrs_br st ver attrs (tableNames tbl :: outerN) (tbl.length :: lens) (b :: bases) hok.2
        (by simp [ctx.lens, tableNames]) ctx.sees) hsh hq

theorem ser_nodes_br (st : Scope.Store) (ver : Option Int) :
    ∀ (xs : List IRNode) (tbl : List IRValue) (outerN : Scopes) (lens bases : List Nat) (b : Nat)
      (G outIs : List Nat),
    GCtx st tbl outerN lens bases b G outIs → okNodes (tbl.length :: lens) xs = true →
    ∀ (k' nn ng : Nat) (nps : List NodeP), ShowsAt st (b + k') (cellsNodes xs) →
    Serde.serNodes (tableNames tbl :: outerN) ver xs = .ok nps →
    ∃ ws, Scope.serNodes st.vals st.tdata (G.map (b + ·)) (treeNodes (b :: bases) (b + k') nn ng xs)
      = .ok (absNsFull nps, (nodeOutVIs tbl outIs (xs.flatMap IRNode.outputs)).map absVI, ws)
  | [], tbl, outerN, lens, bases, b, G, outIs, _, _, k', nn, ng, nps, _, hq => by
    simp only [Serde.serNodes] at hq
    cases hq
    exact ⟨[], by simp [treeNodes, absNsFull, Scope.serNodes, nodeOutVIs]⟩
  | x :: xs, tbl, outerN, lens, bases, b, G, outIs, ctx, hok, k', nn, ng, nps, hsh, hq => by
    simp only [okNodes, Bool.and_eq_true] at hok
    simp only [cellsNodes] at hsh
    simp only [Serde.serNodes, bind, Except.bind] at hq
    split at hq
    · cases hq
    · rename_i np hq1
      split at hq
      · cases hq
      · rename_i nps' hq2
        cases hq
        obtain ⟨ws1, h1⟩ := ser_node_br st ver x tbl outerN lens bases b G outIs ctx hok.1 k' nn ng np
          (showsAt_left hsh) hq1
        have hr := showsAt_right hsh
        rw [Nat.add_assoc] at hr
        obtain ⟨ws2, h2⟩ := ser_nodes_br st ver xs tbl outerN lens bases b G outIs ctx hok.2
          (k' + (cellsNode x).length) (nn + nnNode x) (ng + ngNode x) nps' hr hq2
        refine ⟨ws1 ++ ws2, ?_⟩
        simp only [treeNodes, absNsFull, Scope.serNodes, h1, Nat.add_assoc, h2, List.flatMap_cons,
          nodeOutVIs_append, List.map_append]

theorem ser_graph_br (st : Scope.Store) (ver : Option Int) :
    ∀ (g : IRGraph) (outerN : Scopes) (lens bases : List Nat) (k nn ng : Nat) (q : GraphP),
    okG lens g = true → lens = outerN.map List.length → SeesOuter st outerN bases → ShowsAt st k (cellsG g) →
    Serde.serGraph outerN ver g = .ok q →
    ∃ ws, Scope.serGraph st.vals st.tdata (treeG bases k nn ng g) = .ok (absGFull q, ws)
  | .mk tbl inputs inits nodes outputs name doc opsets mprops, outerN, lens, bases, k, nn, ng, q, hok, hl, hs, hsh,
      hq =>
    graph_ser_core st ver tbl inputs inits nodes outputs name doc opsets mprops outerN lens bases k nn ng q hok hl
      hs hsh
      (fun G outIs ctx => ser_nodes_br st ver nodes tbl outerN lens bases k G outIs ctx
        (by simp only [okG, Bool.and_eq_true] at hok; exact hok.1.2))
      hq
end

theorem showsAt_of_core {w : Scope.World} {cs : List Cell}
    (h : (List.range w.st.nv).map (cellAt w.st) = cs) : ShowsAt w.st 0 cs := by
  intro j hj
  subst h
  simp only [List.length_map, List.length_range] at hj
  simp [List.getD, hj]

end IrVerif.Bridge

namespace IrVerif.Scope
open IrVerif.Proto

/-- **C02 bridge, serialization, nested graphs included**: for every C02 IR graph satisfying the decidable
    `GOKFull` and every Scope world whose core is its abstraction `absIRFull`, whenever C02's serializer
    returns `q` the Scope serializer returns `absGFull q`. -/
theorem C03_bridge_serialize (g : Serde.IRGraph) (ver : Option Int) (q : Proto.GraphP) (w : World)
    (hok : Bridge.GOKFull g = true) (hq : Serde.serGraph [] ver g = .ok q)
    (hw : Bridge.coreOf w = Bridge.absIRFull g) :
    ∃ w', serialize w = .ok (w', Bridge.absGFull q) := by
  have hroot : w.root = Bridge.treeG [] 0 0 0 g := congrArg Bridge.Core.root hw
  have hsh : Bridge.ShowsAt w.st 0 (Bridge.cellsG g) := Bridge.showsAt_of_core (congrArg Bridge.Core.cells hw)
  obtain ⟨ws, h⟩ := Bridge.ser_graph_br w.st ver g [] [] [] 0 0 0 q hok rfl (Bridge.seesOuter_nil _) hsh hq
  exact ⟨⟨w.st.writes ws, w.root⟩, by simp [serialize, hroot, h]⟩

/-- the two models compute the same proto -> proto function on C02's well-formed graphs, nested graphs
    included -/
theorem C03_bridge_roundtrip (p : Proto.GraphP) (h : Bridge.sharedFull p = true) :
    ∃ g w, Serde.desGraph [] p = .ok g ∧ deserialize (Bridge.absGFull p) = .ok w ∧
      (Bridge.GOKFull g = true → ∀ ver q, Serde.serGraph [] ver g = .ok q →
        ∃ w', serialize w = .ok (w', Bridge.absGFull q)) := by
  obtain ⟨g, w, h1, h2, h3⟩ := C03_bridge_deserialize p h
  exact ⟨g, w, h1, h2, fun hok ver q hq => C03_bridge_serialize g ver q w hok hq h3⟩

end IrVerif.Scope

/-
C12 — the observable effects of steps 4-5 of `Graph.sort` (cycle test, then one re-link per graph
in an arbitrary iteration order) and of `TopologicalSortPass` (sequence of sorts, restore on failure).
-/
import IrVerif.Lemmas.SortStable

namespace IrVerif.Sort
open List

def toEff (p : Nat × List Nat) : Eff := Eff.relink p.1 p.2

/-- re-links with distinct targets: every container is re-linked with the list addressed to it -/
theorem runEffs_relinks (rl : List (Nat × List Nat)) (hnd : (rl.map Prod.fst).Nodup) :
    ∀ st : List (Nat × List Nat), runEffs st (rl.map toEff) =
      (false, st.map (fun gc => match rl.lookup gc.1 with
        | some xs => (gc.1, relink gc.2 xs)
        | none => gc)) := by
  induction rl with
  | nil => intro st; simp [runEffs]
  | cons p rl ih =>
    intro st
    obtain ⟨k, xs⟩ := p
    simp only [List.map_cons, List.nodup_cons] at hnd
    simp only [List.map_cons, toEff, runEffs, applyEff]
    have := ih hnd.2 (st.map (fun gc => if gc.1 = k then (gc.1, relink gc.2 xs) else gc))
    rw [this, List.map_map]
    congr 1
    apply List.map_congr_left
    intro gc _
    simp only [Function.comp, List.lookup_cons]
    by_cases h : gc.1 = k
    · have hk : rl.lookup k = none := by
        rw [List.lookup_eq_none_iff]
        intro q hq
        simp only [bne_iff_ne, ne_eq]
        intro hc
        exact hnd.1 (List.mem_map.2 ⟨q, hq, hc.symm⟩)
      simp [h, hk]
    · have : (gc.1 == k) = false := by simp [h]
      simp [h, this]

theorem lookup_of_mem_nodup {rl : List (Nat × List Nat)} (hnd : (rl.map Prod.fst).Nodup)
    {k : Nat} {xs : List Nat} (h : (k, xs) ∈ rl) : rl.lookup k = some xs := by
  induction rl with
  | nil => simp at h
  | cons p rl ih =>
    obtain ⟨k', xs'⟩ := p
    simp only [List.map_cons, List.nodup_cons] at hnd
    rcases List.mem_cons.1 h with h1 | h1
    · simp at h1; obtain ⟨rfl, rfl⟩ := h1; simp
    · have hne : k ≠ k' := by
        intro hc; subst hc
        exact hnd.1 (List.mem_map.2 ⟨(k, xs), h1, rfl⟩)
      have : (k == k') = false := by simp [hne]
      simp [List.lookup_cons, this, ih hnd.2 h1]

/-- the result of a batch of re-links with distinct targets does not depend on their order -/
theorem runEffs_perm {rl rl' : List (Nat × List Nat)} (hp : rl'.Perm rl)
    (hnd : (rl.map Prod.fst).Nodup) (st : List (Nat × List Nat)) :
    runEffs st (rl'.map toEff) = runEffs st (rl.map toEff) := by
  have hnd' : (rl'.map Prod.fst).Nodup := (hp.map Prod.fst).nodup_iff.2 hnd
  rw [runEffs_relinks rl hnd, runEffs_relinks rl' hnd']
  congr 1
  apply List.map_congr_left
  intro gc _
  have : rl'.lookup gc.1 = rl.lookup gc.1 := by
    cases h : rl.lookup gc.1 with
    | none =>
      rw [List.lookup_eq_none_iff] at h ⊢
      intro q hq; exact h q (hp.mem_iff.1 hq)
    | some xs =>
      have hm : (gc.1, xs) ∈ rl := by
        clear hnd hnd' hp
        induction rl with
        | nil => simp at h
        | cons p rl ih =>
          obtain ⟨k', xs'⟩ := p
          simp only [List.lookup_cons] at h
          by_cases hk : gc.1 = k'
          · simp [hk] at h; subst h; simp [hk]
          · have : (gc.1 == k') = false := by simp [hk]
            simp [this] at h
            exact List.mem_cons_of_mem _ (ih h)
      exact lookup_of_mem_nodup hnd' (hp.mem_iff.2 hm)
  rw [this]

theorem graphsOf_keys (g : MGraph) : (graphsOf g).map Prod.fst = gidsOf (allGraphs g) := by
  simp [graphsOf, gidsOf, List.map_map, Function.comp, orderOf]

/-- re-linking every graph with the list `B gid`, visiting the graphs in any order -/
theorem runEffs_order (g : MGraph) (hgids : (gidsOf (allGraphs g)).Nodup)
    (order : List (Nat × List Nat)) (hp : order.Perm (graphsOf g)) (B : Nat → List Nat) :
    runEffs (graphsOf g) (order.map (fun gc => Eff.relink gc.1 (B gc.1))) =
      (false, (graphsOf g).map (fun gc => (gc.1, relink gc.2 (B gc.1)))) := by
  have hkeys : ((order.map (fun gc => (gc.1, B gc.1))).map Prod.fst).Nodup := by
    rw [List.map_map]
    have : (order.map (Prod.fst ∘ fun gc : Nat × List Nat => (gc.1, B gc.1))) = order.map Prod.fst := by
      apply List.map_congr_left; intro a _; rfl
    rw [this, (hp.map Prod.fst).nodup_iff, graphsOf_keys]
    exact hgids
  have h := runEffs_relinks (order.map (fun gc => (gc.1, B gc.1))) hkeys (graphsOf g)
  rw [List.map_map] at h
  have hfun : (toEff ∘ fun gc : Nat × List Nat => (gc.1, B gc.1)) =
      (fun gc => Eff.relink gc.1 (B gc.1)) := by funext gc; rfl
  rw [hfun] at h
  rw [h]
  congr 1
  apply List.map_congr_left
  intro gc hgc
  have hmem : (gc.1, B gc.1) ∈ order.map (fun gc => (gc.1, B gc.1)) :=
    List.mem_map.2 ⟨gc, hp.mem_iff.2 hgc, rfl⟩
  rw [lookup_of_mem_nodup hkeys hmem]

/-- the raise, when there is one, is the only effect: no re-link precedes it -/
theorem sortTraceIn_cases (order : List (Nat × List Nat)) (g : MGraph) :
    (sortModel g = none ∧ sortTraceIn order g = [Eff.raise]) ∨
    (sortModel g ≠ none ∧ sortTraceIn order g = order.map (fun gc => Eff.relink gc.1
      (bucket (nodesOf g) (kahn (nodesOf g).length (predsAt (nodesOf g))) gc.1))) := by
  unfold sortTraceIn sortModel
  by_cases h1 : sharedGraph (nodesOf g) = true
  · left; simp [h1]
  · by_cases h2 : ((kahn (nodesOf g).length (predsAt (nodesOf g))).length != (nodesOf g).length) = true
    · left; simp [h1, h2]
    · right; simp [h1, h2]

/-- with distinct graph ids, the observable effect is: raised and nothing changed, or the result
    of `sortModel` — whatever the iteration order over the graphs -/
theorem runEffs_sortTraceIn (g : MGraph) (hgids : (gidsOf (allGraphs g)).Nodup)
    (order : List (Nat × List Nat)) (hp : order.Perm (graphsOf g)) :
    runEffs (graphsOf g) (sortTraceIn order g) =
      match sortModel g with
      | none => (true, graphsOf g)
      | some r => (false, r) := by
  rcases sortTraceIn_cases order g with ⟨hn, ht⟩ | ⟨hs, ht⟩
  · rw [ht, hn]; simp [runEffs, applyEff]
  · rw [ht, runEffs_order g hgids order hp]
    cases hm : sortModel g with
    | none => exact absurd hm hs
    | some r =>
      simp only [sortModel] at hm
      split at hm
      · simp at hm
      split at hm
      · simp at hm
      · simp only [Option.some.injEq] at hm
        rw [← hm]

theorem sortEffect_eq (g : MGraph) (hgids : (gidsOf (allGraphs g)).Nodup) :
    sortEffect g = match sortModel g with
      | none => (true, graphsOf g)
      | some r => (false, r) :=
  runEffs_sortTraceIn g hgids (graphsOf g) (List.Perm.refl _)

theorem runEffs_no_raise (rl : List (Nat × List Nat)) (f : Nat × List Nat → Eff)
    (hf : ∀ p, ∃ k xs, f p = Eff.relink k xs) :
    ∀ st, (runEffs st (rl.map f)).1 = false := by
  induction rl with
  | nil => intro st; simp [runEffs]
  | cons p rl ih =>
    intro st
    obtain ⟨k, xs, hp⟩ := hf p
    simp only [List.map_cons, hp, runEffs, applyEff]
    exact ih _

theorem forall₂_and_left {α β : Type} {R : α → β → Prop} {P : α → Prop} {l1 : List α} {l2 : List β}
    (h : List.Forall₂ R l1 l2) (hP : ∀ a ∈ l1, P a) :
    List.Forall₂ (fun a b => R a b ∧ P a) l1 l2 := by
  induction h with
  | nil => exact List.Forall₂.nil
  | cons hab _ ih =>
    exact List.Forall₂.cons ⟨hab, hP _ (by simp)⟩ (ih (fun a ha => hP a (List.mem_cons_of_mem _ ha)))

/-- the containers of one graph-like `cur` hold, graph by graph, an arrangement of the recorded
    duplicate-free sequences `orig` -/
def Rearranged (orig cur : List (Nat × List Nat)) : Prop :=
  List.Forall₂ (fun og cg => (cg.1 = og.1 ∧ cg.2.Perm og.2) ∧ og.2.Nodup) orig cur

theorem restore_one {orig cur : List (Nat × List Nat)} (h : Rearranged orig cur) :
    List.zipWith (fun og cg => (cg.1, relink cg.2 og.2)) orig cur = orig := by
  induction h with
  | nil => rfl
  | cons hab _ ih =>
    obtain ⟨⟨h1, h2⟩, h3⟩ := hab
    simp only [List.zipWith_cons_cons, ih]
    congr 1
    rw [relink_perm (h2.nodup_iff.2 h3) h2.symm, h1]

theorem passRestore_eq {orig cur : List (List (Nat × List Nat))}
    (h : List.Forall₂ Rearranged orig cur) : passRestore orig cur = orig := by
  unfold passRestore
  induction h with
  | nil => rfl
  | cons hab _ ih => simp only [List.zipWith_cons_cons, ih, restore_one hab]

end IrVerif.Sort

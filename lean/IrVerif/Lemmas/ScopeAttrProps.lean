/-
Property theorems of the attribute layer `IrVerif.Model.ScopeAttr` (C03 / C17): node attributes of the main
graph, of subgraphs and of function bodies — scalar / list kinds, tensors, type protos (opaque payload tokens),
reference attributes, GRAPH / GRAPHS attributes (sub trees), doc strings, duplicate names.
The combinations with the core model and the decorations (`C03_roundtrip_attrs`, `C17_idempotent_attrs`) are at
the end of `Props/C03.lean` / `Props/C17.lean`.
-/
import IrVerif.Lemmas.ScopeAttr
namespace IrVerif.Scope

/-- **C03_attr_roundtrip**: IR -> proto -> IR on the node attributes.  Hypothesis `wfModelAB W` (decidable,
    evaluated by the driver on every generated model; a representation invariant of the real objects): every
    `Attributes` dict has distinct keys, function identifiers are distinct, a reference attribute has a
    non-empty `ref_attr_name` and a type that is an `AttributeType` member.  If serialization does not raise
    (it raises for an attribute of type UNDEFINED / SPARSE_* and for a value `None`), deserializing the proto
    succeeds and gives `canonModelA W`: the same attributes under the same names in the same order, same types,
    same payload tokens, same reference names, the same graphs at the same places — only a doc_string `""` is
    gone; that model serializes to the same proto; and when no doc_string is `""` (`normModelAB`, decidable, share
    published) the reloaded tree IS `W`. -/
theorem C03_attr_roundtrip (W : ModelAS) (Q : ModelAP) (hw : wfModelAB W = true) (h : serModelA W = .ok Q) :
    deserModelA Q = .ok (canonModelA W) ∧ serModelA (canonModelA W) = .ok Q ∧
    (normModelAB W = true → deserModelA Q = .ok W) := by
  obtain ⟨h1, h2⟩ := rtModelA W Q hw h
  exact ⟨h1, h2, fun hn => by rw [h1, canonModelA_id W hn]⟩

/-- **C03_attr_subs**: the alignment with `NodeP.subs` / `NodeT.subs` is kept by serialization: for every node
    (anywhere in the tree) whose attribute dict satisfies the invariant, the graphs written are the serialized
    graphs of its GRAPH / GRAPHS attributes concatenated in dict order (`subsOfS` ↦ `subsOfP`), no attribute of
    the written list is shadowed (`survivors`), and reading the node back gives the graphs back in that order. -/
theorem C03_attr_subs (W : NodeAS) (Q : NodeAP) (hw : wfNodeAB W = true) (h : serNodeA W = .ok Q) :
    serGraphsA (subsOfS W.attrs) = .ok (subsOfP Q.attrs) ∧ survivors Q.attrs = Q.attrs ∧
    deserGraphsA (subsOfP Q.attrs) = .ok (subsOfS (canonNodeA W).attrs) := by
  obtain ⟨attrs⟩ := W
  simp only [serNodeA] at h
  split at h
  · simp at h
  · rename_i ps hp
    simp only [Except.ok.injEq] at h
    subst h
    have hw' := hw
    simp only [wfNodeAB, Bool.and_eq_true] at hw'
    obtain ⟨_, _, a3⟩ := rtAttrsA attrs ps hw'.2 hp
    have hk := (keysNodupB_iff _).mp hw'.1
    have hsurv : survivors ps = ps := by
      have hnd : ((ps.map fun a => (a.name, a)).map (·.1)).Nodup := by
        simp only [List.map_map, Function.comp_def]
        have : (ps.map fun a => a.name) = ps.map AttrP.name := rfl
        rw [this, a3]; exact hk
      simp only [survivors, kvDict_of_nodup _ hnd, List.map_map, Function.comp_def, List.map_id']
    refine ⟨serAttrsA_subs attrs ps hw'.2 hp, hsurv, ?_⟩
    have hser : serNodeA (.mk attrs) = .ok (.mk ps) := by simp only [serNodeA, hp]
    obtain ⟨r1, _⟩ := rtNodeA (.mk attrs) (.mk ps) hw hser
    have := deserNodeA_subs ps (canonAttrsA attrs) (by simpa only [canonNodeA] using r1)
    rw [hsurv] at this
    simpa only [NodeAP.attrs, canonNodeA, NodeAS.attrs] using this

/-- **C17_attr_subs**: the alignment on the way in, for EVERY `NodeProto` attribute list (duplicate names,
    reference attributes that carry graphs, stray payloads): when the node deserializes, the graphs held by its
    attributes, in dict order, are the deserialized graphs of the SURVIVING attributes (first position of a
    name, attribute of its last occurrence) that are not references, in order — a shadowed attribute and a
    reference attribute contribute no graph. -/
theorem C17_attr_subs (X : NodeAP) (W : NodeAS) (h : deserNodeA X = .ok W) :
    deserGraphsA (subsOfP (survivors X.attrs)) = .ok (subsOfS W.attrs) := by
  obtain ⟨as⟩ := X
  obtain ⟨bs⟩ := W
  exact deserNodeA_subs as bs h

/-- **C17_attr_wf**: what deserialization builds satisfies the representation invariant (the hypothesis of
    `C03_attr_roundtrip`), whatever the proto. -/
theorem C17_attr_wf (X : ModelAP) (W : ModelAS) (h : deserModelA X = .ok W) : wfModelAB W = true :=
  wfDeserModelA X W h

/-- **C17_attr_idempotent**: for EVERY attribute proto tree `X` (duplicate attribute names, duplicate function
    identifiers, reference attributes with a payload, any type number, undecodable leaves): if deserialization
    succeeds, serializing the result either raises — and then it is the TypeError "Unsupported attribute type" of
    `_fill_in_value_for_attribute` (`AErr.unsupported`: a surviving attribute of type UNDEFINED that is not a
    reference, `Attr(name, UNDEFINED, None)`; never a SPARSE_* or a missing value, see the `example`s) — or writes
    a proto `Q` that deserializes to the canonical form of the first result, which serializes to `Q` again: `Q` is
    a fix-point of deserialize-then-serialize. -/
theorem C17_attr_idempotent (X : ModelAP) (W : ModelAS) (hd : deserModelA X = .ok W) :
    serModelA W = .error .unsupported ∨
    ∃ Q, serModelA W = .ok Q ∧ deserModelA Q = .ok (canonModelA W) ∧ serModelA (canonModelA W) = .ok Q := by
  cases hs : serModelA W with
  | error e => exact .inl (by rw [unsupModelA X W e hd hs])
  | ok Q =>
    obtain ⟨h1, h2⟩ := rtModelA W Q (wfDeserModelA X W hd) hs
    exact .inr ⟨Q, rfl, h1, h2⟩

/-! ### non-vacuity -/

/-- a model with every kind of attribute (the hypotheses of `C03_attr_roundtrip` hold, serialization succeeds) -/
def exAttrW : ModelAS :=
  ⟨.mk [.mk [.leaf "axis" none 2 (some "08"), .graph "body" (some "d") (.mk [.mk [.ref "to" none "dtype" 2]]),
      .leaf "value" none 4 (some "t0"), .graphs "branches" none [.mk [], .mk [.mk [.leaf "tp" none 13 (some "tp0")]]]]],
   [(⟨"d", "f", ""⟩, [.mk [.ref "alpha" (some "doc") "alpha" 1]])]⟩

example : wfModelAB exAttrW = true ∧ normModelAB exAttrW = true ∧ (serModelA exAttrW).toBool = true := by decide

/-- a doc_string `""`: `wfModelAB` holds, `normModelAB` does not, the reloaded tree differs from the original -/
example : ∃ W : ModelAS, wfModelAB W = true ∧ normModelAB W = false ∧ canonModelA W ≠ W :=
  ⟨⟨.mk [.mk [.leaf "a" (some "") 2 (some "x")]], []⟩, by decide, by decide,
    by simp [canonModelA, canonGraphA, canonNodesA, canonNodeA, canonAttrsA, canonAttrA, optOut]⟩

/-- `wfModelAB` is needed: an empty `ref_attr_name` is written and read back as a plain attribute -/
example : ∃ (W : ModelAS) (Q : ModelAP) (D : ModelAS), wfModelAB W = false ∧ serModelA W = .ok Q ∧
    deserModelA Q = .ok D ∧ D ≠ canonModelA W :=
  ⟨⟨.mk [.mk [.ref "a" none "" 2]], []⟩, _, _, by decide, rfl, rfl,
    by simp [canonModelA, canonGraphA, canonNodesA, canonNodeA, canonAttrsA, canonAttrA]⟩

/-- `wfModelAB` is needed: two attributes under one name are written both, one is read back -/
example : ∃ (W : ModelAS) (Q : ModelAP) (D : ModelAS), wfModelAB W = false ∧ serModelA W = .ok Q ∧
    deserModelA Q = .ok D ∧ D ≠ canonModelA W :=
  ⟨⟨.mk [.mk [.leaf "a" none 2 (some "x"), .leaf "a" none 2 (some "y")]], []⟩, _, _, by decide, rfl, rfl,
    by simp [canonModelA, canonGraphA, canonNodesA, canonNodeA, canonAttrsA, canonAttrA]⟩

/-- a proto with duplicate names, a shadowed GRAPH attribute, a reference attribute of type GRAPH with a graph
    payload: deserialization succeeds, serialization succeeds (hypotheses of `C17_attr_idempotent`), and the
    proto written differs from the input -/
def exAttrX : ModelAP :=
  ⟨.mk [.mk [.mk "a" none none 5 "" true (.mk [.mk []]) [], .mk "b" none (some "r") 5 "" true (.mk [.mk []]) [],
      .mk "a" (some "") none 2 "07" true emptyGAP []]], []⟩

example : ∃ W Q, deserModelA exAttrX = .ok W ∧ serModelA W = .ok Q ∧ Q.graph ≠ exAttrX.graph :=
  ⟨_, _, rfl, rfl, by simp [exAttrX, emptyGAP]⟩

/-- the survivors of `exAttrX`'s node hold no graph: the shadowed GRAPH attribute and the reference do not count -/
example : subsOfP (survivors (exAttrX.graph.nodes.head!).attrs) = [] := by decide

/-- serialization after deserialization raises for a surviving UNDEFINED attribute ... -/
example : (match deserModelA ⟨.mk [.mk [.mk "a" none none 0 "" true emptyGAP []]], []⟩ with
    | .ok W => (match serModelA W with | .error .unsupported => true | _ => false) | .error _ => false) = true := by decide

/-- ... and not for a shadowed one -/
example : (match deserModelA ⟨.mk [.mk [.mk "a" none none 0 "" true emptyGAP [], .mk "a" none none 2 "1" true emptyGAP []]], []⟩ with
    | .ok W => (serModelA W).toBool | .error _ => false) = true := by decide

/-- deserialization raises: unknown type number (also on a reference), SPARSE_TENSOR, undecodable leaf; a
    shadowed attribute does not raise; a function that is shadowed in the functions dict does -/
example : (deserModelA ⟨.mk [.mk [.mk "a" none (some "r") 15 "" true emptyGAP []]], []⟩).toBool = false ∧
    (deserModelA ⟨.mk [.mk [.mk "a" none none 11 "" true emptyGAP []]], []⟩).toBool = false ∧
    (deserModelA ⟨.mk [.mk [.mk "a" none (some "r") 11 "" true emptyGAP []]], []⟩).toBool = true ∧
    (deserModelA ⟨.mk [.mk [.mk "a" none none 8 "ff" false emptyGAP []]], []⟩).toBool = false ∧
    (deserModelA ⟨.mk [.mk [.mk "a" none none 11 "" true emptyGAP [], .mk "a" none none 2 "1" true emptyGAP []]], []⟩).toBool = true ∧
    (deserModelA ⟨.mk [], [⟨⟨"", "f", ""⟩, [.mk [.mk "a" none none 11 "" true emptyGAP []]]⟩, ⟨⟨"", "f", ""⟩, []⟩]⟩).toBool = false := by
  decide

end IrVerif.Scope

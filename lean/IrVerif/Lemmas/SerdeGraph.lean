import IrVerif.Lemmas.SerdeScope
import IrVerif.Lemmas.SerdeDict
/-! C02 stage B: the graph level (phases of `_deserialize_graph`, pieces of `serialize_graph_into`). -/
namespace IrVerif.Serde
open IrVerif.Proto

/-! ### phase A: graph inputs -/

def inputValT (q : List AnnotP) (vi : ValueInfoP) : IRValue :=
  applyQuant q (applyInfoT (IRValue.blank vi.name) vi)

theorem desGraphInputs_eq (q : List AnnotP) (inputs : List ValueInfoP) (h : inputs.all wfVI = true) :
    desGraphInputs q inputs = .ok (inputs.map (inputValT q)) := by
  induction inputs with
  | nil => rfl
  | cons vi vis ih =>
    simp only [List.all_cons, Bool.and_eq_true] at h
    have hw : wfType vi.type = true := by
      have := h.1; simp only [wfVI, Bool.and_eq_true] at this; exact this.1
    simp [desGraphInputs, (applyInfo_eq (IRValue.blank vi.name) vi hw).1, ih h.2, bind, Except.bind,
      inputValT]

/-! ### phase T: initializer tensors -/

def irT (p : TensorP) : IRTensor :=
  match desTensor p with
  | .ok t => t
  | .error _ => default

theorem irT_spec (p : TensorP) (h : wfTensor p = true) :
    desTensor p = .ok (irT p) ∧ serTensor (irT p) = normTensor p ∧ (irT p).name = p.name
      ∧ (irT p).setName p.name = irT p := by
  obtain ⟨t, h1, h2, h3⟩ := tensor_roundtrip p h
  have : irT p = t := by simp [irT, h1]
  rw [this]
  exact ⟨h1, h2, h3, setName_self p t h1⟩

theorem desTensors_eq (ps : List TensorP) (h : ps.all wfTensor = true) :
    desTensors ps = .ok (ps.map irT) := by
  induction ps with
  | nil => rfl
  | cons p ps ih =>
    simp only [List.all_cons, Bool.and_eq_true] at h
    simp [desTensors, (irT_spec p h.1).1, ih h.2, bind, Except.bind]

theorem irT_dtype (p : TensorP) (h : wfTensor p = true) (hv : validDType p.dataType = true) :
    (irT p).dtype = .ok p.dataType ∧ (irT p).shape = p.dims := by
  have hd := (irT_spec p h).1
  generalize irT p = t at hd ⊢
  unfold desTensor at hd
  split at hd
  · simp only [bind, Except.bind] at hd
    split at hd
    · cases hd
    · split at hd
      · cases hd
      · cases hd
        exact ⟨rfl, rfl⟩
  · split at hd
    · cases hd
      rename_i h8
      exact ⟨by simp [IRTensor.dtype, h8], rfl⟩
    · cases hd
      exact ⟨by simp [IRTensor.dtype, hv], rfl⟩

/-! ### phase B: initializers -/

def setConst (t : IRTensor) (v : IRValue) : IRValue := { v with const := some t }

/-- the value created for the initializer `p` when it is not a graph input (its name is forced to
`p.name`, which is what `irT p` carries on well-formed tensors) -/
def initValT (vis : List ValueInfoP) (q : List AnnotP) (p : TensorP) : IRValue :=
  { applyQuant q (match findVI vis p.name with
      | some vi => fillFrom (initV0 (irT p) p.dataType) (applyInfoT (initV0 (irT p) p.dataType) vi)
      | none => initV0 (irT p) p.dataType) with
    name := p.name }

theorem withName_self (v : IRValue) (n : String) (h : v.name = n) : { v with name := n } = v := by
  cases v; simp_all

theorem newInitValue_eq (vis : List ValueInfoP) (q : List AnnotP) (hvis : vis.all wfVI = true)
    (p : TensorP) (hw : wfTensor p = true) (hv : validDType p.dataType = true) :
    newInitValue vis q (irT p) p.dataType = .ok (initValT vis q p) := by
  have hname : (irT p).name = p.name := (irT_spec p hw).2.2.1
  have _ := hv
  simp only [newInitValue, hname, initValT, bind, Except.bind]
  cases hf : findVI vis p.name with
  | none =>
    simp only [Except.ok.injEq]
    exact (withName_self _ _ (by simp [initV0, IRValue.blank, hname])).symm
  | some vi =>
    have hwt : wfType vi.type = true := by
      have := List.all_eq_true.1 hvis vi (findVI_mem hf).1
      simp only [wfVI, Bool.and_eq_true] at this
      exact this.1
    simp only [(applyInfo_eq (initV0 (irT p) p.dataType) vi hwt).1, Except.ok.injEq]
    exact (withName_self _ _ (by simp [initV0, fillFrom, IRValue.blank, hname])).symm

/-- the initializer that names `v`, if any, becomes its `const_value` -/
def constFrom (ps : List TensorP) (v : IRValue) : IRValue :=
  match ps.find? (fun p => p.name = v.name) with
  | some p => setConst (irT p) v
  | none => v

@[simp] theorem initValT_name (vis : List ValueInfoP) (q : List AnnotP) (p : TensorP) :
    (initValT vis q p).name = p.name := rfl

@[simp] theorem constFrom_name (ps : List TensorP) (v : IRValue) : (constFrom ps v).name = v.name := by
  unfold constFrom; split <;> rfl

theorem constFrom_of_not_mem {ps : List TensorP} {v : IRValue} (h : v.name ∉ ps.map (·.name)) :
    constFrom ps v = v := by
  unfold constFrom
  have : ps.find? (fun p => p.name = v.name) = none := by
    rw [List.find?_eq_none]
    intro p hp hpn
    simp only [decide_eq_true_eq] at hpn
    exact h (by rw [← hpn]; exact List.mem_map_of_mem hp)
  rw [this]

def newInits (names : List String) (ps : List TensorP) : List TensorP :=
  ps.filter fun p => !names.contains p.name

theorem desInitializers_spec (vis : List ValueInfoP) (q : List AnnotP) (hvis : vis.all wfVI = true) :
    ∀ (ps : List TensorP) (tbl : List IRValue),
      ps.all (fun t => wfTensor t && validDType t.dataType) = true →
      (∀ p ∈ ps, p.name ≠ "") → (ps.map (·.name)).Nodup → (tableNames tbl).Nodup →
      ∃ idxs, desInitializers vis q (ps.map irT) tbl =
          .ok (tbl.map (constFrom ps) ++ (newInits (tableNames tbl) ps).map (initValT vis q), idxs) ∧
        idxs.map some = ps.map (fun p =>
          lookupLast (tableNames (tbl.map (constFrom ps) ++ (newInits (tableNames tbl) ps).map (initValT vis q))) p.name)
  | [], tbl, _, _, _, _ => by
    refine ⟨[], ?_, rfl⟩
    have : tbl.map (constFrom []) = tbl := by
      have : constFrom [] = id := by funext v; simp [constFrom]
      rw [this, List.map_id]
    simp [desInitializers, newInits, this]
  | p :: ps, tbl, hwf, hne, hnd, htbl => by
    simp only [List.all_cons, Bool.and_eq_true] at hwf
    obtain ⟨⟨hw, hv⟩, hwf'⟩ := hwf
    simp only [List.map_cons, List.nodup_cons] at hnd
    have hpn : p.name ≠ "" := hne p (by simp)
    have hname : (irT p).name = p.name := (irT_spec p hw).2.2.1
    have hrest : ∀ p' ∈ ps, p'.name ≠ "" := fun p' hp' => hne p' (List.mem_cons_of_mem _ hp')
    -- names of the final table
    have hnamesF : ∀ (tb : List IRValue) (qs l : List TensorP),
        tableNames (tb.map (constFrom qs) ++ l.map (initValT vis q))
          = tableNames tb ++ l.map (·.name) := by
      intro tb qs l
      simp [tableNames, List.map_map, Function.comp_def]
    cases hl : lookupLast (tableNames tbl) p.name with
    | some i =>
      -- the initializer names an existing value (a graph input)
      have hmem : p.name ∈ tableNames tbl := lookupLast_mem hl
      have hupd : listSet tbl i (setConst (irT p) (tbl.getD i (IRValue.blank ""))) =
          updName tbl p.name (setConst (irT p)) := listSet_eq_updName htbl hl _
      have hnames1 : tableNames (updName tbl p.name (setConst (irT p))) = tableNames tbl :=
        tableNames_updName _ _ _ (fun _ => rfl)
      obtain ⟨idxs, h1, h2⟩ := desInitializers_spec vis q hvis ps
        (updName tbl p.name (setConst (irT p))) hwf' hrest hnd.2 (by rw [hnames1]; exact htbl)
      have htbl_eq : (updName tbl p.name (setConst (irT p))).map (constFrom ps) = tbl.map (constFrom (p :: ps)) := by
        simp only [updName, List.map_map]
        apply List.map_congr_left
        intro v _
        simp only [Function.comp]
        by_cases hvn : v.name = p.name
        · have h1' : constFrom ps (setConst (irT p) v) = setConst (irT p) v :=
            constFrom_of_not_mem (by show v.name ∉ _; rw [hvn]; exact hnd.1)
          rw [if_pos hvn, h1']
          simp [constFrom, hvn]
        · have : ¬ p.name = v.name := fun e => hvn e.symm
          simp [hvn, constFrom, List.find?_cons, this]
      have hnew : newInits (tableNames tbl) (p :: ps) = newInits (tableNames tbl) ps := by
        simp [newInits, List.filter_cons, hmem]
      refine ⟨i :: idxs, ?_, ?_⟩
      · simp only [List.map_cons, desInitializers, hname, hpn, if_false, hl,
          (irT_dtype p hw hv).1, bind, Except.bind]
        have := h1
        rw [hnames1, htbl_eq] at this
        simp only [setConst] at hupd
        simp only [hupd, this, bind, Except.bind, hnew]
      · rw [hnames1, htbl_eq] at h2
        simp only [List.map_cons, h2, hnew, List.cons.injEq, and_true]
        symm
        apply lookupLast_of_nodup
        · rw [hnamesF]
          rw [List.nodup_append]
          refine ⟨htbl, ?_, ?_⟩
          · exact (List.Nodup.sublist (List.Sublist.map _ List.filter_sublist) hnd.2)
          · intro a ha b hb e
            subst e
            obtain ⟨p', hp', rfl⟩ := List.mem_map.1 hb
            simp only [newInits, List.mem_filter, Bool.not_eq_true', List.contains_eq_mem,
              decide_eq_false_iff_not] at hp'
            exact hp'.2 ha
        · rw [hnamesF]
          have := lookupLast_getElem hl
          rw [List.getElem?_append_left (lookupLast_lt hl)]
          exact this
    | none =>
      have hnm : p.name ∉ tableNames tbl := by
        intro hm
        obtain ⟨i, hi⟩ := lookupLast_exists hm
        rw [hl] at hi; cases hi
      have hdt := irT_dtype p hw hv
      have hnames1 : tableNames (tbl ++ [initValT vis q p]) = tableNames tbl ++ [p.name] := by
        simp [tableNames]
      have htbl1 : (tableNames (tbl ++ [initValT vis q p])).Nodup := by
        rw [hnames1, List.nodup_append]
        refine ⟨htbl, by simp, ?_⟩
        intro a ha b hb e
        simp only [List.mem_singleton] at hb
        subst hb; subst e; exact hnm ha
      obtain ⟨idxs, h1, h2⟩ := desInitializers_spec vis q hvis ps
        (tbl ++ [initValT vis q p]) hwf' hrest hnd.2 htbl1
      have hcf1 : ∀ v ∈ tbl, constFrom ps v = constFrom (p :: ps) v := by
        intro v hv'
        have : ¬ p.name = v.name := by
          intro e; exact hnm (by rw [e]; exact List.mem_map_of_mem hv')
        simp [constFrom, List.find?_cons, this]
      have hcf2 : constFrom ps (initValT vis q p) = initValT vis q p :=
        constFrom_of_not_mem (by rw [initValT_name]; exact hnd.1)
      have hnew1 : newInits (tableNames (tbl ++ [initValT vis q p])) ps = newInits (tableNames tbl) ps := by
        simp only [newInits, hnames1]
        apply List.filter_congr
        intro p' hp'
        have : ¬ p'.name = p.name := by
          intro e; exact hnd.1 (by rw [← e]; exact List.mem_map_of_mem hp')
        simp [this]
      have hnew : newInits (tableNames tbl) (p :: ps) = p :: newInits (tableNames tbl) ps := by
        simp [newInits, List.filter_cons, hnm]
      have hfinal : (tbl ++ [initValT vis q p]).map (constFrom ps)
            ++ (newInits (tableNames (tbl ++ [initValT vis q p])) ps).map (initValT vis q)
          = tbl.map (constFrom (p :: ps)) ++ (newInits (tableNames tbl) (p :: ps)).map (initValT vis q) := by
        rw [hnew1, hnew]
        simp only [List.map_append, List.map_cons, List.map_nil, hcf2, List.append_assoc,
          List.singleton_append]
        congr 1
        exact List.map_congr_left hcf1
      rw [hfinal] at h1 h2
      refine ⟨tbl.length :: idxs, ?_, ?_⟩
      · simp only [List.map_cons, desInitializers, hname, hpn, if_false, hl, hdt.1,
          newInitValue_eq vis q hvis p hw hv, h1, bind, Except.bind]
      · simp only [List.map_cons, h2, List.cons.injEq, and_true]
        symm
        apply lookupLast_of_nodup
        · rw [← hfinal, hnamesF]
          rw [hnew1, hnames1, List.nodup_append]
          refine ⟨by rw [← hnames1]; exact htbl1, ?_, ?_⟩
          · exact (List.Nodup.sublist (List.Sublist.map _ List.filter_sublist) hnd.2)
          · intro a ha b hb e
            subst e
            obtain ⟨p', hp', rfl⟩ := List.mem_map.1 hb
            simp only [newInits, List.mem_filter, Bool.not_eq_true', List.contains_eq_mem,
              decide_eq_false_iff_not] at hp'
            simp only [List.mem_append, List.mem_singleton] at ha
            rcases ha with ha | ha
            · exact hp'.2 ha
            · exact hnd.1 (by rw [← ha]; exact List.mem_map_of_mem hp'.1)
        · rw [hnamesF, hnew]
          simp [tableNames]

/-! ### phase C: declaring the node outputs -/

theorem declareOutputs_spec (vis : List ValueInfoP) (q : List AnnotP) (hvis : vis.all wfVI = true) :
    ∀ (outs : List String) (tbl : List IRValue),
      (∀ n ∈ outs.filter (· ≠ ""), n ∉ tableNames tbl) → (outs.filter (· ≠ "")).Nodup →
      declareOutputs vis q outs tbl = .ok (tbl ++ (outs.filter (· ≠ "")).map (newValueT vis q))
  | [], tbl, _, _ => by simp [declareOutputs]
  | n :: ns, tbl, hdis, hnd => by
    by_cases hn : n = ""
    · subst hn
      simp only [declareOutputs, if_true]
      have : (("" : String) :: ns).filter (· ≠ "") = ns.filter (· ≠ "") := by simp
      rw [this] at hdis hnd ⊢
      exact declareOutputs_spec vis q hvis ns tbl hdis hnd
    · have hf : (n :: ns).filter (· ≠ "") = n :: ns.filter (· ≠ "") := by simp [hn]
      rw [hf] at hdis hnd ⊢
      rw [List.nodup_cons] at hnd
      have hnm : n ∉ tableNames tbl := hdis n (by simp)
      simp only [declareOutputs, hn, if_false, lookupLast_none hnm, newValue_eq vis q n hvis, bind,
        Except.bind]
      rw [declareOutputs_spec vis q hvis ns (tbl ++ [newValueT vis q n])]
      · simp
      · intro m hm hmem
        simp only [tableNames_append, List.mem_append] at hmem
        rcases hmem with hmem | hmem
        · exact hdis m (List.mem_cons_of_mem _ hm) hmem
        · simp [tableNames] at hmem
          subst hmem
          exact hnd.1 hm
      · exact hnd.2

theorem nodeOutNames_cons (n : NodeP) (ns : List NodeP) :
    nodeOutNames (n :: ns) = n.outputs.filter (· ≠ "") ++ nodeOutNames ns := by
  simp [nodeOutNames]

theorem declareAll_spec (vis : List ValueInfoP) (q : List AnnotP) (hvis : vis.all wfVI = true) :
    ∀ (nodes : List NodeP) (tbl : List IRValue),
      (∀ n ∈ nodeOutNames nodes, n ∉ tableNames tbl) → (nodeOutNames nodes).Nodup →
      declareAll vis q nodes tbl = .ok (tbl ++ (nodeOutNames nodes).map (newValueT vis q))
  | [], tbl, _, _ => by simp [declareAll, nodeOutNames]
  | n :: ns, tbl, hdis, hnd => by
    rw [nodeOutNames_cons] at hdis hnd ⊢
    rw [List.nodup_append] at hnd
    obtain ⟨hnd1, hnd2, hnd3⟩ := hnd
    simp only [declareAll, bind, Except.bind]
    rw [declareOutputs_spec vis q hvis n.outputs tbl
      (fun m hm => hdis m (List.mem_append_left _ hm)) hnd1]
    simp only
    rw [declareAll_spec vis q hvis ns]
    · simp
    · intro m hm hmem
      simp only [tableNames_append, List.mem_append] at hmem
      rcases hmem with hmem | hmem
      · exact hdis m (List.mem_append_right _ hm) hmem
      · simp only [tableNames, List.map_map, List.mem_map, Function.comp] at hmem
        obtain ⟨a, ha, hae⟩ := hmem
        simp only [newValueT_name] at hae
        subst hae
        exact hnd3 a ha a hm rfl
    · exact hnd2

/-! ### phase E: graph outputs -/

/-- a value that is a graph output takes the info of the output entry -/
def outUpd (outputs : List ValueInfoP) (v : IRValue) : IRValue :=
  match outputs.find? (fun vi => vi.name = v.name) with
  | some vi => applyInfoT v vi
  | none => v

@[simp] theorem outUpd_name (outputs : List ValueInfoP) (v : IRValue) : (outUpd outputs v).name = v.name := by
  unfold outUpd; split <;> rfl

def gOutT (names : List String) (vi : ValueInfoP) : IRGOut :=
  match lookupLast names vi.name with
  | some i => .tbl i
  | none => .dangling (applyInfoT (IRValue.blank vi.name) vi)

/-- what the output phase does to a value in general (E4: several entries may carry its name): every
entry of its name is applied, in order -/
def outUpdAll (outputs : List ValueInfoP) (v : IRValue) : IRValue :=
  (outputs.filter (fun vi => vi.name = v.name)).foldl applyInfoT v

@[simp] theorem outUpdAll_name (outputs : List ValueInfoP) (v : IRValue) :
    (outUpdAll outputs v).name = v.name := foldl_applyInfoT_name _ v

/-- entries with one name are identical -/
def ConsOut (outputs : List ValueInfoP) : Prop :=
  ∀ a ∈ outputs, ∀ b ∈ outputs, a.name = b.name → a = b

theorem consOutputs_iff {l : List ValueInfoP} : consOutputs l = true ↔ ConsOut l := by
  induction l with
  | nil => simp [consOutputs, ConsOut]
  | cons x xs ih =>
    simp only [consOutputs, Bool.and_eq_true, List.all_eq_true, decide_eq_true_eq, ih]
    constructor
    · rintro ⟨h1, h2⟩ a ha b hb hn
      rcases List.mem_cons.1 ha with ea | ha' <;> rcases List.mem_cons.1 hb with eb | hb'
      · rw [ea, eb]
      · rw [ea] at hn ⊢; exact (h1 b hb' hn.symm).symm
      · rw [eb] at hn ⊢; exact h1 a ha' hn
      · exact h2 a ha' b hb' hn
    · intro h
      exact ⟨fun w hw hn => h w (List.mem_cons_of_mem _ hw) x List.mem_cons_self hn,
        fun a ha b hb hn => h a (List.mem_cons_of_mem _ ha) b (List.mem_cons_of_mem _ hb) hn⟩

theorem consOut_of_nodup {l : List ValueInfoP} (h : (l.map (·.name)).Nodup) : ConsOut l := by
  intro a ha b hb hn
  induction l with
  | nil => cases ha
  | cons x xs ih =>
    simp only [List.map_cons, List.nodup_cons] at h
    rcases List.mem_cons.1 ha with ea | ha' <;> rcases List.mem_cons.1 hb with eb | hb'
    · rw [ea, eb]
    · exact absurd (by rw [← ea, hn]; exact List.mem_map_of_mem hb') h.1
    · exact absurd (by rw [← eb, ← hn]; exact List.mem_map_of_mem ha') h.1
    · exact ih h.2 ha' hb'

theorem ConsOut.tail {x : ValueInfoP} {xs : List ValueInfoP} (h : ConsOut (x :: xs)) : ConsOut xs :=
  fun a ha b hb hn => h a (List.mem_cons_of_mem _ ha) b (List.mem_cons_of_mem _ hb) hn

/-- consistent entries: all entries of one name are copies of the first one found -/
theorem filter_of_consOut {outputs : List ValueInfoP} (h : ConsOut outputs) {vo : ValueInfoP}
    (hvo : vo ∈ outputs) :
    ∃ k, outputs.filter (fun vi => vi.name = vo.name) = List.replicate (k + 1) vo := by
  have hall : ∀ x ∈ outputs.filter (fun vi => vi.name = vo.name), x = vo := by
    intro x hx
    obtain ⟨hx1, hx2⟩ := List.mem_filter.1 hx
    exact h x hx1 vo hvo (by simpa using hx2)
  have hmem : vo ∈ outputs.filter (fun vi => vi.name = vo.name) := List.mem_filter.2 ⟨hvo, by simp⟩
  have hrep := List.eq_replicate_iff.2 ⟨rfl, hall⟩
  have hlen : (outputs.filter (fun vi => vi.name = vo.name)).length ≠ 0 := by
    intro e
    rw [List.length_eq_zero_iff] at e
    rw [e] at hmem; cases hmem
  exact ⟨(outputs.filter (fun vi => vi.name = vo.name)).length - 1, by
    rw [hrep]; congr 1; simp only [List.length_replicate]; omega⟩

theorem outUpdAll_of_cons {outputs : List ValueInfoP} (h : ConsOut outputs) (v : IRValue) :
    outUpdAll outputs v = outUpd outputs v := by
  unfold outUpdAll outUpd
  cases hf : outputs.find? (fun vi => vi.name = v.name) with
  | none =>
    have : outputs.filter (fun vi => vi.name = v.name) = [] := by
      rw [List.filter_eq_nil_iff]
      intro a ha
      exact List.find?_eq_none.1 hf a ha
    rw [this]; rfl
  | some vo =>
    have hvo : vo ∈ outputs := List.mem_of_find?_eq_some hf
    have hn : vo.name = v.name := by simpa using List.find?_some hf
    obtain ⟨k, hk⟩ := filter_of_consOut h hvo
    rw [hn] at hk
    rw [hk, foldl_applyInfoT_replicate]

/-- the output phase in general: no condition on the names of the entries -/
theorem desGraphOutputs_specAll : ∀ (outputs : List ValueInfoP) (tbl : List IRValue),
    outputs.all wfVI = true → (tableNames tbl).Nodup →
    desGraphOutputs outputs tbl =
      .ok (outputs.map (gOutT (tableNames tbl)), tbl.map (outUpdAll outputs))
  | [], tbl, _, _ => by
    have : outUpdAll [] = id := by funext v; simp [outUpdAll]
    simp [desGraphOutputs, this]
  | vi :: vis, tbl, hwf, htbl => by
    simp only [List.all_cons, Bool.and_eq_true] at hwf
    have hwt : wfType vi.type = true := by
      have := hwf.1; simp only [wfVI, Bool.and_eq_true] at this; exact this.1
    cases hl : lookupLast (tableNames tbl) vi.name with
    | some i =>
      have hupd := listSet_eq_updName htbl hl (fun v => applyInfoT v vi)
      have hnames1 : tableNames (updName tbl vi.name (fun v => applyInfoT v vi)) = tableNames tbl :=
        tableNames_updName _ _ _ (fun _ => rfl)
      have ih := desGraphOutputs_specAll vis (updName tbl vi.name (fun v => applyInfoT v vi)) hwf.2
        (by rw [hnames1]; exact htbl)
      have htbl_eq : (updName tbl vi.name (fun v => applyInfoT v vi)).map (outUpdAll vis)
          = tbl.map (outUpdAll (vi :: vis)) := by
        simp only [updName, List.map_map]
        apply List.map_congr_left
        intro v _
        simp only [Function.comp]
        by_cases hvn : v.name = vi.name
        · rw [if_pos hvn]
          simp [outUpdAll, hvn]
        · have : ¬ vi.name = v.name := fun e => hvn e.symm
          simp [hvn, outUpdAll, this]
      simp only [desGraphOutputs, hl, (applyInfo_eq _ vi hwt).1, bind, Except.bind]
      rw [hupd, ih, hnames1, htbl_eq]
      simp [gOutT, hl]
    | none =>
      have hnm : vi.name ∉ tableNames tbl := by
        intro hm
        obtain ⟨i, hi⟩ := lookupLast_exists hm
        rw [hl] at hi; cases hi
      have ih := desGraphOutputs_specAll vis tbl hwf.2 htbl
      have htbl_eq : tbl.map (outUpdAll vis) = tbl.map (outUpdAll (vi :: vis)) := by
        apply List.map_congr_left
        intro v hv
        have : ¬ vi.name = v.name := by
          intro e; exact hnm (by rw [e]; exact List.mem_map_of_mem hv)
        simp [outUpdAll, this]
      simp only [desGraphOutputs, hl, (applyInfo_eq _ vi hwt).1, bind, Except.bind, ih, htbl_eq]
      simp [gOutT, hl]

theorem desGraphOutputs_spec (outputs : List ValueInfoP) (tbl : List IRValue)
    (hwf : outputs.all wfVI = true) (hc : ConsOut outputs) (htbl : (tableNames tbl).Nodup) :
    desGraphOutputs outputs tbl =
      .ok (outputs.map (gOutT (tableNames tbl)), tbl.map (outUpd outputs)) := by
  rw [desGraphOutputs_specAll outputs tbl hwf htbl]
  congr 2
  apply List.map_congr_left
  intro v _
  exact outUpdAll_of_cons hc v

/-- the IR-version gate lets multi-device fields through -/
def verAllows : Option Int → Bool
  | none => true
  | some v => decide (11 ≤ v)

/-- what the node list of a well-formed graph must satisfy (provided by the mutual induction) -/
def NodesOK (outer : Scopes) (vis : List ValueInfoP) (q : List AnnotP) (nodes : List NodeP)
    (ver : Option Int) : Prop :=
  ∀ tbl : List IRValue, wfNodes (tableNames tbl :: outer) nodes = true →
    ∃ xs, desNodes outer vis q nodes tbl = .ok (xs, tbl) ∧
      serNodes (tableNames tbl :: outer) ver xs = .ok (normNodes nodes) ∧
      xs.flatMap IRNode.outputs =
        (nodes.flatMap NodeP.outputs).map
          (fun s => if s = "" then none else lookupLast (tableNames tbl) s)

end IrVerif.Serde

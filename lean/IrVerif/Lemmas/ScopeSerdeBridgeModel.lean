import IrVerif.Lemmas.ScopeSerdeBridgeSub7
import IrVerif.Model.ScopeSerdeBridgeModel
import IrVerif.Lemmas.SerdeModel
/-!
The C02 bridge for models with functions (IR version >= 10), part 1: deserialization.
`function_br`: a function deserialized at arbitrary counters; `funcs_br`: the function list;
`C03_bridge_deserialize_model`.
-/
namespace IrVerif.Bridge
open IrVerif.Proto IrVerif.Serde

/-! ## function inputs and outputs -/

theorem phF_inputs (vis : List ValueInfoP) : ∀ (xs : List String) (st : Scope.Store) (cs : List Cell),
    CoreEq st cs →
    (Scope.deserFInputs st (Scope.vinfoTable (vis.map absVI)) xs).2 = List.range' cs.length xs.length ∧
    CoreEq (Scope.deserFInputs st (Scope.vinfoTable (vis.map absVI)) xs).1
      (cs ++ (xs.map (newValueT vis [])).map absCell) ∧
    (Scope.deserFInputs st (Scope.vinfoTable (vis.map absVI)) xs).1.nn = st.nn ∧
    (Scope.deserFInputs st (Scope.vinfoTable (vis.map absVI)) xs).1.ng = st.ng
  | [], st, cs, h => by simp [Scope.deserFInputs, h]
  | x :: xs, st, cs, h => by
    have h1 : CoreEq (Scope.newNamed st (Scope.vinfoTable (vis.map absVI)) x)
        (cs ++ [absCell (newValueT vis [] x)]) := by
      rw [newNamed_eq]
      simpa [absCell_newValueT] using
        coreEq_alloc h { name := some x, info := ((findVI vis x).map absInfo).getD {} } (by intro t ht; cases ht)
    obtain ⟨a, b, c, d⟩ := phF_inputs vis xs _ _ h1
    simp only [Scope.deserFInputs, List.map_cons]
    refine ⟨?_, ?_, ?_, ?_⟩
    · rw [a]; simp [List.range'_succ, h.nv]
    · simpa using b
    · rw [c, newNamed_eq]; rfl
    · rw [d, newNamed_eq]; rfl

theorem phF_outputs (tbl : Scope.Table) (names : List String) (b : Nat) (ht : TblRelB tbl names b) :
    ∀ outs : List String, (∀ n ∈ outs, n ∈ names) →
    ∃ gouts, functionOutputs names outs = .ok gouts ∧
      (∀ k, Scope.deserFOutputs tbl outs = .ok (absGOutsB b k gouts)) ∧ dangCells gouts = [] ∧
      gouts.all isTbl = true ∧ gouts.all (goutOK names.length) = true
  | [], _ => ⟨[], rfl, fun _ => rfl, rfl, rfl, rfl⟩
  | n :: ns, h => by
    obtain ⟨gouts, h1, h2, h3, h4, h5⟩ :=
      phF_outputs tbl names b ht ns (fun m hm => h m (List.mem_cons_of_mem _ hm))
    obtain ⟨i, hi⟩ := lookupLast_exists (h n (by simp))
    refine ⟨.tbl i :: gouts, by simp [functionOutputs, hi, h1, bind, Except.bind], ?_,
      by simpa [dangCells] using h3, by simp [isTbl, h4], by simp [goutOK, h5, lookupLast_lt hi]⟩
    intro k
    simp [Scope.deserFOutputs, tblRelB_lookup ht, hi, h2 k, absGOutsB]

/-! ## one function, deserialized at arbitrary counters -/

theorem function_br (ver : Int) (f : FunctionP) (h : wfFunction ver f = true) (st : Scope.Store) (P : List Cell)
    (hc : CoreEq st P) :
    ∃ x st', desFunction f = .ok x ∧
      Scope.deserFunction st (absF f) = .ok (st', treeG [] P.length st.nn st.ng x.graph) ∧
      CoreEq st' (P ++ cellsG x.graph) ∧ st'.nn = st.nn + nnG x.graph ∧ st'.ng = st.ng + ngG x.graph ∧
      fnKey x = (f.domain, f.name, f.overload) ∧ fidOf x = fidP f := by
  simp only [wfFunction, Bool.and_eq_true] at h
  obtain ⟨⟨⟨⟨⟨⟨⟨⟨⟨⟨⟨⟨h1, _h2⟩, h3⟩, _h4⟩, h5⟩, _h6⟩, h7⟩, _h8⟩, _h9⟩, _h10⟩, _h11⟩, h12⟩, _h13⟩ := h
  have hnd := nodupStr_iff.1 h1
  rw [List.nodup_append] at hnd
  obtain ⟨_hndI, hndO, hdis⟩ := hnd
  have hI := functionInputs_eq f.valueInfo h7 f.inputs
  have hNI : tableNames (f.inputs.map (newValueT f.valueInfo [])) = f.inputs := by
    simp [tableNames, List.map_map, Function.comp_def]
  have hC := declareAll_spec f.valueInfo [] h7 f.nodes (f.inputs.map (newValueT f.valueInfo []))
    (by intro n hn hm; rw [hNI] at hm; exact hdis n hm n hn rfl) hndO
  have hN : tableNames (f.inputs.map (newValueT f.valueInfo [])
      ++ (nodeOutNames f.nodes).map (newValueT f.valueInfo [])) = f.inputs ++ nodeOutNames f.nodes := by
    simp [tableNames, List.map_map, Function.comp_def]
  obtain ⟨TP, hTP⟩ : ∃ TP, TP = f.inputs.map (newValueT f.valueInfo [])
      ++ (nodeOutNames f.nodes).map (newValueT f.valueInfo []) := ⟨_, rfl⟩
  rw [← hTP] at hC hN
  obtain ⟨as, a1, _, _⟩ := attrs_rt [] none f.attrProtos h5 (Or.inl rfl)
  -- Scope side
  obtain ⟨p1a, p1b, p1c, p1d⟩ := phF_inputs f.valueInfo f.inputs st P hc
  generalize hI' : Scope.deserFInputs st (Scope.vinfoTable (f.valueInfo.map absVI)) f.inputs = rI
    at p1a p1b p1c p1d
  obtain ⟨st1, ins⟩ := rI
  simp only at p1a p1b p1c p1d
  subst p1a
  have ht1 : TblRelB (Scope.finputTable f.inputs (List.range' P.length f.inputs.length))
      (tableNames (f.inputs.map (newValueT f.valueInfo []))) P.length := by
    rw [hNI]; rfl
  obtain ⟨st2, tbl2, p3a, p3b, p3c, p3d, p3e⟩ :=
    ph3B_declareAll f.valueInfo [] h7 P f.nodes _ st1 _ _ p1b ht1 hC
  obtain ⟨xs, st3, n1, p4a, p4b, p4c, p4d⟩ := nodes_br [] [] [] .nil f.valueInfo [] f.nodes TP st2
    (P ++ TP.map absCell) tbl2 P.length (by rw [hN]; exact h12) p3b p3c
  obtain ⟨gouts, o1, o2, o3, _, _⟩ := phF_outputs tbl2 (tableNames TP) P.length p3c f.outputs
    (by intro n hn; rw [hN]; have := List.all_eq_true.1 h3 n hn; simpa using this)
  have hnn3 : st2.nn = st.nn := by rw [p3d, p1c]
  have hng3 : st2.ng = st.ng := by rw [p3e, p1d]
  obtain ⟨OUTS, hOUTS⟩ : ∃ OUTS, OUTS = absGOutsB P.length (P.length + TP.length + (cellsNodes xs).length) gouts :=
    ⟨_, rfl⟩
  obtain ⟨NS, hNS⟩ : ∃ NS, NS = treeNodes [P.length] (P ++ TP.map absCell).length st2.nn st2.ng xs := ⟨_, rfl⟩
  rw [← hNS] at p4a
  have ho := o2 (P.length + TP.length + (cellsNodes xs).length)
  rw [← hOUTS] at ho
  have hS : Scope.deserFunction st (absF f)
      = .ok (Scope.mkGraph st3 (List.range' P.length f.inputs.length) OUTS NS []) := by
    simp only [Scope.deserFunction, absF, hI', p3a, p4a, ho]
  have hsame := mkGraph_same st3 (List.range' P.length f.inputs.length) OUTS NS []
  have hcnt := Scope.mkGraph_fst_counters st3 (List.range' P.length f.inputs.length) OUTS NS []
  have hinits : Scope.mkGraphInits st3 (List.range' P.length f.inputs.length) OUTS [] = [] := by
    simp [Scope.mkGraphInits, Scope.initDict]
  refine ⟨⟨f.domain, f.name, f.overload,
      .mk TP (List.range f.inputs.length) [] xs gouts
        (if f.overload.isEmpty then "" else f.name ++ "_" ++ f.domain ++ "__" ++ f.overload) f.doc
        (opsetDict f.opsetImport) (dictOfEntries f.metadata),
      attrDict (as ++ f.attrNames.map fun n => IRAttr.undefined n "")⟩, _, ?_, ?_,
    coreEq_same (by simpa [cellsG, o3, List.append_assoc] using p4b) hsame, ?_, ?_, rfl, rfl⟩
  · simp only [desFunction, hI, hC, n1, o1, a1, bind, Except.bind]
  · rw [hS]
    have : (Scope.mkGraph st3 (List.range' P.length f.inputs.length) OUTS NS [])
        = ((Scope.mkGraph st3 (List.range' P.length f.inputs.length) OUTS NS []).1,
           (Scope.mkGraph st3 (List.range' P.length f.inputs.length) OUTS NS []).2) := rfl
    rw [this, Scope.mkGraph_snd, hinits]
    simp only [treeG, hOUTS, hNS, hnn3, hng3, p4d, List.length_append, List.length_map, List.map_nil]
    simp [List.range'_eq_map_range]
  · rw [hcnt.2.1, p4c, hnn3]; simp [nnG]
  · rw [hcnt.2.2, p4d, hng3]; simp [ngG]; omega

/-! ## the function list -/

theorem fdictInsert_fresh : ∀ (d : List (Scope.FId × Scope.GraphT)) (k : Scope.FId) (g : Scope.GraphT),
    k ∉ d.map (·.1) → Scope.fdictInsert d k g = d ++ [(k, g)]
  | [], _, _, _ => rfl
  | (k', g') :: r, k, g, h => by
    simp only [List.map_cons, List.mem_cons, not_or] at h
    simp only [Scope.fdictInsert, Ne.symm h.1, if_false, List.cons_append]
    rw [fdictInsert_fresh r k g h.2]

theorem funcs_br (ver : Int) : ∀ (fs : List FunctionP) (st : Scope.Store) (P : List Cell)
      (d : List (Scope.FId × Scope.GraphT)),
    fs.all (wfFunction ver) = true → CoreEq st P → (d.map (·.1) ++ fs.map fidP).Nodup →
    ∃ xs st', desFunctions fs = .ok xs ∧
      Scope.deserFuncs st d (fs.map absF) = .ok (st', d ++ treeFs P.length st.nn st.ng xs) ∧
      CoreEq st' (P ++ cellsFs xs) ∧ xs.map fnKey = fs.map (fun f => (f.domain, f.name, f.overload))
  | [], st, P, d, _, hc, _ =>
    ⟨[], st, rfl, by simp [Scope.deserFuncs, treeFs], by simpa [cellsFs] using hc, rfl⟩
  | f :: fs, st, P, d, h, hc, hnd => by
    simp only [List.all_cons, Bool.and_eq_true] at h
    obtain ⟨x, st1, g1, g2, g3, g4, g5, g6, g7⟩ := function_br ver f h.1 st P hc
    have hk : fidP f ∉ d.map (·.1) := by
      intro hm
      rw [List.map_cons, List.nodup_append] at hnd
      exact hnd.2.2 _ hm _ (by simp) rfl
    obtain ⟨xs, st2, r1, r2, r3, r4⟩ := funcs_br ver fs st1 _
      (d ++ [(fidP f, treeG [] P.length st.nn st.ng x.graph)]) h.2 g3
      (by simpa [List.append_assoc] using hnd)
    refine ⟨x :: xs, st2, by simp [desFunctions, g1, r1, bind, Except.bind], ?_,
      by simpa [cellsFs, List.append_assoc] using r3, by simp [g6, r4]⟩
    simp only [List.map_cons, Scope.deserFuncs, g2]
    have : (absF f).id = fidP f := rfl
    rw [this, fdictInsert_fresh _ _ _ hk, r2]
    simp [treeFs, g4, g5, g7, List.append_assoc]

/-! ## the main graph of a model: `setOpsets` is invisible -/

theorem setOpsets_inv (g : IRGraph) (ops : List OpsetP) :
    cellsG (g.setOpsets ops) = cellsG g ∧ nnG (g.setOpsets ops) = nnG g ∧ ngG (g.setOpsets ops) = ngG g ∧
      (∀ B k nn ng, treeG B k nn ng (g.setOpsets ops) = treeG B k nn ng g) ∧
      ∀ lens, okG lens (g.setOpsets ops) = okG lens g := by
  cases g
  simp [IRGraph.setOpsets, cellsG, nnG, ngG, treeG, okG]

theorem fid_nodup {fs : List FunctionP} (h : (fs.map fun f => (f.domain, f.name, f.overload)).Nodup) :
    (fs.map fidP).Nodup := by
  apply nodup_of_map (fun i : Scope.FId => (i.domain, i.name, i.overload))
  rw [List.map_map]
  exact h

end IrVerif.Bridge

namespace IrVerif.Scope
open IrVerif.Proto

/-- a function deserialized at arbitrary counters (store `st` showing the cells `P`): both models deserialize
    it, the Scope model's graph is `treeG` of C02's function graph entered at the current counters, the new
    cells are `cellsG` of it -/
theorem C03_bridge_deserialize_function (ver : Int) (f : Proto.FunctionP) (h : Serde.wfFunction ver f = true)
    (st : Store) (P : List Bridge.Cell) (hc : Bridge.CoreEq st P) :
    ∃ x st', Serde.desFunction f = .ok x ∧
      deserFunction st (Bridge.absF f) = .ok (st', Bridge.treeG [] P.length st.nn st.ng x.graph) ∧
      Bridge.CoreEq st' (P ++ Bridge.cellsG x.graph) := by
  obtain ⟨x, st', a, b, c, _⟩ := Bridge.function_br ver f h st P hc
  exact ⟨x, st', a, b, c⟩

/-- **C02 bridge, deserialization of models with functions** (IR version >= 10) -/
theorem C03_bridge_deserialize_model (m : Proto.ModelP) (h : Bridge.sharedM m = true) :
    ∃ x w, Serde.desModel m = .ok x ∧ deserializeM (Bridge.absM m) = .ok w ∧
      Bridge.coreOfM w = Bridge.absIRM x := by
  simp only [Bridge.sharedM, Bool.and_eq_true, decide_eq_true_eq] at h
  obtain ⟨hwf, hver⟩ := h
  simp only [Serde.wfModel, Bool.and_eq_true] at hwf
  obtain ⟨⟨⟨⟨⟨⟨hg, hf⟩, _⟩, _⟩, hkeys⟩, _⟩, _⟩ := hwf
  obtain ⟨g, st1, g1, g2, g3, g4, g5⟩ := Bridge.graph_br [] [] [] .nil m.graph hg {} [] Bridge.coreEq_empty
  have hknd := Serde.nodupKeys_iff.1 hkeys
  obtain ⟨fs, st2, f1, f2, f3, f4⟩ := Bridge.funcs_br m.irVersion m.functions st1 _ [] hf g3
    (by simpa using Bridge.fid_nodup hknd)
  have hdict : Serde.functionDict [] fs = fs := by
    rw [Serde.functionDict_append fs [] (by simpa [f4] using hknd)]; simp
  have hlt : ¬ m.irVersion < 10 := by omega
  obtain ⟨i1, i2, i3, i4, _⟩ := Bridge.setOpsets_inv g (Serde.opsetDict m.opsetImport)
  refine ⟨{ graph := g.setOpsets (Serde.opsetDict m.opsetImport),
            irVersion := m.irVersion, producerName := m.producerName,
            producerVersion := m.producerVersion, domain := m.domain, modelVersion := m.modelVersion,
            doc := m.doc, functions := fs, mprops := Serde.dictOfEntries m.metadata,
            configs := m.configuration.map Serde.desModelCfg },
    ⟨st2, Bridge.treeG [] 0 0 0 g, Bridge.treeFs (Bridge.cellsG g).length (Bridge.nnG g) (Bridge.ngG g) fs⟩, ?_, ?_, ?_⟩
  · simp only [Serde.desModel, g1, f1, hdict, hlt, if_false, bind, Except.bind]
  · simp only [deserializeM, Bridge.absM, g2]
    simp only [List.nil_append] at f2
    rw [f2]
    simp [g4, g5]
  · simp only [Bridge.coreOfM, Bridge.absIRM, i1, i2, i3, i4]
    rw [Bridge.coreEq_cells f3]
    simp

end IrVerif.Scope

/-
C09 helper development (general model): pool accounting `PInv` (per pool: idle + exited + running
jobs = size) and the waiters' invariant `WInv`.
-/
import IrVerif.Lemmas.WriterNLocks
namespace IrVerif.WriterN

def act : Pc → Bool
  | .notStarted | .done _ => false
  | _ => true

@[simp] theorem act_notStarted : act .notStarted = false := rfl
@[simp] theorem act_done (b : Bool) : act (.done b) = false := rfl
@[simp] theorem act_cbAcqIn : act .cbAcqIn = true := rfl
@[simp] theorem act_cbAcq : act .cbAcq = true := rfl
@[simp] theorem act_cbBody : act .cbBody = true := rfl
@[simp] theorem act_tAcq : act .tAcq = true := rfl
@[simp] theorem act_bAcq : act .bAcq = true := rfl
@[simp] theorem act_waiting : act .waiting = true := rfl
@[simp] theorem act_woken : act .woken = true := rfl
@[simp] theorem act_write : act .write = true := rfl
@[simp] theorem act_bRel (b : Bool) : act (.bRel b) = true := rfl
theorem act_wake (p : Pc) : act (wake p) = act p := by cases p <;> rfl
@[simp] theorem act_firstPc (cfg : Cfg) (q : Nat) : act (firstPc cfg q) = true := rfl
@[simp] theorem act_afterT (cfg : Cfg) (q : Nat) : act (afterT cfg q) = true := by
  unfold afterT; split <;> rfl

/-- the owner of the pool is inside its executor (between creation and the end of `shutdown`) -/
def ownAct : OwnerPc → Bool
  | .submit _ | .collect | .join _ => true
  | _ => false

/-- the pool whose thread owns pool `q'` -/
def parentPool (cfg : Cfg) (q' : Nat) : Option Nat :=
  (cfg.pool q').parent.map fun jp => (cfg.jobc jp).pool

/-- tensor `i` is being written by a thread of pool `q` -/
def fActQ (cfg : Cfg) (q : Nat) (i : Nat) (p : Pc) : Nat :=
  if act p = true ∧ cfg.poolOf i = q then 1 else 0
/-- pool `q'` is currently owned by a thread of pool `q` -/
def fOwnQ (cfg : Cfg) (q : Nat) (q' : Nat) (P : PoolSt) : Nat :=
  if ownAct P.owner = true ∧ parentPool cfg q' = some q then 1 else 0

structure PInv (cfg : Cfg) (s : State) : Prop where
  pool : ∀ q, (s.pl q).owner ≠ .notCreated →
    (s.pl q).idle + (s.pl q).exited + wsum (fActQ cfg q) 0 s.tasks + wsum (fOwnQ cfg q) 0 s.pools
      = (cfg.pool q).size
  exited_sd : ∀ q, (s.pl q).exited > 0 → (s.pl q).shutdown = true
  sd_main : ∀ q, (s.pl q).shutdown = true ↔ ∃ e, (s.pl q).owner = .join e ∨ (s.pl q).owner = .closed e
  fin_exit : ∀ q e, (s.pl q).owner = .closed e → (s.pl q).exited = (cfg.pool q).size
  sub_lt : ∀ q k, (s.pl q).owner = .submit k → k < (cfg.pool q).jobs.length
  fresh0 : ∀ q, (s.pl q).owner = .notCreated →
    (s.pl q).idle = 0 ∧ (s.pl q).exited = 0 ∧ (s.pl q).shutdown = false ∧ (s.pl q).collected = []

theorem wsum_congr_idx {α : Type} (f g : Nat → α → Nat) :
    ∀ (l : List α) (k : Nat), (∀ i a, l[i]? = some a → f (k + i) a = g (k + i) a) →
      wsum f k l = wsum g k l
  | [], _, _ => rfl
  | a :: as, k, h => by
      have h0 := h 0 a (by simp)
      have := wsum_congr_idx f g as (k + 1) (fun i b hi => by
        have := h (i + 1) b (by simpa using hi)
        have e : k + 1 + i = k + (i + 1) := by omega
        rw [e]; exact this)
      simp only [wsum]; simp at h0; omega

theorem init_own_zero (cfg : Cfg) (wf : WF cfg) (q : Nat) : wsum (fOwnQ cfg q) 0 (init cfg).pools = 0 := by
  apply wsum_eq_zero
  intro q' P hP
  have hlt : q' < cfg.nPools := by simpa [init] using getElem?_lt hP
  have : P = initPool cfg q' := by
    simp [init, List.getElem?_map, List.getElem?_range hlt] at hP; exact hP.symm
  subst this
  simp only [Nat.zero_add, fOwnQ]
  unfold initPool
  split
  · rename_i h0; subst h0
    simp [parentPool, wf.root]
  · simp [ownAct]

theorem PInv_init {cfg : Cfg} (wf : WF cfg) : PInv cfg (init cfg) := by
  have hpl : ∀ q, (init cfg).pl q = if q < cfg.nPools then initPool cfg q else default := init_pl cfg
  have hcases : ∀ q, (init cfg).pl q = initPool cfg 0 ∧ q = 0 ∨
      (((init cfg).pl q).owner = .notCreated ∧ ((init cfg).pl q).idle = 0 ∧ ((init cfg).pl q).exited = 0 ∧
        ((init cfg).pl q).shutdown = false ∧ ((init cfg).pl q).collected = []) := by
    intro q; rw [hpl]
    by_cases h : q < cfg.nPools
    · simp only [h, if_true]
      by_cases h0 : q = 0
      · subst h0; exact Or.inl ⟨rfl, rfl⟩
      · right; unfold initPool; simp [h0]
    · simp only [h, if_false]; right; simp
  refine ⟨?_, ?_, ?_, ?_, ?_, ?_⟩
  · intro q hq
    rcases hcases q with ⟨e, rfl⟩ | ⟨e, _⟩
    · rw [e, init_own_zero cfg wf]
      have : wsum (fActQ cfg 0) 0 (init cfg).tasks = 0 := by
        simp only [init]; rw [wsum_replicate]; intro i; simp [fActQ]
      rw [this]; simp [initPool]
    · exact absurd e hq
  · intro q hq
    rcases hcases q with ⟨e, rfl⟩ | ⟨_, _, e, _⟩
    · rw [e] at hq; simp [initPool] at hq
    · omega
  · intro q
    rcases hcases q with ⟨e, rfl⟩ | ⟨e1, _, _, e2, _⟩
    · rw [e]; simp [initPool]
    · rw [e1, e2]; simp
  · intro q e he
    rcases hcases q with ⟨e', rfl⟩ | ⟨e1, _⟩
    · rw [e'] at he; simp [initPool] at he
    · rw [e1] at he; simp at he
  · intro q k hk
    rcases hcases q with ⟨e', rfl⟩ | ⟨e1, _⟩
    · rw [e'] at hk; simp [initPool] at hk; subst hk; exact wf.jobs_pos 0 wf.pools_pos
    · rw [e1] at hk; simp at hk
  · intro q hq
    rcases hcases q with ⟨e', rfl⟩ | ⟨_, e2, e3, e4, e5⟩
    · rw [e'] at hq; simp [initPool] at hq
    · exact ⟨e2, e3, e4, e5⟩


theorem own_set {cfg : Cfg} {ps : List PoolSt} {q : Nat} {P : PoolSt} (hP : ps[q]? = some P)
    (P' : PoolSt) (q'' : Nat) :
    wsum (fOwnQ cfg q'') 0 (ps.set q P') + fOwnQ cfg q'' q P
      = wsum (fOwnQ cfg q'') 0 ps + fOwnQ cfg q'' q P' :=
  wsum_set0 (fOwnQ cfg q'') ps q P P' hP

theorem own_set_same {cfg : Cfg} {ps : List PoolSt} {q : Nat} {P P' : PoolSt} (hP : ps[q]? = some P)
    (ho : ownAct P'.owner = ownAct P.owner) (q'' : Nat) :
    wsum (fOwnQ cfg q'') 0 (ps.set q P') = wsum (fOwnQ cfg q'') 0 ps := by
  have := own_set (cfg := cfg) hP P' q''
  simp only [fOwnQ, ho] at this
  omega

theorem own_addIdle (cfg : Cfg) (ps : List PoolSt) (q q'' : Nat) :
    wsum (fOwnQ cfg q'') 0 (addIdle ps q) = wsum (fOwnQ cfg q'') 0 ps := by
  unfold addIdle
  by_cases h : q < ps.length
  · show wsum (fOwnQ cfg q'') 0
        (ps.set q { ps.getD q default with idle := (ps.getD q default).idle + 1 }) = _
    exact own_set_same (cfg := cfg) (ps := ps) (q := q) (P := ps.getD q default)
      (P' := { ps.getD q default with idle := (ps.getD q default).idle + 1 })
      (by simp [List.getD_eq_getElem?_getD, h]) rfl q''
  · rw [List.set_eq_of_length_le (by omega)]

theorem addIdle_get (ps : List PoolSt) (q q' : Nat) :
    (addIdle ps q).getD q' default =
      if q' = q ∧ q < ps.length then { ps.getD q default with idle := (ps.getD q default).idle + 1 }
      else ps.getD q' default := by
  simp only [addIdle, getD_set_pool]

/-- a tensor in progress belongs to a pool that exists -/
theorem SInv.act_created {cfg : Cfg} (wf : WF cfg) {s : State} (h : SInv cfg s) {i : Nat} {p : Pc}
    (hi : s.tasks[i]? = some p) (hp : act p = true) : (s.pl (cfg.poolOf i)).owner ≠ .notCreated := by
  intro e
  have hil : i < cfg.n := by rw [← h.tasks_len]; exact getElem?_lt hi
  have hpn : p ≠ .notStarted := by intro e'; subst e'; simp at hp
  have := (h.fresh _ e).2 (cfg.job i) (wf.pool_job _ (wf.job_lt i hil))
  exact h.started i p hi hpn this

/-- ... and so does a pool whose owner is inside its executor -/
theorem SInv.own_created {cfg : Cfg} (wf : WF cfg) {s : State} (h : SInv cfg s) {q q' : Nat}
    (hq' : q' < cfg.nPools) (ho : ownAct (s.pl q').owner = true) (hpp : parentPool cfg q' = some q) :
    (s.pl q).owner ≠ .notCreated := by
  intro e
  simp only [parentPool, Option.map_eq_some_iff] at hpp
  obtain ⟨jp, hjp, rfl⟩ := hpp
  have hjl := (wf.parent_sub q' jp hq' hjp).1
  have := (h.fresh _ e).2 jp (wf.pool_job jp hjl)
  exact h.created q' jp hjp (by intro e'; rw [e'] at ho; simp [ownAct] at ho) this

theorem fresh_sums_zero {cfg : Cfg} (wf : WF cfg) {s : State} (h : SInv cfg s) {q : Nat}
    (hq : (s.pl q).owner = .notCreated) :
    wsum (fActQ cfg q) 0 s.tasks = 0 ∧ wsum (fOwnQ cfg q) 0 s.pools = 0 := by
  constructor
  · apply wsum_eq_zero
    intro i p hi
    simp only [Nat.zero_add, fActQ]
    split
    · rename_i hc
      exact absurd (hc.2 ▸ hq) (h.act_created wf hi hc.1)
    · rfl
  · apply wsum_eq_zero
    intro q' P hP
    simp only [Nat.zero_add, fOwnQ]
    split
    · rename_i hc
      have hq'l : q' < cfg.nPools := by rw [← h.pools_len]; exact getElem?_lt hP
      exact absurd hq (h.own_created wf hq'l (by rw [pl_of_get hP]; exact hc.1) hc.2)
    · rfl

/-- steps of a pool thread on its tensor: pools untouched, activity per pool unchanged -/
theorem PInv_tasks {cfg : Cfg} {s s' : State} (h : PInv cfg s) (hp : s'.pools = s.pools)
    (ha : ∀ q, wsum (fActQ cfg q) 0 s'.tasks = wsum (fActQ cfg q) 0 s.tasks) : PInv cfg s' := by
  have hpl : ∀ q, s'.pl q = s.pl q := fun q => by simp [State.pl, hp]
  refine ⟨fun q hq => ?_, fun q => by rw [hpl]; exact h.exited_sd q, fun q => by rw [hpl]; exact h.sd_main q,
    fun q => by rw [hpl]; exact h.fin_exit q, fun q => by rw [hpl]; exact h.sub_lt q,
    fun q => by rw [hpl]; exact h.fresh0 q⟩
  rw [hpl] at hq ⊢; rw [ha, hp]; exact h.pool q hq

theorem act_set_same {cfg : Cfg} {l : List Pc} {i : Nat} {p x : Pc} (hi : l[i]? = some p)
    (hpx : act x = act p) (q : Nat) :
    wsum (fActQ cfg q) 0 (l.set i x) = wsum (fActQ cfg q) 0 l := by
  have := wsum_set0 (fActQ cfg q) l i p x hi
  simp only [fActQ, hpx] at this
  omega

theorem act_wake_sum (cfg : Cfg) (l : List Pc) (q : Nat) :
    wsum (fActQ cfg q) 0 (l.map wake) = wsum (fActQ cfg q) 0 l :=
  wsum_map _ wake (by intro i p; simp [fActQ, act_wake]) l 0

theorem PInv_finish {cfg : Cfg} (wf : WF cfg) {s : State} (h : PInv cfg s) (hs : SInv cfg s) {i : Nat}
    {p : Pc} (ok : Bool) (hi : s.tasks[i]? = some p) (hp : act p = true) :
    PInv cfg (finishTask cfg s i ok) := by
  have hlt := getElem?_lt hi
  have hil : i < cfg.n := by rw [← hs.tasks_len]; exact hlt
  have hpd : p ≠ .done true := by intro e; subst e; simp at hp
  rcases finishTask_cases cfg s i ok with ⟨rfl, hn, e⟩ | ⟨_, e⟩ <;> rw [e]
  · refine PInv_tasks h rfl (fun q => ?_)
    have hnext := hs.next_notStarted hi hpd hn
    have h1 := wsum_set0 (fActQ cfg q) s.tasks i p (.done true) hi
    have h2 := wsum_set0 (fActQ cfg q) (s.tasks.set i (.done true)) (i + 1) .notStarted
      (firstPc cfg (cfg.poolOf i)) (by simp only [List.getElem?_set]; simp; exact hnext)
    simp only [fActQ, hp, poolOf_next hn, act_done, act_notStarted, act_firstPc] at h1 h2 ⊢
    simp at h1 h2
    omega
  · have hq0 : cfg.poolOf i < s.pools.length := by rw [hs.pools_len]; exact wf.poolOf_lt hil
    have hcr := hs.act_created wf hi hp
    have hpl : ∀ q, ({ s with tasks := s.tasks.set i (.done ok)
                              futs := s.futs.set (cfg.job i) (if ok then .ok else .err)
                              pools := addIdle s.pools (cfg.poolOf i) } : State).pl q =
        if q = cfg.poolOf i then { s.pl q with idle := (s.pl q).idle + 1 } else s.pl q := by
      intro q
      simp only [State.pl, addIdle_get, hq0, and_true]
      split
      · rename_i e; rw [e]
      · rfl
    refine ⟨fun q hq => ?_, fun q => ?_, fun q => ?_, fun q => ?_, fun q => ?_, fun q => ?_⟩
    · rw [hpl] at hq ⊢
      have h1 := wsum_set0 (fActQ cfg q) s.tasks i p (.done ok) hi
      simp only [fActQ, hp, act_done] at h1
      simp at h1
      simp only [own_addIdle]
      by_cases e : q = cfg.poolOf i
      · subst e
        simp only [if_true] at hq h1 ⊢
        have := h.pool _ hq
        omega
      · have e' : ¬ cfg.poolOf i = q := fun x => e x.symm
        simp only [e, e', if_false] at hq h1 ⊢
        have := h.pool q hq
        omega
    · rw [hpl]; split <;> exact h.exited_sd q
    · rw [hpl]; split <;> exact h.sd_main q
    · rw [hpl]; split <;> exact h.fin_exit q
    · rw [hpl]; split <;> exact h.sub_lt q
    · rw [hpl]; split
      · rename_i e; subst e; intro ho; exact absurd ho hcr
      · exact h.fresh0 q


/-- pool `q` is replaced by `P'` (same thread count, same ownership weight), nothing else changes -/
theorem PInv_set_pool {cfg : Cfg} {s s' : State} (h : PInv cfg s) {q : Nat} {P P' : PoolSt}
    (hP : s.pools[q]? = some P) (hps : s'.pools = s.pools.set q P') (hts : s'.tasks = s.tasks)
    (hown : ∀ q'', fOwnQ cfg q'' q P' = fOwnQ cfg q'' q P)
    (hcnt : P'.idle + P'.exited = P.idle + P.exited)
    (hnc : P'.owner ≠ .notCreated) (hncP : P.owner ≠ .notCreated)
    (hexsd : P'.exited > 0 → P'.shutdown = true)
    (hsd : P'.shutdown = true ↔ ∃ e, P'.owner = .join e ∨ P'.owner = .closed e)
    (hfin : ∀ e, P'.owner = .closed e → P'.exited = (cfg.pool q).size)
    (hsub : ∀ k, P'.owner = .submit k → k < (cfg.pool q).jobs.length) : PInv cfg s' := by
  have hplq := pl_of_get hP
  have hpl : ∀ q', s'.pl q' = if q' = q then P' else s.pl q' := by
    intro q'; simp only [State.pl, hps]; exact pl_upd hP q'
  have hO : ∀ q'', wsum (fOwnQ cfg q'') 0 s'.pools = wsum (fOwnQ cfg q'') 0 s.pools := by
    intro q''
    have := own_set (cfg := cfg) hP P' q''
    have e := hown q''
    rw [hps]; omega
  refine ⟨fun q' hq' => ?_, fun q' => ?_, fun q' => ?_, fun q' => ?_, fun q' => ?_, fun q' => ?_⟩
  · rw [hpl] at hq' ⊢; rw [hO, hts]
    by_cases e : q' = q
    · subst e; simp only [if_true]
      have := h.pool q' (by rw [hplq]; exact hncP)
      rw [hplq] at this; omega
    · simp only [e, if_false] at hq' ⊢; exact h.pool q' hq'
  · rw [hpl]; split
    · exact hexsd
    · exact h.exited_sd q'
  · rw [hpl]; split
    · exact hsd
    · exact h.sd_main q'
  · rw [hpl]; split
    · rename_i e; subst e; exact hfin
    · exact h.fin_exit q'
  · rw [hpl]; split
    · rename_i e; subst e; exact hsub
    · exact h.sub_lt q'
  · rw [hpl]; split
    · intro e; exact absurd e hnc
    · exact h.fresh0 q'

theorem PInv_takeSerial {cfg : Cfg} (wf : WF cfg) {s s' : State} (h : PInv cfg s) (hs : SInv cfg s)
    {q j : Nat} {rest : List Nat} {P : PoolSt} (hP : s.pools[q]? = some P) (hq : P.queue = j :: rest)
    (hidle : P.idle ≠ 0) (hsub : (cfg.jobc j).sub = none)
    (hps : s'.pools = s.pools.set q { P with queue := rest, idle := P.idle - 1 })
    (hts : s'.tasks = s.tasks.set (cfg.jobc j).start (firstPc cfg q)) : PInv cfg s' := by
  have hplq := pl_of_get hP
  have hj : j ∈ (s.pl q).queue := by rw [hplq, hq]; simp
  have hpj := hs.q_pending q j hj
  have hjl : j < cfg.nJobs := by rw [← hs.futs_len]; exact getElem?_lt hpj.1
  have hpo : cfg.poolOf (cfg.jobc j).start = q := by
    unfold Cfg.poolOf; rw [wf.start_job j hjl hsub]; exact hpj.2
  have hst := hs.start_notStarted wf hj hsub
  have hncP : P.owner ≠ .notCreated := (take_facts wf hs hP hq).2.2.2.2.2.1
  have hpl : ∀ q', s'.pl q' = if q' = q then { P with queue := rest, idle := P.idle - 1 } else s.pl q' := by
    intro q'; simp only [State.pl, hps]; exact pl_upd hP q'
  have hO : ∀ q'', wsum (fOwnQ cfg q'') 0 s'.pools = wsum (fOwnQ cfg q'') 0 s.pools := by
    intro q''; rw [hps]
    exact own_set_same (cfg := cfg) (P' := { P with queue := rest, idle := P.idle - 1 }) hP rfl q''
  have hA : ∀ q'', wsum (fActQ cfg q'') 0 s'.tasks =
      wsum (fActQ cfg q'') 0 s.tasks + (if q'' = q then 1 else 0) := by
    intro q''
    have := wsum_set0 (fActQ cfg q'') s.tasks _ .notStarted (firstPc cfg q) hst
    simp only [fActQ, act_notStarted, act_firstPc, hpo] at this
    rw [hts]
    by_cases e : q = q''
    · subst e; simp at this ⊢; omega
    · have e' : ¬ q'' = q := fun x => e x.symm
      simp [e, e'] at this ⊢; omega
  have hsdq := h.sd_main q; have hexq := h.exited_sd q; have hfq := h.fin_exit q; have hsq := h.sub_lt q
  rw [hplq] at hsdq hexq hfq hsq
  refine ⟨fun q' hq' => ?_, fun q' => ?_, fun q' => ?_, fun q' => ?_, fun q' => ?_, fun q' => ?_⟩
  · rw [hpl] at hq' ⊢; rw [hO, hA]
    by_cases e : q' = q
    · subst e; simp only [if_true]
      have := h.pool q' (by rw [hplq]; exact hncP)
      rw [hplq] at this; omega
    · simp only [e, if_false] at hq' ⊢; exact h.pool q' hq'
  · rw [hpl]; split
    · exact hexq
    · exact h.exited_sd q'
  · rw [hpl]; split
    · exact hsdq
    · exact h.sd_main q'
  · rw [hpl]; split
    · rename_i e; subst e; exact hfq
    · exact h.fin_exit q'
  · rw [hpl]; split
    · rename_i e; subst e; exact hsq
    · exact h.sub_lt q'
  · rw [hpl]; split
    · intro e; exact absurd e hncP
    · exact h.fresh0 q'


theorem PInv_takeSub {cfg : Cfg} (wf : WF cfg) {s s' : State} (h : PInv cfg s) (hs : SInv cfg s)
    {q j q' : Nat} {rest : List Nat} {P : PoolSt} (hP : s.pools[q]? = some P) (hq : P.queue = j :: rest)
    (hidle : P.idle ≠ 0) (hsub : (cfg.jobc j).sub = some q')
    (hps : s'.pools = createPool cfg (s.pools.set q { P with queue := rest, idle := P.idle - 1 }) q')
    (hts : s'.tasks = s.tasks) : PInv cfg s' := by
  have hplq := pl_of_get hP
  obtain ⟨_, _, hpj, hpool, hjl, hncP, _, _⟩ := take_facts wf hs hP hq
  obtain ⟨hq'l, hpar, hlt⟩ := wf.sub_pool j q' hjl hsub
  have hqq : q' ≠ q := by rw [hpool] at hlt; omega
  have hfr : (s.pl q').owner = .notCreated := by
    cases ho : (s.pl q').owner with
    | notCreated => rfl
    | _ => exact absurd hpj (hs.created q' j hpar (by rw [ho]; simp))
  obtain ⟨hf1, hf2, hf3, hf4⟩ := h.fresh0 q' hfr
  obtain ⟨hz1, hz2⟩ := fresh_sums_zero wf hs hfr
  have hq'len : q' < (s.pools.set q { P with queue := rest, idle := P.idle - 1 }).length := by
    simp [hs.pools_len]; exact hq'l
  have hpl : ∀ q'', s'.pl q'' =
      if q'' = q' then { s.pl q' with owner := .submit 0, idle := (cfg.pool q').size }
      else if q'' = q then { P with queue := rest, idle := P.idle - 1 } else s.pl q'' := by
    intro q''
    simp only [State.pl, hps, createPool_get]
    by_cases e : q'' = q'
    · subst e
      simp only [hq'len, and_self, if_true]
      rw [pl_upd hP q'']; simp [hqq, State.pl]
    · simp only [e, false_and, if_false]
      exact pl_upd hP q''
  have hpp : parentPool cfg q' = some q := by simp [parentPool, hpar, hpool]
  have hO : ∀ q'', wsum (fOwnQ cfg q'') 0 s'.pools =
      wsum (fOwnQ cfg q'') 0 s.pools + (if q'' = q then 1 else 0) := by
    intro q''
    have h1 := own_set_same (cfg := cfg) (P' := { P with queue := rest, idle := P.idle - 1 }) hP rfl q''
    have hget : (s.pools.set q { P with queue := rest, idle := P.idle - 1 })[q']? = some (s.pl q') := by
      have := pl_upd (P' := { P with queue := rest, idle := P.idle - 1 }) hP q'
      simp only [hqq, if_false] at this
      rw [List.getD_eq_getElem?_getD] at this
      rw [List.getElem?_eq_getElem hq'len] at this ⊢
      simp at this; rw [this]
    have h2 := own_set (cfg := cfg) hget
      { (s.pools.set q { P with queue := rest, idle := P.idle - 1 }).getD q' default with
        owner := .submit 0, idle := (cfg.pool q').size } q''
    rw [hps]; unfold createPool
    simp only [fOwnQ, hfr, ownAct, hpp] at h2
    by_cases e : q = q''
    · subst e; simp at h2 ⊢; omega
    · have e' : ¬ q'' = q := fun x => e x.symm
      simp [e, e'] at h2 ⊢; omega
  have hsdq := h.sd_main q; have hexq := h.exited_sd q; have hfq := h.fin_exit q; have hsq := h.sub_lt q
  rw [hplq] at hsdq hexq hfq hsq
  refine ⟨fun q'' hq'' => ?_, fun q'' => ?_, fun q'' => ?_, fun q'' => ?_, fun q'' => ?_, fun q'' => ?_⟩
  · rw [hpl] at hq'' ⊢; rw [hO, hts]
    by_cases e1 : q'' = q'
    · subst e1
      simp only [if_true, hqq, if_false]
      rw [hz1, hz2, hf2]
      simp
    · simp only [e1, if_false] at hq'' ⊢
      by_cases e : q'' = q
      · subst e; simp only [if_true]
        have := h.pool q'' (by rw [hplq]; exact hncP)
        rw [hplq] at this; omega
      · simp only [e, if_false] at hq'' ⊢; exact h.pool q'' hq''
  · rw [hpl]; split
    · simp only; rw [hf2]; intro hh; omega
    · split
      · exact hexq
      · exact h.exited_sd q''
  · rw [hpl]; split
    · simp only; rw [hf3]; simp
    · split
      · exact hsdq
      · exact h.sd_main q''
  · rw [hpl]; split
    · simp
    · split
      · rename_i e; subst e; exact hfq
      · exact h.fin_exit q''
  · rw [hpl]; split
    · rename_i e; subst e
      intro k hk; simp at hk; subst hk; exact wf.jobs_pos q'' hq'l
    · split
      · rename_i e; subst e; exact hsq
      · exact h.sub_lt q''
  · rw [hpl]; split
    · simp
    · split
      · intro e; exact absurd e hncP
      · exact h.fresh0 q''


theorem PInv_joinSub {cfg : Cfg} (wf : WF cfg) {s s' : State} (h : PInv cfg s) (hs : SInv cfg s)
    {q jp : Nat} {e : Bool} {P : PoolSt} (hP : s.pools[q]? = some P) (hm : P.owner = .join e)
    (hex : P.exited = (cfg.pool q).size) (hpar : (cfg.pool q).parent = some jp)
    (hps : s'.pools = addIdle (s.pools.set q { P with owner := .closed e }) (cfg.jobc jp).pool)
    (hts : s'.tasks = s.tasks) : PInv cfg s' := by
  have hplq := pl_of_get hP
  have hql : q < cfg.nPools := by rw [← hs.pools_len]; exact getElem?_lt hP
  obtain ⟨hjpl, hjsub⟩ := wf.parent_sub q jp hql hpar
  obtain ⟨_, _, hlt⟩ := wf.sub_pool jp q hjpl hjsub
  have hpql : (cfg.jobc jp).pool < cfg.nPools := (wf.job_pool _ _ (wf.pool_job jp hjpl)).2.2
  have hne : (cfg.jobc jp).pool ≠ q := by omega
  have hpp : parentPool cfg q = some (cfg.jobc jp).pool := by simp [parentPool, hpar]
  have hncpq : (s.pl (cfg.jobc jp).pool).owner ≠ .notCreated :=
    hs.own_created wf hql (by rw [hplq, hm]; rfl) hpp
  have hlen1 : (cfg.jobc jp).pool < (s.pools.set q { P with owner := .closed e }).length := by
    simp [hs.pools_len]; exact hpql
  have hpl : ∀ q', s'.pl q' =
      if q' = (cfg.jobc jp).pool then { s.pl q' with idle := (s.pl q').idle + 1 }
      else if q' = q then { P with owner := .closed e } else s.pl q' := by
    intro q'
    simp only [State.pl, hps, addIdle_get, hlen1, and_true]
    by_cases e1 : q' = (cfg.jobc jp).pool
    · subst e1
      simp only [if_true]
      rw [pl_upd hP]; simp [hne, State.pl]
    · simp only [e1, if_false]
      exact pl_upd hP q'
  have hO : ∀ q'', wsum (fOwnQ cfg q'') 0 s'.pools + (if q'' = (cfg.jobc jp).pool then 1 else 0) =
      wsum (fOwnQ cfg q'') 0 s.pools := by
    intro q''
    rw [hps, own_addIdle]
    have h2 := own_set (cfg := cfg) hP { P with owner := .closed e } q''
    simp only [fOwnQ, hm, ownAct, hpp] at h2
    by_cases e1 : (cfg.jobc jp).pool = q''
    · subst e1; simp at h2 ⊢; omega
    · have e' : ¬ q'' = (cfg.jobc jp).pool := fun x => e1 x.symm
      simp [e1, e'] at h2 ⊢; omega
  have hsdq := h.sd_main q; have hexq := h.exited_sd q
  rw [hplq] at hsdq hexq
  have hsdP : P.shutdown = true := hsdq.2 ⟨e, Or.inl hm⟩
  refine ⟨fun q' hq' => ?_, fun q' => ?_, fun q' => ?_, fun q' => ?_, fun q' => ?_, fun q' => ?_⟩
  · rw [hpl] at hq' ⊢; rw [hts]
    have hOq := hO q'
    by_cases e1 : q' = (cfg.jobc jp).pool
    · subst e1
      simp only [if_true] at hq' hOq ⊢
      have := h.pool _ hncpq
      omega
    · simp only [e1, if_false] at hq' hOq ⊢
      by_cases e2 : q' = q
      · subst e2; simp only [if_true]
        have := h.pool q' (by rw [hplq, hm]; simp)
        rw [hplq] at this; omega
      · simp only [e2, if_false] at hq' ⊢
        have := h.pool q' hq'; omega
  · rw [hpl]; split
    · exact h.exited_sd q'
    · split
      · exact hexq
      · exact h.exited_sd q'
  · rw [hpl]; split
    · exact h.sd_main q'
    · split
      · simp [hsdP]
      · exact h.sd_main q'
  · rw [hpl]; split
    · exact h.fin_exit q'
    · split
      · rename_i e2; subst e2; intro _ _; exact hex
      · exact h.fin_exit q'
  · rw [hpl]; split
    · exact h.sub_lt q'
    · split
      · simp
      · exact h.sub_lt q'
  · rw [hpl]; split
    · rename_i e1; subst e1; intro ho; exact absurd ho hncpq
    · split
      · simp
      · exact h.fresh0 q'

theorem PInv_step {cfg : Cfg} (wf : WF cfg) {s s' : State} {l : Label} (hs : SInv cfg s)
    (h : PInv cfg s) (hst : StepRel cfg s l s') : PInv cfg s' := by
  cases hst with
  | submit q c k j P hP hk hj =>
      have hplq := pl_of_get hP
      have hsd := h.sd_main q; have hex := h.exited_sd q
      rw [hplq] at hsd hex
      have hsdF : P.shutdown = false := by
        cases hh : P.shutdown
        · rfl
        · obtain ⟨e, he | he⟩ := hsd.1 hh <;> simp [hk] at he
      have hklt := getElem?_lt hj
      refine PInv_set_pool h hP rfl rfl (fun q'' => ?_) rfl ?_ (by rw [hk]; simp) ?_ ?_ ?_ ?_
      · simp only [fOwnQ, hk]; split <;> simp [ownAct]
      · simp only; split <;> simp
      · intro hh; exact hex hh
      · simp only [hsdF]; constructor
        · intro hh; simp at hh
        · rintro ⟨e, he | he⟩ <;> (split at he <;> simp at he)
      · intro e he; simp only at he; split at he <;> simp at he
      · intro k' hk'; simp only at hk'; split at hk' <;> simp at hk'; omega
  | collect q c j ok P hP hm hjj hf =>
      have hplq := pl_of_get hP
      have hsd := h.sd_main q; have hex := h.exited_sd q
      rw [hplq] at hsd hex
      have hsdF : P.shutdown = false := by
        cases hh : P.shutdown
        · rfl
        · obtain ⟨e, he | he⟩ := hsd.1 hh <;> simp [hm] at he
      have hex0 : P.exited = 0 := by
        rcases Nat.eq_zero_or_pos P.exited with h0 | h0
        · exact h0
        · have := hex h0; simp [hsdF] at this
      unfold collectOne
      cases ok
      · simp only [Bool.false_eq_true, if_false]
        split <;>
        · refine PInv_set_pool h hP rfl rfl (fun q'' => ?_) rfl (by simp) (by rw [hm]; simp)
            (by simp) (by simp) (by simp) (by simp)
          simp [fOwnQ, hm, ownAct]
      · simp only [if_true]
        split
        · refine PInv_set_pool h hP rfl rfl (fun q'' => ?_) rfl (by simp) (by rw [hm]; simp)
            (by simp) (by simp) (by simp) (by simp)
          simp [fOwnQ, hm, ownAct]
        · refine PInv_set_pool h hP rfl rfl (fun q'' => ?_) rfl (by simp [hm]) (by rw [hm]; simp)
            (by simp [hex0]) (by simp [hsdF, hm]) (by simp [hm]) (by simp [hm])
          simp [fOwnQ]
  | joinRoot q c e P hP hm hex hpar =>
      have hplq := pl_of_get hP
      have hsd := h.sd_main q
      rw [hplq] at hsd
      have hsdT : P.shutdown = true := hsd.2 ⟨e, Or.inl hm⟩
      refine PInv_set_pool h hP rfl rfl (fun q'' => ?_) rfl (by simp) (by rw [hm]; simp)
        (by simp [hsdT]) (by simp [hsdT]) (by simp [hex]) (by simp)
      simp [fOwnQ, parentPool, hpar]
  | joinSub q c e P jp hP hm hex hpar => exact PInv_joinSub wf h hs hP hm hex hpar rfl rfl
  | takeSerial q j rest P hP hq hidle hsub => exact PInv_takeSerial wf h hs hP hq hidle hsub rfl rfl
  | takeSub q j rest P q' hP hq hidle hsub => exact PInv_takeSub wf h hs hP hq hidle hsub rfl rfl
  | exit q P hP hq hsd hidle =>
      have hplq := pl_of_get hP
      have hsdq := h.sd_main q; have hfq := h.fin_exit q; have hsq := h.sub_lt q; have hfr := h.fresh0 q
      rw [hplq] at hsdq hfq hsq hfr
      have hnc : P.owner ≠ .notCreated := by
        intro e; have := (hfr e).2.2.1; simp [hsd] at this
      have hpool := h.pool q (by rw [hplq]; exact hnc)
      rw [hplq] at hpool
      refine PInv_set_pool h hP rfl rfl (fun q'' => rfl) (by simp; omega) hnc hnc
        (fun _ => hsd) hsdq ?_ hsq
      intro e he
      have := hfq e he
      simp only; omega
  | cbAcqIn i hi hl => exact PInv_tasks h rfl (act_set_same hi rfl)
  | cbAcq i hi hl => exact PInv_tasks h rfl (act_set_same hi rfl)
  | cbFail i hi hf =>
      exact PInv_finish wf (s := { s with log := s.log ++ [i], cbLock := false
                                          cbIn := if (cfg.pool (cfg.poolOf i)).innerCb
                                            then s.cbIn.set (cfg.poolOf i) false else s.cbIn
                                          tLocks := s.tLocks.set (cfg.obj i) false })
        (PInv_tasks h rfl (fun _ => rfl))
        (SInv_congr hs rfl rfl (by simp) rfl (by simp only; split <;> simp) (fun _ => rfl) (fun _ => rfl))
        false hi rfl
  | cbOk i hi hf => exact PInv_tasks h rfl (act_set_same hi rfl)
  | tAcq i hi hl => exact PInv_tasks h rfl (act_set_same hi (by simp))
  | bTry i p hi hp =>
      have hp1 : act p = true := by rcases hp with rfl | rfl <;> rfl
      rcases budgetTry_cases cfg s i with ⟨_, _, e⟩ | ⟨_, _, e⟩ | ⟨_, _, e⟩ | ⟨_, _, e⟩ <;> rw [e] <;>
        exact PInv_tasks h rfl (act_set_same hi (by rw [hp1]; rfl))
  | writeFail i hi hf => exact PInv_tasks h rfl (act_set_same hi rfl)
  | writeOk i hi hf => exact PInv_tasks h rfl (act_set_same hi rfl)
  | bRel i ok hi =>
      unfold budgetRelease
      refine PInv_finish wf (p := .bRel ok) ?_ ?_ ok (by simp [hi, wake]) rfl
      · exact PInv_tasks h rfl (act_wake_sum cfg s.tasks)
      · exact SInv_congr (s := { s with tasks := s.tasks.map wake }) (SInv_wake hs) rfl rfl
          (by simp) rfl rfl (fun _ => rfl) (fun _ => rfl)

/-! ### waiters -/

def WInv (cfg : Cfg) (s : State) : Prop :=
  ∀ i : Nat, s.tasks[i]? = some .waiting →
    (cfg.size i > cfg.capacity → s.oversized = true) ∧
    (cfg.size i ≤ cfg.capacity → ¬ s.inFlight + cfg.size i ≤ cfg.capacity)

theorem WInv_init (cfg : Cfg) : WInv cfg (init cfg) := by
  intro i hi
  simp [init, List.getElem?_replicate] at hi

theorem finishTask_waiting {cfg : Cfg} {s : State} {i k : Nat} {ok : Bool}
    (h : (finishTask cfg s i ok).tasks[k]? = some .waiting) : s.tasks[k]? = some .waiting := by
  rcases finishTask_cases cfg s i ok with ⟨_, _, e⟩ | ⟨_, e⟩ <;> rw [e] at h <;>
    simp only [List.getElem?_set] at h <;> (repeat' split at h) <;> simp_all [firstPc] <;>
    (split at h <;> simp at h)

theorem set_waiting {l : List Pc} {i k : Nat} {x : Pc} (hx : x ≠ .waiting)
    (h : (l.set i x)[k]? = some .waiting) : l[k]? = some .waiting := by
  simp only [List.getElem?_set] at h
  (repeat' split at h) <;> simp_all

theorem firstPc_ne_waiting (cfg : Cfg) (q : Nat) : firstPc cfg q ≠ .waiting := by simp [firstPc]
theorem afterT_ne_waiting (cfg : Cfg) (q : Nat) : afterT cfg q ≠ .waiting := by
  unfold afterT; split <;> simp

theorem WInv_step {cfg : Cfg} {s s' : State} {l : Label} (h : WInv cfg s)
    (hst : StepRel cfg s l s') : WInv cfg s' := by
  cases hst with
  | submit q c k j P hP hk hj => exact h
  | collect q c j ok P hP hm hjj hf =>
      unfold collectOne
      cases ok
      · simp only [Bool.false_eq_true, if_false]; split <;> exact h
      · simp only [if_true]; split <;> exact h
  | joinRoot q c e P hP hm hex hpar => exact h
  | joinSub q c e P jp hP hm hex hpar => exact h
  | takeSerial q j rest P hP hq hidle hsub =>
      intro k hk; exact h k (set_waiting (firstPc_ne_waiting cfg q) hk)
  | takeSub q j rest P q' hP hq hidle hsub => exact h
  | exit q P hP hq hsd hidle => exact h
  | cbAcqIn i hi hl => intro k hk; exact h k (set_waiting (by simp) hk)
  | cbAcq i hi hl => intro k hk; exact h k (set_waiting (by simp) hk)
  | cbFail i hi hf =>
      intro k hk
      have := finishTask_waiting hk
      simpa using h k this
  | cbOk i hi hf => intro k hk; exact h k (set_waiting (by simp) hk)
  | tAcq i hi hl => intro k hk; exact h k (set_waiting (afterT_ne_waiting _ _) hk)
  | bTry i p hi hp =>
      rcases budgetTry_cases cfg s i with ⟨h1, h2, e⟩ | ⟨h1, h2, e⟩ | ⟨h1, h2, e⟩ | ⟨h1, h2, e⟩ <;>
        rw [e] <;> intro k hk
      · by_cases hik : i = k
        · subst hik; exact ⟨fun _ => h2, fun h3 => by omega⟩
        · simp only [List.getElem?_set, hik, if_false] at hk; exact h k hk
      · have := h k (set_waiting (by simp) hk)
        exact ⟨fun _ => rfl, this.2⟩
      · have := h k (set_waiting (by simp) hk)
        refine ⟨this.1, fun h3 => ?_⟩
        have := this.2 h3
        show ¬ s.inFlight + cfg.size i + cfg.size k ≤ cfg.capacity
        omega
      · by_cases hik : i = k
        · subst hik; exact ⟨fun h3 => by omega, fun _ => h2⟩
        · simp only [List.getElem?_set, hik, if_false] at hk; exact h k hk
  | writeFail i hi hf => intro k hk; exact h k (set_waiting (by simp) hk)
  | writeOk i hi hf => intro k hk; exact h k (set_waiting (by simp) hk)
  | bRel i ok hi =>
      intro k hk
      unfold budgetRelease at hk
      have := finishTask_waiting hk
      simp only [List.getElem?_map, Option.map_eq_some_iff] at this
      obtain ⟨q, _, hq⟩ := this
      cases q <;> simp [wake] at hq

end IrVerif.WriterN

/-
Round trip of a reloadable model: the mutual induction.  `deserGraph` run on the proto that `serGraph`
writes for a graph satisfying the certificate `replG` succeeds and returns the same tree up to a
renaming of the values; the values whose type / shape / documentation the proto carries keep them.
-/
import IrVerif.Lemmas.ScopeReplPhases
namespace IrVerif.Scope

/-! ### facts about the certificate -/

theorem replInits_base (V : Nat → ValueS) (go : List Nat) : ∀ (l : List (Name × Nat)) (T : Table),
    (replInits V go T l).ok → ∀ kv ∈ l, (V kv.2).name = some kv.1 ∧ kv.1 ≠ "" ∧ (V kv.2).const ≠ none := by
  intro l
  induction l with
  | nil => intro T _ kv hkv; simp at hkv
  | cons e l ih =>
    obtain ⟨k, v⟩ := e
    intro T hok kv hkv
    simp only [replInits] at hok
    simp only [List.mem_cons] at hkv
    split at hok
    · rcases hkv with rfl | hkv
      · exact hok.1
      · exact ih T hok.2.2 kv hkv
    · rcases hkv with rfl | hkv
      · exact hok.1
      · exact ih _ hok.2.2 kv hkv

theorem replInits_new_sub (V : Nat → ValueS) (go : List Nat) : ∀ (l : List (Name × Nat)) (T : Table),
    ∀ x ∈ (replInits V go T l).new, x ∈ l.map (·.2) := by
  intro l
  induction l with
  | nil => intro T x hx; simp [replInits] at hx
  | cons e l ih =>
    obtain ⟨k', v'⟩ := e
    intro T x hx
    simp only [replInits] at hx
    split at hx
    · simp only [List.map_cons, List.mem_cons]
      exact .inr (ih _ x hx)
    · simp only [List.mem_cons] at hx
      simp only [List.map_cons, List.mem_cons]
      rcases hx with rfl | hx
      · exact .inl rfl
      · exact .inr (ih _ x hx)

theorem replInits_mono (V : Nat → ValueS) (go : List Nat) : ∀ (l : List (Name × Nat)) (T : Table) (x : Name) (u : Nat),
    T.lookup x = some u → (replInits V go T l).tbl.lookup x = some u := by
  intro l
  induction l with
  | nil => intro T x u h; simpa [replInits] using h
  | cons e l ih =>
    obtain ⟨k, v⟩ := e
    intro T x u h
    simp only [replInits]
    split
    · exact ih T x u h
    · rename_i hn
      apply ih
      have hne : x ≠ k := fun e => by subst e; rw [hn] at h; cases h
      rw [lookup_cons_ne _ _ _ _ hne]; exact h

/-- every initializer either is new (its key unbound in the scope of the inputs) or is the input bound
    to its key -/
theorem replInits_cases (V : Nat → ValueS) (go : List Nat) : ∀ (l : List (Name × Nat)) (T : Table),
    (replInits V go T l).ok → (l.map (·.1)).Nodup →
    ∀ kv ∈ l, (kv.2 ∈ (replInits V go T l).new ∧ T.lookup kv.1 = none ∧
        (replInits V go T l).tbl.lookup kv.1 = some kv.2 ∧
        (kv.2 ∉ go → (V kv.2).info.ty ≠ none ∧ (V kv.2).info.sh ≠ none)) ∨
      T.lookup kv.1 = some kv.2 := by
  intro l
  induction l with
  | nil => intro T _ _ kv hkv; simp at hkv
  | cons e l ih =>
    obtain ⟨k, v⟩ := e
    intro T hok hnd kv hkv
    simp only [List.map_cons, List.nodup_cons, List.mem_map, not_exists, not_and] at hnd
    simp only [replInits] at hok ⊢
    simp only [List.mem_cons] at hkv
    cases hl : T.lookup k with
    | some u =>
      simp only [hl] at hok ⊢
      rcases hkv with rfl | hkv
      · right; rw [hl, hok.2.1]
      · exact ih T hok.2.2 hnd.2 kv hkv
    | none =>
      simp only [hl] at hok ⊢
      rcases hkv with rfl | hkv
      · left
        exact ⟨by simp, hl, replInits_mono V go l _ _ _ (lookup_cons_self _ _ _), hok.2.1⟩
      · have hne : kv.1 ≠ k := fun e => hnd.1 kv hkv e
        rcases ih _ hok.2.2 hnd.2 kv hkv with ⟨h1, h2, h3, h4⟩ | h
        · left
          rw [lookup_cons_ne _ _ _ _ hne] at h2
          exact ⟨by simp [h1], h2, h3, h4⟩
        · right
          rw [lookup_cons_ne _ _ _ _ hne] at h
          exact h

theorem replDecl_mono (V : Nat → ValueS) : ∀ (l : List Nat) (T : Table), (replDecl V T l).ok →
    ∀ (x : Name) (u : Nat), T.lookup x = some u → (replDecl V T l).tbl.lookup x = some u := by
  intro l
  induction l with
  | nil => intro T _ x u h; simpa [replDecl] using h
  | cons v l ih =>
    intro T hok x u h
    simp only [replDecl] at hok ⊢
    split
    · rename_i ht
      simp only [ht, if_true] at hok
      apply ih _ hok.2
      have hne : x ≠ nm V v := fun e => by subst e; rw [hok.1] at h; cases h
      rw [lookup_cons_ne _ _ _ _ hne]; exact h
    · rename_i ht
      simp only [ht, if_false] at hok
      exact ih T hok.2 x u h

theorem replDecl_new (V : Nat → ValueS) : ∀ (l : List Nat) (T : Table), (replDecl V T l).ok →
    (replDecl V T l).new = l.filter (fun v => nameTruthy (V v).name) ∧
    (∀ v ∈ l, (V v).name ≠ none) ∧
    ∀ v ∈ (replDecl V T l).new, (replDecl V T l).tbl.lookup (nm V v) = some v := by
  intro l
  induction l with
  | nil => intro T _; simp [replDecl]
  | cons v l ih =>
    intro T hok
    simp only [replDecl] at hok ⊢
    by_cases ht : nameTruthy (V v).name = true
    · simp only [ht, if_true] at hok ⊢
      obtain ⟨a, b, c⟩ := ih _ hok.2
      refine ⟨by simp [List.filter_cons, ht, a], fun w hw => ?_, fun w hw => ?_⟩
      · simp only [List.mem_cons] at hw
        rcases hw with rfl | hw
        · exact ne_none_of_truthy ht
        · exact b w hw
      · simp only [List.mem_cons] at hw
        rcases hw with rfl | hw
        · exact replDecl_mono V l _ hok.2 _ _ (lookup_cons_self _ _ _)
        · exact c w hw
    · have hf : nameTruthy (V v).name = false := by simpa using ht
      simp only [hf, Bool.false_eq_true, if_false] at hok ⊢
      obtain ⟨a, b, c⟩ := ih _ hok.2
      refine ⟨by simp [List.filter_cons, hf, a], fun w hw => ?_, c⟩
      simp only [List.mem_cons] at hw
      rcases hw with rfl | hw
      · exact hok.1
      · exact b w hw

theorem tblIns_lookup_some (V : Nat → ValueS) (ins : List Nat) (x : Name) (u : Nat)
    (h : (tblIns V ins).lookup x = some u) : u ∈ ins ∧ nm V u = x := by
  have := lookup_mem _ _ _ h
  simp only [tblIns, List.mem_reverse, List.mem_map, Prod.mk.injEq] at this
  obtain ⟨v, hv, h1, h2⟩ := this
  subst h2
  exact ⟨hv, h1⟩

theorem tblIns_lookup_none (V : Nat → ValueS) (ins : List Nat) (x : Name)
    (h : (tblIns V ins).lookup x = none) : ∀ u ∈ ins, nm V u ≠ x := by
  intro u hu he
  have : (x, u) ∈ tblIns V ins := by
    simp only [tblIns, List.mem_reverse, List.mem_map, Prod.mk.injEq]
    exact ⟨u, hu, he, rfl⟩
  exact lookup_ne_none_of_mem _ _ _ this h

/-! ### what the proto carries: emitted values -/

mutual
/-- the values whose type / shape / documentation the proto of `g` carries: graph inputs, initializers,
    named node outputs, graph outputs, of `g` and of every nested graph (an empty-named node output is
    written as a bare `""`) -/
def emitG (V : Nat → ValueS) : GraphT → List Nat
  | .mk _ ins inits nodes outs =>
    ins ++ inits.map (·.2) ++ (nodes.flatMap (liveOuts V)).filter (fun v => nameTruthy (V v).name) ++ outs ++
      emitSubNs V nodes
def emitSubNs (V : Nat → ValueS) : List NodeT → List Nat
  | [] => []
  | n :: ns => emitSubN V n ++ emitSubNs V ns
def emitSubN (V : Nat → ValueS) : NodeT → List Nat
  | .mk _ _ _ _ subs => emitGs V subs
def emitGs (V : Nat → ValueS) : List GraphT → List Nat
  | [] => []
  | g :: gs => emitG V g ++ emitGs V gs
end

/-- the images of the values `L` exist and carry the serializable information of the source -/
def InfoOK2 (V : Nat → ValueS) (s : Store) (A : Assoc) (L : List Nat) : Prop :=
  ∀ v ∈ L, v ∈ A.map (·.1) ∧ (s.vals (sig A v)).info = (V v).info.emit

/-- the images of the initializers `I` exist and carry a tensor named after them with the source payload -/
def ConstOK2 (V : Nat → ValueS) (td : TData) (s : Store) (A : Assoc) (I : List (Name × Nat)) : Prop :=
  ∀ kv ∈ I, kv.2 ∈ A.map (·.1) ∧ (V kv.2).const ≠ none ∧ ∀ t, (V kv.2).const = some t →
    ∃ t', (s.vals (sig A kv.2)).const = some t' ∧ t' < s.nt ∧ (s.tens t').name = some kv.1 ∧ s.tdata t' = td t

theorem InfoOK2.step {V : Nat → ValueS} {s s' : Store} {A B : Assoc} {L : List Nat} (h : InfoOK2 V s A L)
    (hrs : RS V s A) (hp : Prim s.nv s s') : InfoOK2 V s' (A ++ B) L := by
  intro v hv
  obtain ⟨hk, hi⟩ := h v hv
  refine ⟨mem_keys_append hk, ?_⟩
  rw [sig_append_of_mem hk, (hp.cell _ (hrs.sig_lt hk)).1]
  exact hi

theorem ConstOK2.step {V : Nat → ValueS} {td : TData} {s s' : Store} {A B : Assoc} {I : List (Name × Nat)}
    (h : ConstOK2 V td s A I) (hrs : RS V s A) (hp : Prim s.nv s s') : ConstOK2 V td s' (A ++ B) I := by
  intro kv hkv
  obtain ⟨hk, hne, hc⟩ := h kv hkv
  refine ⟨mem_keys_append hk, hne, fun t ht => ?_⟩
  obtain ⟨t', h1, h2, h3, h4⟩ := hc t ht
  refine ⟨t', ?_, Nat.lt_of_lt_of_le h2 hp.nt_le, ?_, ?_⟩
  · rw [sig_append_of_mem hk, (hp.cell _ (hrs.sig_lt hk)).2]; exact h1
  · rw [hp.tens t' h2]; exact h3
  · simp only [Store.tdata] at h4 ⊢
    rw [hp.tens t' h2]; exact h4

theorem InfoOK2.prim {V : Nat → ValueS} {s s' : Store} {A : Assoc} {L : List Nat} (h : InfoOK2 V s A L)
    (hrs : RS V s A) (hp : Prim s.nv s s') : InfoOK2 V s' A L := by
  have := h.step (B := []) hrs hp
  simpa using this

theorem ConstOK2.prim {V : Nat → ValueS} {td : TData} {s s' : Store} {A : Assoc} {I : List (Name × Nat)}
    (h : ConstOK2 V td s A I) (hrs : RS V s A) (hp : Prim s.nv s s') : ConstOK2 V td s' A I := by
  have := h.step (B := []) hrs hp
  simpa using this

/-! ### small frame facts of the second run -/

theorem resolveInputs_fresh (outer : List Table) (vi : List (Name × Info)) (xs : List Name) :
    ∀ (st : Store) (top : Table), Fresh st → Fresh (resolveInputs st top outer vi xs).1 := by
  induction xs with
  | nil => intro st top h; exact h
  | cons x xs ih =>
    intro st top h
    simp only [resolveInputs]
    split
    · exact ih st top h
    · split
      · exact ih st top h
      · exact ih _ _ ((newNamed_quiet st vi x).1.fresh h)

theorem tablesLt_of_RS2 {V : Nat → ValueS} {s : Store} {A : Assoc} (hrs : RS V s A) (Ts : List Table)
    (h : ∀ T ∈ Ts, TblIn A T) : TablesLt s (Ts.map (mapT A)) := by
  intro T hT e he
  simp only [List.mem_map] at hT
  obtain ⟨T0, hT0, rfl⟩ := hT
  simp only [mapT, List.mem_map] at he
  obtain ⟨e0, he0, rfl⟩ := he
  exact hrs.sig_lt (h T0 hT0 e0 he0)

/-- `rt_lookupOutputs` with the distinctness hypothesis only on the empty-named outputs -/
theorem rt2_lookupOutputs (V : Nat → ValueS) (top : Table) :
    ∀ (vs : List Nat) (s : Store) (A : Assoc),
      RS V s A → (∀ v ∈ vs, (V v).name ≠ none) → (vs.filter (fun v => !nameTruthy (V v).name)).Nodup →
      (∀ v ∈ vs, nameTruthy (V v).name = true → top.lookup (nm V v) = some (sig A v) ∧ v ∈ A.map (·.1)) →
      (∀ v ∈ vs, ¬ nameTruthy (V v).name = true → v ∉ A.map (·.1)) →
      ∃ (B : Assoc) (s' : Store),
        lookupOutputs s top (vs.map (nm V)) = .ok (s', vs.map (sig (A ++ B))) ∧ RS V s' (A ++ B) ∧
        B.map (·.1) = vs.filter (fun v => !nameTruthy (V v).name) ∧ s.nv ≤ s'.nv ∧
        (∀ v, v < s.nv → (s'.vals v) = (s.vals v)) ∧
        (∀ v ∈ vs, ¬ nameTruthy (V v).name = true → (s'.vals (sig (A ++ B) v)).info = {}) ∧
        (∀ e ∈ B, s.nv ≤ e.2) ∧ s'.tens = s.tens ∧ s'.nt = s.nt := by
  intro vs
  induction vs with
  | nil =>
    intro s A h _ _ _ _
    exact ⟨[], s, by simp [lookupOutputs], by simpa using h, by simp, Nat.le_refl _, fun _ _ => rfl, by simp,
      by simp, rfl, rfl⟩
  | cons v rest ih =>
    intro s A h hn hnd ht hf
    simp only [List.map_cons, lookupOutputs]
    by_cases htv : nameTruthy (V v).name = true
    · obtain ⟨hl, hvA⟩ := ht v (by simp) htv
      have hne := (name_some_of_truthy htv).2
      simp only [hne, if_false, hl]
      simp only [List.filter_cons, htv, Bool.not_true, Bool.false_eq_true, if_false] at hnd
      obtain ⟨B, s', e1, e2, e3, e4, e5, e6, e7, e8, e9⟩ := ih s A h (fun w hw => hn w (by simp [hw])) hnd
        (fun w hw => ht w (by simp [hw])) (fun w hw => hf w (by simp [hw]))
      refine ⟨B, s', ?_, e2, ?_, e4, e5, ?_, e7, e8, e9⟩
      · simp [e1, sig_append_of_mem hvA]
      · simp [List.filter_cons, htv, e3]
      · intro w hw hfw
        simp only [List.mem_cons] at hw
        rcases hw with rfl | hw
        · exact absurd htv hfw
        · exact e6 w hw hfw
    · obtain ⟨hvn, hnm⟩ := nameTruthy_false_of (hn v (by simp)) htv
      have hvA := hf v (by simp) htv
      have hfalse : nameTruthy (V v).name = false := by simpa using htv
      simp only [hnm, if_true]
      have hnd' : (v :: rest.filter (fun v => !nameTruthy (V v).name)).Nodup := by
        simpa [List.filter_cons, hfalse] using hnd
      rw [List.nodup_cons] at hnd'
      have h1 := h.alloc v { name := some "" } hvA (by simp [hvn])
      obtain ⟨B, s', e1, e2, e3, e4, e5, e6, e7, e8, e9⟩ := ih (s.alloc { name := some "" }).1 (A ++ [(v, s.nv)]) h1
        (fun w hw => hn w (by simp [hw])) hnd'.2
        (fun w hw htw => by
          obtain ⟨a, b⟩ := ht w (by simp [hw]) htw
          exact ⟨by rw [sig_append_of_mem b]; exact a, by simp [b]⟩)
        (fun w hw htw => by
          have hne : w ≠ v := fun e => by
            subst e
            exact hnd'.1 (List.mem_filter.mpr ⟨hw, by simpa using htw⟩)
          simp [hf w (by simp [hw]) htw, hne])
      have hassoc : A ++ (v, s.nv) :: B = (A ++ [(v, s.nv)]) ++ B := by simp
      refine ⟨(v, s.nv) :: B, s', ?_, ?_, ?_, ?_, ?_, ?_, ?_, e8, e9⟩
      · simp only [e1, alloc_snd, hassoc]
        rw [sig_append_of_mem (by simp), sig_append_single hvA]
      · simpa [List.append_assoc] using e2
      · simp [List.filter_cons, hfalse, e3]
      · simp at e4; omega
      · intro w hw
        rw [e5 w (by simp; omega), alloc_vals_lt _ _ hw]
      · intro w hw hfw
        rw [hassoc]
        simp only [List.mem_cons] at hw
        rcases hw with rfl | hw
        · rw [sig_append_of_mem (by simp), sig_append_single hvA, e5 s.nv (by simp)]
          simp
        · exact e6 w hw hfw
      · intro e he
        simp only [List.mem_cons] at he
        rcases he with rfl | he
        · exact Nat.le_refl _
        · have := e7 e he; simp at this; omega

theorem values_nodup_of_names {V : Nat → ValueS} {l : List (Name × Nat)}
    (hn : ∀ kv ∈ l, (V kv.2).name = some kv.1) (hk : (l.map (·.1)).Nodup) : (l.map (·.2)).Nodup := by
  induction l with
  | nil => simp
  | cons e l ih =>
    simp only [List.map_cons, List.nodup_cons, List.mem_map, not_exists, not_and] at hk ⊢
    refine ⟨fun x hx he => ?_, ih (fun kv hkv => hn kv (by simp [hkv])) hk.2⟩
    have h1 := hn x (by simp [hx])
    have h2 := hn e (by simp)
    rw [he, h2] at h1
    exact hk.1 x hx (Option.some.inj h1).symm

/-! ### the lock-step induction -/

mutual
theorem rt2_graph (V : Nat → ValueS) (td : TData) :
    ∀ (g : GraphT) (s : Store) (A : Assoc) (outer : List Table) (p : GraphP) (ws : Writes),
      serGraph V td g = .ok (p, ws) → (replG V outer g).ok → (replG V outer g).new.Nodup →
      (∀ v ∈ (replG V outer g).new, v ∉ A.map (·.1)) → (∀ T ∈ outer, TblIn A T) → RS V s A → Fresh s →
      ∃ (s' : Store) (g' : GraphT) (B : Assoc),
        deserGraph s (outer.map (mapT A)) p = .ok (s', g') ∧ RS V s' (A ++ B) ∧ s.nv ≤ s'.nv ∧
        B.map (·.1) = (replG V outer g).new ∧ TreeRelG V (A ++ B) g g' ∧
        Fresh s' ∧ Prim s.nv s s' ∧ InfoOK2 V s' (A ++ B) (emitG V g) ∧
        ConstOK2 V td s' (A ++ B) (allInitsG g)
  | .mk gid ins inits nodes outs, s, A, outer, p, ws, hser, hok, hnd, hnew, hO, hrs, hfr => by
    obtain ⟨nps, vis2, ws2, hn, rfl⟩ := serGraph_inv hser
    simp only [replG] at hok hnd hnew ⊢
    generalize hri : replInits V outs (tblIns V ins) inits = ri at hok hnd hnew ⊢
    generalize hrd : replDecl V ri.tbl (nodes.flatMap (liveOuts V)) = rd at hok hnd hnew ⊢
    generalize hrn : replNs V outer rd.tbl nodes = rn at hok hnd hnew ⊢
    generalize hro : replOuts V rn.tbl outs = ro at hok hnd hnew ⊢
    obtain ⟨hins_n, hkn, okI, okD, okN, okO⟩ := hok
    rw [List.nodup_append] at hnd
    obtain ⟨hnd4, hndO, hdisjO⟩ := hnd
    rw [List.nodup_append] at hnd4
    obtain ⟨hnd3, hndN, hdisjN⟩ := hnd4
    rw [List.nodup_append] at hnd3
    obtain ⟨hnd2, hndD, hdisjD⟩ := hnd3
    rw [List.nodup_append] at hnd2
    obtain ⟨hndI, hndRI, hdisjI⟩ := hnd2
    have newA : ∀ v, v ∈ ins ∨ v ∈ ri.new ∨ v ∈ rd.new ∨ v ∈ rn.new ∨ v ∈ ro.new → v ∉ A.map (·.1) :=
      fun v hv => hnew v (by
        simp only [List.mem_append]
        rcases hv with hv | hv | hv | hv | hv
        · exact .inl (.inl (.inl (.inl hv)))
        · exact .inl (.inl (.inl (.inr hv)))
        · exact .inl (.inl (.inr hv))
        · exact .inl (.inr hv)
        · exact .inr hv)
    have okI' : (replInits V outs (tblIns V ins) inits).ok := by rw [hri]; exact okI
    have hbase := replInits_base V outs inits _ okI'
    have hcases := replInits_cases V outs inits _ okI' hkn
    rw [hri] at hcases
    have hvn : (inits.map (·.2)).Nodup := values_nodup_of_names (fun kv hkv => (hbase kv hkv).1) hkn
    have okD' : (replDecl V ri.tbl (nodes.flatMap (liveOuts V))).ok := by rw [hrd]; exact okD
    obtain ⟨hdnew, hLn, hdlook⟩ := replDecl_new V _ _ okD'
    rw [hrd] at hdnew hdlook
    -- the value_info list of the proto and what a lookup in it returns
    have hvis1 := mem_serInits_vi V td (ins.map fun v => (V v).name)
    have hvis2 := fun e => mem_serNodes_vi V td outs e nodes nps vis2 ws2 hn
    generalize hLdef : (serInits V td (ins.map fun v => (V v).name) inits).1 ++ vis2 = L at *
    generalize hvi : vinfoTable L = vi
    -- phase 1: inputs
    obtain ⟨r1, hi1⟩ := rt_inputs V ins s A hrs hndI (fun v hv => newA v (.inl hv)) hins_n
    obtain ⟨q1, hnv1, hids⟩ := deserInputs_spec s (ins.map (viOf V))
    simp only [List.length_map] at hids hnv1
    have p1 := deserInputs_prim s.nv (ins.map (viOf V)) s (Nat.le_refl _)
    have f1 := q1.fresh hfr
    have ok1 := inputTable_ok s (ins.map (viOf V))
    have htbl1 := rt2_inputTable V A ins (List.range' s.nv ins.length) (by simp) hndI (fun v hv => newA v (.inl hv))
    have hk1 : (A ++ ins.zip (List.range' s.nv ins.length)).map (·.1) = A.map (·.1) ++ ins := by
      rw [List.map_append, keys_zip _ _ (by simp)]
    have hsig1 := sig_zip A ins (List.range' s.nv ins.length) (by simp) hndI (fun v hv => newA v (.inl hv))
    generalize hA1 : A ++ ins.zip (List.range' s.nv ins.length) = A1 at *
    generalize hs1 : (deserInputs s (ins.map (viOf V))).1 = s1 at *
    have hT1 : TblIn A1 (tblIns V ins) := tblIn_tblIns V A1 ins (fun v hv => by rw [hk1]; simp [hv])
    have hinsA1 : ∀ v ∈ ins, v ∈ A1.map (·.1) := fun v hv => by rw [hk1]; simp [hv]
    -- phase 2: initializers
    have hconst : ∀ kv ∈ inits, (V kv.2).const ≠ none := fun kv hkv => (hbase kv hkv).2.2
    have htens := serInits_tensors V td (ins.map fun v => (V v).name) inits hconst
    have hmk : ∀ kv ∈ inits, (mkT V td kv).name = kv.1 := by
      intro kv hkv
      have := nm_of_name (hbase kv hkv).1
      unfold mkT
      split <;> simp [this]
    have h2 := rt2_inits V vi outs (mkT V td) inits s1 A1 (tblIns V ins) hmk r1 hT1 okI' hvn
      (by
        rw [hri]
        intro v hv
        rw [hk1, List.mem_append]
        rintro (h | h)
        · exact newA v (.inr (.inl hv)) h
        · exact hdisjI v h v hv rfl)
    rw [hri] at h2
    obtain ⟨B2, e2t, r2, e2v, k2, t2, m2, l2, c1, c2, c3, c4, _, c6, c7⟩ := h2
    generalize hs2 : (deserInits s1 (mapT A1 (tblIns V ins)) vi (inits.map (mkT V td))).1 = s2 at *
    have hk2 : ∀ v, v ∈ (A1 ++ B2).map (·.1) ↔ v ∈ A.map (·.1) ∨ v ∈ ins ∨ v ∈ ri.new := by
      intro v
      rw [List.map_append, List.mem_append, hk1, List.mem_append, k2]
      constructor
      · rintro ((h | h) | h)
        · exact .inl h
        · exact .inr (.inl h)
        · exact .inr (.inr h)
      · rintro (h | h | h)
        · exact .inl (.inl h)
        · exact .inl (.inr h)
        · exact .inr h
    -- phase 3: declare the node outputs
    have h3 := rt2_declNodes V vi nodes nps s2 (A1 ++ B2) ri.tbl (serNodes_outputs V td outs nodes nps vis2 ws2 hn) r2 t2
      okD' (by rw [hrd]; exact hndD)
      (by
        rw [hrd]
        intro v hv
        rw [hk2]
        rintro (h | h | h)
        · exact newA v (.inr (.inr (.inl hv))) h
        · exact hdisjD v (by simp [h]) v hv rfl
        · exact hdisjD v (by simp [h]) v hv rfl)
    rw [hrd] at h3
    obtain ⟨B3, s3, e3, r3, k3, t3, l3, i3, g3⟩ := h3
    have p3 := declareNodes_prim s2.nv vi nps s2 _ s3 _ (Nat.le_refl _) e3
    generalize hA3 : A1 ++ B2 ++ B3 = A3 at e3 r3 i3 t3
    have hk3 : ∀ v, v ∈ A3.map (·.1) ↔ v ∈ A.map (·.1) ∨ v ∈ ins ∨ v ∈ ri.new ∨ v ∈ rd.new := by
      intro v
      rw [← hA3, List.map_append, List.mem_append, hk2, k3]
      constructor
      · rintro ((h | h | h) | h)
        · exact .inl h
        · exact .inr (.inl h)
        · exact .inr (.inr (.inl h))
        · exact .inr (.inr (.inr h))
      · rintro (h | h | h | h)
        · exact .inl (.inl h)
        · exact .inl (.inr (.inl h))
        · exact .inl (.inr (.inr h))
        · exact .inr h
    have hAA3 : ∀ v, v ∈ A.map (·.1) → v ∈ A3.map (·.1) := fun v hv => (hk3 v).mpr (.inl hv)
    have hO3 : ∀ T ∈ outer, TblIn A3 T := fun T hT e he => hAA3 _ (hO T hT e he)
    have hlev : outer.map (mapT A) = outer.map (mapT A3) := by
      rw [← hA3, ← hA1, List.append_assoc, List.append_assoc]
      exact (maps_extend _ hO).symm
    rw [hids, htbl1] at ok1
    obtain ⟨q2, ok2, _, _⟩ := deserInits_spec vi (inits.map (mkT V td)) s1 (mapT A1 (tblIns V ins)) s.nv ok1 q1.nv_le
    rw [hs2] at q2 ok2
    rw [e2t] at ok2
    have f2 := q2.fresh f1
    have le2 : s.nv ≤ s2.nv := Nat.le_trans q1.nv_le q2.nv_le
    have f3 : Fresh s3 := ((declareNodes_spec vi nps s2 _ s.nv s3 _ ok2 le2 e3).1).fresh f2
    -- phase 4: the nodes
    have okN' : (replNs V outer rd.tbl nodes).ok := by rw [hrn]; exact okN
    have h4 := rt2_nodes V td nodes s3 A3 rd.tbl outer outs vi nps vis2 ws2 hn okN' (by rw [hrn]; exact hndN)
      (by
        rw [hrn]
        intro v hv hm
        rcases (hk3 v).mp hm with h | h | h | h
        · exact newA v (.inr (.inr (.inr (.inl hv)))) h
        · exact hdisjN v (by simp [h]) v hv rfl
        · exact hdisjN v (by simp [h]) v hv rfl
        · exact hdisjN v (by simp [h]) v hv rfl)
      t3 hO3 r3 f3
    rw [hrn] at h4
    obtain ⟨s4, nts, B4, e4, r4, l4, k4, t4, tr4, f4, p4, io4, co4⟩ := h4
    have hk4 : ∀ v, v ∈ (A3 ++ B4).map (·.1) ↔ v ∈ A.map (·.1) ∨ v ∈ ins ∨ v ∈ ri.new ∨ v ∈ rd.new ∨ v ∈ rn.new := by
      intro v
      rw [List.map_append, List.mem_append, hk3, k4]
      constructor
      · rintro ((h | h | h | h) | h)
        · exact .inl h
        · exact .inr (.inl h)
        · exact .inr (.inr (.inl h))
        · exact .inr (.inr (.inr (.inl h)))
        · exact .inr (.inr (.inr (.inr h)))
      · rintro (h | h | h | h | h)
        · exact .inl (.inl h)
        · exact .inl (.inr (.inl h))
        · exact .inl (.inr (.inr (.inl h)))
        · exact .inl (.inr (.inr (.inr h)))
        · exact .inr h
    -- phase 5: graph outputs
    have okO' : (replOuts V rn.tbl outs).ok := by rw [hro]; exact okO
    have h5 := rt2_outputs V outs s4 (A3 ++ B4) rn.tbl r4 t4 okO' (by rw [hro]; exact hndO)
      (by
        rw [hro]
        intro v hv hm
        rcases (hk4 v).mp hm with h | h | h | h | h
        · exact newA v (.inr (.inr (.inr (.inr hv)))) h
        · exact hdisjO v (by simp [h]) v hv rfl
        · exact hdisjO v (by simp [h]) v hv rfl
        · exact hdisjO v (by simp [h]) v hv rfl
        · exact hdisjO v (by simp [h]) v hv rfl)
    rw [hro] at h5
    obtain ⟨B5, e5, r5, k5, m5, l5, g5, o4, o5, o6, o7, o8⟩ := h5
    -- phase 6: the graph object
    have hrun : deserGraph s (outer.map (mapT A))
        (GraphP.mk (ins.map (viOf V)) (serInits V td (ins.map fun v => (V v).name) inits).2.1 L nps
          (outs.map (viOf V))) =
        .ok (mkGraph (deserOutputs s4 (mapT (A3 ++ B4) rn.tbl) (outs.map (viOf V))).1 (List.range' s.nv ins.length)
          (outs.map (sig (A3 ++ B4 ++ B5))) nts (inits.map fun kv => sig (A1 ++ B2) kv.2)) := by
      simp only [deserGraph, hvi, htens, hids, hs1, htbl1, hs2, e2t, e2v, e3, hlev, e4, e5]
    generalize hs5 : (deserOutputs s4 (mapT (A3 ++ B4) rn.tbl) (outs.map (viOf V))).1 = s5 at *
    generalize hA5 : A3 ++ B4 ++ B5 = A5 at *
    obtain ⟨c1', _, _⟩ := mkGraph_fst_counters s5 (List.range' s.nv ins.length) (outs.map (sig A5)) nts
      (inits.map fun kv => sig (A1 ++ B2) kv.2)
    have hnames6 : ∀ w, ((mkGraph s5 (List.range' s.nv ins.length) (outs.map (sig A5)) nts
        (inits.map fun kv => sig (A1 ++ B2) kv.2)).1.vals w).name = (s5.vals w).name := by
      intro w; rw [mkGraph_cell]
    have hsnd6 := mkGraph_snd s5 (List.range' s.nv ins.length) (outs.map (sig A5)) nts
      (inits.map fun kv => sig (A1 ++ B2) kv.2)
    have p6 := mkGraph_prim s5.nv s5 (List.range' s.nv ins.length) (outs.map (sig A5)) nts
      (inits.map fun kv => sig (A1 ++ B2) kv.2)
    generalize hmg : mkGraph s5 (List.range' s.nv ins.length) (outs.map (sig A5)) nts
      (inits.map fun kv => sig (A1 ++ B2) kv.2) = mg at hrun c1' hnames6 hsnd6 p6
    obtain ⟨s6, g6⟩ := mg
    simp only at c1' hnames6 hsnd6 p6
    have hAfull : A ++ (ins.zip (List.range' s.nv ins.length) ++ B2 ++ B3 ++ B4 ++ B5) = A5 := by
      rw [← hA5, ← hA3, ← hA1]; simp [List.append_assoc]
    have r6 : RS V s6 A5 := r5.same_nv c1' hnames6
    have hk5 : ∀ v, v ∈ A5.map (·.1) ↔ v ∈ (A3 ++ B4).map (·.1) ∨ v ∈ ro.new := by
      intro v; rw [← hA5, List.map_append, List.mem_append, k5]
    have h45 : ∀ v, v ∈ (A3 ++ B4).map (·.1) → sig A5 v = sig (A3 ++ B4) v := fun v hv => by
      rw [← hA5]; exact sig_append_of_mem hv
    have h35 : ∀ v, v ∈ A3.map (·.1) → sig A5 v = sig A3 v := fun v hv => by
      rw [h45 v (mem_keys_append hv)]; exact sig_append_of_mem hv
    have hinsA3 : ∀ v ∈ ins, v ∈ A3.map (·.1) := fun v hv => (hk3 v).mpr (.inr (.inl hv))
    have hinitA2 : ∀ kv ∈ inits, kv.2 ∈ (A1 ++ B2).map (·.1) := m2
    have hinitA3 : ∀ kv ∈ inits, kv.2 ∈ A3.map (·.1) := fun kv hkv => by
      rw [← hA3]; exact mem_keys_append (m2 kv hkv)
    have hA2A5 : ∀ v, v ∈ (A1 ++ B2).map (·.1) → sig A5 v = sig (A1 ++ B2) v := by
      intro v hv
      rw [h35 v (by rw [← hA3]; exact mem_keys_append hv), ← hA3]
      exact sig_append_of_mem hv
    have hTL := tablesLt_of_RS2 hrs outer hO
    obtain ⟨f6, _⟩ := deserGraph_struct _ s _ s6 g6 hfr hTL hrun
    have pfull := deserGraph_prim _ s _ s6 g6 hfr hTL hrun
    have hA35 : ∀ v, v ∈ A3.map (·.1) → v ∈ A5.map (·.1) := fun v hv => (hk5 v).mpr (.inl (mem_keys_append hv))
    -- frames from the end of phase 4 to the end
    have hframe46 : ∀ d, d < s4.nv → (∀ o ∈ outs, sig A5 o ≠ d) → (s6.vals d).info = (s4.vals d).info := by
      intro d hlt hd
      rw [(p6.cell d (Nat.lt_of_lt_of_le hlt l5)).1, o4 d hlt hd]
    have hconst46 : ∀ d, d < s4.nv → (s6.vals d).const = (s4.vals d).const := by
      intro d hd
      rw [(p6.cell d (Nat.lt_of_lt_of_le hd l5)).2, o5 d hd]
    have htens46 : ∀ t, t < s4.nt → s6.tens t = s4.tens t := by
      intro t ht
      rw [p6.tens t (by rw [o7]; exact ht), o6]
    -- a value that is not a graph output is not touched by phase 5
    have hnotout : ∀ v, v ∈ (A3 ++ B4).map (·.1) → v ∉ outs → ∀ o ∈ outs, sig A5 o ≠ sig (A3 ++ B4) v := by
      intro v hmem hvo o ho heq
      rw [← h45 v hmem] at heq
      have := r5.sig_inj (m5 o ho) ((hk5 v).mpr (.inl hmem)) heq
      exact hvo (this ▸ ho)
    -- the scope after the definition phases binds every new definition under its name
    have hT3 : ∀ v, v ∈ ri.new ∨ v ∈ rd.new → rd.tbl.lookup (nm V v) = some v := by
      intro v hv
      rcases hv with hv | hv
      · have hm := replInits_new_sub V outs inits (tblIns V ins) v (by rw [hri]; exact hv)
        simp only [List.mem_map] at hm
        obtain ⟨kv, hkv, rfl⟩ := hm
        rcases hcases kv hkv with ⟨_, _, h3, _⟩ | h
        · rw [nm_of_name (hbase kv hkv).1, ← hrd]
          exact replDecl_mono V _ _ okD' _ _ h3
        · exact absurd rfl (hdisjI kv.2 (tblIns_lookup_some V ins _ _ h).1 kv.2 hv)
      · exact hdlook v hv
    -- every value_info entry carrying the name of a new definition was written for that definition
    have hsrc : ∀ v, v ∈ ri.new ∨ v ∈ rd.new → ∀ e ∈ L, e.name = nm V v →
        shouldCreate (V v) = true ∧ e.info = (V v).info.emit := by
      intro v hv e he hname
      have hlv := hT3 v hv
      rw [← hLdef, List.mem_append] at he
      rcases he with he | he
      · rw [hvis1] at he
        obtain ⟨kv', hkv', hsc, hnin, rfl⟩ := he
        simp only at hname
        have hnew' : kv'.2 ∈ ri.new := by
          rcases hcases kv' hkv' with ⟨h1, _⟩ | h
          · exact h1
          · exfalso
            apply hnin
            obtain ⟨hm, hnm⟩ := tblIns_lookup_some V ins _ _ h
            exact List.mem_map.mpr ⟨kv'.2, hm, rfl⟩
        have := hT3 kv'.2 (.inl hnew')
        rw [hname, hlv] at this
        have hEq : v = kv'.2 := Option.some.inj this
        rw [hEq]; exact ⟨hsc, rfl⟩
      · rw [hvis2] at he
        obtain ⟨n, hn', he⟩ := he
        rw [mem_outVInfo] at he
        obtain ⟨u, hu0, _, hsc, rfl⟩ := he
        simp only at hname ⊢
        have hut : nameTruthy (V u).name = true := by
          simp only [shouldCreate, Bool.and_eq_true] at hsc; exact hsc.2
        have hmem : u ∈ rd.new := by
          rw [hdnew, List.mem_filter]
          refine ⟨?_, hut⟩
          simp only [List.mem_flatMap]
          obtain ⟨i, g, a, b, c⟩ := n
          exact ⟨_, hn', truthy_mem_stripTrailing V u b hu0 hut⟩
        have := hT3 u (.inr hmem)
        rw [hname, hlv] at this
        have hEq : v = u := Option.some.inj this
        rw [hEq]; exact ⟨hsc, rfl⟩
    refine ⟨s6, g6, ins.zip (List.range' s.nv ins.length) ++ B2 ++ B3 ++ B4 ++ B5, hrun, by rw [hAfull]; exact r6, ?_, ?_, ?_,
      f6, pfull, ?_, ?_⟩
    · rw [c1']
      have := q1.nv_le
      have := q2.nv_le
      omega
    · simp only [List.map_append, keys_zip _ _ (show ins.length = (List.range' s.nv ins.length).length by simp), k2, k3, k4, k5]
    · rw [hAfull, hsnd6]
      simp only [TreeRelG]
      refine ⟨?_, fun v hv => hA35 v (hinsA3 v hv), ?_, fun kv hkv => hA35 _ (hinitA3 kv hkv), ?_, trivial, m5⟩
      · refine (Eq.trans (List.map_congr_left (fun v hv => ?_)) hsig1).symm
        rw [h35 v (hinsA3 v hv), ← hA3, List.append_assoc A1 B2 B3]
        exact sig_append_of_mem (hinsA1 v hv)
      · -- the initializer dict
        have hnm : ∀ kv ∈ inits, ((s5.vals (sig (A1 ++ B2) kv.2)).name).getD "" = kv.1 := by
          intro kv hkv
          have hmem : kv.2 ∈ A5.map (·.1) := hA35 _ (hinitA3 kv hkv)
          have := r5.sig_name hmem
          rw [hA2A5 _ (hinitA2 kv hkv)] at this
          rw [this, (hbase kv hkv).1]
          rfl
        unfold mkGraphInits
        rw [initDict_fresh]
        · simp only [List.nil_append, List.map_map]
          apply List.map_congr_left
          intro kv hkv
          simp only [Function.comp]
          have e := hnm kv hkv
          rw [show ((setOwner (setOwner s5 s5.ng (fun c => { c with isIn := true }) (List.range' s.nv ins.length)) s5.ng
              (fun c => { c with isOut := true }) (outs.map (sig A5))).vals
              (sig (A1 ++ B2) kv.2)).name = (s5.vals _).name from
            (setOwner_name _ _ (fun c => { c with isOut := true }) (fun _ => rfl) _ _).trans
              (setOwner_name _ _ (fun c => { c with isIn := true }) (fun _ => rfl) _ _)]
          rw [e, hA2A5 _ (hinitA2 kv hkv)]
        · simp only [List.map_nil, List.nil_append, List.map_map]
          have : (inits.map ((fun x => (((setOwner (setOwner s5 s5.ng (fun c => { c with isIn := true })
              (List.range' s.nv ins.length)) s5.ng (fun c => { c with isOut := true }) (outs.map (sig A5))).vals x).name).getD "") ∘
              fun kv => sig (A1 ++ B2) kv.2)) = inits.map (·.1) := by
            apply List.map_congr_left
            intro kv hkv
            simp only [Function.comp]
            rw [show ((setOwner (setOwner s5 s5.ng (fun c => { c with isIn := true }) (List.range' s.nv ins.length)) s5.ng
                (fun c => { c with isOut := true }) (outs.map (sig A5))).vals
                (sig (A1 ++ B2) kv.2)).name = (s5.vals _).name from
              (setOwner_name _ _ (fun c => { c with isOut := true }) (fun _ => rfl) _ _).trans
                (setOwner_name _ _ (fun c => { c with isIn := true }) (fun _ => rfl) _ _)]
            exact hnm kv hkv
          rw [this]
          exact hkn
      · have := TreeRelNs.mono V (A3 ++ B4) B5 nodes nts tr4
        rw [hA5] at this
        exact TreeRelNs_setGraph V _ _ nodes nts this
    · -- the information of every emitted value
      rw [hAfull]
      -- values defined before the nodes were processed: input, initializer, named node output
      have hdefs : ∀ v, v ∈ ins ∨ v ∈ ri.new ∨ v ∈ rd.new → v ∉ outs →
          (s6.vals (sig A5 v)).info = (V v).info.emit := by
        intro v hv hvo
        have hmem3 : v ∈ A3.map (·.1) := (hk3 v).mpr (.inr hv)
        have hlt3 := r3.sig_lt hmem3
        rw [h35 v hmem3]
        have hno := hnotout v (mem_keys_append hmem3) hvo
        rw [sig_append_of_mem hmem3] at hno
        rw [hframe46 _ (Nat.lt_of_lt_of_le hlt3 l4) hno, (p4.cell _ hlt3).1]
        rcases hv with hvi' | hvni | hvl
        · -- a graph input
          have hm1 := hinsA1 v hvi'
          have e13 : sig A3 v = sig A1 v := by
            rw [← hA3, List.append_assoc]; exact sig_append_of_mem hm1
          rw [e13, (p3.cell _ (Nat.lt_of_lt_of_le (r1.sig_lt hm1) l2)).1, c3 _ (r1.sig_lt hm1)]
          exact hi1 v hvi'
        · -- an initializer of its own: the value_info entry carries its information
          have hm := replInits_new_sub V outs inits (tblIns V ins) v (by rw [hri]; exact hvni)
          simp only [List.mem_map] at hm
          obtain ⟨kv, hkv, rfl⟩ := hm
          have hm2 : kv.2 ∈ (A1 ++ B2).map (·.1) := hinitA2 kv hkv
          have e23 : sig A3 kv.2 = sig (A1 ++ B2) kv.2 := by
            rw [← hA3]; exact sig_append_of_mem hm2
          rw [e23, (p3.cell _ (r2.sig_lt hm2)).1, c1 kv hkv hvni]
          have hknm : nm V kv.2 = kv.1 := nm_of_name (hbase kv hkv).1
          have hkt : nameTruthy (V kv.2).name = true := by simp [nameTruthy, (hbase kv hkv).1, (hbase kv hkv).2.1]
          rcases hcases kv hkv with ⟨_, hln, _, hinfo⟩ | h
          · obtain ⟨hty, hsh⟩ := hinfo hvo
            have hent : (⟨kv.1, (V kv.2).info.emit⟩ : VInfoP) ∈ L := by
              rw [← hLdef, List.mem_append]
              left
              rw [hvis1]
              refine ⟨kv, hkv, ?_, ?_, by rw [hknm]⟩
              · simp only [shouldCreate, Info.present, Bool.and_eq_true, Bool.or_eq_true]
                exact ⟨.inl (by simpa [Option.isSome_iff_ne_none] using hty), hkt⟩
              · intro hm
                simp only [List.mem_map] at hm
                obtain ⟨u, hu0, hname⟩ := hm
                have : nm V u = kv.1 := by simp [nm, hname, (hbase kv hkv).1]
                exact tblIns_lookup_none V ins _ hln u hu0 this
            have hlook : vi.lookup kv.1 = some (V kv.2).info.emit := by
              rw [← hvi]
              exact vinfoTable_lookup_some L kv.1 _
                (fun e he hname => (hsrc kv.2 (.inl hvni) e he (by rw [hknm]; exact hname)).2) ⟨_, hent, rfl⟩
            simp only [initInfo, hlook]
            exact emit_orTensor hty hsh
          · exact absurd rfl (hdisjI kv.2 (tblIns_lookup_some V ins _ _ h).1 kv.2 hvni)
        · -- a named node output that is not a graph output
          have hvl' := hvl
          rw [hdnew, List.mem_filter] at hvl'
          obtain ⟨hvf, ht⟩ := hvl'
          rw [i3 v hvl]
          by_cases hsc : shouldCreate (V v) = true
          · have hent : (⟨nm V v, (V v).info.emit⟩ : VInfoP) ∈ L := by
              rw [← hLdef, List.mem_append]
              right
              rw [hvis2]
              simp only [List.mem_flatMap] at hvf
              obtain ⟨n, hn', hvn'⟩ := hvf
              refine ⟨n, hn', ?_⟩
              rw [mem_outVInfo]
              obtain ⟨i, g, a, b, c⟩ := n
              exact ⟨v, stripTrailing_sub V b v hvn', hvo, hsc, rfl⟩
            have hlook : vi.lookup (nm V v) = some (V v).info.emit := by
              rw [← hvi]
              exact vinfoTable_lookup_some L _ _ (fun e he hname => (hsrc v (.inr hvl) e he hname).2) ⟨_, hent, rfl⟩
            simp only [declInfo, hlook]
          · have hlook : vi.lookup (nm V v) = none := by
              rw [← hvi]
              exact vinfoTable_lookup_none L _ (fun e he hname => hsc (hsrc v (.inr hvl) e he hname).1)
            simp only [declInfo, hlook]
            have hnp : (V v).info.present = false := by
              simp only [shouldCreate, Bool.and_eq_true, ht, and_true] at hsc
              simpa using hsc
            exact (emit_of_not_present hnp).symm
      -- values created while the nodes were processed
      have hB4 : ∀ w, w ∈ emitSubNs V nodes →
          w ∉ outs → (s6.vals (sig A5 w)).info = (V w).info.emit := by
        intro w hw hwo
        obtain ⟨hmem, hinfo⟩ := io4 w hw
        rw [h45 w hmem, hframe46 _ (r4.sig_lt hmem) (hnotout w hmem hwo)]
        exact hinfo
      intro v hv
      by_cases hvo : v ∈ outs
      · -- a graph output takes what its output entry says
        refine ⟨m5 v hvo, ?_⟩
        have hlt5 : sig A5 v < s5.nv := r5.sig_lt (m5 v hvo)
        rw [(p6.cell _ hlt5).1]
        exact o8 v hvo
      · simp only [emitG, List.mem_append] at hv
        rcases hv with (((hv | hv) | hv) | hv) | hv
        · exact ⟨hA35 v (hinsA3 v hv), hdefs v (.inl hv) hvo⟩
        · simp only [List.mem_map] at hv
          obtain ⟨kv, hkv, rfl⟩ := hv
          refine ⟨hA35 _ (hinitA3 kv hkv), ?_⟩
          rcases hcases kv hkv with ⟨h1, _⟩ | h
          · exact hdefs kv.2 (.inr (.inl h1)) hvo
          · exact hdefs kv.2 (.inl (tblIns_lookup_some V ins _ _ h).1) hvo
        · have hvl : v ∈ rd.new := by rw [hdnew]; exact hv
          exact ⟨hA35 v ((hk3 v).mpr (.inr (.inr (.inr hvl)))), hdefs v (.inr (.inr hvl)) hvo⟩
        · exact absurd hv hvo
        · exact ⟨(hk5 v).mpr (.inl (io4 v hv).1), hB4 v hv hvo⟩
    · -- the initializer tensors
      rw [hAfull]
      intro kv hkv
      simp only [allInitsG, List.mem_append] at hkv
      rcases hkv with hkv | hkv
      · refine ⟨hA35 _ (hinitA3 kv hkv), hconst kv hkv, fun t ht => ?_⟩
        obtain ⟨t', h1, h2, h3⟩ := c2 kv hkv
        have hm2 := hinitA2 kv hkv
        have hlt2 := r2.sig_lt hm2
        refine ⟨t', ?_, ?_, ?_, ?_⟩
        · rw [hA2A5 _ hm2, hconst46 _ (Nat.lt_of_lt_of_le hlt2 (Nat.le_trans l3 l4)),
            (p4.cell _ (Nat.lt_of_lt_of_le hlt2 l3)).2, (p3.cell _ hlt2).2]
          exact h1
        · have := p3.nt_le
          have := p4.nt_le
          have := p6.nt_le
          rw [o7] at this
          omega
        · rw [htens46 t' (Nat.lt_of_lt_of_le h2 (Nat.le_trans p3.nt_le p4.nt_le)),
            p4.tens t' (Nat.lt_of_lt_of_le h2 p3.nt_le), p3.tens t' h2, h3]
        · simp only [Store.tdata]
          rw [htens46 t' (Nat.lt_of_lt_of_le h2 (Nat.le_trans p3.nt_le p4.nt_le)),
            p4.tens t' (Nat.lt_of_lt_of_le h2 p3.nt_le), p3.tens t' h2, h3]
          simp [mkT, ht]
      · obtain ⟨hmem, hne, hc⟩ := co4 kv hkv
        refine ⟨(hk5 _).mpr (.inl hmem), hne, fun t ht => ?_⟩
        obtain ⟨t', h1, h2, h3, h4⟩ := hc t ht
        refine ⟨t', ?_, ?_, ?_, ?_⟩
        · rw [h45 _ hmem, hconst46 _ (r4.sig_lt hmem)]; exact h1
        · have := p6.nt_le
          rw [o7] at this
          omega
        · rw [htens46 t' h2]; exact h3
        · simp only [Store.tdata] at h4 ⊢
          rw [htens46 t' h2]; exact h4
theorem rt2_nodes (V : Nat → ValueS) (td : TData) :
    ∀ (nodes : List NodeT) (s : Store) (A : Assoc) (T : Table) (outer : List Table) (gouts : List Nat)
      (vi : List (Name × Info)) (nps : List NodeP) (vis : List VInfoP) (ws : Writes),
      serNodes V td gouts nodes = .ok (nps, vis, ws) → (replNs V outer T nodes).ok →
      (replNs V outer T nodes).new.Nodup → (∀ v ∈ (replNs V outer T nodes).new, v ∉ A.map (·.1)) →
      TblIn A T → (∀ T' ∈ outer, TblIn A T') → RS V s A → Fresh s →
      ∃ (s' : Store) (nts : List NodeT) (B : Assoc),
        deserNodes s (mapT A T) (outer.map (mapT A)) vi nps = .ok (s', mapT (A ++ B) (replNs V outer T nodes).tbl, nts) ∧
        RS V s' (A ++ B) ∧ s.nv ≤ s'.nv ∧ B.map (·.1) = (replNs V outer T nodes).new ∧
        TblIn (A ++ B) (replNs V outer T nodes).tbl ∧
        TreeRelNs V (A ++ B) nodes nts ∧ Fresh s' ∧ Prim s.nv s s' ∧
        InfoOK2 V s' (A ++ B) (emitSubNs V nodes) ∧
        ConstOK2 V td s' (A ++ B) (allInitsNs nodes)
  | [], s, A, T, outer, gouts, vi, nps, vis, ws, hser, _, _, _, hT, _, hrs, hfr => by
    simp only [serNodes, Except.ok.injEq, Prod.mk.injEq] at hser
    obtain ⟨rfl, _, _⟩ := hser
    exact ⟨s, [], [], by simp [deserNodes, replNs], by simpa using hrs, Nat.le_refl _, by simp [replNs],
      by simpa [replNs] using hT, by simp [TreeRelNs], hfr, Prim.refl _ _, by simp [InfoOK2, emitSubNs],
      by simp [ConstOK2, allInitsNs]⟩
  | n :: rest, s, A, T, outer, gouts, vi, nps, vis, ws, hser, hok, hnd, hnew, hT, hO, hrs, hfr => by
    obtain ⟨np, vi1, ws1, nps', vis', ws2, h1, h2, rfl⟩ := serNodes_inv hser
    simp only [replNs] at hok hnd hnew ⊢
    rw [List.nodup_append] at hnd
    obtain ⟨s1, n', B1, e1, r1, l1, k1, t1, tr1, f1, p1, io1, co1⟩ := rt2_node V td n s A T outer gouts vi np vi1 ws1 h1
      hok.1 hnd.1 (fun v hv => hnew v (by simp [hv])) hT hO hrs hfr
    have hO1 : ∀ T' ∈ outer, TblIn (A ++ B1) T' := fun T' hT' => (hO T' hT').append _
    obtain ⟨s2, nts, B2, e2, r2, l2, k2, t2, tr2, f2, p2, io2, co2⟩ := rt2_nodes V td rest s1 (A ++ B1)
      (replN V outer T n).tbl outer gouts vi nps' vis' ws2 h2 hok.2 hnd.2.1
      (fun v hv hm => by
        rw [List.map_append, List.mem_append, k1] at hm
        rcases hm with hm | hm
        · exact hnew v (by simp [hv]) hm
        · exact hnd.2.2 v hm v hv rfl)
      t1 hO1 r1 f1
    rw [maps_extend B1 hO] at e2
    refine ⟨s2, n' :: nts, B1 ++ B2, ?_, by simpa [List.append_assoc] using r2, Nat.le_trans l1 l2, ?_, ?_, ?_, f2,
      p1.trans (p2.weaken l1), ?_, ?_⟩
    · simp only [deserNodes, e1, e2, List.append_assoc]
    · simp [k1, k2]
    · rw [← List.append_assoc]; exact t2
    · simp only [TreeRelNs]
      rw [← List.append_assoc]
      exact ⟨TreeRelN.mono V (A ++ B1) B2 n n' tr1, tr2⟩
    · rw [← List.append_assoc]
      have io1' := io1.step (B := B2) r1 p2
      intro v hv
      simp only [emitSubNs, List.mem_append] at hv
      rcases hv with hv | hv
      · exact io1' v hv
      · exact io2 v hv
    · rw [← List.append_assoc]
      have co1' := co1.step (B := B2) r1 p2
      intro kv hkv
      simp only [allInitsNs, List.mem_append] at hkv
      rcases hkv with hkv | hkv
      · exact co1' kv hkv
      · exact co2 kv hkv
theorem rt2_node (V : Nat → ValueS) (td : TData) :
    ∀ (n : NodeT) (s : Store) (A : Assoc) (T : Table) (outer : List Table) (gouts : List Nat)
      (vi : List (Name × Info)) (np : NodeP) (vis : List VInfoP) (ws : Writes),
      serNode V td gouts n = .ok (np, vis, ws) → (replN V outer T n).ok →
      (replN V outer T n).new.Nodup → (∀ v ∈ (replN V outer T n).new, v ∉ A.map (·.1)) →
      TblIn A T → (∀ T' ∈ outer, TblIn A T') → RS V s A → Fresh s →
      ∃ (s' : Store) (n' : NodeT) (B : Assoc),
        deserNode s (mapT A T) (outer.map (mapT A)) vi np = .ok (s', mapT (A ++ B) (replN V outer T n).tbl, n') ∧
        RS V s' (A ++ B) ∧ s.nv ≤ s'.nv ∧ B.map (·.1) = (replN V outer T n).new ∧
        TblIn (A ++ B) (replN V outer T n).tbl ∧
        TreeRelN V (A ++ B) n n' ∧ Fresh s' ∧ Prim s.nv s s' ∧
        InfoOK2 V s' (A ++ B) (emitSubN V n) ∧
        ConstOK2 V td s' (A ++ B) (allInitsN n)
  | .mk i g ins outs subs, s, A, T, outer, gouts, vi, np, vis, ws, hser, hok, hnd, hnew, hT, hO, hrs, hfr => by
    obtain ⟨gps, ws', hs, rfl, _⟩ := serNode_inv hser
    simp only [replN] at hok hnd hnew ⊢
    obtain ⟨okR, houtn, hlook, okG⟩ := hok
    rw [List.nodup_append] at hnd
    obtain ⟨hnd12, hndG, hdisjG⟩ := hnd
    rw [List.nodup_append] at hnd12
    obtain ⟨hndR, hndE, hdisjE⟩ := hnd12
    -- inputs
    obtain ⟨B1, s1, e1, r1, k1, t1, l1, m1, g1⟩ := rt2_resolveInputs V vi outer ins s A T hrs hT hO okR hndR
      (fun v hv => hnew v (by simp [hv]))
    have f1 : Fresh s1 := by
      have := resolveInputs_fresh (outer.map (mapT A)) vi (ins.map (inName V)) s (mapT A T) hfr
      rw [e1] at this; exact this
    have p1 : Prim s.nv s s1 := by
      have := resolveInputs_prim s.nv (outer.map (mapT A)) vi (ins.map (inName V)) s (mapT A T) (Nat.le_refl _)
      rw [e1] at this; exact this
    generalize hT1 : (replRes V outer T ins).tbl = T1 at *
    -- outputs
    obtain ⟨B2, s2, e2, r2, k2, l2, fr2, io2, g2, tn2, nt2⟩ := rt2_lookupOutputs V (mapT (A ++ B1) T1)
      (stripTrailing V outs) s1 (A ++ B1) r1 houtn hndE
      (fun v hv ht => ⟨by rw [lookup_mapT, hlook v hv ht]; rfl, t1.lookup (hlook v hv ht)⟩)
      (fun v hv hf hm => by
        have hvE : v ∈ (stripTrailing V outs).filter (fun v => !nameTruthy (V v).name) :=
          List.mem_filter.mpr ⟨hv, by simpa using hf⟩
        rw [List.map_append, List.mem_append, k1] at hm
        rcases hm with hm | hm
        · exact hnew v (by simp [hvE]) hm
        · exact hdisjE v hm v hvE rfl)
    have f2 : Fresh s2 := ((lookupOutputs_spec _ _ _ _ _ e2).1).fresh f1
    have p2 : Prim s1.nv s1 s2 := ⟨fun v hv => by rw [fr2 v hv]; exact ⟨rfl, rfl⟩, by rw [nt2]; exact Nat.le_refl _,
      fun t _ => by rw [tn2]⟩
    -- nested graphs
    have hT12 : TblIn (A ++ B1 ++ B2) T1 := t1.append _
    have hO12 : ∀ T' ∈ T1 :: outer, TblIn (A ++ B1 ++ B2) T' := by
      intro T' hT'
      simp only [List.mem_cons] at hT'
      rcases hT' with rfl | hT'
      · exact hT12
      · exact ((hO T' hT').append _).append _
    obtain ⟨s3, gts, B3, e3, r3, l3, k3, tr3, f3, p3, io3, co3⟩ := rt2_subs V td subs s2 (A ++ B1 ++ B2) (T1 :: outer) gps ws' hs
      okG hndG
      (fun v hv hm => by
        rw [List.map_append, List.mem_append, k2, List.map_append, List.mem_append, k1] at hm
        rcases hm with (hm | hm) | hm
        · exact hnew v (by simp [hv]) hm
        · exact hdisjG v (by simp [hm]) v hv rfl
        · exact hdisjG v (by simp [hm]) v hv rfl)
      hO12 r2 f2
    have hscopes : (T1 :: outer).map (mapT (A ++ B1 ++ B2)) = mapT (A ++ B1) T1 :: outer.map (mapT A) := by
      simp only [List.map_cons]
      rw [mapT_extend B2 t1, List.append_assoc, maps_extend (B1 ++ B2) hO]
    rw [hscopes] at e3
    have hLkeys : ∀ v ∈ stripTrailing V outs, v ∈ (A ++ B1 ++ B2).map (·.1) := by
      intro v hv
      by_cases ht : nameTruthy (V v).name = true
      · exact mem_keys_append (t1.lookup (hlook v hv ht))
      · rw [List.map_append, List.mem_append, k2]
        exact .inr (List.mem_filter.mpr ⟨hv, by simpa using ht⟩)
    -- the node object
    have pm := mkNode_prim s3.nv s3 (ins.map (Option.map (sig (A ++ B1)))) ((stripTrailing V outs).map (sig (A ++ B1 ++ B2))) gts
    have r4 : RS V (mkNode s3 (ins.map (Option.map (sig (A ++ B1)))) ((stripTrailing V outs).map (sig (A ++ B1 ++ B2))) gts).1
        (A ++ B1 ++ B2 ++ B3) :=
      r3.same_nv (mkNode_fst_nv _ _ _ _) (fun w => (mkNode_keeps _ _ _ _ w).1)
    have f4 : Fresh (mkNode s3 (ins.map (Option.map (sig (A ++ B1)))) ((stripTrailing V outs).map (sig (A ++ B1 ++ B2))) gts).1 := by
      apply mkNode_fresh _ _ _ _ f3
      · intro v hv
        simp only [List.mem_map] at hv
        obtain ⟨o, ho, he⟩ := hv
        cases o with
        | none => simp at he
        | some w =>
          simp only [Option.map_some, Option.some.injEq] at he
          subst he
          exact Nat.lt_of_lt_of_le (r1.sig_lt (m1 w ho)) (Nat.le_trans l2 l3)
      · intro v hv
        simp only [List.mem_map] at hv
        obtain ⟨w, hw, rfl⟩ := hv
        exact Nat.lt_of_lt_of_le (r2.sig_lt (hLkeys w hw)) l3
    have hB : A ++ (B1 ++ B2 ++ B3) = A ++ B1 ++ B2 ++ B3 := by simp [List.append_assoc]
    refine ⟨(mkNode s3 (ins.map (Option.map (sig (A ++ B1)))) ((stripTrailing V outs).map (sig (A ++ B1 ++ B2))) gts).1,
      (mkNode s3 (ins.map (Option.map (sig (A ++ B1)))) ((stripTrailing V outs).map (sig (A ++ B1 ++ B2))) gts).2,
      B1 ++ B2 ++ B3, ?_, by rw [hB]; exact r4, ?_, ?_, ?_, ?_, f4,
      ((p1.trans (p2.weaken l1)).trans (p3.weaken (Nat.le_trans l1 l2))).trans (pm.weaken (Nat.le_trans l1 (Nat.le_trans l2 l3))),
      ?_, ?_⟩
    · simp only [deserNode, e1, e2, e3, hB]
      rw [mapT_extend B3 hT12, mapT_extend B2 t1]
    · rw [mkNode_fst_nv]; exact Nat.le_trans l1 (Nat.le_trans l2 l3)
    · simp [k1, k2, k3, liveOuts]
    · rw [hB]; exact hT12.append _
    · rw [mkNode_snd, hB]
      simp only [TreeRelN]
      refine ⟨?_, fun v hv => mem_keys_append (mem_keys_append (m1 v hv)), ?_, ?_, tr3⟩
      · apply List.map_congr_left
        intro o ho
        cases o with
        | none => rfl
        | some v =>
          simp only [Option.map_some, Option.some.injEq]
          rw [List.append_assoc (A ++ B1), sig_append_of_mem (m1 v ho)]
      · rw [map_sig_append hLkeys]
      · intro v hv
        exact mem_keys_append (hLkeys v hv)
    · rw [hB]
      intro v hv
      simp only [emitSubN] at hv
      obtain ⟨hm, hi⟩ := io3 v hv
      refine ⟨hm, ?_⟩
      rw [(pm.cell _ (r3.sig_lt hm)).1]; exact hi
    · rw [hB]
      have := co3.prim r3 pm
      simpa [allInitsN] using this
theorem rt2_subs (V : Nat → ValueS) (td : TData) :
    ∀ (subs : List GraphT) (s : Store) (A : Assoc) (scopes : List Table) (gps : List GraphP) (ws : Writes),
      serSubs V td subs = .ok (gps, ws) → (replGs V scopes subs).ok → (replGs V scopes subs).new.Nodup →
      (∀ v ∈ (replGs V scopes subs).new, v ∉ A.map (·.1)) → (∀ T ∈ scopes, TblIn A T) → RS V s A → Fresh s →
      ∃ (s' : Store) (gts : List GraphT) (B : Assoc),
        deserSubs s (scopes.map (mapT A)) gps = .ok (s', gts) ∧ RS V s' (A ++ B) ∧ s.nv ≤ s'.nv ∧
        B.map (·.1) = (replGs V scopes subs).new ∧ TreeRelGs V (A ++ B) subs gts ∧
        Fresh s' ∧ Prim s.nv s s' ∧ InfoOK2 V s' (A ++ B) (emitGs V subs) ∧
        ConstOK2 V td s' (A ++ B) (allInitsGs subs)
  | [], s, A, scopes, gps, ws, hser, _, _, _, _, hrs, hfr => by
    simp only [serSubs, Except.ok.injEq, Prod.mk.injEq] at hser
    obtain ⟨rfl, _⟩ := hser
    exact ⟨s, [], [], by simp [deserSubs], by simpa using hrs, Nat.le_refl _, by simp [replGs],
      by simp [TreeRelGs], hfr, Prim.refl _ _, by simp [InfoOK2, emitGs], by simp [ConstOK2, allInitsGs]⟩
  | g :: rest, s, A, scopes, gps, ws, hser, hok, hnd, hnew, hO, hrs, hfr => by
    obtain ⟨gp, ws1, gps', ws2, h1, h2, rfl⟩ := serSubs_inv hser
    simp only [replGs] at hok hnd hnew ⊢
    rw [List.nodup_append] at hnd
    obtain ⟨s1, g', B1, e1, r1, l1, k1, tr1, f1, p1, io1, co1⟩ := rt2_graph V td g s A scopes gp ws1 h1 hok.1 hnd.1
      (fun v hv => hnew v (by simp [hv])) hO hrs hfr
    have hO1 : ∀ T ∈ scopes, TblIn (A ++ B1) T := fun T hT => (hO T hT).append _
    obtain ⟨s2, gts, B2, e2, r2, l2, k2, tr2, f2, p2, io2, co2⟩ := rt2_subs V td rest s1 (A ++ B1) scopes gps' ws2 h2 hok.2
      hnd.2.1
      (fun v hv hm => by
        rw [List.map_append, List.mem_append, k1] at hm
        rcases hm with hm | hm
        · exact hnew v (by simp [hv]) hm
        · exact hnd.2.2 v hm v hv rfl)
      hO1 r1 f1
    rw [maps_extend B1 hO] at e2
    refine ⟨s2, g' :: gts, B1 ++ B2, ?_, by simpa [List.append_assoc] using r2, Nat.le_trans l1 l2, ?_, ?_, f2,
      p1.trans (p2.weaken l1), ?_, ?_⟩
    · simp only [deserSubs, e1, e2]
    · simp [k1, k2]
    · simp only [TreeRelGs]
      rw [← List.append_assoc]
      exact ⟨TreeRelG.mono V (A ++ B1) B2 g g' tr1, tr2⟩
    · rw [← List.append_assoc]
      have io1' := io1.step (B := B2) r1 p2
      intro v hv
      simp only [emitGs, List.mem_append] at hv
      rcases hv with hv | hv
      · exact io1' v hv
      · exact io2 v hv
    · rw [← List.append_assoc]
      have co1' := co1.step (B := B2) r1 p2
      intro kv hkv
      simp only [allInitsGs, List.mem_append] at hkv
      rcases hkv with hkv | hkv
      · exact co1' kv hkv
      · exact co2 kv hkv
end

end IrVerif.Scope

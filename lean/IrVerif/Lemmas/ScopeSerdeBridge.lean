import IrVerif.Lemmas.SerdeMutual
import IrVerif.Model.ScopeSerdeBridge
import IrVerif.Lemmas.ScopeInv
import IrVerif.Lemmas.ScopePrim
/-!
The C02 bridge: the field-level model of serde.py (`IrVerif.Serde`, property C02) and the scope / name model
(`IrVerif.Scope`, properties C03 and C17) describe ONE deserializer / serializer.

* `absG : Serde.GraphP → Scope.GraphP` forgets what the Scope model does not have (operator identity, non-graph
  attributes, metadata_props, annotations, graph name / doc) and turns types, shapes and tensor payloads into
  the opaque tokens of the Scope model (the token of a type / shape is the text of what C02 deserializes it to).
* `absIR : Serde.IRGraph → Core` rebuilds the Scope model's world from C02's table representation of the IR:
  a value of a graph's table gets the creation index the Scope deserializer gives it (table values first, then the
  anonymous node outputs in node order, then the graph outputs nobody binds), a reference `(up, idx)` becomes that
  index, tensors are carried by the value that holds them.  `Core` is the Scope world WITHOUT the derived links
  (producer / index / uses / owning graph / the three role flags), which C02's IR does not have and which
  `C17_consistent` determines from the rest.
* `shared` is the decidable fragment both models speak about: C02's `wfGraph` (the domain of the `C02_*`
  theorems) for graphs whose nodes carry no GRAPH / GRAPHS attribute.

`C03_bridge_deserialize_partial`: on the fragment both deserializers succeed and
`(Scope.deserialize (absG p)).core = absIR (Serde.desGraph [] p)`.
`C03_bridge_serialize_partial`: on the fragment `absG` of what C02 serializes from its IR is what the Scope model
serializes from every world whose core is `absIR` of that IR.
Missing case (hence `_partial`): nodes with GRAPH / GRAPHS attributes (nested scopes: the numbering of `absIR`
has to interleave the nested graphs' values), functions and models.
-/
namespace IrVerif.Bridge
open IrVerif.Proto IrVerif.Serde

theorem tyOfB_eq (t : TypeP) : tyOfB t = tyOf t := rfl
theorem shOfB_eq (t : TypeP) : shOfB t = shOf t := rfl
theorem irTB_eq (p : TensorP) : irTB p = irT p := rfl
theorem absInfo_eq (vi : ValueInfoP) :
    absInfo vi = ⟨(tyOf vi.type).map tyTok, (shOf vi.type).map shTok, docTok vi.doc⟩ := rfl
theorem absT_eq (p : TensorP) :
    absT p = ⟨p.name, tensTok (irT p), tyTok (.tensor p.dataType ""), dimsTok p.dims⟩ := rfl

/-! ## the relation between a store and a list of cells -/

structure CoreEq (st : Scope.Store) (cs : List Cell) : Prop where
  nv : st.nv = cs.length
  cells : ∀ i, i < cs.length → cellAt st i = cs.getD i default
  tens : ∀ i t, (st.vals i).const = some t → t < st.nt

theorem coreEq_cells {st : Scope.Store} {cs : List Cell} (h : CoreEq st cs) :
    (List.range st.nv).map (cellAt st) = cs := by
  apply List.ext_getElem
  · simp [h.nv]
  · intro i h1 h2
    simp only [List.getElem_map, List.getElem_range]
    rw [h.cells i h2]
    simp [List.getD, List.getElem?_eq_getElem h2]

theorem coreEq_empty : CoreEq {} [] := ⟨rfl, fun _ h => absurd h (Nat.not_lt_zero _), fun _ _ h => by cases h⟩

/-- `Value(...)` without a tensor -/
theorem coreEq_alloc {st : Scope.Store} {cs : List Cell} (h : CoreEq st cs) (c : Scope.ValueS)
    (hc : ∀ t, c.const = some t → t < st.nt) :
    CoreEq (st.alloc c).1 (cs ++ [⟨c.name, c.info, c.const.map st.tens⟩]) := by
  refine ⟨by simp [Scope.Store.alloc, h.nv], ?_, ?_⟩
  · intro i hi
    simp only [List.length_append, List.length_singleton] at hi
    by_cases he : i = cs.length
    · subst he
      simp [cellAt, Scope.Store.alloc, h.nv, List.getD]
    · have hlt : i < cs.length := by omega
      have hne : i ≠ st.nv := by rw [h.nv]; exact he
      have := h.cells i hlt
      simp only [cellAt, Scope.Store.alloc, hne, if_false] at this ⊢
      rw [this]
      simp [List.getD, List.getElem?_append_left hlt]
  · intro i t ht
    simp only [Scope.Store.alloc] at ht ⊢
    split at ht
    · exact hc t ht
    · exact h.tens i t ht

/-- attribute assignment on an allocated value -/
theorem coreEq_modify {st : Scope.Store} {cs : List Cell} (h : CoreEq st cs) (v : Nat)
    (f : Scope.ValueS → Scope.ValueS)
    (hc : ∀ t, (f (st.vals v)).const = some t → t < st.nt) :
    CoreEq (st.modify v f)
      (cs.set v ⟨(f (st.vals v)).name, (f (st.vals v)).info, (f (st.vals v)).const.map st.tens⟩) := by
  refine ⟨by simp [Scope.Store.modify, h.nv], ?_, ?_⟩
  · intro i hi
    simp only [List.length_set] at hi
    by_cases he : i = v
    · subst he
      simp [cellAt, Scope.Store.modify, List.getD, hi]
    · have := h.cells i hi
      simp only [cellAt, Scope.Store.modify, he, if_false] at this ⊢
      rw [this]
      simp [List.getD, Ne.symm he]
  · intro i t ht
    simp only [Scope.Store.modify] at ht ⊢
    split at ht
    · rename_i he; subst he; exact hc t ht
    · exact h.tens i t ht

/-- a fresh tensor object does not change what the values hold -/
theorem coreEq_allocTensor {st : Scope.Store} {cs : List Cell} (h : CoreEq st cs) (t : Scope.TensorS) :
    CoreEq (st.allocTensor t).1 cs := by
  refine ⟨h.nv, ?_, ?_⟩
  · intro i hi
    have := h.cells i hi
    rw [← this]
    simp only [cellAt, Scope.Store.allocTensor]
    congr 1
    cases hcst : (st.vals i).const with
    | none => rfl
    | some k =>
      have := h.tens i k hcst
      simp [Nat.ne_of_lt this]
  · intro i k hk
    have := h.tens i k hk
    simp only [Scope.Store.allocTensor]
    omega

/-- two stores that agree on what `Core` sees -/
structure SameCore (st st' : Scope.Store) : Prop where
  nv : st'.nv = st.nv
  nt : st'.nt = st.nt
  tens : st'.tens = st.tens
  name : ∀ i, (st'.vals i).name = (st.vals i).name
  info : ∀ i, (st'.vals i).info = (st.vals i).info
  const : ∀ i, (st'.vals i).const = (st.vals i).const

theorem SameCore.refl (st : Scope.Store) : SameCore st st := ⟨rfl, rfl, rfl, fun _ => rfl, fun _ => rfl, fun _ => rfl⟩

theorem SameCore.trans {a b c : Scope.Store} (h1 : SameCore a b) (h2 : SameCore b c) : SameCore a c :=
  ⟨h2.nv.trans h1.nv, h2.nt.trans h1.nt, h2.tens.trans h1.tens, fun i => (h2.name i).trans (h1.name i),
    fun i => (h2.info i).trans (h1.info i), fun i => (h2.const i).trans (h1.const i)⟩

theorem coreEq_same {st st' : Scope.Store} {cs : List Cell} (h : CoreEq st cs) (hs : SameCore st st') :
    CoreEq st' cs := by
  refine ⟨hs.nv.trans h.nv, ?_, ?_⟩
  · intro i hi
    rw [← h.cells i hi]
    simp [cellAt, hs.name, hs.info, hs.const, hs.tens]
  · intro i t ht
    rw [hs.const] at ht
    rw [hs.nt]
    exact h.tens i t ht

theorem sameCore_modify (st : Scope.Store) (v : Nat) (f : Scope.ValueS → Scope.ValueS)
    (h1 : ∀ c, (f c).name = c.name) (h2 : ∀ c, (f c).info = c.info) (h3 : ∀ c, (f c).const = c.const) :
    SameCore st (st.modify v f) := by
  refine ⟨rfl, rfl, rfl, ?_, ?_, ?_⟩ <;> intro i <;> simp only [Scope.Store.modify] <;> split <;> simp_all

/-! ## name tables -/

/-- the Scope table of a scope whose C02 table has the names `names`: newest binding first, the value of table
    index `i` has creation index `i` -/
def TblRel (tbl : Scope.Table) (names : List String) : Prop :=
  tbl = (names.zip (List.range names.length)).reverse

theorem lookup_zip_range' (x : String) : ∀ (names : List String) (b : Nat),
    ((names.zip (List.range' b names.length)).reverse).lookup x = (lookupLast names x).map (b + ·)
  | [], _ => by simp [lookupLast]
  | n :: ns, b => by
    have ih := lookup_zip_range' x ns (b + 1)
    simp only [List.length_cons, List.range'_succ, List.zip_cons_cons, List.reverse_cons]
    rw [List.lookup_append, ih]
    simp only [lookupLast]
    cases h : lookupLast ns x with
    | some i => simp; omega
    | none =>
      simp only [Option.map_none, Option.none_or, List.lookup_cons, List.lookup_nil]
      by_cases hx : n = x
      · subst hx; simp
      · have : (x == n) = false := by simp [Ne.symm hx]
        simp [this, hx]

theorem tblRel_lookup {tbl : Scope.Table} {names : List String} (h : TblRel tbl names) (x : String) :
    tbl.lookup x = lookupLast names x := by
  rw [h, List.range_eq_range']
  rw [lookup_zip_range' x names 0]
  cases lookupLast names x <;> simp

theorem tblRel_snoc {tbl : Scope.Table} {names : List String} (h : TblRel tbl names) (n : String) :
    TblRel ((n, names.length) :: tbl) (names ++ [n]) := by
  unfold TblRel at *
  rw [h]
  simp only [List.length_append, List.length_singleton, List.range_succ]
  rw [List.zip_append (by simp)]
  simp

theorem tblRel_nil : TblRel [] [] := rfl

/-! ## value infos -/

theorem absCell_applyQuant (q : List AnnotP) (v : IRValue) : absCell (applyQuant q v) = absCell v := by
  unfold applyQuant
  split <;> rfl

theorem applyInfo_ok_eq {v v' : IRValue} {vi : ValueInfoP} (h : applyInfo v vi = .ok v') :
    v' = applyInfoT v vi := by
  unfold applyInfo at h
  simp only [bind, Except.bind] at h
  split at h
  · cases h
  · rename_i sh hsh
    split at h
    · cases h
    · rename_i ty hty
      cases h
      simp [applyInfoT, tyOf, shOf, hsh, hty]

theorem absCell_applyInfoT (v : IRValue) (vi : ValueInfoP) :
    absCell (applyInfoT v vi) = ⟨some v.name, absInfo vi, v.const.map absTens⟩ := rfl

/-- the `value_info` dict of the two models -/
theorem vinfoTable_lookup (vis : List ValueInfoP) (n : String) :
    (Scope.vinfoTable (vis.map absVI)).lookup n = (findVI vis n).map absInfo := by
  unfold Scope.vinfoTable findVI
  induction vis with
  | nil => simp [findLast?]
  | cons vi vis ih =>
    simp only [List.map_cons, List.reverse_cons, List.lookup_append, findLast?]
    rw [ih]
    cases h : findLast? (fun v => decide (v.name = n)) vis with
    | some y => simp
    | none =>
      simp only [Option.map_none, Option.none_or, List.lookup_cons, List.lookup_nil, absVI]
      by_cases hx : vi.name = n
      · subst hx; simp
      · have : (n == vi.name) = false := by simp [Ne.symm hx]
        simp [this, hx]

/-! ## phase 1: graph inputs -/

theorem absCell_inputValT (q : List AnnotP) (vi : ValueInfoP) :
    absCell (inputValT q vi) = ⟨some vi.name, absInfo vi, none⟩ := by
  unfold inputValT
  rw [absCell_applyQuant, absCell_applyInfoT]
  rfl

theorem ph1_inputs (q : List AnnotP) : ∀ (inputs : List ValueInfoP) (st : Scope.Store) (cs : List Cell),
    CoreEq st cs →
    (Scope.deserInputs st (inputs.map absVI)).2 = List.range' cs.length inputs.length ∧
    CoreEq (Scope.deserInputs st (inputs.map absVI)).1 (cs ++ (inputs.map (inputValT q)).map absCell) ∧
    (Scope.deserInputs st (inputs.map absVI)).1.nn = st.nn ∧
    (Scope.deserInputs st (inputs.map absVI)).1.ng = st.ng
  | [], st, cs, h => by simp [Scope.deserInputs, h]
  | vi :: is, st, cs, h => by
    have h1 := coreEq_alloc h { name := some vi.name, info := absInfo vi } (by intro t ht; cases ht)
    obtain ⟨a, b, c, d⟩ := ph1_inputs q is _ _ h1
    simp only [List.map_cons, Scope.deserInputs, absVI]
    refine ⟨?_, ?_, ?_, ?_⟩
    · rw [a]; simp [List.range'_succ, Scope.Store.alloc, h.nv]
    · simpa [absCell_inputValT] using b
    · rw [c]; rfl
    · rw [d]; rfl

/-! ## phase 2: initializers -/

@[simp] theorem applyQuant_type (q : List AnnotP) (v : IRValue) : (applyQuant q v).type = v.type := by
  unfold applyQuant; split <;> rfl
@[simp] theorem applyQuant_shape (q : List AnnotP) (v : IRValue) : (applyQuant q v).shape = v.shape := by
  unfold applyQuant; split <;> rfl
@[simp] theorem applyQuant_doc (q : List AnnotP) (v : IRValue) : (applyQuant q v).doc = v.doc := by
  unfold applyQuant; split <;> rfl
@[simp] theorem applyQuant_const (q : List AnnotP) (v : IRValue) : (applyQuant q v).const = v.const := by
  unfold applyQuant; split <;> rfl

theorem alloc_modify (st : Scope.Store) (c : Scope.ValueS) (f : Scope.ValueS → Scope.ValueS) :
    (st.alloc c).1.modify st.nv f = (st.alloc (f c)).1 := by
  simp only [Scope.Store.alloc, Scope.Store.modify]
  congr 1
  funext i
  by_cases h : i = st.nv <;> simp [h]

theorem absTens_irT (p : TensorP) (hw : wfTensor p = true) (hv : validDType p.dataType = true) :
    absTens (irT p) = ⟨some p.name, tensTok (irT p), tyTok (.tensor p.dataType ""), dimsTok p.dims⟩ := by
  have h1 := (irT_spec p hw).2.2.1
  have h2 := irT_dtype p hw hv
  simp [absTens, dtypeOf, h1, h2.1, h2.2]

theorem omap_orElse {α β : Type} (f : α → β) (a b : Option α) :
    (a <|> b).map f = if (a.map f).isSome then a.map f else b.map f := by
  cases a <;> simp

/-- the info the Scope model gives the value of an initializer that is not a graph input -/
def initInfoS (vis : List ValueInfoP) (p : TensorP) : Scope.Info :=
  match findVI vis p.name with
  | some vi => (absInfo vi).orTensor (Scope.tensorInfo (tyTok (.tensor p.dataType "")) (dimsTok p.dims))
  | none => Scope.tensorInfo (tyTok (.tensor p.dataType "")) (dimsTok p.dims)

theorem absCell_initValT (vis : List ValueInfoP) (q : List AnnotP) (p : TensorP)
    (hw : wfTensor p = true) (hv : validDType p.dataType = true) :
    absCell (initValT vis q p) = ⟨some p.name, initInfoS vis p, some (absTens (irT p))⟩ := by
  have h2 := (irT_dtype p hw hv).2
  unfold initValT initInfoS
  cases hf : findVI vis p.name with
  | none =>
    simp [absCell, absInfoV, initV0, IRValue.blank, Scope.tensorInfo, h2, dimsTok, docTok]
  | some vi =>
    simp only [absCell, absInfoV, applyQuant_type, applyQuant_shape, applyQuant_doc, applyQuant_const,
      fillFrom, applyInfoT, initV0, IRValue.blank, h2, Scope.Info.orTensor, absInfo, Scope.tensorInfo,
      Option.map_some, Cell.mk.injEq, true_and, and_true, tyOfB_eq, shOfB_eq]
    rw [omap_orElse, omap_orElse]
    simp [dimsTok]

theorem tableNames_set (T : List IRValue) (i : Nat) (v : IRValue)
    (h : v.name = (T.getD i (IRValue.blank "")).name) (hi : i < T.length) :
    tableNames (T.set i v) = tableNames T := by
  unfold tableNames
  rw [List.map_set]
  apply List.ext_getElem (by simp)
  intro j h1 h2
  simp only [List.getElem_set, List.getElem_map]
  split
  · rename_i hij; subst hij
    rw [h]; simp [List.getD, List.getElem?_eq_getElem hi]
  · rfl

theorem getD_map_absCell (T : List IRValue) (i : Nat) (hi : i < T.length) :
    (T.map absCell).getD i default = absCell (T.getD i (IRValue.blank "")) := by
  simp [List.getD, List.getElem?_eq_getElem hi]

theorem ph2_inits (vis : List ValueInfoP) (q : List AnnotP) (hvis : vis.all wfVI = true) :
    ∀ (ps : List TensorP) (T : List IRValue) (st : Scope.Store) (tblS : Scope.Table) (T' : List IRValue)
      (idxs : List Nat),
    (∀ p ∈ ps, wfTensor p = true ∧ validDType p.dataType = true) →
    CoreEq st (T.map absCell) → TblRel tblS (tableNames T) →
    desInitializers vis q (ps.map irT) T = .ok (T', idxs) →
    ∃ st' tblS', Scope.deserInits st tblS (Scope.vinfoTable (vis.map absVI)) (ps.map absT) = (st', tblS', idxs) ∧
      CoreEq st' (T'.map absCell) ∧ TblRel tblS' (tableNames T') ∧ st'.nn = st.nn ∧ st'.ng = st.ng
  | [], T, st, tblS, T', idxs, _, hc, ht, h => by
    simp only [List.map_nil, desInitializers, Except.ok.injEq, Prod.mk.injEq] at h
    obtain ⟨rfl, rfl⟩ := h
    exact ⟨st, tblS, rfl, hc, ht, rfl, rfl⟩
  | p :: ps, T, st, tblS, T', idxs, hwf, hc, ht, h => by
    obtain ⟨hw, hv⟩ := hwf p (by simp)
    have hwf' : ∀ p ∈ ps, wfTensor p = true ∧ validDType p.dataType = true :=
      fun x hx => hwf x (List.mem_cons_of_mem _ hx)
    have hname : (irT p).name = p.name := (irT_spec p hw).2.2.1
    have hdt := (irT_dtype p hw hv).1
    simp only [List.map_cons, desInitializers, hname] at h
    simp only [List.map_cons, Scope.deserInits]
    have hnm : (absT p).name = p.name := rfl
    rw [hnm]
    by_cases he : p.name = ""
    · simp only [he, if_true] at h ⊢
      exact ph2_inits vis q hvis ps T st tblS T' idxs hwf' hc ht h
    · simp only [he, if_false, hdt, bind, Except.bind] at h ⊢
      rw [tblRel_lookup ht]
      cases hl : lookupLast (tableNames T) p.name with
      | some i =>
        simp only [hl] at h
        have hi : i < T.length := by simpa [tableNames] using lookupLast_lt hl
        split at h
        · cases h
        · rename_i r hr
          obtain ⟨T2, is2⟩ := r
          simp only [Except.ok.injEq, Prod.mk.injEq] at h
          obtain ⟨rfl, rfl⟩ := h
          rw [listSet_eq_map] at hr
          have hc1 := coreEq_allocTensor hc ⟨some p.name, tensTok (irT p), tyTok (.tensor p.dataType ""), dimsTok p.dims⟩
          have hc2 := coreEq_modify hc1 i (fun c => { c with const := some st.nt })
            (by intro t ht'; simp only [Option.some.injEq] at ht'; subst ht'; simp [Scope.Store.allocTensor])
          have hcell := hc.cells i (by simpa using hi)
          rw [getD_map_absCell T i hi] at hcell
          have hc3 : CoreEq (((st.allocTensor ⟨some p.name, tensTok (irT p), tyTok (.tensor p.dataType ""), dimsTok p.dims⟩).1).modify i
              (fun c => { c with const := some st.nt }))
              ((T.set i { T.getD i (IRValue.blank "") with const := some (irT p) }).map absCell) := by
            rw [List.map_set]
            have hce : absCell { T.getD i (IRValue.blank "") with const := some (irT p) }
                = ⟨(st.vals i).name, (st.vals i).info, some ⟨some p.name, tensTok (irT p), tyTok (.tensor p.dataType ""), dimsTok p.dims⟩⟩ := by
              simp only [cellAt, absCell, Cell.mk.injEq] at hcell
              simp only [absCell, Option.map_some, absTens_irT p hw hv, Cell.mk.injEq]
              exact ⟨hcell.1.symm, hcell.2.1.symm, trivial⟩
            rw [hce]
            simpa [Scope.Store.allocTensor] using hc2
          have ht3 : TblRel tblS (tableNames (T.set i { T.getD i (IRValue.blank "") with const := some (irT p) })) := by
            have := tableNames_set T i { T.getD i (IRValue.blank "") with const := some (irT p) } rfl hi
            rw [this]; exact ht
          obtain ⟨st', tblS', e1, e2, e3, e4, e5⟩ := ph2_inits vis q hvis ps _ _ tblS T2 is2 hwf' hc3 ht3 hr
          refine ⟨st', tblS', ?_, e2, e3, ?_, ?_⟩
          · simp only [absT, irTB_eq] at e1 ⊢
            rw [e1]
          · rw [e4]; rfl
          · rw [e5]; rfl
      | none =>
        simp only [hl, newInitValue_eq vis q hvis p hw hv] at h
        split at h
        · cases h
        · rename_i r hr
          obtain ⟨T2, is2⟩ := r
          simp only [Except.ok.injEq, Prod.mk.injEq] at h
          obtain ⟨rfl, rfl⟩ := h
          have hc1 := coreEq_allocTensor hc ⟨some p.name, tensTok (irT p), tyTok (.tensor p.dataType ""), dimsTok p.dims⟩
          have hnv : st.nv = T.length := by simpa using hc.nv
          -- the value the Scope model creates
          have hnew : Scope.newInit (st.allocTensor ⟨some p.name, tensTok (irT p), tyTok (.tensor p.dataType ""), dimsTok p.dims⟩).1
              (Scope.vinfoTable (vis.map absVI)) (absT p) st.nt
              = ((st.allocTensor ⟨some p.name, tensTok (irT p), tyTok (.tensor p.dataType ""), dimsTok p.dims⟩).1.alloc
                  { name := some p.name, info := initInfoS vis p, const := some st.nt }).1 := by
            unfold Scope.newInit initInfoS
            rw [vinfoTable_lookup, hnm]
            cases findVI vis p.name with
            | none => rfl
            | some vi =>
              simp only [Option.map_some]
              rw [alloc_modify]
              rfl
          have hc2 := coreEq_alloc hc1 { name := some p.name, info := initInfoS vis p, const := some st.nt }
            (by intro t ht'; simp only [Option.some.injEq] at ht'; subst ht'; simp [Scope.Store.allocTensor])
          have hc3 : CoreEq (Scope.newInit (st.allocTensor ⟨some p.name, tensTok (irT p), tyTok (.tensor p.dataType ""), dimsTok p.dims⟩).1
              (Scope.vinfoTable (vis.map absVI)) (absT p) st.nt) ((T ++ [initValT vis q p]).map absCell) := by
            rw [hnew, List.map_append]
            simp only [List.map_cons, List.map_nil, absCell_initValT vis q p hw hv, absTens_irT p hw hv]
            simpa [Scope.Store.allocTensor] using hc2
          have ht3 : TblRel ((p.name, st.nv) :: tblS) (tableNames (T ++ [initValT vis q p])) := by
            rw [tableNames_append, hnv]
            have := tblRel_snoc ht p.name
            simpa [tableNames] using this
          obtain ⟨st', tblS', e1, e2, e3, e4, e5⟩ := ph2_inits vis q hvis ps _ _ _ T2 is2 hwf' hc3 ht3 hr
          refine ⟨st', tblS', ?_, e2, e3, ?_, ?_⟩
          · simp only [absT, irTB_eq] at e1 ⊢
            rw [e1, hnv]
          · rw [e4, hnew]; rfl
          · rw [e5, hnew]; rfl

/-! ## phase 3: the outputs of all nodes are declared -/

theorem absCell_newValueT (vis : List ValueInfoP) (q : List AnnotP) (n : String) :
    absCell (newValueT vis q n) = ⟨some n, ((findVI vis n).map absInfo).getD {}, none⟩ := by
  unfold newValueT
  rw [absCell_applyQuant]
  cases findVI vis n with
  | none => simp [absCell, absInfoV, IRValue.blank, docTok]
  | some vi => simp [absCell_applyInfoT, IRValue.blank]

theorem newNamed_eq (st : Scope.Store) (vis : List ValueInfoP) (x : String) :
    Scope.newNamed st (Scope.vinfoTable (vis.map absVI)) x
      = (st.alloc { name := some x, info := ((findVI vis x).map absInfo).getD {} }).1 := by
  unfold Scope.newNamed
  rw [vinfoTable_lookup]
  cases findVI vis x with
  | none => rfl
  | some vi =>
    simp only [Option.map_some, Option.getD_some]
    rw [alloc_modify]

theorem ph3_declareOutputs (vis : List ValueInfoP) (q : List AnnotP) (hvis : vis.all wfVI = true) :
    ∀ (xs : List String) (T : List IRValue) (st : Scope.Store) (tblS : Scope.Table) (T' : List IRValue),
    CoreEq st (T.map absCell) → TblRel tblS (tableNames T) →
    Serde.declareOutputs vis q xs T = .ok T' →
    ∃ st' tblS', Scope.declareOutputs st tblS (Scope.vinfoTable (vis.map absVI)) xs = .ok (st', tblS') ∧
      CoreEq st' (T'.map absCell) ∧ TblRel tblS' (tableNames T') ∧ st'.nn = st.nn ∧ st'.ng = st.ng
  | [], T, st, tblS, T', hc, ht, h => by
    simp only [Serde.declareOutputs, Except.ok.injEq] at h
    subst h
    exact ⟨st, tblS, rfl, hc, ht, rfl, rfl⟩
  | x :: xs, T, st, tblS, T', hc, ht, h => by
    simp only [Serde.declareOutputs] at h
    simp only [Scope.declareOutputs]
    by_cases he : x = ""
    · simp only [he, if_true] at h ⊢
      exact ph3_declareOutputs vis q hvis xs T st tblS T' hc ht h
    · simp only [he, if_false] at h ⊢
      rw [tblRel_lookup ht]
      cases hl : lookupLast (tableNames T) x with
      | some i => simp [hl] at h
      | none =>
        simp only [hl, newValue_eq vis q x hvis, bind, Except.bind] at h
        have hnv : st.nv = T.length := by simpa using hc.nv
        have hc2 := coreEq_alloc hc { name := some x, info := ((findVI vis x).map absInfo).getD {} }
          (by intro t ht'; cases ht')
        have hc3 : CoreEq (Scope.newNamed st (Scope.vinfoTable (vis.map absVI)) x)
            ((T ++ [newValueT vis q x]).map absCell) := by
          rw [newNamed_eq, List.map_append]
          simpa [absCell_newValueT] using hc2
        have ht3 : TblRel ((x, st.nv) :: tblS) (tableNames (T ++ [newValueT vis q x])) := by
          rw [tableNames_append, hnv]
          have := tblRel_snoc ht x
          simpa [tableNames] using this
        obtain ⟨st', tblS', e1, e2, e3, e4, e5⟩ := ph3_declareOutputs vis q hvis xs _ _ _ T' hc3 ht3 h
        refine ⟨st', tblS', e1, e2, e3, ?_, ?_⟩
        · rw [e4, newNamed_eq]; rfl
        · rw [e5, newNamed_eq]; rfl

theorem ph3_declareAll (vis : List ValueInfoP) (q : List AnnotP) (hvis : vis.all wfVI = true) :
    ∀ (ns : List NodeP) (T : List IRValue) (st : Scope.Store) (tblS : Scope.Table) (T' : List IRValue),
    CoreEq st (T.map absCell) → TblRel tblS (tableNames T) →
    declareAll vis q ns T = .ok T' →
    ∃ st' tblS', Scope.declareNodes st tblS (Scope.vinfoTable (vis.map absVI)) (ns.map absN) = .ok (st', tblS') ∧
      CoreEq st' (T'.map absCell) ∧ TblRel tblS' (tableNames T') ∧ st'.nn = st.nn ∧ st'.ng = st.ng
  | [], T, st, tblS, T', hc, ht, h => by
    simp only [declareAll, Except.ok.injEq] at h
    subst h
    exact ⟨st, tblS, rfl, hc, ht, rfl, rfl⟩
  | n :: ns, T, st, tblS, T', hc, ht, h => by
    simp only [declareAll, bind, Except.bind] at h
    split at h
    · cases h
    · rename_i T1 h1
      obtain ⟨st1, tbl1, a1, a2, a3, a4, a5⟩ := ph3_declareOutputs vis q hvis n.outputs T st tblS T1 hc ht h1
      obtain ⟨st2, tbl2, b1, b2, b3, b4, b5⟩ := ph3_declareAll vis q hvis ns T1 st1 tbl1 T' a2 a3 h
      refine ⟨st2, tbl2, ?_, b2, b3, by rw [b4, a4], by rw [b5, a5]⟩
      simp only [List.map_cons, Scope.declareNodes]
      have : (absN n).outputs = n.outputs := rfl
      rw [this, a1]
      exact b1

/-! ## phase 4: nodes (no nested graphs, every input name resolves) -/

theorem sameCore_setProducers (nid : Nat) : ∀ (vs : List Nat) (i : Nat) (st : Scope.Store),
    SameCore st (Scope.setProducers st nid i vs)
  | [], _, st => SameCore.refl st
  | v :: vs, i, st => by
    simp only [Scope.setProducers]
    refine SameCore.trans ?_ (sameCore_setProducers nid vs (i + 1) _)
    exact sameCore_modify st v _ (fun _ => rfl) (fun _ => rfl) (fun _ => rfl)

theorem sameCore_addUses (nid : Nat) : ∀ (vs : List (Option Nat)) (i : Nat) (st : Scope.Store),
    SameCore st (Scope.addUses st nid i vs)
  | [], _, st => SameCore.refl st
  | none :: vs, i, st => by
    simp only [Scope.addUses]
    exact sameCore_addUses nid vs (i + 1) st
  | some v :: vs, i, st => by
    simp only [Scope.addUses]
    refine SameCore.trans ?_ (sameCore_addUses nid vs (i + 1) _)
    exact sameCore_modify st v _ (fun _ => rfl) (fun _ => rfl) (fun _ => rfl)

theorem mkNode_spec (st : Scope.Store) (ins : List (Option Nat)) (outs : List Nat) :
    SameCore st (Scope.mkNode st ins outs []).1 := by
  have h1 := sameCore_setProducers st.nn outs 0 st
  have h2 := sameCore_addUses st.nn ins 0 (Scope.setProducers st st.nn 0 outs)
  have h := h1.trans h2
  exact ⟨h.nv, h.nt, h.tens, h.name, h.info, h.const⟩

theorem mkGraph_same (st : Scope.Store) (ins outs : List Nat) (ns : List Scope.NodeT) (iv : List Nat) :
    SameCore st (Scope.mkGraph st ins outs ns iv).1 := by
  have h3 := Scope.setOwner_tens (Scope.setOwner (Scope.setOwner st st.ng (fun c => { c with isIn := true }) ins) st.ng
    (fun c => { c with isOut := true }) outs) st.ng (fun c => { c with isInit := true })
    ((Scope.mkGraphInits st ins outs iv).map (·.2))
  have h2 := Scope.setOwner_tens (Scope.setOwner st st.ng (fun c => { c with isIn := true }) ins) st.ng
    (fun c => { c with isOut := true }) outs
  have h1 := Scope.setOwner_tens st st.ng (fun c => { c with isIn := true }) ins
  refine ⟨(Scope.mkGraph_fst_counters st ins outs ns iv).1, ?_, ?_, ?_, ?_, ?_⟩
  · exact h3.2.trans (h2.2.trans h1.2)
  · exact h3.1.trans (h2.1.trans h1.1)
  · intro i; rw [Scope.mkGraph_cell]
  · intro i; rw [Scope.mkGraph_cell]
  · intro i; rw [Scope.mkGraph_cell]

/-- every non-empty name is bound in the table -/
def AllBound (top : Scope.Table) (xs : List String) : Prop := ∀ x ∈ xs, x ≠ "" → (top.lookup x).isSome = true

theorem resolveInputs_bound (st : Scope.Store) (top : Scope.Table) (vi : List (Scope.Name × Scope.Info)) :
    ∀ xs : List String, AllBound top xs →
    Scope.resolveInputs st top [] vi xs = (st, top, xs.map fun x => if x = "" then none else top.lookup x)
  | [], _ => rfl
  | x :: xs, h => by
    have ih := resolveInputs_bound st top vi xs (fun y hy => h y (List.mem_cons_of_mem _ hy))
    simp only [Scope.resolveInputs, List.map_cons]
    by_cases he : x = ""
    · simp [he, ih]
    · have hb := h x (by simp) he
      cases hl : top.lookup x with
      | none => rw [hl] at hb; cases hb
      | some v => simp [he, Scope.resolve, hl, ih]

theorem lookupOutputs_bound (top : Scope.Table) : ∀ (xs : List String) (st : Scope.Store) (cs : List Cell),
    CoreEq st cs → AllBound top xs →
    ∃ st', Scope.lookupOutputs st top xs
        = .ok (st', absOuts cs.length (xs.map fun x => if x = "" then none else top.lookup x)) ∧
      CoreEq st' (cs ++ List.replicate (numNone (xs.map fun x => if x = "" then none else top.lookup x)) blankCell) ∧
      st'.nn = st.nn ∧ st'.ng = st.ng
  | [], st, cs, hc, _ => ⟨st, rfl, by simpa [numNone] using hc, rfl, rfl⟩
  | x :: xs, st, cs, hc, h => by
    have h' : AllBound top xs := fun y hy => h y (List.mem_cons_of_mem _ hy)
    simp only [Scope.lookupOutputs, List.map_cons]
    by_cases he : x = ""
    · have hc1 := coreEq_alloc hc { name := some "" } (by intro t ht; cases ht)
      obtain ⟨st', e1, e2, e3, e4⟩ := lookupOutputs_bound top xs _ _ hc1 h'
      refine ⟨st', ?_, ?_, by rw [e3]; rfl, by rw [e4]; rfl⟩
      · simp only [he, if_true, absOuts]
        simp only [List.length_append, List.length_singleton] at e1
        rw [e1]
        simp [Scope.Store.alloc, hc.nv]
      · simp only [he, if_true, numNone]
        have : cs ++ List.replicate (numNone (xs.map fun x => if x = "" then none else top.lookup x) + 1) blankCell
            = cs ++ [blankCell] ++ List.replicate (numNone (xs.map fun x => if x = "" then none else top.lookup x)) blankCell := by
          rw [List.replicate_succ, List.append_assoc]; rfl
        rw [this]
        exact e2
    · have hb := h x (by simp) he
      cases hl : top.lookup x with
      | none => rw [hl] at hb; cases hb
      | some v =>
        obtain ⟨st', e1, e2, e3, e4⟩ := lookupOutputs_bound top xs st cs hc h'
        refine ⟨st', ?_, ?_, e3, e4⟩
        · simp only [he, if_false, absOuts, e1]
        · simpa [he, hl, numNone] using e2

theorem sameCore_setOwner (gid : Nat) (f : Scope.ValueS → Scope.ValueS)
    (h1 : ∀ c, (f c).name = c.name) (h2 : ∀ c, (f c).info = c.info) (h3 : ∀ c, (f c).const = c.const) :
    ∀ (vs : List Nat) (st : Scope.Store), SameCore st (Scope.setOwner st gid f vs)
  | [], st => SameCore.refl st
  | v :: vs, st => by
    simp only [Scope.setOwner]
    exact (sameCore_modify st v _ (fun c => by simp [h1]) (fun c => by simp [h2]) (fun c => by simp [h3])).trans
      (sameCore_setOwner gid f h1 h2 h3 vs _)

theorem serde_resolve_one (names : List String) (x : String) :
    Serde.resolve [names] x = (lookupLast names x).map fun i => ⟨0, i⟩ := by
  simp only [Serde.resolve]
  cases lookupLast names x <;> simp

theorem desNode_shape (vis : List ValueInfoP) (q : List AnnotP) (T : List IRValue) :
    ∀ (n : NodeP) (x : IRNode) (T' : List IRValue),
    wfNode [tableNames T] n = true → desNode [] vis q T n = .ok (x, T') →
    T' = T ∧ x.inputs = n.inputs.map (fun s => if s = "" then none else Serde.resolve [tableNames T] s) ∧
      x.outputs = n.outputs.map (fun s => if s = "" then none else lookupLast (tableNames T) s)
  | .mk inputs outputs name opType domain overload doc attrs metadata devcfgs, x, T', hw, h => by
    simp only [wfNode, Bool.and_eq_true, List.headD_cons] at hw
    obtain ⟨⟨⟨⟨⟨hin, hout⟩, _⟩, _⟩, _⟩, _⟩ := hw
    simp only [desNode, desNodeInputs_wf [] vis q T inputs hin, desNodeOutputs_wf _ outputs hout, bind,
      Except.bind] at h
    split at h
    · cases h
    · cases h
      exact ⟨rfl, rfl, rfl⟩

theorem allBound_of_wfNode {top : Scope.Table} {names : List String} (ht : TblRel top names) (n : NodeP)
    (hw : wfNode [names] n = true) : AllBound top n.inputs ∧ AllBound top n.outputs := by
  cases n with
  | mk inputs outputs name opType domain overload doc attrs metadata devcfgs =>
    simp only [wfNode, Bool.and_eq_true, List.headD_cons] at hw
    obtain ⟨⟨⟨⟨⟨hin, hout⟩, _⟩, _⟩, _⟩, _⟩ := hw
    constructor
    · intro x hx hne
      have := List.all_eq_true.1 hin x hx
      rcases Bool.or_eq_true_iff.1 this with h1 | h1
      · simp [String.isEmpty_iff] at h1; exact absurd h1 hne
      · rw [tblRel_lookup ht]
        rw [serde_resolve_one] at h1
        cases hl : lookupLast names x with
        | none => rw [hl] at h1; cases h1
        | some i => rfl
    · intro x hx hne
      have := List.all_eq_true.1 hout x hx
      rcases Bool.or_eq_true_iff.1 this with h1 | h1
      · simp [String.isEmpty_iff] at h1; exact absurd h1 hne
      · rw [tblRel_lookup ht]
        exact lookupLast_isSome (by simpa using h1)

theorem ph4_node (vis : List ValueInfoP) (q : List AnnotP) (T : List IRValue) (n : NodeP) (x : IRNode)
    (T' : List IRValue) (st : Scope.Store) (cs : List Cell) (top : Scope.Table)
    (hw : wfNode [tableNames T] n = true) (h : desNode [] vis q T n = .ok (x, T'))
    (hc : CoreEq st cs) (ht : TblRel top (tableNames T)) :
    T' = T ∧ ∃ st', Scope.deserNode st top [] (Scope.vinfoTable (vis.map absVI)) (absN n)
        = .ok (st', top, .mk st.nn none (absIns x.inputs) (absOuts cs.length x.outputs) []) ∧
      CoreEq st' (cs ++ List.replicate (numNone x.outputs) blankCell) ∧ st'.nn = st.nn + 1 ∧ st'.ng = st.ng := by
  obtain ⟨e1, e2, e3⟩ := desNode_shape vis q T n x T' hw h
  obtain ⟨b1, b2⟩ := allBound_of_wfNode ht n hw
  refine ⟨e1, ?_⟩
  have hin : absIns x.inputs = n.inputs.map fun s => if s = "" then none else top.lookup s := by
    rw [e2]
    simp only [absIns, List.map_map]
    apply List.map_congr_left
    intro s _
    simp only [Function.comp]
    by_cases he : s = ""
    · simp [he]
    · simp only [he, if_false, serde_resolve_one, tblRel_lookup ht]
      cases lookupLast (tableNames T) s <;> rfl
  have hout : x.outputs = n.outputs.map fun s => if s = "" then none else top.lookup s := by
    rw [e3]
    apply List.map_congr_left
    intro s _
    rw [tblRel_lookup ht]
  obtain ⟨st2, l1, l2, l3, l4⟩ := lookupOutputs_bound top n.outputs st cs hc b2
  have hm := mkNode_spec st2 (absIns x.inputs) (absOuts cs.length x.outputs)
  refine ⟨(Scope.mkNode st2 (absIns x.inputs) (absOuts cs.length x.outputs) []).1, ?_, ?_, ?_, ?_⟩
  · show Scope.deserNode st top [] _ (.mk n.inputs n.outputs []) = _
    simp only [Scope.deserNode, resolveInputs_bound st top _ n.inputs b1, l1, Scope.deserSubs]
    rw [← hin, ← hout, Scope.mkNode_snd, l3]
  · rw [hout]
    exact coreEq_same l2 (by rw [← hout]; exact hm)
  · rw [Scope.mkNode_fst_nn, l3]
  · rw [Scope.mkNode_fst_ng, l4]

theorem ph4_nodes (vis : List ValueInfoP) (q : List AnnotP) (T : List IRValue) (top : Scope.Table)
    (ht : TblRel top (tableNames T)) :
    ∀ (ns : List NodeP) (xs : List IRNode) (T' : List IRValue) (st : Scope.Store) (cs : List Cell),
    wfNodes [tableNames T] ns = true → desNodes [] vis q ns T = .ok (xs, T') → CoreEq st cs →
    T' = T ∧ ∃ st', Scope.deserNodes st top [] (Scope.vinfoTable (vis.map absVI)) (ns.map absN)
        = .ok (st', top, absNodes cs.length st.nn xs) ∧
      CoreEq st' (cs ++ List.replicate (numNoneNodes xs) blankCell) ∧ st'.nn = st.nn + xs.length ∧ st'.ng = st.ng
  | [], xs, T', st, cs, _, h, hc => by
    simp only [desNodes, Except.ok.injEq, Prod.mk.injEq] at h
    obtain ⟨rfl, rfl⟩ := h
    exact ⟨rfl, st, rfl, by simpa [numNoneNodes] using hc, rfl, rfl⟩
  | n :: ns, xs, T', st, cs, hw, h, hc => by
    simp only [wfNodes, Bool.and_eq_true] at hw
    simp only [desNodes, bind, Except.bind] at h
    split at h
    · cases h
    · rename_i r1 h1
      obtain ⟨x, T1⟩ := r1
      obtain ⟨eT, st1, a1, a2, a3, a4⟩ := ph4_node vis q T n x T1 st cs top hw.1 h1 hc ht
      subst eT
      simp only at h
      split at h
      · cases h
      · rename_i r2 h2
        obtain ⟨xs2, T2⟩ := r2
        simp only [Except.ok.injEq, Prod.mk.injEq] at h
        obtain ⟨rfl, rfl⟩ := h
        obtain ⟨eT2, st2, b1, b2, b3, b4⟩ := ph4_nodes vis q T1 top ht ns xs2 T2 st1 _ hw.2 h2 a2
        refine ⟨eT2, st2, ?_, ?_, ?_, ?_⟩
        · simp only [List.map_cons, Scope.deserNodes, a1, b1, absNodes]
          simp [a3]
        · simp only [numNoneNodes]
          rw [← List.replicate_append_replicate]
          simpa [List.append_assoc] using b2
        · rw [b3, a3]; simp; omega
        · rw [b4, a4]

/-! ## phase 5: graph outputs -/

theorem ph5_outputs (tbl : Scope.Table) : ∀ (outs : List ValueInfoP) (T : List IRValue) (st : Scope.Store)
    (X : List Cell) (os : List IRGOut) (T' : List IRValue),
    CoreEq st (T.map absCell ++ X) → TblRel tbl (tableNames T) →
    desGraphOutputs outs T = .ok (os, T') →
    ∃ st', Scope.deserOutputs st tbl (outs.map absVI) = (st', absGOuts (T.length + X.length) os) ∧
      CoreEq st' (T'.map absCell ++ X ++ dangCells os) ∧ tableNames T' = tableNames T ∧
      st'.nn = st.nn ∧ st'.ng = st.ng
  | [], T, st, X, os, T', hc, _, h => by
    simp only [desGraphOutputs, Except.ok.injEq, Prod.mk.injEq] at h
    obtain ⟨rfl, rfl⟩ := h
    exact ⟨st, rfl, by simpa [dangCells] using hc, rfl, rfl, rfl⟩
  | vi :: outs, T, st, X, os, T', hc, ht, h => by
    simp only [desGraphOutputs] at h
    simp only [List.map_cons, Scope.deserOutputs]
    have hnm : (absVI vi).name = vi.name := rfl
    rw [hnm, tblRel_lookup ht]
    cases hl : lookupLast (tableNames T) vi.name with
    | some i =>
      simp only [hl, bind, Except.bind] at h
      have hi : i < T.length := by simpa [tableNames] using lookupLast_lt hl
      split at h
      · cases h
      · rename_i v' hv'
        have hv := applyInfo_ok_eq hv'
        subst hv
        split at h
        · cases h
        · rename_i r hr
          obtain ⟨os2, T2⟩ := r
          simp only [Except.ok.injEq, Prod.mk.injEq] at h
          obtain ⟨rfl, rfl⟩ := h
          rw [listSet_eq_map] at hr
          have hcell := hc.cells i (by simp; omega)
          have hg : (T.map absCell ++ X).getD i default = absCell (T.getD i (IRValue.blank "")) := by
            simp [List.getD, List.getElem?_append_left, hi]
          rw [hg] at hcell
          have hc2 := coreEq_modify hc i (fun c => { c with info := absInfo vi })
            (by intro t ht'; exact hc.tens i t ht')
          have hc3 : CoreEq (st.modify i fun c => { c with info := absInfo vi })
              ((T.set i (applyInfoT (T.getD i (IRValue.blank "")) vi)).map absCell ++ X) := by
            rw [List.map_set, absCell_applyInfoT]
            have : (T.map absCell ++ X).set i ⟨(st.vals i).name, absInfo vi, (st.vals i).const.map st.tens⟩
                = (T.map absCell).set i ⟨(st.vals i).name, absInfo vi, (st.vals i).const.map st.tens⟩ ++ X := by
              rw [List.set_append_left _ _ (by simpa using hi)]
            simp only [cellAt, absCell, Cell.mk.injEq] at hcell
            rw [← hcell.1, ← hcell.2.2, ← this]
            exact hc2
          have hT : tableNames (T.set i (applyInfoT (T.getD i (IRValue.blank "")) vi)) = tableNames T :=
            tableNames_set T i _ rfl hi
          obtain ⟨st', e1, e2, e3, e4, e5⟩ := ph5_outputs tbl outs _ _ X os2 T2 hc3 (by rw [hT]; exact ht) hr
          refine ⟨st', ?_, ?_, e3.trans hT, e4, e5⟩
          · simp only [List.length_set] at e1
            simp only [absVI] at e1 ⊢
            rw [e1]; rfl
          · simpa [dangCells] using e2
    | none =>
      simp only [hl, bind, Except.bind] at h
      split at h
      · cases h
      · rename_i v' hv'
        have hv := applyInfo_ok_eq hv'
        subst hv
        split at h
        · cases h
        · rename_i r hr
          obtain ⟨os2, T2⟩ := r
          simp only [Except.ok.injEq, Prod.mk.injEq] at h
          obtain ⟨rfl, rfl⟩ := h
          have hc2 := coreEq_alloc hc { name := some vi.name, info := absInfo vi } (by intro t ht'; cases ht')
          have hc3 : CoreEq (st.alloc { name := some vi.name, info := absInfo vi }).1
              (T.map absCell ++ (X ++ [absCell (applyInfoT (IRValue.blank vi.name) vi)])) := by
            rw [← List.append_assoc]
            simpa [absCell_applyInfoT, IRValue.blank] using hc2
          obtain ⟨st', e1, e2, e3, e4, e5⟩ := ph5_outputs tbl outs T _ _ os2 T2 hc3 ht hr
          have hnv : st.nv = T.length + X.length := by simpa using hc.nv
          refine ⟨st', ?_, ?_, e3, by rw [e4]; rfl, by rw [e5]; rfl⟩
          · simp only [absVI] at e1 ⊢
            rw [e1]
            simp [absGOuts, Scope.Store.alloc, hnv, Nat.add_assoc]
          · simpa [dangCells, List.append_assoc] using e2

/-! ## phase 6: `Graph(...)` -/

theorem dictInsert_fresh : ∀ (d : List (Scope.Name × Nat)) (k : Scope.Name) (v : Nat), k ∉ d.map (·.1) →
    Scope.dictInsert d k v = d ++ [(k, v)]
  | [], _, _, _ => rfl
  | (k', v') :: r, k, v, h => by
    simp only [List.map_cons, List.mem_cons, not_or] at h
    simp only [Scope.dictInsert, Ne.symm h.1, if_false, List.cons_append]
    rw [dictInsert_fresh r k v h.2]

theorem initDict_nodup (st : Scope.Store) : ∀ (vs : List Nat) (d : List (Scope.Name × Nat)),
    (d.map (·.1) ++ vs.map (fun v => (st.vals v).name.getD "")).Nodup →
    Scope.initDict st d vs = d ++ vs.map (fun v => ((st.vals v).name.getD "", v))
  | [], d, _ => by simp [Scope.initDict]
  | v :: vs, d, h => by
    simp only [Scope.initDict, List.map_cons]
    have hk : (st.vals v).name.getD "" ∉ d.map (·.1) := by
      intro hm
      rw [List.nodup_append] at h
      exact h.2.2 _ hm _ (by simp) rfl
    rw [dictInsert_fresh d _ v hk]
    rw [initDict_nodup st vs (d ++ [((st.vals v).name.getD "", v)]) (by
      simpa [List.map_append, List.append_assoc] using h)]
    simp [List.append_assoc]

/-! ## the bridge for deserialization -/

theorem bridge_deserialize (name doc : String) (nodes : List NodeP) (inits : List TensorP)
    (inputs outputs vis : List ValueInfoP) (quant : List AnnotP) (metadata : List Entry)
    (hwf : wfGraph [] (.mk name doc nodes inits inputs outputs vis quant metadata) = true)
    (hns : noSubgraphs (.mk name doc nodes inits inputs outputs vis quant metadata) = true) :
    ∃ g w, desGraph [] (.mk name doc nodes inits inputs outputs vis quant metadata) = .ok g ∧
      Scope.deserialize (absG (.mk name doc nodes inits inputs outputs vis quant metadata)) = .ok w ∧
      coreOf w = absIR g := by
  have _ := hns
  obtain ⟨hw, hwn⟩ := graphWF_of_wf [] name doc nodes inits inputs outputs vis quant metadata hwf
  have hNpre := tableNames_tblPre (inits := inits) (inputs := inputs) (vis := vis) (quant := quant)
    (outs := nodeOutNames nodes)
  have hnd := hw.nodupNames
  simp only [scopeNames] at hnd
  rw [List.nodup_append] at hnd
  obtain ⟨hndAB, hndC, hdisC⟩ := hnd
  rw [List.nodup_append] at hndAB
  obtain ⟨hndA, _hndB, _hdisB⟩ := hndAB
  -- C02 side, phase by phase (as in `graph_core`)
  have hA := desGraphInputs_eq quant inputs hw.wfIn
  have hwfT : inits.all wfTensor = true := by
    rw [List.all_eq_true]
    intro p hp
    have := List.all_eq_true.1 hw.wfInit p hp
    simp only [Bool.and_eq_true] at this
    exact this.1
  have hwfT2 : ∀ p ∈ inits, wfTensor p = true ∧ validDType p.dataType = true := by
    intro p hp
    have := List.all_eq_true.1 hw.wfInit p hp
    simpa [Bool.and_eq_true] using this
  have hT := desTensors_eq inits hwfT
  have hne : ∀ p ∈ inits, p.name ≠ "" := by
    intro p hp
    apply hw.nonempty
    by_cases hin : p.name ∈ inputs.map (·.name)
    · exact mem_scopeNames.2 (Or.inl hin)
    · exact mem_scopeNames.2 (Or.inr (Or.inl ⟨List.mem_map_of_mem hp, hin⟩))
  obtain ⟨idxs, hB, hidx⟩ := desInitializers_spec vis quant hw.wfVis inits (inputs.map (inputValT quant))
    hw.wfInit hne hw.nodupInit (by rw [tableNames_inputVals]; exact hndA)
  rw [tableNames_inputVals] at hB hidx
  have hNB : tableNames ((inputs.map (inputValT quant)).map (constFrom inits)
      ++ (newInits (inputs.map (·.name)) inits).map (initValT vis quant))
      = inputs.map (·.name) ++ (inits.map (·.name)).filter (fun n => !(inputs.map (·.name)).contains n) := by
    simp only [tableNames, List.map_append, List.map_map]
    congr 1
    · apply List.map_congr_left; intro vi _; simp
    · rw [← newInits_names]
      apply List.map_congr_left; intro p _; simp
  have hC := declareAll_spec vis quant hw.wfVis nodes
    ((inputs.map (inputValT quant)).map (constFrom inits)
      ++ (newInits (inputs.map (·.name)) inits).map (initValT vis quant))
    (by intro n hn hm; rw [hNB] at hm; exact hdisC n hm n hn rfl) hndC
  have hpre : (inputs.map (inputValT quant)).map (constFrom inits)
      ++ (newInits (inputs.map (·.name)) inits).map (initValT vis quant)
      ++ (nodeOutNames nodes).map (newValueT vis quant)
      = tblPre inits inputs vis quant (nodeOutNames nodes) := rfl
  rw [hpre] at hC
  obtain ⟨xs, hD1, _, _⟩ := nodes_rt [] vis quant none nodes (tblPre inits inputs vis quant (nodeOutNames nodes))
    (by rw [hNpre]; exact hwn) (Or.inl rfl)
  have hE := desGraphOutputs_spec outputs (tblPre inits inputs vis quant (nodeOutNames nodes))
    hw.wfOut hw.consOut (by rw [hNpre]; exact hw.nodupNames)
  have hEf : (tblPre inits inputs vis quant (nodeOutNames nodes)).map (outUpd outputs)
      = tblFinal inits inputs outputs vis quant (nodeOutNames nodes) := rfl
  rw [hEf] at hE
  have hidx' : idxs.map some = inits.map (fun p => lookupLast
      (scopeNames (inputs.map (·.name)) (inits.map (·.name)) (nodeOutNames nodes)) p.name) := by
    rw [hidx, hNB]
    apply List.map_congr_left
    intro p hp
    simp only [scopeNames]
    symm
    apply lookupLast_append_left
    intro hm
    have hpAB : p.name ∈ inputs.map (·.name)
        ++ (inits.map (·.name)).filter (fun n => !(inputs.map (·.name)).contains n) := by
      by_cases hin : p.name ∈ inputs.map (·.name)
      · exact List.mem_append_left _ hin
      · refine List.mem_append_right _ (List.mem_filter.2 ⟨List.mem_map_of_mem hp, by simpa using hin⟩)
    exact hdisC _ hpAB _ hm rfl
  obtain ⟨_, _, s3, _⟩ := ser_inits hw inits idxs (fun p hp => hp) hidx'
  have hidxnd : idxs.Nodup := by
    have : (idxs.map (fun i => ((tblFinal inits inputs outputs vis quant (nodeOutNames nodes)).getD i
        (IRValue.blank "")).name)).Nodup := by rw [s3]; exact hw.nodupInit
    exact nodup_of_map _ this
  have f_idx := dedupNat_of_nodup hidxnd
  have hidxlt : ∀ i ∈ idxs, i < (tblFinal inits inputs outputs vis quant (nodeOutNames nodes)).length := by
    intro i hi
    have : some i ∈ idxs.map some := List.mem_map_of_mem hi
    rw [hidx'] at this
    obtain ⟨p, _, hp⟩ := List.mem_map.1 this
    have := lookupLast_lt hp
    rw [← tableNames_tblFinal (inits := inits) (inputs := inputs) (outputs := outputs) (vis := vis)
      (quant := quant)] at this
    simpa [tableNames] using this
  -- Scope side, phase by phase
  obtain ⟨p1a, p1b, p1c, p1d⟩ := ph1_inputs quant inputs {} [] coreEq_empty
  simp only [List.length_nil, List.nil_append] at p1a p1b
  have ht1 : TblRel (Scope.inputTable (inputs.map absVI) (Scope.deserInputs {} (inputs.map absVI)).2)
      (tableNames (inputs.map (inputValT quant))) := by
    rw [p1a, tableNames_inputVals]
    unfold TblRel Scope.inputTable
    simp [List.map_map, Function.comp_def, absVI, List.range_eq_range']
  obtain ⟨st2, tbl2, p2a, p2b, p2c, p2d, p2e⟩ := ph2_inits vis quant hw.wfVis inits _ _ _ _ idxs hwfT2 p1b ht1 hB
  obtain ⟨st3, tbl3, p3a, p3b, p3c, p3d, p3e⟩ := ph3_declareAll vis quant hw.wfVis nodes _ st2 tbl2 _ p2b p2c hC
  obtain ⟨_, st4, p4a, p4b, p4c, p4d⟩ := ph4_nodes vis quant (tblPre inits inputs vis quant (nodeOutNames nodes))
    tbl3 p3c nodes xs _ st3 _ (by rw [hNpre]; exact hwn) hD1 p3b
  obtain ⟨st5, p5a, p5b, _, p5d, p5e⟩ := ph5_outputs tbl3 outputs _ st4 _ _ _ p4b p3c hE
  have hng : st5.ng = 0 := by rw [p5e, p4d, p3e, p2e, p1d]
  have hnn : st3.nn = 0 := by rw [p3d, p2d, p1c]
  refine ⟨IRGraph.mk (tblFinal inits inputs outputs vis quant (nodeOutNames nodes))
    (List.range inputs.length) (dedupNat idxs) xs
    (outputs.map (gOutT (tableNames (tblPre inits inputs vis quant (nodeOutNames nodes)))))
    name doc [] (dictOfEntries metadata), ⟨(Scope.mkGraph st5 (Scope.deserInputs {} (inputs.map absVI)).2
      (absGOuts ((tblPre inits inputs vis quant (nodeOutNames nodes)).length
        + (List.replicate (numNoneNodes xs) blankCell).length)
        (outputs.map (gOutT (tableNames (tblPre inits inputs vis quant (nodeOutNames nodes))))))
      (absNodes (tblPre inits inputs vis quant (nodeOutNames nodes)).length st3.nn xs) idxs).1,
    (Scope.mkGraph st5 (Scope.deserInputs {} (inputs.map absVI)).2
      (absGOuts ((tblPre inits inputs vis quant (nodeOutNames nodes)).length
        + (List.replicate (numNoneNodes xs) blankCell).length)
        (outputs.map (gOutT (tableNames (tblPre inits inputs vis quant (nodeOutNames nodes))))))
      (absNodes (tblPre inits inputs vis quant (nodeOutNames nodes)).length st3.nn xs) idxs).2⟩, ?_, ?_, ?_⟩
  · simp only [desGraph, hA, hT, hB, hC, hD1, hE, bind, Except.bind]
  · simp only [Scope.deserialize, absG, Scope.deserGraph, GraphP.inputs, GraphP.initializers, GraphP.valueInfo,
      GraphP.nodes, GraphP.outputs, p2a, p3a]
    simp only [List.length_map] at p4a
    rw [p4a]
    simp only [p5a]
  · have hsame := mkGraph_same st5 (Scope.deserInputs {} (inputs.map absVI)).2
      (absGOuts ((tblPre inits inputs vis quant (nodeOutNames nodes)).length
        + (List.replicate (numNoneNodes xs) blankCell).length)
        (outputs.map (gOutT (tableNames (tblPre inits inputs vis quant (nodeOutNames nodes))))))
      (absNodes (tblPre inits inputs vis quant (nodeOutNames nodes)).length st3.nn xs) idxs
    have hcore := coreEq_same p5b hsame
    have hlenF : (tblFinal inits inputs outputs vis quant (nodeOutNames nodes)).length
        = (tblPre inits inputs vis quant (nodeOutNames nodes)).length := by simp [tblFinal]
    -- names of the initializer values in the store `Graph(...)` reads them from
    have hs1 := sameCore_setOwner st5.ng (fun c => { c with isIn := true }) (fun _ => rfl) (fun _ => rfl)
      (fun _ => rfl) (Scope.deserInputs {} (inputs.map absVI)).2 st5
    have hs2 := sameCore_setOwner st5.ng (fun c => { c with isOut := true }) (fun _ => rfl) (fun _ => rfl)
      (fun _ => rfl) (absGOuts ((tblPre inits inputs vis quant (nodeOutNames nodes)).length
        + (List.replicate (numNoneNodes xs) blankCell).length)
        (outputs.map (gOutT (tableNames (tblPre inits inputs vis quant (nodeOutNames nodes))))))
      (Scope.setOwner st5 st5.ng (fun c => { c with isIn := true }) (Scope.deserInputs {} (inputs.map absVI)).2)
    have hs := hs1.trans hs2
    have hname : ∀ i ∈ idxs, (st5.vals i).name
        = some ((tblFinal inits inputs outputs vis quant (nodeOutNames nodes)).getD i (IRValue.blank "")).name := by
      intro i hi
      have hlt := hidxlt i hi
      have hcell := p5b.cells i (by simp; omega)
      have hg : (List.map absCell (tblFinal inits inputs outputs vis quant (nodeOutNames nodes)) ++
          List.replicate (numNoneNodes xs) blankCell ++
          dangCells (List.map (gOutT (tableNames (tblPre inits inputs vis quant (nodeOutNames nodes)))) outputs)).getD i default
          = absCell ((tblFinal inits inputs outputs vis quant (nodeOutNames nodes)).getD i (IRValue.blank "")) := by
        simp [List.getD, List.getElem?_append_left, hlt]
      rw [hg] at hcell
      simp only [cellAt, absCell, Cell.mk.injEq] at hcell
      exact hcell.1
    have hinits : Scope.mkGraphInits st5 (Scope.deserInputs {} (inputs.map absVI)).2
        (absGOuts ((tblPre inits inputs vis quant (nodeOutNames nodes)).length
          + (List.replicate (numNoneNodes xs) blankCell).length)
          (outputs.map (gOutT (tableNames (tblPre inits inputs vis quant (nodeOutNames nodes)))))) idxs
        = idxs.map (fun i => (((tblFinal inits inputs outputs vis quant (nodeOutNames nodes)).getD i
            (IRValue.blank "")).name, i)) := by
      unfold Scope.mkGraphInits
      have hnm : ∀ i ∈ idxs, ((Scope.setOwner (Scope.setOwner st5 st5.ng (fun c => { c with isIn := true })
          (Scope.deserInputs {} (inputs.map absVI)).2) st5.ng (fun c => { c with isOut := true })
          (absGOuts ((tblPre inits inputs vis quant (nodeOutNames nodes)).length
            + (List.replicate (numNoneNodes xs) blankCell).length)
            (outputs.map (gOutT (tableNames (tblPre inits inputs vis quant (nodeOutNames nodes))))))).vals i).name.getD ""
          = ((tblFinal inits inputs outputs vis quant (nodeOutNames nodes)).getD i (IRValue.blank "")).name := by
        intro i hi
        rw [hs.name i, hname i hi]; rfl
      rw [initDict_nodup _ idxs [] (by
        simp only [List.map_nil, List.nil_append]
        rw [List.map_congr_left hnm, s3]
        exact hw.nodupInit)]
      simp only [List.nil_append]
      apply List.map_congr_left
      intro i hi
      rw [hnm i hi]
    unfold coreOf absIR
    simp only [IRGraph.table, IRGraph.nodes, IRGraph.outputs, IRGraph.inputs, IRGraph.initializers]
    rw [coreEq_cells hcore, Scope.mkGraph_snd, hinits, hng, hnn, f_idx, p1a, hlenF]
    simp [List.range_eq_range']

/-! ## the bridge for serialization

`GOK g`: what the simulation of `serialize_graph_into` needs from a C02 IR graph (decidable; evaluated by the
driver on every case).  Every value: no metadata_props (the Scope core model has no value metadata), its
type / shape survive `serialize_value_into` as the tokens say; every initializer tensor is written with the
payload / dtype / dims its tokens say; every index is inside the table and every reference is local. -/

theorem isEmpty_decide (s : String) : s.isEmpty = decide (s = "") := by
  by_cases h : s = ""
  · simp [h]
  · have : s.isEmpty = false := by
      cases hs : s.isEmpty with
      | false => rfl
      | true => exact absurd (String.isEmpty_iff.1 hs) h
    simp [this, h]

theorem shouldCreate_of_valOK {v : IRValue} (h : valOK v = true) (c : Scope.ValueS)
    (hn : c.name = some v.name) (hi : c.info = absInfoV v) :
    Scope.shouldCreate c = shouldCreateVI v := by
  simp only [valOK, Bool.and_eq_true] at h
  have hm : v.mprops = [] := by simpa using h.1
  simp only [Scope.shouldCreate, Scope.Info.present, hn, hi, absInfoV, Scope.nameTruthy, shouldCreateVI, hm,
    List.isEmpty_nil, Bool.and_true, Option.isSome_map, docTok]
  by_cases hd : v.doc = "" <;> by_cases hnm : v.name = "" <;> cases v.type <;>
    simp [hd, hnm, isEmpty_decide]

/-- what the world of `absIR g` shows of `g`'s values -/
structure Sees (st : Scope.Store) (g : IRGraph) : Prop where
  tblv : ∀ i, i < g.table.length → cellAt st i = absCell (g.table.getD i (IRValue.blank ""))
  blank : ∀ j, g.table.length ≤ j → j < g.table.length + numNoneNodes g.nodes → cellAt st j = blankCell
  dang : ∀ j, j < (dangCells g.outputs).length →
    cellAt st (g.table.length + numNoneNodes g.nodes + j) = (dangCells g.outputs).getD j default

theorem sees_of_core {w : Scope.World} {g : IRGraph} (h : coreOf w = absIR g) : Sees w.st g := by
  have hc : (List.range w.st.nv).map (cellAt w.st)
      = g.table.map absCell ++ List.replicate (numNoneNodes g.nodes) blankCell ++ dangCells g.outputs :=
    congrArg Core.cells h
  have hget : ∀ i, i < w.st.nv → some (cellAt w.st i)
      = (g.table.map absCell ++ List.replicate (numNoneNodes g.nodes) blankCell ++ dangCells g.outputs)[i]? := by
    intro i hi
    rw [← hc]
    simp [hi]
  have hlen : w.st.nv = g.table.length + numNoneNodes g.nodes + (dangCells g.outputs).length := by
    have := congrArg List.length hc
    simp at this
    omega
  refine ⟨?_, ?_, ?_⟩
  · intro i hi
    have := hget i (by omega)
    rw [List.append_assoc, List.getElem?_append_left (by simpa using hi)] at this
    simpa [List.getD, List.getElem?_eq_getElem hi] using this
  · intro j h1 h2
    have := hget j (by omega)
    rw [List.getElem?_append_left (by simp; omega), List.getElem?_append_right (by simpa using h1)] at this
    simp only [List.length_map] at this
    rw [List.getElem?_replicate] at this
    simpa [show j - g.table.length < numNoneNodes g.nodes by omega] using this
  · intro j hj
    have := hget (g.table.length + numNoneNodes g.nodes + j) (by omega)
    rw [List.getElem?_append_right (by simp)] at this
    simp only [List.length_append, List.length_map, List.length_replicate, Nat.add_sub_cancel_left] at this
    simpa [List.getD, List.getElem?_eq_getElem hj] using this

/-- what the Scope model writes for a value that shows `v` -/
def absSV (v : IRValue) : Scope.VInfoP := ⟨v.name, (absInfoV v).emit⟩

theorem absVI_serValue {v : IRValue} (h : valOK v = true) : absVI (serValue v) = absSV v := by
  simp only [valOK, Bool.and_eq_true, decide_eq_true_eq] at h
  have hn : (serValue v).name = v.name := by simp [serValue, serValueAs]
  unfold absVI absSV
  rw [h.2, hn]

theorem cell_fields {st : Scope.Store} {i : Nat} {v : IRValue} (h : cellAt st i = absCell v) :
    (st.vals i).name = some v.name ∧ (st.vals i).info = absInfoV v ∧
      (st.vals i).const.map st.tens = v.const.map absTens := by
  simpa [cellAt, absCell] using h

theorem serValue_sees {st : Scope.Store} {i : Nat} {v : IRValue} (h : cellAt st i = absCell v) :
    Scope.serValue (st.vals i) = .ok (absSV v) := by
  obtain ⟨h1, h2, _⟩ := cell_fields h
  simp [Scope.serValue, h1, h2, absSV]

theorem serValues_tbl (st : Scope.Store) (tbl : List IRValue)
    (hs : ∀ i, i < tbl.length → cellAt st i = absCell (tbl.getD i (IRValue.blank ""))) :
    ∀ is : List Nat, (∀ i ∈ is, i < tbl.length) →
    Scope.serValues st.vals is = .ok (is.map fun i => absSV (tbl.getD i (IRValue.blank "")))
  | [], _ => rfl
  | i :: is, h => by
    simp only [Scope.serValues, serValue_sees (hs i (h i (by simp))),
      serValues_tbl st tbl hs is (fun j hj => h j (List.mem_cons_of_mem _ hj)), List.map_cons]

def absSGOut (tbl : List IRValue) : IRGOut → Scope.VInfoP
  | .tbl i => absSV (tbl.getD i (IRValue.blank ""))
  | .dangling v => absSV v

theorem serValues_gouts (st : Scope.Store) (tbl : List IRValue)
    (hs : ∀ i, i < tbl.length → cellAt st i = absCell (tbl.getD i (IRValue.blank ""))) :
    ∀ (os : List IRGOut) (k : Nat), os.all (goutOK tbl.length) = true →
    (∀ j, j < (dangCells os).length → cellAt st (k + j) = (dangCells os).getD j default) →
    Scope.serValues st.vals (absGOuts k os) = .ok (os.map (absSGOut tbl))
  | [], _, _, _ => rfl
  | .tbl i :: os, k, h, hd => by
    simp only [List.all_cons, Bool.and_eq_true, goutOK, decide_eq_true_eq] at h
    simp only [absGOuts, Scope.serValues, serValue_sees (hs i h.1),
      serValues_gouts st tbl hs os k h.2 (by simpa [dangCells] using hd), List.map_cons, absSGOut]
  | .dangling v :: os, k, h, hd => by
    simp only [List.all_cons, Bool.and_eq_true] at h
    have h0 := hd 0 (by simp [dangCells])
    simp only [dangCells, Nat.add_zero, List.getD_cons_zero] at h0
    have hd' : ∀ j, j < (dangCells os).length → cellAt st (k + 1 + j) = (dangCells os).getD j default := by
      intro j hj
      have := hd (j + 1) (by simp [dangCells]; omega)
      simpa [dangCells, Nat.add_assoc, Nat.add_comm 1 j] using this
    simp only [absGOuts, Scope.serValues, serValue_sees h0, serValues_gouts st tbl hs os (k + 1) h.2 hd',
      List.map_cons, absSGOut]

theorem contains_some_map (l : List String) (x : String) : (l.map some).contains (some x) = l.contains x := by
  induction l with
  | nil => rfl
  | cons y ys ih => simp

theorem serInits_sees (st : Scope.Store) (tbl : List IRValue) (inNames : List String)
    (hs : ∀ i, i < tbl.length → cellAt st i = absCell (tbl.getD i (IRValue.blank "")))
    (hok : ∀ v ∈ tbl, (valOK v && tensOK v) = true) :
    ∀ is : List Nat, (∀ i ∈ is, i < tbl.length) →
    ∃ ws, Scope.serInits st.vals st.tdata (inNames.map some)
        (is.map fun i => ((tbl.getD i (IRValue.blank "")).name, i))
      = ((serInitVIs tbl inNames is).map absVI, (serInitTensors tbl is).map absT, ws)
  | [], _ => ⟨[], rfl⟩
  | i :: is, h => by
    obtain ⟨ws, ih⟩ := serInits_sees st tbl inNames hs hok is (fun j hj => h j (List.mem_cons_of_mem _ hj))
    have hi := h i (by simp)
    have hmem : tbl.getD i (IRValue.blank "") ∈ tbl := by
      simp [List.getD, List.getElem?_eq_getElem hi]
    have hvo := hok _ hmem
    have hcell := hs i hi
    simp only [List.map_cons, Scope.serInits, serInitVIs, serInitTensors, ih]
    generalize tbl.getD i (IRValue.blank "") = v at hvo hcell ⊢
    simp only [Bool.and_eq_true] at hvo
    obtain ⟨f1, f2, f3⟩ := cell_fields hcell
    have hsc := shouldCreate_of_valOK hvo.1 (st.vals i) f1 f2
    have hvi : (if (Scope.shouldCreate (st.vals i) && !(inNames.map some).contains (st.vals i).name) = true
          then [(⟨(st.vals i).name.getD "", (st.vals i).info.emit⟩ : Scope.VInfoP)] else [])
        = (if (shouldCreateVI v && !inNames.contains v.name) = true then [serValue v] else []).map absVI := by
      rw [hsc, f1, contains_some_map, f2]
      by_cases hb : (shouldCreateVI v && !inNames.contains v.name) = true
      · rw [if_pos hb, if_pos hb]
        simp [absVI_serValue hvo.1, absSV]
      · rw [if_neg hb, if_neg hb]; rfl
    simp only [hvi, List.map_append]
    cases hc : v.const with
    | none =>
      rw [hc] at f3
      have : (st.vals i).const = none := by
        cases h' : (st.vals i).const with
        | none => rfl
        | some t => rw [h'] at f3; cases f3
      rw [this]
      exact ⟨ws, rfl⟩
    | some t' =>
      rw [hc] at f3
      cases h' : (st.vals i).const with
      | none => rw [h'] at f3; cases f3
      | some t =>
        rw [h'] at f3
        simp only [Option.map_some, Option.some.injEq] at f3
        have ht := hvo.2
        simp only [tensOK, hc, decide_eq_true_eq] at ht
        have htd : st.tdata t = (tensTok t', tyTok (.tensor (dtypeOf t') ""), dimsTok t'.shape) := by
          simp [Scope.Store.tdata, f3, absTens]
        refine ⟨(t, (st.vals i).name) :: ws, ?_⟩
        simp only [htd, f1, Option.getD_some, List.map_cons, List.map_nil, ht, List.cons_append,
          List.nil_append]

/-! ### nodes -/

def nameOfIn (names : List String) : Option Ref → String
  | none => ""
  | some r => refName [names] r

def nameOfOut (names : List String) : Option Nat → String
  | none => ""
  | some j => refName [names] ⟨0, j⟩

theorem serNode_abs (names : List String) (ver : Option Int) : ∀ (x : IRNode) (np : NodeP),
    Serde.serNode [names] ver x = .ok np →
    absN np = .mk (x.inputs.map (nameOfIn names)) (trimTrailingEmpty (x.outputs.map (nameOfOut names))) []
  | .mk domain opType overload name doc inputs outputs attrs mprops devcfgs, np, h => by
    have key : ∀ as dcs, absN (NodeP.mk
          (inputs.map fun | none => "" | some r => refName [names] r)
          (trimTrailingEmpty (outputs.map fun | none => "" | some j => refName [names] ⟨0, j⟩))
          name opType domain overload doc as (sortEntries mprops) dcs)
        = .mk (inputs.map (nameOfIn names)) (trimTrailingEmpty (outputs.map (nameOfOut names))) [] := by
      intro as dcs
      have e1 : ∀ l : List (Option Ref), (l.map fun | none => "" | some r => refName [names] r)
          = l.map (nameOfIn names) := by
        intro l; apply List.map_congr_left; intro r _; cases r <;> rfl
      have e2 : ∀ l : List (Option Nat), (l.map fun | none => "" | some j => refName [names] ⟨0, j⟩)
          = l.map (nameOfOut names) := by
        intro l; apply List.map_congr_left; intro r _; cases r <;> rfl
      simp only [absN, NodeP.inputs, NodeP.outputs]
      rw [e1, e2]
    simp only [Serde.serNode, bind, Except.bind] at h
    split at h
    · cases h
    · cases devcfgs with
      | nil =>
        simp only [List.isEmpty_nil, if_true] at h
        cases h
        exact key _ _
      | cons c cs =>
        simp only [List.isEmpty_cons, Bool.false_eq_true, if_false] at h
        split at h
        · cases h
        · cases h
          exact key _ _

theorem refName_tbl (tbl : List IRValue) (j : Nat) :
    refName [tableNames tbl] ⟨0, j⟩ = (tbl.getD j (IRValue.blank "")).name := by
  simp only [refName, tableNames, List.getD]
  simp only [List.getElem?_cons_zero, Option.getD_some, List.getElem?_map]
  cases tbl[j]? <;> rfl

theorem serInputs_sees (st : Scope.Store) (tbl : List IRValue)
    (hs : ∀ i, i < tbl.length → cellAt st i = absCell (tbl.getD i (IRValue.blank ""))) :
    ∀ ins : List (Option Ref), ins.all (refOK tbl.length) = true →
    Scope.serInputs st.vals (absIns ins) = .ok (ins.map (nameOfIn (tableNames tbl)))
  | [], _ => rfl
  | none :: ins, h => by
    simp only [List.all_cons, Bool.and_eq_true] at h
    have ih := serInputs_sees st tbl hs ins h.2
    simp only [absIns] at ih
    simp [absIns, Scope.serInputs, ih, nameOfIn]
  | some r :: ins, h => by
    simp only [List.all_cons, Bool.and_eq_true, refOK, beq_iff_eq, decide_eq_true_eq] at h
    have ih := serInputs_sees st tbl hs ins h.2
    simp only [absIns] at ih
    obtain ⟨f1, _, _⟩ := cell_fields (hs r.idx h.1.2)
    have hr : r = ⟨0, r.idx⟩ := by cases r; simp_all
    have hn : nameOfIn (tableNames tbl) (some r) = (tbl.getD r.idx (IRValue.blank "")).name := by
      rw [hr]; exact refName_tbl tbl r.idx
    simp [absIns, Scope.serInputs, ih, f1, hn]

theorem outNames_sees (st : Scope.Store) (tbl : List IRValue)
    (hs : ∀ i, i < tbl.length → cellAt st i = absCell (tbl.getD i (IRValue.blank ""))) :
    ∀ (outs : List (Option Nat)) (k : Nat), outs.all (outOK tbl.length) = true →
    (∀ j, k ≤ j → j < k + numNone outs → cellAt st j = blankCell) →
    (absOuts k outs).map (fun v => (st.vals v).name) = (outs.map (nameOfOut (tableNames tbl))).map some
  | [], _, _, _ => rfl
  | none :: outs, k, h, hb => by
    simp only [List.all_cons, Bool.and_eq_true] at h
    have h0 := hb k (Nat.le_refl _) (by simp [numNone])
    have ih := outNames_sees st tbl hs outs (k + 1) h.2 (fun j h1 h2 => hb j (by omega) (by simp [numNone]; omega))
    have : (st.vals k).name = some "" := by simpa [cellAt, blankCell] using congrArg Cell.name h0
    simp [absOuts, ih, this, nameOfOut]
  | some i :: outs, k, h, hb => by
    simp only [List.all_cons, Bool.and_eq_true, outOK, decide_eq_true_eq] at h
    have ih := outNames_sees st tbl hs outs k h.2 (fun j h1 h2 => hb j h1 (by simpa [numNone] using h2))
    obtain ⟨f1, _, _⟩ := cell_fields (hs i h.1)
    simp [absOuts, ih, f1, nameOfOut, refName_tbl]

theorem serOutNames_of_names (vals : Nat → Scope.ValueS) : ∀ (ids : List Nat) (xs : List String),
    ids.map (fun v => (vals v).name) = xs.map some → Scope.serOutNames vals ids = .ok xs
  | [], [], _ => rfl
  | [], _ :: _, h => by simp at h
  | _ :: _, [], h => by simp at h
  | v :: ids, x :: xs, h => by
    simp only [List.map_cons, List.cons.injEq] at h
    simp [Scope.serOutNames, h.1, serOutNames_of_names vals ids xs h.2]

theorem stripTrailing_names (vals : Nat → Scope.ValueS) : ∀ (ids : List Nat) (xs : List String),
    ids.map (fun v => (vals v).name) = xs.map some →
    (Scope.stripTrailing vals ids).map (fun v => (vals v).name) = (trimTrailingEmpty xs).map some
  | [], [], _ => rfl
  | [], _ :: _, h => by simp at h
  | _ :: _, [], h => by simp at h
  | v :: ids, x :: xs, h => by
    simp only [List.map_cons, List.cons.injEq] at h
    have ih := stripTrailing_names vals ids xs h.2
    simp only [Scope.stripTrailing, trimTrailingEmpty]
    cases hs : Scope.stripTrailing vals ids with
    | nil =>
      rw [hs] at ih
      have ht : trimTrailingEmpty xs = [] := by
        cases hx : trimTrailingEmpty xs with
        | nil => rfl
        | cons a b => rw [hx] at ih; simp at ih
      rw [ht]
      by_cases hx : x = ""
      · simp [hx, h.1, Scope.nameTruthy]
      · simp [hx, h.1, Scope.nameTruthy]
    | cons a b =>
      rw [hs] at ih
      cases hx : trimTrailingEmpty xs with
      | nil => rw [hx] at ih; simp at ih
      | cons c d =>
        rw [hx] at ih
        simp only [List.map_cons, h.1, ih]

theorem gouts_contains (n : Nat) : ∀ (os : List IRGOut) (k j : Nat), j < k →
    (absGOuts k os).contains j = (outIdxs os).contains j
  | [], _, _, _ => rfl
  | .tbl i :: os, k, j, h => by
    simp only [absGOuts, outIdxs, List.contains_cons, gouts_contains n os k j h]
  | .dangling _ :: os, k, j, h => by
    simp only [absGOuts, outIdxs, List.contains_cons, gouts_contains n os (k + 1) j (by omega)]
    have : (j == k) = false := by simp; omega
    simp [this]

theorem outVInfo_sees (st : Scope.Store) (tbl : List IRValue) (gouts outIs : List Nat)
    (hs : ∀ i, i < tbl.length → cellAt st i = absCell (tbl.getD i (IRValue.blank "")))
    (hok : ∀ v ∈ tbl, (valOK v && tensOK v) = true)
    (hg : ∀ j, j < tbl.length → gouts.contains j = outIs.contains j) :
    ∀ (outs : List (Option Nat)) (k : Nat), outs.all (outOK tbl.length) = true →
    (∀ j, k ≤ j → j < k + numNone outs → cellAt st j = blankCell) →
    Scope.outVInfo st.vals gouts (absOuts k outs) = (nodeOutVIs tbl outIs outs).map absVI
  | [], _, _, _ => rfl
  | none :: outs, k, h, hb => by
    simp only [List.all_cons, Bool.and_eq_true] at h
    have h0 := hb k (Nat.le_refl _) (by simp [numNone])
    have ih := outVInfo_sees st tbl gouts outIs hs hok hg outs (k + 1) h.2
      (fun j h1 h2 => hb j (by omega) (by simp [numNone]; omega))
    have hn : (st.vals k).name = some "" := by simpa [cellAt, blankCell] using congrArg Cell.name h0
    simp [absOuts, Scope.outVInfo, nodeOutVIs, ih, Scope.shouldCreate, hn, Scope.nameTruthy]
  | some i :: outs, k, h, hb => by
    simp only [List.all_cons, Bool.and_eq_true, outOK, decide_eq_true_eq] at h
    have ih := outVInfo_sees st tbl gouts outIs hs hok hg outs k h.2
      (fun j h1 h2 => hb j h1 (by simpa [numNone] using h2))
    have hmem : tbl.getD i (IRValue.blank "") ∈ tbl := by
      simp [List.getD, List.getElem?_eq_getElem h.1]
    have hvo := hok _ hmem
    have hcell := hs i h.1
    simp only [absOuts, Scope.outVInfo, nodeOutVIs, ih, hg i h.1]
    generalize tbl.getD i (IRValue.blank "") = v at hvo hcell ⊢
    simp only [Bool.and_eq_true] at hvo
    obtain ⟨f1, f2, _⟩ := cell_fields hcell
    rw [shouldCreate_of_valOK hvo.1 (st.vals i) f1 f2, f1, f2]
    by_cases hc : i ∈ outIs
    · simp [hc]
    · by_cases hsv : shouldCreateVI v = true
      · simp [hc, hsv, absVI_serValue hvo.1, absSV]
      · simp [hc, hsv]

theorem nodeOutVIs_append (tbl : List IRValue) (outIs : List Nat) : ∀ a b : List (Option Nat),
    nodeOutVIs tbl outIs (a ++ b) = nodeOutVIs tbl outIs a ++ nodeOutVIs tbl outIs b
  | [], _ => rfl
  | none :: a, b => by simp [nodeOutVIs, nodeOutVIs_append tbl outIs a b]
  | some j :: a, b => by simp [nodeOutVIs, nodeOutVIs_append tbl outIs a b]

theorem serNode_sees (st : Scope.Store) (tbl : List IRValue) (gouts outIs : List Nat) (ver : Option Int)
    (hs : ∀ i, i < tbl.length → cellAt st i = absCell (tbl.getD i (IRValue.blank "")))
    (hok : ∀ v ∈ tbl, (valOK v && tensOK v) = true)
    (hg : ∀ j, j < tbl.length → gouts.contains j = outIs.contains j)
    (x : IRNode) (k nid : Nat) (np : NodeP)
    (h : Serde.serNode [tableNames tbl] ver x = .ok np)
    (hx : (x.inputs.all (refOK tbl.length) && x.outputs.all (outOK tbl.length)) = true)
    (hb : ∀ j, k ≤ j → j < k + numNone x.outputs → cellAt st j = blankCell) :
    Scope.serNode st.vals st.tdata gouts
        (Scope.NodeT.setGraph 0 (.mk nid none (absIns x.inputs) (absOuts k x.outputs) []))
      = .ok (absN np, (nodeOutVIs tbl outIs x.outputs).map absVI, []) := by
  simp only [Bool.and_eq_true] at hx
  have e1 := serInputs_sees st tbl hs x.inputs hx.1
  have e2 := outNames_sees st tbl hs x.outputs k hx.2 hb
  have e3 := stripTrailing_names st.vals _ _ e2
  have e4 := serOutNames_of_names st.vals _ _ e3
  have e5 := outVInfo_sees st tbl gouts outIs hs hok hg x.outputs k hx.2 hb
  rw [serNode_abs _ ver x np h]
  simp only [Scope.NodeT.setGraph, Scope.serNode, e1, e4, Scope.serSubs, e5]

theorem serNodes_sees (st : Scope.Store) (tbl : List IRValue) (gouts outIs : List Nat) (ver : Option Int)
    (hs : ∀ i, i < tbl.length → cellAt st i = absCell (tbl.getD i (IRValue.blank "")))
    (hok : ∀ v ∈ tbl, (valOK v && tensOK v) = true)
    (hg : ∀ j, j < tbl.length → gouts.contains j = outIs.contains j) :
    ∀ (xs : List IRNode) (k nid : Nat) (nps : List NodeP),
    Serde.serNodes [tableNames tbl] ver xs = .ok nps →
    xs.all (fun n => n.inputs.all (refOK tbl.length) && n.outputs.all (outOK tbl.length)) = true →
    (∀ j, k ≤ j → j < k + numNoneNodes xs → cellAt st j = blankCell) →
    Scope.serNodes st.vals st.tdata gouts ((absNodes k nid xs).map (Scope.NodeT.setGraph 0))
      = .ok (nps.map absN, (nodeOutVIs tbl outIs (xs.flatMap IRNode.outputs)).map absVI, [])
  | [], _, _, nps, h, _, _ => by
    simp only [Serde.serNodes, Except.ok.injEq] at h
    subst h
    rfl
  | x :: xs, k, nid, nps, h, hx, hb => by
    simp only [Serde.serNodes, bind, Except.bind] at h
    split at h
    · cases h
    · rename_i np hnp
      split at h
      · cases h
      · rename_i nps' hnps
        cases h
        simp only [List.all_cons, Bool.and_eq_true] at hx
        have a := serNode_sees st tbl gouts outIs ver hs hok hg x k nid np hnp
          (by simpa [Bool.and_eq_true] using hx.1)
          (fun j h1 h2 => hb j h1 (by simp [numNoneNodes]; omega))
        have b := serNodes_sees st tbl gouts outIs ver hs hok hg xs (k + numNone x.outputs) (nid + 1) nps' hnps
          hx.2 (fun j h1 h2 => hb j (by omega) (by simp [numNoneNodes]; omega))
        simp only [absNodes, List.map_cons, Scope.serNodes, a, b, List.flatMap_cons, nodeOutVIs_append,
          List.map_append, List.append_nil]

/-- `absG` of what C02 serializes from an IR graph is what the Scope model serializes from every world whose
    core is `absIR` of that graph -/
theorem bridge_serialize (g : IRGraph) (ver : Option Int) (q : GraphP) (w : Scope.World)
    (hok : GOK g = true) (hq : Serde.serGraph [] ver g = .ok q) (hw : coreOf w = absIR g) :
    ∃ ws, Scope.serGraph w.st.vals w.st.tdata w.root = .ok (absG q, ws) := by
  have hsees := sees_of_core hw
  have hroot : w.root = (absIR g).root := congrArg Core.root hw
  cases g with
  | mk tbl inputs inits nodes outputs name doc opsets mprops =>
  simp only [GOK, IRGraph.table, IRGraph.inputs, IRGraph.initializers, IRGraph.nodes, IRGraph.outputs,
    Bool.and_eq_true] at hok
  obtain ⟨⟨⟨⟨hv, hin⟩, hinit⟩, hnodes⟩, hout⟩ := hok
  have hv' : ∀ v ∈ tbl, (valOK v && tensOK v) = true := List.all_eq_true.1 hv
  have hin' : ∀ i ∈ inputs, i < tbl.length := fun i hi => of_decide_eq_true (List.all_eq_true.1 hin i hi)
  have hinit' : ∀ i ∈ inits, i < tbl.length := fun i hi => of_decide_eq_true (List.all_eq_true.1 hinit i hi)
  have hs := hsees.tblv
  simp only [IRGraph.table] at hs
  have hvo : ∀ i, i < tbl.length → valOK (tbl.getD i (IRValue.blank "")) = true := by
    intro i hi
    have := hv' (tbl.getD i (IRValue.blank "")) (by simp [List.getD, List.getElem?_eq_getElem hi])
    simp only [Bool.and_eq_true] at this
    exact this.1
  simp only [Serde.serGraph, bind, Except.bind] at hq
  split at hq
  · cases hq
  · rename_i ns hns
    cases hq
    rw [hroot]
    simp only [absIR, IRGraph.table, IRGraph.inputs, IRGraph.initializers, IRGraph.nodes, IRGraph.outputs,
      Scope.serGraph]
    rw [serValues_tbl w.st tbl hs inputs hin']
    have hinNames : inputs.map (fun v => (w.st.vals v).name)
        = (inputs.map fun i => (tbl.getD i (IRValue.blank "")).name).map some := by
      rw [List.map_map]
      apply List.map_congr_left
      intro i hi
      exact (cell_fields (hs i (hin' i hi))).1
    rw [hinNames]
    obtain ⟨ws1, hi1⟩ := serInits_sees w.st tbl (inputs.map fun i => (tbl.getD i (IRValue.blank "")).name) hs hv'
      inits hinit'
    rw [hi1]
    have hg : ∀ j, j < tbl.length →
        (absGOuts (tbl.length + numNoneNodes nodes) outputs).contains j = (outIdxs outputs).contains j :=
      fun j hj => gouts_contains tbl.length outputs _ j (by omega)
    have hn := serNodes_sees w.st tbl (absGOuts (tbl.length + numNoneNodes nodes) outputs) (outIdxs outputs) ver
      hs hv' hg nodes tbl.length 0 ns hns hnodes (by
        intro j h1 h2
        exact hsees.blank j h1 h2)
    simp only [hn]
    rw [serValues_gouts w.st tbl hs outputs _ hout (by
      intro j hj
      exact hsees.dang j hj)]
    refine ⟨ws1 ++ [], ?_⟩
    simp only [absG, GraphP.inputs, GraphP.initializers, GraphP.valueInfo, GraphP.nodes, GraphP.outputs,
      List.map_map, List.map_append]
    congr 3
    · apply List.map_congr_left
      intro i hi
      exact (absVI_serValue (hvo i (hin' i hi))).symm
    · apply List.map_congr_left
      intro o ho
      have := List.all_eq_true.1 hout o ho
      cases o with
      | tbl i =>
        simp only [goutOK, decide_eq_true_eq] at this
        exact (absVI_serValue (hvo i this)).symm
      | dangling v =>
        simp only [goutOK] at this
        exact (absVI_serValue this).symm

end IrVerif.Bridge

namespace IrVerif.Scope
open IrVerif.Proto

/-- **C02 bridge, deserialization** (graphs whose nodes have no GRAPH / GRAPHS attribute): on the shared fragment
    both models deserialize, and C02's IR, abstracted to the Scope world, IS the world the Scope model
    deserializes from the abstracted proto: same creation indices, names, type / shape / doc tokens, tensors,
    tree.  Missing case: nested graphs, functions, models. -/
theorem C03_bridge_deserialize_partial (p : Proto.GraphP) (h : Bridge.shared p = true) :
    ∃ g w, Serde.desGraph [] p = .ok g ∧ deserialize (Bridge.absG p) = .ok w ∧
      Bridge.coreOf w = Bridge.absIR g := by
  simp only [Bridge.shared, Bool.and_eq_true] at h
  cases p with
  | mk name doc nodes inits inputs outputs vis quant metadata =>
    exact Bridge.bridge_deserialize name doc nodes inits inputs outputs vis quant metadata h.1 h.2

/-- **C02 bridge, serialization**: for every C02 IR graph satisfying the decidable `GOK` and every Scope world
    whose core is its abstraction, whenever C02's serializer returns `q` the Scope serializer returns `absG q`. -/
theorem C03_bridge_serialize_partial (g : Serde.IRGraph) (ver : Option Int) (q : Proto.GraphP) (w : World)
    (hok : Bridge.GOK g = true) (hq : Serde.serGraph [] ver g = .ok q) (hw : Bridge.coreOf w = Bridge.absIR g) :
    ∃ w', serialize w = .ok (w', Bridge.absG q) := by
  obtain ⟨ws, h⟩ := Bridge.bridge_serialize g ver q w hok hq hw
  exact ⟨⟨w.st.writes ws, w.root⟩, by simp [serialize, h]⟩

/-- the two models compute the same proto -> proto function on the fragment: what C02 proves about
    `serGraph (desGraph p)` (`C02_graph`: it is `normGraph p`) holds, through `absG`, of the Scope model's
    `serialize (deserialize (absG p))`, which is what `C03_roundtrip` / `C17_idempotent` speak about. -/
theorem C03_bridge_roundtrip_partial (p : Proto.GraphP) (h : Bridge.shared p = true) :
    ∃ g w, Serde.desGraph [] p = .ok g ∧ deserialize (Bridge.absG p) = .ok w ∧
      (Bridge.GOK g = true → ∀ ver q, Serde.serGraph [] ver g = .ok q →
        ∃ w', serialize w = .ok (w', Bridge.absG q)) := by
  obtain ⟨g, w, h1, h2, h3⟩ := C03_bridge_deserialize_partial p h
  exact ⟨g, w, h1, h2, fun hok ver q hq => C03_bridge_serialize_partial g ver q w hok hq h3⟩

end IrVerif.Scope

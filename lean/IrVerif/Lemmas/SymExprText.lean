/-
C16: text level.  `parse_symbolic_expression` on the rendered printer output; the `isidentifier`
fast path agrees with the general path.
-/
import IrVerif.Lemmas.SymExprPrint
import IrVerif.Lemmas.SymExprToken
namespace IrVerif.SymExpr

/-- a symbol name the tokenizer reads as one IDENT token -/
def IdentStr (s : String) : Prop := WfTok (.ident s)

theorem parseTokens_ident (s : String) : parseTokens [.ident s] = some (.sym s) :=
  parseTokens_complete (.expr (.term (.upow (.prim (.ident s))) .ttNil) .etNil)

theorem isIdentifier_wf {cs : List Char} (h : isIdentifier cs = true) : WfTok (.ident (String.ofList cs)) := by
  rcases cs with _ | ⟨c, rest⟩
  · simp [isIdentifier] at h
  · simp only [isIdentifier, Bool.and_eq_true, List.all_eq_true] at h
    refine ⟨c, rest, by simp, h.1, ?_⟩
    intro d hd
    have := h.2 d hd
    simp only [identCont, Bool.or_eq_true] at this ⊢
    rcases this with h1 | h1
    · exact Or.inl (Or.inl h1)
    · exact Or.inl (Or.inr h1)

/-- the `isidentifier` fast path returns what the tokenizer and parser would return -/
theorem fastpath_agrees {cs : List Char} (h : isIdentifier cs = true) :
    (tokenize cs).bind parseTokens = some (.sym (String.ofList cs)) := by
  have hw := isIdentifier_wf h
  have ht := tokenize_render [.ident (String.ofList cs)] (by simpa using hw)
  simp only [render, tokChars, String.toList_ofList] at ht
  rw [ht]
  exact parseTokens_ident _

theorem parseChars_eq (cs : List Char) : parseChars cs = (tokenize cs).bind parseTokens := by
  unfold parseChars
  by_cases h : isIdentifier cs = true
  · simp only [h, if_true]
    exact (fastpath_agrees h).symm
  · simp only [h]
    cases tokenize cs <;> rfl

/-! ### the printer only emits well-formed tokens -/

theorem wf_name_max : IdentStr "max" := ⟨'m', ['a', 'x'], by decide, by decide, by decide⟩
theorem wf_name_min : IdentStr "min" := ⟨'m', ['i', 'n'], by decide, by decide, by decide⟩
theorem wf_name_floor : IdentStr "floor" := ⟨'f', ['l', 'o', 'o', 'r'], by decide, by decide, by decide⟩
theorem wf_name_ceiling : IdentStr "ceiling" :=
  ⟨'c', ['e', 'i', 'l', 'i', 'n', 'g'], by decide, by decide, by decide⟩
theorem wf_name_abs : IdentStr "Abs" := ⟨'A', ['b', 's'], by decide, by decide, by decide⟩
theorem wf_name_sign : IdentStr "sign" := ⟨'s', ['i', 'g', 'n'], by decide, by decide, by decide⟩
theorem wf_name_sqrt : IdentStr "sqrt" := ⟨'s', ['q', 'r', 't'], by decide, by decide, by decide⟩

def AllWf (ts : List Tok) : Prop := ∀ t ∈ ts, WfTok t

theorem AllWf.append {a b : List Tok} (ha : AllWf a) (hb : AllWf b) : AllWf (a ++ b) := by
  intro t ht
  rcases List.mem_append.mp ht with h | h
  · exact ha t h
  · exact hb t h

theorem AllWf.cons {t : Tok} {a : List Tok} (ht : WfTok t) (ha : AllWf a) : AllWf (t :: a) := by
  intro x hx
  rcases List.mem_cons.mp hx with rfl | h
  · exact ht
  · exact ha x h

theorem AllWf.nil : AllWf [] := by intro t ht; cases ht

theorem AllWf.paren {a : List Tok} (ha : AllWf a) : AllWf (paren a) :=
  AllWf.cons trivial (ha.append (AllWf.cons trivial AllWf.nil))

theorem AllWf.wrap {a : List Tok} (k : Nat) (e : Expr) (ha : AllWf a) : AllWf (wrap k e a) := by
  unfold SymExpr.wrap
  split
  · exact ha
  · exact ha.paren

theorem AllWf.call {name : String} {a : List Tok} (hn : IdentStr name) (ha : AllWf a) :
    AllWf (call name a) :=
  AllWf.cons hn (AllWf.cons trivial (ha.append (AllWf.cons trivial AllWf.nil)))

theorem pp_wf (e : Expr) (h : ∀ s ∈ free e, IdentStr s) : AllWf (pp e) := by
  induction e with
  | num n =>
    simp only [pp]
    split
    · exact AllWf.cons trivial (AllWf.cons trivial AllWf.nil)
    · exact AllWf.cons trivial AllWf.nil
  | sym s => exact AllWf.cons (h s (by simp [free])) AllWf.nil
  | inf b =>
    cases b
    · exact AllWf.call wf_name_min AllWf.nil
    · exact AllWf.call wf_name_max AllWf.nil
  | un o a ih =>
    have iha := ih (by simpa [free] using h)
    cases o with
    | neg => exact AllWf.cons trivial (iha.wrap 2 a)
    | floor => exact AllWf.call wf_name_floor iha
    | ceil => exact AllWf.call wf_name_ceiling iha
    | abs => exact AllWf.call wf_name_abs iha
    | sign => exact AllWf.call wf_name_sign iha
    | sqrt => exact AllWf.call wf_name_sqrt iha
    | trunc =>
      exact (AllWf.call wf_name_sign iha).append
        (AllWf.cons trivial (AllWf.call wf_name_floor (AllWf.call wf_name_abs iha)))
  | bin o a b iha ihb =>
    have ha := iha (fun s hs => h s (by simp [free, hs]))
    have hb := ihb (fun s hs => h s (by simp [free, hs]))
    cases o with
    | add => exact (ha.wrap 0 a).append (AllWf.cons trivial (hb.wrap 1 b))
    | sub => exact (ha.wrap 0 a).append (AllWf.cons trivial (hb.wrap 1 b))
    | mul => exact (ha.wrap 1 a).append (AllWf.cons trivial (hb.wrap 2 b))
    | div => exact (ha.wrap 1 a).append (AllWf.cons trivial (hb.wrap 2 b))
    | fdiv => exact (ha.wrap 1 a).append (AllWf.cons trivial (hb.wrap 2 b))
    | mod => exact (ha.wrap 1 a).append (AllWf.cons trivial (hb.wrap 2 b))
    | pow => exact (ha.wrap 4 a).append (AllWf.cons trivial (hb.wrap 2 b))
    | max => exact AllWf.call wf_name_max (ha.append (AllWf.cons trivial hb))
    | min => exact AllWf.call wf_name_min (ha.append (AllWf.cons trivial hb))

/-- `parse_symbolic_expression` on the printed text of `e` returns `norm e` -/
theorem parseChars_render_pp (e : Expr) (h : ∀ s ∈ free e, IdentStr s) :
    parseChars (render (pp e)) = some (norm e) := by
  rw [parseChars_eq, tokenize_render (pp e) (pp_wf e h)]
  exact parseTokens_pp e

end IrVerif.SymExpr

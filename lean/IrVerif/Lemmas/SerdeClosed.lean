import IrVerif.Lemmas.SerdeMutual
/-! C02: the closed form of `deserialize` on a graph (the first half of `graph_core`, which does not
need "no value_info names an output"), the table names of a deserialized well-formed graph, and the
reserved names of `serialize_model_into` (D320). -/
namespace IrVerif.Serde
open IrVerif.Proto


structure GraphWF0 (inits : List TensorP) (inputs outputs vis : List ValueInfoP) (outs : List String) :
    Prop where
  nodupNames : (scopeNames (inputs.map (·.name)) (inits.map (·.name)) outs).Nodup
  nonempty : ∀ n ∈ scopeNames (inputs.map (·.name)) (inits.map (·.name)) outs, n ≠ ""
  nodupInit : (inits.map (·.name)).Nodup
  wfIn : inputs.all wfVI = true
  wfOut : outputs.all wfVI = true
  wfVis : vis.all wfVI = true
  wfInit : inits.all (fun t => wfTensor t && validDType t.dataType) = true

theorem GraphWF.to0 {inits : List TensorP} {inputs outputs vis : List ValueInfoP} {quant : List AnnotP}
    {outs : List String} (hw : GraphWF inits inputs outputs vis quant outs) :
    GraphWF0 inits inputs outputs vis outs :=
  ⟨hw.nodupNames, hw.nonempty, hw.nodupInit, hw.wfIn, hw.wfOut, hw.wfVis, hw.wfInit⟩

/-- the table the deserialized graph holds, in general (E4: output entries may repeat a name) -/
def tblFinalAll (inits : List TensorP) (inputs outputs vis : List ValueInfoP) (quant : List AnnotP)
    (outs : List String) : List IRValue :=
  (tblPre inits inputs vis quant outs).map (outUpdAll outputs)

theorem tblFinalAll_of_cons {inits : List TensorP} {inputs outputs vis : List ValueInfoP} {quant : List AnnotP}
    {outs : List String} (hc : ConsOut outputs) :
    tblFinalAll inits inputs outputs vis quant outs = tblFinal inits inputs outputs vis quant outs := by
  unfold tblFinalAll tblFinal
  apply List.map_congr_left
  intro v _
  exact outUpdAll_of_cons hc v

theorem graph_des_closedAll (outer : Scopes) (name doc : String) (nodes : List NodeP)
    (inits : List TensorP) (inputs outputs vis : List ValueInfoP) (quant : List AnnotP)
    (metadata : List Entry)
    (hw : GraphWF0 inits inputs outputs vis (nodeOutNames nodes)) (xs : List IRNode)
    (hD1 : desNodes outer vis quant nodes (tblPre inits inputs vis quant (nodeOutNames nodes))
      = .ok (xs, tblPre inits inputs vis quant (nodeOutNames nodes))) :
    ∃ idxs, desGraph outer (.mk name doc nodes inits inputs outputs vis quant metadata) =
        .ok (IRGraph.mk (tblFinalAll inits inputs outputs vis quant (nodeOutNames nodes))
          (List.range inputs.length) (dedupNat idxs) xs
          (outputs.map (gOutT (scopeNames (inputs.map (·.name)) (inits.map (·.name)) (nodeOutNames nodes))))
          name doc [] (dictOfEntries metadata)) ∧
      idxs.map some = inits.map (fun p => lookupLast
        (inputs.map (·.name) ++ (inits.map (·.name)).filter (fun n => !(inputs.map (·.name)).contains n))
        p.name) := by
  have hNpre := tableNames_tblPre (inits := inits) (inputs := inputs) (vis := vis) (quant := quant)
    (outs := nodeOutNames nodes)
  have hnd := hw.nodupNames
  simp only [scopeNames] at hnd
  rw [List.nodup_append] at hnd
  obtain ⟨hndAB, hndC, hdisC⟩ := hnd
  rw [List.nodup_append] at hndAB
  obtain ⟨hndA, _hndB, _hdisB⟩ := hndAB
  have hA := desGraphInputs_eq quant inputs hw.wfIn
  have hwfT : inits.all wfTensor = true := by
    rw [List.all_eq_true]
    intro p hp
    have := List.all_eq_true.1 hw.wfInit p hp
    simp only [Bool.and_eq_true] at this
    exact this.1
  have hT := desTensors_eq inits hwfT
  have hne : ∀ p ∈ inits, p.name ≠ "" := by
    intro p hp
    apply hw.nonempty
    by_cases hin : p.name ∈ inputs.map (·.name)
    · exact mem_scopeNames.2 (Or.inl hin)
    · exact mem_scopeNames.2 (Or.inr (Or.inl ⟨List.mem_map_of_mem hp, hin⟩))
  obtain ⟨idxs, hB, hidx⟩ := desInitializers_spec vis quant hw.wfVis inits (inputs.map (inputValT quant))
    hw.wfInit hne hw.nodupInit (by rw [tableNames_inputVals]; exact hndA)
  rw [tableNames_inputVals] at hB hidx
  have hNB : tableNames ((inputs.map (inputValT quant)).map (constFrom inits)
      ++ (newInits (inputs.map (·.name)) inits).map (initValT vis quant))
      = inputs.map (·.name) ++ (inits.map (·.name)).filter (fun n => !(inputs.map (·.name)).contains n) := by
    simp only [tableNames, List.map_append, List.map_map]
    congr 1
    · apply List.map_congr_left; intro vi _; simp
    · rw [← newInits_names]
      apply List.map_congr_left; intro p _; simp
  have hC := declareAll_spec vis quant hw.wfVis nodes
    ((inputs.map (inputValT quant)).map (constFrom inits)
      ++ (newInits (inputs.map (·.name)) inits).map (initValT vis quant))
    (by intro n hn hm; rw [hNB] at hm; exact hdisC n hm n hn rfl) hndC
  have hE := desGraphOutputs_specAll outputs (tblPre inits inputs vis quant (nodeOutNames nodes))
    hw.wfOut (by rw [hNpre]; exact hw.nodupNames)
  rw [hNpre] at hE
  refine ⟨idxs, ?_, by rw [hidx, hNB]⟩
  simp only [desGraph, hA, hT, hB, hC, bind, Except.bind]
  have : (inputs.map (inputValT quant)).map (constFrom inits)
      ++ (newInits (inputs.map (·.name)) inits).map (initValT vis quant)
      ++ (nodeOutNames nodes).map (newValueT vis quant)
      = tblPre inits inputs vis quant (nodeOutNames nodes) := rfl
  simp only [this, hD1, hE]
  rfl

theorem graph_des_closed (outer : Scopes) (name doc : String) (nodes : List NodeP)
    (inits : List TensorP) (inputs outputs vis : List ValueInfoP) (quant : List AnnotP)
    (metadata : List Entry)
    (hw : GraphWF0 inits inputs outputs vis (nodeOutNames nodes)) (hc : ConsOut outputs) (xs : List IRNode)
    (hD1 : desNodes outer vis quant nodes (tblPre inits inputs vis quant (nodeOutNames nodes))
      = .ok (xs, tblPre inits inputs vis quant (nodeOutNames nodes))) :
    ∃ idxs, desGraph outer (.mk name doc nodes inits inputs outputs vis quant metadata) =
        .ok (IRGraph.mk (tblFinal inits inputs outputs vis quant (nodeOutNames nodes))
          (List.range inputs.length) (dedupNat idxs) xs
          (outputs.map (gOutT (scopeNames (inputs.map (·.name)) (inits.map (·.name)) (nodeOutNames nodes))))
          name doc [] (dictOfEntries metadata)) ∧
      idxs.map some = inits.map (fun p => lookupLast
        (inputs.map (·.name) ++ (inits.map (·.name)).filter (fun n => !(inputs.map (·.name)).contains n))
        p.name) := by
  rw [← tblFinalAll_of_cons hc]
  exact graph_des_closedAll outer name doc nodes inits inputs outputs vis quant metadata hw xs hD1


/-- the table of a deserialized well-formed graph holds exactly the names of its scope -/
theorem desGraph_table_names (outer : Scopes) : ∀ (g : GraphP) (x : IRGraph), wfGraph outer g = true →
    desGraph outer g = .ok x →
    tableNames x.table = scopeNames (g.inputs.map (·.name)) (g.initializers.map (·.name))
      (nodeOutNames g.nodes)
  | .mk name doc nodes inits inputs outputs vis quant md, x, h, hd => by
    obtain ⟨hw, hwn⟩ := graphWF_of_wf outer name doc nodes inits inputs outputs vis quant md h
    obtain ⟨xs, n1, _, _⟩ := nodes_rt outer vis quant none nodes
      (tblPre inits inputs vis quant (nodeOutNames nodes)) (by rw [tableNames_tblPre]; exact hwn) (Or.inl rfl)
    obtain ⟨idxs, c1, _⟩ := graph_des_closed outer name doc nodes inits inputs outputs vis quant md hw.to0 hw.consOut xs n1
    rw [c1] at hd
    simp only [Except.ok.injEq] at hd
    rw [← hd]
    exact tableNames_tblFinal

theorem getD_name_mem_or_empty (names : List String) (i : Nat) : names.getD i "" = "" ∨ names.getD i "" ∈ names := by
  by_cases h : i < names.length
  · right
    simp [List.getD, List.getElem?_eq_getElem h]
  · left
    have hn : names[i]? = none := List.getElem?_eq_none (by omega)
    simp [List.getD, hn]

theorem refName_mem (names : List String) (r : Ref) : refName [names] r = "" ∨ refName [names] r ∈ names := by
  unfold refName
  cases hu : r.up with
  | zero => simpa using getD_name_mem_or_empty names r.idx
  | succ k => left; simp [List.getD]

/-- every reserved name is the name of a value of the main graph's table -/
theorem reservedNames_subset : ∀ (g : IRGraph), ∀ r ∈ reservedNames g, r ∈ tableNames g.table
  | .mk tbl ins inits nodes outs name doc ops mp, r, hr => by
    simp only [reservedNames, List.mem_append, List.mem_filter, List.mem_flatMap, List.mem_filterMap,
      List.mem_map, decide_eq_true_eq] at hr
    simp only [IRGraph.table]
    rcases hr with ⟨⟨n, _, hn⟩, hne⟩ | ⟨⟨i, _, hi⟩, hne⟩
    · rcases hn with ⟨a, _, ha⟩ | ⟨a, _, ha⟩
      · cases a with
        | none => simp at ha
        | some rf =>
          simp only [Option.map_some, Option.some.injEq] at ha
          rcases refName_mem (tableNames tbl) rf with h0 | hm
          · exact absurd (ha ▸ h0) hne
          · exact ha ▸ hm
      · cases a with
        | none => simp at ha
        | some j =>
          simp only [Option.map_some, Option.some.injEq] at ha
          rcases refName_mem (tableNames tbl) ⟨0, j⟩ with h0 | hm
          · exact absurd (ha ▸ h0) hne
          · exact ha ▸ hm
    · have : (tbl.getD i (IRValue.blank "")).name = (tableNames tbl).getD i "" := by
        simp only [tableNames, List.getD, List.getElem?_map]
        cases tbl[i]? <;> rfl
      rw [this] at hi
      rcases getD_name_mem_or_empty (tableNames tbl) i with h0 | hm
      · exact absurd (hi ▸ h0) hne
      · exact hi ▸ hm

/-- when no reserved name has the experimental form, the reserved-name check never fires -/
theorem serExperimentalR_eq (R : List String) (hR : ∀ r ∈ R, parseExperimentalName r = none)
    (f : IRFunction) : serExperimentalR R f = serExperimental f := by
  have hE : ∀ v : IRValue, expEmitR R f.domain f.name v = expEmit f.domain f.name v := by
    intro v
    unfold expEmitR
    split
    · rename_i hc
      have hp := hR _ (by simpa using hc)
      unfold expEmit
      split
      · rfl
      · split
        · simp [hp]
        · rfl
    · rfl
  unfold serExperimentalR serExperimental
  split
  · rfl
  · simp only [hE]

end IrVerif.Serde

/-
C10 helper lemmas: the kernel walk on chains of real directories, `os.lstat` on the strings
`_joinrealpath` builds, fuel monotonicity.
-/
import IrVerif.Lemmas.PathStr
namespace IrVerif.Path

/-- names are entry names and every proper prefix of `l` is a directory -/
def Chain (fs : FS) (l : Loc) : Prop :=
  (∀ c ∈ l, Clean c) ∧ ∀ pre, pre <+: l → pre ≠ l → fs.get pre = some Node.dir

/-- a chain of real directories (no symbolic link on the way) ending in a directory -/
def RealDir (fs : FS) (l : Loc) : Prop := Chain fs l ∧ fs.get l = some Node.dir

theorem pjoin_ne_nil (a b : Str) (hb : b ≠ []) : pjoin a b ≠ [] := by
  unfold pjoin
  split
  · exact hb
  · split <;> simp [hb]

theorem FS.get_root (fs : FS) : fs.get [] = some Node.dir := by simp [FS.get]

theorem RealDir.root (fs : FS) : RealDir fs [] := by
  refine ⟨⟨by simp, ?_⟩, fs.get_root⟩
  intro pre hp hne
  exact absurd (List.prefix_nil.mp hp) hne

theorem RealDir.get_prefix {fs : FS} {l pre : Loc} (h : RealDir fs l) (hp : pre <+: l) :
    fs.get pre = some Node.dir := by
  by_cases e : pre = l
  · subst e; exact h.2
  · exact h.1.2 pre hp e

theorem RealDir.prefix {fs : FS} {l pre : Loc} (h : RealDir fs l) (hp : pre <+: l) :
    RealDir fs pre := by
  refine ⟨⟨fun c hc => h.1.1 c (hp.subset hc), ?_⟩, h.get_prefix hp⟩
  intro q hq _
  exact h.get_prefix (hq.trans hp)

theorem RealDir.dropLast {fs : FS} {l : Loc} (h : RealDir fs l) : RealDir fs l.dropLast :=
  h.prefix (List.dropLast_prefix l)

theorem RealDir.up {fs : FS} {l : Loc} (h : RealDir fs l) (k : Nat) : RealDir fs (up k l) :=
  h.prefix (List.take_prefix _ l)

theorem Chain.snoc {fs : FS} {l : Loc} (h : RealDir fs l) {c : Str} (hc : Clean c) :
    Chain fs (l ++ [c]) := by
  refine ⟨?_, ?_⟩
  · intro x hx
    simp only [List.mem_append, List.mem_singleton] at hx
    rcases hx with hx | rfl
    · exact h.1.1 x hx
    · exact hc
  · intro pre hp hne
    rcases List.prefix_concat_iff.mp hp with e | hp'
    · exact absurd e hne
    · exact h.get_prefix hp'

theorem Chain.realDir_dropLast {fs : FS} {l : Loc} (h : Chain fs l) : RealDir fs l.dropLast := by
  rcases eq_nil_or_snoc l with rfl | ⟨l', x, rfl⟩
  · simpa using RealDir.root fs
  · simp only [List.dropLast_concat]
    have hp : l' <+: l' ++ [x] := List.prefix_append _ _
    have hne : l' ≠ l' ++ [x] := by
      intro e
      have := congrArg List.length e
      simp at this
    refine ⟨⟨fun c hc => h.1 c (by simp [hc]), ?_⟩, h.2 l' hp hne⟩
    intro q hq hqne
    refine h.2 q (hq.trans hp) ?_
    intro e
    subst e
    have := hq.length_le
    simp at this
    omega

/-! ### the walk -/

theorem walk_nil (fs : FS) (f : Nat) (cur : Loc) (fl : Bool) : walk fs f cur [] fl = some cur := by
  rw [walk]

theorem not_special_of_clean {c : Str} (h : Clean c) : ¬ (c = [] ∨ c = DOT) ∧ c ≠ DOTDOT :=
  ⟨by rintro (e | e); exact h.1 e; exact h.2.1 e, h.2.2.1⟩

/-- a step into a real (non-link) entry -/
theorem walk_step_plain (fs : FS) (f : Nat) (cur : Loc) (c : Str) (rest : List Str) (fl : Bool)
    (hd : fs.get cur = some Node.dir) (h1 : ¬ (c = [] ∨ c = DOT)) (h2 : c ≠ DOTDOT) (n : Node)
    (hn : fs.get (cur ++ [c]) = some n) (hnl : ∀ t, n ≠ Node.link t) :
    walk fs f cur (c :: rest) fl = walk fs f (cur ++ [c]) rest fl := by
  cases n with
  | link t => exact absurd rfl (hnl t)
  | dir => rw [walk]; simp only [hd, h1, h2, if_false, hn]
  | file i => rw [walk]; simp only [hd, h1, h2, if_false, hn]
  | other i => rw [walk]; simp only [hd, h1, h2, if_false, hn]

theorem walk_step_none (fs : FS) (f : Nat) (cur : Loc) (c : Str) (rest : List Str) (fl : Bool)
    (hd : fs.get cur = some Node.dir) (h1 : ¬ (c = [] ∨ c = DOT)) (h2 : c ≠ DOTDOT)
    (hn : fs.get (cur ++ [c]) = none) :
    walk fs f cur (c :: rest) fl = none := by
  rw [walk]
  simp only [hd, h1, h2, if_false, hn]

theorem walk_step_skip (fs : FS) (f : Nat) (cur : Loc) (c : Str) (rest : List Str) (fl : Bool)
    (hd : fs.get cur = some Node.dir) (hc : c = [] ∨ c = DOT) :
    walk fs f cur (c :: rest) fl = walk fs f cur rest fl := by
  rw [walk]
  simp only [hd, hc, if_true]

theorem walk_step_up (fs : FS) (f : Nat) (cur : Loc) (rest : List Str) (fl : Bool)
    (hd : fs.get cur = some Node.dir) :
    walk fs f cur (DOTDOT :: rest) fl = walk fs f cur.dropLast rest fl := by
  rw [walk]
  have h1 : ¬ (DOTDOT = ([] : Str) ∨ DOTDOT = DOT) := by decide
  simp only [hd, h1, if_false, if_true]

theorem walk_not_dir (fs : FS) (f : Nat) (cur : Loc) (c : Str) (rest : List Str) (fl : Bool)
    (hd : fs.get cur ≠ some Node.dir) : walk fs f cur (c :: rest) fl = none := by
  rw [walk]
  split
  · rename_i h; exact absurd h hd
  · rfl

/-- walking names along a chain of real directories just descends -/
theorem walk_real_prefix (fs : FS) (f : Nat) (suf : List Str) :
    ∀ (pre : Loc) (rest : List Str) (fl : Bool), RealDir fs (pre ++ suf) →
      walk fs f pre (suf ++ rest) fl = walk fs f (pre ++ suf) rest fl := by
  induction suf with
  | nil => intro pre rest fl _; simp
  | cons c suf ih =>
    intro pre rest fl h
    have hpre : fs.get pre = some Node.dir := h.get_prefix (List.prefix_append _ _)
    have hc : Clean c := h.1.1 c (by simp)
    have hpc : fs.get (pre ++ [c]) = some Node.dir :=
      h.get_prefix (by
        have : pre ++ c :: suf = (pre ++ [c]) ++ suf := by simp
        rw [this]; exact List.prefix_append _ _)
    rw [List.cons_append, walk_step_plain fs f pre c _ fl hpre (not_special_of_clean hc).1 (not_special_of_clean hc).2 Node.dir hpc (by intro t; simp)]
    have := ih (pre ++ [c]) rest fl (by simpa using h)
    simpa using this

theorem walk_ups (fs : FS) (f : Nat) (cwd : Loc) (h : RealDir fs cwd) (rest : List Str) (fl : Bool)
    (k : Nat) : ∀ j, walk fs f (up j cwd) (List.replicate k DOTDOT ++ rest) fl =
      walk fs f (up (j + k) cwd) rest fl := by
  induction k with
  | zero => intro j; simp
  | succ k ih =>
    intro j
    rw [List.replicate_succ, List.cons_append, walk_step_up fs f _ _ fl (h.up j).2, dropLast_up,
      ih (j + 1)]
    congr 2
    omega

theorem walk_last_nofollow (fs : FS) (f : Nat) (cur : Loc) (name : Str)
    (hd : fs.get cur = some Node.dir) (hc : Clean name) :
    walk fs f cur [name] false =
      (match fs.get (cur ++ [name]) with
       | none => none
       | some _ => some (cur ++ [name])) := by
  cases hn : fs.get (cur ++ [name]) with
  | none => rw [walk_step_none fs f cur name [] false hd (not_special_of_clean hc).1 (not_special_of_clean hc).2 hn]
  | some n =>
    cases n with
    | link t =>
      rw [walk]
      have h1 := (not_special_of_clean hc).1
      have h2 := (not_special_of_clean hc).2
      simp only [hd, h1, h2, if_false, hn, and_self, if_true]
    | dir =>
      rw [walk_step_plain fs f cur name [] false hd (not_special_of_clean hc).1 (not_special_of_clean hc).2 Node.dir hn (by intro t; simp), walk_nil]
    | file i =>
      rw [walk_step_plain fs f cur name [] false hd (not_special_of_clean hc).1 (not_special_of_clean hc).2 (Node.file i) hn (by intro t; simp), walk_nil]
    | other i =>
      rw [walk_step_plain fs f cur name [] false hd (not_special_of_clean hc).1 (not_special_of_clean hc).2 (Node.other i) hn (by intro t; simp), walk_nil]

theorem splitSep_render (l : Loc) (hl : ∀ c ∈ l, Clean c) (hne : l ≠ []) :
    splitSep (render l) = [] :: l := by
  have := splitSep_append_sep [] (joinSep l)
  simp only [List.nil_append] at this
  unfold render
  rw [this, splitSep_joinSep l (fun c hc => (hl c hc).2.2.2) hne]
  simp [splitSep]

/-- `os.lstat(join(path, name))` for a `path` naming the real directory `cur` is the entry
`cur/name` itself (posixpath.py:468-476) -/
theorem lstat_rep (fs : FS) (kf : Nat) (cwd : Loc) (hcwd : RealDir fs cwd) {path : Str} {cur : Loc}
    (hr : Rep cwd path cur) (hcur : RealDir fs cur) {name : Str} (hn : Clean name) :
    lstat fs kf cwd (pjoin path name) = fs.get (cur ++ [name]) := by
  have hwalk : kresolve fs kf cwd (pjoin path name) false =
      (match fs.get (cur ++ [name]) with
       | none => none
       | some _ => some (cur ++ [name])) := by
    rcases (hr.push hn).inv with ⟨hl, hs⟩ | ⟨k, names, hnm, hs, hl⟩
    · rw [hs]
      unfold kresolve
      simp only [render_ne_nil, if_false, startLoc, isabs_render, if_true]
      rw [splitSep_render _ hl (by simp), walk_step_skip fs kf [] [] _ false fs.get_root (Or.inl rfl)]
      have := walk_real_prefix fs kf cur [] [name] false (by simpa using hcur)
      simp only [List.nil_append] at this
      rw [this, walk_last_nofollow fs kf cur name hcur.2 hn]
    · -- relative form: the name list ends with `name`
      have hpieces := relPieces k names (fun c hc => (hnm c hc).piece)
      have hne : List.replicate k DOTDOT ++ names ≠ [] := by
        intro e
        have h1 : names = [] := (List.append_eq_nil_iff.mp e).2
        have h2 : k = 0 := by
          cases k with
          | zero => rfl
          | succ k => simp [List.replicate_succ] at e
        subst h1; subst h2
        have : pjoin path name ≠ [] := pjoin_ne_nil _ _ hn.1
        exact this (by rw [hs]; rfl)
      rw [hs]
      unfold kresolve
      have hrne : relStr k names ≠ [] := fun e => hne ((joinSep_eq_nil _ hpieces).mp e)
      have hab : isabs (relStr k names) = false := joinSep_isabs _ hpieces
      simp only [hrne, if_false, startLoc, hab, Bool.false_eq_true]
      unfold relStr
      rw [splitSep_joinSep _ (fun c hc => (hpieces c hc).2) hne]
      -- names = names' ++ [name] with up k cwd ++ names' = cur
      rcases eq_nil_or_snoc names with rfl | ⟨n', x, rfl⟩
      · -- then cur ++ [name] = up k cwd, impossible to be handled here: lengths
        simp only [List.append_nil] at hl
        -- up k cwd = cur ++ [name] : still fine, treat names' via the chain of cwd
        have hu := walk_ups fs kf cwd hcwd [] false k 0
        simp only [List.append_nil, Nat.zero_add, up_zero] at hu
        rw [List.append_nil, hu, walk_nil, ← hl]
        have : fs.get (cur ++ [name]) = some Node.dir := by
          rw [hl]; exact (hcwd.up k).2
        rw [this]
      · have hl' : cur ++ [name] = (up k cwd ++ n') ++ [x] := by rw [hl]; simp
        have hx : name = x := by
          have := congrArg List.getLast? hl'
          simpa using this
        have hc' : cur = up k cwd ++ n' := by
          have := congrArg List.dropLast hl'
          simpa using this
        subst hx
        have hu := walk_ups fs kf cwd hcwd (n' ++ [name]) false k 0
        simp only [Nat.zero_add, up_zero] at hu
        rw [hu]
        have := walk_real_prefix fs kf n' (up k cwd) [name] false (by rw [← hc']; exact hcur)
        rw [this, ← hc', walk_last_nofollow fs kf cur name hcur.2 hn]
  unfold lstat
  rw [hwalk]
  cases h : fs.get (cur ++ [name]) <;> simp [h]

end IrVerif.Path

namespace IrVerif.Path

theorem walk_step_link (fs : FS) (f : Nat) (cur : Loc) (c : Str) (rest : List Str) (t : Str)
    (hd : fs.get cur = some Node.dir) (h1 : ¬ (c = [] ∨ c = DOT)) (h2 : c ≠ DOTDOT)
    (hn : fs.get (cur ++ [c]) = some (Node.link t)) :
    walk fs (f + 1) cur (c :: rest) true = walk fs f (startLoc cur t) (splitSep t ++ rest) true := by
  rw [walk]
  simp only [hd, h1, h2, if_false, hn, Bool.true_eq_false, and_false]

theorem walk_step_link_zero (fs : FS) (cur : Loc) (c : Str) (rest : List Str) (t : Str)
    (hd : fs.get cur = some Node.dir) (h1 : ¬ (c = [] ∨ c = DOT)) (h2 : c ≠ DOTDOT)
    (hn : fs.get (cur ++ [c]) = some (Node.link t)) :
    walk fs 0 cur (c :: rest) true = none := by
  rw [walk]
  simp only [hd, h1, h2, if_false, hn, Bool.true_eq_false, and_false]

/-- what a successful walk (following links) did at its first component; following a link costs one
unit of the link budget and continues with the target's components in front of the remaining ones -/
inductive WalkStep (fs : FS) (f : Nat) (cur : Loc) (c : Str) (rest : List Str) (l : Loc) : Prop
  | skip : (c = [] ∨ c = DOT) → walk fs f cur rest true = some l → WalkStep fs f cur c rest l
  | up : c = DOTDOT → walk fs f cur.dropLast rest true = some l → WalkStep fs f cur c rest l
  | plain (n : Node) : ¬ (c = [] ∨ c = DOT) → c ≠ DOTDOT → fs.get (cur ++ [c]) = some n →
      (∀ t, n ≠ Node.link t) → walk fs f (cur ++ [c]) rest true = some l → WalkStep fs f cur c rest l
  | link (t : Str) (f' : Nat) : ¬ (c = [] ∨ c = DOT) → c ≠ DOTDOT →
      fs.get (cur ++ [c]) = some (Node.link t) → f = f' + 1 →
      walk fs f' (startLoc cur t) (splitSep t ++ rest) true = some l → WalkStep fs f cur c rest l

theorem walk_cons_inv (fs : FS) (f : Nat) (cur : Loc) (c : Str) (rest : List Str) (l : Loc)
    (h : walk fs f cur (c :: rest) true = some l) :
    fs.get cur = some Node.dir ∧ WalkStep fs f cur c rest l := by
  by_cases hd : fs.get cur = some Node.dir
  · refine ⟨hd, ?_⟩
    rw [walk] at h
    simp only [hd] at h
    by_cases h1 : c = [] ∨ c = DOT
    · simp only [h1, if_true] at h
      exact WalkStep.skip h1 h
    · simp only [h1, if_false] at h
      by_cases h2 : c = DOTDOT
      · simp only [h2, if_true] at h
        exact WalkStep.up h2 h
      · simp only [h2, if_false] at h
        cases hn : fs.get (cur ++ [c]) with
        | none => simp [hn] at h
        | some n =>
          cases n with
          | dir =>
            simp only [hn] at h
            exact WalkStep.plain Node.dir h1 h2 hn (by intro t; simp) h
          | file i =>
            simp only [hn] at h
            exact WalkStep.plain (Node.file i) h1 h2 hn (by intro t; simp) h
          | other i =>
            simp only [hn] at h
            exact WalkStep.plain (Node.other i) h1 h2 hn (by intro t; simp) h
          | link t =>
            simp only [hn, Bool.true_eq_false, and_false, if_false] at h
            cases f with
            | zero => simp at h
            | succ f' =>
              simp only at h
              exact WalkStep.link t f' h1 h2 hn rfl h
  · rw [walk_not_dir fs f cur c rest true hd] at h
    exact absurd h (by simp)

/-- a larger link budget does not change a successful walk -/
theorem walk_mono (fs : FS) : ∀ (f : Nat) (comps : List Str) (cur l : Loc) (g : Nat),
    walk fs f cur comps true = some l → f ≤ g → walk fs g cur comps true = some l := by
  intro f
  induction f using Nat.strongRecOn with
  | _ f ihf =>
    intro comps
    induction comps with
    | nil => intro cur l g h _; rw [walk_nil] at h ⊢; exact h
    | cons c rest ih =>
      intro cur l g h hg
      obtain ⟨hd, st⟩ := walk_cons_inv fs f cur c rest l h
      cases st with
      | skip h1 hw => rw [walk_step_skip fs g cur c rest true hd h1]; exact ih _ _ g hw hg
      | up h2 hw => subst h2; rw [walk_step_up fs g cur rest true hd]; exact ih _ _ g hw hg
      | plain n h1 h2 hn hnl hw =>
        rw [walk_step_plain fs g cur c rest true hd h1 h2 n hn hnl]; exact ih _ _ g hw hg
      | link t f' h1 h2 hn hf hw =>
        subst hf
        obtain ⟨g', rfl⟩ : ∃ g', g = g' + 1 := ⟨g - 1, by omega⟩
        rw [walk_step_link fs g' cur c rest t hd h1 h2 hn]
        exact ihf f' (by omega) _ _ _ g' hw (by omega)

/-- the result of a successful walk does not depend on the link budget -/
theorem walk_det (fs : FS) (f g : Nat) (comps : List Str) (cur l1 l2 : Loc)
    (h1 : walk fs f cur comps true = some l1) (h2 : walk fs g cur comps true = some l2) : l1 = l2 := by
  have a := walk_mono fs f comps cur l1 (max f g) h1 (Nat.le_max_left _ _)
  have b := walk_mono fs g comps cur l2 (max f g) h2 (Nat.le_max_right _ _)
  rw [a] at b
  exact Option.some.inj b

/-- a successful walk over `a ++ b` splits: the part over `a` follows `k` links at most and reaches
some `d`, the part over `b` continues from `d` with the links that are left -/
theorem walk_append_inv (fs : FS) : ∀ (f : Nat) (a : List Str) (cur : Loc) (b : List Str) (l : Loc),
    walk fs f cur (a ++ b) true = some l →
    ∃ d k, k ≤ f ∧ walk fs k cur a true = some d ∧ walk fs (f - k) d b true = some l := by
  intro f
  induction f using Nat.strongRecOn with
  | _ f ihf =>
    intro a
    induction a with
    | nil =>
      intro cur b l h
      exact ⟨cur, 0, Nat.zero_le _, walk_nil .., by simpa using h⟩
    | cons c a ih =>
      intro cur b l h
      rw [List.cons_append] at h
      obtain ⟨hd, st⟩ := walk_cons_inv fs f cur c (a ++ b) l h
      cases st with
      | skip h1 hw =>
        obtain ⟨d, k, hk, ha, hb⟩ := ih _ _ _ hw
        exact ⟨d, k, hk, by rw [walk_step_skip fs k cur c a true hd h1]; exact ha, hb⟩
      | up h2 hw =>
        subst h2
        obtain ⟨d, k, hk, ha, hb⟩ := ih _ _ _ hw
        exact ⟨d, k, hk, by rw [walk_step_up fs k cur a true hd]; exact ha, hb⟩
      | plain n h1 h2 hn hnl hw =>
        obtain ⟨d, k, hk, ha, hb⟩ := ih _ _ _ hw
        exact ⟨d, k, hk, by rw [walk_step_plain fs k cur c a true hd h1 h2 n hn hnl]; exact ha, hb⟩
      | link t f' h1 h2 hn hf hw =>
        subst hf
        rw [← List.append_assoc] at hw
        obtain ⟨d, k, hk, ha, hb⟩ := ihf f' (by omega) _ _ _ _ hw
        refine ⟨d, k + 1, by omega, ?_, ?_⟩
        · rw [walk_step_link fs k cur c a t hd h1 h2 hn]; exact ha
        · have : f' + 1 - (k + 1) = f' - k := by omega
          rw [this]; exact hb

/-- the converse: budgets add up -/
theorem walk_append_of (fs : FS) : ∀ (k : Nat) (a : List Str) (cur d : Loc) (j : Nat) (b : List Str) (l : Loc),
    walk fs k cur a true = some d → walk fs j d b true = some l →
    walk fs (k + j) cur (a ++ b) true = some l := by
  intro k
  induction k using Nat.strongRecOn with
  | _ k ihk =>
    intro a
    induction a with
    | nil =>
      intro cur d j b l ha hb
      rw [walk_nil] at ha; cases ha
      exact walk_mono fs j b cur l (k + j) hb (by omega)
    | cons c a ih =>
      intro cur d j b l ha hb
      rw [List.cons_append]
      obtain ⟨hd, st⟩ := walk_cons_inv fs k cur c a d ha
      cases st with
      | skip h1 hw => rw [walk_step_skip fs _ cur c _ true hd h1]; exact ih _ _ _ _ _ hw hb
      | up h2 hw => subst h2; rw [walk_step_up fs _ cur _ true hd]; exact ih _ _ _ _ _ hw hb
      | plain n h1 h2 hn hnl hw =>
        rw [walk_step_plain fs _ cur c _ true hd h1 h2 n hn hnl]; exact ih _ _ _ _ _ hw hb
      | link t k' h1 h2 hn hf hw =>
        subst hf
        have e : k' + 1 + j = (k' + j) + 1 := by omega
        rw [e, walk_step_link fs (k' + j) cur c _ t hd h1 h2 hn, ← List.append_assoc]
        exact ihk k' (by omega) _ _ _ _ _ _ hw hb

/-- with one budget for both parts (a larger budget never hurts) -/
theorem walk_append_some (fs : FS) (f : Nat) (a : List Str) (cur : Loc) (b : List Str) (l : Loc)
    (h : walk fs f cur (a ++ b) true = some l) :
    ∃ d, walk fs f cur a true = some d ∧ walk fs f d b true = some l := by
  obtain ⟨d, k, hk, ha, hb⟩ := walk_append_inv fs f a cur b l h
  exact ⟨d, walk_mono fs k a cur d f ha hk, walk_mono fs (f - k) b d l f hb (by omega)⟩

/-- least fuel for which a walk succeeds -/
theorem exists_min_fuel (P : Nat → Prop) (f : Nat) (h : P f) : ∃ m, P m ∧ m ≤ f ∧ ∀ g, P g → m ≤ g := by
  induction f using Nat.strongRecOn with
  | _ f ih =>
    by_cases hm : ∀ g, P g → f ≤ g
    · exact ⟨f, h, Nat.le_refl _, hm⟩
    · have : ∃ g, P g ∧ g < f := by
        apply Classical.byContradiction
        intro hc
        apply hm
        intro g hg
        apply Classical.byContradiction
        intro hlt
        exact hc ⟨g, hg, by omega⟩
      obtain ⟨g, hg, hlt⟩ := this
      obtain ⟨m, hm1, hm2, hm3⟩ := ih g hlt hg
      exact ⟨m, hm1, by omega, hm3⟩

end IrVerif.Path

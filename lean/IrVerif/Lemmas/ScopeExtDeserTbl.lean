/-
The scope tables of one graph of a (core) deserializer run ARE the tables of the certificate `replG`
(`Lemmas/ScopeRepl.lean`): what `deser_repl_graph` (`Lemmas/ScopeReplDeser.lean`) establishes on its way, exported
phase by phase, together with the membership of the graph's role values in its final table.  Used by
`Lemmas/ScopeExtDeser.lean` to read the certificate of the extension state (`extG`) off an extended run.
-/
import IrVerif.Lemmas.ScopeReplDeser
namespace IrVerif.Scope

/-- some key binds `v` in `T` -/
def InT (T : Table) (v : Nat) : Prop := ∃ k, (k, v) ∈ T

/-- the run of one graph (phases: inputs `ins`, initializers `tbl2` / `iv`, declarations `st3` / `tbl3`, nodes
    `st4` / `tbl4` / `ns`, outputs `st5` / `outs`) against the certificate read with the names of `V` -/
structure GraphTables (V : Nat → ValueS) (outer : List Table) (st : Store) (inputs : List VInfoP) (nodes : List NodeP)
    (ins : List Nat) (tbl2 : Table) (iv : List Nat) (st3 : Store) (tbl3 : Table) (st4 : Store) (tbl4 : Table)
    (ns : List NodeT) (st5 : Store) (outs : List Nat) : Prop where
  t1 : tblIns V ins = inputTable inputs ins
  t2 : (replInits V outs (inputTable inputs ins) (mkGraphInits st5 ins outs iv)).tbl = tbl2
  t3 : (replDecl V tbl2 (ns.flatMap (liveOuts V))).tbl = tbl3
  t4 : (replNs V outer tbl3 ns).tbl = tbl4
  outs_ok : (replOuts V tbl4 outs).ok
  outs_new : Incr st4.nv st5.nv (replOuts V tbl4 outs).new
  live : (ns.flatMap (liveOuts V)).filter (fun v => nameTruthy (V v).name) =
    nodes.flatMap (fun n => declared tbl3 n.outputs)
  named4 : NamedV V tbl4
  ins_in : ∀ v ∈ ins, InT tbl4 v
  inits_in : ∀ e ∈ mkGraphInits st5 ins outs iv, InT tbl4 e.2
  decl_in : ∀ v ∈ nodes.flatMap (fun n => declared tbl3 n.outputs), InT tbl4 v
  f3 : Fresh st3
  ok3 : TblOK st3 st.nv tbl3
  ho3 : TablesLt st3 outer
  le3 : st.nv ≤ st3.nv
  n3 : Named st3 tbl3
  hon3 : ∀ T ∈ outer, Named st3 T
  hdecl : ∀ n ∈ nodes, ∀ y ∈ n.outputs, y ≠ "" → ∃ u, tbl3.lookup y = some u
  hV4 : NamesAgree V st4
  hCN : ∀ v, st3.nv ≤ v → v < st4.nv → v ∉ tbl4.map (·.2) → CellAgree V st4 v

theorem deserGraph_tables (inputs : List VInfoP) (inits : List TensorP) (vinfo : List VInfoP) (nodes : List NodeP)
    (outputs : List VInfoP) (st : Store) (outer : List Table)
    (hf : Fresh st) (ho : TablesLt st outer) (hon : ∀ T ∈ outer, Named st T)
    (st1 : Store) (ins : List Nat) (h1 : deserInputs st inputs = (st1, ins))
    (st2 : Store) (tbl2 : Table) (iv : List Nat)
    (h2 : deserInits st1 (inputTable inputs ins) (vinfoTable vinfo) inits = (st2, tbl2, iv))
    (st3 : Store) (tbl3 : Table) (h3 : declareNodes st2 tbl2 (vinfoTable vinfo) nodes = .ok (st3, tbl3))
    (st4 : Store) (tbl4 : Table) (ns : List NodeT)
    (h4 : deserNodes st3 tbl3 outer (vinfoTable vinfo) nodes = .ok (st4, tbl4, ns))
    (st5 : Store) (outs : List Nat) (h5 : deserOutputs st4 tbl4 outputs = (st5, outs))
    (V : Nat → ValueS) (hV : NamesAgree V (mkGraph st5 ins outs ns iv).1)
    (hC : ∀ v, st.nv ≤ v → v < (mkGraph st5 ins outs ns iv).1.nv → CellAgree V (mkGraph st5 ins outs ns iv).1 v) :
    GraphTables V outer st inputs nodes ins tbl2 iv st3 tbl3 st4 tbl4 ns st5 outs := by
  obtain rfl : st1 = (deserInputs st inputs).1 := by rw [h1]
  obtain rfl : ins = (deserInputs st inputs).2 := by rw [h1]
  obtain rfl : st2 = (deserInits (deserInputs st inputs).1 (inputTable inputs (deserInputs st inputs).2)
    (vinfoTable vinfo) inits).1 := by rw [h2]
  obtain rfl : tbl2 = (deserInits (deserInputs st inputs).1 (inputTable inputs (deserInputs st inputs).2)
    (vinfoTable vinfo) inits).2.1 := by rw [h2]
  obtain rfl : iv = (deserInits (deserInputs st inputs).1 (inputTable inputs (deserInputs st inputs).2)
    (vinfoTable vinfo) inits).2.2 := by rw [h2]
  obtain rfl : st5 = (deserOutputs st4 tbl4 outputs).1 := by rw [h5]
  obtain rfl : outs = (deserOutputs st4 tbl4 outputs).2 := by rw [h5]
  clear h1 h2 h5
  obtain ⟨q1, hnv1, hins⟩ := deserInputs_spec st inputs
  have ok1 := inputTable_ok st inputs
  have f1 := q1.fresh hf
  have n1 := deserInputs_named inputs st
  have hnl := deserInputs_name_list inputs st
  generalize hs1 : (deserInputs st inputs).1 = s1 at *
  generalize hin : (deserInputs st inputs).2 = ins at *
  obtain ⟨q2, ok2, stb2, miv⟩ := deserInits_spec (vinfoTable vinfo) inits s1 (inputTable inputs ins) st.nv ok1 q1.nv_le
  have f2 := q2.fresh f1
  have n2 := deserInits_named (vinfoTable vinfo) inits s1 _ n1 ok1.lt
  obtain ⟨cc1, cc2, cc3⟩ := deserInits_cells (vinfoTable vinfo) inits s1 (inputTable inputs ins) ok1.lt
  generalize hr2 : deserInits s1 (inputTable inputs ins) (vinfoTable vinfo) inits = r2 at *
  have le2 : st.nv ≤ r2.1.nv := Nat.le_trans q1.nv_le q2.nv_le
  obtain ⟨q3, ok3, stb3, m3, _⟩ := declareNodes_spec (vinfoTable vinfo) nodes _ _ st.nv st3 tbl3 ok2 le2 h3
  have f3 := q3.fresh f2
  have n3 := declareNodes_named (vinfoTable vinfo) nodes _ _ st3 tbl3 n2 ok2.lt h3
  have le3 : st.nv ≤ st3.nv := Nat.le_trans le2 q3.nv_le
  obtain ⟨f4, m4, ok4, stb4⟩ := deserNodes_struct nodes st3 tbl3 outer (vinfoTable vinfo) st.nv st4 tbl4 ns f3 ok3
    (ho.mono le3) le3 h4
  obtain ⟨_, n4⟩ := deserNodes_tree nodes st3 tbl3 outer (vinfoTable vinfo) st.nv st4 tbl4 ns f3 ok3
    (ho.mono le3) le3 n3 h4
  have p3 := declareNodes_prim r2.1.nv (vinfoTable vinfo) nodes r2.1 _ st3 _ (Nat.le_refl _) h3
  have p4 := deserNodes_prim2 st3.nv nodes st3 tbl3 outer (vinfoTable vinfo) st.nv st4 tbl4 ns f3 ok3 (ho.mono le3) le3
    (Nat.le_refl _) h4
  obtain ⟨q5, mo⟩ := deserOutputs_spec tbl4 outputs st4 st.nv ok4
  obtain ⟨_, _, o5c⟩ := deserOutputs_names tbl4 outputs st4
  have ofr := deserOutputs_frame tbl4 outputs st4
  have ofr2 := deserOutputs_frame2 tbl4 outputs st4
  generalize hr5 : deserOutputs st4 tbl4 outputs = r5 at *
  have le4 : st.nv ≤ st4.nv := Nat.le_trans le3 m4.nv_le
  obtain ⟨c1, _, _⟩ := mkGraph_fst_counters r5.1 ins r5.2 ns r2.2.2
  have hcell := mkGraph_cell r5.1 ins r5.2 ns r2.2.2
  -- names, seen from `V`, at every stage
  have hV5 : NamesAgree V r5.1 := fun v hv => by rw [hV v (by rw [c1]; exact hv), hcell]
  have hV4 : NamesAgree V st4 := fun v hv => by
    rw [hV5 v (Nat.lt_of_lt_of_le hv q5.nv_le), q5.names v hv]
  have hV3 : NamesAgree V st3 := fun v hv => by
    rw [hV4 v (Nat.lt_of_lt_of_le hv m4.nv_le), m4.names v hv]
  have hV2 : NamesAgree V r2.1 := fun v hv => by
    rw [hV3 v (Nat.lt_of_lt_of_le hv q3.nv_le), q3.names v hv]
  have hV1 : NamesAgree V s1 := fun v hv => by
    rw [hV2 v (Nat.lt_of_lt_of_le hv q2.nv_le), q2.names v hv]
  -- cells, seen from `V`
  have hC5 : ∀ v, st.nv ≤ v → v < r5.1.nv → CellAgree V r5.1 v := fun v h1 h2 => by
    have := hC v h1 (by rw [c1]; exact h2)
    rw [CellAgree, hcell] at this
    exact this
  -- phase 1
  have hinsV : ins.map (fun v => (V v).name) = inputs.map (fun i => some i.name) := by
    rw [← hnl]
    apply List.map_congr_left
    intro v hv
    have hvlt : v < s1.nv := by
      rw [hins, List.mem_range'_1] at hv
      rw [hnv1]; omega
    exact hV1 v hvlt
  have E1 := tblIns_eq_inputTable V inputs ins hinsV
  -- phase 2
  have hinitlt : ∀ v ∈ r2.2.2, st.nv ≤ v ∧ v < r2.1.nv := by
    intro v hv
    obtain ⟨x, _, hx⟩ := miv v hv
    exact ⟨ok2.ge _ hx, ok2.lt _ hx⟩
  have hdict : mkGraphInits r5.1 ins r5.2 r2.2.2 = dictOf V [] r2.2.2 := by
    unfold mkGraphInits
    apply initDict_eq_dictOf
    intro v hv
    have hlt := (hinitlt v hv).2
    have hlt5 : v < r5.1.nv := Nat.lt_of_lt_of_le hlt (Nat.le_trans q3.nv_le (Nat.le_trans m4.nv_le q5.nv_le))
    rw [show ((setOwner (setOwner r5.1 r5.1.ng (fun c => { c with isIn := true }) ins) r5.1.ng
        (fun c => { c with isOut := true }) r5.2).vals v).name = (r5.1.vals v).name from
      (setOwner_name _ _ (fun c => { c with isOut := true }) (fun _ => rfl) _ _).trans
        (setOwner_name _ _ (fun c => { c with isIn := true }) (fun _ => rfl) _ _)]
    exact (hV5 v hlt5).symm
  have hconstV : ∀ v ∈ r2.2.2, (V v).const ≠ none := by
    intro v hv
    obtain ⟨hge, hlt⟩ := hinitlt v hv
    have hlt3 : v < st3.nv := Nat.lt_of_lt_of_le hlt q3.nv_le
    have hlt4 : v < st4.nv := Nat.lt_of_lt_of_le hlt3 m4.nv_le
    rw [(hC5 v hge (Nat.lt_of_lt_of_le hlt4 q5.nv_le)).2, o5c v hlt4, (p4.cell v hlt3).2, (p3.cell v hlt).2]
    exact cc1 v hv
  have hinfoV : ∀ v ∈ r2.2.2, s1.nv ≤ v → v ∉ r5.2 → (V v).info.ty ≠ none ∧ (V v).info.sh ≠ none := by
    intro v hv hge1 hno
    obtain ⟨hge, hlt⟩ := hinitlt v hv
    have hlt3 : v < st3.nv := Nat.lt_of_lt_of_le hlt q3.nv_le
    have hlt4 : v < st4.nv := Nat.lt_of_lt_of_le hlt3 m4.nv_le
    rw [(hC5 v hge (Nat.lt_of_lt_of_le hlt4 q5.nv_le)).1, ofr2 v hlt4 hno, (p4.cell v hlt3).1, (p3.cell v hlt).1]
    exact cc2 v hv hge1
  have RI := repl_deserInits V r5.2 (vinfoTable vinfo) (inputTable inputs ins) inits s1 (inputTable inputs ins) []
    (by simp [replInits]) (by simp [replInits]) (by simp) (fun _ he => by simp at he)
    (NamedV.of_named n1 ok1.lt hV1) ok1.lt (by rw [hr2]; exact hV2) (by rw [hr2]; exact hconstV)
    (by rw [hr2]; exact hinfoV)
  rw [hr2] at RI
  obtain ⟨ri1, _, _, _, _⟩ := RI
  -- phase 3 and the live outputs of the nodes
  have hdeclared : ∀ n ∈ nodes, ∀ y ∈ n.outputs, y ≠ "" → ∃ u, tbl3.lookup y = some u := by
    intro n hn y hy hne
    obtain ⟨_, v, hv, _⟩ := m3 y (by
      simp only [outNames, List.mem_filter, List.mem_flatMap]
      exact ⟨⟨n, hn, hy⟩, by simpa using hne⟩)
    exact ⟨v, hv⟩
  have hCN : ∀ v, st3.nv ≤ v → v < st4.nv → v ∉ tbl4.map (·.2) → CellAgree V st4 v := by
    intro v hge hlt hn
    have := hC5 v (Nat.le_trans le3 hge) (Nat.lt_of_lt_of_le hlt q5.nv_le)
    rw [CellAgree, ofr v hlt hn] at this
    exact this
  have hon3 : ∀ T ∈ outer, Named st3 T := fun T hT => named_mono (hon T hT) (ho T hT) (fun v hv => by
    rw [q3.names v (Nat.lt_of_lt_of_le hv le2), q2.names v (Nat.lt_of_lt_of_le hv q1.nv_le), q1.names v hv])
  obtain ⟨rn1, _, _, rn4⟩ := deser_repl_nodes nodes st3 tbl3 outer (vinfoTable vinfo) st.nv st4 tbl4 ns f3 ok3
    (ho.mono le3) le3 n3 hon3 h4 hdeclared V hV4 hCN
  have RD := repl_declareNodes V (vinfoTable vinfo) tbl3 nodes r2.1 r2.2.1 st3 tbl3 h3 hV3 (fun _ _ h => h)
  obtain ⟨rd1, _, _, _⟩ := RD
  have hlive : (ns.flatMap (liveOuts V)).filter (fun v => nameTruthy (V v).name) =
      nodes.flatMap (fun n => declared tbl3 n.outputs) := by
    rw [List.filter_flatMap]
    exact flatMap_congr_map rn4
  obtain ⟨df1, _, _⟩ := replDecl_filter V (ns.flatMap (liveOuts V)) r2.2.1
  rw [hlive] at df1
  -- phase 5
  have RO := repl_deserOutputs V tbl4 (NamedV.of_named n4 ok4.lt hV4) outputs st4 (by rw [hr5]; exact hV5)
  rw [hr5] at RO
  obtain ⟨ro1, I5⟩ := RO
  refine ⟨E1, by rw [hdict]; exact ri1, df1.trans rd1, rn1, ro1, I5, hlive, NamedV.of_named n4 ok4.lt hV4,
    ?_, ?_, ?_, f3, ok3, ho.mono le3, le3, n3, hon3, hdeclared, hV4, hCN⟩
  · intro v hv
    rw [hins] at hv
    obtain ⟨x, hx⟩ := inputTable_vals inputs st.nv v hv
    rw [← hins] at hx
    exact ⟨x, stb4.mem _ (stb3.mem _ (stb2.mem _ hx))⟩
  · intro e he
    obtain ⟨x, _, hx⟩ := miv e.2 (mkGraphInits_sub _ _ _ _ e he)
    exact ⟨x, stb4.mem _ (stb3.mem _ hx)⟩
  · intro v hv
    simp only [List.mem_flatMap, declared, List.mem_map, List.mem_filter, decide_eq_true_eq] at hv
    obtain ⟨n, hn, y, ⟨hy, hne⟩, rfl⟩ := hv
    obtain ⟨u, hu⟩ := hdeclared n hn y hy hne
    rw [hu]
    exact ⟨y, stb4.mem _ (lookup_mem _ _ _ hu)⟩

end IrVerif.Scope

/-
C14 (wave 5): CSE as a kernel program keeps the names of the graph outputs position by position.
Part 1: which calls leave the output list of a graph alone, what `graph.outputs[i] = v`, `Value(name=...)` and an
accepted `Value.name = ...` do.
-/
import IrVerif.Lemmas.PassKernelNames2
import IrVerif.Lemmas.PassKernel2
import IrVerif.Lemmas.KernelOwn
import IrVerif.Props.C01
namespace IrVerif.PassKernel
open IrVerif.Kernel IrVerif.Kernel.World

/-- the output list of `g` is the same -/
def OE (g : Nat) (w w' : World) : Prop := (w'.gr g).outputs = (w.gr g).outputs

theorem OE.refl (g : Nat) (w : World) : OE g w w := rfl
theorem OE.trans {g : Nat} {a b c : World} (h1 : OE g a b) (h2 : OE g b c) : OE g a c := Eq.trans h2 h1
theorem OE.of_gr {g : Nat} {w w' : World} (h : w'.gr g = w.gr g) : OE g w w' := by unfold OE; rw [h]

theorem foldl_OE {β : Type} (g : Nat) (f : World → β → World) (hf : ∀ w b, OE g w (f w b)) :
    ∀ (l : List β) (w : World), OE g w (l.foldl f w)
  | [], w => OE.refl g w
  | b :: l, w => (hf w b).trans (foldl_OE g f hf l (f w b))

theorem iter_OE (g : Nat) (f : World → World) (hf : ∀ w, OE g w (f w)) : ∀ (k : Nat) (w : World), OE g w (iter f k w)
  | 0, w => OE.refl g w
  | k + 1, w => (hf w).trans (iter_OE g f hf k (f w))

theorem guardOp_OE (g : Nat) (bad : Bool) (kind : String) (w w' : World) (h : OE g w w') :
    OE g w (guardOp bad kind w w').1 := by
  unfold guardOp; split
  · exact OE.refl g w
  · split <;> exact h

theorem setGr_OE (g : Nat) (w : World) (g' : Nat) (r : GraphS) (h : r.outputs = (w.gr g').outputs) :
    OE g w (w.setGr g' r) := by
  unfold OE; rw [gr_setGr]; split
  · subst_vars; exact h
  · rfl

theorem setInput_gr (w : World) (n i : Nat) (nv : Option Nat) (g : Nat) : (setInput w n i nv).gr g = w.gr g := by
  unfold setInput; simp only []
  split
  · cases (w.node n).inputs.getD i none <;> cases nv <;> rfl
  · rfl

theorem rauwUses_OE (g : Nat) (w : World) (v r : Nat) : OE g w (rauwUses w v r) := by
  unfold rauwUses
  exact foldl_OE g _ (fun w (u : Nat × Nat) => OE.of_gr (setInput_gr w u.1 u.2 (some r) g)) _ w

theorem detachInputs_OE (g : Nat) (w : World) (n : Nat) : OE g w (detachInputs w n) := by
  unfold detachInputs
  exact foldl_OE g _ (fun w i => OE.of_gr (setInput_gr w n i none g)) _ w

theorem nodeUnlink_OE (g : Nat) (w : World) (g' n : Nat) : OE g w (nodeUnlink w g' n) := by
  unfold nodeUnlink; split
  · exact (OE.of_gr (by rfl)).trans (setGr_OE g _ g' _ (by rfl))
  · exact OE.refl g w

theorem nodeLink_OE (g : Nat) (w : World) (g' : Nat) (a : Option Nat) (n : Nat) : OE g w (nodeLink w g' a n) := by
  unfold nodeLink; split
  · exact (OE.of_gr (by rfl)).trans (setGr_OE g _ g' _ (by rfl))
  · exact OE.refl g w

theorem setNamePlain_OE (g : Nat) (w : World) (v : Nat) (s : Option String) : OE g w (setNamePlain w v s) :=
  OE.of_gr (setNamePlain_gr w v s g)

theorem registerValue_OE (g : Nat) (w : World) (g' v : Nat) : OE g w (registerValue w g' v) := by
  unfold registerValue
  split
  · exact setGr_OE g w g' _ (by rfl)
  · simp only []
    split
    · exact (setGr_OE g w g' _ (by rfl)).trans (OE.of_gr (gr_bump _ _))
    · exact (setGr_OE g w g' _ (by rfl)).trans (setNamePlain_OE g _ v _)

theorem registerNode_OE (g : Nat) (w : World) (g' n : Nat) : OE g w (registerNode w g' n) := by
  unfold registerNode; split
  · exact setGr_OE g w g' _ (by rfl)
  · simp only []; exact (setGr_OE g w g' _ (by rfl)).trans (OE.of_gr (gr_setNode _ _ _ _))

theorem assignNames_OE (g : Nat) (w : World) (g' n : Nat) : OE g w (assignNames w g' n) := by
  unfold assignNames
  exact (registerNode_OE g w g' n).trans (foldl_OE g _ (fun w o => registerValue_OE g w g' o) _ _)

theorem linkMany_OE (g : Nat) (w : World) (g' : Nat) (anchor : Option Nat) (ns : List Nat) : OE g w (linkMany w g' anchor ns) := by
  unfold linkMany
  have key : ∀ (l : List Nat) (p : World × Option Nat),
      OE g p.1 (l.foldl (fun (p : World × Option Nat) n => (nodeLink (assignNames p.1 g' n) g' p.2 n, some n)) p).1 := by
    intro l
    induction l with
    | nil => intro p; exact OE.refl _ _
    | cons n l ih =>
      intro p
      simp only [List.foldl_cons]
      exact ((assignNames_OE g p.1 g' n).trans (nodeLink_OE g _ g' p.2 n)).trans
        (ih (nodeLink (assignNames p.1 g' n) g' p.2 n, some n))
  exact key ns (w, anchor)

theorem allocVal_OE (g : Nat) (w : World) (r : ValueS) : OE g w (allocVal w r).1 := OE.of_gr (by rfl)

theorem attachOutput_OE (g : Nat) (w : World) (n v : Nat) : OE g w (attachOutput w n v) := by
  unfold attachOutput; simp only []
  split
  · exact OE.of_gr (by rfl)
  · exact OE.refl g w

theorem addOutput_OE (g : Nat) (w : World) (n : Nat) : OE g w (addOutput w n) := by
  unfold addOutput
  exact (allocVal_OE g w {}).trans (attachOutput_OE g _ _ _)

theorem newNodeMut_OE (g : Nat) (w : World) (opType : String) (name : Option String) (inputs : List (Option Nat))
    (numOutputs : Option Int) (outputs : Option (List Nat)) : OE g w (newNodeMut w opType name inputs numOutputs outputs) := by
  unfold newNodeMut; simp only []
  refine OE.trans ?_ (foldl_OE g _ (fun w (p : Nat × Option Nat) => OE.of_gr (setInput_gr w _ p.1 p.2 g)) _ _)
  split
  · exact (OE.of_gr (by rfl)).trans (foldl_OE g _ (fun w v => attachOutput_OE g w _ v) _ _)
  · exact (OE.of_gr (by rfl)).trans (iter_OE g _ (fun w => addOutput_OE g w _) _ _)

theorem unsetInit_OE (g : Nat) (w : World) (v : Nat) : OE g w (unsetInit w v) := OE.of_gr (by rfl)

theorem initDel_OE (g : Nat) (w : World) (g' : Nat) (key : String) : OE g w (initDel w g' key) := by
  unfold initDel; split
  · exact OE.refl g w
  · exact (unsetInit_OE g w _).trans (setGr_OE g _ g' _ (by rfl))

theorem initPut_tail_OE (g : Nat) (w1 : World) (g' : Nat) (key : String) (v : Nat) :
    OE g w1 (let w2 := match lookupInit (w1.gr g').inits key with
            | some old => unsetInit w1 old
            | none => w1
          let w3 := w2.setVal v { w2.val v with isInit := true, graph := some g' }
          noteName (w3.setGr g' { w3.gr g' with inits := dictSet (w3.gr g').inits key v }) g' (some key)) := by
  simp only []
  refine OE.trans ?_ (OE.of_gr (gr_noteName _ _ _ _))
  refine OE.trans ?_ (setGr_OE g _ g' _ (by rfl))
  refine OE.trans ?_ (OE.of_gr (gr_setVal _ _ _ _))
  split
  · exact unsetInit_OE g w1 _
  · exact OE.refl g w1

theorem initPut_OE (g : Nat) (w : World) (g' : Nat) (key : String) (v : Nat) : OE g w (initPut w g' key v) := by
  unfold initPut; split
  · have h1 : OE g w (if falsy (w.val v).name then setNamePlain w v (some key) else w) := by
      split
      · exact setNamePlain_OE g w v _
      · exact OE.refl g w
    exact OE.trans h1 (initPut_tail_OE g _ g' key v)
  · exact OE.refl g w

/-! ### the public calls that leave the output lists alone -/

theorem newValue_OE (g : Nat) (w : World) (name : Option String) : OE g w (newValue w name).1 := by
  unfold newValue; exact guardOp_OE g _ _ _ _ (allocVal_OE g w _)

theorem newNode_OE (g : Nat) (w : World) (opType : String) (name : Option String) (inputs : List (Option Nat))
    (numOutputs : Option Int) (outputs : Option (List Nat)) :
    OE g w (newNode w opType name inputs numOutputs outputs none).1 := by
  unfold newNode; exact guardOp_OE g _ _ _ _ (newNodeMut_OE g w opType name inputs numOutputs outputs)

theorem graphInsertBefore_OE (g : Nat) (w : World) (g' a : Nat) (ns : List Nat) : OE g w (graphInsertBefore w g' a ns).1 := by
  unfold graphInsertBefore; exact guardOp_OE g _ _ _ _ (linkMany_OE g w g' _ ns)

theorem graphRemove_OE (g : Nat) (w : World) (g' : Nat) (ns : List Nat) (safe : Bool) : OE g w (graphRemove w g' ns safe).1 := by
  unfold graphRemove
  refine guardOp_OE g _ _ _ _ (foldl_OE g _ (fun w n => ?_) _ _)
  refine OE.trans ?_ (nodeUnlink_OE g _ g' n)
  split
  · exact detachInputs_OE g w n
  · exact OE.refl g w

theorem setName_OE (g : Nat) (w : World) (v : Nat) (s : Option String) : OE g w (setName w v s).1 := by
  unfold setName; simp only []
  refine guardOp_OE g _ _ _ _ ?_
  split
  · exact OE.refl g w
  · split
    · split
      · exact ((initDel_OE g w _ _).trans (setNamePlain_OE g _ v _)).trans (initPut_OE g _ _ _ v)
      · exact OE.refl g w
    · exact setNamePlain_OE g w v s

/-- `Value.replace_all_uses_with(r)` without `replace_graph_outputs`: a graph output makes the call raise -/
theorem rauw_false_OE (g : Nat) (w : World) (v r : Nat) : OE g w (rauw w v r false).1 := by
  unfold rauw; simp only []
  by_cases ho : (w.val v).isOut = true
  · cases hg : (w.val v).graph with
    | none => simp [ho, hg, guardOp]; exact OE.refl g w
    | some g1 => simp [ho, hg, guardOp]; exact OE.refl g w
  · simp only [Bool.not_eq_true] at ho
    simp only [ho, Bool.false_and, Bool.false_eq_true, if_false]
    exact guardOp_OE g _ _ _ _ (rauwUses_OE g w v r)

theorem rauwSeq_false_OE (g : Nat) : ∀ (ps : List (Nat × Nat)) (w : World), OE g w (rauwSeq w false ps).1
  | [], w => OE.refl g w
  | (v, r) :: rest, w => by
    simp only [rauwSeq, andThen]
    split
    · exact (rauw_false_OE g w v r).trans (rauwSeq_false_OE g rest _)
    · exact rauw_false_OE g w v r

theorem rauwMany_false_OE (g : Nat) (w : World) (vs rs : List Nat) : OE g w (rauwMany w vs rs false).1 := by
  unfold rauwMany; split
  · exact OE.refl g w
  · exact rauwSeq_false_OE g _ w

theorem rauwManyExact_false_OE (g : Nat) (w : World) (vs rs : List Nat) : OE g w (rauwManyExact w vs rs false).1 := by
  unfold rauwManyExact; split
  · exact OE.refl g w
  · exact guardOp_OE g _ _ _ _ (rauwSeq_false_OE g _ w)

end IrVerif.PassKernel

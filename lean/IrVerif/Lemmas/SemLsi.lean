/-
Lemmas/SemLsi.lean — LiftSubgraphInitializersToMainGraphPass model (`lsiModel`) preserves the
denotation: an initializer of a subgraph is bound once, at the entry of the main graph.
-/
import IrVerif.Model.Passes
import IrVerif.Lemmas.SemSyntax
namespace IrVerif.Passes
open IrVerif.Sem
variable {Val : Type}

/-! the lifted initializers of a nest are bound in it, each once -/
mutual
theorem lsiG_ids : ∀ g : Graph, ssaG g = true →
    ((lsiG g).2.map Prod.fst).Nodup ∧ ∀ v ∈ (lsiG g).2.map Prod.fst, v ∈ defsG g
  | .mk inputs outputs inits nodes, hs => by
    simp only [ssaG, Bool.and_eq_true, nodupB_iff, disj_iff] at hs
    obtain ⟨⟨⟨_, hndt⟩, hdisj⟩, hsn⟩ := hs
    obtain ⟨h1, h2⟩ := lsiNodes_ids nodes hsn
    have hsubl : List.Sublist ((inits.filter (fun p => !(inputs.contains p.1 || outputs.contains p.1))).map Prod.fst)
        (inits.map Prod.fst) := List.filter_sublist.map Prod.fst
    simp only [lsiG, List.map_append]
    refine ⟨List.nodup_append.2 ⟨hsubl.nodup hndt, h1, ?_⟩, ?_⟩
    · intro a ha b hb hab
      subst hab
      exact hdisj a (by simp only [List.mem_append]; exact Or.inr (hsubl.subset ha)) (h2 a hb)
    · intro v hv
      simp only [defsG, List.mem_append] at hv ⊢
      rcases hv with hv | hv
      · exact Or.inl (Or.inr (hsubl.subset hv))
      · exact Or.inr (h2 v hv)
theorem lsiNodes_ids : ∀ ns : List Node, ssaNodes ns = true →
    ((lsiNodes ns).2.map Prod.fst).Nodup ∧ ∀ v ∈ (lsiNodes ns).2.map Prod.fst, v ∈ defsNodes ns
  | [], _ => by simp [lsiNodes]
  | .mk op attrs ins outs bodies :: ns, hs => by
    simp only [ssaNodes, ssaN, Bool.and_eq_true, disj_iff] at hs
    obtain ⟨⟨⟨_, hsb⟩, hdn⟩, hsn⟩ := hs
    obtain ⟨h1, h2⟩ := lsiBodies_ids bodies hsb
    obtain ⟨h3, h4⟩ := lsiNodes_ids ns hsn
    simp only [lsiNodes, List.map_append]
    refine ⟨List.nodup_append.2 ⟨h1, h3, ?_⟩, ?_⟩
    · intro a ha b hb hab
      subst hab
      exact hdn a (by simp only [defsN, List.mem_append]; exact Or.inr (h2 a ha)) (h4 a hb)
    · intro v hv
      simp only [defsNodes, defsN, List.mem_append] at hv ⊢
      rcases hv with hv | hv
      · exact Or.inl (Or.inr (h2 v hv))
      · exact Or.inr (h4 v hv)
theorem lsiBodies_ids : ∀ bs : List Graph, ssaBodies bs = true →
    ((lsiBodies bs).2.map Prod.fst).Nodup ∧ ∀ v ∈ (lsiBodies bs).2.map Prod.fst, v ∈ defsBodies bs
  | [], _ => by simp [lsiBodies]
  | b :: bs, hs => by
    simp only [ssaBodies, Bool.and_eq_true, disj_iff] at hs
    obtain ⟨⟨hsg, hd⟩, hsb⟩ := hs
    obtain ⟨h1, h2⟩ := lsiG_ids b hsg
    obtain ⟨h3, h4⟩ := lsiBodies_ids bs hsb
    simp only [lsiBodies, List.map_append]
    refine ⟨List.nodup_append.2 ⟨h1, h3, ?_⟩, ?_⟩
    · intro a ha c hc hac
      subst hac
      exact hd a (h2 a ha) (h4 a hc)
    · intro v hv
      simp only [defsBodies, List.mem_append] at hv ⊢
      exact hv.imp (h2 v) (h4 v)
end

/-- the two environments agree on the values in scope -/
def AgreeOn (D : List VId) (ρ ρ' : Env Val) : Prop := ∀ v ∈ D, ρ v = ρ' v

mutual
theorem lsiG_sound (I : Interp Val) : ∀ (g : Graph) (D : List VId) (ρ ρ' : Env Val),
    scopedG D g = true → ssaG g = true → closedG g = true → AgreeOn D ρ ρ' →
    (∀ p ∈ (lsiG g).2, ρ' p.1 = some (I.tv p.2)) → evalG I g ρ = evalG I (lsiG g).1 ρ'
  | .mk inputs outputs inits nodes, D, ρ, ρ', hsc, hs, hc, hag, hL => by
    funext xs
    have hs' := hs
    simp only [scopedG] at hsc
    simp only [ssaG, Bool.and_eq_true, nodupB_iff, disj_iff] at hs
    simp only [closedG, Bool.and_eq_true, List.all_eq_true] at hc
    obtain ⟨⟨⟨_, hndt⟩, hdisj⟩, hsn⟩ := hs
    simp only [lsiG, evalG]
    -- the inputs a caller supplies are the same
    have hfree : inputs.filter (fun v => !((inits.filter (fun p => inputs.contains p.1 || outputs.contains p.1)).map
          Prod.fst).contains v) = inputs.filter (fun v => !(inits.map Prod.fst).contains v) := by
      apply List.filter_congr
      intro v hv
      congr 1
      rw [Bool.eq_iff_iff]
      simp only [List.contains_iff_mem, List.mem_map, List.mem_filter]
      constructor
      · rintro ⟨q, ⟨hq, _⟩, rfl⟩; exact ⟨q, hq, rfl⟩
      · rintro ⟨q, hq, rfl⟩; exact ⟨q, ⟨hq, by simp [hv]⟩, rfl⟩
    rw [hfree]
    have hndk : ((inits.filter (fun p => inputs.contains p.1 || outputs.contains p.1)).map Prod.fst).Nodup :=
      (List.filter_sublist.map Prod.fst).nodup hndt
    have hag1 : AgreeOn (D ++ inputs ++ inits.map Prod.fst)
        ((bindInits I ρ inits).bind (inputs.filter (fun v => !(inits.map Prod.fst).contains v)) (xs.map some))
        ((bindInits I ρ' (inits.filter (fun p => inputs.contains p.1 || outputs.contains p.1))).bind
          (inputs.filter (fun v => !(inits.map Prod.fst).contains v)) (xs.map some)) := by
      intro v hv
      by_cases hfr : v ∈ inputs.filter (fun v => !(inits.map Prod.fst).contains v)
      · rw [Env.bind_of_mem _ _ hfr, Env.bind_of_mem _ _ hfr]
      · rw [Env.bind_of_not_mem _ _ hfr, Env.bind_of_not_mem _ _ hfr]
        simp only [bindInits]
        by_cases hvi : v ∈ inits.map Prod.fst
        · obtain ⟨q, hq, rfl⟩ := List.mem_map.1 hvi
          rw [Env.bind_map_of_mem ρ Prod.fst (fun p => some (I.tv p.2)) _ q hndt hq]
          by_cases hk : (inputs.contains q.1 || outputs.contains q.1) = true
          · rw [Env.bind_map_of_mem ρ' Prod.fst (fun p => some (I.tv p.2)) _ q hndk
              (List.mem_filter.2 ⟨hq, hk⟩)]
          · have hnot : q.1 ∉ (inits.filter (fun p => inputs.contains p.1 || outputs.contains p.1)).map Prod.fst := by
              intro h
              obtain ⟨q', hq', heq⟩ := List.mem_map.1 h
              have := eq_of_nodup_map_fst' hndt (List.mem_filter.1 hq').1 hq heq
              subst this
              exact hk (List.mem_filter.1 hq').2
            rw [Env.bind_of_not_mem _ _ hnot]
            exact (hL q (by
              simp only [lsiG, List.mem_append]
              exact Or.inl (List.mem_filter.2 ⟨hq, by simpa using hk⟩))).symm
        · have hvk : v ∉ (inits.filter (fun p => inputs.contains p.1 || outputs.contains p.1)).map Prod.fst :=
            fun h => hvi ((List.filter_sublist.map Prod.fst).subset h)
          rw [Env.bind_of_not_mem _ _ hvi, Env.bind_of_not_mem _ _ hvk]
          simp only [List.mem_append] at hv
          rcases hv with (hv | hv) | hv
          · exact hag v hv
          · exact absurd (List.mem_filter.2 ⟨hv, by simpa using hvi⟩) hfr
          · exact absurd hv hvi
    have hLn : ∀ p ∈ (lsiNodes nodes).2,
        ((bindInits I ρ' (inits.filter (fun p => inputs.contains p.1 || outputs.contains p.1))).bind
          (inputs.filter (fun v => !(inits.map Prod.fst).contains v)) (xs.map some)) p.1 = some (I.tv p.2) := by
      intro p hp
      have hpd : p.1 ∈ defsNodes nodes := (lsiNodes_ids nodes hsn).2 p.1 (List.mem_map.2 ⟨p, hp, rfl⟩)
      have h1 : p.1 ∉ inputs.filter (fun v => !(inits.map Prod.fst).contains v) := fun h =>
        hdisj p.1 (by simp [(List.mem_filter.1 h).1]) hpd
      have h2 : p.1 ∉ (inits.filter (fun p => inputs.contains p.1 || outputs.contains p.1)).map Prod.fst :=
        fun h => hdisj p.1 (by
          simp only [List.mem_append]; exact Or.inr ((List.filter_sublist.map Prod.fst).subset h)) hpd
      rw [Env.bind_of_not_mem _ _ h1]
      simp only [bindInits]
      rw [Env.bind_of_not_mem _ _ h2]
      exact hL p (by simp only [lsiG, List.mem_append]; exact Or.inr hp)
    have key := lsiNodes_sound I nodes _ _ _ hsc hsn hc.2 hag1 hLn
    apply List.map_congr_left
    intro o ho
    refine key o ?_
    have := hc.1 o ho
    simp only [List.contains_iff_mem, List.mem_append] at this ⊢
    rcases this with (h | h) | h
    · exact Or.inl (Or.inl (Or.inr h))
    · exact Or.inl (Or.inr h)
    · exact Or.inr h
theorem lsiNodes_sound (I : Interp Val) : ∀ (ns : List Node) (D : List VId) (ρ ρ' : Env Val),
    scopedNodes D ns = true → ssaNodes ns = true → closedNodes ns = true → AgreeOn D ρ ρ' →
    (∀ p ∈ (lsiNodes ns).2, ρ' p.1 = some (I.tv p.2)) →
    AgreeOn (D ++ outsTop ns) (evalNodes I ns ρ) (evalNodes I (lsiNodes ns).1 ρ')
  | [], D, ρ, ρ', _, _, _, hag, _ => by
    simpa [lsiNodes, evalNodes, outsTop] using hag
  | .mk op attrs ins outs bodies :: ns, D, ρ, ρ', hsc, hs, hc, hag, hL => by
    simp only [scopedNodes, scopedN, Bool.and_eq_true, List.all_eq_true, List.contains_iff_mem, Node.ins,
      Node.outs] at hsc
    simp only [ssaNodes, ssaN, Bool.and_eq_true, disj_iff] at hs
    simp only [closedNodes, closedN, Bool.and_eq_true] at hc
    obtain ⟨⟨hin, hscb⟩, hscn⟩ := hsc
    obtain ⟨⟨⟨_, hsb⟩, hdn⟩, hsn⟩ := hs
    simp only [lsiNodes, evalNodes]
    have hstep : AgreeOn (D ++ outs) (evalN I (.mk op attrs ins outs bodies) ρ)
        (evalN I (.mk op attrs ins outs (lsiBodies bodies).1) ρ') := by
      simp only [evalN]
      have hargs : evalArgs ρ (trimNone ins) = evalArgs ρ' (trimNone ins) :=
        evalArgs_congr (S := (· ∈ D)) hag _ (fun v hv => hin v (by
          simp only [List.mem_filterMap, id] at hv ⊢
          obtain ⟨a, ha, rfl⟩ := hv
          exact ⟨_, mem_of_mem_trimNone ha, rfl⟩))
      rw [hargs, lsiBodies_sound I bodies D ρ ρ' hscb hsb hc.1 hag
        (fun p hp => hL p (by simp only [lsiNodes, List.mem_append]; exact Or.inl hp))]
      intro v hv
      by_cases hvo : v ∈ outs
      · rw [Env.bind_of_mem _ _ hvo, Env.bind_of_mem _ _ hvo]
      · rw [Env.bind_of_not_mem _ _ hvo, Env.bind_of_not_mem _ _ hvo]
        exact hag v ((List.mem_append.1 hv).resolve_right hvo)
    have hL' : ∀ p ∈ (lsiNodes ns).2,
        evalN I (.mk op attrs ins outs (lsiBodies bodies).1) ρ' p.1 = some (I.tv p.2) := by
      intro p hp
      have hpd : p.1 ∈ defsNodes ns := (lsiNodes_ids ns hsn).2 p.1 (List.mem_map.2 ⟨p, hp, rfl⟩)
      simp only [evalN]
      rw [Env.bind_of_not_mem _ _ (fun h => hdn p.1 (by simp [defsN, h]) hpd)]
      exact hL p (by simp only [lsiNodes, List.mem_append]; exact Or.inr hp)
    have := lsiNodes_sound I ns (D ++ outs) _ _ hscn hsn hc.2 hstep hL'
    intro v hv
    refine this v ?_
    simp only [outsTop, Node.outs, List.mem_append] at hv ⊢
    rcases hv with hv | hv | hv
    · exact Or.inl (Or.inl hv)
    · exact Or.inl (Or.inr hv)
    · exact Or.inr hv
theorem lsiBodies_sound (I : Interp Val) : ∀ (bs : List Graph) (D : List VId) (ρ ρ' : Env Val),
    scopedBodies D bs = true → ssaBodies bs = true → closedBodies bs = true → AgreeOn D ρ ρ' →
    (∀ p ∈ (lsiBodies bs).2, ρ' p.1 = some (I.tv p.2)) →
    evalBodies I bs ρ = evalBodies I (lsiBodies bs).1 ρ'
  | [], _, _, _, _, _, _, _, _ => by simp [lsiBodies, evalBodies]
  | b :: bs, D, ρ, ρ', hsc, hs, hc, hag, hL => by
    simp only [scopedBodies, Bool.and_eq_true] at hsc
    simp only [ssaBodies, Bool.and_eq_true] at hs
    simp only [closedBodies, Bool.and_eq_true] at hc
    simp only [lsiBodies, evalBodies]
    rw [lsiG_sound I b D ρ ρ' hsc.1 hs.1.1 hc.1 hag
          (fun p hp => hL p (by simp only [lsiBodies, List.mem_append]; exact Or.inl hp)),
        lsiBodies_sound I bs D ρ ρ' hsc.2 hs.2 hc.2 hag
          (fun p hp => hL p (by simp only [lsiBodies, List.mem_append]; exact Or.inr hp))]
end

/-- main graph: the lifted initializers are appended to its own -/
theorem lsiMain_sound (I : Interp Val) (inputs outputs : List VId) (inits : List (VId × Tensor))
    (nodes : List Node) (hs : ssaG (.mk inputs outputs inits nodes) = true)
    (hc : closedG (.mk inputs outputs inits nodes) = true)
    (hsc : scopedG [] (.mk inputs outputs inits nodes) = true) (ρ : Env Val) :
    evalG I (.mk inputs outputs (inits ++ (lsiNodes nodes).2) (lsiNodes nodes).1) ρ =
      evalG I (.mk inputs outputs inits nodes) ρ := by
  funext xs
  simp only [scopedG] at hsc
  simp only [ssaG, Bool.and_eq_true, nodupB_iff, disj_iff] at hs
  simp only [closedG, Bool.and_eq_true, List.all_eq_true] at hc
  obtain ⟨⟨⟨_, hndt⟩, hdisj⟩, hsn⟩ := hs
  obtain ⟨hndL, hLsub⟩ := lsiNodes_ids nodes hsn
  simp only [evalG]
  have hfree : inputs.filter (fun v => !((inits ++ (lsiNodes nodes).2).map Prod.fst).contains v)
      = inputs.filter (fun v => !(inits.map Prod.fst).contains v) := by
    apply List.filter_congr
    intro v hv
    congr 1
    rw [Bool.eq_iff_iff]
    simp only [List.map_append, List.contains_iff_mem, List.mem_append]
    constructor
    · rintro (h | h)
      · exact h
      · exact absurd (hLsub v h) (hdisj v (by simp [hv]))
    · exact Or.inl
  rw [hfree]
  have hndAll : ((inits ++ (lsiNodes nodes).2).map Prod.fst).Nodup := by
    rw [List.map_append]
    refine List.nodup_append.2 ⟨hndt, hndL, ?_⟩
    intro a ha b hb hab
    subst hab
    exact hdisj a (by simp [ha]) (hLsub a hb)
  have hag : AgreeOn ([] ++ inputs ++ inits.map Prod.fst)
      ((bindInits I ρ inits).bind (inputs.filter (fun v => !(inits.map Prod.fst).contains v)) (xs.map some))
      ((bindInits I ρ (inits ++ (lsiNodes nodes).2)).bind
        (inputs.filter (fun v => !(inits.map Prod.fst).contains v)) (xs.map some)) := by
    intro v hv
    by_cases hfr : v ∈ inputs.filter (fun v => !(inits.map Prod.fst).contains v)
    · rw [Env.bind_of_mem _ _ hfr, Env.bind_of_mem _ _ hfr]
    · rw [Env.bind_of_not_mem _ _ hfr, Env.bind_of_not_mem _ _ hfr]
      simp only [bindInits]
      have hvi : v ∈ inits.map Prod.fst := by
        simp only [List.nil_append, List.mem_append] at hv
        rcases hv with hv | hv
        · by_cases h : v ∈ inits.map Prod.fst
          · exact h
          · exact absurd (List.mem_filter.2 ⟨hv, by simpa using h⟩) hfr
        · exact hv
      obtain ⟨q, hq, rfl⟩ := List.mem_map.1 hvi
      rw [Env.bind_map_of_mem ρ Prod.fst (fun p => some (I.tv p.2)) _ q hndt hq,
        Env.bind_map_of_mem ρ Prod.fst (fun p => some (I.tv p.2)) _ q hndAll (List.mem_append_left _ hq)]
  have hL : ∀ p ∈ (lsiNodes nodes).2,
      ((bindInits I ρ (inits ++ (lsiNodes nodes).2)).bind
        (inputs.filter (fun v => !(inits.map Prod.fst).contains v)) (xs.map some)) p.1 = some (I.tv p.2) := by
    intro p hp
    have hpin : p.1 ∉ inputs.filter (fun v => !(inits.map Prod.fst).contains v) := fun h =>
      hdisj p.1 (by simp [(List.mem_filter.1 h).1]) (hLsub p.1 (List.mem_map.2 ⟨p, hp, rfl⟩))
    rw [Env.bind_of_not_mem _ _ hpin]
    simp only [bindInits]
    exact Env.bind_map_of_mem ρ Prod.fst (fun p => some (I.tv p.2)) _ p hndAll (List.mem_append_right _ hp)
  have key := lsiNodes_sound I nodes _ _ _ hsc hsn hc.2 hag hL
  apply List.map_congr_left
  intro o ho
  refine (key o ?_).symm
  have := hc.1 o ho
  simp only [List.contains_iff_mem, List.mem_append] at this ⊢
  rcases this with (h | h) | h
  · exact Or.inl (Or.inl (Or.inr h))
  · exact Or.inl (Or.inr h)
  · exact Or.inr h

end IrVerif.Passes

import IrVerif.Lemmas.ScopeSerdeBridgeModel9c
/-!
The C02 bridge for models in the IR version < 10 format, part 4 (serialization): the experimental entries
`expOfFunc` / `serExperimentalR` and the reserved names of the two models agree.
-/
namespace IrVerif.Bridge
open IrVerif.Proto IrVerif.Serde

/-! ## one value -/

theorem expVInfo_append (vals : Nat → Scope.ValueS) (R : List Scope.Name) (id : Scope.FId) :
    ∀ a b : List Nat, Scope.expVInfo vals R id (a ++ b) = Scope.expVInfo vals R id a ++ Scope.expVInfo vals R id b
  | [], _ => rfl
  | v :: a, b => by
    simp only [List.cons_append, Scope.expVInfo, expVInfo_append vals R id a b]
    split <;> rfl

theorem expV_blank (st : Scope.Store) (R : List Scope.Name) (id : Scope.FId) (w : Nat) (rest : List Nat)
    (h : cellAt st w = blankCell) :
    Scope.expVInfo st.vals R id (w :: rest) = Scope.expVInfo st.vals R id rest := by
  have hn : (st.vals w).name = some "" := by simpa [cellAt, blankCell] using congrArg Cell.name h
  simp [Scope.expVInfo, hn, Scope.nameTruthy]

theorem absInfo_serValueAs (nm : String) (v : IRValue) : absInfo (serValueAs nm v) = absInfo (serValue v) := rfl

theorem expV_one (st : Scope.Store) (R : List Scope.Name) (id : Scope.FId) (w : Nat) (rest : List Nat)
    (v : IRValue) (h : cellAt st w = absCell v) (hv : valOK v = true) :
    Scope.expVInfo st.vals R id (w :: rest)
      = (expEmitR R id.domain id.name v).map absVI ++ Scope.expVInfo st.vals R id rest := by
  obtain ⟨f1, f2, _⟩ := cell_fields h
  have hsc := shouldCreate_of_valOK hv (st.vals w) f1 f2
  have hinfo : absInfo (serValue v) = (absInfoV v).emit := by
    simp only [valOK, Bool.and_eq_true, decide_eq_true_eq] at hv; exact hv.2
  have hne := experimentalName_ne_empty id.domain id.name v.name
  simp only [Scope.expVInfo, hsc, f1, f2, Option.getD_some, Scope.canParseBack, parseExp_eq_parseExperimentalName,
    formatExp_eq_experimentalName, expEmitR, expEmit, Scope.nameTruthy]
  have hne' : experimentalName id.domain id.name v.name ≠ "" := by
    intro e; rw [e] at hne; simp at hne
  have hcell : (⟨experimentalName id.domain id.name v.name, (absInfoV v).emit⟩ : Scope.VInfoP)
      = absVI (serValueAs (experimentalName id.domain id.name v.name) v) := by
    simp only [absVI, serValueAs, hne, Bool.false_eq_true, if_false]
    rw [← hinfo]
    rfl
  by_cases hR : experimentalName id.domain id.name v.name ∈ R
  · simp [hR]
  · by_cases hnm : v.name = ""
    · simp [hnm]
    · by_cases hs : shouldCreateVI v = true
      · by_cases hp : parseExperimentalName (experimentalName id.domain id.name v.name)
            = some (id.domain, id.name, v.name)
        · rw [hcell]
          simp [hR, hnm, hs, hp, isEmpty_decide]
        · simp [hR, hnm, hs, hp, isEmpty_decide]
      · simp [hR, hnm, hs, isEmpty_decide]

/-! ## value lists -/

theorem expV_tbl (st : Scope.Store) (tbl : List IRValue) (b : Nat) (R : List Scope.Name) (id : Scope.FId)
    (hs : ∀ i, i < tbl.length → cellAt st (b + i) = absCell (tbl.getD i (IRValue.blank "")))
    (hok : ∀ v ∈ tbl, (valOK v && tensOK v) = true) :
    ∀ is : List Nat, (∀ i ∈ is, i < tbl.length) →
    Scope.expVInfo st.vals R id (is.map (b + ·))
      = (is.flatMap fun i => expEmitR R id.domain id.name (tbl.getD i (IRValue.blank ""))).map absVI
  | [], _ => rfl
  | i :: is, h => by
    have hi := h i (by simp)
    have hmem : tbl.getD i (IRValue.blank "") ∈ tbl := by
      simp [List.getD, List.getElem?_eq_getElem hi]
    have hvo := hok _ hmem
    simp only [Bool.and_eq_true] at hvo
    rw [List.map_cons, expV_one st R id _ _ _ (hs i hi) hvo.1,
      expV_tbl st tbl b R id hs hok is (fun j hj => h j (List.mem_cons_of_mem _ hj))]
    simp

theorem expV_outs (st : Scope.Store) (tbl : List IRValue) (b : Nat) (R : List Scope.Name) (id : Scope.FId)
    (hs : ∀ i, i < tbl.length → cellAt st (b + i) = absCell (tbl.getD i (IRValue.blank "")))
    (hok : ∀ v ∈ tbl, (valOK v && tensOK v) = true) :
    ∀ (outs : List (Option Nat)) (K : Nat), outs.all (outOK tbl.length) = true →
    (∀ j, K ≤ j → j < K + numNone outs → cellAt st j = blankCell) →
    Scope.expVInfo st.vals R id (absOutsB b K outs)
      = ((optNats outs).flatMap fun i => expEmitR R id.domain id.name (tbl.getD i (IRValue.blank ""))).map absVI
  | [], _, _, _ => rfl
  | none :: outs, K, h, hb => by
    simp only [List.all_cons, Bool.and_eq_true] at h
    rw [absOutsB, expV_blank st R id K _ (hb K (Nat.le_refl _) (by simp [numNone])),
      expV_outs st tbl b R id hs hok outs (K + 1) h.2 (fun j h1 h2 => hb j (by omega) (by simp [numNone]; omega))]
    rfl
  | some i :: outs, K, h, hb => by
    simp only [List.all_cons, Bool.and_eq_true, outOK, decide_eq_true_eq] at h
    have hmem : tbl.getD i (IRValue.blank "") ∈ tbl := by
      simp [List.getD, List.getElem?_eq_getElem h.1]
    have hvo := hok _ hmem
    simp only [Bool.and_eq_true] at hvo
    rw [absOutsB, expV_one st R id _ _ _ (hs i h.1) hvo.1,
      expV_outs st tbl b R id hs hok outs K h.2 (fun j h1 h2 => hb j h1 (by simpa [numNone] using h2))]
    simp [optNats]

theorem optNats_append : ∀ a b : List (Option Nat), optNats (a ++ b) = optNats a ++ optNats b
  | [], _ => rfl
  | none :: a, b => by simp [optNats, optNats_append a b]
  | some i :: a, b => by simp [optNats, optNats_append a b]

theorem expV_nodes (st : Scope.Store) (tbl : List IRValue) (b : Nat) (R : List Scope.Name) (id : Scope.FId)
    (lens : List Nat)
    (hs : ∀ i, i < tbl.length → cellAt st (b + i) = absCell (tbl.getD i (IRValue.blank "")))
    (hok : ∀ v ∈ tbl, (valOK v && tensOK v) = true) :
    ∀ (xs : List IRNode) (K nn ng : Nat), okNodes (tbl.length :: lens) xs = true →
    ShowsAt st K (cellsNodes xs) →
    Scope.expVInfo st.vals R id ((treeNodes [b] K nn ng xs).flatMap Scope.NodeT.outputs)
      = ((optNats (xs.flatMap IRNode.outputs)).flatMap
          fun i => expEmitR R id.domain id.name (tbl.getD i (IRValue.blank ""))).map absVI
  | [], _, _, _, _, _ => rfl
  | x :: xs, K, nn, ng, hokN, hsh => by
    cases x with
    | mk domain opType overload name doc ins outs attrs mprops devcfgs =>
    simp only [okNodes, okNode, Bool.and_eq_true, List.headD_cons] at hokN
    simp only [cellsNodes, cellsNode] at hsh
    have hb := showsAt_left (showsAt_left hsh)
    have hr := showsAt_right hsh
    have hb' : ∀ j, K ≤ j → j < K + numNone outs → cellAt st j = blankCell := by
      intro j h1 h2
      have := hb (j - K) (by simp; omega)
      have e : K + (j - K) = j := by omega
      rw [e] at this
      rw [this]
      have hlt : j - K < numNone outs := by omega
      simp [List.getD, hlt]
    have ih := expV_nodes st tbl b R id lens hs hok xs _ (nn + (nnAttrs attrs + 1)) (ng + ngAttrs attrs)
      hokN.2 hr
    simp only [treeNodes, List.flatMap_cons, treeNode, Scope.NodeT.outputs, List.headD_cons, expVInfo_append,
      expV_outs st tbl b R id hs hok outs K hokN.1.1.2 hb', IRNode.outputs, optNats_append, List.flatMap_append,
      List.map_append, cellsNode, nnNode, ngNode]
    rw [ih]

end IrVerif.Bridge

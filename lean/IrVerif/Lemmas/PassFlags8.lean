/-
C14 (deepening): IdentityElimination and Deduplicate(Hashed)Initializers - passes that delete and SUBSTITUTE
values - leave a topologically ordered model (C05's `noFwdG`) ordered.
-/
import IrVerif.Lemmas.PassFlags5
import IrVerif.Lemmas.PassFlags7
namespace IrVerif.PassFlags
open IrVerif.Sem IrVerif.Passes

theorem substIns_mem {σ : Subst} {ins : List (Option VId)} {x : VId} (h : x ∈ (substIns σ ins).filterMap id) :
    ∃ x0 ∈ ins.filterMap id, x = σ.app x0 := by
  simp only [substIns, List.mem_filterMap, List.mem_map, id] at h ⊢
  obtain ⟨a, ⟨b, hb, e1⟩, e2⟩ := h
  subst e1
  cases b with
  | none => simp at e2
  | some x0 =>
    simp only [Option.map_some, Option.some.injEq] at e2
    exact ⟨x0, ⟨some x0, hb, rfl⟩, e2.symm⟩

/-! ## IdentityElimination -/

mutual
/-- nothing new is defined -/
theorem ieG_defs (ii : List VId) : ∀ (g : Graph) (σ : Subst) (v : VId), v ∈ defsG (ieG ii σ g) → v ∈ defsG g
  | .mk inputs outputs inits nodes, σ, v, h => by
    simp only [ieG, defsG, List.mem_append] at h ⊢
    exact h.imp id (ieNodes_defs ii _ nodes σ outputs v)
theorem ieNodes_defs (ii loc : List VId) : ∀ (ns : List Node) (σ : Subst) (outs : List VId) (v : VId),
    v ∈ defsNodes (ieNodes ii loc σ outs ns).nodes → v ∈ defsNodes ns
  | [], _, _, _, h => by simpa [ieNodes] using h
  | .mk op attrs ins nouts bodies :: ns, σ, outs, v, h => by
    have keep : v ∈ defsNodes (.mk op attrs (substIns σ ins) nouts (ieBodies ii σ bodies) ::
        (ieNodes ii loc σ outs ns).nodes) → v ∈ defsNodes (.mk op attrs ins nouts bodies :: ns) := by
      intro h
      simp only [defsNodes, defsN, List.mem_append] at h ⊢
      rcases h with (h | h) | h
      · exact Or.inl (Or.inl h)
      · exact Or.inl (Or.inr (ieBodies_defs ii bodies σ v h))
      · exact Or.inr (ieNodes_defs ii loc ns σ outs v h)
    cases hc : ieCandidate op (substIns σ ins) nouts with
    | none => simp only [ieNodes, hc] at h; exact keep h
    | some p =>
      obtain ⟨x, y⟩ := p
      by_cases hk : (outs.contains y && (ii.contains x || !loc.contains x || outs.contains x)) = true
      · simp only [ieNodes, hc, hk, if_true] at h; exact keep h
      · simp only [ieNodes, hc, hk, Bool.false_eq_true, if_false] at h
        simp only [defsNodes, List.mem_append]
        exact Or.inr (ieNodes_defs ii loc ns _ _ v h)
theorem ieBodies_defs (ii : List VId) : ∀ (bs : List Graph) (σ : Subst) (v : VId),
    v ∈ defsBodies (ieBodies ii σ bs) → v ∈ defsBodies bs
  | [], _, _, h => by simpa [ieBodies] using h
  | b :: bs, σ, v, h => by
    simp only [ieBodies, defsBodies, List.mem_append] at h ⊢
    exact h.elim (fun h => Or.inl (ieG_defs ii b σ v h)) (fun h => Or.inr (ieBodies_defs ii bs σ v h))
end

mutual
/-- every value the result reads is a value the input read or a value the substitution maps to -/
theorem ieG_refs (ii : List VId) (D : List VId) : ∀ (g : Graph) (σ : Subst), (∀ v ∈ refsG g, v ∉ D) →
    (∀ p ∈ σ, p.2 ∉ D) → ∀ v ∈ refsG (ieG ii σ g), v ∉ D
  | .mk inputs outputs inits nodes, σ, hr, hJ, v, hv => by
    have := ieNodes_refs ii (inputs ++ inits.map Prod.fst ++ outsTop nodes) D nodes σ outputs
      (fun v hv => hr v (by simp [refsG, hv]))
      (fun v hv => hr v (by simp [refsG, hv])) hJ
    simp only [ieG, refsG, List.mem_append] at hv
    exact hv.elim (this.1 v) (this.2.1 v)
theorem ieNodes_refs (ii loc : List VId) (D : List VId) : ∀ (ns : List Node) (σ : Subst) (outs : List VId),
    (∀ v ∈ outs, v ∉ D) → (∀ v ∈ refsNodes ns, v ∉ D) → (∀ p ∈ σ, p.2 ∉ D) →
    (∀ v ∈ (ieNodes ii loc σ outs ns).outs, v ∉ D) ∧ (∀ v ∈ refsNodes (ieNodes ii loc σ outs ns).nodes, v ∉ D) ∧
    (∀ p ∈ (ieNodes ii loc σ outs ns).σ, p.2 ∉ D)
  | [], _, _, ho, _, hJ => ⟨ho, fun _ h => by simp [ieNodes, refsNodes] at h, hJ⟩
  | .mk op attrs ins nouts bodies :: ns, σ, outs, ho, hr, hJ => by
    have hri : ∀ x0 ∈ ins.filterMap id, x0 ∉ D := fun x0 h => hr x0 (by simp only [refsNodes, refsN, List.mem_append]; exact Or.inl (Or.inl h))
    have hrb : ∀ v ∈ refsBodies bodies, v ∉ D := fun v h => hr v (by simp only [refsNodes, refsN, List.mem_append]; exact Or.inl (Or.inr h))
    have hrn : ∀ v ∈ refsNodes ns, v ∉ D := fun v h => hr v (by simp only [refsNodes, List.mem_append]; exact Or.inr h)
    have hins : ∀ x ∈ (substIns σ ins).filterMap id, x ∉ D := by
      intro x hx
      obtain ⟨x0, h0, e⟩ := substIns_mem hx
      rw [e]; exact app_not_mem hJ (hri x0 h0)
    have keep : ∀ r : IeRes, r = ieNodes ii loc σ outs ns →
        (∀ v ∈ r.outs, v ∉ D) ∧ (∀ v ∈ refsNodes (.mk op attrs (substIns σ ins) nouts (ieBodies ii σ bodies) :: r.nodes), v ∉ D) ∧
        (∀ p ∈ r.σ, p.2 ∉ D) := by
      intro r hr'
      subst hr'
      obtain ⟨i1, i2, i3⟩ := ieNodes_refs ii loc D ns σ outs ho hrn hJ
      refine ⟨i1, fun v hv => ?_, i3⟩
      simp only [refsNodes, refsN, List.mem_append] at hv
      rcases hv with (hv | hv) | hv
      · exact hins v hv
      · exact ieBodies_refs ii D bodies σ hrb hJ v hv
      · exact i2 v hv
    cases hc : ieCandidate op (substIns σ ins) nouts with
    | none => simp only [ieNodes, hc]; exact keep _ rfl
    | some p =>
      obtain ⟨x, y⟩ := p
      by_cases hk : (outs.contains y && (ii.contains x || !loc.contains x || outs.contains x)) = true
      · simp only [ieNodes, hc, hk, if_true]; exact keep _ rfl
      · simp only [ieNodes, hc, hk, Bool.false_eq_true, if_false]
        have hx : x ∉ D := hins x (by rw [(ieCandidate_some hc).2.1]; simp)
        apply ieNodes_refs ii loc D ns _ _ _ hrn
        · intro p hp
          rcases List.mem_cons.1 hp with hp | hp
          · rw [hp]; exact hx
          · exact hJ p hp
        · intro v hv
          obtain ⟨o, ho', e⟩ := List.mem_map.1 hv
          split at e
          · rw [← e]; exact hx
          · rw [← e]; exact ho o ho'
theorem ieBodies_refs (ii : List VId) (D : List VId) : ∀ (bs : List Graph) (σ : Subst),
    (∀ v ∈ refsBodies bs, v ∉ D) → (∀ p ∈ σ, p.2 ∉ D) → ∀ v ∈ refsBodies (ieBodies ii σ bs), v ∉ D
  | [], _, _, _, v, h => by simp [ieBodies, refsBodies] at h
  | b :: bs, σ, hr, hJ, v, hv => by
    simp only [ieBodies, refsBodies, List.mem_append] at hv
    rcases hv with hv | hv
    · exact ieG_refs ii D b σ (fun v h => hr v (by simp [refsBodies, h])) hJ v hv
    · exact ieBodies_refs ii D bs σ (fun v h => hr v (by simp [refsBodies, h])) hJ v hv
end

mutual
theorem ieG_noFwd (ii : List VId) : ∀ (g : Graph) (σ : Subst), noFwdG g = true →
    (∀ p ∈ σ, p.2 ∉ defsG g) → noFwdG (ieG ii σ g) = true
  | .mk inputs outputs inits nodes, σ, hf, hJ => by
    simp only [noFwdG] at hf
    simp only [ieG, noFwdG]
    exact ieNodes_noFwd ii _ nodes σ outputs hf (fun p hp hm => hJ p hp (by simp [defsG, hm]))
theorem ieNodes_noFwd (ii loc : List VId) : ∀ (ns : List Node) (σ : Subst) (outs : List VId),
    noFwdNodes ns = true → (∀ p ∈ σ, p.2 ∉ defsNodes ns) →
    noFwdNodes (ieNodes ii loc σ outs ns).nodes = true
  | [], _, _, _, _ => rfl
  | .mk op attrs ins nouts bodies :: ns, σ, outs, hf, hJ => by
    simp only [noFwdNodes, noFwdN, Bool.and_eq_true, disj_iff, Node.ins, Node.bodies, Node.outs] at hf
    obtain ⟨⟨⟨hf1, hf2⟩, hfb⟩, hfn⟩ := hf
    have hJ' : ∀ p ∈ σ, p.2 ∉ defsNodes ns := fun p hp hm => hJ p hp (by simp [defsNodes, hm])
    have hJb : ∀ p ∈ σ, p.2 ∉ defsBodies bodies := fun p hp hm => hJ p hp (by simp [defsNodes, defsN, hm])
    have hJo : ∀ p ∈ σ, p.2 ∉ nouts ++ defsNodes ns := fun p hp hm => hJ p hp (by
      simp only [List.mem_append] at hm
      simp only [defsNodes, defsN, List.mem_append]
      exact hm.elim (fun h => Or.inl (Or.inl h)) Or.inr)
    have hins : ∀ x ∈ (substIns σ ins).filterMap id, x ∉ defsNodes (.mk op attrs ins nouts bodies :: ns) := by
      intro x hx
      obtain ⟨x0, h0, e⟩ := substIns_mem hx
      rw [e]; exact app_not_mem hJ (hf1 x0 h0)
    have keep : noFwdNodes (.mk op attrs (substIns σ ins) nouts (ieBodies ii σ bodies) :: (ieNodes ii loc σ outs ns).nodes) = true := by
      simp only [noFwdNodes, noFwdN, Bool.and_eq_true, disj_iff, Node.ins, Node.bodies, Node.outs]
      refine ⟨⟨⟨fun x hx hm => hins x hx ?_, fun v hv hm => ?_⟩, ieBodies_noFwd ii bodies σ hfb hJb⟩,
        ieNodes_noFwd ii loc ns σ outs hfn hJ'⟩
      · simp only [defsNodes, defsN, List.mem_append] at hm ⊢
        rcases hm with (hm | hm) | hm
        · exact Or.inl (Or.inl hm)
        · exact Or.inl (Or.inr (ieBodies_defs ii bodies σ x hm))
        · exact Or.inr (ieNodes_defs ii loc ns σ outs x hm)
      · refine ieBodies_refs ii (nouts ++ defsNodes ns) bodies σ hf2 hJo v hv ?_
        simp only [List.mem_append] at hm ⊢
        exact hm.imp id (ieNodes_defs ii loc ns σ outs v)
    cases hc : ieCandidate op (substIns σ ins) nouts with
    | none => simp only [ieNodes, hc]; exact keep
    | some p =>
      obtain ⟨x, y⟩ := p
      by_cases hk : (outs.contains y && (ii.contains x || !loc.contains x || outs.contains x)) = true
      · simp only [ieNodes, hc, hk, if_true]; exact keep
      · simp only [ieNodes, hc, hk, Bool.false_eq_true, if_false]
        apply ieNodes_noFwd ii loc ns _ _ hfn
        intro p hp
        rcases List.mem_cons.1 hp with hp | hp
        · rw [hp]
          intro hm
          exact hins x (by rw [(ieCandidate_some hc).2.1]; simp) (by simp [defsNodes, hm])
        · exact hJ' p hp
theorem ieBodies_noFwd (ii : List VId) : ∀ (bs : List Graph) (σ : Subst), noFwdBodies bs = true →
    (∀ p ∈ σ, p.2 ∉ defsBodies bs) → noFwdBodies (ieBodies ii σ bs) = true
  | [], _, _, _ => rfl
  | b :: bs, σ, hf, hJ => by
    simp only [noFwdBodies, Bool.and_eq_true] at hf
    simp only [ieBodies, noFwdBodies, Bool.and_eq_true]
    exact ⟨ieG_noFwd ii b σ hf.1 (fun p hp hm => hJ p hp (by simp [defsBodies, hm])),
      ieBodies_noFwd ii bs σ hf.2 (fun p hp hm => hJ p hp (by simp [defsBodies, hm]))⟩
end


/-! ## Deduplicate(Hashed)Initializers -/

theorem mem_of_lookup' {α β : Type} [BEq α] [LawfulBEq α] : ∀ {l : List (α × β)} {a : α} {b : β},
    l.lookup a = some b → (a, b) ∈ l
  | [], _, _, h => by simp at h
  | (a', b') :: l, a, b, h => by
    simp only [List.lookup_cons] at h
    split at h
    · next heq =>
      simp only [Option.some.injEq] at h
      have : a = a' := by simpa using heq
      rw [this, h]; exact List.mem_cons_self
    · exact List.mem_cons_of_mem _ (mem_of_lookup' h)

theorem dedupInits_facts (lim : Nat) (io : List VId) : ∀ (l : List (VId × Tensor)) (seen : List (DedupKey × VId)),
    (∀ q ∈ (dedupInits lim io seen l).1, q ∈ l) ∧
    (∀ p ∈ (dedupInits lim io seen l).2, p.2 ∈ seen.map Prod.snd ∨ p.2 ∈ l.map Prod.fst)
  | [], _ => ⟨fun _ h => by simp [dedupInits] at h, fun _ h => by simp [dedupInits] at h⟩
  | (v, t) :: rest, seen => by
    simp only [dedupInits]
    split
    · obtain ⟨i1, i2⟩ := dedupInits_facts lim io rest seen
      refine ⟨fun q hq => ?_, fun p hp => ?_⟩
      · rcases List.mem_cons.1 hq with hq | hq
        · rw [hq]; exact List.mem_cons_self
        · exact List.mem_cons_of_mem _ (i1 q hq)
      · exact (i2 p hp).imp id (fun h => by simp only [List.map_cons, List.mem_cons]; exact Or.inr h)
    · cases hl : seen.lookup (dedupKey t) with
      | some k =>
        obtain ⟨i1, i2⟩ := dedupInits_facts lim io rest seen
        simp only
        refine ⟨fun q hq => List.mem_cons_of_mem _ (i1 q hq), fun p hp => ?_⟩
        rcases List.mem_cons.1 hp with hp | hp
        · rw [hp]
          left
          have : (dedupKey t, k) ∈ seen := mem_of_lookup' hl
          exact List.mem_map.2 ⟨_, this, rfl⟩
        · exact (i2 p hp).imp id (fun h => by simp only [List.map_cons, List.mem_cons]; exact Or.inr h)
      | none =>
        obtain ⟨i1, i2⟩ := dedupInits_facts lim io rest ((dedupKey t, v) :: seen)
        simp only
        refine ⟨fun q hq => ?_, fun p hp => ?_⟩
        · rcases List.mem_cons.1 hq with hq | hq
          · rw [hq]; exact List.mem_cons_self
          · exact List.mem_cons_of_mem _ (i1 q hq)
        · rcases i2 p hp with h | h
          · simp only [List.map_cons, List.mem_cons] at h
            rcases h with h | h
            · right; rw [h]; simp
            · exact Or.inl h
          · right; simp only [List.map_cons, List.mem_cons]; exact Or.inr h

/-- the replacements of one graph map to initializers of that graph -/
theorem dedupInits_range (lim : Nat) (io : List VId) (inits : List (VId × Tensor)) :
    ∀ p ∈ (dedupInits lim io [] inits).2, p.2 ∈ inits.map Prod.fst := by
  intro p hp
  rcases (dedupInits_facts lim io inits []).2 p hp with h | h
  · simp at h
  · exact h

mutual
theorem dedupG_defs (lim : Nat) : ∀ (g : Graph) (σ : Subst) (v : VId), v ∈ defsG (dedupG lim σ g) → v ∈ defsG g
  | .mk inputs outputs inits nodes, σ, v, h => by
    simp only [dedupG, defsG, List.mem_append] at h ⊢
    rcases h with (h | h) | h
    · exact Or.inl (Or.inl h)
    · refine Or.inl (Or.inr ?_)
      obtain ⟨q, hq, e⟩ := List.mem_map.1 h
      exact List.mem_map.2 ⟨q, (dedupInits_facts lim _ inits []).1 q hq, e⟩
    · exact Or.inr (dedupNodes_defs lim nodes _ v h)
theorem dedupNodes_defs (lim : Nat) : ∀ (ns : List Node) (σ : Subst) (v : VId),
    v ∈ defsNodes (dedupNodes lim σ ns) → v ∈ defsNodes ns
  | [], _, _, h => by simpa [dedupNodes] using h
  | .mk op attrs ins outs bodies :: ns, σ, v, h => by
    simp only [dedupNodes, defsNodes, defsN, List.mem_append] at h ⊢
    rcases h with (h | h) | h
    · exact Or.inl (Or.inl h)
    · exact Or.inl (Or.inr (dedupBodies_defs lim bodies σ v h))
    · exact Or.inr (dedupNodes_defs lim ns σ v h)
theorem dedupBodies_defs (lim : Nat) : ∀ (bs : List Graph) (σ : Subst) (v : VId),
    v ∈ defsBodies (dedupBodies lim σ bs) → v ∈ defsBodies bs
  | [], _, _, h => by simpa [dedupBodies] using h
  | b :: bs, σ, v, h => by
    simp only [dedupBodies, defsBodies, List.mem_append] at h ⊢
    exact h.elim (fun h => Or.inl (dedupG_defs lim b σ v h)) (fun h => Or.inr (dedupBodies_defs lim bs σ v h))
end

mutual
theorem dedupG_refs (lim : Nat) (D : List VId) : ∀ (g : Graph) (σ : Subst), (∀ v ∈ refsG g, v ∉ D) →
    (∀ v ∈ defsG g, v ∉ D) → (∀ p ∈ σ, p.2 ∉ D) → ∀ v ∈ refsG (dedupG lim σ g), v ∉ D
  | .mk inputs outputs inits nodes, σ, hr, hd, hJ, v, hv => by
    simp only [dedupG, refsG, List.mem_append] at hv
    rcases hv with hv | hv
    · exact hr v (by simp [refsG, hv])
    · refine dedupNodes_refs lim D nodes _ (fun v h => hr v (by simp [refsG, h]))
        (fun v h => hd v (by simp [defsG, h])) (fun p hp => ?_) v hv
      rcases List.mem_append.1 hp with hp | hp
      · exact hd p.2 (by
          have := dedupInits_range lim (inputs ++ outputs) inits p hp
          simp only [defsG, List.mem_append]; exact Or.inl (Or.inr this))
      · exact hJ p hp
theorem dedupNodes_refs (lim : Nat) (D : List VId) : ∀ (ns : List Node) (σ : Subst), (∀ v ∈ refsNodes ns, v ∉ D) →
    (∀ v ∈ defsNodes ns, v ∉ D) → (∀ p ∈ σ, p.2 ∉ D) → ∀ v ∈ refsNodes (dedupNodes lim σ ns), v ∉ D
  | [], _, _, _, _, v, h => by simp [dedupNodes, refsNodes] at h
  | .mk op attrs ins outs bodies :: ns, σ, hr, hd, hJ, v, hv => by
    simp only [dedupNodes, refsNodes, refsN, List.mem_append] at hv
    rcases hv with (hv | hv) | hv
    · obtain ⟨x0, h0, e⟩ := substIns_mem hv
      rw [e]
      exact app_not_mem hJ (hr x0 (by simp only [refsNodes, refsN, List.mem_append]; exact Or.inl (Or.inl h0)))
    · exact dedupBodies_refs lim D bodies σ
        (fun v h => hr v (by simp only [refsNodes, refsN, List.mem_append]; exact Or.inl (Or.inr h)))
        (fun v h => hd v (by simp only [defsNodes, defsN, List.mem_append]; exact Or.inl (Or.inr h))) hJ v hv
    · exact dedupNodes_refs lim D ns σ
        (fun v h => hr v (by simp only [refsNodes, List.mem_append]; exact Or.inr h))
        (fun v h => hd v (by simp only [defsNodes, List.mem_append]; exact Or.inr h)) hJ v hv
theorem dedupBodies_refs (lim : Nat) (D : List VId) : ∀ (bs : List Graph) (σ : Subst), (∀ v ∈ refsBodies bs, v ∉ D) →
    (∀ v ∈ defsBodies bs, v ∉ D) → (∀ p ∈ σ, p.2 ∉ D) → ∀ v ∈ refsBodies (dedupBodies lim σ bs), v ∉ D
  | [], _, _, _, _, v, h => by simp [dedupBodies, refsBodies] at h
  | b :: bs, σ, hr, hd, hJ, v, hv => by
    simp only [dedupBodies, refsBodies, List.mem_append] at hv
    rcases hv with hv | hv
    · exact dedupG_refs lim D b σ (fun v h => hr v (by simp [refsBodies, h]))
        (fun v h => hd v (by simp [defsBodies, h])) hJ v hv
    · exact dedupBodies_refs lim D bs σ (fun v h => hr v (by simp [refsBodies, h]))
        (fun v h => hd v (by simp [defsBodies, h])) hJ v hv
end

mutual
theorem dedupG_noFwd (lim : Nat) : ∀ (g : Graph) (σ : Subst), ssaG g = true → noFwdG g = true →
    (∀ p ∈ σ, p.2 ∉ defsG g) → noFwdG (dedupG lim σ g) = true
  | .mk inputs outputs inits nodes, σ, hs, hf, hJ => by
    simp only [ssaG, Bool.and_eq_true, disj_iff] at hs
    simp only [noFwdG] at hf
    simp only [dedupG, noFwdG]
    refine dedupNodes_noFwd lim nodes _ hs.2 hf (fun p hp => ?_)
    rcases List.mem_append.1 hp with hp | hp
    · have := dedupInits_range lim (inputs ++ outputs) inits p hp
      exact hs.1.2 p.2 (by simp only [List.mem_append]; exact Or.inr this)
    · exact fun hm => hJ p hp (by simp [defsG, hm])
theorem dedupNodes_noFwd (lim : Nat) : ∀ (ns : List Node) (σ : Subst), ssaNodes ns = true →
    noFwdNodes ns = true → (∀ p ∈ σ, p.2 ∉ defsNodes ns) → noFwdNodes (dedupNodes lim σ ns) = true
  | [], _, _, _, _ => rfl
  | .mk op attrs ins outs bodies :: ns, σ, hs, hf, hJ => by
    simp only [ssaNodes, ssaN, Bool.and_eq_true, disj_iff] at hs
    simp only [noFwdNodes, noFwdN, Bool.and_eq_true, disj_iff, Node.ins, Node.bodies, Node.outs] at hf
    obtain ⟨⟨⟨hf1, hf2⟩, hfb⟩, hfn⟩ := hf
    have hJ' : ∀ p ∈ σ, p.2 ∉ defsNodes ns := fun p hp hm => hJ p hp (by simp [defsNodes, hm])
    have hJb : ∀ p ∈ σ, p.2 ∉ defsBodies bodies := fun p hp hm => hJ p hp (by simp [defsNodes, defsN, hm])
    have hJo : ∀ p ∈ σ, p.2 ∉ outs ++ defsNodes ns := fun p hp hm => hJ p hp (by
      simp only [List.mem_append] at hm
      simp only [defsNodes, defsN, List.mem_append]
      exact hm.elim (fun h => Or.inl (Or.inl h)) Or.inr)
    have hdb : ∀ v ∈ defsBodies bodies, v ∉ outs ++ defsNodes ns := by
      intro v hv hm
      rcases List.mem_append.1 hm with hm | hm
      · exact hs.1.1.1.2 v hm hv
      · exact hs.1.2 v (by simp [defsN, hv]) hm
    simp only [dedupNodes, noFwdNodes, noFwdN, Bool.and_eq_true, disj_iff, Node.ins, Node.bodies, Node.outs]
    refine ⟨⟨⟨fun x hx hm => ?_, fun v hv hm => ?_⟩, dedupBodies_noFwd lim bodies σ hs.1.1.2 hfb hJb⟩,
      dedupNodes_noFwd lim ns σ hs.2 hfn hJ'⟩
    · obtain ⟨x0, h0, e⟩ := substIns_mem hx
      refine app_not_mem hJ (hf1 x0 h0) ?_
      rw [← e]
      have : x ∈ defsNodes (dedupNodes lim σ (.mk op attrs ins outs bodies :: ns)) := by
        simpa only [dedupNodes] using hm
      exact dedupNodes_defs lim _ σ x this
    · refine dedupBodies_refs lim (outs ++ defsNodes ns) bodies σ hf2 hdb hJo v hv ?_
      simp only [List.mem_append] at hm ⊢
      exact hm.imp id (dedupNodes_defs lim ns σ v)
theorem dedupBodies_noFwd (lim : Nat) : ∀ (bs : List Graph) (σ : Subst), ssaBodies bs = true →
    noFwdBodies bs = true → (∀ p ∈ σ, p.2 ∉ defsBodies bs) → noFwdBodies (dedupBodies lim σ bs) = true
  | [], _, _, _, _ => rfl
  | b :: bs, σ, hs, hf, hJ => by
    simp only [ssaBodies, Bool.and_eq_true] at hs
    simp only [noFwdBodies, Bool.and_eq_true] at hf
    simp only [dedupBodies, noFwdBodies, Bool.and_eq_true]
    exact ⟨dedupG_noFwd lim b σ hs.1.1 hf.1 (fun p hp hm => hJ p hp (by simp [defsBodies, hm])),
      dedupBodies_noFwd lim bs σ hs.2 hf.2 (fun p hp hm => hJ p hp (by simp [defsBodies, hm]))⟩
end

end IrVerif.PassFlags

/-
Kernel × C12: the object tree `treeOf w g` that the kernel reads off its own world is *tied* to the world
(every graph of the tree lists exactly the node sequence the world records for it), hence C12's
`C12_perm` applies to it: what `Sort.sortModel (treeOf w g)` returns is, for every graph of the nest, a
permutation of that graph's current node sequence — the hypothesis under which `sortOk` is applied
rather than refused.
-/
import IrVerif.Lemmas.KernelFaithful
import IrVerif.Props.C12
namespace IrVerif.Kernel
open IrVerif.Sort (MNode MGraph)

/-- a graph of the encoded tree lists the node sequence the world records for it -/
def Tied (w : World) (h : MGraph) : Prop := h.2.map MNode.id = (w.gr h.1).nodes

theorem treeNode_id (w : World) (f n : Nat) : (treeNode w f n).id = n := by
  cases f <;> rfl

theorem map_treeNode_id (w : World) (f : Nat) (l : List Nat) : (l.map (treeNode w f)).map MNode.id = l := by
  induction l with
  | nil => rfl
  | cons a l ih => simp only [List.map_cons, treeNode_id, ih]

theorem treeNode_subs_zero (w : World) (n : Nat) : (treeNode w 0 n).subs = [] := rfl

theorem treeNode_subs_succ (w : World) (f n : Nat) :
    (treeNode w (f + 1) n).subs =
      ((w.node n).attrs.flatMap (fun p => p.2)).map (fun g => (g, (w.gr g).nodes.map (treeNode w f))) := rfl

theorem subgraphs_treeNode_tied (w : World) : ∀ (f n : Nat) (h : MGraph),
    h ∈ Sort.subgraphsN (treeNode w f n) → Tied w h := by
  intro f
  induction f with
  | zero =>
    intro n h hh
    obtain ⟨g, hg, _⟩ := Sort.mem_subgraphsN.1 hh
    rw [treeNode_subs_zero] at hg
    cases hg
  | succ f ih =>
    intro n h hh
    obtain ⟨g, hg, hcase⟩ := Sort.mem_subgraphsN.1 hh
    rw [treeNode_subs_succ] at hg
    obtain ⟨gi, _, rfl⟩ := List.mem_map.1 hg
    rcases hcase with rfl | ⟨m, hm, hhm⟩
    · exact map_treeNode_id w f _
    · obtain ⟨n', _, rfl⟩ := List.mem_map.1 hm
      exact ih n' h hhm

/-- **the tree is tied to the world**: every graph `Graph.sort` is going to re-link is listed in the tree
with exactly the node sequence the world has for it -/
theorem treeOf_tied (w : World) (g : Nat) : ∀ h ∈ Sort.allGraphs (treeOf w g), Tied w h := by
  intro h hh
  rcases Sort.mem_allGraphs.1 hh with rfl | ⟨m, hm, hhm⟩
  · exact map_treeNode_id w _ _
  · obtain ⟨n', _, rfl⟩ := List.mem_map.1 hm
    exact subgraphs_treeNode_tied w _ n' h hhm

theorem forall₂_mem_right {α β : Type} {R : α → β → Prop} : ∀ {l₁ : List α} {l₂ : List β},
    List.Forall₂ R l₁ l₂ → ∀ b ∈ l₂, ∃ a ∈ l₁, R a b
  | _, _, .nil, b, hb => by cases hb
  | _, _, .cons hab ht, b, hb => by
    rcases List.mem_cons.1 hb with rfl | hb'
    · exact ⟨_, List.mem_cons_self, hab⟩
    · obtain ⟨a, ha, hr⟩ := forall₂_mem_right ht b hb'
      exact ⟨a, List.mem_cons_of_mem _ ha, hr⟩

/-- C12's result on the kernel's own tree: every entry is a permutation of the node sequence the world
records for that graph -/
theorem sortModel_perm_world (w : World) (g : Nat) (ht : Sort.WF (treeOf w g)) (r : List (Nat × List Nat))
    (hr : Sort.sortModel (treeOf w g) = some r) : ∀ p ∈ r, p.2.Perm (w.gr p.1).nodes := by
  intro p hp
  obtain ⟨old, hold, h1, h2⟩ := forall₂_mem_right (Sort.C12_perm _ ht r hr) p hp
  obtain ⟨h, hh, rfl⟩ := List.mem_map.1 hold
  have ht' := treeOf_tied w g h hh
  unfold Tied at ht'
  rw [h1]
  simp only [Sort.orderOf] at h2 ⊢
  rw [← ht']; exact h2

/-- hence the permutation half of `sortBad` is false: a sort is rejected only by the naming probe -/
theorem sortBad_of_sortModel (w : World) (g : Nat) (ht : Sort.WF (treeOf w g)) (r : List (Nat × List Nat))
    (hr : Sort.sortModel (treeOf w g) = some r) :
    sortBad w r = r.any (fun p => !p.2.all (nodeAcceptable w p.1)) := by
  unfold sortBad
  have key : ∀ l : List (Nat × List Nat), (∀ p ∈ l, p.2.Perm (w.gr p.1).nodes) →
      l.any (fun p => !p.2.isPerm (w.gr p.1).nodes || !p.2.all (nodeAcceptable w p.1)) =
        l.any (fun p => !p.2.all (nodeAcceptable w p.1)) := by
    intro l
    induction l with
    | nil => intro _; rfl
    | cons a l ih =>
      intro hl
      have ha : a.2.isPerm (w.gr a.1).nodes = true := List.isPerm_iff.2 (hl a List.mem_cons_self)
      simp only [List.any_cons, ha, Bool.not_true, Bool.false_or]
      rw [ih (fun p hp => hl p (List.mem_cons_of_mem _ hp))]
  exact key r (sortModel_perm_world w g ht r hr)

/-! ### attribute edits -/

/-- `w'` differs from `w` at most in the attribute dicts of nodes -/
structure AttrFrame (w w' : World) : Prop where
  vals : w'.vals = w.vals
  graphs : w'.graphs = w.graphs
  node : ∀ m, { w'.node m with attrs := (w.node m).attrs } = w.node m
  tensors : w'.tensors = w.tensors
  locked : w'.locked = w.locked
  extra : w'.extra = w.extra
  late : w'.late = w.late

theorem AttrFrame.refl (w : World) : AttrFrame w w := ⟨rfl, rfl, fun _ => rfl, rfl, rfl, rfl, rfl⟩

theorem setAttrs_attrFrame (w : World) (n : Nat) (as : List (String × List Nat)) : AttrFrame w (setAttrs w n as) := by
  refine ⟨rfl, rfl, ?_, rfl, rfl, rfl, rfl⟩
  intro m; simp only [setAttrs, World.node_setNode]; split
  · subst_vars; rfl
  · rfl

theorem guardOp_attrFrame (bad : Bool) (kind : String) (w w' : World) (h : AttrFrame w w') :
    AttrFrame w (guardOp bad kind w w').1 := by
  unfold guardOp; split
  · exact AttrFrame.refl w
  · split <;> exact h

/-- an attribute frame keeps the invariant in both directions: no clause reads an attribute dict -/
theorem AttrFrame.wf_iff {w w' : World} (h : AttrFrame w w') : WF w' ↔ WF w := by
  have hv : ∀ v, w'.val v = w.val v := fun v => by simp only [World.val, h.vals]
  have hg : ∀ g, w'.gr g = w.gr g := fun g => by simp only [World.gr, h.graphs]
  have hn : ∀ m, (w'.node m).inputs = (w.node m).inputs ∧ (w'.node m).outputs = (w.node m).outputs ∧
      (w'.node m).graph = (w.node m).graph := fun m => by
    have := h.node m
    exact ⟨(congrArg NodeS.inputs this : _), (congrArg NodeS.outputs this : _), (congrArg NodeS.graph this : _)⟩
  constructor
  · intro hw
    apply WF_of_same_core _ _ _ hw
    · intro v; rw [hv]; simp
    · intro m; exact ⟨(hn m).1.symm, (hn m).2.1.symm, (hn m).2.2.symm⟩
    · intro g; rw [hg]; simp
  · intro hw
    apply WF_of_same_core _ _ _ hw
    · intro v; rw [hv]; simp
    · intro m; exact hn m
    · intro g; rw [hg]; simp

end IrVerif.Kernel

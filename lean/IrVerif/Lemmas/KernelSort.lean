/-
Kernel × C12: the object tree `treeOf w g` that the kernel reads off its own world is *tied* to the world
(every graph of the tree lists exactly the node sequence the world records for it), hence C12's
`C12_perm` applies to it: what `Sort.sortModel (treeOf w g)` returns is, for every graph of the nest, a
permutation of that graph's current node sequence — the hypothesis under which `sortOk` is applied
rather than refused.
-/
import IrVerif.Lemmas.KernelFaithful
import IrVerif.Props.C12
namespace IrVerif.Kernel
open IrVerif.Sort (MNode MGraph)

/-- a graph of the encoded tree lists the node sequence the world records for it -/
def Tied (w : World) (h : MGraph) : Prop := h.2.map MNode.id = (w.gr h.1).nodes

theorem treeNode_id (w : World) (f n : Nat) : (treeNode w f n).id = n := by
  cases f <;> rfl

theorem map_treeNode_id (w : World) (f : Nat) (l : List Nat) : (l.map (treeNode w f)).map MNode.id = l := by
  induction l with
  | nil => rfl
  | cons a l ih => simp only [List.map_cons, treeNode_id, ih]

theorem treeNode_subs_zero (w : World) (n : Nat) : (treeNode w 0 n).subs = [] := rfl

theorem treeNode_subs_succ (w : World) (f n : Nat) :
    (treeNode w (f + 1) n).subs =
      ((w.node n).attrs.flatMap (fun p => p.2)).map (fun g => (g, (w.gr g).nodes.map (treeNode w f))) := rfl

theorem subgraphs_treeNode_tied (w : World) : ∀ (f n : Nat) (h : MGraph),
    h ∈ Sort.subgraphsN (treeNode w f n) → Tied w h := by
  intro f
  induction f with
  | zero =>
    intro n h hh
    obtain ⟨g, hg, _⟩ := Sort.mem_subgraphsN.1 hh
    rw [treeNode_subs_zero] at hg
    cases hg
  | succ f ih =>
    intro n h hh
    obtain ⟨g, hg, hcase⟩ := Sort.mem_subgraphsN.1 hh
    rw [treeNode_subs_succ] at hg
    obtain ⟨gi, _, rfl⟩ := List.mem_map.1 hg
    rcases hcase with rfl | ⟨m, hm, hhm⟩
    · exact map_treeNode_id w f _
    · obtain ⟨n', _, rfl⟩ := List.mem_map.1 hm
      exact ih n' h hhm

/-- **the tree is tied to the world**: every graph `Graph.sort` is going to re-link is listed in the tree
with exactly the node sequence the world has for it -/
theorem treeOf_tied (w : World) (g : Nat) : ∀ h ∈ Sort.allGraphs (treeOf w g), Tied w h := by
  intro h hh
  rcases Sort.mem_allGraphs.1 hh with rfl | ⟨m, hm, hhm⟩
  · exact map_treeNode_id w _ _
  · obtain ⟨n', _, rfl⟩ := List.mem_map.1 hm
    exact subgraphs_treeNode_tied w _ n' h hhm

theorem forall₂_mem_right {α β : Type} {R : α → β → Prop} : ∀ {l₁ : List α} {l₂ : List β},
    List.Forall₂ R l₁ l₂ → ∀ b ∈ l₂, ∃ a ∈ l₁, R a b
  | _, _, .nil, b, hb => by cases hb
  | _, _, .cons hab ht, b, hb => by
    rcases List.mem_cons.1 hb with rfl | hb'
    · exact ⟨_, List.mem_cons_self, hab⟩
    · obtain ⟨a, ha, hr⟩ := forall₂_mem_right ht b hb'
      exact ⟨a, List.mem_cons_of_mem _ ha, hr⟩

/-- C12's result on the kernel's own tree: every entry is a permutation of the node sequence the world
records for that graph -/
theorem sortModel_perm_world (w : World) (g : Nat) (ht : Sort.WF (treeOf w g)) (r : List (Nat × List Nat))
    (hr : Sort.sortModel (treeOf w g) = some r) : ∀ p ∈ r, p.2.Perm (w.gr p.1).nodes := by
  intro p hp
  obtain ⟨old, hold, h1, h2⟩ := forall₂_mem_right (Sort.C12_perm _ ht r hr) p hp
  obtain ⟨h, hh, rfl⟩ := List.mem_map.1 hold
  have ht' := treeOf_tied w g h hh
  unfold Tied at ht'
  rw [h1]
  simp only [Sort.orderOf] at h2 ⊢
  rw [← ht']; exact h2

/-- hence the permutation half of `sortBad` is false: a sort is rejected only by the naming probe -/
theorem sortBad_of_sortModel (w : World) (g : Nat) (ht : Sort.WF (treeOf w g)) (r : List (Nat × List Nat))
    (hr : Sort.sortModel (treeOf w g) = some r) :
    sortBad w r = r.any (fun p => !p.2.all (nodeAcceptable w p.1)) := by
  unfold sortBad
  have key : ∀ l : List (Nat × List Nat), (∀ p ∈ l, p.2.Perm (w.gr p.1).nodes) →
      l.any (fun p => !p.2.isPerm (w.gr p.1).nodes || !p.2.all (nodeAcceptable w p.1)) =
        l.any (fun p => !p.2.all (nodeAcceptable w p.1)) := by
    intro l
    induction l with
    | nil => intro _; rfl
    | cons a l ih =>
      intro hl
      have ha : a.2.isPerm (w.gr a.1).nodes = true := List.isPerm_iff.2 (hl a List.mem_cons_self)
      simp only [List.any_cons, ha, Bool.not_true, Bool.false_or]
      rw [ih (fun p hp => hl p (List.mem_cons_of_mem _ hp))]
  exact key r (sortModel_perm_world w g ht r hr)

/-! ### the exact result of an accepted sort

`Graph.sort` ends with `graph.extend(reversed(sorted_nodes))` for every graph of the nest (`sortApply`).  On a
well-formed world, with one entry per graph and every entry a permutation of that graph's current sequence (what
`C12_perm` gives for the kernel's own tree), the node sequence each graph is left with IS its entry: every `append`
unlinks the node and links it at the end (`Sort.relink`, C12's `C12_relink`), re-extending one graph does not touch the
sequence of another one, and the nodes keep the graph they name. -/

open IrVerif.LinkedSet in
/-- `Graph.extend(xs)` on the abstract node sequence is C12's `relink` (both are C11's `Spec.extend`) -/
theorem foldl_linkAfter_eq_relink (L xs : List Nat) (hL : L.Nodup) :
    xs.foldl (fun l v => linkAfter l l.getLast? v) L = Sort.relink L xs := by
  rw [← spec_extend .fwd xs L .done]
  exact Sort.spec_extend_L ⟨L, .fwd, .done⟩ hL xs

/-- what an accepted `extend` on graph `g` keeps when its nodes already are members of `g`: every naming fact
(`NameStep`: outputs, the graph every node names, locked tensors, names only get set) and the node sequence of every
other graph -/
structure RelinkStep (g : Nat) (w w' : World) : Prop where
  ns : NameStep w w'
  others : ∀ h, h ≠ g → (w'.gr h).nodes = (w.gr h).nodes

theorem RelinkStep.refl (g : Nat) (w : World) : RelinkStep g w w := ⟨NameStep.refl w, fun _ _ => rfl⟩

theorem RelinkStep.trans {g : Nat} {a b c : World} (h1 : RelinkStep g a b) (h2 : RelinkStep g b c) :
    RelinkStep g a c :=
  ⟨h1.ns.trans h2.ns, fun h hh => (h2.others h hh).trans (h1.others h hh)⟩

/-- one accepted node that is already a member of `g`: names, then the re-link -/
theorem link_relinkStep (w : World) (hw : WF w) (g : Nat) (anchor : Option Nat) (n : Nat)
    (hn : (w.node n).graph = some g) (ha : nodeAcceptable w g n = true) :
    RelinkStep g w (nodeLink (assignNames w g n) g anchor n) := by
  have hn0 := registerNode_nameStep w g n
  have hacc := ha
  simp only [nodeAcceptable, Bool.and_eq_true, List.all_eq_true] at hacc
  obtain ⟨_, hs, _⟩ := registerOutputs_late g (w.node n).outputs (registerNode w g n) (registerNode_WF w g n hw)
    (fun o ho => hn0.namable o (hacc.2 o ho))
  have hstep : NameStep w (assignNames w g n) := hn0.trans hs
  have hseq := assignNames_sameSeq w g n
  have hgn : ((assignNames w g n).node n).graph = some g := by rw [hstep.graph]; exact hn
  obtain ⟨ho, hlk, hnm⟩ := nodeLink_nameStep_other (assignNames w g n) g anchor n
  have hadd : nodeAddable (assignNames w g n) g n = true := by simp [nodeAddable, hgn]
  refine ⟨hstep.trans ⟨ho, ?_, hlk, fun v hv => by rw [hnm]; exact hv⟩, ?_⟩
  · intro m
    unfold nodeLink
    simp only [hadd, if_true]
    by_cases hm : m = n
    · subst hm; simp [hgn]
    · simp [hm]
  · intro h hh
    rw [← hseq.1 h]
    unfold nodeLink
    simp only [hadd, if_true]
    simp [hh]

/-- `Graph.extend(ns)` with every node already a member of `g` -/
theorem extendMut_relinkStep (g : Nat) : ∀ (ns : List Nat) (w : World), WF w →
    (∀ n ∈ ns, (w.node n).graph = some g) → (∀ n ∈ ns, nodeAcceptable w g n = true) →
    RelinkStep g w (extendMut w g ns)
  | [], w, _, _, _ => RelinkStep.refl g w
  | n :: ns, w, hw, hg, ha => by
    have h1 := link_relinkStep w hw g (w.gr g).nodes.getLast? n (hg n List.mem_cons_self) (ha n List.mem_cons_self)
    obtain ⟨_, hw1, hacc⟩ := link_late w hw g (w.gr g).nodes.getLast? n (ha n List.mem_cons_self)
    have h2 := extendMut_relinkStep g ns _ hw1
      (fun m hm => by rw [h1.ns.graph]; exact hg m (List.mem_cons_of_mem _ hm))
      (fun m hm => hacc m (ha m (List.mem_cons_of_mem _ hm)))
    simp only [extendMut, List.foldl_cons] at h2 ⊢
    exact h1.trans h2

/-- re-extending a graph with a permutation of its own node sequence leaves exactly that permutation -/
theorem nodes_extendMut_perm (w : World) (hw : WF w) (g : Nat) (ns : List Nat)
    (hp : ns.Perm (w.gr g).nodes) : ((extendMut w g ns).gr g).nodes = ns := by
  have hmem : ∀ n ∈ ns, (w.node n).graph = some g := fun n hn => (hw.node.mem n g).2 (hp.mem_iff.1 hn)
  rw [nodes_extendMut g ns w (fun n hn => by simp [nodeAddable, hmem n hn]),
    foldl_linkAfter_eq_relink _ _ (hw.node.nodup g)]
  exact Sort.C12_relink _ _ (hw.node.nodup g) hp

/-- **the re-linking loop of `Graph.sort` is exact**: one entry per graph, each a permutation of that graph's
sequence with every node acceptable ⟹ afterwards every listed graph has exactly its entry as node sequence, every
other graph keeps its sequence, and only naming facts changed besides -/
theorem sortApply_exact : ∀ (r : List (Nat × List Nat)) (w : World), WF w → (r.map Prod.fst).Nodup →
    (∀ p ∈ r, p.2.Perm (w.gr p.1).nodes) → (∀ p ∈ r, ∀ n ∈ p.2, nodeAcceptable w p.1 n = true) →
    (∀ p ∈ r, ((sortApply w r).gr p.1).nodes = p.2) ∧
    (∀ h, h ∉ r.map Prod.fst → ((sortApply w r).gr h).nodes = (w.gr h).nodes) ∧
    NameStep w (sortApply w r)
  | [], w, _, _, _, _ => ⟨fun _ hp => (by cases hp), fun _ _ => rfl, NameStep.refl w⟩
  | p :: rest, w, hw, hnd, hperm, hacc => by
    have hp := hperm p List.mem_cons_self
    have ha := hacc p List.mem_cons_self
    have hcond : (p.2.isPerm (w.gr p.1).nodes && p.2.all (nodeAcceptable w p.1)) = true := by
      rw [Bool.and_eq_true]
      exact ⟨List.isPerm_iff.2 hp, List.all_eq_true.2 ha⟩
    have hunf : sortApply w (p :: rest) = sortApply (extendMut w p.1 p.2) rest := by
      simp only [sortApply, List.foldl_cons, hcond, if_true]
    have hmem : ∀ n ∈ p.2, (w.node n).graph = some p.1 := fun n hn => (hw.node.mem n p.1).2 (hp.mem_iff.1 hn)
    have hstep := extendMut_relinkStep p.1 p.2 w hw hmem ha
    have hw1 := extendMut_WF w p.1 p.2 hw
    have hself := nodes_extendMut_perm w hw p.1 p.2 hp
    rw [List.map_cons, List.nodup_cons] at hnd
    have hne : ∀ q ∈ rest, q.1 ≠ p.1 := fun q hq e => hnd.1 (e ▸ List.mem_map_of_mem hq)
    obtain ⟨i1, i2, i3⟩ := sortApply_exact rest (extendMut w p.1 p.2) hw1 hnd.2
      (fun q hq => by rw [hstep.others q.1 (hne q hq)]; exact hperm q (List.mem_cons_of_mem _ hq))
      (fun q hq n hn => hstep.ns.acceptable q.1 n (hacc q (List.mem_cons_of_mem _ hq) n hn))
    rw [hunf]
    refine ⟨?_, ?_, hstep.ns.trans i3⟩
    · intro q hq
      rcases List.mem_cons.1 hq with rfl | hq
      · rw [i2 _ hnd.1]; exact hself
      · exact i1 q hq
    · intro h hh
      rw [List.map_cons, List.mem_cons, not_or] at hh
      rw [i2 h hh.2]; exact hstep.others h hh.1

/-- the result of C12's sort model has exactly one entry per graph of the tree, in the tree's order -/
theorem sortModel_graph_ids (t : Sort.MGraph) (ht : Sort.WF t) (r : List (Nat × List Nat))
    (hr : Sort.sortModel t = some r) : r.map Prod.fst = (Sort.allGraphs t).map Prod.fst := by
  have h := Sort.C12_perm t ht r hr
  have key : ∀ (l r : List (Nat × List Nat)),
      List.Forall₂ (fun old new => new.1 = old.1 ∧ new.2.Perm old.2) l r → r.map Prod.fst = l.map Prod.fst := by
    intro l r h
    induction h with
    | nil => rfl
    | cons hab _ ih => simp only [List.map_cons, hab.1, ih]
  rw [key _ _ h]
  simp only [Sort.graphsOf, List.map_map]
  rfl

/-! ### attribute edits -/

/-- `w'` differs from `w` at most in the attribute dicts of nodes -/
structure AttrFrame (w w' : World) : Prop where
  vals : w'.vals = w.vals
  graphs : w'.graphs = w.graphs
  node : ∀ m, { w'.node m with attrs := (w.node m).attrs } = w.node m
  tensors : w'.tensors = w.tensors
  locked : w'.locked = w.locked
  extra : w'.extra = w.extra
  late : w'.late = w.late

theorem AttrFrame.refl (w : World) : AttrFrame w w := ⟨rfl, rfl, fun _ => rfl, rfl, rfl, rfl, rfl⟩

theorem setAttrs_attrFrame (w : World) (n : Nat) (as : List (String × List Nat)) : AttrFrame w (setAttrs w n as) := by
  refine ⟨rfl, rfl, ?_, rfl, rfl, rfl, rfl⟩
  intro m; simp only [setAttrs, World.node_setNode]; split
  · subst_vars; rfl
  · rfl

theorem guardOp_attrFrame (bad : Bool) (kind : String) (w w' : World) (h : AttrFrame w w') :
    AttrFrame w (guardOp bad kind w w').1 := by
  unfold guardOp; split
  · exact AttrFrame.refl w
  · split <;> exact h

/-- an attribute frame keeps the invariant in both directions: no clause reads an attribute dict -/
theorem AttrFrame.wf_iff {w w' : World} (h : AttrFrame w w') : WF w' ↔ WF w := by
  have hv : ∀ v, w'.val v = w.val v := fun v => by simp only [World.val, h.vals]
  have hg : ∀ g, w'.gr g = w.gr g := fun g => by simp only [World.gr, h.graphs]
  have hn : ∀ m, (w'.node m).inputs = (w.node m).inputs ∧ (w'.node m).outputs = (w.node m).outputs ∧
      (w'.node m).graph = (w.node m).graph := fun m => by
    have := h.node m
    exact ⟨(congrArg NodeS.inputs this : _), (congrArg NodeS.outputs this : _), (congrArg NodeS.graph this : _)⟩
  constructor
  · intro hw
    apply WF_of_same_core _ _ _ hw
    · intro v; rw [hv]; simp
    · intro m; exact ⟨(hn m).1.symm, (hn m).2.1.symm, (hn m).2.2.symm⟩
    · intro g; rw [hg]; simp
  · intro hw
    apply WF_of_same_core _ _ _ hw
    · intro v; rw [hv]; simp
    · intro m; exact hn m
    · intro g; rw [hg]; simp

end IrVerif.Kernel

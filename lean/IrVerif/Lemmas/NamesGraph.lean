/-
C15 part A, graph level: every name carried by an object the graph owns is known to the
authority, along any history of the operations that attach, detach, name and rename objects.
-/
import IrVerif.Lemmas.NamesFix
namespace IrVerif.Names

/-- every name carried by an owned value / node is in the authority's seen set -/
structure Carried (st : GSt) : Prop where
  values : ∀ v ∈ st.vown, ∀ s, st.vname v = some s → s ∈ st.auth.vnames
  nodes : ∀ n ∈ st.nown, ∀ s, st.nname n = some s → s ∈ st.auth.nnames

theorem note_mono (a : Auth) (b : Bool) (name : Option String) :
    (∀ x, x ∈ a.vnames → x ∈ (a.note b name).vnames) ∧ (∀ x, x ∈ a.nnames → x ∈ (a.note b name).nnames) := by
  cases name with
  | none => exact ⟨fun _ h => h, fun _ h => h⟩
  | some s =>
    cases b
    · exact ⟨fun x h => by simp [Auth.note, h], fun x h => by simpa [Auth.note] using h⟩
    · exact ⟨fun x h => by simpa [Auth.note] using h, fun x h => by simp [Auth.note, h]⟩

theorem note_mem (a : Auth) (b : Bool) (s : String) :
    s ∈ (a.note b (some s)).seen b := by
  cases b <;> simp [Auth.note, Auth.seen]

/-- seen sets never shrink at the graph level either -/
theorem gstep_mono (st : GSt) (op : GOp) :
    (∀ x, x ∈ st.auth.vnames → x ∈ (gstep st op).auth.vnames) ∧ (∀ x, x ∈ st.auth.nnames → x ∈ (gstep st op).auth.nnames) := by
  cases op with
  | regValue v =>
    have := (step_mono st.auth (.value (st.vname v))).1
    exact ⟨fun x h => this false x h, fun x h => this true x h⟩
  | regNode n o =>
    have := (step_mono st.auth (.node (st.nname n) o)).1
    exact ⟨fun x h => this false x h, fun x h => this true x h⟩
  | noteValue v => exact note_mono _ _ _
  | setValue v name =>
    simp only [gstep]
    split
    · exact ⟨fun _ h => h, fun _ h => h⟩
    · dsimp only
      split
      · exact note_mono _ _ _
      · exact ⟨fun _ h => h, fun _ h => h⟩
  | setNode n name =>
    simp only [gstep]
    split
    · exact note_mono _ _ _
    · exact ⟨fun _ h => h, fun _ h => h⟩
  | dropValue v => exact ⟨fun _ h => h, fun _ h => h⟩
  | dropNode n => exact ⟨fun _ h => h, fun _ h => h⟩

theorem grun_nil (st : GSt) : grun [] st = st := rfl
theorem grun_cons (op : GOp) (ops : List GOp) (st : GSt) : grun (op :: ops) st = grun ops (gstep st op) := rfl
theorem grun_append (a b : List GOp) (st : GSt) : grun (a ++ b) st = grun b (grun a st) := by
  simp [grun, List.foldl_append]

theorem grun_mono : ∀ (ops : List GOp) (st : GSt),
    (∀ x, x ∈ st.auth.vnames → x ∈ (grun ops st).auth.vnames) ∧ (∀ x, x ∈ st.auth.nnames → x ∈ (grun ops st).auth.nnames)
  | [], st => ⟨fun _ h => h, fun _ h => h⟩
  | op :: ops, st => by
    rw [grun_cons]
    obtain ⟨a, b⟩ := gstep_mono st op
    obtain ⟨c, d⟩ := grun_mono ops (gstep st op)
    exact ⟨fun x h => c x (a x h), fun x h => d x (b x h)⟩

theorem gstep_carried (st : GSt) (op : GOp) (h : Carried st) : Carried (gstep st op) := by
  obtain ⟨m1, m2⟩ := gstep_mono st op
  cases op with
  | regValue v =>
    refine ⟨?_, fun n hn s hs => m2 s (h.nodes n hn s hs)⟩
    intro u hu s hs
    simp only [gstep] at hu hs ⊢
    by_cases huv : u = v
    · subst huv
      simp only [upd_eq, Option.some.injEq] at hs
      subst hs
      have := step_registers st.auth (.value (st.vname u))
      have hk : (step st.auth (.value (st.vname u))).2.isNode = false := by
        cases st.vname u <;> simp [step]
      rw [hk] at this
      simpa [Auth.seen] using this
    · rw [upd_ne _ _ huv] at hs
      rcases List.mem_cons.mp hu with e | hu
      · exact absurd e huv
      · exact m1 s (h.values u hu s hs)
  | regNode n o =>
    refine ⟨fun v hv s hs => m1 s (h.values v hv s hs), ?_⟩
    intro u hu s hs
    simp only [gstep] at hu hs ⊢
    by_cases hun : u = n
    · subst hun
      simp only [upd_eq, Option.some.injEq] at hs
      subst hs
      have := step_registers st.auth (.node (st.nname u) o)
      have hk : (step st.auth (.node (st.nname u) o)).2.isNode = true := by
        cases st.nname u <;> simp [step]
      rw [hk] at this
      simpa [Auth.seen] using this
    · rw [upd_ne _ _ hun] at hs
      rcases List.mem_cons.mp hu with e | hu
      · exact absurd e hun
      · exact m2 s (h.nodes u hu s hs)
  | noteValue v =>
    refine ⟨?_, fun n hn s hs => m2 s (h.nodes n hn s hs)⟩
    intro u hu s hs
    simp only [gstep] at hu hs ⊢
    rcases List.mem_cons.mp hu with rfl | hu
    · rw [hs]; simpa [Auth.seen] using note_mem st.auth false s
    · exact (note_mono _ _ _).1 s (h.values u hu s hs)
  | setValue v name =>
    by_cases he : st.vname v = name
    · simp only [gstep, he, if_true]; exact h
    · refine ⟨?_, fun n hn s hs => ?_⟩
      · intro u hu s hs
        simp only [gstep, he, if_false] at hu hs ⊢
        by_cases huv : u = v
        · subst huv
          simp only [upd_eq] at hs
          subst hs
          have : st.vown.contains u = true := by simpa using hu
          simp only [this, if_true]
          simpa [Auth.seen] using note_mem st.auth false s
        · rw [upd_ne _ _ huv] at hs
          have := h.values u hu s hs
          split
          · exact (note_mono _ _ _).1 s this
          · exact this
      · have hn' : n ∈ st.nown := by simpa [gstep, he] using hn
        have hs' : st.nname n = some s := by simpa [gstep, he] using hs
        exact m2 s (h.nodes n hn' s hs')
  | setNode n name =>
    refine ⟨fun v hv s hs => ?_, ?_⟩
    · have hv' : v ∈ st.vown := by simpa [gstep] using hv
      have hs' : st.vname v = some s := by simpa [gstep] using hs
      exact m1 s (h.values v hv' s hs')
    · intro u hu s hs
      simp only [gstep] at hu hs ⊢
      by_cases hun : u = n
      · subst hun
        simp only [upd_eq] at hs
        subst hs
        have : st.nown.contains u = true := by simpa using hu
        simp only [this, if_true]
        simpa [Auth.seen] using note_mem st.auth true s
      · rw [upd_ne _ _ hun] at hs
        have := h.nodes u hu s hs
        split
        · exact (note_mono _ _ _).2 s this
        · exact this
  | dropValue v =>
    refine ⟨fun u hu s hs => ?_, fun n hn s hs => h.nodes n hn s hs⟩
    have hu' : u ∈ st.vown := by
      have : u ∈ st.vown.filter (· != v) := hu
      exact (List.mem_filter.mp this).1
    exact h.values u hu' s hs
  | dropNode n =>
    refine ⟨fun u hu s hs => h.values u hu s hs, fun u hu s hs => ?_⟩
    have hu' : u ∈ st.nown := by
      have : u ∈ st.nown.filter (· != n) := hu
      exact (List.mem_filter.mp this).1
    exact h.nodes u hu' s hs

theorem grun_carried : ∀ (ops : List GOp) (st : GSt), Carried st → Carried (grun ops st)
  | [], _, h => h
  | op :: ops, st, h => grun_carried ops (gstep st op) (gstep_carried st op h)

end IrVerif.Names

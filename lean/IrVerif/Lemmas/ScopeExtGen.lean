/-
Generic (certificate-free) description of what the phases of the extended deserializer do to the value part of the
extension state (merged metadata, quantization annotations): a value created by name in a graph run gets the
metadata of its value_info entry and the annotation of its name, everything below the allocation counter is kept.
-/
import IrVerif.Lemmas.ScopeExtRTDefs
namespace IrVerif.Scope

theorem ssUpdate_nil_right (d : SS) : ssUpdate d [] = d := rfl

theorem Ext.merge_vmeta (x : Ext) (v : Nat) (es : SS) (d : Nat) :
    (x.merge v es).vmeta d = if d = v then ssUpdate (x.vmeta v) es else x.vmeta d := by
  unfold Ext.merge
  cases es with
  | nil =>
    simp only [List.isEmpty_nil, if_true, ssUpdate_nil_right]
    split
    · rename_i h; rw [h]
    · rfl
  | cons e r => simp [Ext.setMeta]

theorem Ext.merge_quant (x : Ext) (v : Nat) (es : SS) : (x.merge v es).quant = x.quant := by
  unfold Ext.merge
  split <;> rfl

theorem Ext.annotate_vmeta (x : Ext) (qt : List (Name × SS)) (v : Nat) (n : Name) :
    (x.annotate qt v n).vmeta = x.vmeta := by
  unfold Ext.annotate
  split <;> rfl

theorem Ext.annotate_quant_ne (x : Ext) (qt : List (Name × SS)) (v : Nat) (n : Name) {d : Nat} (h : d ≠ v) :
    (x.annotate qt v n).quant d = x.quant d := by
  unfold Ext.annotate
  split
  · rfl
  · simp [Ext.setQuant, h]

theorem Ext.annotate_quant_self (x : Ext) (qt : List (Name × SS)) (v : Nat) (n : Name) (hx : x.quant v = none) :
    (x.annotate qt v n).quant v = quantOf qt n := by
  unfold Ext.annotate quantOf
  cases qt.lookup n with
  | none => simpa using hx
  | some ps => simp [Ext.setQuant]

theorem Ext.newNamed_vmeta_ne (x : Ext) (vt : List (Name × Info × SS)) (qt : List (Name × SS)) (v : Nat) (n : Name)
    {d : Nat} (h : d ≠ v) : (x.newNamed vt qt v n).vmeta d = x.vmeta d := by
  unfold Ext.newNamed
  split
  · rw [Ext.annotate_vmeta, Ext.merge_vmeta]; simp [h]
  · rw [Ext.annotate_vmeta]

theorem Ext.newNamed_quant_ne (x : Ext) (vt : List (Name × Info × SS)) (qt : List (Name × SS)) (v : Nat) (n : Name)
    {d : Nat} (h : d ≠ v) : (x.newNamed vt qt v n).quant d = x.quant d := by
  unfold Ext.newNamed
  split
  · rw [Ext.annotate_quant_ne _ _ _ _ h, Ext.merge_quant]
  · rw [Ext.annotate_quant_ne _ _ _ _ h]

theorem Ext.newNamed_vmeta_self (x : Ext) (vt : List (Name × Info × SS)) (qt : List (Name × SS)) (v : Nat) (n : Name)
    (hx : x.vmeta v = []) : (x.newNamed vt qt v n).vmeta v = metaOf vt n := by
  unfold Ext.newNamed metaOf
  cases vt.lookup n with
  | some e => simp only; rw [Ext.annotate_vmeta, Ext.merge_vmeta]; simp [hx]
  | none => simp only; rw [Ext.annotate_vmeta]; exact hx

theorem Ext.newNamed_quant_self (x : Ext) (vt : List (Name × Info × SS)) (qt : List (Name × SS)) (v : Nat) (n : Name)
    (hx : x.quant v = none) : (x.newNamed vt qt v n).quant v = quantOf qt n := by
  unfold Ext.newNamed
  split
  · exact Ext.annotate_quant_self _ _ _ _ (by rw [Ext.merge_quant]; exact hx)
  · exact Ext.annotate_quant_self _ _ _ _ hx

theorem ExtFresh.mono {st st' : Store} {x : Ext} (h : ExtFresh st x) (hle : st.nv ≤ st'.nv) : ExtFresh st' x :=
  fun d hd => h d (Nat.le_trans hle hd)

/-! ### a phase that creates values by name -/

/-- from `(st, x)` to `(st', x')`: names and the extension state of allocated values are kept, every new value got
    the metadata of the entry of its name in `vt` and the annotation of its name in `qt` -/
structure NStep (st st' : Store) (x x' : Ext) (vt : List (Name × Info × SS)) (qt : List (Name × SS)) : Prop where
  le : st.nv ≤ st'.nv
  names : ∀ d, d < st.nv → (st'.vals d).name = (st.vals d).name
  vmeta : ∀ d, d < st.nv → x'.vmeta d = x.vmeta d
  quant : ∀ d, d < st.nv → x'.quant d = x.quant d
  new : ∀ d, st.nv ≤ d → d < st'.nv →
    ∃ n, (st'.vals d).name = some n ∧ x'.vmeta d = metaOf vt n ∧ x'.quant d = quantOf qt n
  fresh : ExtFresh st' x'

theorem NStep.same {st st' : Store} {x : Ext} {vt : List (Name × Info × SS)} {qt : List (Name × SS)}
    (hf : ExtFresh st x) (hnv : st'.nv = st.nv) (hn : ∀ d, (st'.vals d).name = (st.vals d).name) :
    NStep st st' x x vt qt :=
  ⟨by omega, fun d _ => hn d, fun _ _ => rfl, fun _ _ => rfl, fun d h1 h2 => by omega, by
    intro d hd; exact hf d (by omega)⟩

theorem NStep.trans {a b c : Store} {x y z : Ext} {vt : List (Name × Info × SS)} {qt : List (Name × SS)}
    (h1 : NStep a b x y vt qt) (h2 : NStep b c y z vt qt) : NStep a c x z vt qt where
  le := Nat.le_trans h1.le h2.le
  names := fun d hd => by rw [h2.names d (Nat.lt_of_lt_of_le hd h1.le), h1.names d hd]
  vmeta := fun d hd => by rw [h2.vmeta d (Nat.lt_of_lt_of_le hd h1.le), h1.vmeta d hd]
  quant := fun d hd => by rw [h2.quant d (Nat.lt_of_lt_of_le hd h1.le), h1.quant d hd]
  new := fun d h1' h2' => by
    by_cases hb : d < b.nv
    · obtain ⟨n, e1, e2, e3⟩ := h1.new d h1' hb
      exact ⟨n, by rw [h2.names d hb, e1], by rw [h2.vmeta d hb, e2], by rw [h2.quant d hb, e3]⟩
    · exact h2.new d (by omega) h2'
  fresh := h2.fresh

/-- one creation by name -/
theorem NStep.one {st st1 : Store} {x : Ext} (vt : List (Name × Info × SS)) (qt : List (Name × SS)) (n : Name)
    (hf : ExtFresh st x) (hnv : st1.nv = st.nv + 1) (hname : (st1.vals st.nv).name = some n)
    (hkeep : ∀ d, d < st.nv → (st1.vals d).name = (st.vals d).name) :
    NStep st st1 x (x.newNamed vt qt st.nv n) vt qt where
  le := by omega
  names := hkeep
  vmeta := fun d hd => Ext.newNamed_vmeta_ne _ _ _ _ _ (by omega)
  quant := fun d hd => Ext.newNamed_quant_ne _ _ _ _ _ (by omega)
  new := fun d h1 h2 => by
    have : d = st.nv := by omega
    subst this
    exact ⟨n, hname, Ext.newNamed_vmeta_self _ _ _ _ _ (hf _ (Nat.le_refl _)).1,
      Ext.newNamed_quant_self _ _ _ _ _ (hf _ (Nat.le_refl _)).2⟩
  fresh := fun d hd => by
    rw [Ext.newNamed_vmeta_ne _ _ _ _ _ (by omega), Ext.newNamed_quant_ne _ _ _ _ _ (by omega)]
    exact hf d (by omega)

theorem newNamed_nv (st : Store) (vi : List (Name × Info)) (n : Name) : (newNamed st vi n).nv = st.nv + 1 := by
  unfold newNamed; split <;> rfl

theorem newNamed_name_self (st : Store) (vi : List (Name × Info)) (n : Name) :
    ((newNamed st vi n).vals st.nv).name = some n := by
  unfold newNamed
  split <;> simp [Store.alloc, Store.modify]

theorem newNamed_name_lt (st : Store) (vi : List (Name × Info)) (n : Name) (d : Nat) (hd : d < st.nv) :
    ((newNamed st vi n).vals d).name = (st.vals d).name := by
  have hne : d ≠ st.nv := by omega
  unfold newNamed
  split <;> simp [Store.alloc, Store.modify, hne]

theorem newInit_nv (st : Store) (vi : List (Name × Info)) (t : TensorP) (tid : Nat) :
    (newInit st vi t tid).nv = st.nv + 1 := by
  unfold newInit; split <;> rfl

theorem newInit_name_self (st : Store) (vi : List (Name × Info)) (t : TensorP) (tid : Nat) :
    ((newInit st vi t tid).vals st.nv).name = some t.name := by
  unfold newInit
  split <;> simp [Store.alloc, Store.modify]

theorem newInit_name_lt (st : Store) (vi : List (Name × Info)) (t : TensorP) (tid : Nat) (d : Nat) (hd : d < st.nv) :
    ((newInit st vi t tid).vals d).name = (st.vals d).name := by
  have hne : d ≠ st.nv := by omega
  unfold newInit
  split <;> simp [Store.alloc, Store.modify, hne]

theorem deserInitsE_nstep (vt : List (Name × Info × SS)) (qt : List (Name × SS)) :
    ∀ (ts : List TensorP) (st : Store) (x : Ext) (tbl : Table), ExtFresh st x →
      NStep st (deserInitsE st x tbl vt qt ts).1 x (deserInitsE st x tbl vt qt ts).2.1 vt qt
  | [], st, x, tbl, hf => NStep.same hf rfl (fun _ => rfl)
  | t :: ts, st, x, tbl, hf => by
    simp only [deserInitsE]
    by_cases hn : t.name = ""
    · simp only [hn, if_true]
      exact deserInitsE_nstep vt qt ts st x tbl hf
    · simp only [hn, if_false]
      cases hl : tbl.lookup t.name with
      | some v =>
        simp only
        have h1 : NStep st ((st.allocTensor { name := some t.name, data := t.data, ty := t.ty, sh := t.sh }).1.modify v
            fun c => { c with const := some st.nt }) x x vt qt :=
          NStep.same hf rfl (fun d => by
            simp only [Store.modify, Store.allocTensor]
            split <;> rfl)
        exact h1.trans (deserInitsE_nstep vt qt ts _ x tbl h1.fresh)
      | none =>
        simp only
        have h1 : NStep st (newInit (st.allocTensor { name := some t.name, data := t.data, ty := t.ty, sh := t.sh }).1
            (eraseVT vt) t st.nt) x (x.newNamed vt qt st.nv t.name) vt qt :=
          NStep.one vt qt t.name hf (newInit_nv _ _ _ _) (newInit_name_self _ _ _ _)
            (fun d hd => newInit_name_lt _ _ _ _ d hd)
        exact h1.trans (deserInitsE_nstep vt qt ts _ _ _ h1.fresh)

theorem declareOutputsE_nstep (vt : List (Name × Info × SS)) (qt : List (Name × SS)) :
    ∀ (ns : List Name) (st : Store) (x : Ext) (tbl : Table) (st' : Store) (x' : Ext) (tbl' : Table), ExtFresh st x →
      declareOutputsE st x tbl vt qt ns = .ok (st', x', tbl') → NStep st st' x x' vt qt
  | [], st, x, tbl, st', x', tbl', hf, h => by
    simp only [declareOutputsE, Except.ok.injEq, Prod.mk.injEq] at h
    obtain ⟨rfl, rfl, _⟩ := h
    exact NStep.same hf rfl (fun _ => rfl)
  | n :: ns, st, x, tbl, st', x', tbl', hf, h => by
    simp only [declareOutputsE] at h
    by_cases hn : n = ""
    · simp only [hn, if_true] at h
      exact declareOutputsE_nstep vt qt ns st x tbl st' x' tbl' hf h
    · simp only [hn, if_false] at h
      cases hl : tbl.lookup n with
      | some v => simp [hl] at h
      | none =>
        simp only [hl] at h
        have h1 : NStep st (newNamed st (eraseVT vt) n) x (x.newNamed vt qt st.nv n) vt qt :=
          NStep.one vt qt n hf (newNamed_nv _ _ _) (newNamed_name_self _ _ _) (fun d hd => newNamed_name_lt _ _ _ d hd)
        exact h1.trans (declareOutputsE_nstep vt qt ns _ _ _ st' x' tbl' h1.fresh h)

theorem declareNodesE_nstep (vt : List (Name × Info × SS)) (qt : List (Name × SS)) :
    ∀ (ns : List NodeE) (st : Store) (x : Ext) (tbl : Table) (st' : Store) (x' : Ext) (tbl' : Table), ExtFresh st x →
      declareNodesE st x tbl vt qt ns = .ok (st', x', tbl') → NStep st st' x x' vt qt
  | [], st, x, tbl, st', x', tbl', hf, h => by
    simp only [declareNodesE, Except.ok.injEq, Prod.mk.injEq] at h
    obtain ⟨rfl, rfl, _⟩ := h
    exact NStep.same hf rfl (fun _ => rfl)
  | n :: ns, st, x, tbl, st', x', tbl', hf, h => by
    simp only [declareNodesE] at h
    split at h
    · simp at h
    · rename_i st1 x1 tbl1 h1
      have s1 := declareOutputsE_nstep vt qt n.outputs st x tbl st1 x1 tbl1 hf h1
      exact s1.trans (declareNodesE_nstep vt qt ns st1 x1 tbl1 st' x' tbl' s1.fresh h)

theorem resolveInputsE_nstep (outer : List Table) (vt : List (Name × Info × SS)) (qt : List (Name × SS)) :
    ∀ (ns : List Name) (st : Store) (x : Ext) (top : Table), ExtFresh st x →
      NStep st (resolveInputsE st x top outer vt qt ns).1 x (resolveInputsE st x top outer vt qt ns).2.1 vt qt
  | [], st, x, top, hf => NStep.same hf rfl (fun _ => rfl)
  | n :: ns, st, x, top, hf => by
    simp only [resolveInputsE]
    by_cases hn : n = ""
    · simp only [hn, if_true]
      exact resolveInputsE_nstep outer vt qt ns st x top hf
    · simp only [hn, if_false]
      cases hl : resolve n (top :: outer) with
      | some v =>
        simp only
        exact resolveInputsE_nstep outer vt qt ns st x top hf
      | none =>
        simp only
        have h1 : NStep st (newNamed st (eraseVT vt) n) x (x.newNamed vt qt st.nv n) vt qt :=
          NStep.one vt qt n hf (newNamed_nv _ _ _) (newNamed_name_self _ _ _) (fun d hd => newNamed_name_lt _ _ _ d hd)
        exact h1.trans (resolveInputsE_nstep outer vt qt ns _ _ _ h1.fresh)

/-! ### graph inputs (positional) -/

theorem deserInputsE_ext (qt : List (Name × SS)) : ∀ (is : List VInfoE) (st : Store) (x : Ext), ExtFresh st x →
    (deserInputsE st x qt is).1.nv = st.nv + is.length ∧
    (∀ d, d < st.nv → (deserInputsE st x qt is).2.1.vmeta d = x.vmeta d ∧
      (deserInputsE st x qt is).2.1.quant d = x.quant d) ∧
    (∀ i (h : i < is.length), (deserInputsE st x qt is).2.1.vmeta (st.nv + i) = ssUpdate [] is[i].mprops ∧
      (deserInputsE st x qt is).2.1.quant (st.nv + i) = quantOf qt is[i].name) ∧
    ExtFresh (deserInputsE st x qt is).1 (deserInputsE st x qt is).2.1
  | [], st, x, hf => ⟨rfl, fun _ _ => ⟨rfl, rfl⟩, fun i h => by simp at h, hf⟩
  | i :: is, st, x, hf => by
    simp only [deserInputsE]
    have hf1 : ExtFresh (st.alloc { name := some i.name, info := i.info }).1
        ((x.merge (st.alloc { name := some i.name, info := i.info }).2 i.mprops).annotate qt
          (st.alloc { name := some i.name, info := i.info }).2 i.name) := by
      intro d hd
      have hd' : st.nv + 1 ≤ d := hd
      have hne : d ≠ st.nv := by omega
      rw [Ext.annotate_vmeta, Ext.merge_vmeta, Ext.annotate_quant_ne _ _ _ _ (by simpa [Store.alloc] using hne),
        Ext.merge_quant]
      simp only [Store.alloc, hne, if_false]
      exact hf d (by omega)
    obtain ⟨a, b, c, e⟩ := deserInputsE_ext qt is _ _ hf1
    have hnv1 : (st.alloc { name := some i.name, info := i.info }).1.nv = st.nv + 1 := rfl
    refine ⟨by rw [a, hnv1]; simp; omega, fun d hd => ?_, fun j hj => ?_, e⟩
    · obtain ⟨b1, b2⟩ := b d (by rw [hnv1]; omega)
      have hne : d ≠ st.nv := by omega
      rw [b1, b2, Ext.annotate_vmeta, Ext.merge_vmeta, Ext.annotate_quant_ne _ _ _ _ (by simpa [Store.alloc] using hne),
        Ext.merge_quant]
      simp [Store.alloc, hne]
    · cases j with
      | zero =>
        obtain ⟨b1, b2⟩ := b st.nv (by rw [hnv1]; omega)
        simp only [Nat.add_zero, List.getElem_cons_zero]
        rw [b1, b2, Ext.annotate_vmeta, Ext.merge_vmeta]
        refine ⟨by simp [Store.alloc, (hf st.nv (Nat.le_refl _)).1], ?_⟩
        exact Ext.annotate_quant_self _ _ _ _ (by rw [Ext.merge_quant]; exact (hf st.nv (Nat.le_refl _)).2)
      | succ k =>
        have := c k (by simpa using hj)
        simp only [List.getElem_cons_succ]
        rw [hnv1] at this
        rw [show st.nv + (k + 1) = st.nv + 1 + k by omega]
        exact this

/-! ### graph outputs -/

theorem outsE_meta (V : Nat → ValueS) (x : Ext) (σ : Nat → Nat) (hwf : ExtWF x) :
    ∀ (vs : List Nat) (s : Store) (xs : Ext) (tbl : Table),
      (deserOutputsE s xs tbl (vs.map (viOfE V x))).2.2 = vs.map σ → ExtFresh s xs → TableLt s tbl →
      (∀ a ∈ vs, ∀ b ∈ vs, σ a = σ b → x.vmeta a = x.vmeta b) →
      (∀ v ∈ vs, xs.vmeta (σ v) = [] ∨ xs.vmeta (σ v) = normM (x.vmeta v)) →
      (∀ v ∈ vs, (deserOutputsE s xs tbl (vs.map (viOfE V x))).2.1.vmeta (σ v) = normM (x.vmeta v)) ∧
      (∀ d, (∀ v ∈ vs, σ v ≠ d) → (deserOutputsE s xs tbl (vs.map (viOfE V x))).2.1.vmeta d = xs.vmeta d) ∧
      (deserOutputsE s xs tbl (vs.map (viOfE V x))).2.1.quant = xs.quant ∧
      ExtFresh (deserOutputsE s xs tbl (vs.map (viOfE V x))).1 (deserOutputsE s xs tbl (vs.map (viOfE V x))).2.1
  | [], s, xs, tbl, _, hf, _, _, _ => ⟨fun v hv => by simp at hv, fun _ _ => rfl, rfl, hf⟩
  | v :: rest, s, xs, tbl, heq, hf, hT, hcoh, hpre => by
    have hpf := meta_payload_fix (x.vmeta v) (hwf v).1
    have hmerge : ∀ (m : SS), (m = [] ∨ m = normM (x.vmeta v)) → ssUpdate m (ssSorted (x.vmeta v)) = normM (x.vmeta v) := by
      intro m hm
      rcases hm with rfl | rfl
      · rfl
      · exact hpf.2.1
    simp only [List.map_cons, deserOutputsE] at heq ⊢
    have hvn : (viOfE V x v).name = nm V v := rfl
    have hvm : (viOfE V x v).mprops = ssSorted (x.vmeta v) := rfl
    simp only [hvn, hvm] at heq ⊢
    cases hl : tbl.lookup (nm V v) with
    | some u =>
      simp only [hl, List.cons.injEq] at heq ⊢
      obtain ⟨hu, heq'⟩ := heq
      subst hu
      have hult : σ v < s.nv := hT _ (lookup_mem_tbl hl)
      have hf1 : ExtFresh (s.modify (σ v) fun c => { c with info := (viOfE V x v).info })
          (xs.merge (σ v) (ssSorted (x.vmeta v))) := by
        intro d hd
        have hd' : s.nv ≤ d := hd
        rw [Ext.merge_vmeta, Ext.merge_quant]
        have : d ≠ σ v := by omega
        simp only [this, if_false]
        exact hf d hd'
      obtain ⟨a, b, c, e⟩ := outsE_meta V x σ hwf rest _ (xs.merge (σ v) (ssSorted (x.vmeta v))) tbl heq' hf1
        (fun e he => hT e he)
        (fun a ha b hb => hcoh a (by simp [ha]) b (by simp [hb]))
        (fun w hw => by
          rw [Ext.merge_vmeta]
          by_cases hwu : σ w = σ v
          · simp only [hwu, if_true]
            right
            have : x.vmeta w = x.vmeta v := hcoh w (by simp [hw]) v (by simp) hwu
            rw [this]
            exact hmerge _ (hpre v (by simp))
          · simp only [hwu, if_false]
            exact hpre w (by simp [hw]))
      refine ⟨fun w hw => ?_, fun d hd => ?_, by rw [c, Ext.merge_quant], e⟩
      · simp only [List.mem_cons] at hw
        by_cases hr : ∃ w' ∈ rest, σ w' = σ w
        · obtain ⟨w', hw', he⟩ := hr
          have hm : x.vmeta w' = x.vmeta w := hcoh w' (by simp [hw']) w (by
            rcases hw with rfl | hw
            · simp
            · simp [hw]) he
          rw [← he, ← hm]
          exact a w' hw'
        · rcases hw with rfl | hw
          · rw [b (σ w) (fun w' hw' he => hr ⟨w', hw', he⟩), Ext.merge_vmeta]
            simp only [if_true]
            exact hmerge _ (hpre w (by simp))
          · exact absurd ⟨w, hw, rfl⟩ hr
      · rw [b d (fun w hw => hd w (by simp [hw])), Ext.merge_vmeta]
        have : d ≠ σ v := fun e' => hd v (by simp) e'.symm
        simp [this]
    | none =>
      simp only [hl, List.cons.injEq] at heq ⊢
      obtain ⟨hu, heq'⟩ := heq
      have hu' : s.nv = σ v := hu
      have hf1 : ExtFresh (s.alloc { name := some (nm V v), info := (viOfE V x v).info }).1
          (xs.merge (s.alloc { name := some (nm V v), info := (viOfE V x v).info }).2 (ssSorted (x.vmeta v))) := by
        intro d hd
        have hd' : s.nv + 1 ≤ d := hd
        rw [Ext.merge_vmeta, Ext.merge_quant]
        have : d ≠ s.nv := by omega
        simp only [Store.alloc, this, if_false]
        exact hf d (by omega)
      have hmv : (xs.merge (s.alloc { name := some (nm V v), info := (viOfE V x v).info }).2 (ssSorted (x.vmeta v))).vmeta
          (σ v) = normM (x.vmeta v) := by
        rw [Ext.merge_vmeta, ← hu']
        simp only [Store.alloc, if_true]
        rw [(hf s.nv (Nat.le_refl _)).1]
        rfl
      obtain ⟨a, b, c, e⟩ := outsE_meta V x σ hwf rest _ _ tbl heq' hf1
        (fun e he => Nat.lt_succ_of_lt (hT e he))
        (fun a ha b hb => hcoh a (by simp [ha]) b (by simp [hb]))
        (fun w hw => by
          by_cases hwu : σ w = σ v
          · right
            have : x.vmeta w = x.vmeta v := hcoh w (by simp [hw]) v (by simp) hwu
            rw [hwu, this]; exact hmv
          · rw [Ext.merge_vmeta]
            have : σ w ≠ (s.alloc { name := some (nm V v), info := (viOfE V x v).info }).2 := by
              show σ w ≠ s.nv
              rw [hu']; exact hwu
            simp only [this, if_false]
            exact hpre w (by simp [hw]))
      refine ⟨fun w hw => ?_, fun d hd => ?_, by rw [c, Ext.merge_quant], e⟩
      · simp only [List.mem_cons] at hw
        by_cases hr : ∃ w' ∈ rest, σ w' = σ w
        · obtain ⟨w', hw', he⟩ := hr
          have hm : x.vmeta w' = x.vmeta w := hcoh w' (by simp [hw']) w (by
            rcases hw with rfl | hw
            · simp
            · simp [hw]) he
          rw [← he, ← hm]
          exact a w' hw'
        · rcases hw with rfl | hw
          · rw [b (σ w) (fun w' hw' he => hr ⟨w', hw', he⟩)]
            exact hmv
          · exact absurd ⟨w, hw, rfl⟩ hr
      · rw [b d (fun w hw => hd w (by simp [hw])), Ext.merge_vmeta]
        have : d ≠ (s.alloc { name := some (nm V v), info := (viOfE V x v).info }).2 := by
          show d ≠ s.nv
          intro e'; exact hd v (by simp) (by rw [← hu', e'])
        rw [if_neg this]

end IrVerif.Scope

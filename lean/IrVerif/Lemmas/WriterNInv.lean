/-
C09 helper development (general model): well-formed configurations and the structural invariant.
-/
import IrVerif.Lemmas.WriterN
namespace IrVerif.WriterN

/-- state of pool `q` (the default — `notCreated`, empty — beyond the list) -/
def State.pl (s : State) (q : Nat) : PoolSt := s.pools.getD q default

theorem getD_set_pool (ps : List PoolSt) (q q' : Nat) (P' : PoolSt) :
    (ps.set q P').getD q' default = if q' = q ∧ q < ps.length then P' else ps.getD q' default := by
  simp only [List.getD_eq_getElem?_getD, List.getElem?_set]
  by_cases h : q = q'
  · subst h
    by_cases h2 : q < ps.length
    · simp [h2]
    · simp [h2]
  · have : ¬ q' = q := fun e => h e.symm
    simp [h, this]

theorem getElem?_lt {α : Type} {l : List α} {i : Nat} {a : α} (h : l[i]? = some a) : i < l.length := by
  rcases Nat.lt_or_ge i l.length with h' | h'
  · exact h'
  · simp [List.getElem?_eq_none h'] at h

theorem pl_of_get {s : State} {q : Nat} {P : PoolSt} (h : s.pools[q]? = some P) : s.pl q = P := by
  simp [State.pl, h]

theorem pl_set_self {s : State} {q : Nat} {P P' : PoolSt} (h : s.pools[q]? = some P) :
    (s.pools.set q P').getD q default = P' := by
  rw [getD_set_pool]; simp [getElem?_lt h]

theorem pl_set_ne {ps : List PoolSt} {q q' : Nat} {P' : PoolSt} (h : q' ≠ q) :
    (ps.set q P').getD q' default = ps.getD q' default := by
  rw [getD_set_pool]; simp [h]

structure WF (cfg : Cfg) : Prop where
  pools_pos : 0 < cfg.nPools
  root : (cfg.pool 0).parent = none
  nonroot : ∀ q, q < cfg.nPools → q ≠ 0 → ∃ jp, (cfg.pool q).parent = some jp
  size_pos : ∀ q, q < cfg.nPools → 0 < (cfg.pool q).size
  jobs_pos : ∀ q, q < cfg.nPools → 0 < (cfg.pool q).jobs.length
  jobs_nodup : ∀ q, (cfg.pool q).jobs.Nodup
  job_pool : ∀ q j, j ∈ (cfg.pool q).jobs → j < cfg.nJobs ∧ (cfg.jobc j).pool = q ∧ q < cfg.nPools
  pool_job : ∀ j, j < cfg.nJobs → j ∈ (cfg.pool (cfg.jobc j).pool).jobs
  start_lt : ∀ j, j < cfg.nJobs → (cfg.jobc j).sub = none → (cfg.jobc j).start < cfg.n
  start_job : ∀ j, j < cfg.nJobs → (cfg.jobc j).sub = none → cfg.job (cfg.jobc j).start = j
  start_first : ∀ j i, j < cfg.nJobs → (cfg.jobc j).sub = none → i < (cfg.jobc j).start → cfg.job i ≠ j
  job_lt : ∀ i, i < cfg.n → cfg.job i < cfg.nJobs
  job_serial : ∀ i, i < cfg.n → (cfg.jobc (cfg.job i)).sub = none
  obj_lt : ∀ i, i < cfg.n → cfg.obj i < cfg.nObjs
  contig : ∀ i k, i < k → k < cfg.n → cfg.job k = cfg.job i → cfg.job (i + 1) = cfg.job i
  sub_pool : ∀ j q', j < cfg.nJobs → (cfg.jobc j).sub = some q' →
    q' < cfg.nPools ∧ (cfg.pool q').parent = some j ∧ (cfg.jobc j).pool < q'
  parent_sub : ∀ q jp, q < cfg.nPools → (cfg.pool q).parent = some jp →
    jp < cfg.nJobs ∧ (cfg.jobc jp).sub = some q

structure SInv (cfg : Cfg) (s : State) : Prop where
  tasks_len : s.tasks.length = cfg.n
  futs_len : s.futs.length = cfg.nJobs
  locks_len : s.tLocks.length = cfg.nObjs
  pools_len : s.pools.length = cfg.nPools
  cbin_len : s.cbIn.length = cfg.nPools
  q_nodup : ∀ q, (s.pl q).queue.Nodup
  q_pending : ∀ q j, j ∈ (s.pl q).queue → s.futs[j]? = some .pending ∧ (cfg.jobc j).pool = q
  started : ∀ i p, s.tasks[i]? = some p → p ≠ .notStarted → s.futs[cfg.job i]? ≠ some .pending
  submitting : ∀ q k, (s.pl q).owner = .submit k →
    (∀ j ∈ (s.pl q).queue, ∃ k', k' < k ∧ (cfg.pool q).jobs[k']? = some j) ∧
    (∀ k' j, k ≤ k' → (cfg.pool q).jobs[k']? = some j → s.futs[j]? = some .pending)
  order : ∀ i k p, i < k → cfg.job k = cfg.job i → s.tasks[k]? = some p → p ≠ .notStarted →
    s.tasks[i]? = some (.done true)
  created : ∀ q jp, (cfg.pool q).parent = some jp → (s.pl q).owner ≠ .notCreated →
    s.futs[jp]? ≠ some .pending
  fresh : ∀ q, (s.pl q).owner = .notCreated →
    (s.pl q).queue = [] ∧ ∀ j ∈ (cfg.pool q).jobs, s.futs[j]? = some .pending

@[simp] theorem default_queue : (default : PoolSt).queue = [] := rfl
@[simp] theorem default_owner : (default : PoolSt).owner = .notCreated := rfl
@[simp] theorem default_idle : (default : PoolSt).idle = 0 := rfl
@[simp] theorem default_exited : (default : PoolSt).exited = 0 := rfl
@[simp] theorem default_shutdown : (default : PoolSt).shutdown = false := rfl
@[simp] theorem default_collected : (default : PoolSt).collected = [] := rfl

theorem pl_default_of_ge {s : State} {q : Nat} (h : s.pools.length ≤ q) : s.pl q = default := by
  simp [State.pl, List.getElem?_eq_none h]

theorem pl_lt_of_owner {s : State} {q : Nat} (h : (s.pl q).owner ≠ .notCreated) : q < s.pools.length := by
  rcases Nat.lt_or_ge q s.pools.length with h' | h'
  · exact h'
  · rw [pl_default_of_ge h'] at h; exact absurd rfl h

theorem pl_lt_of_mem {s : State} {q j : Nat} (h : j ∈ (s.pl q).queue) : q < s.pools.length := by
  rcases Nat.lt_or_ge q s.pools.length with h' | h'
  · exact h'
  · rw [pl_default_of_ge h'] at h; simp at h

theorem hasNext_iff {cfg : Cfg} {i : Nat} :
    cfg.hasNext i = true ↔ i + 1 < cfg.n ∧ cfg.job (i + 1) = cfg.job i := by
  simp [Cfg.hasNext]

theorem SInv.next_notStarted {cfg : Cfg} {s : State} (h : SInv cfg s) {i : Nat} {p : Pc}
    (hi : s.tasks[i]? = some p) (hp : p ≠ .done true) (hn : cfg.hasNext i = true) :
    s.tasks[i + 1]? = some .notStarted := by
  obtain ⟨hlt, hj⟩ := hasNext_iff.1 hn
  have hlen := h.tasks_len
  have : i + 1 < s.tasks.length := by omega
  obtain ⟨q, hq⟩ : ∃ q, s.tasks[i + 1]? = some q := ⟨s.tasks[i + 1], by simp [this]⟩
  by_cases hqn : q = .notStarted
  · simpa [hqn] using hq
  · have := h.order i (i + 1) q (by omega) hj hq hqn
    rw [hi] at this; simp at this; exact absurd this hp

theorem init_pl (cfg : Cfg) (q : Nat) : (init cfg).pl q =
    if q < cfg.nPools then initPool cfg q else default := by
  simp only [State.pl, init, List.getD_eq_getElem?_getD, List.getElem?_map, List.getElem?_range]
  by_cases h : q < cfg.nPools
  · simp [h, List.getElem?_range h]
  · have : cfg.nPools ≤ q := by omega
    simp [h, List.getElem?_eq_none, this]

theorem SInv_init {cfg : Cfg} (wf : WF cfg) : SInv cfg (init cfg) := by
  have hq : ∀ q, ((init cfg).pl q).queue = [] := by
    intro q; rw [init_pl]; split
    · unfold initPool; split <;> rfl
    · rfl
  have hf : ∀ j : Nat, j < cfg.nJobs → (init cfg).futs[j]? = some .pending := by
    intro j hj; simp [init, hj]
  refine ⟨by simp [init], by simp [init], by simp [init], by simp [init], by simp [init],
    fun q => by rw [hq]; simp, fun q j hj => by rw [hq] at hj; simp at hj, ?_, ?_, ?_, ?_, ?_⟩
  · intro i p hi hp
    simp [init, List.getElem?_replicate] at hi
    exact absurd hi.2.symm hp
  · intro q k hk
    refine ⟨fun j hj => by rw [hq] at hj; simp at hj, fun k' j _ hj => ?_⟩
    have hmem : j ∈ (cfg.pool q).jobs := List.mem_of_getElem? hj
    exact hf j (wf.job_pool q j hmem).1
  · intro i k p _ _ hk hp
    simp [init, List.getElem?_replicate] at hk
    exact absurd hk.2.symm hp
  · intro q jp hpar hown
    exfalso
    rw [init_pl] at hown
    split at hown
    · unfold initPool at hown
      split at hown
      · rename_i h0; subst h0; rw [wf.root] at hpar; simp at hpar
      · exact hown rfl
    · exact hown rfl
  · intro q _
    exact ⟨hq q, fun j hj => hf j (wf.job_pool q j hj).1⟩


/-- `SInv` reads `tasks`, `futs`, lengths, and of every pool only `owner` and `queue` -/
theorem SInv_congr {cfg : Cfg} {s s' : State} (h : SInv cfg s) (ht : s'.tasks = s.tasks)
    (hf : s'.futs = s.futs) (hl : s'.tLocks.length = s.tLocks.length)
    (hpl : s'.pools.length = s.pools.length) (hc : s'.cbIn.length = s.cbIn.length)
    (ho : ∀ q, (s'.pl q).owner = (s.pl q).owner) (hq : ∀ q, (s'.pl q).queue = (s.pl q).queue) :
    SInv cfg s' := by
  refine ⟨by rw [ht]; exact h.tasks_len, by rw [hf]; exact h.futs_len, by rw [hl]; exact h.locks_len,
    by rw [hpl]; exact h.pools_len, by rw [hc]; exact h.cbin_len, fun q => by rw [hq]; exact h.q_nodup q,
    fun q j hj => by rw [hq] at hj; rw [hf]; exact h.q_pending q j hj,
    by rw [ht, hf]; exact h.started, ?_, by rw [ht]; exact h.order, ?_, ?_⟩
  · intro q k hk
    rw [ho] at hk; rw [hq, hf]; exact h.submitting q k hk
  · intro q jp hp hown
    rw [ho] at hown; rw [hf]; exact h.created q jp hp hown
  · intro q hown
    rw [ho] at hown; rw [hq, hf]; exact h.fresh q hown

theorem addIdle_length (ps : List PoolSt) (q : Nat) : (addIdle ps q).length = ps.length := by
  simp [addIdle]

theorem addIdle_owner (ps : List PoolSt) (q q' : Nat) :
    ((addIdle ps q).getD q' default).owner = (ps.getD q' default).owner := by
  unfold addIdle
  simp only [getD_set_pool]
  split
  · rename_i h; rw [h.1]
  · rfl

theorem addIdle_queue (ps : List PoolSt) (q q' : Nat) :
    ((addIdle ps q).getD q' default).queue = (ps.getD q' default).queue := by
  unfold addIdle
  simp only [getD_set_pool]
  split
  · rename_i h; rw [h.1]
  · rfl

theorem SInv_set_task {cfg : Cfg} {s : State} (h : SInv cfg s) {i : Nat} {p x : Pc}
    (hi : s.tasks[i]? = some p) (hp : p ≠ .notStarted) (hpd : p ≠ .done true) :
    SInv cfg { s with tasks := s.tasks.set i x } := by
  refine ⟨by simp [h.tasks_len], h.futs_len, h.locks_len, h.pools_len, h.cbin_len, h.q_nodup,
    h.q_pending, ?_, h.submitting, ?_, h.created, h.fresh⟩
  · intro k q hk hq
    by_cases hik : i = k
    · subst hik; exact h.started _ p hi hp
    · simp only [List.getElem?_set, hik, if_false] at hk
      exact h.started k q hk hq
  · intro a k q hak hj hk hq
    have ha : a ≠ k := by omega
    by_cases hik : i = k
    · subst hik
      have := h.order a i p hak hj hi hp
      simp only [List.getElem?_set, if_neg (Ne.symm ha)]
      exact this
    · simp only [List.getElem?_set, hik, if_false] at hk
      have := h.order a k q hak hj hk hq
      by_cases hia : i = a
      · subst hia; rw [hi] at this; simp at this; exact absurd this hpd
      · simp only [List.getElem?_set, hia, if_false]; exact this

theorem SInv_wake {cfg : Cfg} {s : State} (h : SInv cfg s) :
    SInv cfg { s with tasks := s.tasks.map wake } := by
  refine ⟨by simp [h.tasks_len], h.futs_len, h.locks_len, h.pools_len, h.cbin_len, h.q_nodup,
    h.q_pending, ?_, h.submitting, ?_, h.created, h.fresh⟩
  · intro k q hk hq
    simp only [List.getElem?_map, Option.map_eq_some_iff] at hk
    obtain ⟨q0, hq0, rfl⟩ := hk
    exact h.started k q0 hq0 (fun e => hq (by simp [e, wake]))
  · intro a k q hak hj hk hq
    simp only [List.getElem?_map, Option.map_eq_some_iff] at hk ⊢
    obtain ⟨q0, hq0, rfl⟩ := hk
    exact ⟨_, h.order a k q0 hak hj hq0 (fun e => hq (by simp [e, wake])), rfl⟩

theorem SInv_start_next {cfg : Cfg} {s : State} (h : SInv cfg s) {i : Nat} {x : Pc}
    (hi : s.tasks[i]? = some (.done true)) (hn : cfg.hasNext i = true)
    (hnext : s.tasks[i + 1]? = some .notStarted) :
    SInv cfg { s with tasks := s.tasks.set (i + 1) x } := by
  obtain ⟨hlt, hj⟩ := hasNext_iff.1 hn
  refine ⟨by simp [h.tasks_len], h.futs_len, h.locks_len, h.pools_len, h.cbin_len, h.q_nodup,
    h.q_pending, ?_, h.submitting, ?_, h.created, h.fresh⟩
  · intro k q hk hq
    by_cases hik : i + 1 = k
    · subst hik; rw [hj]; exact h.started i _ hi (by simp)
    · simp only [List.getElem?_set, hik, if_false] at hk
      exact h.started k q hk hq
  · intro a k q hak hjk hk hq
    have ha : a ≠ k := by omega
    by_cases hik : i + 1 = k
    · subst hik
      have hne : ¬ (i + 1 = a) := by omega
      simp only [List.getElem?_set, hne, if_false]
      by_cases hai : a = i
      · subst hai; exact hi
      · exact h.order a i _ (by omega) (by rw [← hjk, hj]) hi (by simp)
    · simp only [List.getElem?_set, hik, if_false] at hk
      have := h.order a k q hak hjk hk hq
      by_cases hia : i + 1 = a
      · subst hia; rw [hnext] at this; simp at this
      · simp only [List.getElem?_set, hia, if_false]; exact this

/-- a future that is not pending is set to a value that is not pending -/
theorem SInv_set_fut {cfg : Cfg} {s : State} (h : SInv cfg s) {j0 : Nat} {f : Fut}
    (hnp : s.futs[j0]? ≠ some .pending) (hf : f ≠ .pending) :
    SInv cfg { s with futs := s.futs.set j0 f } := by
  have keep : ∀ j : Nat, s.futs[j]? = some .pending → (s.futs.set j0 f)[j]? = some .pending := by
    intro j hj
    have hne : j0 ≠ j := fun e => hnp (e ▸ hj)
    simp only [List.getElem?_set, hne, if_false]; exact hj
  have nopend : ∀ j : Nat, s.futs[j]? ≠ some .pending → (s.futs.set j0 f)[j]? ≠ some .pending := by
    intro j hj
    simp only [List.getElem?_set]
    split
    · split
      · simp [hf]
      · simp
    · exact hj
  refine ⟨h.tasks_len, by simp [h.futs_len], h.locks_len, h.pools_len, h.cbin_len, h.q_nodup, ?_, ?_,
    ?_, h.order, ?_, ?_⟩
  · intro q j hj
    exact ⟨keep j (h.q_pending q j hj).1, (h.q_pending q j hj).2⟩
  · intro k q hk hq; exact nopend _ (h.started k q hk hq)
  · intro q k hk
    obtain ⟨h1, h2⟩ := h.submitting q k hk
    exact ⟨h1, fun k' j hkk hj => keep j (h2 k' j hkk hj)⟩
  · intro q jp hp hown; exact nopend _ (h.created q jp hp hown)
  · intro q hown
    obtain ⟨h1, h2⟩ := h.fresh q hown
    exact ⟨h1, fun j hj => keep j (h2 j hj)⟩

theorem finishTask_cases (cfg : Cfg) (s : State) (i : Nat) (ok : Bool) :
    (ok = true ∧ cfg.hasNext i = true ∧
      finishTask cfg s i ok =
        { s with tasks := (s.tasks.set i (.done true)).set (i + 1) (firstPc cfg (cfg.poolOf i)) })
    ∨ ((ok = false ∨ cfg.hasNext i = false) ∧
      finishTask cfg s i ok =
        { s with tasks := s.tasks.set i (.done ok)
                 futs := s.futs.set (cfg.job i) (if ok then .ok else .err)
                 pools := addIdle s.pools (cfg.poolOf i) }) := by
  unfold finishTask
  cases ok <;> cases cfg.hasNext i <;> simp

theorem SInv_finish {cfg : Cfg} {s : State} (h : SInv cfg s) {i : Nat} {p : Pc} (ok : Bool)
    (hi : s.tasks[i]? = some p) (hp : p ≠ .notStarted) (hpd : p ≠ .done true) :
    SInv cfg (finishTask cfg s i ok) := by
  have hlt := getElem?_lt hi
  rcases finishTask_cases cfg s i ok with ⟨rfl, hn, e⟩ | ⟨_, e⟩
  · rw [e]
    have h1 := SInv_set_task (x := .done true) h hi hp hpd
    have hnext := h.next_notStarted hi hpd hn
    have := SInv_start_next (i := i) (x := firstPc cfg (cfg.poolOf i)) h1 (by simp [hlt]) hn
      (by simp only [List.getElem?_set]; simp; exact hnext)
    simpa using this
  · rw [e]
    have h1 := SInv_set_task (x := .done ok) h hi hp hpd
    have h2 := SInv_set_fut (j0 := cfg.job i) (f := if ok then .ok else .err) h1
      (h.started i p hi hp) (by cases ok <;> simp)
    refine SInv_congr h2 rfl rfl rfl (by simp [addIdle_length]) rfl (fun q => ?_) (fun q => ?_)
    · exact addIdle_owner _ _ _
    · exact addIdle_queue _ _ _


theorem pl_upd {s : State} {q : Nat} {P P' : PoolSt} (h : s.pools[q]? = some P) (q' : Nat) :
    (s.pools.set q P').getD q' default = if q' = q then P' else s.pl q' := by
  rw [getD_set_pool]
  by_cases e : q' = q
  · simp [e, getElem?_lt h]
  · simp [e, State.pl]

theorem nodup_get_inj {l : List Nat} (hn : l.Nodup) {a b x : Nat} (ha : l[a]? = some x)
    (hb : l[b]? = some x) : a = b := by
  have hla := getElem?_lt ha
  have hlb := getElem?_lt hb
  rw [List.getElem?_eq_getElem hla] at ha
  rw [List.getElem?_eq_getElem hlb] at hb
  simp at ha hb
  exact (List.getElem_inj hn).mp (ha.trans hb.symm)

theorem foldl_set_length (q : List Nat) (fs : List Fut) :
    (q.foldl (fun fs j => fs.set j Fut.cancelled) fs).length = fs.length := by
  induction q generalizing fs with
  | nil => rfl
  | cons a q ih => simp [ih]

theorem foldl_set_get (q : List Nat) (fs : List Fut) (j : Nat) :
    (q.foldl (fun fs j => fs.set j Fut.cancelled) fs)[j]? =
      if j ∈ q ∧ j < fs.length then some Fut.cancelled else fs[j]? := by
  induction q generalizing fs with
  | nil => simp
  | cons a q ih =>
      simp only [List.foldl_cons, ih, List.length_set, List.mem_cons, List.getElem?_set]
      by_cases h1 : j ∈ q <;> by_cases h2 : j < fs.length <;> by_cases h3 : a = j <;>
        simp_all <;> omega

/-- pool states change, queues stay, owners stay or move on to `collect` / `join` / `closed` -/
theorem SInv_pools {cfg : Cfg} {s : State} (h : SInv cfg s) {ps : List PoolSt}
    (hlen : ps.length = s.pools.length)
    (hq : ∀ q, (ps.getD q default).queue = (s.pl q).queue)
    (ho : ∀ q, (ps.getD q default).owner = (s.pl q).owner ∨
      (((ps.getD q default).owner = .collect ∨ ∃ e, (ps.getD q default).owner = .join e ∨
          (ps.getD q default).owner = .closed e) ∧ (s.pl q).owner ≠ .notCreated)) :
    SInv cfg { s with pools := ps } := by
  refine ⟨h.tasks_len, h.futs_len, h.locks_len, by simp [hlen, h.pools_len], h.cbin_len,
    fun q => by simp only [State.pl]; rw [hq]; exact h.q_nodup q,
    fun q j hj => by simp only [State.pl] at hj; rw [hq] at hj; exact h.q_pending q j hj,
    h.started, ?_, h.order, ?_, ?_⟩
  · intro q k hk
    simp only [State.pl] at hk ⊢
    rcases ho q with e | ⟨e, _⟩
    · rw [e] at hk; rw [hq]; exact h.submitting q k hk
    · rcases e with e | ⟨b, e | e⟩ <;> rw [e] at hk <;> simp at hk
  · intro q jp hp hown
    simp only [State.pl] at hown
    rcases ho q with e | ⟨_, e⟩
    · rw [e] at hown; exact h.created q jp hp hown
    · exact h.created q jp hp e
  · intro q hown
    simp only [State.pl] at hown ⊢
    rcases ho q with e | ⟨e, _⟩
    · rw [e] at hown; rw [hq]; exact h.fresh q hown
    · rcases e with e | ⟨b, e | e⟩ <;> rw [e] at hown <;> simp at hown


theorem SInv_submit {cfg : Cfg} (wf : WF cfg) {s : State} (h : SInv cfg s) {q k j : Nat}
    {P : PoolSt} (hP : s.pools[q]? = some P) (hk : P.owner = .submit k)
    (hj : (cfg.pool q).jobs[k]? = some j) :
    SInv cfg { s with pools := s.pools.set q ({ P with
      queue := P.queue ++ [j]
      owner := if k + 1 < (cfg.pool q).jobs.length then .submit (k + 1) else .collect } : PoolSt) } := by
  have hpl := pl_of_get hP
  have hsub := h.submitting q k (by rw [hpl]; exact hk)
  rw [hpl] at hsub
  have hjmem : j ∈ (cfg.pool q).jobs := List.mem_of_getElem? hj
  have hpl' : ∀ q', ({ s with pools := s.pools.set q ({ P with
      queue := P.queue ++ [j]
      owner := if k + 1 < (cfg.pool q).jobs.length then .submit (k + 1) else .collect } : PoolSt) } : State).pl q'
      = if q' = q then ({ P with
      queue := P.queue ++ [j]
      owner := if k + 1 < (cfg.pool q).jobs.length then .submit (k + 1) else .collect } : PoolSt) else s.pl q' :=
    fun q' => pl_upd hP q'
  refine ⟨h.tasks_len, h.futs_len, h.locks_len, by simp [h.pools_len], h.cbin_len, ?_, ?_, h.started,
    ?_, h.order, ?_, ?_⟩
  · intro q'
    rw [hpl']
    split
    · have hnd := h.q_nodup q
      rw [hpl] at hnd
      simp only [List.nodup_append, hnd, List.nodup_cons, List.not_mem_nil, not_false_eq_true,
        List.nodup_nil, and_self, List.mem_cons, or_false, true_and]
      intro a ha b hb; subst hb
      obtain ⟨k', hk', hk2⟩ := hsub.1 a ha
      intro e; subst e
      have := nodup_get_inj (wf.jobs_nodup q) hk2 hj
      omega
    · exact h.q_nodup q'
  · intro q' j' hj'
    rw [hpl'] at hj'
    split at hj'
    · rename_i e; subst e
      simp only [List.mem_append, List.mem_cons, List.not_mem_nil, or_false] at hj'
      rcases hj' with hj' | rfl
      · exact h.q_pending q' j' (by rw [hpl]; exact hj')
      · exact ⟨hsub.2 k j' (Nat.le_refl _) hj, (wf.job_pool q' j' hjmem).2.1⟩
    · exact h.q_pending q' j' hj'
  · intro q' k' hk'
    rw [hpl'] at hk' ⊢
    split at hk'
    · rename_i e; subst e
      simp only [if_true]
      simp only at hk'
      split at hk'
      · simp at hk'; subst hk'
        refine ⟨fun a ha => ?_, fun k2 a hk2 ha => hsub.2 k2 a (by omega) ha⟩
        simp only [List.mem_append, List.mem_cons, List.not_mem_nil, or_false] at ha
        rcases ha with ha | rfl
        · obtain ⟨k0, h0, h1⟩ := hsub.1 a ha; exact ⟨k0, by omega, h1⟩
        · exact ⟨k, by omega, hj⟩
      · simp at hk'
    · rename_i e; simp only [e, if_false]; exact h.submitting q' k' hk'
  · intro q' jp hp hown
    rw [hpl'] at hown
    split at hown
    · rename_i e; subst e
      exact h.created q' jp hp (by rw [hpl, hk]; simp)
    · exact h.created q' jp hp hown
  · intro q' hown
    rw [hpl'] at hown ⊢
    split at hown
    · simp only at hown; split at hown <;> simp at hown
    · rename_i e; simp only [e, if_false]; exact h.fresh q' hown

/-- `shutdown(cancel_futures=True)`: the queue of pool `q` is emptied, its futures cancelled -/
theorem SInv_cancel {cfg : Cfg} (wf : WF cfg) {s s' : State} (h : SInv cfg s) {q : Nat} {P P' : PoolSt}
    (hP : s.pools[q]? = some P) (hq : P'.queue = [])
    (ho : (∃ e, P'.owner = .join e) ∧ P.owner ≠ .notCreated)
    (hps : s'.pools = s.pools.set q P')
    (hfs : s'.futs = P.queue.foldl (fun fs x => fs.set x .cancelled) s.futs)
    (hts : s'.tasks = s.tasks) (hls : s'.tLocks = s.tLocks) (hcs : s'.cbIn = s.cbIn) :
    SInv cfg s' := by
  have hpl := pl_of_get hP
  have hpl' : ∀ q', s'.pl q' = if q' = q then P' else s.pl q' := by
    intro q'; simp only [State.pl, hps]; exact pl_upd hP q'
  have keep : ∀ j : Nat, s.futs[j]? = some .pending → (cfg.jobc j).pool ≠ q →
      (P.queue.foldl (fun fs x => fs.set x Fut.cancelled) s.futs)[j]? = some .pending := by
    intro j hj hne
    rw [foldl_set_get]
    split
    · rename_i hin
      exact absurd (h.q_pending q j (by rw [hpl]; exact hin.1)).2 hne
    · exact hj
  have nopend : ∀ j : Nat, s.futs[j]? ≠ some .pending →
      (P.queue.foldl (fun fs x => fs.set x Fut.cancelled) s.futs)[j]? ≠ some .pending := by
    intro j hj
    rw [foldl_set_get]
    split
    · simp
    · exact hj
  obtain ⟨⟨e, he⟩, hnc⟩ := ho
  refine ⟨by rw [hts]; exact h.tasks_len, by rw [hfs]; simp [foldl_set_length, h.futs_len],
    by rw [hls]; exact h.locks_len, by rw [hps]; simp [h.pools_len],
    by rw [hcs]; exact h.cbin_len, ?_, ?_, ?_, ?_, by rw [hts]; exact h.order, ?_, ?_⟩
  all_goals (try rw [hfs]) 
  all_goals (try rw [hts])
  · intro q'; rw [hpl']; split
    · rw [hq]; simp
    · exact h.q_nodup q'
  · intro q' j hj
    rw [hpl'] at hj
    split at hj
    · rw [hq] at hj; simp at hj
    · rename_i hne
      have := h.q_pending q' j hj
      exact ⟨keep j this.1 (by rw [this.2]; exact hne), this.2⟩
  · intro k p hk hp; exact nopend _ (h.started k p hk hp)
  · intro q' k hk
    rw [hpl'] at hk ⊢
    split at hk
    · rw [he] at hk; simp at hk
    · rename_i hne
      simp only [hne, if_false]
      obtain ⟨h1, h2⟩ := h.submitting q' k hk
      refine ⟨h1, fun k' j hkk hj => keep j (h2 k' j hkk hj) ?_⟩
      rw [(wf.job_pool q' j (List.mem_of_getElem? hj)).2.1]; exact hne
  · intro q' jp hp hown
    rw [hpl'] at hown
    split at hown
    · rename_i e'; subst e'; exact nopend _ (h.created q' jp hp (by rw [hpl]; exact hnc))
    · exact nopend _ (h.created q' jp hp hown)
  · intro q' hown
    rw [hpl'] at hown ⊢
    split at hown
    · rw [he] at hown; simp at hown
    · rename_i hne
      simp only [hne, if_false]
      obtain ⟨h1, h2⟩ := h.fresh q' hown
      refine ⟨h1, fun j hj => keep j (h2 j hj) ?_⟩
      rw [(wf.job_pool q' j hj).2.1]; exact hne


/-- a job that sits in a queue has not started: its first tensor is untouched -/
theorem SInv.start_notStarted {cfg : Cfg} (wf : WF cfg) {s : State} (h : SInv cfg s) {q j : Nat}
    (hj : j ∈ (s.pl q).queue) (hsub : (cfg.jobc j).sub = none) :
    s.tasks[(cfg.jobc j).start]? = some .notStarted := by
  have hpj := (h.q_pending q j hj).1
  have hjl : j < cfg.nJobs := by rw [← h.futs_len]; exact getElem?_lt hpj
  have hlt : (cfg.jobc j).start < s.tasks.length := by rw [h.tasks_len]; exact wf.start_lt j hjl hsub
  obtain ⟨p, hp⟩ : ∃ p, s.tasks[(cfg.jobc j).start]? = some p := ⟨_, List.getElem?_eq_getElem hlt⟩
  by_cases hpn : p = .notStarted
  · rw [hp, hpn]
  · have := h.started _ p hp hpn
    rw [wf.start_job j hjl hsub] at this
    exact absurd hpj this

/-- common part of `take`: job `j` leaves the queue of pool `q`, its future becomes running -/
theorem take_facts {cfg : Cfg} (wf : WF cfg) {s : State} (h : SInv cfg s) {q j : Nat}
    {rest : List Nat} {P : PoolSt} (hP : s.pools[q]? = some P) (hq : P.queue = j :: rest) :
    j ∉ rest ∧ rest.Nodup ∧ s.futs[j]? = some .pending ∧ (cfg.jobc j).pool = q ∧ j < cfg.nJobs ∧
    P.owner ≠ .notCreated ∧
    (∀ j' : Nat, s.futs[j']? = some .pending → j' ≠ j → (s.futs.set j .running)[j']? = some .pending) ∧
    (∀ j' : Nat, s.futs[j']? ≠ some .pending → (s.futs.set j .running)[j']? ≠ some .pending) := by
  have hpl := pl_of_get hP
  have hnd := h.q_nodup q
  rw [hpl, hq] at hnd
  have hjq : j ∈ (s.pl q).queue := by rw [hpl, hq]; simp
  have hpj := h.q_pending q j hjq
  have hjl : j < cfg.nJobs := by rw [← h.futs_len]; exact getElem?_lt hpj.1
  refine ⟨(List.nodup_cons.1 hnd).1, (List.nodup_cons.1 hnd).2, hpj.1, hpj.2, hjl, ?_, ?_, ?_⟩
  · intro e
    have := (h.fresh q (by rw [hpl]; exact e)).1
    rw [hpl, hq] at this; simp at this
  · intro j' hj' hne
    simp only [List.getElem?_set, Ne.symm hne, if_false]; exact hj'
  · intro j' hj'
    simp only [List.getElem?_set]
    split
    · split <;> simp
    · exact hj'

theorem SInv_takeSerial {cfg : Cfg} (wf : WF cfg) {s s' : State} (h : SInv cfg s) {q j : Nat}
    {rest : List Nat} {P P' : PoolSt} {x : Pc} (hP : s.pools[q]? = some P) (hq : P.queue = j :: rest)
    (hsub : (cfg.jobc j).sub = none) (hP'q : P'.queue = rest) (hP'o : P'.owner = P.owner)
    (hps : s'.pools = s.pools.set q P') (hfs : s'.futs = s.futs.set j .running)
    (hts : s'.tasks = s.tasks.set (cfg.jobc j).start x) (hx : x ≠ .notStarted)
    (hls : s'.tLocks = s.tLocks) (hcs : s'.cbIn = s.cbIn) : SInv cfg s' := by
  have hpl := pl_of_get hP
  obtain ⟨hjr, hrnd, hpj, hpool, hjl, hnc, keep, nopend⟩ := take_facts wf h hP hq
  have hjq : j ∈ (s.pl q).queue := by rw [hpl, hq]; simp
  have hst := h.start_notStarted wf hjq hsub
  have hsj := wf.start_job j hjl hsub
  have hjf : j < s.futs.length := by rw [h.futs_len]; exact hjl
  have hpl' : ∀ q', s'.pl q' = if q' = q then P' else s.pl q' := by
    intro q'; simp only [State.pl, hps]; exact pl_upd hP q'
  refine ⟨by rw [hts]; simp [h.tasks_len], by rw [hfs]; simp [h.futs_len],
    by rw [hls]; exact h.locks_len, by rw [hps]; simp [h.pools_len],
    by rw [hcs]; exact h.cbin_len, ?_, ?_, ?_, ?_, ?_, ?_, ?_⟩
  · intro q'; rw [hpl']; split
    · rw [hP'q]; exact hrnd
    · exact h.q_nodup q'
  · intro q' j' hj'
    rw [hpl'] at hj'; rw [hfs]
    split at hj'
    · rename_i e; subst e
      rw [hP'q] at hj'
      have hmem : j' ∈ (s.pl q').queue := by rw [hpl, hq]; simp [hj']
      have := h.q_pending q' j' hmem
      exact ⟨keep j' this.1 (fun e => hjr (e ▸ hj')), this.2⟩
    · rename_i hne
      have := h.q_pending q' j' hj'
      exact ⟨keep j' this.1 (fun e => hne (by rw [← this.2, e, hpool])), this.2⟩
  · intro k p hk hp
    rw [hts] at hk; rw [hfs]
    by_cases hkj : cfg.job k = j
    · simp [hkj, hjf]
    · by_cases hks : (cfg.jobc j).start = k
      · exact absurd (hks ▸ hsj) hkj
      · simp only [List.getElem?_set, hks, if_false] at hk
        exact nopend _ (h.started k p hk hp)
  · intro q' k hk
    rw [hpl'] at hk ⊢; rw [hfs]
    split at hk
    · rename_i e; subst e
      simp only [if_true]
      rw [hP'o] at hk
      obtain ⟨h1, h2⟩ := h.submitting q' k (by rw [hpl]; exact hk)
      rw [hpl, hq] at h1
      refine ⟨fun a ha => h1 a (by rw [hP'q] at ha; simp [ha]), fun k' a hkk ha => ?_⟩
      refine keep a (h2 k' a hkk ha) ?_
      obtain ⟨k0, hk0, hk1⟩ := h1 j (by simp)
      intro e; subst e
      have := nodup_get_inj (wf.jobs_nodup q') hk1 ha
      omega
    · rename_i hne
      simp only [hne, if_false]
      obtain ⟨h1, h2⟩ := h.submitting q' k hk
      refine ⟨h1, fun k' a hkk ha => keep a (h2 k' a hkk ha) ?_⟩
      intro e; subst e
      exact hne ((wf.job_pool q' a (List.mem_of_getElem? ha)).2.1.symm.trans hpool)
  · intro a k p hak hjk hk hp
    rw [hts] at hk ⊢
    have hane : a ≠ k := by omega
    by_cases hks : (cfg.jobc j).start = k
    · exfalso
      have := wf.start_first j a hjl hsub (by omega)
      rw [← hks, hsj] at hjk
      exact this hjk.symm
    · simp only [List.getElem?_set, hks, if_false] at hk
      have hold := h.order a k p hak hjk hk hp
      by_cases has : (cfg.jobc j).start = a
      · exfalso
        have hstk := h.started k p hk hp
        rw [hjk, ← has, hsj] at hstk
        exact hstk hpj
      · simp only [List.getElem?_set, has, if_false]; exact hold
  · intro q' jp hp hown
    rw [hpl'] at hown; rw [hfs]
    split at hown
    · rename_i e; subst e
      exact nopend _ (h.created q' jp hp (by rw [hpl, ← hP'o]; exact hown))
    · exact nopend _ (h.created q' jp hp hown)
  · intro q' hown
    rw [hpl'] at hown ⊢; rw [hfs]
    split at hown
    · rw [hP'o] at hown; exact absurd hown hnc
    · rename_i hne
      simp only [hne, if_false]
      obtain ⟨h1, h2⟩ := h.fresh q' hown
      refine ⟨h1, fun a ha => keep a (h2 a ha) ?_⟩
      intro e; subst e
      exact hne ((wf.job_pool q' a ha).2.1.symm.trans hpool)


theorem createPool_length (cfg : Cfg) (ps : List PoolSt) (q' : Nat) :
    (createPool cfg ps q').length = ps.length := by simp [createPool]

theorem createPool_get (cfg : Cfg) (ps : List PoolSt) (q' q'' : Nat) :
    (createPool cfg ps q').getD q'' default =
      if q'' = q' ∧ q' < ps.length then
        { ps.getD q' default with owner := .submit 0, idle := (cfg.pool q').size }
      else ps.getD q'' default := by
  simp only [createPool, getD_set_pool]

theorem SInv_takeSub {cfg : Cfg} (wf : WF cfg) {s s' : State} (h : SInv cfg s) {q j q' : Nat}
    {rest : List Nat} {P P' : PoolSt} (hP : s.pools[q]? = some P) (hq : P.queue = j :: rest)
    (hsub : (cfg.jobc j).sub = some q') (hP'q : P'.queue = rest) (hP'o : P'.owner = P.owner)
    (hps : s'.pools = createPool cfg (s.pools.set q P') q') (hfs : s'.futs = s.futs.set j .running)
    (hts : s'.tasks = s.tasks) (hls : s'.tLocks = s.tLocks) (hcs : s'.cbIn = s.cbIn) : SInv cfg s' := by
  have hpl := pl_of_get hP
  obtain ⟨hjr, hrnd, hpj, hpool, hjl, hnc, keep, nopend⟩ := take_facts wf h hP hq
  obtain ⟨hq'l, hpar, hlt⟩ := wf.sub_pool j q' hjl hsub
  have hqq : q' ≠ q := by rw [hpool] at hlt; omega
  -- the inner pool does not exist yet
  have hfr : (s.pl q').owner = .notCreated := by
    cases ho : (s.pl q').owner with
    | notCreated => rfl
    | _ => exact absurd hpj (h.created q' j hpar (by rw [ho]; simp))
  obtain ⟨hfq, hfj⟩ := h.fresh q' hfr
  have hq'len : q' < (s.pools.set q P').length := by simp [h.pools_len]; exact hq'l
  have hpl' : ∀ q'', s'.pl q'' =
      if q'' = q' then { s.pl q' with owner := .submit 0, idle := (cfg.pool q').size }
      else if q'' = q then P' else s.pl q'' := by
    intro q''
    simp only [State.pl, hps, createPool_get]
    by_cases e : q'' = q'
    · subst e
      simp only [hq'len, and_self, if_true]
      rw [pl_upd hP q'']; simp [hqq, State.pl]
    · simp only [e, false_and, if_false]
      exact pl_upd hP q''
  refine ⟨by rw [hts]; exact h.tasks_len, by rw [hfs]; simp [h.futs_len],
    by rw [hls]; exact h.locks_len, by rw [hps]; simp [createPool_length, h.pools_len],
    by rw [hcs]; exact h.cbin_len, ?_, ?_, ?_, ?_, by rw [hts]; exact h.order, ?_, ?_⟩
  · intro q''; rw [hpl']; split
    · simp only; rw [hfq]; simp
    · split
      · rw [hP'q]; exact hrnd
      · exact h.q_nodup q''
  · intro q'' j' hj'
    rw [hpl'] at hj'; rw [hfs]
    split at hj'
    · simp only at hj'; rw [hfq] at hj'; simp at hj'
    · split at hj'
      · rename_i _ e; subst e
        rw [hP'q] at hj'
        have hmem : j' ∈ (s.pl q'').queue := by rw [hpl, hq]; simp [hj']
        have := h.q_pending q'' j' hmem
        exact ⟨keep j' this.1 (fun e => hjr (e ▸ hj')), this.2⟩
      · rename_i _ hne
        have := h.q_pending q'' j' hj'
        exact ⟨keep j' this.1 (fun e => hne (by rw [← this.2, e, hpool])), this.2⟩
  · intro k p hk hp
    rw [hts] at hk; rw [hfs]
    exact nopend _ (h.started k p hk hp)
  · intro q'' k hk
    rw [hpl'] at hk ⊢; rw [hfs]
    split at hk
    · rename_i e; subst e
      simp only [if_true]
      simp only at hk
      refine ⟨fun a ha => by rw [hfq] at ha; simp at ha, fun k' a _ ha => ?_⟩
      have hmem : a ∈ (cfg.pool q'').jobs := List.mem_of_getElem? ha
      refine keep a (hfj a hmem) ?_
      intro e; subst e
      exact hqq ((wf.job_pool q'' a hmem).2.1.symm.trans hpool)
    · rename_i hne1
      simp only [hne1, if_false]
      split at hk
      · rename_i e; subst e
        simp only [if_true]
        rw [hP'o] at hk
        obtain ⟨h1, h2⟩ := h.submitting q'' k (by rw [hpl]; exact hk)
        rw [hpl, hq] at h1
        refine ⟨fun a ha => h1 a (by rw [hP'q] at ha; simp [ha]), fun k' a hkk ha => ?_⟩
        refine keep a (h2 k' a hkk ha) ?_
        obtain ⟨k0, hk0, hk1⟩ := h1 j (by simp)
        intro e; subst e
        have := nodup_get_inj (wf.jobs_nodup q'') hk1 ha
        omega
      · rename_i hne
        simp only [hne, if_false]
        obtain ⟨h1, h2⟩ := h.submitting q'' k hk
        refine ⟨h1, fun k' a hkk ha => keep a (h2 k' a hkk ha) ?_⟩
        intro e; subst e
        exact hne ((wf.job_pool q'' a (List.mem_of_getElem? ha)).2.1.symm.trans hpool)
  · intro q'' jp hp hown
    rw [hpl'] at hown; rw [hfs]
    split at hown
    · rename_i e; subst e
      rw [hpar] at hp; simp at hp; subst hp
      simp [getElem?_lt hpj]
    · split at hown
      · rename_i _ e; subst e
        exact nopend _ (h.created q'' jp hp (by rw [hpl, ← hP'o]; exact hown))
      · exact nopend _ (h.created q'' jp hp hown)
  · intro q'' hown
    rw [hpl'] at hown ⊢; rw [hfs]
    split at hown
    · simp at hown
    · rename_i hne1
      simp only [hne1, if_false]
      split at hown
      · rw [hP'o] at hown; exact absurd hown hnc
      · rename_i hne
        simp only [hne, if_false]
        obtain ⟨h1, h2⟩ := h.fresh q'' hown
        refine ⟨h1, fun a ha => keep a (h2 a ha) ?_⟩
        intro e; subst e
        exact hne ((wf.job_pool q'' a ha).2.1.symm.trans hpool)


theorem budgetTry_cases (cfg : Cfg) (s : State) (i : Nat) :
    (cfg.size i > cfg.capacity ∧ s.oversized = true ∧
        budgetTry cfg s i = { s with tasks := s.tasks.set i .waiting })
    ∨ (cfg.size i > cfg.capacity ∧ s.oversized = false ∧
        budgetTry cfg s i = { s with oversized := true, tasks := s.tasks.set i .write })
    ∨ (cfg.size i ≤ cfg.capacity ∧ s.inFlight + cfg.size i ≤ cfg.capacity ∧
        budgetTry cfg s i =
          { s with inFlight := s.inFlight + cfg.size i, tasks := s.tasks.set i .write })
    ∨ (cfg.size i ≤ cfg.capacity ∧ ¬ s.inFlight + cfg.size i ≤ cfg.capacity ∧
        budgetTry cfg s i = { s with tasks := s.tasks.set i .waiting }) := by
  unfold budgetTry
  by_cases h1 : cfg.size i > cfg.capacity
  · cases h2 : s.oversized <;> simp [h1]
  · by_cases h3 : s.inFlight + cfg.size i ≤ cfg.capacity
    · simp [h1, h3]; omega
    · simp [h1, h3]; omega

/-- pool `q` is replaced by `P'` with the same queue and an owner that stays or moves on -/
theorem SInv_pool1 {cfg : Cfg} {s : State} (h : SInv cfg s) {q : Nat} {P P' : PoolSt}
    (hP : s.pools[q]? = some P) (hq : P'.queue = P.queue)
    (ho : P'.owner = P.owner ∨ ((P'.owner = .collect ∨ ∃ e, P'.owner = .join e ∨ P'.owner = .closed e) ∧
      P.owner ≠ .notCreated)) :
    SInv cfg { s with pools := s.pools.set q P' } := by
  have hpl := pl_of_get hP
  refine SInv_pools h (by simp) (fun q' => ?_) (fun q' => ?_)
  · rw [pl_upd hP]; split
    · rename_i e; subst e; rw [hq, hpl]
    · rfl
  · rw [pl_upd hP]; split
    · rename_i e; subst e; rw [hpl]; exact ho
    · exact Or.inl rfl

theorem SInv_addIdle {cfg : Cfg} {s : State} (h : SInv cfg s) (q : Nat) :
    SInv cfg { s with pools := addIdle s.pools q } :=
  SInv_pools h (addIdle_length _ _) (fun q' => addIdle_queue _ _ _) (fun q' => Or.inl (addIdle_owner _ _ _))

theorem SInv_step {cfg : Cfg} (wf : WF cfg) {s s' : State} {l : Label} (h : SInv cfg s)
    (hs : StepRel cfg s l s') : SInv cfg s' := by
  cases hs with
  | submit q c k j P hP hk hj => exact SInv_submit wf h hP hk hj
  | collect q c j ok P hP hm hjj hf =>
      unfold collectOne
      have hnc : P.owner ≠ .notCreated := by rw [hm]; simp
      cases ok
      · simp only [Bool.false_eq_true, if_false]
        split
        · exact SInv_cancel wf h hP (P' := { P with collected := j :: P.collected, shutdown := true
                                                    owner := .join true, queue := [] })
            rfl ⟨⟨true, rfl⟩, hnc⟩ rfl rfl rfl rfl rfl
        · exact SInv_pool1 h hP rfl (Or.inr ⟨Or.inr ⟨true, Or.inl rfl⟩, hnc⟩)
      · simp only [if_true]
        split
        · exact SInv_pool1 h hP rfl (Or.inr ⟨Or.inr ⟨false, Or.inl rfl⟩, hnc⟩)
        · exact SInv_pool1 h hP rfl (Or.inl rfl)
  | joinRoot q c e P hP hm hex hpar =>
      exact SInv_pool1 h hP rfl (Or.inr ⟨Or.inr ⟨e, Or.inr rfl⟩, by rw [hm]; simp⟩)
  | joinSub q c e P jp hP hm hex hpar =>
      have hnp : s.futs[jp]? ≠ some .pending :=
        h.created q jp hpar (by rw [pl_of_get hP, hm]; simp)
      have h1 := SInv_set_fut (j0 := jp) (f := if e then .err else .ok) h hnp (by cases e <;> simp)
      have h2 := SInv_pool1 (s := { s with futs := s.futs.set jp (if e then .err else .ok) }) h1
        (P' := { P with owner := .closed e }) hP rfl
        (Or.inr ⟨Or.inr ⟨e, Or.inr rfl⟩, by rw [hm]; simp⟩)
      exact SInv_addIdle h2 _
  | takeSerial q j rest P hP hq hidle hsub =>
      exact SInv_takeSerial wf h hP hq hsub (P' := { P with queue := rest, idle := P.idle - 1 })
        rfl rfl rfl rfl rfl (by simp [firstPc]) rfl rfl
  | takeSub q j rest P q' hP hq hidle hsub =>
      exact SInv_takeSub wf h hP hq hsub (P' := { P with queue := rest, idle := P.idle - 1 })
        rfl rfl rfl rfl rfl rfl rfl
  | exit q P hP hq hsd hidle => exact SInv_pool1 h hP rfl (Or.inl rfl)
  | cbAcqIn i hi hl =>
      exact SInv_congr (SInv_set_task (x := .cbAcq) h hi (by simp) (by simp)) rfl rfl rfl rfl
        (by simp) (fun _ => rfl) (fun _ => rfl)
  | cbAcq i hi hl =>
      exact SInv_congr (SInv_set_task (x := .cbBody) h hi (by simp) (by simp)) rfl rfl rfl rfl rfl
        (fun _ => rfl) (fun _ => rfl)
  | cbFail i hi hf =>
      refine SInv_finish (s := { s with log := s.log ++ [i], cbLock := false
                                        cbIn := if (cfg.pool (cfg.poolOf i)).innerCb
                                          then s.cbIn.set (cfg.poolOf i) false else s.cbIn
                                        tLocks := s.tLocks.set (cfg.obj i) false })
        (SInv_congr h rfl rfl (by simp) rfl (by simp only; split <;> simp) (fun _ => rfl) (fun _ => rfl))
        false hi (by simp) (by simp)
  | cbOk i hi hf =>
      exact SInv_congr (SInv_set_task (x := .bAcq) h hi (by simp) (by simp)) rfl rfl rfl rfl
        (by simp only; split <;> simp) (fun _ => rfl) (fun _ => rfl)
  | tAcq i hi hl =>
      exact SInv_congr (SInv_set_task (x := afterT cfg (cfg.poolOf i)) h hi (by simp) (by simp)) rfl rfl
        (by simp) rfl rfl (fun _ => rfl) (fun _ => rfl)
  | bTry i p hi hp =>
      have hp1 : p ≠ .notStarted := by rcases hp with rfl | rfl <;> simp
      have hp2 : p ≠ .done true := by rcases hp with rfl | rfl <;> simp
      rcases budgetTry_cases cfg s i with ⟨_, _, e⟩ | ⟨_, _, e⟩ | ⟨_, _, e⟩ | ⟨_, _, e⟩ <;> rw [e]
      · exact SInv_set_task h hi hp1 hp2
      · exact SInv_congr (SInv_set_task (x := .write) h hi hp1 hp2) rfl rfl rfl rfl rfl
          (fun _ => rfl) (fun _ => rfl)
      · exact SInv_congr (SInv_set_task (x := .write) h hi hp1 hp2) rfl rfl rfl rfl rfl
          (fun _ => rfl) (fun _ => rfl)
      · exact SInv_set_task h hi hp1 hp2
  | writeFail i hi hf => exact SInv_set_task h hi (by simp) (by simp)
  | writeOk i hi hf =>
      exact SInv_congr (SInv_set_task (x := .bRel true) h hi (by simp) (by simp)) rfl rfl rfl rfl rfl
        (fun _ => rfl) (fun _ => rfl)
  | bRel i ok hi =>
      unfold budgetRelease
      apply SInv_finish (p := .bRel ok) _ ok _ (by simp) (by simp)
      · exact SInv_congr (s := { s with tasks := s.tasks.map wake }) (SInv_wake h) rfl rfl
          (by simp) rfl rfl (fun _ => rfl) (fun _ => rfl)
      · simp [hi, wake]

end IrVerif.WriterN

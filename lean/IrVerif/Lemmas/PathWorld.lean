/-
C10 helper lemmas: the entry points on zero-size tensors (`bodyZ`), in closed form.
-/
import IrVerif.Lemmas.PathCall
namespace IrVerif.Path

/-- a zero-size tensor read through numpy / `__array__` / tobytes / serialisation: no open event at
all, no byte, the mapping (if any) untouched or dropped; the only possible event is the check, and
when the check rejects the call raises -/
theorem zero_nontofile (e : Env) (st : TState) (ep : EntryPoint) (hep : ep ≠ EntryPoint.tofile) :
    (∀ p oi, Ev.openEv p oi ∉ (runBody e st (bodyZ ep)).2.1) ∧
    (∀ bytes, (runBody e st (bodyZ ep)).1 = ReadResult.ok bytes → bytes = []) ∧
    (∀ i, (runBody e st (bodyZ ep)).2.2.raw = some i → st.raw = some i) ∧
    ((runBody e st (bodyZ ep)).2.1 = [] ∨
      (runBody e st (bodyZ ep)).2.1 = [Ev.check (checkContainment e.fs e.kfuel e.fuel e.cwdS e.cwd e.base e.loc)]) ∧
    (rejecting (checkContainment e.fs e.kfuel e.fuel e.cwdS e.cwd e.base e.loc) = true →
      (runBody e st (bodyZ ep)).2.1 ≠ [] → (runBody e st (bodyZ ep)).1 = ReadResult.raised) := by
  obtain ⟨raw, arr⟩ := st
  cases ep with
  | tofile => exact absurd rfl hep
  | tobytes =>
    simp [runBody, bodyZ, execStmts, execStmt, execPrim]
  | numpy =>
    cases arr <;>
    by_cases hv : rejecting (checkContainment e.fs e.kfuel e.fuel e.cwdS e.cwd e.base e.loc) = true <;>
    simp [runBody, bodyZ, loadBodyZ, execStmts, execStmt, execPrims, execPrim, hv]
  | array =>
    cases arr <;>
    by_cases hv : rejecting (checkContainment e.fs e.kfuel e.fuel e.cwdS e.cwd e.base e.loc) = true <;>
    simp [runBody, bodyZ, loadBodyZ, execStmts, execStmt, execPrims, execPrim, hv]
  | serializeRaw =>
    cases arr <;>
    by_cases hv : rejecting (checkContainment e.fs e.kfuel e.fuel e.cwdS e.cwd e.base e.loc) = true <;>
    simp [runBody, bodyZ, loadBodyZ, execStmts, execStmt, execPrims, execPrim, hv, TState.fresh]

/-- `tofile` of a zero-size tensor is the same statement list as `tofile` of any tensor -/
theorem zero_tofile (fs : FS) (kfuel fuel : Nat) (cwdS : Str) (cwd : Loc) (base loc : Str)
    (offset length : Nat) (st : TState) :
    runBody { fs := fs, kfuel := kfuel, fuel := fuel, cwdS := cwdS, cwd := cwd, base := base, loc := loc,
              offset := offset, length := length } st (bodyZ EntryPoint.tofile) =
      call fs kfuel fuel cwdS cwd base loc offset length EntryPoint.tofile st := rfl

end IrVerif.Path

namespace IrVerif.Path

/-- a call that is served from the cached state: it performs no event at all -/
def quiet (ep : EntryPoint) (st : TState) : Bool :=
  match ep with
  | EntryPoint.tofile => false
  | EntryPoint.tobytes => st.arr && st.raw.isSome
  | _ => st.arr

/-- a quiet call does not look at the tree's paths: its outcome is the same for every recursion bound -/
theorem callSpec_quiet (fs : FS) (kfuel fuel fuel' : Nat) (cwdS : Str) (cwd : Loc) (base loc : Str)
    (offset length : Nat) (ep : EntryPoint) (st : TState) (h : quiet ep st = true) :
    callSpec fs kfuel fuel cwdS cwd base loc offset length ep st =
      callSpec fs kfuel fuel' cwdS cwd base loc offset length ep st ∧
    (callSpec fs kfuel fuel cwdS cwd base loc offset length ep st).2.1 = [] := by
  obtain ⟨raw, arr⟩ := st
  unfold callSpec
  cases ep <;> cases arr <;> cases raw <;> simp [quiet] at h ⊢

/-- a call that is not quiet performs the check-then-open events, and when that opens no inode
(rejected, or the kernel does not resolve the path) it raises and leaves the cached state alone -/
theorem callSpec_loud (fs : FS) (kfuel fuel : Nat) (cwdS : Str) (cwd : Loc) (base loc : Str)
    (offset length : Nat) (ep : EntryPoint) (st : TState) (h : quiet ep st = false) :
    (callSpec fs kfuel fuel cwdS cwd base loc offset length ep st).2.1 =
      guardedEvents fs kfuel fuel cwdS cwd base loc ∧
    (guardedOpen fs kfuel fuel cwdS cwd base loc = none →
      (callSpec fs kfuel fuel cwdS cwd base loc offset length ep st).1 = ReadResult.raised ∧
      (callSpec fs kfuel fuel cwdS cwd base loc offset length ep st).2.2 = st) := by
  obtain ⟨raw, arr⟩ := st
  have hl : guardedOpen fs kfuel fuel cwdS cwd base loc = none →
      ∀ st0, loadSpec fs kfuel fuel cwdS cwd base loc offset length st0 = (false, st0) := by
    intro hg st0; unfold loadSpec; rw [hg]
  unfold callSpec
  cases ep <;> cases arr <;> cases raw <;> simp [quiet] at h ⊢ <;>
    first
    | (refine ⟨by split <;> rfl, ?_⟩; intro hg; simp [hl hg])
    | (refine ⟨by split <;> (try split) <;> rfl, ?_⟩; intro hg; simp [hg])

/-- the recursion bound enters a call only through the verdict of the containment check -/
theorem callSpec_congr (fs : FS) (kfuel fuel fuel' : Nat) (cwdS : Str) (cwd : Loc) (base loc : Str)
    (offset length : Nat) (ep : EntryPoint) (st : TState)
    (h : checkContainment fs kfuel fuel cwdS cwd base loc = checkContainment fs kfuel fuel' cwdS cwd base loc) :
    callSpec fs kfuel fuel cwdS cwd base loc offset length ep st =
      callSpec fs kfuel fuel' cwdS cwd base loc offset length ep st := by
  unfold callSpec loadSpec guardedEvents guardedOpen
  rw [h]

end IrVerif.Path

/-
C09 helper development: well-formed configurations and the structural invariant
(queue / futures / job order bookkeeping) that the property invariants build on.
-/
import IrVerif.Lemmas.Writer
namespace IrVerif.Writer

/-- well-formed configuration: what `_write_parallel` / `_write_external_tensors` construct -/
structure WF (cfg : Cfg) : Prop where
  workers_pos : 0 < cfg.workers
  jobs_pos : 0 < cfg.nJobs
  start_lt : ∀ j, j < cfg.nJobs → cfg.jobStarts.getD j 0 < cfg.n
  start_job : ∀ j, j < cfg.nJobs → cfg.job (cfg.jobStarts.getD j 0) = j
  start_first : ∀ j i, j < cfg.nJobs → i < cfg.jobStarts.getD j 0 → cfg.job i ≠ j
  job_lt : ∀ i, i < cfg.n → cfg.job i < cfg.nJobs
  obj_lt : ∀ i, i < cfg.n → cfg.obj i < cfg.nObjs
  /-- the tensors of a job are contiguous -/
  contig : ∀ i k, i < k → k < cfg.n → cfg.job k = cfg.job i → cfg.job (i + 1) = cfg.job i

structure SInv (cfg : Cfg) (s : State) : Prop where
  tasks_len : s.tasks.length = cfg.n
  futs_len : s.futs.length = cfg.nJobs
  locks_len : s.tLocks.length = cfg.nObjs
  q_nodup : s.queue.Nodup
  q_pending : ∀ j ∈ s.queue, s.futs[j]? = some .pending
  started : ∀ i p, s.tasks[i]? = some p → p ≠ .notStarted →
    s.futs[cfg.job i]? ≠ some .pending
  submitting : ∀ k, s.main = .submit k →
    (∀ j ∈ s.queue, j < k) ∧ ∀ j, k ≤ j → j < cfg.nJobs → s.futs[j]? = some .pending
  order : ∀ i k p, i < k → cfg.job k = cfg.job i → s.tasks[k]? = some p → p ≠ .notStarted →
    s.tasks[i]? = some (.done true)

theorem hasNext_iff {cfg : Cfg} {i : Nat} :
    cfg.hasNext i = true ↔ i + 1 < cfg.n ∧ cfg.job (i + 1) = cfg.job i := by
  simp [Cfg.hasNext]

theorem SInv.next_notStarted {cfg : Cfg} {s : State} (h : SInv cfg s) {i : Nat} {p : Pc}
    (hi : s.tasks[i]? = some p) (hp : p ≠ .done true) (hn : cfg.hasNext i = true) :
    s.tasks[i + 1]? = some .notStarted := by
  obtain ⟨hlt, hj⟩ := hasNext_iff.1 hn
  have hlen := h.tasks_len
  have : i + 1 < s.tasks.length := by omega
  obtain ⟨q, hq⟩ : ∃ q, s.tasks[i + 1]? = some q := ⟨s.tasks[i + 1], by simp [this]⟩
  by_cases hqn : q = .notStarted
  · simpa [hqn] using hq
  · have := h.order i (i + 1) q (by omega) hj hq hqn
    rw [hi] at this; simp at this; exact absurd this hp

theorem SInv_init {cfg : Cfg} : SInv cfg (init cfg) := by
  refine ⟨by simp [init], by simp [init], by simp [init], by simp [init], by simp [init], ?_, ?_, ?_⟩
  · intro i p hi hp
    simp [init, List.getElem?_replicate] at hi
    exact absurd hi.2.symm hp
  · intro k hk
    simp [init] at hk ⊢
    intro j _ hj
    simp [hj]
  · intro i k p _ _ hk hp
    simp [init, List.getElem?_replicate] at hk
    exact absurd hk.2.symm hp

end IrVerif.Writer

namespace IrVerif.Writer

theorem finishTask_cases (cfg : Cfg) (s : State) (i : Nat) (ok : Bool) :
    (ok = true ∧ cfg.hasNext i = true ∧
      finishTask cfg s i ok = { s with tasks := (s.tasks.set i (.done true)).set (i + 1) .tAcq })
    ∨ ((ok = false ∨ cfg.hasNext i = false) ∧
      finishTask cfg s i ok =
        { s with tasks := s.tasks.set i (.done ok)
                 futs := s.futs.set (cfg.job i) (if ok then .ok else .err)
                 idle := s.idle + 1 }) := by
  unfold finishTask
  cases ok <;> cases cfg.hasNext i <;> simp

theorem foldl_set_length (q : List Nat) (fs : List Fut) :
    (q.foldl (fun fs j => fs.set j Fut.cancelled) fs).length = fs.length := by
  induction q generalizing fs with
  | nil => rfl
  | cons a q ih => simp [ih]

theorem foldl_set_get (q : List Nat) (fs : List Fut) (j : Nat) :
    (q.foldl (fun fs j => fs.set j Fut.cancelled) fs)[j]? =
      if j ∈ q ∧ j < fs.length then some Fut.cancelled else fs[j]? := by
  induction q generalizing fs with
  | nil => simp
  | cons a q ih =>
      simp only [List.foldl_cons, ih, List.length_set, List.mem_cons, List.getElem?_set]
      by_cases h1 : j ∈ q <;> by_cases h2 : j < fs.length <;> by_cases h3 : a = j <;>
        simp_all <;> omega

/-- setting one task from `p` (already started) to `x` (started too) keeps the structure -/
theorem SInv_set_task {cfg : Cfg} {s : State} (h : SInv cfg s) {i : Nat} {p x : Pc}
    (hi : s.tasks[i]? = some p) (hp : p ≠ .notStarted) (hpd : p ≠ .done true) :
    SInv cfg { s with tasks := s.tasks.set i x } := by
  refine ⟨by simp [h.tasks_len], h.futs_len, h.locks_len, h.q_nodup, h.q_pending, ?_, h.submitting, ?_⟩
  · intro k q hk hq
    by_cases hik : i = k
    · subst hik; exact h.started _ p hi hp
    · simp only [List.getElem?_set, hik, if_false] at hk
      exact h.started k q hk hq
  · intro a k q hak hj hk hq
    have ha : a ≠ k := by omega
    by_cases hik : i = k
    · subst hik
      have := h.order a i p hak hj hi hp
      simp only [List.getElem?_set, if_neg (Ne.symm ha)]
      exact this
    · simp only [List.getElem?_set, hik, if_false] at hk
      have := h.order a k q hak hj hk hq
      by_cases hia : i = a
      · subst hia; rw [hi] at this; simp at this; exact absurd this hpd
      · simp only [List.getElem?_set, hia, if_false]; exact this

end IrVerif.Writer

namespace IrVerif.Writer

/-- `SInv` only reads `tasks`, `futs`, `tLocks.length`, `queue` and `main` -/
theorem SInv_congr {cfg : Cfg} {s s' : State} (h : SInv cfg s) (ht : s'.tasks = s.tasks)
    (hf : s'.futs = s.futs) (hl : s'.tLocks.length = s.tLocks.length) (hq : s'.queue = s.queue)
    (hm : s'.main = s.main) : SInv cfg s' := by
  obtain ⟨a, b, c, d, e, f, g, i⟩ := h
  exact ⟨by rw [ht]; exact a, by rw [hf]; exact b, by rw [hl]; exact c, by rw [hq]; exact d,
    by rw [hq, hf]; exact e, by rw [ht, hf]; exact f, by rw [hm, hq, hf]; exact g, by rw [ht]; exact i⟩

theorem wake_ne_notStarted {p : Pc} : wake p = .notStarted ↔ p = .notStarted := by
  cases p <;> simp [wake]

theorem wake_eq_done {p : Pc} {b : Bool} : wake p = .done b ↔ p = .done b := by
  cases p <;> simp [wake]

theorem SInv_wake {cfg : Cfg} {s : State} (h : SInv cfg s) :
    SInv cfg { s with tasks := s.tasks.map wake } := by
  refine ⟨by simp [h.tasks_len], h.futs_len, h.locks_len, h.q_nodup, h.q_pending, ?_, h.submitting, ?_⟩
  · intro k q hk hq
    simp only [List.getElem?_map, Option.map_eq_some_iff] at hk
    obtain ⟨q0, hq0, rfl⟩ := hk
    exact h.started k q0 hq0 (fun e => hq (by simp [e, wake]))
  · intro a k q hak hj hk hq
    simp only [List.getElem?_map, Option.map_eq_some_iff] at hk ⊢
    obtain ⟨q0, hq0, rfl⟩ := hk
    exact ⟨_, h.order a k q0 hak hj hq0 (fun e => hq (by simp [e, wake])), rfl⟩

/-- the worker proceeds from a finished tensor to the next tensor of the same job -/
theorem SInv_start_next {cfg : Cfg} {s : State} (h : SInv cfg s) {i : Nat}
    (hi : s.tasks[i]? = some (.done true)) (hn : cfg.hasNext i = true)
    (hnext : s.tasks[i + 1]? = some .notStarted) :
    SInv cfg { s with tasks := s.tasks.set (i + 1) .tAcq } := by
  obtain ⟨hlt, hj⟩ := hasNext_iff.1 hn
  refine ⟨by simp [h.tasks_len], h.futs_len, h.locks_len, h.q_nodup, h.q_pending, ?_, h.submitting, ?_⟩
  · intro k q hk hq
    by_cases hik : i + 1 = k
    · subst hik; rw [hj]; exact h.started i _ hi (by simp)
    · simp only [List.getElem?_set, hik, if_false] at hk
      exact h.started k q hk hq
  · intro a k q hak hjk hk hq
    have ha : a ≠ k := by omega
    by_cases hik : i + 1 = k
    · subst hik
      have hne : ¬ (i + 1 = a) := by omega
      simp only [List.getElem?_set, hne, if_false]
      by_cases hai : a = i
      · subst hai; exact hi
      · exact h.order a i _ (by omega) (by rw [← hjk, hj]) hi (by simp)
    · simp only [List.getElem?_set, hik, if_false] at hk
      have := h.order a k q hak hjk hk hq
      by_cases hia : i + 1 = a
      · subst hia; rw [hnext] at this; simp at this
      · simp only [List.getElem?_set, hia, if_false]; exact this

/-- a job completes: its future is set -/
theorem SInv_set_fut {cfg : Cfg} {s : State} (h : SInv cfg s) {i : Nat} {p : Pc} {f : Fut}
    (hi : s.tasks[i]? = some p) (hp : p ≠ .notStarted) (hf : f ≠ .pending) :
    SInv cfg { s with futs := s.futs.set (cfg.job i) f } := by
  have hnp := h.started i p hi hp
  refine ⟨h.tasks_len, by simp [h.futs_len], h.locks_len, h.q_nodup, ?_, ?_, ?_, h.order⟩
  · intro j hj
    have := h.q_pending j hj
    have hne : cfg.job i ≠ j := fun e => hnp (e ▸ this)
    simp only [List.getElem?_set, hne, if_false]; exact this
  · intro k q hk hq
    have := h.started k q hk hq
    simp only [List.getElem?_set]
    split
    · split
      · simp [hf]
      · simp
    · exact this
  · intro k hk
    obtain ⟨h1, h2⟩ := h.submitting k hk
    refine ⟨h1, fun j hkj hjl => ?_⟩
    have := h2 j hkj hjl
    have hne : cfg.job i ≠ j := fun e => hnp (e ▸ this)
    simp only [List.getElem?_set, hne, if_false]; exact this

theorem SInv_finish {cfg : Cfg} {s : State} (h : SInv cfg s) {i : Nat} {p : Pc} (ok : Bool)
    (hi : s.tasks[i]? = some p) (hp : p ≠ .notStarted) (hpd : p ≠ .done true) :
    SInv cfg (finishTask cfg s i ok) := by
  rcases finishTask_cases cfg s i ok with ⟨rfl, hn, e⟩ | ⟨_, e⟩
  · rw [e]
    have h1 := SInv_set_task (x := .done true) h hi hp hpd
    have hnext := h.next_notStarted hi hpd hn
    have hlt : i < s.tasks.length := by
      rcases Nat.lt_or_ge i s.tasks.length with h | h
      · exact h
      · simp [List.getElem?_eq_none h] at hi
    have := SInv_start_next (i := i) h1 (by simp [hlt]) hn
      (by simp only [List.getElem?_set]; simp; exact hnext)
    simpa using this
  · rw [e]
    have h1 := SInv_set_task (x := .done ok) h hi hp hpd
    have hlt : i < s.tasks.length := by
      rcases Nat.lt_or_ge i s.tasks.length with h | h
      · exact h
      · simp [List.getElem?_eq_none h] at hi
    have h2 := SInv_set_fut (i := i) (p := .done ok) (f := if ok then .ok else .err) h1
      (by simp [hlt]) (by simp) (by cases ok <;> simp)
    exact SInv_congr h2 rfl rfl rfl rfl rfl

end IrVerif.Writer

namespace IrVerif.Writer

theorem budgetTry_cases (cfg : Cfg) (s : State) (i : Nat) :
    (cfg.size i > cfg.capacity ∧ s.oversized = true ∧
        budgetTry cfg s i = { s with tasks := s.tasks.set i .waiting })
    ∨ (cfg.size i > cfg.capacity ∧ s.oversized = false ∧
        budgetTry cfg s i = { s with oversized := true, tasks := s.tasks.set i .write })
    ∨ (cfg.size i ≤ cfg.capacity ∧ s.inFlight + cfg.size i ≤ cfg.capacity ∧
        budgetTry cfg s i =
          { s with inFlight := s.inFlight + cfg.size i, tasks := s.tasks.set i .write })
    ∨ (cfg.size i ≤ cfg.capacity ∧ ¬ s.inFlight + cfg.size i ≤ cfg.capacity ∧
        budgetTry cfg s i = { s with tasks := s.tasks.set i .waiting }) := by
  unfold budgetTry
  by_cases h1 : cfg.size i > cfg.capacity
  · cases h2 : s.oversized <;> simp [h1]
  · by_cases h3 : s.inFlight + cfg.size i ≤ cfg.capacity
    · simp [h1, h3]; omega
    · simp [h1, h3]; omega

theorem SInv_take {cfg : Cfg} (wf : WF cfg) {s : State} (h : SInv cfg s) {j : Nat} {q : List Nat}
    (hq : s.queue = j :: q) :
    SInv cfg { s with queue := q, idle := s.idle - 1, futs := s.futs.set j .running
                      tasks := s.tasks.set (cfg.jobStarts.getD j 0) .tAcq } := by
  have hnd := h.q_nodup
  rw [hq] at hnd
  have hjq : j ∉ q := (List.nodup_cons.1 hnd).1
  have hpj : s.futs[j]? = some .pending := h.q_pending j (by simp [hq])
  have hjl : j < cfg.nJobs := by
    rw [← h.futs_len]
    rcases Nat.lt_or_ge j s.futs.length with h' | h'
    · exact h'
    · simp [List.getElem?_eq_none h'] at hpj
  have hjf : j < s.futs.length := by rw [h.futs_len]; exact hjl
  refine ⟨by simp [h.tasks_len], by simp [h.futs_len], h.locks_len, (List.nodup_cons.1 hnd).2,
    ?_, ?_, ?_, ?_⟩
  · intro j' hj'
    have hne : j ≠ j' := fun e => hjq (e ▸ hj')
    simp only [List.getElem?_set, hne, if_false]
    exact h.q_pending j' (by simp [hq, hj'])
  · intro k p hk hp
    by_cases hkj : cfg.job k = j
    · simp [hkj, hjf]
    · simp only [List.getElem?_set, Ne.symm hkj, if_false]
      by_cases hks : cfg.jobStarts.getD j 0 = k
      · exact absurd (hks ▸ wf.start_job j hjl) hkj
      · simp only [List.getElem?_set, hks, if_false] at hk
        exact h.started k p hk hp
  · intro k hk
    obtain ⟨h1, h2⟩ := h.submitting k hk
    refine ⟨fun j' hj' => h1 j' (by simp [hq, hj']), fun j' hkj hjl' => ?_⟩
    have : j < k := h1 j (by simp [hq])
    have hne : j ≠ j' := by omega
    simp only [List.getElem?_set, hne, if_false]
    exact h2 j' hkj hjl'
  · intro a k p hak hjk hk hp
    have hane : a ≠ k := by omega
    by_cases hks : cfg.jobStarts.getD j 0 = k
    · -- k is the first tensor of job j: nothing of job j precedes it
      exfalso
      have := wf.start_first j a hjl (by omega)
      rw [← hks, wf.start_job j hjl] at hjk
      exact this hjk.symm
    · simp only [List.getElem?_set, hks, if_false] at hk
      have hold := h.order a k p hak hjk hk hp
      by_cases has : cfg.jobStarts.getD j 0 = a
      · exfalso
        have hst := h.started k p hk hp
        rw [hjk, ← has, wf.start_job j hjl] at hst
        exact hst hpj
      · simp only [List.getElem?_set, has, if_false]; exact hold

theorem getElem?_lt {α : Type} {l : List α} {i : Nat} {a : α} (h : l[i]? = some a) : i < l.length := by
  rcases Nat.lt_or_ge i l.length with h' | h'
  · exact h'
  · simp [List.getElem?_eq_none h'] at h

theorem SInv_step {cfg : Cfg} (wf : WF cfg) {s s' : State} {l : Label} (h : SInv cfg s)
    (hs : StepRel cfg s l s') : SInv cfg s' := by
  cases hs with
  | submit c k hm hk =>
      obtain ⟨h1, h2⟩ := h.submitting k hm
      refine ⟨h.tasks_len, h.futs_len, h.locks_len, ?_, ?_, h.started, ?_, h.order⟩
      · simp only [List.nodup_append, h.q_nodup, List.nodup_cons, List.not_mem_nil,
          not_false_eq_true, List.nodup_nil, and_self, List.mem_cons, or_false, true_and]
        intro a ha b hb; subst hb; have := h1 a ha; omega
      · intro j hj
        simp only [List.mem_append, List.mem_cons, List.not_mem_nil, or_false] at hj
        rcases hj with hj | rfl
        · exact h.q_pending j hj
        · exact h2 j (Nat.le_refl _) hk
      · intro k' hk'
        simp only at hk'
        split at hk'
        · simp at hk'; subst hk'
          refine ⟨fun j hj => ?_, fun j hj hjl => h2 j (by omega) hjl⟩
          simp only [List.mem_append, List.mem_cons, List.not_mem_nil, or_false] at hj
          rcases hj with hj | rfl
          · have := h1 j hj; omega
          · omega
        · simp at hk'
  | collect c j ok hm hj hf =>
      unfold collectOne
      cases ok
      · simp only [Bool.false_eq_true, if_false]
        cases hmode : cfg.mode
        · simp only
          refine ⟨h.tasks_len, by simp [foldl_set_length, h.futs_len], h.locks_len, by simp,
            by simp, ?_, by simp, h.order⟩
          intro k p hk hp
          simp only [foldl_set_get]
          split
          · simp
          · exact h.started k p hk hp
        · simp only
          exact ⟨h.tasks_len, h.futs_len, h.locks_len, h.q_nodup, h.q_pending, h.started,
            by simp, h.order⟩
      · simp only [if_true]
        split
        · exact ⟨h.tasks_len, h.futs_len, h.locks_len, h.q_nodup, h.q_pending, h.started,
            by simp, h.order⟩
        · exact ⟨h.tasks_len, h.futs_len, h.locks_len, h.q_nodup, h.q_pending, h.started,
            by simp [hm], h.order⟩
  | join c e hm he =>
      exact ⟨h.tasks_len, h.futs_len, h.locks_len, h.q_nodup, h.q_pending, h.started,
        by simp, h.order⟩
  | take j q hq hidle => exact SInv_take wf h hq
  | exit hq hsd hidle => exact SInv_congr h rfl rfl rfl rfl rfl
  | cbAcq i hi hl =>
      exact SInv_congr (SInv_set_task (x := .cbBody) h hi (by simp) (by simp)) rfl rfl rfl rfl rfl
  | cbFail i hi hf =>
      exact SInv_finish (s := { s with log := s.log ++ [i], cbLock := false
                                       tLocks := s.tLocks.set (cfg.obj i) false })
        (SInv_congr h rfl rfl (by simp) rfl rfl) false hi (by simp) (by simp)
  | cbOk i hi hf =>
      exact SInv_congr (SInv_set_task (x := .bAcq) h hi (by simp) (by simp)) rfl rfl rfl rfl rfl
  | tAcq i hi hl =>
      exact SInv_congr (SInv_set_task (x := .cbAcq) h hi (by simp) (by simp)) rfl rfl (by simp) rfl rfl
  | bTry i p hi hp =>
      have hp1 : p ≠ .notStarted := by rcases hp with rfl | rfl <;> simp
      have hp2 : p ≠ .done true := by rcases hp with rfl | rfl <;> simp
      rcases budgetTry_cases cfg s i with ⟨_, _, e⟩ | ⟨_, _, e⟩ | ⟨_, _, e⟩ | ⟨_, _, e⟩ <;> rw [e]
      · exact SInv_set_task h hi hp1 hp2
      · exact SInv_congr (SInv_set_task (x := .write) h hi hp1 hp2) rfl rfl rfl rfl rfl
      · exact SInv_congr (SInv_set_task (x := .write) h hi hp1 hp2) rfl rfl rfl rfl rfl
      · exact SInv_set_task h hi hp1 hp2
  | writeFail i hi hf => exact SInv_set_task h hi (by simp) (by simp)
  | writeOk i hi hf =>
      exact SInv_congr (SInv_set_task (x := .bRel true) h hi (by simp) (by simp)) rfl rfl rfl rfl rfl
  | bRel i ok hi =>
      unfold budgetRelease
      apply SInv_finish (p := .bRel ok) _ ok _ (by simp) (by simp)
      · exact SInv_congr (s := { s with tasks := s.tasks.map wake }) (SInv_wake h) rfl rfl
          (by simp) rfl rfl
      · simp [hi, wake]

end IrVerif.Writer

/-
Tombstones are frozen: no public operation ever writes a box that has been erased.
-/
import IrVerif.Lemmas.LinkedSetSim
namespace IrVerif.LinkedSet

/-- every box erased in `s` is bit-for-bit the same in `s'` -/
def Frozen (s s' : LSet) : Prop :=
  size s ≤ size s' ∧ ∀ b, b ≠ 0 → b < size s → val s b = none → box s' b = box s b

theorem Frozen.refl (s : LSet) : Frozen s s := ⟨Nat.le_refl _, fun _ _ _ _ => rfl⟩

theorem Frozen.trans {s s' s'' : LSet} (h1 : Frozen s s') (h2 : Frozen s' s'') : Frozen s s'' := by
  refine ⟨Nat.le_trans h1.1 h2.1, ?_⟩
  intro b hb0 hb hv
  have e1 := h1.2 b hb0 hb hv
  have hv' : val s' b = none := by simp only [val, e1]; exact hv
  rw [h2.2 b hb0 (Nat.lt_of_lt_of_le hb h1.1) hv', e1]

theorem box_setNext (s : LSet) (b n c : Nat) (h : c ≠ b) : box (setNext s b n) c = box s c := by
  simp only [setNext, box_setBox]; simp [Ne.symm h]
theorem box_setPrev (s : LSet) (b n c : Nat) (h : c ≠ b) : box (setPrev s b n) c = box s c := by
  simp only [setPrev, box_setBox]; simp [Ne.symm h]
theorem box_setErased' (s : LSet) (b c : Nat) (h : c ≠ b) : box (setErased s b) c = box s c := by
  rw [box_setErased]; simp [Ne.symm h]
theorem box_pushBox' (s : LSet) (v c : Nat) (h : c ≠ size s) : box (pushBox s v) c = box s c := by
  rw [box_pushBox]; simp [h]

theorem frozen_rmv {s : LSet} {l1 l2 : List Nat} {n v : Nat} (h : Inv s (l1 ++ n :: l2)) :
    Frozen s (rmv s n v) := by
  refine ⟨by rw [size_rmv]; exact Nat.le_refl _, ?_⟩
  intro b hb0 _ hv
  have hbs : b ∉ l1 ++ n :: l2 := by
    intro hm; have := (h.live b hm).2.2; rw [hv] at this; simp at this
  obtain ⟨hp, hq, _, _⟩ := h.around
  have hpm := lastOr_mem l1 0
  have hqm := headOr_mem l2 0
  have h1 : b ≠ n := by grind
  have h2 : b ≠ pv s n := by rw [hp]; simp only [List.mem_cons] at hpm; grind
  have h3 : b ≠ nx s n := by rw [hq]; simp only [List.mem_append, List.mem_singleton] at hqm; grind
  show box (er s n) b = box s b
  unfold er
  rw [box_setErased' _ _ _ h1, box_setPrev _ _ _ _ h3, box_setNext _ _ _ _ h2]

theorem frozen_lnk {s : LSet} {bs : List Nat} (h : Inv s bs) {a : Nat} (ha : IsNode bs a) (v : Nat) :
    Frozen s (lnkS s a v) := by
  refine ⟨by rw [size_lnkS, size_lnk]; omega, ?_⟩
  intro b hb0 hb hv
  have hbs : b ∉ bs := by
    intro hm; have := (h.live b hm).2.2; rw [hv] at this; simp at this
  have halt : a < size s := by
    rcases ha with rfl | ha
    · exact h.size_pos
    · exact (h.live a ha).2.1
  have h1 : b ≠ size s := by omega
  have h2 : b ≠ a := by
    rcases ha with rfl | ha
    · exact hb0
    · rintro rfl; exact hbs ha
  have hnx : nx (pushBox s v) a = nx s a := by rw [nx_pushBox]; simp; omega
  have h3 : b ≠ nx s a := by
    have := (h.succ_pos ha).1
    rcases this with e | e
    · rw [e]; exact hb0
    · rintro rfl; exact hbs e
  show box (lnk s a v) b = box s b
  unfold lnk
  rw [hnx, box_setPrev _ _ _ _ h3, box_setNext _ _ _ _ h1, box_setPrev _ _ _ _ h1,
    box_setNext _ _ _ _ h2, box_pushBox' _ _ _ h1]

theorem AncRel.isNode {s : LSet} {bs : List Nat} {b : Nat} {a : Option Nat} (h : AncRel s bs b a) :
    IsNode bs b := by
  rcases h with ⟨h, _⟩ | ⟨h, _⟩
  · exact Or.inl h
  · exact Or.inr h

theorem frozen_insertOneAfter {s : LSet} {bs : List Nat} (h : Inv s bs) {b : Nat} (hb : IsNode bs b)
    (v : Nat) : Frozen s (insertOneAfter s b v).1 := by
  unfold insertOneAfter
  by_cases h1 : val s b = some v
  · simp only [h1, if_true]; exact Frozen.refl s
  · simp only [h1, if_false, h.owned b, Bool.not_true, Bool.false_eq_true]
    by_cases hp : ∃ n ∈ bs, val s n = some v
    · obtain ⟨n, hn, hvn⟩ := hp
      have hl : (lookup s v).isSome = true := by rw [h.lookup_some hn hvn]; rfl
      simp only [hl, if_true, h.remove_eq hn hvn, Bool.not_true, Bool.false_eq_true, if_false]
      obtain ⟨l1, l2, rfl⟩ := List.append_of_mem hn
      have h' := inv_rmv h hvn
      have hbn : b ≠ n := by rintro rfl; exact h1 hvn
      have hb' : IsNode (l1 ++ l2) b := by
        rcases hb with hb | hb
        · exact Or.inl hb
        · right; grind
      rw [linkNew_eq]
      exact (frozen_rmv h).trans (frozen_lnk h' hb' v)
    · have hfresh : ∀ c ∈ bs, val s c ≠ some v := fun c hc hcv => hp ⟨c, hc, hcv⟩
      have hl : (lookup s v).isSome = false := by rw [h.lookup_none hfresh]; rfl
      simp only [hl, Bool.false_eq_true, if_false, Bool.not_true]
      rw [linkNew_eq]
      exact frozen_lnk h hb v

theorem frozen_insertManyAfter : ∀ (vs : List Nat) {s : LSet} {bs : List Nat} (_ : Inv s bs)
    {b : Nat} {a : Option Nat} (_ : AncRel s bs b a), Frozen s (insertManyAfter s b vs).1
  | [], s, _, _, _, _, _ => Frozen.refl s
  | v :: vs, s, bs, h, b, a, hr => by
      obtain ⟨bs1, b1, he, h1, hr1, _, _⟩ :=
        sim_insertOneAfter h hr v .fwd .notStarted (by simpa [Cursor.pos] using h.size_pos)
      have f1 := frozen_insertOneAfter h hr.isNode v
      have f2 := frozen_insertManyAfter vs h1 hr1
      have e : insertManyAfter s b (v :: vs) = insertManyAfter (insertOneAfter s b v).1 b1 vs := by
        conv => lhs; unfold insertManyAfter
        rw [he]
      rw [e]; exact f1.trans f2

theorem frozen_append {s : LSet} {bs : List Nat} (h : Inv s bs) (v : Nat) : Frozen s (append s v).1 := by
  simp only [append]
  exact frozen_insertOneAfter h (AncRel.last h).isNode v

theorem frozen_extend : ∀ (vs : List Nat) {s : LSet} {bs : List Nat} (_ : Inv s bs),
    Frozen s (extend s vs).1
  | [], s, _, _ => Frozen.refl s
  | v :: vs, s, bs, h => by
      obtain ⟨bs1, ho1, h1, _, _⟩ :=
        sim_append h v .fwd .notStarted (by simpa [Cursor.pos] using h.size_pos)
      have e : extend s (v :: vs) = extend (append s v).1 vs := by
        conv => lhs; unfold extend
        have : append s v = ((append s v).1, true) := by rw [← ho1]
        rw [this]
      rw [e]; exact (frozen_append h v).trans (frozen_extend vs h1)

theorem frozen_apply {s : LSet} {bs : List Nat} (h : Inv s bs) (op : Op) : Frozen s (apply s op).1 := by
  cases op with
  | append v => exact frozen_append h v
  | extend vs => exact frozen_extend vs h
  | insertAfter a vs =>
    simp only [apply, insertAfter]
    cases hl : lookup s a with
    | none => exact Frozen.refl s
    | some b =>
      obtain ⟨hb, hv⟩ := h.lookup_spec hl
      exact frozen_insertManyAfter vs h (a := some a) (Or.inr ⟨hb, by simp [vl, hv]⟩)
  | insertBefore a vs =>
    simp only [apply, insertBefore]
    cases hl : lookup s a with
    | none => exact Frozen.refl s
    | some b =>
      obtain ⟨hb, hv⟩ := h.lookup_spec hl
      obtain ⟨l1, l2, rfl⟩ := List.append_of_mem hb
      exact frozen_insertManyAfter vs h (AncRel.pred h)
  | remove v =>
    simp only [apply]
    by_cases hm : ∃ n ∈ bs, val s n = some v
    · obtain ⟨n, hn, hvn⟩ := hm
      obtain ⟨l1, l2, rfl⟩ := List.append_of_mem hn
      rw [h.remove_eq hn hvn]; exact frozen_rmv h
    · rw [h.remove_absent (fun b hb hv => hm ⟨b, hb, hv⟩)]; exact Frozen.refl s

end IrVerif.LinkedSet

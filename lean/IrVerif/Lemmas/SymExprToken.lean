/-
C16: the tokenizer reads back what `render` writes (tokens separated by single spaces), and the
`isidentifier` fast path of `parse_symbolic_expression` agrees with the general path.
-/
import IrVerif.Model.SymExpr
namespace IrVerif.SymExpr

/-- the text after a token in `render`: nothing, or a space and more -/
def Sep (r : List Char) : Prop := r = [] ∨ ∃ r', r = ' ' :: r'

theorem takeDigits_append (ds : List Char) (acc : Nat) (r : List Char)
    (hds : ∀ c ∈ ds, isDigit c = true) (hr : Sep r) :
    takeDigits acc (ds ++ r) = (Nat.ofDigitChars 10 ds acc, r) := by
  induction ds generalizing acc with
  | nil =>
    rcases hr with rfl | ⟨r', rfl⟩
    · simp [takeDigits]
    · simp [takeDigits, isDigit]
  | cons c cs ih =>
    have hc := hds c (by simp)
    simp only [List.cons_append, takeDigits, hc, if_true]
    rw [ih _ (fun d hd => hds d (by simp [hd])), Nat.ofDigitChars_cons]
    simp [digitVal, Nat.mul_comm]

theorem takeIdent_append (cs acc : List Char) (r : List Char)
    (hcs : ∀ c ∈ cs, identCont c = true) (hr : Sep r) :
    takeIdent acc (cs ++ r) = (acc.reverse ++ cs, r) := by
  induction cs generalizing acc with
  | nil =>
    rcases hr with rfl | ⟨r', rfl⟩
    · simp [takeIdent]
    · simp [takeIdent, identCont, isAlnum, isAlpha, isDigit]
  | cons c cs ih =>
    have hc := hcs c (by simp)
    simp only [List.cons_append, takeIdent, hc, if_true]
    rw [ih _ (fun d hd => hcs d (by simp [hd]))]
    simp


theorem isDigit_iff (c : Char) : isDigit c = true ↔ 48 ≤ c.toNat ∧ c.toNat ≤ 57 := by
  simp [isDigit, Char.le_def, UInt32.le_iff_toNat_le]

theorem isAlpha_iff (c : Char) :
    isAlpha c = true ↔ (97 ≤ c.toNat ∧ c.toNat ≤ 122) ∨ (65 ≤ c.toNat ∧ c.toNat ≤ 90) := by
  simp [isAlpha, Char.le_def, UInt32.le_iff_toNat_le]

theorem identStart_iff (c : Char) :
    identStart c = true ↔ (97 ≤ c.toNat ∧ c.toNat ≤ 122) ∨ (65 ≤ c.toNat ∧ c.toNat ≤ 90) ∨ c.toNat = 95 := by
  have h95 : (c == '_') = true ↔ c.toNat = 95 := by
    constructor
    · intro h; have := eq_of_beq h; subst this; rfl
    · intro h
      have : c = '_' := by apply Char.ext; apply UInt32.toNat_inj.mp; simpa using h
      simp [this]
  simp only [identStart, Bool.or_eq_true, isAlpha_iff, h95]
  omega

theorem digit_notSpace {c : Char} (h : isDigit c = true) : isSpace c = false := by
  rw [isDigit_iff] at h
  simp [isSpace]; omega

theorem identStart_notSpace {c : Char} (h : identStart c = true) : isSpace c = false := by
  rw [identStart_iff] at h
  simp [isSpace]; omega

theorem identStart_notDigit {c : Char} (h : identStart c = true) : isDigit c = false := by
  rw [identStart_iff] at h
  cases hd : isDigit c with
  | false => rfl
  | true => rw [isDigit_iff] at hd; omega

theorem identStart_cont {c : Char} (h : identStart c = true) : identCont c = true := by
  simp only [identStart, Bool.or_eq_true] at h
  simp only [identCont, isAlnum, Bool.or_eq_true]
  rcases h with h | h
  · exact Or.inl (Or.inl (Or.inl h))
  · exact Or.inl (Or.inr h)

theorem toDigits_isDigit (n : Nat) : ∀ c ∈ Nat.toDigits 10 n, isDigit c = true := by
  intro c hc
  have h := Nat.isDigit_of_mem_toDigits (by decide) (by decide) hc
  rw [isDigit_iff]
  simp [Char.isDigit, UInt32.le_iff_toNat_le] at h
  omega

/-- identifier tokens must carry an identifier text; other tokens are always printable -/
def WfTok : Tok → Prop
  | .ident s => ∃ c cs, s.toList = c :: cs ∧ identStart c = true ∧ ∀ d ∈ cs, identCont d = true
  | _ => True

theorem tokenizeAux_space (f : Nat) (r : List Char) : tokenizeAux (f + 1) (' ' :: r) = tokenizeAux f r := by
  simp [tokenizeAux, isSpace]

/-- one token of `render`, followed by a separator, is read back as that token -/
theorem tokenizeAux_tok (t : Tok) (ht : WfTok t) (f : Nat) (r : List Char) (hr : Sep r) :
    tokenizeAux (f + 1) (tokChars t ++ r) = (tokenizeAux f r).map (t :: ·) := by
  cases t with
  | num n =>
    have hne := Nat.toDigits_ne_nil (n := n) (b := 10)
    have hall := toDigits_isDigit n
    have hval : Nat.ofDigitChars 10 (Nat.toDigits 10 n) 0 = n := Nat.ofDigitChars_ten_toDigits
    simp only [tokChars]
    generalize Nat.toDigits 10 n = ds at hne hall hval
    rcases ds with _ | ⟨c, cs⟩
    · exact absurd rfl hne
    · have hc := hall c (by simp)
      have htd := takeDigits_append (c :: cs) 0 r hall hr
      simp only [List.cons_append] at htd
      simp only [List.cons_append, tokenizeAux, digit_notSpace hc, hc, htd, hval]
      simp
  | ident s =>
    obtain ⟨c, cs, hs, hc, hcs⟩ := ht
    have hall : ∀ d ∈ c :: cs, identCont d = true := by
      intro d hd
      rcases List.mem_cons.mp hd with rfl | hd
      · exact identStart_cont hc
      · exact hcs d hd
    have hti := takeIdent_append (c :: cs) [] r hall hr
    simp only [List.cons_append, List.reverse_nil, List.nil_append] at hti
    have hstr : String.ofList (c :: cs) = s := by rw [← hs]; simp
    simp only [tokChars, hs, List.cons_append, tokenizeAux, identStart_notSpace hc,
      identStart_notDigit hc, hc, hti, hstr]
    simp
  | op o =>
    rcases hr with rfl | ⟨r', rfl⟩ <;> cases o <;>
      simp [tokChars, opChars, tokenizeAux, isSpace, isDigit, identStart, isAlpha]
  | lparen =>
    simp [tokChars, tokenizeAux, isSpace, isDigit, identStart, isAlpha]
  | rparen =>
    simp [tokChars, tokenizeAux, isSpace, isDigit, identStart, isAlpha]
  | comma =>
    simp [tokChars, tokenizeAux, isSpace, isDigit, identStart, isAlpha]


theorem tokChars_length_pos (t : Tok) (ht : WfTok t) : 1 ≤ (tokChars t).length := by
  cases t with
  | num n =>
    have := Nat.length_toDigits_pos (b := 10) (n := n)
    simp only [tokChars]; omega
  | ident s =>
    obtain ⟨c, cs, hs, _, _⟩ := ht
    simp [tokChars, hs]
  | op o => cases o <;> simp [tokChars, opChars]
  | lparen => simp [tokChars]
  | rparen => simp [tokChars]
  | comma => simp [tokChars]

theorem render_length : (ts : List Tok) → (∀ t ∈ ts, WfTok t) → 2 * ts.length ≤ (render ts).length + 1
  | [], _ => by simp
  | [t], h => by
    have := tokChars_length_pos t (h t (by simp))
    simp [render]; omega
  | t :: t2 :: ts, h => by
    have h1 := tokChars_length_pos t (h t (by simp))
    have h2 := render_length (t2 :: ts) (fun x hx => h x (by simp [hx]))
    simp only [render, List.length_append, List.length_cons] at *
    omega

theorem tokenizeAux_render : (ts : List Tok) → (∀ t ∈ ts, WfTok t) →
    ∀ f, 1 ≤ f → 2 * ts.length ≤ f → tokenizeAux f (render ts) = some ts
  | [], _, f, h1, _ => by
    obtain ⟨f', rfl⟩ : ∃ f', f = f' + 1 := ⟨f - 1, by omega⟩
    simp [render, tokenizeAux]
  | [t], h, f, _, h2 => by
    obtain ⟨f', rfl⟩ : ∃ f', f = f' + 2 := ⟨f - 2, by simp at h2; omega⟩
    have := tokenizeAux_tok t (h t (by simp)) (f' + 1) [] (Or.inl rfl)
    simp only [List.append_nil] at this
    simp [render, this, tokenizeAux]
  | t :: t2 :: ts, h, f, _, h2 => by
    obtain ⟨f', rfl⟩ : ∃ f', f = f' + 2 := ⟨f - 2, by simp at h2; omega⟩
    have ih := tokenizeAux_render (t2 :: ts) (fun x hx => h x (by simp [hx])) f' (by simp at h2 ⊢; omega)
      (by simp at h2 ⊢; omega)
    have := tokenizeAux_tok t (h t (by simp)) (f' + 1) (' ' :: render (t2 :: ts)) (Or.inr ⟨_, rfl⟩)
    simp only [render, this, tokenizeAux_space, ih]
    rfl

/-- **the tokenizer inverts `render`** -/
theorem tokenize_render (ts : List Tok) (h : ∀ t ∈ ts, WfTok t) : tokenize (render ts) = some ts := by
  have hl := render_length ts h
  exact tokenizeAux_render ts h _ (by omega) (by omega)

end IrVerif.SymExpr

/-
Helper lemmas for C07 (third deepening round): the two assignment loops for an arbitrary list of new
states, the saved tensors of a position-level safetensors save as a filter of the initializer list,
header entries come from views, the restore loop cut by an asynchronous exception.
Core Lean only.
-/
import IrVerif.Lemmas.LayoutNames
import IrVerif.Lemmas.LayoutSave
import IrVerif.Lemmas.LayoutSeq
import IrVerif.Model.LayoutStSave
namespace IrVerif.Layout

/-- `unload_generic` of Props/C07 for an arbitrary list of new states (not only `external` records):
    the `c`-th selected initializer gets the `c`-th new state -/
theorem unload_generic_news (vs : List Init) (pe pm : Init → Bool)
    (hex : ∀ v, pe v = true → pm v = false)
    (news : List NewConst)
    (hnews : news.length = (vs.filter pe).length)
    (k : Nat) (hk : k < vs.length) :
    let res := assignZip (assignZip (List.replicate vs.length NewConst.same) (splitBy pe pm 0 vs).1 news)
          (splitBy pe pm 0 vs).2 ((splitBy pe pm 0 vs).2.map fun _ => NewConst.memory)
    (pe vs[k] = true → ∃ hc : (vs.take k).countP pe < news.length,
        res[k]? = some news[(vs.take k).countP pe]) ∧
    (pe vs[k] = false → pm vs[k] = true → res[k]? = some .memory) ∧
    (pe vs[k] = false → pm vs[k] = false → res[k]? = some .same) := by
  intro res
  have hE := splitBy_mem_fst pe pm 0 vs
  have hM := splitBy_mem_snd pe pm 0 vs
  have hEs := nodup_of_sorted (splitBy_sorted_fst pe pm 0 vs)
  have hMs := nodup_of_sorted (splitBy_sorted_snd pe pm 0 vs)
  have hidx := splitBy_index pe pm 0 vs
  have hfil := splitBy_map_filter pe pm [] vs
  simp only [List.length_nil, List.nil_append] at hfil
  have hpl : news.length = (splitBy pe pm 0 vs).1.length := by
    rw [hnews, ← hfil]; simp
  simp only [res]
  generalize hext : (splitBy pe pm 0 vs).1 = ext at *
  generalize hmem : (splitBy pe pm 0 vs).2 = mem at *
  have hEb : ∀ i ∈ ext, i < (List.replicate vs.length NewConst.same).length := by
    intro i hi; obtain ⟨j, hj, rfl, _⟩ := (hE i).mp hi; simpa using hj
  have hMb : ∀ i ∈ mem, i < (assignZip (List.replicate vs.length NewConst.same) ext news).length := by
    intro i hi; obtain ⟨j, hj, rfl, _⟩ := (hM i).mp hi
    rw [assignZip_length]; simpa using hj
  have hnotE : pe vs[k] = false → k ∉ ext := by
    intro he hm
    obtain ⟨j, hj, hkj, hp⟩ := (hE k).mp hm
    have : j = k := by omega
    subst this; rw [he] at hp; exact absurd hp (by simp)
  have hnotM : pm vs[k] = false → k ∉ mem := by
    intro he hm
    obtain ⟨j, hj, hkj, hp⟩ := (hM k).mp hm
    have : j = k := by omega
    subst this; rw [he] at hp; exact absurd hp (by simp)
  refine ⟨?_, ?_, ?_⟩
  · intro he
    have hc := hidx k hk he
    simp only [Nat.zero_add] at hc
    generalize (vs.take k).countP pe = c at *
    have hcl : c < ext.length := by
      by_cases h : c < ext.length
      · exact h
      · rw [List.getElem?_eq_none (by omega)] at hc; cases hc
    have hck : ext[c] = k := by
      rw [List.getElem?_eq_getElem hcl] at hc; exact Option.some.inj hc
    refine ⟨by omega, ?_⟩
    rw [assignZip_not_mem _ _ _ _ (hnotM (hex _ he)), ← hck,
      assignZip_mem _ _ _ hEs (by omega) hEb c hcl]
    simp [show c < news.length by omega]
  · intro he hm
    have hkin : k ∈ mem := (hM k).mpr ⟨k, hk, by simp, hm⟩
    obtain ⟨j, hj, hjk⟩ := List.getElem_of_mem hkin
    subst hjk
    rw [assignZip_mem _ _ _ hMs (by simp) hMb j hj]
    simp [hj]
  · intro he hm
    rw [assignZip_not_mem _ _ _ _ (hnotM hm), assignZip_not_mem _ _ _ _ (hnotE he)]
    simp [hk]

/-- the selected positions, mapped to the initializers of a list that CARRIES the flags, are the
    filter of that list (`splitBy_map_filter` for `StInit`) -/
theorem splitBy_map_filter_st (pe pm : Init → Bool) (pre vs : List StInit) :
    (splitBy pe pm pre.length (vs.map (·.init))).1.map (fun i => (pre ++ vs).getD i default)
      = vs.filter (fun v => pe v.init) := by
  induction vs generalizing pre with
  | nil => simp [splitBy]
  | cons v rest ih =>
    have h := ih (pre ++ [v])
    simp only [List.length_append, List.length_singleton, List.append_assoc, List.singleton_append] at h
    simp only [List.map_cons, splitBy, List.filter_cons]
    by_cases hv : pe v.init = true
    · simp only [hv, if_true, List.map_cons, h]
      congr 1
      simp [List.getD_eq_getElem?_getD]
    · simp only [hv, Bool.false_eq_true, if_false, h]

/-- `tensors_to_save` is the filter of the initializer list by the threshold classification -/
theorem stSaved_eq_filter (vs : List StInit) (thr : Int) :
    stSaved vs thr = (vs.filter (fun v => extSt thr v.init)).map StInit.tensor := by
  unfold stSaved splitSt
  rw [splitStGo_eq]
  have := splitBy_map_filter_st (extSt thr) (memSt thr) [] vs
  simp only [List.length_nil, List.nil_append] at this
  rw [← this, List.map_map]
  rfl

theorem extSt_snapshot (thr : Int) (v : StInit) (h : extSt thr v.init = true) : stSnapshotB v = true := by
  simp only [extSt, Bool.and_eq_true] at h
  simp [stSnapshotB, h.1.1, h.1.2]

/-- the names of the saved tensors are a sublist of the names `save_safetensors` checks -/
theorem stSaved_names_sublist (vs : List StInit) (thr : Int) :
    ((stSaved vs thr).map (·.name)).Sublist ((vs.filter stSnapshotB).map (·.name)) := by
  rw [stSaved_eq_filter, List.map_map]
  have h1 : (vs.filter (fun v => extSt thr v.init)) = (vs.filter stSnapshotB).filter (fun v => extSt thr v.init) := by
    rw [List.filter_filter]
    apply List.filter_congr
    intro v _
    by_cases h : extSt thr v.init = true
    · simp [h, extSt_snapshot thr v h]
    · simp [h]
  rw [h1]
  exact (List.filter_sublist).map _

/-- the saved tensor of a position above the threshold: its index among the saved ones is the number
    of such positions before it -/
theorem stSaved_index (vs : List StInit) (thr : Int) (k : Nat) (hk : k < vs.length)
    (he : extSt thr vs[k].init = true) :
    (stSaved vs thr)[((vs.map (·.init)).take k).countP (extSt thr)]? = some vs[k].tensor := by
  have hk' : k < (vs.map (·.init)).length := by simpa using hk
  have hidx := splitBy_index (extSt thr) (memSt thr) 0 (vs.map (·.init)) k hk' (by simpa using he)
  unfold stSaved splitSt
  rw [splitStGo_eq, List.getElem?_map, hidx]
  simp [List.getD_eq_getElem?_getD, List.getElem?_eq_getElem hk]

theorem stSaved_length (vs : List StInit) (thr : Int) :
    (stSaved vs thr).length = ((vs.map (·.init)).filter (extSt thr)).length := by
  rw [stSaved_eq_filter, List.length_map, List.filter_map, List.length_map]
  rfl

/-- every header entry of a file comes from one of its views -/
theorem entriesFrom_mem_view (cur : Nat) (vs : List StView) :
    ∀ e ∈ entriesFrom cur vs, ∃ v ∈ vs, ∃ c, e = ⟨v.name, v.sd, v.hshape, c, c + v.bytes.length⟩ := by
  induction vs generalizing cur with
  | nil => intro e he; simp [entriesFrom] at he
  | cons v vs ih =>
    intro e he
    simp only [entriesFrom, List.mem_cons] at he
    rcases he with rfl | he
    · exact ⟨v, List.mem_cons_self .., cur, rfl⟩
    · obtain ⟨w, hw, c, rfl⟩ := ih _ e he
      exact ⟨w, List.mem_cons_of_mem _ hw, c, rfl⟩

theorem stReplace_length (names : List (List Nat)) (assigns : List (List Nat × Placement)) :
    (stReplace names assigns).length = names.length := by
  rw [stReplace_eq]
  have : ∀ (A : List (List Nat × Placement)) (st : List (Option Placement)),
      (A.foldl (replaceStep names) st).length = st.length := by
    intro A
    induction A with
    | nil => intro st; rfl
    | cons a A ih => intro st; rw [List.foldl_cons, ih, replaceStep_length]
  rw [this]; simp

/-! ## the sequence-state initializer list of the safetensors backend -/

theorem stVS_length (metas : List StMeta) (refs : List (Ref FileKey)) (vals : List (List Nat))
    (hl : refs.length = vals.length) : (stVS metas refs vals).length = vals.length := by
  induction refs generalizing metas vals with
  | nil => cases vals <;> simp_all [stVS]
  | cons r rs ih =>
    cases vals with
    | nil => simp at hl
    | cons bs bss =>
      cases metas with
      | nil => simp [stVS, ih [] bss (by simpa using hl)]
      | cons m ms => simp [stVS, ih ms bss (by simpa using hl)]

theorem stVS_get (metas : List StMeta) (refs : List (Ref FileKey)) (vals : List (List Nat))
    (hl : refs.length = vals.length) (k : Nat) (hk : k < vals.length) :
    ∃ v, (stVS metas refs vals)[k]? = some v ∧ v.bytes = vals[k] ∧ v.init.nbytes = vals[k].length := by
  induction refs generalizing metas vals k with
  | nil =>
    cases vals with
    | nil => simp at hk
    | cons _ _ => simp at hl
  | cons r rs ih =>
    cases vals with
    | nil => simp at hl
    | cons bs bss =>
      cases k with
      | zero => cases metas <;> simp [stVS]
      | succ k =>
        have hk' : k < bss.length := by simpa using hk
        cases metas with
        | nil =>
          obtain ⟨v, h1, h2, h3⟩ := ih [] bss (by simpa using hl) k hk'
          exact ⟨v, by simpa [stVS] using h1, by simpa using h2, by simpa using h3⟩
        | cons m ms =>
          obtain ⟨v, h1, h2, h3⟩ := ih ms bss (by simpa using hl) k hk'
          exact ⟨v, by simpa [stVS] using h1, by simpa using h2, by simpa using h3⟩

theorem stVS_names_nil (refs : List (Ref FileKey)) (vals : List (List Nat)) :
    (stVS [] refs vals).filter stSnapshotB = [] := by
  induction refs generalizing vals with
  | nil => cases vals <;> simp [stVS]
  | cons r rs ih =>
    cases vals with
    | nil => simp [stVS]
    | cons bs bss => simp [stVS, stSnapshotB, ih]

/-- the names `save_safetensors` checks in a sequence state are a sublist of the meta names -/
theorem stVS_names_sublist (metas : List StMeta) (refs : List (Ref FileKey)) (vals : List (List Nat)) :
    (((stVS metas refs vals).filter stSnapshotB).map (·.name)).Sublist (metas.map (·.name)) := by
  induction refs generalizing metas vals with
  | nil => cases vals <;> simp [stVS]
  | cons r rs ih =>
    cases vals with
    | nil => simp [stVS]
    | cons bs bss =>
      cases metas with
      | nil => simp [stVS, stSnapshotB, stVS_names_nil]
      | cons m ms =>
        simp only [stVS, List.filter_cons, stSnapshotB, Bool.not_false, Bool.and_self, if_true,
          List.map_cons]
        exact (ih ms bss).cons_cons _

theorem stNamesOk_sublist (a b : List (List Nat)) (h : a.Sublist b) (hb : stNamesOk b = true) :
    stNamesOk a = true := by
  simp only [stNamesOk, Bool.and_eq_true, decide_eq_true_eq, Bool.not_eq_true',
    List.contains_eq_mem, decide_eq_false_iff_not] at hb ⊢
  exact ⟨h.nodup hb.1, fun hm => hb.2 (h.subset hm)⟩


/-- the ONNX dtypes without entry in the save table -/
theorem stDtypeOf_none_iff (d : IrVerif.TensorRepr.DType) :
    stDtypeOf d = none ↔ d = .undefined ∨ d = .string ∨ d = .complex128 := by
  cases d <;> decide


end IrVerif.Layout

/-
C16: an independent specification of the tokenizer (longest-match lexer) and the proof that
`tokenize` implements exactly it.
-/
import IrVerif.Lemmas.SymExprToken
namespace IrVerif.SymExpr

/-- the text does not continue with a character of class `p` -/
def notHead (p : Char → Bool) : List Char → Prop
  | [] => True
  | c :: _ => p c = false

/-- **Lexer specification** (maximal munch): blanks separate and are dropped; a number is a
    maximal run of digits (its decimal value); an identifier starts with a letter or `_` and is a
    maximal run of letters, digits, `_`, `.`; `//` and `**` are preferred over `/` and `*`; the
    other tokens are single characters; nothing else is a token. -/
inductive Lex : List Char → List Tok → Prop
  | nil : Lex [] []
  | space {c cs ts} : isSpace c = true → Lex cs ts → Lex (c :: cs) ts
  | num {d ds rest ts} : (∀ x ∈ d :: ds, isDigit x = true) → notHead isDigit rest → Lex rest ts →
      Lex (d :: ds ++ rest) (.num (Nat.ofDigitChars 10 (d :: ds) 0) :: ts)
  | ident {c cs rest ts} : identStart c = true → (∀ x ∈ cs, identCont x = true) →
      notHead identCont rest → Lex rest ts →
      Lex (c :: cs ++ rest) (.ident (String.ofList (c :: cs)) :: ts)
  | dslash {rest ts} : Lex rest ts → Lex ('/' :: '/' :: rest) (.op .dslash :: ts)
  | dstar {rest ts} : Lex rest ts → Lex ('*' :: '*' :: rest) (.op .dstar :: ts)
  | slash {rest ts} : notHead (· == '/') rest → Lex rest ts → Lex ('/' :: rest) (.op .slash :: ts)
  | star {rest ts} : notHead (· == '*') rest → Lex rest ts → Lex ('*' :: rest) (.op .star :: ts)
  | plus {rest ts} : Lex rest ts → Lex ('+' :: rest) (.op .plus :: ts)
  | minus {rest ts} : Lex rest ts → Lex ('-' :: rest) (.op .minus :: ts)
  | percent {rest ts} : Lex rest ts → Lex ('%' :: rest) (.op .percent :: ts)
  | lparen {rest ts} : Lex rest ts → Lex ('(' :: rest) (.lparen :: ts)
  | rparen {rest ts} : Lex rest ts → Lex (')' :: rest) (.rparen :: ts)
  | comma {rest ts} : Lex rest ts → Lex (',' :: rest) (.comma :: ts)

theorem takeDigits_spec : ∀ (cs : List Char) (acc n : Nat) (rest : List Char),
    takeDigits acc cs = (n, rest) →
    ∃ ds, cs = ds ++ rest ∧ (∀ x ∈ ds, isDigit x = true) ∧ notHead isDigit rest ∧
      n = Nat.ofDigitChars 10 ds acc
  | [], acc, n, rest, h => by
    simp only [takeDigits, Prod.mk.injEq] at h
    exact ⟨[], by simp [h.2.symm], by simp, by simp [← h.2, notHead], by simp [h.1.symm]⟩
  | c :: cs, acc, n, rest, h => by
    by_cases hc : isDigit c = true
    · simp only [takeDigits, hc, if_true] at h
      obtain ⟨ds, h1, h2, h3, h4⟩ := takeDigits_spec cs _ n rest h
      refine ⟨c :: ds, by simp [h1], ?_, h3, ?_⟩
      · intro x hx
        rcases List.mem_cons.mp hx with rfl | hx
        · exact hc
        · exact h2 x hx
      · rw [h4, Nat.ofDigitChars_cons]; simp [digitVal, Nat.mul_comm]
    · simp only [takeDigits, hc] at h
      simp only [Bool.false_eq_true, if_false, Prod.mk.injEq] at h
      refine ⟨[], by simp [h.2.symm], by simp, ?_, by simp [h.1.symm]⟩
      rw [← h.2]
      simpa [notHead] using hc

theorem takeIdent_spec : ∀ (cs acc name rest : List Char),
    takeIdent acc cs = (name, rest) →
    ∃ xs, cs = xs ++ rest ∧ (∀ x ∈ xs, identCont x = true) ∧ notHead identCont rest ∧
      name = acc.reverse ++ xs
  | [], acc, name, rest, h => by
    simp only [takeIdent, Prod.mk.injEq] at h
    exact ⟨[], by simp [h.2.symm], by simp, by simp [← h.2, notHead], by simp [h.1.symm]⟩
  | c :: cs, acc, name, rest, h => by
    by_cases hc : identCont c = true
    · simp only [takeIdent, hc, if_true] at h
      obtain ⟨xs, h1, h2, h3, h4⟩ := takeIdent_spec cs _ name rest h
      refine ⟨c :: xs, by simp [h1], ?_, h3, by simp [h4]⟩
      intro x hx
      rcases List.mem_cons.mp hx with rfl | hx
      · exact hc
      · exact h2 x hx
    · simp only [takeIdent, hc] at h
      simp only [Bool.false_eq_true, if_false, Prod.mk.injEq] at h
      refine ⟨[], by simp [h.2.symm], by simp, ?_, by simp [h.1.symm]⟩
      rw [← h.2]
      simpa [notHead] using hc

theorem takeDigits_append' (ds : List Char) (acc : Nat) (r : List Char)
    (hds : ∀ c ∈ ds, isDigit c = true) (hr : notHead isDigit r) :
    takeDigits acc (ds ++ r) = (Nat.ofDigitChars 10 ds acc, r) := by
  induction ds generalizing acc with
  | nil =>
    rcases r with _ | ⟨c, r'⟩
    · simp [takeDigits]
    · simp only [notHead] at hr
      simp [takeDigits, hr]
  | cons c cs ih =>
    have hc := hds c (by simp)
    simp only [List.cons_append, takeDigits, hc, if_true]
    rw [ih _ (fun d hd => hds d (by simp [hd])), Nat.ofDigitChars_cons]
    simp [digitVal, Nat.mul_comm]

theorem takeIdent_append' (cs acc : List Char) (r : List Char)
    (hcs : ∀ c ∈ cs, identCont c = true) (hr : notHead identCont r) :
    takeIdent acc (cs ++ r) = (acc.reverse ++ cs, r) := by
  induction cs generalizing acc with
  | nil =>
    rcases r with _ | ⟨c, r'⟩
    · simp [takeIdent]
    · simp only [notHead] at hr
      simp [takeIdent, hr]
  | cons c cs ih =>
    have hc := hcs c (by simp)
    simp only [List.cons_append, takeIdent, hc, if_true]
    rw [ih _ (fun d hd => hcs d (by simp [hd]))]
    simp


/-- spec ⇒ implementation (with any fuel above the text length) -/
theorem tokenizeAux_of_lex {cs : List Char} {ts : List Tok} (h : Lex cs ts) :
    ∀ f, cs.length < f → tokenizeAux f cs = some ts := by
  induction h with
  | nil =>
    intro f hf
    obtain ⟨f', rfl⟩ : ∃ f', f = f' + 1 := ⟨f - 1, by omega⟩
    simp [tokenizeAux]
  | space hc _ ih =>
    intro f hf
    obtain ⟨f', rfl⟩ : ∃ f', f = f' + 1 := ⟨f - 1, by omega⟩
    simp only [List.length_cons] at hf
    simp only [tokenizeAux, hc, if_true]
    exact ih f' (by omega)
  | @num d ds rest ts hds hr _ ih =>
    intro f hf
    obtain ⟨f', rfl⟩ : ∃ f', f = f' + 1 := ⟨f - 1, by omega⟩
    have hd := hds d (by simp)
    have htd := takeDigits_append' (d :: ds) 0 rest hds hr
    simp only [List.cons_append] at htd
    simp only [List.cons_append, List.length_cons, List.length_append] at hf
    simp only [List.cons_append, tokenizeAux, digit_notSpace hd, hd, htd]
    simp [ih f' (by omega)]
  | @ident c cs rest ts hc hcs hr _ ih =>
    intro f hf
    obtain ⟨f', rfl⟩ : ∃ f', f = f' + 1 := ⟨f - 1, by omega⟩
    have hall : ∀ d ∈ c :: cs, identCont d = true := by
      intro d hd
      rcases List.mem_cons.mp hd with rfl | hd
      · exact identStart_cont hc
      · exact hcs d hd
    have hti := takeIdent_append' (c :: cs) [] rest hall hr
    simp only [List.cons_append, List.reverse_nil, List.nil_append] at hti
    simp only [List.cons_append, List.length_cons, List.length_append] at hf
    simp only [List.cons_append, tokenizeAux, identStart_notSpace hc, identStart_notDigit hc, hc, hti]
    simp [ih f' (by omega)]
  | dslash _ ih =>
    intro f hf
    obtain ⟨f', rfl⟩ : ∃ f', f = f' + 1 := ⟨f - 1, by omega⟩
    simp only [List.length_cons] at hf
    simp [tokenizeAux, isSpace, isDigit, identStart, isAlpha, ih f' (by omega)]
  | dstar _ ih =>
    intro f hf
    obtain ⟨f', rfl⟩ : ∃ f', f = f' + 1 := ⟨f - 1, by omega⟩
    simp only [List.length_cons] at hf
    simp [tokenizeAux, isSpace, isDigit, identStart, isAlpha, ih f' (by omega)]
  | @slash rest ts hr _ ih =>
    intro f hf
    obtain ⟨f', rfl⟩ : ∃ f', f = f' + 1 := ⟨f - 1, by omega⟩
    simp only [List.length_cons] at hf
    rcases rest with _ | ⟨c, r'⟩
    · simp [tokenizeAux, isSpace, isDigit, identStart, isAlpha, ih f' (by omega)]
    · have hne : c ≠ '/' := by simpa [notHead] using hr
      have hih := ih f' (by omega)
      simp [tokenizeAux, isSpace, isDigit, identStart, isAlpha, hne, hih]
  | @star rest ts hr _ ih =>
    intro f hf
    obtain ⟨f', rfl⟩ : ∃ f', f = f' + 1 := ⟨f - 1, by omega⟩
    simp only [List.length_cons] at hf
    rcases rest with _ | ⟨c, r'⟩
    · simp [tokenizeAux, isSpace, isDigit, identStart, isAlpha, ih f' (by omega)]
    · have hne : c ≠ '*' := by simpa [notHead] using hr
      have hih := ih f' (by omega)
      simp [tokenizeAux, isSpace, isDigit, identStart, isAlpha, hne, hih]
  | plus _ ih =>
    intro f hf
    obtain ⟨f', rfl⟩ : ∃ f', f = f' + 1 := ⟨f - 1, by omega⟩
    simp only [List.length_cons] at hf
    simp [tokenizeAux, isSpace, isDigit, identStart, isAlpha, ih f' (by omega)]
  | minus _ ih =>
    intro f hf
    obtain ⟨f', rfl⟩ : ∃ f', f = f' + 1 := ⟨f - 1, by omega⟩
    simp only [List.length_cons] at hf
    simp [tokenizeAux, isSpace, isDigit, identStart, isAlpha, ih f' (by omega)]
  | percent _ ih =>
    intro f hf
    obtain ⟨f', rfl⟩ : ∃ f', f = f' + 1 := ⟨f - 1, by omega⟩
    simp only [List.length_cons] at hf
    simp [tokenizeAux, isSpace, isDigit, identStart, isAlpha, ih f' (by omega)]
  | lparen _ ih =>
    intro f hf
    obtain ⟨f', rfl⟩ : ∃ f', f = f' + 1 := ⟨f - 1, by omega⟩
    simp only [List.length_cons] at hf
    simp [tokenizeAux, isSpace, isDigit, identStart, isAlpha, ih f' (by omega)]
  | rparen _ ih =>
    intro f hf
    obtain ⟨f', rfl⟩ : ∃ f', f = f' + 1 := ⟨f - 1, by omega⟩
    simp only [List.length_cons] at hf
    simp [tokenizeAux, isSpace, isDigit, identStart, isAlpha, ih f' (by omega)]
  | comma _ ih =>
    intro f hf
    obtain ⟨f', rfl⟩ : ∃ f', f = f' + 1 := ⟨f - 1, by omega⟩
    simp only [List.length_cons] at hf
    simp [tokenizeAux, isSpace, isDigit, identStart, isAlpha, ih f' (by omega)]


theorem map_cons_eq_some {o : Option (List Tok)} {t : Tok} {ts : List Tok}
    (h : o.map (t :: ·) = some ts) : ∃ ts', o = some ts' ∧ ts = t :: ts' := by
  cases o with
  | none => simp at h
  | some x => exact ⟨x, rfl, by simpa using h.symm⟩

/-- implementation ⇒ spec -/
theorem lex_of_tokenizeAux : ∀ (f : Nat) (cs : List Char) (ts : List Tok),
    tokenizeAux f cs = some ts → Lex cs ts
  | 0, _, _, h => by simp [tokenizeAux] at h
  | f + 1, [], ts, h => by
    simp only [tokenizeAux, Option.some.injEq] at h
    subst h
    exact Lex.nil
  | f + 1, c :: cs, ts, h => by
    have ih := lex_of_tokenizeAux f
    unfold tokenizeAux at h
    by_cases hsp : isSpace c = true
    · simp only [hsp, if_true] at h
      exact Lex.space hsp (ih _ _ h)
    · simp only [hsp] at h
      by_cases hd : isDigit c = true
      · simp only [hd, if_true, Bool.false_eq_true, if_false] at h
        cases htd : takeDigits 0 (c :: cs) with
        | mk n rest =>
          simp only [htd] at h
          obtain ⟨ts', h1, rfl⟩ := map_cons_eq_some h
          obtain ⟨ds, hcs, hds, hr, hn⟩ := takeDigits_spec _ _ _ _ htd
          rcases ds with _ | ⟨d, ds⟩
          · -- impossible: the first character is a digit, so the remainder cannot start with it
            simp only [List.nil_append] at hcs
            rw [← hcs] at hr
            simp [notHead, hd] at hr
          · rw [hcs, hn]
            exact Lex.num hds hr (ih _ _ h1)
      · simp only [hd, Bool.false_eq_true, if_false] at h
        by_cases hi : identStart c = true
        · simp only [hi, if_true] at h
          cases hti : takeIdent [] (c :: cs) with
          | mk name rest =>
            simp only [hti] at h
            obtain ⟨ts', h1, rfl⟩ := map_cons_eq_some h
            obtain ⟨xs, hcs, hxs, hr, hn⟩ := takeIdent_spec _ _ _ _ hti
            rcases xs with _ | ⟨x, xs⟩
            · simp only [List.nil_append] at hcs
              rw [← hcs] at hr
              simp [notHead, identStart_cont hi] at hr
            · simp only [List.reverse_nil, List.nil_append] at hn
              have hx : x = c := by
                have := congrArg List.head? hcs
                simpa using this.symm
              subst hx
              rw [hcs, hn]
              exact Lex.ident hi (fun y hy => hxs y (by simp [hy])) hr (ih _ _ h1)
        · simp only [hi, Bool.false_eq_true, if_false] at h
          split at h
          · obtain ⟨ts', h1, rfl⟩ := map_cons_eq_some h
            exact Lex.dslash (ih _ _ h1)
          · obtain ⟨ts', h1, rfl⟩ := map_cons_eq_some h
            exact Lex.dstar (ih _ _ h1)
          · obtain ⟨ts', h1, rfl⟩ := map_cons_eq_some h
            exact Lex.plus (ih _ _ h1)
          · obtain ⟨ts', h1, rfl⟩ := map_cons_eq_some h
            exact Lex.minus (ih _ _ h1)
          · obtain ⟨ts', h1, rfl⟩ := map_cons_eq_some h
            rename_i hno
            refine Lex.star ?_ (ih _ _ h1)
            rcases cs with _ | ⟨c2, r⟩
            · trivial
            · simp only [notHead, beq_eq_false_iff_ne]
              rintro rfl
              exact hno _ rfl
          · obtain ⟨ts', h1, rfl⟩ := map_cons_eq_some h
            refine Lex.slash ?_ (ih _ _ h1)
            rcases cs with _ | ⟨c2, r⟩
            · trivial
            · simp only [notHead, beq_eq_false_iff_ne]
              rintro rfl
              simp_all
          · obtain ⟨ts', h1, rfl⟩ := map_cons_eq_some h
            exact Lex.percent (ih _ _ h1)
          · obtain ⟨ts', h1, rfl⟩ := map_cons_eq_some h
            exact Lex.lparen (ih _ _ h1)
          · obtain ⟨ts', h1, rfl⟩ := map_cons_eq_some h
            exact Lex.rparen (ih _ _ h1)
          · obtain ⟨ts', h1, rfl⟩ := map_cons_eq_some h
            exact Lex.comma (ih _ _ h1)
          · simp at h

/-- **the tokenizer is exactly the longest-match lexer of the specification** -/
theorem tokenize_iff_lex (cs : List Char) (ts : List Tok) : tokenize cs = some ts ↔ Lex cs ts :=
  ⟨lex_of_tokenizeAux _ cs ts, fun h => tokenizeAux_of_lex h _ (Nat.lt_succ_self _)⟩

end IrVerif.SymExpr

import IrVerif.Lemmas.SerdeWideLeaf
/-! C02 deepening: `deserialize (fold p) = deserialize p` for attributes, nodes, graphs (arbitrary
nesting), functions and models — no hypothesis on `p` (for models below IR version 10: the main
graph's `value_info` list is fold-stable). -/
namespace IrVerif.Serde
open IrVerif.Proto

theorem foldAttr_name (a : AttrP) : (foldAttr a).name = a.name := by
  cases a <;> rfl

theorem foldAttrs_names : ∀ as : List AttrP, (foldAttrs as).map AttrP.name = as.map AttrP.name
  | [] => rfl
  | a :: as => by simp only [foldAttrs, List.map_cons, foldAttr_name, foldAttrs_names as]

theorem foldAttrs_any (n : String) : ∀ as : List AttrP,
    (foldAttrs as).any (fun b => b.name = n) = as.any (fun b => b.name = n)
  | [] => rfl
  | a :: as => by simp only [foldAttrs, List.any_cons, foldAttr_name, foldAttrs_any n as]

theorem foldNode_outputs (n : NodeP) : (foldNode n).outputs = n.outputs := by
  cases n; rfl

theorem foldNode_inputs (n : NodeP) : (foldNode n).inputs = n.inputs := by
  cases n; rfl

theorem declareAll_foldNodes (vis : List ValueInfoP) (q : List AnnotP) :
    ∀ (nodes : List NodeP) (tbl : List IRValue),
    declareAll vis q (foldNodes nodes) tbl = declareAll vis q nodes tbl
  | [], _ => rfl
  | n :: ns, tbl => by
    simp only [foldNodes, declareAll, foldNode_outputs]
    cases declareOutputs vis q n.outputs tbl with
    | error e => rfl
    | ok t1 => simp only [bind, Except.bind]; exact declareAll_foldNodes vis q ns t1

theorem nodeOutNames_foldNodes : ∀ nodes : List NodeP, nodeOutNames (foldNodes nodes) = nodeOutNames nodes
  | [] => rfl
  | n :: ns => by
    have := nodeOutNames_foldNodes ns
    simp only [nodeOutNames, foldNodes, List.flatMap_cons, List.filter_append, foldNode_outputs] at this ⊢
    rw [this]

/-! ### nodes: congruence in `value_info` -/

theorem desNode_congr {S : List String} {vis vis' : List ValueInfoP} (hv : VisAgree S vis vis')
    (outer : Scopes) (q : List AnnotP) (tbl : List IRValue) (hS : ∀ s ∈ S, s ∈ tableNames tbl) :
    ∀ n : NodeP, desNode outer vis q tbl n = desNode outer vis' q tbl n
  | .mk inputs outputs name opType domain overload doc attrs metadata devcfgs => by
    simp only [desNode, desNodeInputs_congr hv outer q inputs tbl hS]

theorem desNode_names (outer : Scopes) (vis : List ValueInfoP) (q : List AnnotP) (tbl tbl' : List IRValue)
    (x : IRNode) : ∀ n : NodeP, desNode outer vis q tbl n = .ok (x, tbl') →
    ∀ s ∈ tableNames tbl, s ∈ tableNames tbl'
  | .mk inputs outputs name opType domain overload doc attrs metadata devcfgs, h => by
    simp only [desNode] at h
    obtain ⟨⟨ins, t1⟩, hi, h⟩ := bind_eq_ok h
    obtain ⟨outs, _, h⟩ := bind_eq_ok h
    obtain ⟨as, _, h⟩ := bind_eq_ok h
    simp only [Except.ok.injEq, Prod.mk.injEq] at h
    rw [← h.2]
    exact desNodeInputs_names outer vis q inputs tbl t1 ins hi

theorem desNodes_congr {S : List String} {vis vis' : List ValueInfoP} (hv : VisAgree S vis vis')
    (outer : Scopes) (q : List AnnotP) : ∀ (nodes : List NodeP) (tbl : List IRValue),
    (∀ s ∈ S, s ∈ tableNames tbl) → desNodes outer vis q nodes tbl = desNodes outer vis' q nodes tbl
  | [], _, _ => rfl
  | n :: ns, tbl, hS => by
    simp only [desNodes]
    rw [desNode_congr hv outer q tbl hS n]
    cases hd : desNode outer vis' q tbl n with
    | error e => rfl
    | ok r =>
      obtain ⟨x, t1⟩ := r
      simp only [bind, Except.bind]
      have hd' : desNode outer vis q tbl n = .ok (x, t1) := by
        rw [desNode_congr hv outer q tbl hS n]; exact hd
      rw [desNodes_congr hv outer q ns t1
        (fun s hs => desNode_names outer vis q tbl t1 x n hd' s (hS s hs))]

/-! ### the mutual induction -/

theorem desGraphInputs_names (q : List AnnotP) : ∀ (inputs : List ValueInfoP) (tbl : List IRValue),
    desGraphInputs q inputs = .ok tbl → tableNames tbl = inputs.map (·.name)
  | [], tbl, h => by
    simp only [desGraphInputs, Except.ok.injEq] at h
    rw [← h]; rfl
  | vi :: vis, tbl, h => by
    simp only [desGraphInputs] at h
    obtain ⟨v, hv, h⟩ := bind_eq_ok h
    obtain ⟨vs, hvs, h⟩ := bind_eq_ok h
    simp only [Except.ok.injEq] at h
    have hn : v.name = vi.name := by
      simp only [applyInfo] at hv
      obtain ⟨sh, _, hv⟩ := bind_eq_ok hv
      obtain ⟨ty, _, hv⟩ := bind_eq_ok hv
      simp only [Except.ok.injEq] at hv
      rw [← hv]; rfl
    have hq : (applyQuant q v).name = v.name := by
      simp only [applyQuant]; split <;> rfl
    rw [← h]
    simp only [tableNames, List.map_cons, hq, hn]
    have := desGraphInputs_names q vis vs hvs
    simp only [tableNames] at this
    rw [this]

mutual
theorem desAttr_fold (scopes : Scopes) : ∀ a : AttrP, desAttr scopes (foldAttr a) = desAttr scopes a
  | .ref .. => rfl
  | .int .. => rfl
  | .float .. => rfl
  | .string .. => rfl
  | .ints .. => rfl
  | .floats .. => rfl
  | .strings .. => rfl
  | .tensor n d t => by simp only [foldAttr, desAttr, desTensor_foldTensor]
  | .tensors n d ts => by simp only [foldAttr, desAttr, desTensors_foldTensor]
  | .graph n d g => by simp only [foldAttr, desAttr, desGraph_fold scopes g]
  | .graphs n d gs => by simp only [foldAttr, desAttr, desGraphs_fold scopes gs]
  | .typeProto .. => rfl
  | .typeProtos .. => rfl
  | .undefined .. => rfl
  | .sparse .. => rfl
  | .unknown .. => rfl

theorem desGraphs_fold (scopes : Scopes) : ∀ gs : List GraphP,
    desGraphs scopes (foldGraphs gs) = desGraphs scopes gs
  | [] => rfl
  | g :: gs => by simp only [foldGraphs, desGraphs, desGraph_fold scopes g, desGraphs_fold scopes gs]

theorem desAttrs_fold (scopes : Scopes) : ∀ as : List AttrP,
    desAttrs scopes (foldAttrs as) = desAttrs scopes as
  | [] => rfl
  | a :: as => by simp only [foldAttrs, desAttrs, desAttr_fold scopes a, desAttrs_fold scopes as]

theorem desAttrsLast_fold (scopes : Scopes) : ∀ as : List AttrP,
    desAttrsLast scopes (foldAttrs as) = desAttrsLast scopes as
  | [] => rfl
  | a :: as => by
    simp only [foldAttrs, desAttrsLast, foldAttr_name, foldAttrs_any, desAttr_fold scopes a,
      desAttrsLast_fold scopes as]

theorem desNode_fold (outer : Scopes) (vis : List ValueInfoP) (q : List AnnotP) (tbl : List IRValue) :
    ∀ n : NodeP, desNode outer vis q tbl (foldNode n) = desNode outer vis q tbl n
  | .mk inputs outputs name opType domain overload doc attrs metadata devcfgs => by
    simp only [foldNode, desNode, foldAttrs_names]
    cases desNodeInputs outer vis q inputs tbl with
    | error e => rfl
    | ok r =>
      obtain ⟨ins, t1⟩ := r
      simp only [bind, Except.bind, desAttrsLast_fold (tableNames t1 :: outer) attrs]

theorem desNodes_fold (outer : Scopes) (vis : List ValueInfoP) (q : List AnnotP) :
    ∀ (nodes : List NodeP) (tbl : List IRValue),
    desNodes outer vis q (foldNodes nodes) tbl = desNodes outer vis q nodes tbl
  | [], _ => rfl
  | n :: ns, tbl => by
    simp only [foldNodes, desNodes, desNode_fold outer vis q tbl n]
    cases desNode outer vis q tbl n with
    | error e => rfl
    | ok r =>
      obtain ⟨x, t1⟩ := r
      simp only [bind, Except.bind, desNodes_fold outer vis q ns t1]

theorem desGraph_fold (outer : Scopes) : ∀ g : GraphP, desGraph outer (foldGraph g) = desGraph outer g
  | .mk name doc nodes inits inputs outputs vis quant md => by
    have hv : VisAgree (inputs.map (·.name)) (foldVIs (inputs.map (·.name)) vis) vis :=
      fun n hn => findVI_foldVIs _ vis hn
    simp only [foldGraph, desGraph, desTensors_foldTensor, bind, Except.bind]
    cases h0 : desGraphInputs quant inputs with
    | error e => rfl
    | ok tbl0 =>
      have hS0 : ∀ s ∈ inputs.map (·.name), s ∈ tableNames tbl0 := by
        rw [desGraphInputs_names quant inputs tbl0 h0]; exact fun s hs => hs
      simp only []
      cases desTensors inits with
      | error e => rfl
      | ok tensors =>
        simp only []
        rw [desInitializers_congr hv quant tensors tbl0 hS0]
        cases h1 : desInitializers vis quant tensors tbl0 with
        | error e => rfl
        | ok r1 =>
          obtain ⟨tbl1, is⟩ := r1
          have hS1 : ∀ s ∈ inputs.map (·.name), s ∈ tableNames tbl1 :=
            fun s hs => desInitializers_names vis quant tensors tbl0 tbl1 is h1 s (hS0 s hs)
          simp only []
          rw [declareAll_foldNodes, declareAll_congr hv quant nodes tbl1 hS1]
          cases h2 : declareAll vis quant nodes tbl1 with
          | error e => rfl
          | ok tbl2 =>
            have hS2 : ∀ s ∈ inputs.map (·.name), s ∈ tableNames tbl2 :=
              fun s hs => declareAll_names vis quant nodes tbl1 tbl2 h2 s (hS1 s hs)
            simp only []
            rw [desNodes_fold outer _ quant nodes tbl2, desNodes_congr hv outer quant nodes tbl2 hS2]
end

/-! ### functions and models -/

theorem functionInputs_congr {vis vis' : List ValueInfoP} (h : ∀ n, findVI vis n = findVI vis' n) :
    ∀ ns : List String, functionInputs vis ns = functionInputs vis' ns
  | [] => rfl
  | n :: ns => by
    simp only [functionInputs, newValue_congr [] (h n), functionInputs_congr h ns]

theorem desFunction_fold (f : FunctionP) : desFunction (foldFunction f) = desFunction f := by
  have hv : VisAgree [] (dedupLastVI f.valueInfo) f.valueInfo := fun n _ => findVI_dedupLastVI _ n
  have hS : ∀ (tbl : List IRValue), ∀ s ∈ ([] : List String), s ∈ tableNames tbl := by
    intro tbl s hs; cases hs
  simp only [desFunction, foldFunction, opsetDict_idem, desAttrs_fold]
  rw [functionInputs_congr (fun n => findVI_dedupLastVI f.valueInfo n)]
  cases functionInputs f.valueInfo f.inputs with
  | error e => rfl
  | ok tbl0 =>
    simp only [bind, Except.bind]
    rw [declareAll_foldNodes, declareAll_congr hv [] f.nodes tbl0 (hS tbl0)]
    cases declareAll f.valueInfo [] f.nodes tbl0 with
    | error e => rfl
    | ok tbl1 =>
      simp only []
      rw [desNodes_fold [] _ [] f.nodes tbl1, desNodes_congr hv [] [] f.nodes tbl1 (hS tbl1)]
      rfl

theorem desFunctions_fold : ∀ fs : List FunctionP, desFunctions (fs.map foldFunction) = desFunctions fs
  | [] => rfl
  | f :: fs => by simp only [List.map_cons, desFunctions, desFunction_fold, desFunctions_fold fs]

theorem foldGraph_valueInfo (g : GraphP) :
    (foldGraph g).valueInfo = foldVIs (g.inputs.map (·.name)) g.valueInfo := by
  cases g; rfl

theorem applyExperimental_congr {m m' : List (String × ValueInfoP)}
    (h : ∀ vn, findLast? (fun e => e.1 = vn) m = findLast? (fun e => e.1 = vn) m') :
    ∀ (is : List Nat) (tbl : List IRValue), applyExperimental m is tbl = applyExperimental m' is tbl
  | [], _ => rfl
  | i :: is, tbl => by
    simp only [applyExperimental, h]
    cases findLast? (fun e => e.1 = (tbl.getD i (IRValue.blank "")).name) m' with
    | none => exact applyExperimental_congr h is tbl
    | some e =>
      simp only []
      cases applyInfo (tbl.getD i (IRValue.blank "")) e.2 with
      | error e => rfl
      | ok v => simp only [bind, Except.bind]; exact applyExperimental_congr h is _

/-- the experimental decoding finds the same entry in the folded list, for every function and value
name, when no graph input has a name of the experimental form -/
theorem experimentalFor_fold (I : List String) (V : List ValueInfoP)
    (hI : ∀ i ∈ I, parseExperimentalName i = none) (d nm vn : String) :
    findLast? (fun e => e.1 = vn) (experimentalFor (foldVIs I V) d nm)
      = findLast? (fun e => e.1 = vn) (experimentalFor V d nm) := by
  rw [findLast?_experimentalFor, findLast?_experimentalFor]
  congr 1
  unfold foldVIs dedupLastVI
  have e1 := findLast?_filter_g (fun v : ValueInfoP => v.name)
    (fun k => decide (parseExperimentalName k = some (d, nm, vn))) (fun v => !I.contains v.name)
    (by
      intro v hv
      simp only [decide_eq_true_eq] at hv
      simp only [Bool.not_eq_true', List.contains_eq_mem, decide_eq_false_iff_not]
      intro hm
      rw [hI _ hm] at hv
      cases hv)
    (dedupLastBy (fun v : ValueInfoP => v.name) V)
  have e2 := findLast?_dedupLastBy_g (fun v : ValueInfoP => v.name)
    (fun k => decide (parseExperimentalName k = some (d, nm, vn))) V
  exact e1.trans e2

theorem applyExperimentalFn_congr {V V' : List ValueInfoP}
    (h : ∀ d nm vn, findLast? (fun e => e.1 = vn) (experimentalFor V d nm)
      = findLast? (fun e => e.1 = vn) (experimentalFor V' d nm)) (f : IRFunction) :
    applyExperimentalFn V f = applyExperimentalFn V' f := by
  unfold applyExperimentalFn
  split
  · cases hg : f.graph with
    | mk tbl ins inits nodes outs name doc opsets mprops =>
      simp only [applyExperimental_congr (h f.domain f.name)]
  · rfl

theorem applyExperimentalAll_congr {V V' : List ValueInfoP}
    (h : ∀ d nm vn, findLast? (fun e => e.1 = vn) (experimentalFor V d nm)
      = findLast? (fun e => e.1 = vn) (experimentalFor V' d nm)) :
    ∀ fs : List IRFunction, applyExperimentalAll V fs = applyExperimentalAll V' fs
  | [] => rfl
  | f :: fs => by
    simp only [applyExperimentalAll, applyExperimentalFn_congr h f, applyExperimentalAll_congr h fs]

theorem desModel_fold (m : ModelP) (h : m.irVersion ≥ 10 ∨ inputsPlain m.graph = true) :
    desModel (foldModel m) = desModel m := by
  simp only [desModel, foldModel, desGraph_fold, opsetDict_idem, desFunctions_fold]
  by_cases hlt : m.irVersion < 10
  · have hI : ∀ i ∈ m.graph.inputs.map (·.name), parseExperimentalName i = none := by
      rcases h with h | h
      · omega
      · intro i hi
        obtain ⟨vi, hvi, rfl⟩ := List.mem_map.1 hi
        have := List.all_eq_true.1 h vi hvi
        simpa using this
    have key := applyExperimentalAll_congr (experimentalFor_fold _ m.graph.valueInfo hI)
    simp only [hlt, if_true, foldGraph_valueInfo, key]
  · simp only [hlt, if_false]

end IrVerif.Serde

/-
Round trip and fix-point of the attribute layer `IrVerif.Model.ScopeAttr` (helper development; the property
theorems are in `Lemmas/ScopeAttrProps.lean`).
-/
import IrVerif.Model.ScopeAttr
import IrVerif.Lemmas.ScopeMeta
namespace IrVerif.Scope

/-! ### dicts -/

section kv
variable {κ β : Type} [DecidableEq κ]

theorem kvSet_keys (d : List (κ × β)) (k : κ) (v : β) :
    (kvSet d k v).map (·.1) = if k ∈ d.map (·.1) then d.map (·.1) else d.map (·.1) ++ [k] := by
  induction d with
  | nil => simp [kvSet]
  | cons e r ih =>
    obtain ⟨k', v'⟩ := e
    by_cases h : k' = k
    · subst h
      simp [kvSet]
    · have h' : ¬ k = k' := fun e => h e.symm
      simp only [kvSet, h, if_false, List.map_cons, ih, List.mem_cons, h', false_or]
      split <;> simp

theorem kvSet_fresh (d : List (κ × β)) (k : κ) (v : β) (h : k ∉ d.map (·.1)) : kvSet d k v = d ++ [(k, v)] := by
  induction d with
  | nil => rfl
  | cons e r ih =>
    obtain ⟨k', v'⟩ := e
    simp only [List.map_cons, List.mem_cons, not_or] at h
    have hne : ¬ k' = k := fun e => h.1 e.symm
    simp [kvSet, hne, ih h.2]

theorem kvSet_keys_nodup (d : List (κ × β)) (k : κ) (v : β) (h : (d.map (·.1)).Nodup) :
    ((kvSet d k v).map (·.1)).Nodup := by
  rw [kvSet_keys]
  split
  · exact h
  · rename_i hk
    rw [List.nodup_append]
    exact ⟨h, by simp, fun a ha b hb e => by simp at hb; subst hb; subst e; exact hk ha⟩

theorem kvFold_keys_nodup : ∀ (l d : List (κ × β)), (d.map (·.1)).Nodup →
    ((l.foldl (fun d e => kvSet d e.1 e.2) d).map (·.1)).Nodup
  | [], _, h => h
  | e :: l, d, h => kvFold_keys_nodup l _ (kvSet_keys_nodup d e.1 e.2 h)

theorem kvFold_fresh : ∀ (l d : List (κ × β)), ((d ++ l).map (·.1)).Nodup →
    l.foldl (fun d e => kvSet d e.1 e.2) d = d ++ l
  | [], d, _ => by simp
  | e :: l, d, h => by
    have hk : e.1 ∉ d.map (·.1) := by
      intro hm
      simp only [List.map_append, List.map_cons] at h
      rw [List.nodup_append] at h
      exact h.2.2 _ hm _ (by simp) rfl
    simp only [List.foldl_cons]
    rw [kvSet_fresh d e.1 e.2 hk, kvFold_fresh l (d ++ [(e.1, e.2)]) (by simpa using h)]
    simp

theorem kvDict_nodup (l : List (κ × β)) : ((kvDict l).map (·.1)).Nodup := kvFold_keys_nodup l [] (by simp)

theorem kvDict_of_nodup (l : List (κ × β)) (h : (l.map (·.1)).Nodup) : kvDict l = l := by
  simpa [kvDict] using kvFold_fresh l [] (by simpa using h)

/-- every entry of the dict is an entry of the list -/
theorem kvSet_mem (d : List (κ × β)) (k : κ) (v : β) (e : κ × β) (he : e ∈ kvSet d k v) : e ∈ d ∨ e = (k, v) := by
  induction d with
  | nil => simp only [kvSet, List.mem_singleton] at he; exact .inr he
  | cons a r ih =>
    obtain ⟨k', v'⟩ := a
    simp only [kvSet] at he
    split at he
    · rename_i hk
      simp only [List.mem_cons] at he
      rcases he with rfl | he
      · exact .inr (by rw [hk])
      · exact .inl (by simp [he])
    · simp only [List.mem_cons] at he
      rcases he with rfl | he
      · exact .inl (by simp)
      · rcases ih he with h | h
        · exact .inl (by simp [h])
        · exact .inr h

theorem kvFold_mem : ∀ (l d : List (κ × β)) (e : κ × β), e ∈ l.foldl (fun d e => kvSet d e.1 e.2) d → e ∈ d ∨ e ∈ l
  | [], _, _, h => .inl h
  | a :: l, d, e, h => by
    simp only [List.foldl_cons] at h
    rcases kvFold_mem l _ e h with h1 | h1
    · rcases kvSet_mem d a.1 a.2 e h1 with h2 | h2
      · exact .inl h2
      · exact .inr (by simp [h2])
    · exact .inr (by simp [h1])

theorem kvDict_mem (l : List (κ × β)) (e : κ × β) (h : e ∈ kvDict l) : e ∈ l := by
  rcases kvFold_mem l [] e h with h | h
  · simp at h
  · exact h

end kv

/-! ### `seqA` -/

theorem seqA_ok {β : Type} : ∀ (bs : List β) (f : β → String), seqA (bs.map fun b => (f b, (.ok b : Except AErr β))) = .ok bs
  | [], _ => rfl
  | b :: bs, f => by simp [seqA, seqA_ok bs f]

/-- the outcomes that `seqA` collects, in order, with their keys -/
theorem seqA_spec {β : Type} : ∀ (l : List (String × Except AErr β)) (bs : List β), seqA l = .ok bs →
    l = (l.map (·.1)).zip (bs.map .ok) ∧ bs.length = l.length
  | [], bs, h => by
    simp only [seqA, Except.ok.injEq] at h
    subst h; simp
  | (k, .error e) :: r, bs, h => by simp [seqA] at h
  | (k, .ok b) :: r, bs, h => by
    simp only [seqA] at h
    split at h
    · simp at h
    · rename_i bs' hr
      simp only [Except.ok.injEq] at h
      subst h
      obtain ⟨a1, a2⟩ := seqA_spec r bs' hr
      simp only [List.map_cons, List.zip_cons_cons, List.length_cons, a2, and_true]
      rw [← a1]

theorem seqA_mem {β : Type} : ∀ (l : List (String × Except AErr β)) (bs : List β), seqA l = .ok bs →
    ∀ b ∈ bs, ∃ k, (k, .ok b) ∈ l
  | [], bs, h, b, hb => by
    simp only [seqA, Except.ok.injEq] at h
    subst h; simp at hb
  | (k, .error e) :: r, bs, h, _, _ => by simp [seqA] at h
  | (k, .ok b') :: r, bs, h, b, hb => by
    simp only [seqA] at h
    split at h
    · simp at h
    · rename_i bs' hr
      simp only [Except.ok.injEq] at h
      subst h
      simp only [List.mem_cons] at hb
      rcases hb with rfl | hb
      · exact ⟨k, by simp⟩
      · obtain ⟨k', hk'⟩ := seqA_mem r bs' hr b hb
        exact ⟨k', by simp [hk']⟩

/-- keys of the collected outcomes -/
theorem seqA_keys {β : Type} (name : β → String) : ∀ (l : List (String × Except AErr β)) (bs : List β),
    seqA l = .ok bs → (∀ k b, (k, .ok b) ∈ l → name b = k) → bs.map name = l.map (·.1)
  | [], bs, h, _ => by
    simp only [seqA, Except.ok.injEq] at h
    subst h; rfl
  | (k, .error e) :: r, bs, h, _ => by simp [seqA] at h
  | (k, .ok b') :: r, bs, h, hn => by
    simp only [seqA] at h
    split at h
    · simp at h
    · rename_i bs' hr
      simp only [Except.ok.injEq] at h
      subst h
      simp only [List.map_cons]
      rw [hn k b' (by simp), seqA_keys name r bs' hr (fun k b hb => hn k b (by simp [hb]))]

/-! ### the kinds -/

theorem optOut_none' : optOut none = none := rfl
theorem kindOf_5 : kindOf 5 = .graph := by decide
theorem kindOf_10 : kindOf 10 = .graphs := by decide

theorem optOut_some_ne (r : String) (h : (r == "") = false) : optOut (some r) = some r := by
  have : r ≠ "" := by simpa using h
  simp [optOut, this]

/-! ### names -/

theorem deserAttrA_name (a : AttrP) (b : AttrS) (h : deserAttrA a = .ok b) : b.name = a.name := by
  obtain ⟨name, doc, ref, ty, tok, ok, g, gs⟩ := a
  simp only [deserAttrA] at h
  split at h
  · simp at h
  · split at h
    · simp only [Except.ok.injEq] at h
      subst h; rfl
    · split at h
      · split at h
        · simp at h
        · simp only [Except.ok.injEq] at h
          subst h; rfl
      · split at h
        · simp at h
        · simp only [Except.ok.injEq] at h
          subst h; rfl
      · simp at h
      · simp only [Except.ok.injEq] at h
        subst h; rfl
      · split at h
        · simp only [Except.ok.injEq] at h
          subst h; rfl
        · simp at h

theorem deserAttrsR_keys : ∀ (as : List AttrP), (deserAttrsR as).map (·.1) = as.map AttrP.name
  | [] => rfl
  | a :: as => by simp [deserAttrsR, deserAttrsR_keys as]

theorem deserAttrsR_named : ∀ (as : List AttrP) (k : String) (b : AttrS), (k, .ok b) ∈ deserAttrsR as → b.name = k
  | [], _, _, h => by simp [deserAttrsR] at h
  | a :: as, k, b, h => by
    simp only [deserAttrsR, List.mem_cons, Prod.mk.injEq] at h
    rcases h with ⟨rfl, h⟩ | h
    · exact deserAttrA_name a b h.symm
    · exact deserAttrsR_named as k b h

theorem canonAttrA_name (a : AttrS) : (canonAttrA a).name = a.name := by
  cases a <;> rfl

theorem canonAttrsA_names : ∀ (as : List AttrS), (canonAttrsA as).map AttrS.name = as.map AttrS.name
  | [] => rfl
  | a :: as => by simp [canonAttrsA, canonAttrA_name, canonAttrsA_names as]

/-! ### the round trip of the trees -/

theorem wfRef_split (r : String) (ty : Nat) (h : (!(r == "") && !(kindOf ty == .unknown)) = true) :
    (r == "") = false ∧ kindOf ty ≠ .unknown := by
  simp only [Bool.and_eq_true, Bool.not_eq_true', beq_eq_false_iff_ne, ne_eq] at h
  exact ⟨by simpa using h.1, h.2⟩

mutual
theorem rtAttrA : ∀ (W : AttrS) (Q : AttrP), wfAttrB W = true → serAttrA W = .ok Q →
    deserAttrA Q = .ok (canonAttrA W) ∧ serAttrA (canonAttrA W) = .ok Q ∧ Q.name = W.name
  | .leaf n d ty v, Q, _, h => by
    simp only [serAttrA] at h
    split at h
    · simp at h
    · rename_i hk
      split at h
      · simp at h
      · simp only [Except.ok.injEq] at h
        subst h
        refine ⟨?_, ?_, rfl⟩
        · simp [deserAttrA, hk, optOut_none', canonAttrA]
        · simp [canonAttrA, serAttrA, hk, optOut_idem]
    · simp at h
    · simp at h
    · simp at h
  | .graph n d g, Q, hw, h => by
    simp only [serAttrA] at h
    split at h
    · simp at h
    · rename_i p hp
      simp only [Except.ok.injEq] at h
      subst h
      simp only [wfAttrB] at hw
      obtain ⟨a1, a2⟩ := rtGraphA g p hw hp
      refine ⟨?_, ?_, rfl⟩
      · simp [deserAttrA, kindOf_5, optOut, a1, canonAttrA]
      · simp [canonAttrA, serAttrA, a2, optOut_idem]
  | .graphs n d gs, Q, hw, h => by
    simp only [serAttrA] at h
    split at h
    · simp at h
    · rename_i ps hp
      simp only [Except.ok.injEq] at h
      subst h
      simp only [wfAttrB] at hw
      obtain ⟨a1, a2⟩ := rtGraphsA gs ps hw hp
      refine ⟨?_, ?_, rfl⟩
      · simp [deserAttrA, kindOf_10, optOut, a1, canonAttrA]
      · simp [canonAttrA, serAttrA, a2, optOut_idem]
  | .ref n d r ty, Q, hw, h => by
    simp only [serAttrA, Except.ok.injEq] at h
    subst h
    simp only [wfAttrB] at hw
    obtain ⟨h1, h2⟩ := wfRef_split r ty hw
    refine ⟨?_, ?_, rfl⟩
    · simp only [deserAttrA, optOut_some_ne r h1, canonAttrA]
    · simp [canonAttrA, serAttrA, optOut_idem]
theorem rtAttrsA : ∀ (W : List AttrS) (Q : List AttrP), wfAttrsB W = true → serAttrsA W = .ok Q →
    deserAttrsR Q = (canonAttrsA W).map (fun a => (a.name, .ok a)) ∧ serAttrsA (canonAttrsA W) = .ok Q ∧
    Q.map AttrP.name = W.map AttrS.name
  | [], Q, _, h => by
    simp only [serAttrsA, Except.ok.injEq] at h
    subst h
    exact ⟨rfl, rfl, rfl⟩
  | a :: as, Q, hw, h => by
    simp only [serAttrsA] at h
    split at h
    · simp at h
    · rename_i p hp
      split at h
      · simp at h
      · rename_i ps hps
        simp only [Except.ok.injEq] at h
        subst h
        simp only [wfAttrsB, Bool.and_eq_true] at hw
        obtain ⟨a1, a2, a3⟩ := rtAttrA a p hw.1 hp
        obtain ⟨b1, b2, b3⟩ := rtAttrsA as ps hw.2 hps
        refine ⟨?_, ?_, ?_⟩
        · simp only [deserAttrsR, canonAttrsA, List.map_cons, a1, b1, a3, canonAttrA_name]
        · simp only [canonAttrsA, serAttrsA, a2, b2]
        · simp only [List.map_cons, a3, b3]
theorem rtNodeA : ∀ (W : NodeAS) (Q : NodeAP), wfNodeAB W = true → serNodeA W = .ok Q →
    deserNodeA Q = .ok (canonNodeA W) ∧ serNodeA (canonNodeA W) = .ok Q
  | .mk attrs, Q, hw, h => by
    simp only [serNodeA] at h
    split at h
    · simp at h
    · rename_i ps hp
      simp only [Except.ok.injEq] at h
      subst h
      simp only [wfNodeAB, Bool.and_eq_true] at hw
      obtain ⟨a1, a2, _⟩ := rtAttrsA attrs ps hw.2 hp
      have hk := (keysNodupB_iff _).mp hw.1
      have hnd : (((canonAttrsA attrs).map (fun a => (a.name, (.ok a : Except AErr AttrS)))).map (·.1)).Nodup := by
        simp only [List.map_map, Function.comp_def]
        rw [canonAttrsA_names]
        exact hk
      refine ⟨?_, ?_⟩
      · simp only [deserNodeA, a1, kvDict_of_nodup _ hnd, seqA_ok, canonNodeA]
      · simp only [canonNodeA, serNodeA, a2]
theorem rtNodesA : ∀ (W : List NodeAS) (Q : List NodeAP), wfNodesAB W = true → serNodesA W = .ok Q →
    deserNodesA Q = .ok (canonNodesA W) ∧ serNodesA (canonNodesA W) = .ok Q
  | [], Q, _, h => by
    simp only [serNodesA, Except.ok.injEq] at h
    subst h
    exact ⟨rfl, rfl⟩
  | n :: ns, Q, hw, h => by
    simp only [serNodesA] at h
    split at h
    · simp at h
    · rename_i p hp
      split at h
      · simp at h
      · rename_i ps hps
        simp only [Except.ok.injEq] at h
        subst h
        simp only [wfNodesAB, Bool.and_eq_true] at hw
        obtain ⟨a1, a2⟩ := rtNodeA n p hw.1 hp
        obtain ⟨b1, b2⟩ := rtNodesA ns ps hw.2 hps
        exact ⟨by simp only [deserNodesA, canonNodesA, a1, b1], by simp only [canonNodesA, serNodesA, a2, b2]⟩
theorem rtGraphA : ∀ (W : GraphAS) (Q : GraphAP), wfGraphAB W = true → serGraphA W = .ok Q →
    deserGraphA Q = .ok (canonGraphA W) ∧ serGraphA (canonGraphA W) = .ok Q
  | .mk nodes, Q, hw, h => by
    simp only [serGraphA] at h
    split at h
    · simp at h
    · rename_i ps hp
      simp only [Except.ok.injEq] at h
      subst h
      simp only [wfGraphAB] at hw
      obtain ⟨a1, a2⟩ := rtNodesA nodes ps hw hp
      exact ⟨by simp only [deserGraphA, canonGraphA, a1], by simp only [canonGraphA, serGraphA, a2]⟩
theorem rtGraphsA : ∀ (W : List GraphAS) (Q : List GraphAP), wfGraphsAB W = true → serGraphsA W = .ok Q →
    deserGraphsA Q = .ok (canonGraphsA W) ∧ serGraphsA (canonGraphsA W) = .ok Q
  | [], Q, _, h => by
    simp only [serGraphsA, Except.ok.injEq] at h
    subst h
    exact ⟨rfl, rfl⟩
  | g :: gs, Q, hw, h => by
    simp only [serGraphsA] at h
    split at h
    · simp at h
    · rename_i p hp
      split at h
      · simp at h
      · rename_i ps hps
        simp only [Except.ok.injEq] at h
        subst h
        simp only [wfGraphsAB, Bool.and_eq_true] at hw
        obtain ⟨a1, a2⟩ := rtGraphA g p hw.1 hp
        obtain ⟨b1, b2⟩ := rtGraphsA gs ps hw.2 hps
        exact ⟨by simp only [deserGraphsA, canonGraphsA, a1, b1], by simp only [canonGraphsA, serGraphsA, a2, b2]⟩
end

/-! ### what deserialization builds satisfies the representation invariant -/

theorem wfAttrsB_of_mem : ∀ (bs : List AttrS), (∀ b ∈ bs, wfAttrB b = true) → wfAttrsB bs = true
  | [], _ => rfl
  | b :: bs, h => by
    simp only [wfAttrsB, Bool.and_eq_true]
    exact ⟨h b (by simp), wfAttrsB_of_mem bs fun c hc => h c (by simp [hc])⟩

theorem optOut_some_spec (o : Option String) (r : String) (h : optOut o = some r) : (r == "") = false := by
  cases o with
  | none => simp [optOut] at h
  | some s =>
    simp only [optOut] at h
    split at h
    · simp at h
    · rename_i hs
      simp only [Option.some.injEq] at h
      subst h
      simpa using hs

mutual
theorem wfDeserAttrA : ∀ (X : AttrP) (W : AttrS), deserAttrA X = .ok W → wfAttrB W = true
  | .mk name doc ref ty tok ok g gs, W, h => by
    simp only [deserAttrA] at h
    split at h
    · simp at h
    · rename_i hnu
      split at h
      · rename_i r hr
        simp only [Except.ok.injEq] at h
        subst h
        simp only [wfAttrB, Bool.and_eq_true, Bool.not_eq_true', beq_eq_false_iff_ne, ne_eq]
        exact ⟨by simpa using optOut_some_spec ref r hr, fun e => hnu e⟩
      · split at h
        · split at h
          · simp at h
          · rename_i g' hg
            simp only [Except.ok.injEq] at h
            subst h
            simpa only [wfAttrB] using wfDeserGraphA g g' hg
        · split at h
          · simp at h
          · rename_i gs' hg
            simp only [Except.ok.injEq] at h
            subst h
            simpa only [wfAttrB] using wfDeserGraphsA gs gs' hg
        · simp at h
        · simp only [Except.ok.injEq] at h
          subst h; rfl
        · split at h
          · simp only [Except.ok.injEq] at h
            subst h; rfl
          · simp at h
theorem wfDeserAttrsR : ∀ (X : List AttrP) (k : String) (b : AttrS), (k, .ok b) ∈ deserAttrsR X → wfAttrB b = true
  | [], _, _, h => by simp [deserAttrsR] at h
  | a :: as, k, b, h => by
    simp only [deserAttrsR, List.mem_cons, Prod.mk.injEq] at h
    rcases h with ⟨_, h⟩ | h
    · exact wfDeserAttrA a b h.symm
    · exact wfDeserAttrsR as k b h
theorem wfDeserNodeA : ∀ (X : NodeAP) (W : NodeAS), deserNodeA X = .ok W → wfNodeAB W = true
  | .mk attrs, W, h => by
    simp only [deserNodeA] at h
    split at h
    · simp at h
    · rename_i bs hs
      simp only [Except.ok.injEq] at h
      subst h
      simp only [wfNodeAB, Bool.and_eq_true]
      refine ⟨?_, ?_⟩
      · rw [keysNodupB_iff, seqA_keys AttrS.name _ bs hs
          (fun k b hb => deserAttrsR_named attrs k b (kvDict_mem _ _ hb))]
        exact kvDict_nodup _
      · apply wfAttrsB_of_mem
        intro b hb
        obtain ⟨k, hk⟩ := seqA_mem _ bs hs b hb
        exact wfDeserAttrsR attrs k b (kvDict_mem _ _ hk)
theorem wfDeserNodesA : ∀ (X : List NodeAP) (W : List NodeAS), deserNodesA X = .ok W → wfNodesAB W = true
  | [], W, h => by
    simp only [deserNodesA, Except.ok.injEq] at h
    subst h; rfl
  | n :: ns, W, h => by
    simp only [deserNodesA] at h
    split at h
    · simp at h
    · rename_i n' hn
      split at h
      · simp at h
      · rename_i ns' hns
        simp only [Except.ok.injEq] at h
        subst h
        simp only [wfNodesAB, Bool.and_eq_true]
        exact ⟨wfDeserNodeA n n' hn, wfDeserNodesA ns ns' hns⟩
theorem wfDeserGraphA : ∀ (X : GraphAP) (W : GraphAS), deserGraphA X = .ok W → wfGraphAB W = true
  | .mk nodes, W, h => by
    simp only [deserGraphA] at h
    split at h
    · simp at h
    · rename_i ns hns
      simp only [Except.ok.injEq] at h
      subst h
      simpa only [wfGraphAB] using wfDeserNodesA nodes ns hns
theorem wfDeserGraphsA : ∀ (X : List GraphAP) (W : List GraphAS), deserGraphsA X = .ok W → wfGraphsAB W = true
  | [], W, h => by
    simp only [deserGraphsA, Except.ok.injEq] at h
    subst h; rfl
  | g :: gs, W, h => by
    simp only [deserGraphsA] at h
    split at h
    · simp at h
    · rename_i g' hg
      split at h
      · simp at h
      · rename_i gs' hgs
        simp only [Except.ok.injEq] at h
        subst h
        simp only [wfGraphsAB, Bool.and_eq_true]
        exact ⟨wfDeserGraphA g g' hg, wfDeserGraphsA gs gs' hgs⟩
end

/-! ### alignment: the graphs of the attributes, concatenated in attribute order -/

theorem deserGraphsA_append : ∀ (a b : List GraphAP) (a' b' : List GraphAS), deserGraphsA a = .ok a' →
    deserGraphsA b = .ok b' → deserGraphsA (a ++ b) = .ok (a' ++ b')
  | [], b, a', b', ha, hb => by
    simp only [deserGraphsA, Except.ok.injEq] at ha
    subst ha; simpa using hb
  | g :: a, b, a', b', ha, hb => by
    simp only [deserGraphsA] at ha
    split at ha
    · simp at ha
    · rename_i g' hg
      split at ha
      · simp at ha
      · rename_i r hr
        simp only [Except.ok.injEq] at ha
        subst ha
        simp only [List.cons_append, deserGraphsA, hg, deserGraphsA_append a b r b' hr hb]

theorem serGraphsA_append : ∀ (a b : List GraphAS) (a' b' : List GraphAP), serGraphsA a = .ok a' →
    serGraphsA b = .ok b' → serGraphsA (a ++ b) = .ok (a' ++ b')
  | [], b, a', b', ha, hb => by
    simp only [serGraphsA, Except.ok.injEq] at ha
    subst ha; simpa using hb
  | g :: a, b, a', b', ha, hb => by
    simp only [serGraphsA] at ha
    split at ha
    · simp at ha
    · rename_i g' hg
      split at ha
      · simp at ha
      · rename_i r hr
        simp only [Except.ok.injEq] at ha
        subst ha
        simp only [List.cons_append, serGraphsA, hg, serGraphsA_append a b r b' hr hb]

theorem deserAttrA_subs (X : AttrP) (W : AttrS) (h : deserAttrA X = .ok W) : deserGraphsA X.subs = .ok W.subs := by
  obtain ⟨name, doc, ref, ty, tok, ok, g, gs⟩ := X
  simp only [deserAttrA] at h
  split at h
  · simp at h
  · split at h
    · rename_i r hr
      simp only [Except.ok.injEq] at h
      subst h
      simp [AttrP.subs, hr, AttrS.subs, deserGraphsA]
    · rename_i hr
      split at h
      · rename_i hk
        split at h
        · simp at h
        · rename_i g' hg
          simp only [Except.ok.injEq] at h
          subst h
          simp [AttrP.subs, hr, hk, AttrS.subs, deserGraphsA, hg]
      · rename_i hk
        split at h
        · simp at h
        · rename_i gs' hg
          simp only [Except.ok.injEq] at h
          subst h
          simp [AttrP.subs, hr, hk, AttrS.subs, hg]
      · simp at h
      · rename_i hk
        simp only [Except.ok.injEq] at h
        subst h
        simp [AttrP.subs, hr, hk, AttrS.subs, deserGraphsA]
      · rename_i k _ h1 h2 h3 h4
        have hsub : (AttrP.mk name doc ref ty tok ok g gs).subs = [] := by
          simp only [AttrP.subs, hr]
          try (split <;> simp_all)
        split at h
        · simp only [Except.ok.injEq] at h
          subst h
          simp [hsub, AttrS.subs, deserGraphsA]
        · simp at h

theorem serAttrA_subs (W : AttrS) (Q : AttrP) (hw : wfAttrB W = true) (h : serAttrA W = .ok Q) :
    serGraphsA W.subs = .ok Q.subs := by
  cases W with
  | leaf n d ty v =>
    simp only [serAttrA] at h
    split at h
    · simp at h
    · rename_i hk
      split at h
      · simp at h
      · simp only [Except.ok.injEq] at h
        subst h
        simp [AttrP.subs, optOut_none', hk, AttrS.subs, serGraphsA]
    · simp at h
    · simp at h
    · simp at h
  | graph n d g =>
    simp only [serAttrA] at h
    split at h
    · simp at h
    · rename_i p hp
      simp only [Except.ok.injEq] at h
      subst h
      simp [AttrP.subs, optOut_none', kindOf_5, AttrS.subs, serGraphsA, hp]
  | graphs n d gs =>
    simp only [serAttrA] at h
    split at h
    · simp at h
    · rename_i ps hp
      simp only [Except.ok.injEq] at h
      subst h
      simp [AttrP.subs, optOut_none', kindOf_10, AttrS.subs, hp]
  | ref n d r ty =>
    simp only [serAttrA, Except.ok.injEq] at h
    subst h
    simp only [wfAttrB] at hw
    obtain ⟨h1, _⟩ := wfRef_split r ty hw
    simp [AttrP.subs, optOut_some_ne r h1, AttrS.subs, serGraphsA]

/-- serialization: the graphs written are the graphs of the attributes, in attribute order -/
theorem serAttrsA_subs : ∀ (W : List AttrS) (Q : List AttrP), wfAttrsB W = true → serAttrsA W = .ok Q →
    serGraphsA (subsOfS W) = .ok (subsOfP Q)
  | [], Q, _, h => by
    simp only [serAttrsA, Except.ok.injEq] at h
    subst h; rfl
  | a :: as, Q, hw, h => by
    simp only [serAttrsA] at h
    split at h
    · simp at h
    · rename_i p hp
      split at h
      · simp at h
      · rename_i ps hps
        simp only [Except.ok.injEq] at h
        subst h
        simp only [wfAttrsB, Bool.and_eq_true] at hw
        simp only [subsOfS, subsOfP]
        exact serGraphsA_append _ _ _ _ (serAttrA_subs a p hw.1 hp) (serAttrsA_subs as ps hw.2 hps)

theorem deserAttrsR_eq_map : ∀ (as : List AttrP), deserAttrsR as = as.map fun a => (a.name, deserAttrA a)
  | [] => rfl
  | a :: as => by simp [deserAttrsR, deserAttrsR_eq_map as]

section kvmap
variable {κ β γ : Type} [DecidableEq κ]

theorem kvSet_map (g : β → γ) (d : List (κ × β)) (k : κ) (v : β) :
    kvSet (d.map fun e => (e.1, g e.2)) k (g v) = (kvSet d k v).map fun e => (e.1, g e.2) := by
  induction d with
  | nil => rfl
  | cons e r ih =>
    obtain ⟨k', v'⟩ := e
    by_cases h : k' = k
    · simp [kvSet, h]
    · simp [kvSet, h, ih]

theorem kvFold_map (g : β → γ) : ∀ (l d : List (κ × β)),
    (l.map fun e => (e.1, g e.2)).foldl (fun d e => kvSet d e.1 e.2) (d.map fun e => (e.1, g e.2)) =
    (l.foldl (fun d e => kvSet d e.1 e.2) d).map fun e => (e.1, g e.2)
  | [], _ => rfl
  | e :: l, d => by
    simp only [List.map_cons, List.foldl_cons]
    rw [kvSet_map g d e.1 e.2, kvFold_map g l]

theorem kvDict_map (g : β → γ) (l : List (κ × β)) :
    kvDict (l.map fun e => (e.1, g e.2)) = (kvDict l).map fun e => (e.1, g e.2) := by
  simpa [kvDict] using kvFold_map g l []
end kvmap

theorem seqA_subs : ∀ (S : List (String × AttrP)) (bs : List AttrS),
    seqA (S.map fun e => (e.1, deserAttrA e.2)) = .ok bs →
    deserGraphsA (subsOfP (S.map (·.2))) = .ok (subsOfS bs)
  | [], bs, h => by
    simp only [List.map_nil, seqA, Except.ok.injEq] at h
    subst h; rfl
  | (k, a) :: S, bs, h => by
    simp only [List.map_cons] at h
    cases hb : deserAttrA a with
    | error e => rw [hb] at h; simp [seqA] at h
    | ok b =>
      rw [hb] at h
      simp only [seqA] at h
      split at h
      · simp at h
      · rename_i bs' hbs
        simp only [Except.ok.injEq] at h
        subst h
        simp only [List.map_cons, subsOfP, subsOfS]
        exact deserGraphsA_append _ _ _ _ (deserAttrA_subs a b hb) (seqA_subs S bs' hbs)

/-- deserialization: the graphs held by the attributes of the node, in dict order, are the graphs of the surviving
    attributes of the proto, in order -/
theorem deserNodeA_subs (as : List AttrP) (bs : List AttrS) (h : deserNodeA (.mk as) = .ok (.mk bs)) :
    deserGraphsA (subsOfP (survivors as)) = .ok (subsOfS bs) := by
  simp only [deserNodeA] at h
  split at h
  · simp at h
  · rename_i bs' hs
    simp only [Except.ok.injEq, NodeAS.mk.injEq] at h
    subst h
    rw [deserAttrsR_eq_map] at hs
    have e : (as.map fun a => (a.name, deserAttrA a)) =
        (as.map fun a => (a.name, a)).map fun e => (e.1, deserAttrA e.2) := by
      simp [List.map_map, Function.comp_def]
    rw [e, kvDict_map] at hs
    exact seqA_subs _ _ hs

/-! ### a round trip changes nothing but a doc_string `""` -/

theorem optOut_of_docOk (d : Option String) (h : docOkB d = true) : optOut d = d := by
  cases d with
  | none => rfl
  | some s =>
    have : s ≠ "" := by simpa [docOkB] using h
    simp [optOut, this]

mutual
theorem canonAttrA_id : ∀ (a : AttrS), normAttrB a = true → canonAttrA a = a
  | .leaf _ d _ _, h => by
    simp only [normAttrB] at h
    simp only [canonAttrA, optOut_of_docOk d h]
  | .graph _ d g, h => by
    simp only [normAttrB, Bool.and_eq_true] at h
    simp only [canonAttrA, optOut_of_docOk d h.1, canonGraphA_id g h.2]
  | .graphs _ d gs, h => by
    simp only [normAttrB, Bool.and_eq_true] at h
    simp only [canonAttrA, optOut_of_docOk d h.1, canonGraphsA_id gs h.2]
  | .ref _ d _ _, h => by
    simp only [normAttrB] at h
    simp only [canonAttrA, optOut_of_docOk d h]
theorem canonAttrsA_id : ∀ (as : List AttrS), normAttrsB as = true → canonAttrsA as = as
  | [], _ => rfl
  | a :: as, h => by
    simp only [normAttrsB, Bool.and_eq_true] at h
    simp only [canonAttrsA, canonAttrA_id a h.1, canonAttrsA_id as h.2]
theorem canonNodeA_id : ∀ (n : NodeAS), normNodeAB n = true → canonNodeA n = n
  | .mk attrs, h => by
    simp only [normNodeAB] at h
    simp only [canonNodeA, canonAttrsA_id attrs h]
theorem canonNodesA_id : ∀ (ns : List NodeAS), normNodesAB ns = true → canonNodesA ns = ns
  | [], _ => rfl
  | n :: ns, h => by
    simp only [normNodesAB, Bool.and_eq_true] at h
    simp only [canonNodesA, canonNodeA_id n h.1, canonNodesA_id ns h.2]
theorem canonGraphA_id : ∀ (g : GraphAS), normGraphAB g = true → canonGraphA g = g
  | .mk nodes, h => by
    simp only [normGraphAB] at h
    simp only [canonGraphA, canonNodesA_id nodes h]
theorem canonGraphsA_id : ∀ (gs : List GraphAS), normGraphsAB gs = true → canonGraphsA gs = gs
  | [], _ => rfl
  | g :: gs, h => by
    simp only [normGraphsAB, Bool.and_eq_true] at h
    simp only [canonGraphsA, canonGraphA_id g h.1, canonGraphsA_id gs h.2]
end

/-! ### functions and the model -/

theorem rtFuncsA : ∀ (fs : List (FId × List NodeAS)) (ps : List FuncAP) (d : List (FId × List NodeAS)),
    (∀ f ∈ fs, wfNodesAB f.2 = true) → ((d ++ fs).map (·.1)).Nodup → serFuncsA fs = .ok ps →
    deserFuncsA d ps = .ok (d ++ fs.map (fun f => (f.1, canonNodesA f.2))) ∧
    serFuncsA (fs.map fun f => (f.1, canonNodesA f.2)) = .ok ps
  | [], ps, d, _, _, h => by
    simp only [serFuncsA, Except.ok.injEq] at h
    subst h
    simp [deserFuncsA, serFuncsA]
  | f :: fs, ps, d, hw, hk, h => by
    simp only [serFuncsA] at h
    split at h
    · simp at h
    · rename_i ns hns
      split at h
      · simp at h
      · rename_i ps' hps
        simp only [Except.ok.injEq] at h
        subst h
        obtain ⟨i1, i2⟩ := rtNodesA f.2 ns (hw f (by simp)) hns
        have hfresh : f.1 ∉ d.map (·.1) := by
          intro hm
          simp only [List.map_append, List.map_cons] at hk
          rw [List.nodup_append] at hk
          exact hk.2.2 _ hm _ (by simp) rfl
        obtain ⟨a1, a2⟩ := rtFuncsA fs ps' (d ++ [(f.1, canonNodesA f.2)])
          (fun g hg => hw g (by simp [hg])) (by simpa using hk) hps
        refine ⟨?_, ?_⟩
        · simp only [deserFuncsA, i1]
          rw [kvSet_fresh d f.1 _ hfresh, a1]
          simp
        · simp only [List.map_cons, serFuncsA, i2, a2]

theorem rtModelA (W : ModelAS) (Q : ModelAP) (hw : wfModelAB W = true) (h : serModelA W = .ok Q) :
    deserModelA Q = .ok (canonModelA W) ∧ serModelA (canonModelA W) = .ok Q := by
  simp only [serModelA] at h
  split at h
  · simp at h
  · rename_i g hg
    split at h
    · simp at h
    · rename_i fs hfs
      simp only [Except.ok.injEq] at h
      subst h
      simp only [wfModelAB, Bool.and_eq_true, List.all_eq_true] at hw
      obtain ⟨⟨w1, w2⟩, w3⟩ := hw
      have k2 := (fidsNodupB_iff _).mp w2
      obtain ⟨g1, g2⟩ := rtGraphA W.graph g w1 hg
      obtain ⟨f1, f2⟩ := rtFuncsA W.funcs fs [] w3 (by simpa using k2) hfs
      simp only [List.nil_append] at f1
      exact ⟨by simp only [deserModelA, g1, f1, canonModelA], by simp only [canonModelA, serModelA, g2, f2]⟩

theorem deserFuncsA_wf : ∀ (fs : List FuncAP) (d d' : List (FId × List NodeAS)), deserFuncsA d fs = .ok d' →
    (d.map (·.1)).Nodup → (∀ e ∈ d, wfNodesAB e.2 = true) →
    (d'.map (·.1)).Nodup ∧ ∀ e ∈ d', wfNodesAB e.2 = true
  | [], d, d', h, h1, h2 => by
    simp only [deserFuncsA, Except.ok.injEq] at h
    subst h
    exact ⟨h1, h2⟩
  | f :: fs, d, d', h, h1, h2 => by
    simp only [deserFuncsA] at h
    split at h
    · simp at h
    · rename_i ns hns
      refine deserFuncsA_wf fs _ d' h (kvSet_keys_nodup d f.id ns h1) ?_
      intro e he
      rcases kvSet_mem d f.id ns e he with h3 | h3
      · exact h2 e h3
      · subst h3
        exact wfDeserNodesA f.nodes ns hns

theorem wfDeserModelA (X : ModelAP) (W : ModelAS) (h : deserModelA X = .ok W) : wfModelAB W = true := by
  simp only [deserModelA] at h
  split at h
  · simp at h
  · rename_i g hg
    split at h
    · simp at h
    · rename_i fs hfs
      simp only [Except.ok.injEq] at h
      subst h
      obtain ⟨k1, k2⟩ := deserFuncsA_wf X.funcs [] fs hfs (by simp) (by simp)
      simp only [wfModelAB, Bool.and_eq_true, List.all_eq_true]
      exact ⟨⟨wfDeserGraphA X.graph g hg, (fidsNodupB_iff _).mpr k1⟩, k2⟩

theorem canonModelA_id (W : ModelAS) (h : normModelAB W = true) : canonModelA W = W := by
  obtain ⟨g, fs⟩ := W
  simp only [normModelAB, Bool.and_eq_true, List.all_eq_true] at h
  simp only [canonModelA, canonGraphA_id g h.1]
  congr 1
  have : ∀ (l : List (FId × List NodeAS)), (∀ f ∈ l, normNodesAB f.2 = true) →
      l.map (fun f => (f.1, canonNodesA f.2)) = l := by
    intro l
    induction l with
    | nil => intro _; rfl
    | cons f l ih =>
      intro hl
      simp only [List.map_cons, canonNodesA_id f.2 (hl f (by simp)), ih fun g hg => hl g (by simp [hg])]
  exact this fs h.2

/-! ### after a successful deserialization, serialization raises only for an UNDEFINED attribute -/

theorem serAttrsA_err_of_mem : ∀ (bs : List AttrS) (e : AErr), serAttrsA bs = .error e →
    ∃ b ∈ bs, serAttrA b = .error e
  | [], e, h => by simp [serAttrsA] at h
  | b :: bs, e, h => by
    simp only [serAttrsA] at h
    split at h
    · rename_i e' hb
      simp only [Except.error.injEq] at h
      subst h
      exact ⟨b, by simp, hb⟩
    · split at h
      · rename_i e' hbs
        simp only [Except.error.injEq] at h
        subst h
        obtain ⟨c, hc, hce⟩ := serAttrsA_err_of_mem bs _ hbs
        exact ⟨c, by simp [hc], hce⟩
      · simp at h

mutual
theorem unsupAttrA : ∀ (X : AttrP) (W : AttrS) (e : AErr), deserAttrA X = .ok W → serAttrA W = .error e →
    e = .unsupported
  | .mk name doc ref ty tok ok g gs, W, e, h, hs => by
    simp only [deserAttrA] at h
    split at h
    · simp at h
    · split at h
      · simp only [Except.ok.injEq] at h
        subst h
        simp [serAttrA] at hs
      · split at h
        · split at h
          · simp at h
          · rename_i g' hg
            simp only [Except.ok.injEq] at h
            subst h
            simp only [serAttrA] at hs
            split at hs
            · rename_i e' he
              simp only [Except.error.injEq] at hs
              subst hs
              exact unsupGraphA g g' _ hg he
            · simp at hs
        · split at h
          · simp at h
          · rename_i gs' hg
            simp only [Except.ok.injEq] at h
            subst h
            simp only [serAttrA] at hs
            split at hs
            · rename_i e' he
              simp only [Except.error.injEq] at hs
              subst hs
              exact unsupGraphsA gs gs' _ hg he
            · simp at hs
        · simp at h
        · rename_i hk
          simp only [Except.ok.injEq] at h
          subst h
          simp only [serAttrA, hk, Except.error.injEq] at hs
          exact hs.symm
        · rename_i k _ h1 h2 h3 h4
          split at h
          · simp only [Except.ok.injEq] at h
            subst h
            have hk : kindOf ty = .leaf := by
              cases hkk : kindOf ty <;> simp_all
            simp [serAttrA, hk] at hs
          · simp at h
theorem unsupAttrsR : ∀ (X : List AttrP) (k : String) (b : AttrS) (e : AErr), (k, .ok b) ∈ deserAttrsR X →
    serAttrA b = .error e → e = .unsupported
  | [], _, _, _, h, _ => by simp [deserAttrsR] at h
  | a :: as, k, b, e, h, hs => by
    simp only [deserAttrsR, List.mem_cons, Prod.mk.injEq] at h
    rcases h with ⟨_, h⟩ | h
    · exact unsupAttrA a b e h.symm hs
    · exact unsupAttrsR as k b e h hs
theorem unsupNodeA : ∀ (X : NodeAP) (W : NodeAS) (e : AErr), deserNodeA X = .ok W → serNodeA W = .error e →
    e = .unsupported
  | .mk attrs, W, e, h, hs => by
    simp only [deserNodeA] at h
    split at h
    · simp at h
    · rename_i bs hbs
      simp only [Except.ok.injEq] at h
      subst h
      simp only [serNodeA] at hs
      split at hs
      · rename_i e' he
        simp only [Except.error.injEq] at hs
        subst hs
        obtain ⟨b, hb, hbe⟩ := serAttrsA_err_of_mem bs _ he
        obtain ⟨k, hk⟩ := seqA_mem _ bs hbs b hb
        exact unsupAttrsR attrs k b _ (kvDict_mem _ _ hk) hbe
      · simp at hs
theorem unsupNodesA : ∀ (X : List NodeAP) (W : List NodeAS) (e : AErr), deserNodesA X = .ok W →
    serNodesA W = .error e → e = .unsupported
  | [], W, e, h, hs => by
    simp only [deserNodesA, Except.ok.injEq] at h
    subst h
    simp [serNodesA] at hs
  | n :: ns, W, e, h, hs => by
    simp only [deserNodesA] at h
    split at h
    · simp at h
    · rename_i n' hn
      split at h
      · simp at h
      · rename_i ns' hns
        simp only [Except.ok.injEq] at h
        subst h
        simp only [serNodesA] at hs
        split at hs
        · rename_i e' he
          simp only [Except.error.injEq] at hs
          subst hs
          exact unsupNodeA n n' _ hn he
        · split at hs
          · rename_i e' he
            simp only [Except.error.injEq] at hs
            subst hs
            exact unsupNodesA ns ns' _ hns he
          · simp at hs
theorem unsupGraphA : ∀ (X : GraphAP) (W : GraphAS) (e : AErr), deserGraphA X = .ok W → serGraphA W = .error e →
    e = .unsupported
  | .mk nodes, W, e, h, hs => by
    simp only [deserGraphA] at h
    split at h
    · simp at h
    · rename_i ns hns
      simp only [Except.ok.injEq] at h
      subst h
      simp only [serGraphA] at hs
      split at hs
      · rename_i e' he
        simp only [Except.error.injEq] at hs
        subst hs
        exact unsupNodesA nodes ns _ hns he
      · simp at hs
theorem unsupGraphsA : ∀ (X : List GraphAP) (W : List GraphAS) (e : AErr), deserGraphsA X = .ok W →
    serGraphsA W = .error e → e = .unsupported
  | [], W, e, h, hs => by
    simp only [deserGraphsA, Except.ok.injEq] at h
    subst h
    simp [serGraphsA] at hs
  | g :: gs, W, e, h, hs => by
    simp only [deserGraphsA] at h
    split at h
    · simp at h
    · rename_i g' hg
      split at h
      · simp at h
      · rename_i gs' hgs
        simp only [Except.ok.injEq] at h
        subst h
        simp only [serGraphsA] at hs
        split at hs
        · rename_i e' he
          simp only [Except.error.injEq] at hs
          subst hs
          exact unsupGraphA g g' _ hg he
        · split at hs
          · rename_i e' he
            simp only [Except.error.injEq] at hs
            subst hs
            exact unsupGraphsA gs gs' _ hgs he
          · simp at hs
end

theorem serFuncsA_err_of_mem : ∀ (fs : List (FId × List NodeAS)) (e : AErr), serFuncsA fs = .error e →
    ∃ f ∈ fs, serNodesA f.2 = .error e
  | [], e, h => by simp [serFuncsA] at h
  | f :: fs, e, h => by
    simp only [serFuncsA] at h
    split at h
    · rename_i e' hf
      simp only [Except.error.injEq] at h
      subst h
      exact ⟨f, by simp, hf⟩
    · split at h
      · rename_i e' hfs
        simp only [Except.error.injEq] at h
        subst h
        obtain ⟨c, hc, hce⟩ := serFuncsA_err_of_mem fs _ hfs
        exact ⟨c, by simp [hc], hce⟩
      · simp at h

theorem deserFuncsA_unsup : ∀ (fs : List FuncAP) (d d' : List (FId × List NodeAS)), deserFuncsA d fs = .ok d' →
    (∀ f ∈ d, ∀ e, serNodesA f.2 = .error e → e = .unsupported) →
    ∀ f ∈ d', ∀ e, serNodesA f.2 = .error e → e = .unsupported
  | [], d, d', h, hd => by
    simp only [deserFuncsA, Except.ok.injEq] at h
    subst h
    exact hd
  | f :: fs, d, d', h, hd => by
    simp only [deserFuncsA] at h
    split at h
    · simp at h
    · rename_i ns hns
      refine deserFuncsA_unsup fs _ d' h ?_
      intro g hg e he
      rcases kvSet_mem d f.id ns g hg with h3 | h3
      · exact hd g h3 e he
      · subst h3
        exact unsupNodesA f.nodes ns e hns he

theorem unsupModelA (X : ModelAP) (W : ModelAS) (e : AErr) (h : deserModelA X = .ok W)
    (hs : serModelA W = .error e) : e = .unsupported := by
  simp only [deserModelA] at h
  split at h
  · simp at h
  · rename_i g hg
    split at h
    · simp at h
    · rename_i fs hfs
      simp only [Except.ok.injEq] at h
      subst h
      simp only [serModelA] at hs
      split at hs
      · rename_i e' he
        simp only [Except.error.injEq] at hs
        subst hs
        exact unsupGraphA X.graph g _ hg he
      · split at hs
        · rename_i e' he
          simp only [Except.error.injEq] at hs
          subst hs
          obtain ⟨f, hf, hfe⟩ := serFuncsA_err_of_mem fs _ he
          exact deserFuncsA_unsup X.funcs [] fs hfs (by simp) f hf _ hfe
        · simp at hs

end IrVerif.Scope
